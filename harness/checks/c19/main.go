// C19 — concurrent operation never corrupts state or loses writes.
//
// Built with the Go race detector (checkptr implied). Workloads:
//   shard   writers with unique timestamps, overwriters on hot keys, readers
//           through both read APIs, a snapshotter, explicit and background
//           compactions, deletes of other series, backups, with delays at
//           hooks between critical sections;
//   types   goroutines writing the same new field with different types at
//           the same instant;
//   pool    the bounded connection pool under Get/Close/MarkUnusable/Close;
//   meta    the metadata state machine under concurrent apply / snapshot /
//           persist / read;
//   cluster concurrent /write (all levels, batches containing points the
//           local owner drops) and /query on a 3-node RF3 database, then a
//           replica comparison;
//   delete  sequential deletes over several TSM files under a watchdog that
//           turns an identical pair of goroutine dumps into a deadlock verdict.
// Oracles: race reports in target code, crashes (supervisor), deadlock
// evidence, per-read "acknowledged-before ⊆ read ⊆ started-before", every
// acknowledged write readable at quiescence, porcupine linearizability of hot
// key registers, one type per field, pool bounds, replica equality.
package main

import (
	"bufio"
	"bytes"
	"fmt"
	"io"
	"math/rand"
	"net"
	"os"
	"path/filepath"
	"regexp"
	"sort"
	"strings"
	"sync"
	"sync/atomic"
	"time"

	"github.com/anishathalye/porcupine"
	"github.com/influxdata/influxdb/coordinator"
	"github.com/influxdata/influxdb/models"
	"github.com/influxdata/influxdb/pkg/verifhook"
	"github.com/influxdata/influxdb/services/meta"

	"verifharness/internal/cluster"
	"verifharness/internal/ev"
	sm "verifharness/internal/shardmodel"
)

func main() { ev.Supervise("C19", body) }

var (
	r     *ev.Run
	clock = time.Now()
)

func now() int64 { return int64(time.Since(clock)) }

func body() {
	r = ev.Start("C19", "exploration")
	r.Rule = "six stress workloads under -race, repeated per seed (shard: 4 writers + 2 hot-key overwriters + 3 readers + snapshotter + compactor + deleter + backup with hook delays; new-field type race; connection pool; meta FSM apply/snapshot/persist/read; 3-node cluster concurrent writes and queries with replica comparison; sequential deletes under a deadlock watchdog). A repetition is non-trivial when >=1 read overlapped >=1 write on the same key and >=1 layout change (snapshot/compaction) happened during it; distinct by (workload, repetition seed, hash of the hook-firing order prefix)."
	r.Assumptions = []string{
		"the race detector only reports races the executed schedules expose; coverage is widened by repetition and injected delays, never closed",
		"a watchdog without identical goroutine dumps is inconclusive, not a deadlock",
	}
	r.Floor = 4
	reps := r.Pick(4, 16)
	dir := ev.TempDir("c19")
	defer os.RemoveAll(dir)
	g := r.Rand("reps")
	for i := 0; i < reps; i++ {
		seed := g.Int63()
		id := fmt.Sprintf("shard/%d", i)
		if !r.Skip(id) {
			shardWorkload(id, seed, filepath.Join(dir, fmt.Sprintf("s%d", i)), i)
		}
		id = fmt.Sprintf("types/%d", i)
		if !r.Skip(id) {
			typeRace(id, seed, filepath.Join(dir, fmt.Sprintf("t%d", i)))
		}
		id = fmt.Sprintf("pool/%d", i)
		if !r.Skip(id) {
			poolWorkload(id, seed)
		}
		id = fmt.Sprintf("meta/%d", i)
		if !r.Skip(id) {
			metaWorkload(id, seed)
		}
		id = fmt.Sprintf("delete/%d", i)
		if !r.Skip(id) {
			deleteDeadlock(id, seed, filepath.Join(dir, fmt.Sprintf("d%d", i)))
		}
		id = fmt.Sprintf("tsidelete/%d", i)
		if i < 1 && !r.Skip(id) {
			tsiDeleteDeadlock(id, seed, filepath.Join(dir, fmt.Sprintf("i%d", i)))
		}
	}
	if !r.Skip("cluster/0") {
		clusterWorkload("cluster/0", g.Int63(), filepath.Join(dir, "cl"))
	}
	verifhook.Reset()
	raceReports()
	r.Finish()
}

// ------------------------------------------------------------------ shard

type wrec struct{ call, ret int64 }

func shardWorkload(caseID string, seed int64, dir string, rep int) {
	r.Eval(1)
	g := rand.New(rand.NewSource(seed))
	env := sm.NewEnv(dir, []string{"inmem", "tsi1"}[rep%2])
	env.Background = true
	if err := env.Open(); err != nil {
		r.Inconclusive(caseID + ": open: " + err.Error())
		return
	}
	var hookOrder []string
	var hmu sync.Mutex
	var layoutChanges int64
	delay := func(name string, args ...interface{}) error {
		if p, _ := args[0].(string); !strings.HasPrefix(p, dir) {
			return nil
		}
		hmu.Lock()
		if len(hookOrder) < 400 {
			hookOrder = append(hookOrder, name)
		}
		hmu.Unlock()
		if name == "snap.installed" || name == "fs.renamed" {
			atomic.AddInt64(&layoutChanges, 1)
		}
		time.Sleep(time.Duration(1+len(name)%3) * time.Millisecond)
		return nil
	}
	for _, h := range []string{"snap.written", "snap.installed", "fs.renamed", "fs.removed", "del.tombstoned", "del.cache", "wal.rolled"} {
		verifhook.Set(h, delay)
	}
	defer verifhook.Reset()

	const W = 4
	nWrites := r.Pick(250, 1200)
	recs := make([][]wrec, W)
	for w := range recs {
		recs[w] = make([]wrec, nWrites)
	}
	var started, acked [W]int64 // counts
	series := func(w int) sm.Series {
		return sm.Series{Name: "cpu", Tags: map[string]string{"host": fmt.Sprintf("w%d", w)}}
	}
	var wg sync.WaitGroup
	stop := make(chan struct{})
	failed := int32(0)
	fail := func(sig, what string, wit interface{}) {
		if atomic.CompareAndSwapInt32(&failed, 0, 1) {
			r.Violation(sig, caseID, what, wit)
		}
	}
	// writers
	for w := 0; w < W; w++ {
		wg.Add(1)
		go func(w int) {
			defer wg.Done()
			for n := 0; n < nWrites && atomic.LoadInt32(&failed) == 0; n++ {
				p := sm.Point{Series: series(w), Fields: map[string]sm.Val{"i0": {Kind: 'i', I: int64(n)}}, Time: int64(n)}
				recs[w][n].call = now()
				atomic.StoreInt64(&started[w], int64(n+1))
				res := env.Write([]sm.Point{p})
				if res.Err != nil {
					fail("C19/shard/write-error", "a write failed under concurrency: "+res.Err.Error(), nil)
					return
				}
				recs[w][n].ret = now()
				atomic.StoreInt64(&acked[w], int64(n+1))
			}
		}(w)
	}
	// hot-key overwriters + porcupine history
	type hop struct {
		key   int64
		write bool
		val   int64
	}
	var pmu sync.Mutex
	var history []porcupine.Operation
	hotSeries := sm.Series{Name: "hot", Tags: map[string]string{"host": "h"}}
	hotOps := r.Pick(60, 200)
	var overl int64
	for c := 0; c < 2; c++ {
		wg.Add(1)
		go func(c int) {
			defer wg.Done()
			lg := rand.New(rand.NewSource(seed + int64(c)))
			for k := 0; k < hotOps && atomic.LoadInt32(&failed) == 0; k++ {
				key := int64(lg.Intn(4))
				val := int64(c*1000000 + k + 1)
				call := now()
				res := env.Write([]sm.Point{{Series: hotSeries, Fields: map[string]sm.Val{"i0": {Kind: 'i', I: val}}, Time: key}})
				ret := now()
				if res.Err != nil {
					fail("C19/shard/write-error", "a hot-key write failed: "+res.Err.Error(), nil)
					return
				}
				pmu.Lock()
				history = append(history, porcupine.Operation{ClientId: c, Input: hop{key, true, val}, Call: call, Output: int64(0), Return: ret})
				pmu.Unlock()
			}
		}(c)
	}
	// readers
	var readsDone int64
	for rd := 0; rd < 3; rd++ {
		wg.Add(1)
		go func(rd int) {
			defer wg.Done()
			lg := rand.New(rand.NewSource(seed ^ int64(rd+77)))
			for atomic.LoadInt32(&failed) == 0 {
				select {
				case <-stop:
					return
				default:
				}
				if lg.Intn(3) == 0 {
					// hot key read
					key := int64(lg.Intn(4))
					call := now()
					got, err := env.ReadCursor(hotSeries, "i0", key, key, true)
					ret := now()
					if err != nil {
						fail("C19/shard/read-error", "read failed under concurrency: "+err.Error(), nil)
						return
					}
					var v int64
					if len(got) > 1 {
						fail("C19/shard/two-points-for-one-timestamp", fmt.Sprintf("hot key t=%d returned %d points", key, len(got)), got)
						return
					}
					if len(got) == 1 {
						v = got[0].V.I
					}
					pmu.Lock()
					history = append(history, porcupine.Operation{ClientId: 10 + rd, Input: hop{key, false, 0}, Call: call, Output: v, Return: ret})
					pmu.Unlock()
					continue
				}
				w := lg.Intn(W)
				a := atomic.LoadInt64(&acked[w]) // acknowledged before the read begins
				call := now()
				var got []sm.TV
				var err error
				if lg.Intn(2) == 0 {
					got, err = env.ReadCursor(series(w), "i0", sm.MinTime, sm.MaxTime, lg.Intn(2) == 0)
				} else {
					var m map[string][]sm.TV
					m, err = env.ReadIterator("cpu", "i0", 0, sm.MinTime, sm.MaxTime, true)
					got = m[series(w).ID()]
				}
				_ = call
				b := atomic.LoadInt64(&started[w]) // started before the read returned
				if err != nil {
					fail("C19/shard/read-error", "read failed under concurrency: "+err.Error(), nil)
					return
				}
				seen := map[int64]bool{}
				for _, tv := range got {
					if tv.V.I != tv.T || tv.T < 0 || tv.T >= b {
						fail("C19/shard/phantom-read", fmt.Sprintf("read of writer %d returned t=%d v=%d although only %d writes had been started", w, tv.T, tv.V.I, b), nil)
						return
					}
					seen[tv.T] = true
				}
				for n := int64(0); n < a; n++ {
					if !seen[n] {
						fail("C19/shard/read-misses-acknowledged-write", fmt.Sprintf("a read that began after write #%d of writer %d was acknowledged (%d acknowledged) did not return it (%d points returned)", n, w, a, len(got)), map[string]interface{}{"layout_changes_so_far": atomic.LoadInt64(&layoutChanges)})
						return
					}
				}
				if b > a {
					atomic.AddInt64(&overl, 1)
				}
				atomic.AddInt64(&readsDone, 1)
			}
		}(rd)
	}
	// snapshotter, compactor, deleter, backup
	bg := func(f func(lg *rand.Rand)) {
		wg.Add(1)
		bseed := g.Int63()
		go func() {
			defer wg.Done()
			lg := rand.New(rand.NewSource(bseed))
			for atomic.LoadInt32(&failed) == 0 {
				select {
				case <-stop:
					return
				default:
				}
				f(lg)
				time.Sleep(time.Duration(2+lg.Intn(8)) * time.Millisecond)
			}
		}()
	}
	bg(func(lg *rand.Rand) { env.Snapshot() })
	bg(func(lg *rand.Rand) { env.Compact(sm.CompactKind(1+lg.Intn(8)), []int{0, 3, 10, 1000}[lg.Intn(4)], lg.Intn(1<<20)) })
	victim := 0
	bg(func(lg *rand.Rand) {
		victim++
		s := sm.Series{Name: "mem", Tags: map[string]string{"host": fmt.Sprintf("v%d", victim%5)}}
		var batch []sm.Point
		for k := 0; k < 5; k++ {
			batch = append(batch, sm.Point{Series: s, Fields: map[string]sm.Val{"f0": {Kind: 'f', F: float64(k)}}, Time: int64(k)})
		}
		env.Write(batch)
		env.Delete(sm.Selector{Measurement: "mem", TagEq: map[string]string{"host": s.Tags["host"]}}, 1, 3, true, true)
		if victim%2 == 0 {
			// a range no TSM file overlaps: the delete then decides from the cache alone
			env.Delete(sm.Selector{Measurement: "mem", TagEq: map[string]string{"host": s.Tags["host"]}}, 1<<60, 1<<60+10, true, true)
		}
	})
	bg(func(lg *rand.Rand) { env.Store.BackupShard(env.ShardID, time.Time{}, io.Discard) })

	// wait for the writers (watchdog: inconclusive)
	done := make(chan struct{})
	go func() {
		for {
			all := true
			for w := 0; w < W; w++ {
				if atomic.LoadInt64(&acked[w]) < int64(nWrites) {
					all = false
				}
			}
			if all || atomic.LoadInt32(&failed) != 0 {
				close(done)
				return
			}
			time.Sleep(5 * time.Millisecond)
		}
	}()
	select {
	case <-done:
	case <-time.After(8 * time.Minute):
		r.Inconclusive(caseID + ": writers did not finish")
	}
	close(stop)
	wres, _ := ev.Watch(4*time.Minute, 20*time.Second, wg.Wait)
	if wres != ev.Finished {
		if wres == ev.Deadlocked {
			fail("C19/shard/deadlock", "goroutines of the stress workload are blocked on the same stacks in two dumps", nil)
		} else {
			r.Inconclusive(caseID + ": workload goroutines did not stop")
		}
		return
	}
	if atomic.LoadInt32(&failed) != 0 {
		env.Close()
		return
	}
	// quiescence: every acknowledged write readable, also after a restart
	for pass := 0; pass < 2; pass++ {
		for w := 0; w < W; w++ {
			got, err := env.ReadCursor(series(w), "i0", sm.MinTime, sm.MaxTime, true)
			if err != nil || len(got) != nWrites {
				fail("C19/shard/acknowledged-write-lost", fmt.Sprintf("after the load stopped (pass %d) writer %d has %d of %d acknowledged points readable (%v)", pass, w, len(got), nWrites, err), nil)
				env.Close()
				return
			}
		}
		if pass == 0 {
			if err := env.Reopen(); err != nil {
				fail("C19/shard/reopen-error", err.Error(), nil)
				return
			}
		}
	}
	env.Close()
	// linearizability of the hot keys
	model := porcupine.Model{
		Partition: func(h []porcupine.Operation) [][]porcupine.Operation {
			m := map[int64][]porcupine.Operation{}
			for _, op := range h {
				k := op.Input.(hop).key
				m[k] = append(m[k], op)
			}
			var out [][]porcupine.Operation
			for _, v := range m {
				out = append(out, v)
			}
			return out
		},
		Init: func() interface{} { return int64(0) },
		Step: func(state, in, out interface{}) (bool, interface{}) {
			o := in.(hop)
			if o.write {
				return true, o.val
			}
			return out.(int64) == state.(int64), state
		},
		DescribeOperation: func(in, out interface{}) string {
			o := in.(hop)
			if o.write {
				return fmt.Sprintf("write(t=%d,%d)", o.key, o.val)
			}
			return fmt.Sprintf("read(t=%d)->%d", o.key, out.(int64))
		},
	}
	res, _ := porcupine.CheckOperationsVerbose(model, history, 90*time.Second)
	r.Count("porcupine_operations", int64(len(history)))
	switch res {
	case porcupine.Illegal:
		fail("C19/shard/hot-key-history-not-linearizable", "the recorded history of writes and reads on the hot keys is not linearizable as a register", map[string]interface{}{"operations": len(history)})
		return
	case porcupine.Unknown:
		r.Inconclusive(caseID + ": linearizability check timed out")
	}
	hmu.Lock()
	order := strings.Join(hookOrder, ",")
	hmu.Unlock()
	r.Count("shard_reads_checked", atomic.LoadInt64(&readsDone))
	r.Count("shard_reads_overlapping_writes", atomic.LoadInt64(&overl))
	r.Count("shard_layout_changes", atomic.LoadInt64(&layoutChanges))
	if overl > 0 && layoutChanges > 0 {
		r.Nontrivial(fmt.Sprintf("shard|%d|%s", seed, ev.Hash(order)))
	}
	if r.WantSample() {
		if len(order) > 300 {
			order = order[:300]
		}
		r.Sample(map[string]interface{}{"case": caseID, "index": env.Index, "writes_per_writer": nWrites, "reads_checked": readsDone, "reads_overlapping_writes": overl, "layout_changes": layoutChanges, "hook_order_prefix": order, "hot_key_operations": len(history)})
	}
}

// ------------------------------------------------------------------ new-field type race

func typeRace(caseID string, seed int64, dir string) {
	r.Eval(1)
	env := sm.NewEnv(dir, "inmem")
	if err := env.Open(); err != nil {
		r.Inconclusive(caseID + ": open: " + err.Error())
		return
	}
	defer env.Close()
	rounds := r.Pick(40, 300)
	kinds := []byte{'f', 'i', 's', 'b'}
	for round := 0; round < rounds; round++ {
		field := fmt.Sprintf("nf%d", round)
		const G = 6
		var wg sync.WaitGroup
		start := make(chan struct{})
		errs := make([]error, G)
		for gi := 0; gi < G; gi++ {
			wg.Add(1)
			go func(gi int) {
				defer wg.Done()
				k := kinds[gi%len(kinds)]
				var v sm.Val
				switch k {
				case 'f':
					v = sm.Val{Kind: 'f', F: float64(gi)}
				case 'i':
					v = sm.Val{Kind: 'i', I: int64(gi)}
				case 's':
					v = sm.Val{Kind: 's', S: fmt.Sprint(gi)}
				default:
					v = sm.Val{Kind: 'b', B: true}
				}
				p := sm.Point{Series: sm.Series{Name: "race", Tags: map[string]string{"host": fmt.Sprintf("g%d", gi)}}, Fields: map[string]sm.Val{field: v}, Time: int64(gi)}
				<-start
				errs[gi] = env.Write([]sm.Point{p}).Err
			}(gi)
		}
		close(start)
		wg.Wait()
		// exactly one type; every stored value of that type; every loser got an error
		mf := env.Shard().MeasurementFields([]byte("race"))
		fld := mf.Field(field)
		if fld == nil {
			r.Violation("C19/types/field-missing", caseID, fmt.Sprintf("after %d concurrent writes of new field %s no type is registered (errors: %v)", G, field, errs), nil)
			return
		}
		winKind := map[string]byte{"float": 'f', "integer": 'i', "string": 's', "boolean": 'b'}[fld.Type.String()]
		got, err := env.ReadIterator("race", field, 0, sm.MinTime, sm.MaxTime, true)
		if err != nil {
			r.Violation("C19/types/read-error", caseID, err.Error(), nil)
			return
		}
		stored := 0
		for _, pts := range got {
			for _, tv := range pts {
				stored++
				if tv.V.Kind != winKind {
					r.Violation("C19/types/field-holds-two-types", caseID, fmt.Sprintf("field %s is registered as %s but holds a value of kind %c", field, fld.Type, tv.V.Kind), nil)
					return
				}
			}
		}
		okWriters, okWinners := 0, 0
		for gi := 0; gi < G; gi++ {
			if errs[gi] == nil {
				okWriters++
				if kinds[gi%len(kinds)] == winKind {
					okWinners++
				}
			}
		}
		if okWriters != okWinners {
			r.Violation("C19/types/conflicting-write-acknowledged", caseID, fmt.Sprintf("field %s became %s but %d writes of another type were acknowledged without error", field, fld.Type, okWriters-okWinners), map[string]interface{}{"errors": fmt.Sprint(errs)})
			return
		}
		if stored != okWinners {
			r.Violation("C19/types/acknowledged-write-lost", caseID, fmt.Sprintf("field %s: %d writes of the winning type were acknowledged but %d values are stored", field, okWinners, stored), nil)
			return
		}
		r.Count("type_race_rounds", 1)
	}
	r.Nontrivial("types|" + fmt.Sprint(seed))
}

// ------------------------------------------------------------------ connection pool

type countConn struct {
	net.Conn
	id     int64
	closed *int64
	held   int32
}

func (c *countConn) Close() error {
	atomic.AddInt64(c.closed, 1)
	return c.Conn.Close()
}

func poolWorkload(caseID string, seed int64) {
	r.Eval(1)
	const cap = 6
	var created, closed int64
	var fmu sync.Mutex
	var peers []net.Conn
	factory := func() (net.Conn, error) {
		a, b := net.Pipe()
		fmu.Lock()
		peers = append(peers, b)
		fmu.Unlock()
		return &countConn{Conn: a, id: atomic.AddInt64(&created, 1), closed: &closed}, nil
	}
	p, err := coordinator.NewBoundedPool(1, cap, 50*time.Millisecond, factory)
	if err != nil {
		r.Inconclusive(caseID + ": " + err.Error())
		return
	}
	var wg sync.WaitGroup
	var bad int32
	ops := r.Pick(300, 2000)
	for gi := 0; gi < 12; gi++ {
		wg.Add(1)
		go func(gi int) {
			defer wg.Done()
			lg := rand.New(rand.NewSource(seed + int64(gi)))
			for k := 0; k < ops; k++ {
				c, err := p.Get()
				if err != nil {
					continue
				}
				// find the underlying counted conn: the pool wraps it
				live := atomic.LoadInt64(&created) - atomic.LoadInt64(&closed)
				// a slot is freed just before the underlying connection is closed, so one
				// extra connection per concurrent holder may be counted for an instant
				if live > cap+12 {
					if atomic.CompareAndSwapInt32(&bad, 0, 1) {
						r.Violation("C19/pool/more-live-connections-than-capacity", caseID, fmt.Sprintf("%d connections are open, the pool's capacity is %d", live, cap), nil)
					}
				}
				if lg.Intn(5) == 0 {
					coordinator.MarkUnusable(c)
				}
				if lg.Intn(3) == 0 {
					time.Sleep(time.Duration(lg.Intn(200)) * time.Microsecond)
				}
				c.Close()
			}
		}(gi)
	}
	wg.Wait()
	p.Close()
	if _, err := p.Get(); err == nil {
		r.Violation("C19/pool/get-after-close-succeeds", caseID, "Get on a closed pool returned a connection", nil)
	}
	fmu.Lock()
	for _, b := range peers {
		b.Close()
	}
	fmu.Unlock()
	r.Count("pool_connections_created", atomic.LoadInt64(&created))
	r.Nontrivial("pool|" + fmt.Sprint(seed))
}

// ------------------------------------------------------------------ meta FSM

func metaWorkload(caseID string, seed int64) {
	r.Eval(1)
	cfg := meta.NewConfig()
	cfg.RetentionAutoCreate = true
	fsm := meta.NewVerifFSM(cfg)
	var idx uint64 = 1
	var imu sync.Mutex
	apply := func(b []byte) {
		imu.Lock()
		idx++
		i := idx
		fsm.Apply(i, 1, b)
		imu.Unlock()
	}
	apply(cmdCreateDataNode("h1:8086", "h1:8088"))
	apply(cmdCreateDataNode("h2:8086", "h2:8088"))
	apply(cmdCreateDatabase("db0"))
	var wg sync.WaitGroup
	stop := make(chan struct{})
	n := r.Pick(300, 3000)
	wg.Add(1)
	go func() { // applier: valid and rejected commands, node-list commands
		defer wg.Done()
		lg := rand.New(rand.NewSource(seed))
		for k := 0; k < n; k++ {
			switch lg.Intn(6) {
			case 0:
				apply(cmdCreateDatabase(fmt.Sprintf("db%d", lg.Intn(5))))
			case 1:
				apply(cmdUpdateDataNode(uint64(1+lg.Intn(2)), fmt.Sprintf("h%d:8086", k), fmt.Sprintf("h%d:8088", k)))
			case 2:
				apply(cmdCreateShardGroup("db0", "autogen", int64(k)*int64(time.Hour)*200))
			case 3:
				apply(cmdDropDatabase("nosuchdb")) // rejected or no-op
			case 4:
				apply(cmdCreateUser(fmt.Sprintf("u%d", lg.Intn(4)), "hash", false))
			default:
				apply(cmdCreateDataNode(fmt.Sprintf("x%d:8086", k), fmt.Sprintf("x%d:8088", k)))
			}
		}
		close(stop)
	}()
	for s := 0; s < 2; s++ { // snapshot + persist
		wg.Add(1)
		go func() {
			defer wg.Done()
			for {
				select {
				case <-stop:
					return
				default:
				}
				if snap, err := fsm.Snapshot(); err == nil {
					snap.Persist()
				}
			}
		}()
	}
	wres, _ := ev.Watch(5*time.Minute, 20*time.Second, wg.Wait)
	if wres != ev.Finished {
		r.Inconclusive(caseID + ": meta workload did not finish")
		return
	}
	r.Count("meta_commands_applied_concurrently", int64(n))
	r.Nontrivial("meta|" + fmt.Sprint(seed))
}

// ------------------------------------------------------------------ delete deadlock watchdog

func deleteDeadlock(caseID string, seed int64, dir string) {
	r.Eval(1)
	env := sm.NewEnv(dir, "inmem")
	if err := env.Open(); err != nil {
		r.Inconclusive(caseID + ": open: " + err.Error())
		return
	}
	g := rand.New(rand.NewSource(seed))
	abandoned := false
	defer func() {
		if !abandoned {
			env.Close()
		}
	}()
	rounds := r.Pick(25, 150)
	for k := 0; k < rounds; k++ {
		// several files whose key sets differ, then a delete of a subset of series
		nfiles := 2 + g.Intn(3)
		for f := 0; f < nfiles; f++ {
			var batch []sm.Point
			for h := 0; h < 6; h++ {
				if g.Intn(3) == 0 {
					continue
				}
				batch = append(batch, sm.Point{Series: sm.Series{Name: "cpu", Tags: map[string]string{"host": fmt.Sprintf("h%d", h)}}, Fields: map[string]sm.Val{"f0": {Kind: 'f', F: float64(k)}}, Time: int64(k*10 + f)})
			}
			if len(batch) == 0 {
				continue
			}
			env.Write(batch)
			env.Snapshot()
		}
		sel := sm.Selector{Measurement: "cpu", TagEq: map[string]string{"host": fmt.Sprintf("h%d", g.Intn(6))}}
		if g.Intn(2) == 0 {
			sel = sm.Selector{Measurement: "cpu"}
		}
		var derr error
		res, dump := ev.Watch(90*time.Second, 15*time.Second, func() {
			derr = env.Delete(sel, int64(k*10), int64(k*10+1+g.Intn(3)), true, true)
		})
		if res == ev.Deadlocked {
			abandoned = true
			stacks := blockedTargetStacks(dump)
			r.Violation("C19/deadlock/"+deadlockSite(dump), caseID, "a delete issued by a single sequential client never returned: the goroutines it spawned are blocked on the same stacks in two dumps taken 15 s apart", map[string]interface{}{"blocked": stacks})
			return
		}
		if res == ev.Slow {
			abandoned = true
			r.Inconclusive(caseID + ": delete did not return within the watchdog, no deadlock evidence")
			return
		}
		if derr != nil {
			r.Inconclusive(caseID + ": delete error: " + derr.Error())
			return
		}
		r.Count("sequential_deletes_over_several_files", 1)
		if k%8 == 7 {
			env.Compact(sm.CompactAllFull, 0, 0)
		}
	}
	r.Nontrivial("delete|" + fmt.Sprint(seed))
}

// tsiDeleteDeadlock issues deletes that span several measurements on a tsi1
// shard whose log file is compacted after every write (the production trigger
// is a log file reaching MaxIndexLogFileSize while a delete runs).
func tsiDeleteDeadlock(caseID string, seed int64, dir string) {
	r.Eval(1)
	env := sm.NewEnv(dir, "tsi1")
	env.TSILogSize = 1
	if err := env.Open(); err != nil {
		r.Inconclusive(caseID + ": open: " + err.Error())
		return
	}
	g := rand.New(rand.NewSource(seed))
	abandoned := false
	defer func() {
		if !abandoned {
			env.Close()
		}
	}()
	rounds := r.Pick(6, 40)
	for k := 0; k < rounds; k++ {
		nm := 2 + g.Intn(3)
		for m := 0; m < nm; m++ {
			env.Write([]sm.Point{{Series: sm.Series{Name: fmt.Sprintf("m%d", m), Tags: map[string]string{"host": "a"}}, Fields: map[string]sm.Val{"f0": {Kind: 'f', F: float64(k)}}, Time: int64(k)}})
		}
		var derr error
		res, dump := ev.Watch(40*time.Second, 8*time.Second, func() {
			derr = env.Delete(sm.Selector{TagEq: map[string]string{"host": "a"}}, 0, 0, false, false)
		})
		if res == ev.Deadlocked {
			abandoned = true
			site := "unknown-site"
			if strings.Contains(dump, "tsi1.(*Partition).Wait") && (strings.Contains(dump, "tsi1.(*LogFile).Close") || strings.Contains(dump, "tsi1.(*IndexFile).Close")) {
				site = "tsi1-delete-waits-for-log-compaction-that-waits-for-the-deletes-iterator"
			} else {
				site = deadlockSite(dump)
			}
			r.Violation("C19/deadlock/"+site, caseID, "a DROP SERIES WHERE host='a' spanning several measurements, issued by a single sequential client on a tsi1 shard, never returned: blocked goroutines are on the same stacks in two dumps taken 8 s apart", map[string]interface{}{"blocked": blockedTargetStacks(dump), "round": k})
			return
		}
		if res == ev.Slow {
			abandoned = true
			r.Inconclusive(caseID + ": tsi1 delete did not return within the watchdog, no deadlock evidence")
			return
		}
		if derr != nil {
			r.Inconclusive(caseID + ": tsi1 delete error: " + derr.Error())
			return
		}
		r.Count("tsi1_multi_measurement_deletes", 1)
	}
	r.Nontrivial("tsidelete|" + fmt.Sprint(seed))
}

var reTargetFn = regexp.MustCompile(`(?m)^github\.com/influxdata/influxdb/(?:\(\*\w+\)|[^\s(])+`)

func blockedTargetStacks(dump string) []string {
	var out []string
	for _, gtxt := range strings.Split(dump, "\n\n") {
		if !strings.Contains(gtxt, "Lock") && !strings.Contains(gtxt, "semacquire") {
			continue
		}
		if fns := reTargetFn.FindAllString(gtxt, 3); len(fns) > 0 {
			out = append(out, strings.Join(fns, " <- "))
		}
	}
	sort.Strings(out)
	if len(out) > 12 {
		out = out[:12]
	}
	return out
}

func deadlockSite(dump string) string {
	if strings.Contains(dump, "deleteSeriesRange") && strings.Contains(dump, "RWMutex") {
		return "deleteSeriesRange-seriesKeysLock"
	}
	st := blockedTargetStacks(dump)
	if len(st) > 0 {
		f := st[0]
		if i := strings.Index(f, " <- "); i > 0 {
			f = f[:i]
		}
		return f[strings.LastIndex(f, "/")+1:]
	}
	return "unknown-site"
}

// ------------------------------------------------------------------ cluster

func clusterWorkload(caseID string, seed int64, dir string) {
	r.Eval(1)
	c, err := cluster.Start(dir, 1, 3, cluster.Options{})
	if err != nil {
		r.Inconclusive(caseID + ": start cluster: " + err.Error())
		return
	}
	defer c.Close()
	if _, err := c.Query(0, "", "CREATE DATABASE db WITH REPLICATION 3 SHARD DURATION 1h", nil); err != nil {
		r.Inconclusive(caseID + ": " + err.Error())
		return
	}
	c.WaitMetaCaughtUp(cluster.DefaultWait)
	t0 := int64(1700000000) * 1e9
	// the field "f" is a float; some batches carry a point with f as a string
	// (dropped by every owner, reported as a partial write)
	if st, b, err := c.Write(0, "db", "", "all", "ns", []byte(fmt.Sprintf("cpu,host=seed f=1.5 %d\n", t0))); err != nil || st != 204 {
		r.Inconclusive(fmt.Sprintf("%s: seed write: %d %s %v", caseID, st, b, err))
		return
	}
	var wg sync.WaitGroup
	nW := 6
	per := r.Pick(40, 200)
	type ack struct {
		host string
		ts   int64
	}
	var amu sync.Mutex
	var acked []ack
	for w := 0; w < nW; w++ {
		wg.Add(1)
		go func(w int) {
			defer wg.Done()
			lg := rand.New(rand.NewSource(seed + int64(w)))
			for k := 0; k < per; k++ {
				var b bytes.Buffer
				var good []ack
				n := 3 + lg.Intn(6)
				badAt := -1
				if lg.Intn(2) == 0 {
					badAt = lg.Intn(n)
				}
				for j := 0; j < n; j++ {
					ts := t0 + int64(w)*1e9 + int64(k)*1e6 + int64(j)
					host := fmt.Sprintf("w%d", w)
					if j == badAt {
						fmt.Fprintf(&b, "cpu,host=%s f=\"oops\" %d\n", host, ts)
						continue
					}
					fmt.Fprintf(&b, "cpu,host=%s f=%d.25 %d\n", host, k*10+j, ts)
					good = append(good, ack{host, ts})
				}
				level := []string{"one", "quorum", "all", "any"}[lg.Intn(4)]
				st, _, err := c.Write(lg.Intn(3), "db", "", level, "ns", b.Bytes())
				if err != nil {
					continue
				}
				// 204: all stored; 400 with a partial write: the good points were stored
				if st == 204 || (st == 400 && badAt >= 0) {
					amu.Lock()
					acked = append(acked, good...)
					amu.Unlock()
				}
			}
		}(w)
	}
	stopQ := make(chan struct{})
	var qwg sync.WaitGroup
	for q := 0; q < 3; q++ {
		qwg.Add(1)
		go func(q int) {
			defer qwg.Done()
			for {
				select {
				case <-stopQ:
					return
				default:
				}
				c.Query(q, "db", "SELECT count(f) FROM cpu GROUP BY host", nil)
			}
		}(q)
	}
	wg.Wait()
	close(stopQ)
	qwg.Wait()
	// quiescence: wait for hinted handoff to drain (bounded), then compare replicas
	deadline := time.Now().Add(60 * time.Second)
	var per3 [3]string
	for {
		for i, d := range c.Datas {
			per3[i] = localContent(d)
		}
		if per3[0] == per3[1] && per3[1] == per3[2] {
			break
		}
		if time.Now().After(deadline) {
			break
		}
		time.Sleep(300 * time.Millisecond)
	}
	if !(per3[0] == per3[1] && per3[1] == per3[2]) {
		r.Violation("C19/cluster/replicas-diverge", caseID, "after concurrent writes stopped and hinted handoff had 60 s to drain, the three replicas of an RF3 database hold different points: "+firstDiff(per3[0], per3[1], per3[2]), nil)
		return
	}
	missing := 0
	for _, a := range acked {
		if !strings.Contains(per3[0], fmt.Sprintf("%s@%d", a.host, a.ts)) {
			missing++
		}
	}
	if missing > 0 {
		r.Violation("C19/cluster/acknowledged-write-lost", caseID, fmt.Sprintf("%d of %d acknowledged points are on no replica after the load stopped", missing, len(acked)), nil)
		return
	}
	r.Count("cluster_points_acknowledged", int64(len(acked)))
	r.Nontrivial("cluster|" + fmt.Sprint(seed))
}

func localContent(d *cluster.DataNode) string {
	var lines []string
	st := d.Srv.TSDBStore
	for _, id := range st.ShardIDs() {
		sh := st.Shard(id)
		if sh == nil || sh.Database() != "db" {
			continue
		}
		env := &sm.Env{Store: st, ShardID: id, DB: "db", RP: "autogen", TagKeys: []string{"host"}}
		got, err := env.ReadIterator("cpu", "f", 0, sm.MinTime, sm.MaxTime, true)
		if err != nil {
			lines = append(lines, "ERR "+err.Error())
			continue
		}
		for sid, pts := range got {
			host := strings.TrimPrefix(sid, "cpu,host=")
			for _, tv := range pts {
				lines = append(lines, fmt.Sprintf("%s@%d=%s", host, tv.T, tv.V))
			}
		}
	}
	sort.Strings(lines)
	return strings.Join(lines, "\n")
}

func firstDiff(a, b, c string) string {
	sets := []map[string]bool{{}, {}, {}}
	for i, t := range []string{a, b, c} {
		for _, l := range strings.Split(t, "\n") {
			sets[i][l] = true
		}
	}
	var out []string
	for i := range sets {
		for l := range sets[i] {
			for j := range sets {
				if j != i && !sets[j][l] && len(out) < 6 {
					out = append(out, fmt.Sprintf("replica %d has %q, replica %d does not", i, l, j))
				}
			}
		}
	}
	sort.Strings(out)
	return fmt.Sprintf("replica sizes %d / %d / %d points; %s", len(sets[0]), len(sets[1]), len(sets[2]), strings.Join(out, "; "))
}

// ------------------------------------------------------------------ race reports

func raceReports() {
	pattern := filepath.Join(r.Root, "logs", "c19.race.*")
	files, _ := filepath.Glob(pattern)
	seen := map[string]bool{}
	total, harnessOnly := 0, 0
	judge := func(block []string) {
		if len(block) == 0 {
			return
		}
		total++
		// innermost repository frame of each of the two access stacks
		var tops []string
		var cur *string
		for _, l := range block {
			if strings.HasPrefix(l, "Write at") || strings.HasPrefix(l, "Read at") || strings.HasPrefix(l, "Previous write at") || strings.HasPrefix(l, "Previous read at") ||
				strings.HasPrefix(l, "Atomic") || strings.HasPrefix(l, "Previous atomic") {
				tops = append(tops, "")
				cur = &tops[len(tops)-1]
				continue
			}
			if strings.HasPrefix(l, "Goroutine") {
				break
			}
			t := strings.TrimSpace(l)
			if cur != nil && *cur == "" && strings.HasPrefix(t, "github.com/influxdata/influxdb/") {
				fn := t
				if i := strings.LastIndex(fn, "("); i > 0 {
					fn = fn[:i]
				}
				if strings.Contains(fn, ".Verif") || strings.HasSuffix(fn, "/verifhook.Fire") {
					continue
				}
				*cur = fn[strings.LastIndex(fn, "/")+1:]
			}
		}
		if len(tops) < 2 || tops[0] == "" || tops[1] == "" {
			harnessOnly++ // at least one side is harness code touching shared state itself
			return
		}
		sort.Strings(tops)
		key := strings.Join(tops[:2], "|")
		if !seen[key] {
			seen[key] = true
			txt := strings.Join(block, "\n")
			if len(txt) > 6000 {
				txt = txt[:6000]
			}
			r.Violation("C19/race/"+key, "race-report", "the race detector reported a data race between two pieces of repository code: "+key, map[string]interface{}{"report": txt})
		}
	}
	for _, f := range files {
		fh, err := os.Open(f)
		if err != nil {
			continue
		}
		sc := bufio.NewScanner(fh)
		sc.Buffer(make([]byte, 1<<20), 1<<24)
		var block []string
		for sc.Scan() {
			l := sc.Text()
			if strings.HasPrefix(l, "WARNING: DATA RACE") {
				judge(block)
				block = []string{l}
				continue
			}
			if strings.HasPrefix(l, "==================") {
				judge(block)
				block = nil
				continue
			}
			if block != nil {
				block = append(block, l)
			}
		}
		judge(block)
		fh.Close()
	}
	r.Count("race_reports_total", int64(total))
	r.Count("race_reports_not_between_two_repository_frames", int64(harnessOnly))
	r.Count("race_reports_distinct_in_target_code", int64(len(seen)))
}

var _ = models.MinNanoTime
