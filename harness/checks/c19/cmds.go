package main

func cmdCreateDataNode(h, t string) []byte            { return CmdCreateDataNode(h, t) }
func cmdUpdateDataNode(id uint64, h, t string) []byte { return CmdUpdateDataNode(id, h, t) }
func cmdCreateDatabase(n string) []byte               { return CmdCreateDatabase(n, nil) }
func cmdDropDatabase(n string) []byte                 { return CmdDropDatabase(n) }
func cmdCreateShardGroup(db, rp string, ts int64) []byte {
	return CmdCreateShardGroup(db, rp, ts)
}
func cmdCreateUser(n, h string, admin bool) []byte { return CmdCreateUser(n, h, admin) }
