// pbcmd.go — a tiny protobuf (proto2) wire encoder and one builder per meta
// command type of /repo/services/meta/internal/meta.proto.
//
// services/meta/internal is a Go internal package and cannot be imported from
// the harness, so command bytes are produced here by hand:
//
//	Command { required Type type = 1 (varint);
//	          extension <N> (101..134), length-delimited sub-message }
//
// Every `required` field of a sub-message is always written (also when it is
// zero): the FSM panics on a command whose required fields are missing.
// This file has no dependency on the repository and is meant to be copied by
// other checks (C07).
package main

// ---------------------------------------------------------------- wire level

// PB is an append-only protobuf wire buffer.
type PB struct{ B []byte }

func (p *PB) rawVarint(v uint64) {
	for v >= 0x80 {
		p.B = append(p.B, byte(v)|0x80)
		v >>= 7
	}
	p.B = append(p.B, byte(v))
}

func (p *PB) key(field int, wire int) { p.rawVarint(uint64(field)<<3 | uint64(wire)) }

// Uint64 writes a varint field (uint64, uint32, enum).
func (p *PB) Uint64(field int, v uint64) *PB { p.key(field, 0); p.rawVarint(v); return p }

// Int64 writes an int64/int32 field (negative values are 10 bytes, sign-extended).
func (p *PB) Int64(field int, v int64) *PB { return p.Uint64(field, uint64(v)) }

// Bool writes a bool field.
func (p *PB) Bool(field int, v bool) *PB {
	if v {
		return p.Uint64(field, 1)
	}
	return p.Uint64(field, 0)
}

// Bytes writes a length-delimited field.
func (p *PB) Bytes(field int, b []byte) *PB {
	p.key(field, 2)
	p.rawVarint(uint64(len(b)))
	p.B = append(p.B, b...)
	return p
}

// String writes a string field.
func (p *PB) String(field int, s string) *PB { return p.Bytes(field, []byte(s)) }

// Msg writes an embedded message.
func (p *PB) Msg(field int, m *PB) *PB { return p.Bytes(field, m.B) }

// ------------------------------------------------------------- command types

// Command_Type values and the extension field number of each command message.
const (
	TypeCreateNode                = 1
	TypeDeleteNode                = 2
	TypeCreateDatabase            = 3
	TypeDropDatabase              = 4
	TypeCreateRetentionPolicy     = 5
	TypeDropRetentionPolicy       = 6
	TypeSetDefaultRetentionPolicy = 7 // declared in the proto, NOT handled by storeFSM.Apply (panics)
	TypeUpdateRetentionPolicy     = 8
	TypeCreateShardGroup          = 9
	TypeDeleteShardGroup          = 10
	TypeCreateContinuousQuery     = 11
	TypeDropContinuousQuery       = 12
	TypeCreateUser                = 13
	TypeDropUser                  = 14
	TypeUpdateUser                = 15
	TypeSetPrivilege              = 16
	TypeSetData                   = 17
	TypeSetAdminPrivilege         = 18
	TypeUpdateNode                = 19
	TypeCreateSubscription        = 21
	TypeDropSubscription          = 22
	TypeRemovePeer                = 23
	TypeCreateMetaNode            = 24
	TypeCreateDataNode            = 25
	TypeUpdateDataNode            = 26
	TypeDeleteMetaNode            = 27
	TypeDeleteDataNode            = 28
	TypeSetMetaNode               = 29
	TypeDropShard                 = 30
	TypeTruncateShardGroups       = 31
	TypePruneShardGroups          = 32
	TypeCopyShardOwner            = 33
	TypeRemoveShardOwner          = 34
)

// TypeName maps a Command_Type to its proto enum name.
var TypeName = map[int]string{
	1: "CreateNodeCommand", 2: "DeleteNodeCommand", 3: "CreateDatabaseCommand", 4: "DropDatabaseCommand",
	5: "CreateRetentionPolicyCommand", 6: "DropRetentionPolicyCommand", 7: "SetDefaultRetentionPolicyCommand",
	8: "UpdateRetentionPolicyCommand", 9: "CreateShardGroupCommand", 10: "DeleteShardGroupCommand",
	11: "CreateContinuousQueryCommand", 12: "DropContinuousQueryCommand", 13: "CreateUserCommand",
	14: "DropUserCommand", 15: "UpdateUserCommand", 16: "SetPrivilegeCommand", 17: "SetDataCommand",
	18: "SetAdminPrivilegeCommand", 19: "UpdateNodeCommand", 21: "CreateSubscriptionCommand",
	22: "DropSubscriptionCommand", 23: "RemovePeerCommand", 24: "CreateMetaNodeCommand",
	25: "CreateDataNodeCommand", 26: "UpdateDataNodeCommand", 27: "DeleteMetaNodeCommand",
	28: "DeleteDataNodeCommand", 29: "SetMetaNodeCommand", 30: "DropShardCommand",
	31: "TruncateShardGroupsCommand", 32: "PruneShardGroupsCommand", 33: "CopyShardOwnerCommand",
	34: "RemoveShardOwnerCommand",
}

// ExtField returns the extension field number carrying the sub-message of a
// command type (type 1 -> 101, ..., type 34 -> 134).
func ExtField(typ int) int { return 100 + typ }

// WrapCommand frames a sub-message as a Command of the given type.
func WrapCommand(typ int, sub *PB) []byte {
	var c PB
	c.Uint64(1, uint64(typ))
	c.Msg(ExtField(typ), sub)
	return c.B
}

// RPInfo is the RetentionPolicyInfo message as used inside commands (all four
// scalar fields are `required`).
type RPInfo struct {
	Name               string
	Duration           int64 // nanoseconds
	ShardGroupDuration int64 // nanoseconds
	ReplicaN           uint32
}

func (r RPInfo) pb() *PB {
	var p PB
	p.String(1, r.Name).Int64(2, r.Duration).Int64(3, r.ShardGroupDuration).Uint64(4, uint64(r.ReplicaN))
	return &p
}

// ------------------------------------------------- one builder per command

// CmdCreateNode is the legacy (<0.10) node creation; needs a live raft (peers).
func CmdCreateNode(host string, rnd uint64) []byte {
	var p PB
	p.String(1, host).Uint64(2, rnd)
	return WrapCommand(TypeCreateNode, &p)
}

// CmdDeleteNode is a legacy no-op in the FSM.
func CmdDeleteNode(id uint64, force bool) []byte {
	var p PB
	p.Uint64(1, id).Bool(2, force)
	return WrapCommand(TypeDeleteNode, &p)
}

// CmdCreateDatabase creates a database; rp may be nil.
func CmdCreateDatabase(name string, rp *RPInfo) []byte {
	var p PB
	p.String(1, name)
	if rp != nil {
		p.Msg(2, rp.pb())
	}
	return WrapCommand(TypeCreateDatabase, &p)
}

func CmdDropDatabase(name string) []byte {
	var p PB
	p.String(1, name)
	return WrapCommand(TypeDropDatabase, &p)
}

func CmdCreateRetentionPolicy(db string, rp RPInfo, makeDefault bool) []byte {
	var p PB
	p.String(1, db).Msg(2, rp.pb()).Bool(3, makeDefault)
	return WrapCommand(TypeCreateRetentionPolicy, &p)
}

func CmdDropRetentionPolicy(db, name string) []byte {
	var p PB
	p.String(1, db).String(2, name)
	return WrapCommand(TypeDropRetentionPolicy, &p)
}

// CmdSetDefaultRetentionPolicy exists in the proto but the FSM does not handle
// it (storeFSM.Apply panics with "cannot apply command").
func CmdSetDefaultRetentionPolicy(db, name string) []byte {
	var p PB
	p.String(1, db).String(2, name)
	return WrapCommand(TypeSetDefaultRetentionPolicy, &p)
}

// CmdUpdateRetentionPolicy: nil pointers mean "field not present".
func CmdUpdateRetentionPolicy(db, name string, newName *string, duration *int64, replicaN *uint32, sgDuration *int64, makeDefault bool) []byte {
	var p PB
	p.String(1, db).String(2, name)
	if newName != nil {
		p.String(3, *newName)
	}
	if duration != nil {
		p.Int64(4, *duration)
	}
	if replicaN != nil {
		p.Uint64(5, uint64(*replicaN))
	}
	if sgDuration != nil {
		p.Int64(6, *sgDuration)
	}
	p.Bool(7, makeDefault)
	return WrapCommand(TypeUpdateRetentionPolicy, &p)
}

func CmdCreateShardGroup(db, policy string, timestamp int64) []byte {
	var p PB
	p.String(1, db).String(2, policy).Int64(3, timestamp)
	return WrapCommand(TypeCreateShardGroup, &p)
}

func CmdDeleteShardGroup(db, policy string, id uint64) []byte {
	var p PB
	p.String(1, db).String(2, policy).Uint64(3, id)
	return WrapCommand(TypeDeleteShardGroup, &p)
}

func CmdCreateContinuousQuery(db, name, query string) []byte {
	var p PB
	p.String(1, db).String(2, name).String(3, query)
	return WrapCommand(TypeCreateContinuousQuery, &p)
}

func CmdDropContinuousQuery(db, name string) []byte {
	var p PB
	p.String(1, db).String(2, name)
	return WrapCommand(TypeDropContinuousQuery, &p)
}

func CmdCreateUser(name, hash string, admin bool) []byte {
	var p PB
	p.String(1, name).String(2, hash).Bool(3, admin)
	return WrapCommand(TypeCreateUser, &p)
}

func CmdDropUser(name string) []byte {
	var p PB
	p.String(1, name)
	return WrapCommand(TypeDropUser, &p)
}

func CmdUpdateUser(name, hash string) []byte {
	var p PB
	p.String(1, name).String(2, hash)
	return WrapCommand(TypeUpdateUser, &p)
}

func CmdSetPrivilege(user, db string, privilege int32) []byte {
	var p PB
	p.String(1, user).String(2, db).Int64(3, int64(privilege))
	return WrapCommand(TypeSetPrivilege, &p)
}

// CmdSetData replaces the whole metadata; data is an encoded `Data` message
// (see pbdata.go, or the bytes of an FSM snapshot).
func CmdSetData(data []byte) []byte {
	var p PB
	p.Bytes(1, data)
	return WrapCommand(TypeSetData, &p)
}

func CmdSetAdminPrivilege(user string, admin bool) []byte {
	var p PB
	p.String(1, user).Bool(2, admin)
	return WrapCommand(TypeSetAdminPrivilege, &p)
}

// CmdUpdateNode is a legacy no-op in the FSM.
func CmdUpdateNode(id uint64, host string) []byte {
	var p PB
	p.Uint64(1, id).String(2, host)
	return WrapCommand(TypeUpdateNode, &p)
}

func CmdCreateSubscription(name, db, rp, mode string, destinations []string) []byte {
	var p PB
	p.String(1, name).String(2, db).String(3, rp).String(4, mode)
	for _, d := range destinations {
		p.String(5, d)
	}
	return WrapCommand(TypeCreateSubscription, &p)
}

func CmdDropSubscription(name, db, rp string) []byte {
	var p PB
	p.String(1, name).String(2, db).String(3, rp)
	return WrapCommand(TypeDropSubscription, &p)
}

// CmdRemovePeer needs a live raft instance behind the FSM.
func CmdRemovePeer(id uint64, addr string) []byte {
	var p PB
	p.Uint64(1, id).String(2, addr)
	return WrapCommand(TypeRemovePeer, &p)
}

func CmdCreateMetaNode(httpAddr, tcpAddr string, rnd uint64) []byte {
	var p PB
	p.String(1, httpAddr).String(2, tcpAddr).Uint64(3, rnd)
	return WrapCommand(TypeCreateMetaNode, &p)
}

func CmdCreateDataNode(httpAddr, tcpAddr string) []byte {
	var p PB
	p.String(1, httpAddr).String(2, tcpAddr)
	return WrapCommand(TypeCreateDataNode, &p)
}

func CmdUpdateDataNode(id uint64, httpAddr, tcpAddr string) []byte {
	var p PB
	p.Uint64(1, id).String(2, httpAddr).String(3, tcpAddr)
	return WrapCommand(TypeUpdateDataNode, &p)
}

func CmdDeleteMetaNode(id uint64) []byte {
	var p PB
	p.Uint64(1, id)
	return WrapCommand(TypeDeleteMetaNode, &p)
}

func CmdDeleteDataNode(id uint64) []byte {
	var p PB
	p.Uint64(1, id)
	return WrapCommand(TypeDeleteDataNode, &p)
}

func CmdSetMetaNode(httpAddr, tcpAddr string, rnd uint64) []byte {
	var p PB
	p.String(1, httpAddr).String(2, tcpAddr).Uint64(3, rnd)
	return WrapCommand(TypeSetMetaNode, &p)
}

func CmdDropShard(id uint64) []byte {
	var p PB
	p.Uint64(1, id)
	return WrapCommand(TypeDropShard, &p)
}

func CmdTruncateShardGroups(timestamp int64) []byte {
	var p PB
	p.Int64(1, timestamp)
	return WrapCommand(TypeTruncateShardGroups, &p)
}

func CmdPruneShardGroups() []byte {
	var p PB
	return WrapCommand(TypePruneShardGroups, &p)
}

func CmdCopyShardOwner(shardID, nodeID uint64) []byte {
	var p PB
	p.Uint64(1, shardID).Uint64(2, nodeID)
	return WrapCommand(TypeCopyShardOwner, &p)
}

func CmdRemoveShardOwner(shardID, nodeID uint64) []byte {
	var p PB
	p.Uint64(1, shardID).Uint64(2, nodeID)
	return WrapCommand(TypeRemoveShardOwner, &p)
}
