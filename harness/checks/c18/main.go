// C18 — backup, restore and shard copy reproduce the shard exactly.
//
// Store level: seeded histories leave a source shard in every mixture of
// {un-snapshotted cache, several generations of files, pending tombstones,
// compacted}; Store.BackupShard -> CreateShard + RestoreShard into a second
// store must answer every read like the source at backup time, the source
// must be unchanged, a time-bounded ExportShard must agree inside the range
// and hold nothing the source lacks outside it, and a backup taken while a
// writer keeps writing must equal some state between its start and its end.
// Cluster level: copy-shard through the meta endpoint between real data
// nodes, with the backup stream cut at seeded offsets: success => destination
// content equals source and owner added; failure => owner list unchanged.
package main

import (
	"archive/tar"
	"bytes"
	"fmt"
	"io"
	"math/rand"
	"net/url"
	"os"
	"path/filepath"
	"runtime"
	"sort"
	"strings"
	"sync"
	"sync/atomic"
	"time"

	"github.com/influxdata/influxdb/pkg/verifhook"
	"github.com/influxdata/influxdb/services/meta"

	"verifharness/internal/cluster"
	"verifharness/internal/ev"
	"verifharness/internal/faultconn"
	sm "verifharness/internal/shardmodel"
)

func main() { ev.Supervise("C18", body) }

var r *ev.Run

type witness struct {
	Seed   int64    `json:"history_seed"`
	Index  string   `json:"index"`
	Ops    []string `json:"source_history"`
	Detail string   `json:"detail"`
	Layout string   `json:"source_layout_at_backup"`
}

func body() {
	r = ev.Start("C18", "exploration")
	r.Rule = "source shards come from seeded histories (writes, snapshots, compactions, deletes, drops) so that at backup time they hold any mixture of cache / several file generations / pending tombstones; per source: full backup+restore, time-bounded export+restore, and (some) a live backup racing a writer, also with the cache snapshot parked so that the backup proceeds without the cache; cluster: copy-shard between data nodes with the backup stream cut at seeded offsets. A source is non-trivial when it has >=1 pending tombstone or a non-empty cache at backup time; distinct by (cache state, #files bucket, tombstones, index type, backup kind)."
	r.Assumptions = []string{
		"reads are compared through both public read APIs over the full range",
		"for a live backup the destination must contain a prefix (in acknowledgement order) of the concurrent writer's points that includes everything acknowledged before the backup call began",
	}
	r.Floor = 12
	n := r.Pick(160, 3000)
	if v := os.Getenv("C18_N"); v != "" {
		fmt.Sscan(v, &n)
	}
	rng := r.Rand("hist")
	type job struct {
		id   string
		seed int64
		idx  int
	}
	verifhook.Set("snap.written", onSnapWritten)
	root := ev.TempDir("c18")
	defer os.RemoveAll(root)
	ch := make(chan job)
	var wg sync.WaitGroup
	for w := 0; w < runtime.NumCPU(); w++ {
		wg.Add(1)
		go func() {
			defer wg.Done()
			for j := range ch {
				dir := filepath.Join(root, fmt.Sprintf("h%d", j.idx))
				os.MkdirAll(dir, 0o755)
				storeCase(j.id, j.seed, j.idx, dir)
				os.RemoveAll(dir)
			}
		}()
	}
	for i := 0; i < n; i++ {
		j := job{fmt.Sprintf("store/%d", i), rng.Int63(), i}
		if r.Skip(j.id) {
			continue
		}
		ch <- j
	}
	close(ch)
	wg.Wait()
	clusterPhase(filepath.Join(root, "cluster"))
	r.Finish()
}

// ---------------------------------------------------------------- store level

var (
	pmu        sync.Mutex
	parked     = map[string]chan struct{}{} // shard dir -> release channel
	inPark     = map[string]chan struct{}{} // shard dir -> closed when the snapshot is parked
	flushFails = map[string]bool{}          // shard dir -> the next cache flush fails once (I/O error after the file was written)
)

func onSnapWritten(name string, args ...interface{}) error {
	p, _ := args[0].(string)
	pmu.Lock()
	rel, in := parked[p], inPark[p]
	delete(parked, p)
	delete(inPark, p)
	failNow := flushFails[p]
	delete(flushFails, p)
	pmu.Unlock()
	if failNow {
		return fmt.Errorf("injected I/O error while flushing the cache")
	}
	if rel != nil {
		close(in)
		<-rel
	}
	return nil
}

func layout(env *sm.Env) (string, bool, bool, int) {
	eng, err := env.Engine()
	if err != nil {
		return "?", false, false, 0
	}
	tomb := false
	s := fmt.Sprintf("cache=%dB files=[", eng.Cache.Size())
	st := eng.FileStore.Stats()
	for i, f := range st {
		if i > 0 {
			s += " "
		}
		s += filepath.Base(f.Path)
		if f.HasTombstone {
			s += "+tomb"
			tomb = true
		}
	}
	return s + "]", eng.Cache.Size() > 0, tomb, len(st)
}

func storeCase(caseID string, seed int64, idx int, dir string) {
	g := rand.New(rand.NewSource(seed))
	index := "inmem"
	if idx%3 == 1 {
		index = "tsi1"
	}
	src := sm.NewEnv(filepath.Join(dir, "src"), index)
	if err := src.Open(); err != nil {
		fmt.Fprintf(os.Stderr, "harness: open: %v\n", err)
		os.Exit(ev.ExitBroken)
	}
	defer src.Close()
	r.Eval(1)
	cfg := sm.DefaultGen()
	cfg.Ops = 8 + g.Intn(22)
	cfg.Reopen = false
	cfg.Conflicts = false
	cfg.WeightWrite, cfg.WeightSnap, cfg.WeightCompact, cfg.WeightDelete = 10, 4, 3, 3
	gen := sm.NewGenerator(g, cfg)
	tr := sm.NewTracker()
	var ops []string
	for i := 0; i < cfg.Ops; i++ {
		op := gen.Next()
		ops = append(ops, op.String())
		var err error
		switch op.Kind {
		case "write":
			if res := src.Write(op.Batch); res.Err != nil && !res.Partial {
				err = res.Err
			}
			tr.ApplyWrite(op.Batch)
		case "snapshot":
			err = src.Snapshot()
		case "compact":
			_, err = src.Compact(op.Compact, op.PPB, op.Arg)
		case "delete":
			err = src.Delete(op.Sel, op.Min, op.Max, op.HasMin, op.HasMax)
			mn, mx := op.EffRange()
			tr.ApplyDelete(op.Sel, mn, mx)
		case "drop-measurement":
			err = src.DropMeasurement(op.Meas)
			tr.ApplyDelete(sm.Selector{Measurement: op.Meas}, sm.MinTime, sm.MaxTime)
		}
		if err != nil {
			r.Inconclusive(caseID + ": source history failed: " + err.Error())
			return
		}
	}
	lay, cacheNonEmpty, tomb, nFiles := layout(src)
	fail := func(sig, what string) {
		r.Violation(sig, caseID, what, witness{seed, index, ops, what, lay})
	}
	// the source itself must agree with the model (else the case proves nothing)
	if _, mm, err := tr.CheckAll(src, false); err != nil || mm != nil {
		r.Inconclusive(fmt.Sprintf("%s: source does not match the model before the backup (left to C02/C10): %v %v", caseID, mm, err))
		return
	}
	mixKey := fmt.Sprintf("cache=%v|files=%d|tomb=%v|%s", cacheNonEmpty, min(nFiles, 4), tomb, index)

	// ---- (a) full backup -> restore
	var buf bytes.Buffer
	if cacheNonEmpty && idx%3 == 0 {
		// the cache flush inside the backup fails once: the backup must be
		// refused, or still hold everything the source holds
		pmu.Lock()
		flushFails[src.ShardDir()] = true
		pmu.Unlock()
		err := src.Store.BackupShard(src.ShardID, time.Time{}, &buf)
		pmu.Lock()
		fired := !flushFails[src.ShardDir()]
		delete(flushFails, src.ShardDir())
		pmu.Unlock()
		if fired {
			r.Count("backups_with_a_failing_cache_flush", 1)
		}
		if err != nil {
			r.Count("backups_refused_after_failed_cache_flush", 1)
			buf.Reset()
		} else if fired {
			ops = append(ops, "(the cache flush inside BackupShard failed once; BackupShard reported success)")
		}
	}
	if buf.Len() == 0 {
		if err := src.Store.BackupShard(src.ShardID, time.Time{}, &buf); err != nil {
			fail("C18/backup-error", "BackupShard failed: "+err.Error())
			return
		}
	}
	r.Count("full_backups", 1)
	if _, mm, err := tr.CheckAll(src, true); err != nil || mm != nil {
		fail("C18/source-changed-by-backup", fmt.Sprintf("after BackupShard the source answers differently: %v %v", mm, err))
		return
	}
	dst := sm.NewEnv(filepath.Join(dir, "dst"), index)
	if err := dst.Open(); err != nil {
		fmt.Fprintf(os.Stderr, "harness: open dst: %v\n", err)
		os.Exit(ev.ExitBroken)
	}
	rerr := dst.Store.RestoreShard(dst.ShardID, bytes.NewReader(buf.Bytes()))
	if rerr != nil {
		dst.Close()
		fail("C18/restore-error", "RestoreShard failed on a complete backup: "+rerr.Error())
		return
	}
	reads, mm, err := tr.CheckAll(dst, true)
	r.Count("reads", int64(reads))
	if err == nil && mm == nil {
		// and after a restart of the destination
		if rerr := dst.Reopen(); rerr != nil {
			dst.Close()
			fail("C18/restored-shard-does-not-reopen", rerr.Error())
			return
		}
		_, mm, err = tr.CheckAll(dst, false)
	}
	dst.Close()
	if err != nil {
		fail("C18/read-error-on-restored-shard", err.Error())
		return
	}
	if mm != nil {
		kind := strings.SplitN(mm.Kind, "/", 2)[1]
		sig := "C18/restored-differs/" + kind
		if kind == "unexpected-point" && tomb {
			sig = "C18/restored-differs/deleted-point-back/source-had-pending-tombstones"
		}
		fail(sig, fmt.Sprintf("restored shard differs from the source at backup time (%s): %s", lay, mm.Error()))
		return
	}
	if cacheNonEmpty || tomb {
		r.Nontrivial(mixKey + "|full")
	}

	// ---- (b) time-bounded export -> restore
	pool := tsPool(tr)
	if len(pool) >= 2 {
		a, b := pool[g.Intn(len(pool))], pool[g.Intn(len(pool))]
		if a > b {
			a, b = b, a
		}
		if a > -1<<60 && b < 1<<60 { // time.Time cannot carry the extreme nanosecond values faithfully
			var ebuf bytes.Buffer
			if err := src.Store.ExportShard(src.ShardID, time.Unix(0, a), time.Unix(0, b), &ebuf); err != nil {
				sig := "C18/export-error"
				if strings.Contains(err.Error(), ".tombstone: no such file") {
					sig += "/tombstone-file-not-found"
				} else if strings.Contains(err.Error(), "no values written") {
					sig += "/no-values-written"
				}
				fail(sig, "ExportShard failed: "+err.Error())
				return
			}
			r.Count("bounded_exports", 1)
			d2 := sm.NewEnv(filepath.Join(dir, "dst2"), index)
			if err := d2.Open(); err != nil {
				os.Exit(ev.ExitBroken)
			}
			if err := d2.Store.RestoreShard(d2.ShardID, bytes.NewReader(ebuf.Bytes())); err != nil {
				d2.Close()
				var entries []string
				tr := tar.NewReader(bytes.NewReader(ebuf.Bytes()))
				for {
					hdr, terr := tr.Next()
					if terr != nil {
						break
					}
					entries = append(entries, fmt.Sprintf("%s(%dB)", hdr.Name, hdr.Size))
				}
				fail("C18/restore-error/export", fmt.Sprintf("RestoreShard failed on an export of [%d,%d] (archive entries %v): %s", a, b, entries, err.Error()))
				return
			}
			_, mmIn, errIn := tr.CheckRange(d2, a, b, false)
			// outside the range the destination may hold less, never something else
			sub := tr.Clone()
			sub.TolerateMissing = true
			// outside the requested range an export works at block granularity: it may
			// carry older values of points whose newest value lives in a file that is
			// entirely outside the range; only data nobody ever wrote is foreign
			sub.TolerateStale = true
			sub.TolerateResurrected = true
			_, mmOut, errOut := sub.CheckAll(d2, false)
			d2.Close()
			if errIn != nil || errOut != nil {
				fail("C18/read-error-on-restored-shard/export", fmt.Sprint(errIn, errOut))
				return
			}
			if mmIn != nil {
				fail("C18/export-differs-inside-range/"+strings.SplitN(mmIn.Kind, "/", 2)[1], fmt.Sprintf("export [%d,%d] restored: inside the range %s", a, b, mmIn.Error()))
				return
			}
			if mmOut != nil {
				fail("C18/export-holds-foreign-data/"+strings.SplitN(mmOut.Kind, "/", 2)[1], fmt.Sprintf("export [%d,%d] restored: %s", a, b, mmOut.Error()))
				return
			}
			if cacheNonEmpty || tomb {
				r.Nontrivial(mixKey + "|export")
			}
		}
	}

	// ---- (c) live backup racing a writer (a third of the cases)
	if idx%3 == 0 {
		liveBackup(caseID, seed, index, dir, src, tr, ops, lay, idx%6 == 0, fail)
	}
	if r.WantSample() {
		r.Sample(map[string]interface{}{"case": caseID, "index": index, "source_history": ops, "source_layout_at_backup": lay, "backup_bytes": buf.Len()})
	}
}

func min(a, b int) int {
	if a < b {
		return a
	}
	return b
}

func tsPool(tr *sm.Tracker) []int64 {
	seen := map[int64]bool{}
	var out []int64
	for _, tv := range tr.M.Data {
		for t := range tv {
			if !seen[t] {
				seen[t] = true
				out = append(out, t)
			}
		}
	}
	sort.Slice(out, func(i, j int) bool { return out[i] < out[j] })
	return out
}

// liveBackup: a writer appends acknowledged points with increasing unique
// timestamps to series live while BackupShard runs.
func liveBackup(caseID string, seed int64, index, dir string, src *sm.Env, tr *sm.Tracker, ops []string, lay string, park bool, fail func(string, string)) {
	series := sm.Series{Name: "live", Tags: map[string]string{"host": "w"}}
	var acked int64 // number of acknowledged writes; write k has timestamp 100000+k
	stop := make(chan struct{})
	var wgw sync.WaitGroup
	var werr error
	wgw.Add(1)
	go func() {
		defer wgw.Done()
		for k := int64(0); ; k++ {
			select {
			case <-stop:
				return
			default:
			}
			p := sm.Point{Series: series, Fields: map[string]sm.Val{"i0": {Kind: 'i', I: k}}, Time: 100000 + k}
			if res := src.Write([]sm.Point{p}); res.Err != nil {
				werr = res.Err
				return
			}
			atomic.StoreInt64(&acked, k+1)
			if k > 20000 {
				return
			}
		}
	}()
	// let some writes be acknowledged first
	for atomic.LoadInt64(&acked) < 20 && werr == nil {
		runtime.Gosched()
	}
	var release chan struct{}
	if park {
		// park a cache snapshot between "file written" and "file installed":
		// the backup's own WriteSnapshot then finds a snapshot in progress
		release = make(chan struct{})
		in := make(chan struct{})
		pmu.Lock()
		parked[src.ShardDir()], inPark[src.ShardDir()] = release, in
		pmu.Unlock()
		go src.Snapshot()
		select {
		case <-in:
		case <-time.After(60 * time.Second):
			pmu.Lock()
			delete(parked, src.ShardDir())
			delete(inPark, src.ShardDir())
			pmu.Unlock()
			release = nil
		}
	}
	before := atomic.LoadInt64(&acked)
	var buf bytes.Buffer
	berr := src.Store.BackupShard(src.ShardID, time.Time{}, &buf)
	after := atomic.LoadInt64(&acked)
	if release != nil {
		close(release)
	}
	close(stop)
	wgw.Wait()
	if werr != nil {
		r.Inconclusive(caseID + ": live writer failed: " + werr.Error())
		return
	}
	if berr != nil {
		fail("C18/backup-error/live", "BackupShard failed while writes continue: "+berr.Error())
		return
	}
	r.Count("live_backups", 1)
	if release != nil {
		r.Count("live_backups_with_snapshot_parked", 1)
	}
	d := sm.NewEnv(filepath.Join(dir, "dstlive"), index)
	if err := d.Open(); err != nil {
		os.Exit(ev.ExitBroken)
	}
	defer d.Close()
	if err := d.Store.RestoreShard(d.ShardID, bytes.NewReader(buf.Bytes())); err != nil {
		fail("C18/restore-error/live", err.Error())
		return
	}
	got, err := d.ReadCursor(series, "i0", sm.MinTime, sm.MaxTime, true)
	if err != nil {
		fail("C18/read-error-on-restored-shard/live", err.Error())
		return
	}
	// must be exactly the writes 0..k-1 for some before <= k (<= everything issued)
	for i, tv := range got {
		if tv.T != 100000+int64(i) || tv.V.I != int64(i) {
			fail("C18/live-backup-not-a-prefix", fmt.Sprintf("live backup restored: position %d holds write t=%d v=%d; the destination is not a prefix of the acknowledged writes (acked before the backup began: %d, when it returned: %d)", i, tv.T, tv.V.I, before, after))
			return
		}
	}
	k := int64(len(got))
	if k < before {
		sig := "C18/live-backup-misses-acknowledged-writes"
		if release != nil {
			sig += "/snapshot-in-progress"
		}
		fail(sig, fmt.Sprintf("live backup restored holds the first %d writes of the concurrent writer, but %d had been acknowledged before BackupShard was called", k, before))
		return
	}
	// the static part of the source must be there too
	if _, mm, err := tr.CheckAll(d, false); err != nil || mm != nil {
		sig := "C18/live-backup-static-data-differs"
		if release != nil {
			sig += "/snapshot-in-progress"
		}
		fail(sig, fmt.Sprintf("live backup restored: data written before the backup differs: %v %v", mm, err))
		return
	}
	r.Nontrivial(fmt.Sprintf("live|park=%v|%s", release != nil, index))
}

// ---------------------------------------------------------------- cluster level

func clusterPhase(dir string) {
	if r.ReplayCase() != "" && !strings.HasPrefix(r.ReplayCase(), "copy/") {
		return
	}
	faultconn.Install()
	c, err := cluster.Start(dir, 1, 3, cluster.Options{})
	if err != nil {
		fmt.Println("BROKEN-CHECK C18: start cluster: " + err.Error())
		os.Exit(ev.ExitBroken)
	}
	defer c.Close()
	if _, err := c.Query(0, "", "CREATE DATABASE db WITH REPLICATION 1 SHARD DURATION 1h", nil); err != nil {
		os.Exit(ev.ExitBroken)
	}
	c.WaitMetaIndex(cluster.DefaultWait)
	g := r.Rand("copy")
	t0 := int64(1700000000) * 1e9
	var lp strings.Builder
	for k := 0; k < 900; k++ {
		fmt.Fprintf(&lp, "cpu,host=%s f=%v,i=%di %d\n", []string{"a", "b", "c", "d", "e", "f"}[g.Intn(6)], float64(k)/8, k, t0+int64(k)*int64(3*3600*1e9)/900)
	}
	if st, b, err := c.Write(0, "db", "", "all", "ns", []byte(lp.String())); err != nil || st != 204 {
		fmt.Printf("BROKEN-CHECK C18: load: %d %s %v\n", st, b, err)
		os.Exit(ev.ExitBroken)
	}
	// a delete leaves tombstones on the sources; a later write leaves cache data
	c.Query(0, "db", fmt.Sprintf("DELETE FROM cpu WHERE host = 'a' AND time >= %d AND time <= %d", t0, t0+int64(2*3600*1e9)), nil)
	for _, d := range c.Datas {
		for _, id := range d.Srv.TSDBStore.ShardIDs() {
			if sh := d.Srv.TSDBStore.Shard(id); sh != nil && id%2 == 0 {
				sh.SetCompactionsEnabled(true)
				if e, err := sh.Engine(); err == nil {
					if w, ok := e.(interface{ WriteSnapshot() error }); ok {
						w.WriteSnapshot()
					}
				}
			}
		}
	}
	c.Query(0, "db", fmt.Sprintf("DELETE FROM cpu WHERE host = 'b' AND time >= %d AND time <= %d", t0+int64(3600*1e9), t0+int64(3*3600*1e9)), nil)

	data := c.Datas[0].Srv.MetaClient.Data()
	type shardRef struct {
		id     uint64
		owner  uint64
		db, rp string
	}
	var shards []shardRef
	for _, di := range data.Databases {
		if di.Name != "db" {
			continue
		}
		for _, rp := range di.RetentionPolicies {
			for _, sg := range rp.ShardGroups {
				for _, s := range sg.Shards {
					if len(s.Owners) == 1 {
						shards = append(shards, shardRef{s.ID, s.Owners[0].NodeID, di.Name, rp.Name})
					}
				}
			}
		}
	}
	nodeByID := map[uint64]*cluster.DataNode{}
	for _, d := range c.Datas {
		nodeByID[d.ID] = d
	}
	owners := func(id uint64) []uint64 {
		var out []uint64
		md, err := c.MetaData(0) // authoritative: straight from the meta node
		if err != nil {
			return nil
		}
		for _, di := range md.Databases {
			for _, rp := range di.RetentionPolicies {
				for _, sg := range rp.ShardGroups {
					for _, s := range sg.Shards {
						if s.ID == id {
							for _, o := range s.Owners {
								out = append(out, o.NodeID)
							}
						}
					}
				}
			}
		}
		sort.Slice(out, func(i, j int) bool { return out[i] < out[j] })
		return out
	}
	content := func(d *cluster.DataNode, sr shardRef) (string, error) {
		if d.Srv.TSDBStore.Shard(sr.id) == nil {
			return "(no such shard)", nil
		}
		env := &sm.Env{Store: d.Srv.TSDBStore, ShardID: sr.id, DB: sr.db, RP: sr.rp, TagKeys: []string{"host"}}
		var b strings.Builder
		for _, f := range []string{"f", "i"} {
			got, err := env.ReadIterator("cpu", f, 0, sm.MinTime, sm.MaxTime, true)
			if err != nil {
				return "", err
			}
			ids := make([]string, 0, len(got))
			for id := range got {
				ids = append(ids, id)
			}
			sort.Strings(ids)
			for _, id := range ids {
				fmt.Fprintf(&b, "%s#%s:", id, f)
				for _, tv := range got[id] {
					fmt.Fprintf(&b, " %d=%s", tv.T, tv.V)
				}
				b.WriteString("\n")
			}
		}
		return b.String(), nil
	}
	cuts := []int64{-1, 0, 511, 512, 1024, 1536, 4096}
	for k := 0; k < 4; k++ {
		cuts = append(cuts, int64(g.Intn(20000)))
	}
	if r.Thorough() {
		for k := 0; k < 40; k++ {
			cuts = append(cuts, int64(g.Intn(40000)))
		}
	}
	for si, sr := range shards {
		if si >= r.Pick(6, 40) {
			break
		}
		srcNode := nodeByID[sr.owner]
		// cut offsets at the tar entry boundaries of this shard's backup stream
		shardCuts := append([]int64(nil), cuts...)
		boundary := map[int64]bool{0: true}
		var tb bytes.Buffer
		if err := srcNode.Srv.TSDBStore.BackupShard(sr.id, time.Time{}, &tb); err == nil {
			tr := tar.NewReader(bytes.NewReader(tb.Bytes()))
			total := int64(tb.Len())
			for {
				hdr, err := tr.Next()
				if err != nil {
					break
				}
				io.Copy(io.Discard, tr)
				_ = hdr
				// position after this entry's padded data = start of the next header
				pos := total - int64(remaining(tr, tb.Bytes()))
				if pos > 0 && pos < total {
					shardCuts = append(shardCuts, pos)
					boundary[pos] = true
					r.Count("cuts_at_tar_entry_boundaries", 1)
				}
			}
		}
		for ci, cut := range shardCuts {
			caseID := fmt.Sprintf("copy/shard%d/cut%d", sr.id, cut)
			if r.Skip(caseID) {
				continue
			}
			cur := owners(sr.id)
			var dest *cluster.DataNode
			for _, d := range c.Datas {
				isOwner := false
				for _, o := range cur {
					if o == d.ID {
						isOwner = true
					}
				}
				if !isOwner {
					dest = d
					break
				}
			}
			if dest == nil {
				break // every node owns it by now
			}
			srcContent, err := content(srcNode, sr)
			if err != nil || srcContent == "" {
				continue
			}
			r.Eval(1)
			if cut >= 0 {
				faultconn.Set(&faultconn.Fault{Node: ^uint64(0), Mode: "cut", CutAfter: cut})
			}
			cerr := c.MetaPostOnce("/copy-shard", url.Values{"src": {srcNode.TCPAddr}, "dest": {dest.TCPAddr}, "shard": {fmt.Sprint(sr.id)}})
			faultconn.Set(nil)
			c.WaitMetaCaughtUp(cluster.DefaultWait)
			now := owners(sr.id)
			added := len(now) == len(cur)+1
			dstContent, derr := content(dest, sr)
			srcAfter, _ := content(srcNode, sr)
			wit := map[string]interface{}{"shard": sr.id, "source_node": srcNode.ID, "dest_node": dest.ID, "cut_after_bytes": cut, "copy_error": fmt.Sprint(cerr), "owners_before": cur, "owners_after": now}
			r.Count("copy_shard_requests", 1)
			switch {
			case srcAfter != srcContent:
				r.Violation("C18/copy/source-changed", caseID, "the source shard answers differently after being copied", wit)
			case cerr == nil && !added:
				r.Violation("C18/copy/success-but-owner-not-added", caseID, "copy-shard reported success but the destination is not listed as an owner", wit)
			case cerr != nil && added:
				wit["dest_content_equals_source"] = dstContent == srcContent
				r.Violation("C18/copy/failure-but-owner-added", caseID, "copy-shard reported failure but the destination was added as an owner", wit)
			case added && (derr != nil || dstContent != srcContent):
				wit["first_difference"] = firstDiff(srcContent, dstContent)
				sig := "C18/copy/owner-added-but-content-differs"
				if cut >= 0 && boundary[cut] {
					sig += "/stream-cut" // at offset 0 or between two archive entries
				} else if cut >= 0 {
					sig += "/stream-cut-inside-an-entry"
				}
				r.Violation(sig, caseID, fmt.Sprintf("destination node %d is advertised as an owner of shard %d but answers reads differently from the source: %s", dest.ID, sr.id, firstDiff(srcContent, dstContent)), wit)
			default:
				if cerr == nil {
					r.Count("copies_succeeded_and_equal", 1)
				} else {
					r.Count("copies_failed_owner_list_unchanged", 1)
				}
				r.Nontrivial(fmt.Sprintf("copy|cutclass=%d|ok=%v", cutClass(cut), cerr == nil))
			}
			if cerr != nil && !added {
				// the operator's reaction to a failed copy: ask again, network healthy
				r.Eval(1)
				rerr := c.MetaPostOnce("/copy-shard", url.Values{"src": {srcNode.TCPAddr}, "dest": {dest.TCPAddr}, "shard": {fmt.Sprint(sr.id)}})
				c.WaitMetaCaughtUp(cluster.DefaultWait)
				now = owners(sr.id)
				added = len(now) == len(cur)+1
				dstContent, derr = content(dest, sr)
				wit["retry_error"] = fmt.Sprint(rerr)
				wit["owners_after_retry"] = now
				r.Count("copy_shard_retries_after_a_failed_copy", 1)
				switch {
				case rerr == nil && !added:
					r.Violation("C18/copy/retry/success-but-owner-not-added", caseID+"/retry", "copy-shard repeated after a failed copy reported success but the destination is not listed as an owner", wit)
				case rerr != nil && added:
					r.Violation("C18/copy/retry/failure-but-owner-added", caseID+"/retry", "copy-shard repeated after a failed copy reported failure but the destination was added as an owner", wit)
				case added && (derr != nil || dstContent != srcContent):
					wit["first_difference"] = firstDiff(srcContent, dstContent)
					r.Violation("C18/copy/retry/owner-added-but-content-differs", caseID+"/retry", fmt.Sprintf("copy-shard repeated (healthy network) after a copy that failed with the stream cut after %d bytes: destination node %d is advertised as an owner of shard %d but answers reads differently from the source: %s", cut, dest.ID, sr.id, firstDiff(srcContent, dstContent)), wit)
				default:
					r.Nontrivial(fmt.Sprintf("copy-retry|cutclass=%d|ok=%v", cutClass(cut), rerr == nil))
				}
			}
			if added {
				// take the replica away again so that the next cut starts from the same place
				c.MetaPostOnce("/remove-shard", url.Values{"src": {dest.TCPAddr}, "shard": {fmt.Sprint(sr.id)}})
				c.WaitMetaCaughtUp(cluster.DefaultWait)
			}
			_ = ci
		}
	}
	_ = meta.DefaultRetentionPolicyName
}

// remaining returns how many bytes of the archive lie after the reader's
// current entry (its data and padding consumed).
func remaining(tr *tar.Reader, all []byte) int {
	// archive/tar does not expose its offset: find it by re-reading headers
	// from the start and summing sizes up to the entry just read
	return offsetCache.remaining(tr, all)
}

type offCache struct {
	mu  sync.Mutex
	pos map[*tar.Reader]int64
}

var offsetCache = &offCache{pos: map[*tar.Reader]int64{}}

func (o *offCache) remaining(tr *tar.Reader, all []byte) int {
	o.mu.Lock()
	defer o.mu.Unlock()
	// walk our own reader to the same entry count
	n := o.pos[tr] + 1
	o.pos[tr] = n
	r2 := tar.NewReader(bytes.NewReader(all))
	var off int64
	for i := int64(0); i < n; i++ {
		hdr, err := r2.Next()
		if err != nil {
			break
		}
		off += 512 + (hdr.Size+511)/512*512
	}
	return len(all) - int(off)
}

func cutClass(c int64) int {
	switch {
	case c < 0:
		return -1
	case c == 0:
		return 0
	case c%512 == 0:
		return 1
	default:
		return 2
	}
}

func firstDiff(a, b string) string {
	la, lb := strings.Split(a, "\n"), strings.Split(b, "\n")
	for i := 0; i < len(la) || i < len(lb); i++ {
		var x, y string
		if i < len(la) {
			x = la[i]
		}
		if i < len(lb) {
			y = lb[i]
		}
		if x != y {
			if len(x) > 160 {
				x = x[:160] + "..."
			}
			if len(y) > 160 {
				y = y[:160] + "..."
			}
			return fmt.Sprintf("line %d: source %q, destination %q", i, x, y)
		}
	}
	return "?"
}
