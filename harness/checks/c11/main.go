// C11 — query results depend only on the data and the statement.
//
// The same logical data set is loaded into several physical layouts (one
// shard / many shard groups; cache only / files only / cache + compacted
// files; after a restart; one node / three nodes with replication 1, 2, 3,
// queried from every node). Generated SELECT statements are executed over
// HTTP /query on every layout: (1) all layouts must return identical rows;
// (2) for the covered grammar the rows must equal an independent reference
// evaluation over the raw points (internal/refql).
package main

import (
	"encoding/json"
	"fmt"
	"math/rand"
	"os"
	"path/filepath"
	"sort"
	"strconv"
	"strings"
	"time"

	"github.com/influxdata/influxdb/tsdb/engine/tsm1"

	"verifharness/internal/cluster"
	"verifharness/internal/ev"
	"verifharness/internal/refql"
)

func main() { ev.Supervise("C11", body) }

var r *ev.Run

const t0 = int64(1700000000) * 1e9

type layout struct {
	name string
	cl   *cluster.Cluster
	node int
	db   string
}

func body() {
	r = ev.Start("C11", "exploration")
	r.Rule = "data sets: 2 measurements, tags host{a,b,c} x region{x,y,(none)}, fields f (float, k/8 so sums are exact), i (int), s (string), b (bool), 300-3000 points with unique irregular timestamps over 6h, a long gap, and points overwritten by a later write. Statements from a grammar-driven generator (raw field or count/sum/mean/min/max/first/last/spread/median; time range; optional tag predicate; GROUP BY time(interval[,offset]) and/or tags; fill none/null/number/previous/linear; ORDER BY time DESC; LIMIT/OFFSET/SLIMIT/SOFFSET). A statement is non-trivial when its input spans >=2 shards and it returns >=1 row; distinct by (statement shape, layout)."
	r.Assumptions = []string{
		"timestamps are unique across the series of a measurement, so the order of rows with equal time (not defined by the language) never matters",
		"reference evaluation covers: raw selects and the nine functions with GROUP BY time/tags, fill none/null/number, fill previous/linear only ascending and not for count, single field per statement; other generated statements are judged by layout invariance only",
		"float values are dyadic rationals so every sum and mean is exact in any merge order",
	}
	r.Floor = 40
	nData := r.Pick(2, 8)
	nStmt := r.Pick(160, 1500)
	if v := os.Getenv("C11_STMTS"); v != "" {
		fmt.Sscan(v, &nStmt)
	}
	dir := ev.TempDir("c11")
	defer os.RemoveAll(dir)
	c1, err := cluster.Start(filepath.Join(dir, "n1"), 1, 1, cluster.Options{})
	if err != nil {
		broken("start single-node cluster: " + err.Error())
	}
	defer c1.Close()
	c3, err := cluster.Start(filepath.Join(dir, "n3"), 1, 3, cluster.Options{})
	if err != nil {
		broken("start three-node cluster: " + err.Error())
	}
	defer c3.Close()

	for ds := 0; ds < nData; ds++ {
		g := r.Rand(fmt.Sprintf("data/%d", ds))
		sg := r.Rand(fmt.Sprintf("stmt/%d", ds))
		runDataSet(ds, g, sg, nStmt, c1, c3)
	}
	r.Finish()
}

func broken(msg string) {
	fmt.Fprintln(os.Stderr, "harness: "+msg)
	fmt.Println("BROKEN-CHECK C11: " + msg)
	os.Exit(ev.ExitBroken)
}

// ------------------------------------------------------------------ data

var (
	hosts   = []string{"a", "b", "c"}
	regions = []string{"x", "y", ""}
)

func genData(g *rand.Rand) (phaseA, phaseB []refql.Pt) {
	n := 300 + g.Intn(900)
	if g.Intn(3) == 0 {
		n = 2000 + g.Intn(1000)
	}
	span := int64(6 * 3600 * 1e9)
	step := span / int64(n)
	ts := t0
	seq := int64(0)
	mk := func(m string, t int64) refql.Pt {
		seq++
		p := refql.Pt{M: m, Tags: map[string]string{"host": hosts[g.Intn(3)]}, T: t, F: map[string]interface{}{}}
		if rg := regions[g.Intn(3)]; rg != "" {
			p.Tags["region"] = rg
		}
		// most points carry f and i; some only one field; s and b sparser
		if g.Intn(10) > 0 {
			p.F["f"] = float64(g.Intn(1<<16)) / 8
			// tied extremes: selectors must pick the earliest of equal values
			switch g.Intn(24) {
			case 0:
				p.F["f"] = float64(1<<16) / 8
			case 1:
				p.F["f"] = float64(-1)
			}
		}
		if g.Intn(10) > 1 {
			p.F["i"] = int64(g.Intn(2000) - 1000)
			switch g.Intn(24) {
			case 0:
				p.F["i"] = int64(1000)
			case 1:
				p.F["i"] = int64(-1001)
			}
		}
		if g.Intn(3) == 0 {
			p.F["s"] = fmt.Sprintf("s%d", seq)
		}
		if g.Intn(3) == 0 {
			p.F["b"] = g.Intn(2) == 0
		}
		if len(p.F) == 0 {
			p.F["i"] = seq
		}
		return p
	}
	gapAt := n/3 + g.Intn(n/3)
	for k := 0; k < n; k++ {
		ts += step/2 + g.Int63n(step) + 1
		if k == gapAt {
			ts += int64(40 * 60 * 1e9)
		}
		m := "cpu"
		if g.Intn(3) == 0 {
			m = "mem"
		}
		p := mk(m, ts)
		phaseA = append(phaseA, p)
		// overwritten later: same series, same time, new values
		if g.Intn(12) == 0 {
			q := refql.Pt{M: p.M, Tags: p.Tags, T: p.T, F: map[string]interface{}{}}
			for f, v := range p.F {
				switch x := v.(type) {
				case float64:
					q.F[f] = x + 0.125
				case int64:
					q.F[f] = x + 1
				case string:
					q.F[f] = x + "'"
				case bool:
					q.F[f] = !x
				}
			}
			phaseB = append(phaseB, q)
		} else if g.Intn(6) == 0 {
			phaseB = append(phaseB, mk(m, ts+1+g.Int63n(step/4+1)))
		}
	}
	// points exactly on hour boundaries: the first nanosecond of a shard group
	// (1h and 2h groups in the many-shard layouts)
	{
		hour := int64(3600 * 1e9)
		taken := map[int64]bool{}
		for _, p := range phaseA {
			taken[p.T] = true
		}
		for k := int64(0); k < 7; k++ {
			bt := (t0/hour+1)*hour + k*hour
			if taken[bt] || g.Intn(4) == 0 {
				continue
			}
			phaseA = append(phaseA, mk([]string{"cpu", "mem"}[g.Intn(2)], bt))
		}
	}
	// phase B must not collide in time with another series' point
	used := map[string]map[int64]string{"cpu": {}, "mem": {}}
	for _, p := range phaseA {
		used[p.M][p.T] = p.SeriesID()
	}
	var keep []refql.Pt
	for _, p := range phaseB {
		if id, ok := used[p.M][p.T]; ok && id != p.SeriesID() {
			continue
		}
		used[p.M][p.T] = p.SeriesID()
		keep = append(keep, p)
	}
	return phaseA, keep
}

func lineProtocol(pts []refql.Pt) []byte {
	var b strings.Builder
	for _, p := range pts {
		b.WriteString(p.M)
		ks := make([]string, 0, len(p.Tags))
		for k := range p.Tags {
			ks = append(ks, k)
		}
		sort.Strings(ks)
		for _, k := range ks {
			b.WriteString("," + k + "=" + p.Tags[k])
		}
		b.WriteString(" ")
		fs := make([]string, 0, len(p.F))
		for f := range p.F {
			fs = append(fs, f)
		}
		sort.Strings(fs)
		for i, f := range fs {
			if i > 0 {
				b.WriteString(",")
			}
			switch x := p.F[f].(type) {
			case float64:
				fmt.Fprintf(&b, "%s=%v", f, x)
			case int64:
				fmt.Fprintf(&b, "%s=%di", f, x)
			case string:
				fmt.Fprintf(&b, "%s=\"%s\"", f, x)
			case bool:
				fmt.Fprintf(&b, "%s=%v", f, x)
			}
		}
		fmt.Fprintf(&b, " %d\n", p.T)
	}
	return []byte(b.String())
}

func writeAll(c *cluster.Cluster, node int, db string, pts []refql.Pt) {
	for i := 0; i < len(pts); i += 500 {
		j := i + 500
		if j > len(pts) {
			j = len(pts)
		}
		var st int
		var body string
		var err error
		// writes are idempotent; after a node restart the first attempts may hit
		// stale pooled connections (reported as a partial write at level all)
		for try := 0; try < 40; try++ {
			st, body, err = c.Write(node, db, "", "all", "ns", lineProtocol(pts[i:j]))
			if err == nil && st == 204 {
				break
			}
			time.Sleep(250 * time.Millisecond)
		}
		if err != nil || st != 204 {
			broken(fmt.Sprintf("write to %s failed: status %d %s %v", db, st, body, err))
		}
	}
}

func mustQuery(c *cluster.Cluster, node int, db, q string) {
	resp, err := c.Query(node, db, q, nil)
	if err != nil {
		broken(q + ": " + err.Error())
	}
	if resp.Err != "" || (len(resp.Results) > 0 && resp.Results[0].Err != "") {
		broken(fmt.Sprintf("%s: %+v", q, resp))
	}
}

// engines returns the tsm1 engines of a database's shards on one data node.
func engines(d *cluster.DataNode, db string) []*tsm1.Engine {
	var out []*tsm1.Engine
	st := d.Srv.TSDBStore
	for _, id := range st.ShardIDs() {
		sh := st.Shard(id)
		if sh == nil || sh.Database() != db {
			continue
		}
		e, err := sh.Engine()
		if err != nil {
			continue
		}
		if t, ok := e.(*tsm1.Engine); ok {
			out = append(out, t)
		}
	}
	return out
}

func snapshotAll(d *cluster.DataNode, db string) {
	st := d.Srv.TSDBStore
	for _, id := range st.ShardIDs() {
		sh := st.Shard(id)
		if sh == nil || sh.Database() != db {
			continue
		}
		var err error
		for try := 0; try < 5; try++ {
			// an idle shard has its compactions switched off by the store's
			// monitor; the write path switches them on again the same way
			sh.SetCompactionsEnabled(true)
			e, eerr := sh.Engine()
			if eerr != nil {
				err = eerr
				break
			}
			t, ok := e.(*tsm1.Engine)
			if !ok {
				break
			}
			if err = t.WriteSnapshot(); err == nil || !strings.Contains(err.Error(), "disabled") {
				break
			}
		}
		if err != nil {
			broken("snapshot: " + err.Error())
		}
	}
}

func compactAll(d *cluster.DataNode, db string) {
	for _, e := range engines(d, db) {
		var files []string
		for _, st := range e.FileStore.Stats() {
			files = append(files, st.Path)
		}
		sort.Strings(files)
		if len(files) < 2 {
			continue
		}
		out, err := e.Compactor.CompactFull(files)
		if err != nil {
			continue // a background compaction owns the files: also a layout
		}
		if err := e.FileStore.ReplaceWithCallback(files, out, nil); err != nil {
			broken("replace: " + err.Error())
		}
	}
}

// ------------------------------------------------------------------ statements

func genStmt(g *rand.Rand) (refql.Stmt, bool) {
	s := refql.Stmt{M: []string{"cpu", "cpu", "mem"}[g.Intn(3)]}
	fields := []string{"f", "f", "i", "i", "s", "b"}
	s.Field = fields[g.Intn(len(fields))]
	inRef := true
	span := int64(6*3600+45*60) * 1e9
	a := t0 - int64(10*60*1e9) + g.Int63n(span)
	b := t0 - int64(10*60*1e9) + g.Int63n(span)
	if a > b {
		a, b = b, a
	}
	switch g.Intn(4) {
	case 0: // whole data set
		a, b = t0-int64(600*1e9), t0+span
	case 1: // aligned to hours
		a = a / int64(3600*1e9) * int64(3600*1e9)
		b = b/int64(3600*1e9)*int64(3600*1e9) + int64(3600*1e9) - 1
		if g.Intn(2) == 0 {
			b++ // inclusive upper bound exactly on the first nanosecond of the next hour
		}
	}
	if b-a < int64(60*1e9) {
		b = a + int64(3600*1e9)
	}
	s.TMin, s.TMax = a, b
	if g.Intn(3) == 0 {
		s.TagEq = map[string]string{"host": hosts[g.Intn(3)]}
		if g.Intn(3) == 0 {
			s.TagEq["region"] = regions[g.Intn(2)]
		}
	}
	numeric := s.Field == "f" || s.Field == "i"
	if g.Intn(4) > 0 {
		fn := []string{"count", "sum", "mean", "min", "max", "first", "last", "spread", "median"}
		if !numeric {
			fn = []string{"count", "first", "last"}
		}
		s.Func = fn[g.Intn(len(fn))]
	}
	switch g.Intn(4) {
	case 0:
		s.GroupTags = []string{"host"}
	case 1:
		s.GroupTags = []string{"host", "region"}
	case 2:
		if g.Intn(2) == 0 {
			s.GroupTags = []string{"region"}
		}
	}
	if s.Func != "" && g.Intn(3) > 0 {
		ivs := []int64{60, 300, 420, 1800, 3600, 97}
		s.Interval = ivs[g.Intn(len(ivs))] * 1e9
		// keep the number of windows moderate
		for (s.TMax-s.TMin)/s.Interval > 800 {
			s.Interval *= 10
		}
		if g.Intn(3) == 0 {
			offs := []int64{30, 120, -45, 7}
			s.Offset = offs[g.Intn(len(offs))] * 1e9
		}
		switch g.Intn(7) {
		case 0:
			s.Fill = "none"
		case 1:
			s.Fill = "null"
		case 2:
			if numeric || s.Func == "count" {
				s.Fill = "number"
				s.FillNum = int64(g.Intn(9) + 1)
			}
		case 3:
			s.Fill = "previous"
		case 4:
			if numeric && s.Func != "count" {
				s.Fill = "linear"
			}
		}
	}
	// further fields next to the first one (auxiliary values travel with the
	// point between nodes): raw selects, and selectors without GROUP BY time
	if s.Interval == 0 && (s.Func == "" || s.Func == "min" || s.Func == "max" || s.Func == "first" || s.Func == "last") && g.Intn(3) == 0 {
		for _, f := range []string{"i", "f", "s", "b"} {
			if f != s.Field && g.Intn(2) == 0 {
				s.Aux = append(s.Aux, f)
			}
		}
	}
	if g.Intn(4) == 0 {
		s.Desc = true
	}
	if g.Intn(3) == 0 {
		s.Limit = 1 + g.Intn(20)
		if g.Intn(2) == 0 {
			s.Offs = g.Intn(10)
		}
	}
	if len(s.GroupTags) > 0 && g.Intn(4) == 0 {
		s.SLimit = 1 + g.Intn(3)
		if g.Intn(2) == 0 {
			s.SOffset = g.Intn(3)
		}
	}
	// what the reference evaluator claims
	if (s.Fill == "previous" || s.Fill == "linear") && (s.Desc || s.Func == "count") {
		inRef = false
	}
	if s.Fill == "linear" && !(s.Field == "f" || s.Func == "mean" || s.Func == "median") {
		inRef = false // integer interpolation semantics not modelled
	}
	if s.Fill == "previous" && !numeric {
		inRef = false
	}
	return s, inRef
}

// ------------------------------------------------------------------ run

type normSeries struct {
	Name string
	Tags string
	Rows []string
}

func normalize(resp *cluster.Response) (string, []cluster.Row, string) {
	if resp.Err != "" {
		return "ERROR " + resp.Err, nil, resp.Err
	}
	if len(resp.Results) != 1 {
		return fmt.Sprintf("RESULTS=%d", len(resp.Results)), nil, "unexpected number of results"
	}
	res := resp.Results[0]
	if res.Err != "" {
		return "ERROR " + res.Err, nil, res.Err
	}
	var b strings.Builder
	for _, s := range res.Series {
		ks := make([]string, 0, len(s.Tags))
		for k := range s.Tags {
			ks = append(ks, k)
		}
		sort.Strings(ks)
		fmt.Fprintf(&b, "#%s", s.Name)
		for _, k := range ks {
			fmt.Fprintf(&b, ",%s=%s", k, s.Tags[k])
		}
		fmt.Fprintf(&b, " %v\n", s.Columns)
		for _, row := range s.Values {
			for _, v := range row {
				switch x := v.(type) {
				case nil:
					b.WriteString("null ")
				case json.Number:
					b.WriteString(x.String() + " ")
				case string:
					fmt.Fprintf(&b, "%q ", x)
				default:
					fmt.Fprintf(&b, "%v ", x)
				}
			}
			b.WriteString("\n")
		}
	}
	return b.String(), res.Series, ""
}

func runDataSet(ds int, g, sg *rand.Rand, nStmt int, c1, c3 *cluster.Cluster) {
	phaseA, phaseB := genData(g)
	all := refql.Dedup(append(append([]refql.Pt(nil), phaseA...), phaseB...))
	name := func(s string) string { return fmt.Sprintf("%s%d", s, ds) }

	type dbdef struct {
		cl     *cluster.Cluster
		db     string
		create string
		mode   string
	}
	defs := []dbdef{
		{c1, name("one_cache"), "WITH SHARD DURATION 1000d", "cache"},
		{c1, name("one_files"), "WITH SHARD DURATION 1000d", "files"},
		{c1, name("one_mixed"), "WITH SHARD DURATION 1000d", "mixed"},
		{c1, name("many_sg"), "WITH SHARD DURATION 1h", "mixed"},
		{c3, name("rf1"), "WITH REPLICATION 1 SHARD DURATION 1h", "cache"},
		{c3, name("rf2"), "WITH REPLICATION 2 SHARD DURATION 2h", "mixed"},
		{c3, name("rf3"), "WITH REPLICATION 3 SHARD DURATION 1000d", "files"},
	}
	for i, d := range defs {
		mustQuery(d.cl, 0, "", fmt.Sprintf("CREATE DATABASE %q %s", d.db, d.create))
		if err := d.cl.WaitMetaIndex(cluster.DefaultWait); err != nil {
			broken(err.Error())
		}
		wnode := i % len(d.cl.Datas)
		writeAll(d.cl, wnode, d.db, phaseA)
		if d.mode == "mixed" {
			for _, dn := range d.cl.Datas {
				snapshotAll(dn, d.db)
			}
			half := len(phaseB) / 2
			writeAll(d.cl, wnode, d.db, phaseB[:half])
			for _, dn := range d.cl.Datas {
				snapshotAll(dn, d.db)
				compactAll(dn, d.db)
			}
			writeAll(d.cl, (wnode+1)%len(d.cl.Datas), d.db, phaseB[half:])
		} else {
			writeAll(d.cl, wnode, d.db, phaseB)
			if d.mode == "files" {
				for _, dn := range d.cl.Datas {
					snapshotAll(dn, d.db)
				}
			}
		}
	}
	var layouts []layout
	for _, d := range defs {
		for n := range d.cl.Datas {
			layouts = append(layouts, layout{fmt.Sprintf("%s@node%d", d.db, n), d.cl, n, d.db})
		}
	}
	r.Count("points_in_data_set", int64(len(all)))
	r.Count("layouts", int64(len(layouts)))

	stmts := make([]refql.Stmt, nStmt)
	inRef := make([]bool, nStmt)
	for i := range stmts {
		stmts[i], inRef[i] = genStmt(sg)
	}
	runStatements(ds, "", stmts, inRef, layouts, all)

	// L4: restart the single data node and the three-node cluster's node 1, ask again
	c1.StopData(0)
	if err := c1.StartData(0); err != nil {
		broken("restart: " + err.Error())
	}
	c3.StopData(1)
	if err := c3.StartData(1); err != nil {
		broken("restart: " + err.Error())
	}
	k := nStmt / 3
	runStatements(ds, "after-restart/", stmts[:k], inRef[:k], layouts, all)
}

func runStatements(ds int, phase string, stmts []refql.Stmt, inRef []bool, layouts []layout, all []refql.Pt) {
	for i, s := range stmts {
		caseID := fmt.Sprintf("ds%d/%sstmt/%d", ds, phase, i)
		if r.Skip(caseID) {
			continue
		}
		text := s.Text()
		r.Eval(1)
		var firstNorm, firstName string
		var firstSeries []cluster.Row
		failed := false
		for li, l := range layouts {
			resp, err := l.cl.Query(l.node, l.db, text, nil)
			if err != nil {
				r.Violation("C11/query-transport-error", caseID, fmt.Sprintf("%s on %s: %v", text, l.name, err), map[string]interface{}{"statement": text, "layout": l.name})
				failed = true
				break
			}
			norm, series, qerr := normalize(resp)
			r.Count("queries", 1)
			if qerr != "" {
				r.Violation("C11/statement-error", caseID, fmt.Sprintf("%s on %s: %s", text, l.name, qerr), map[string]interface{}{"statement": text, "layout": l.name})
				failed = true
				break
			}
			if li == 0 {
				firstNorm, firstName, firstSeries = norm, l.name, series
				continue
			}
			if norm != firstNorm {
				sig := "C11/layout-divergence/" + layoutClass(firstName) + "-vs-" + layoutClass(l.name) + "/" + funcClass(s)
				if s.SLimit > 0 || s.SOffset > 0 {
					sig = "C11/layout-divergence/slimit-soffset"
				} else if onlyFloatNoise(firstNorm, norm) {
					// same rows, float values equal up to the last bits: partial
					// aggregates combined in a different order on the cluster path
					sig = "C11/layout-divergence/float-rounding-only/" + funcClass(s)
				}
				// is the divergence stable? ask the same node again
				again := []string{}
				for k := 0; k < 3; k++ {
					if resp2, err2 := l.cl.Query(l.node, l.db, text, nil); err2 == nil {
						n2, _, e2 := normalize(resp2)
						switch {
						case e2 != "":
							again = append(again, "error: "+e2)
						case n2 == firstNorm:
							again = append(again, "now-equal-to-reference-layout")
						case n2 == norm:
							again = append(again, "same-divergent-rows")
						default:
							again = append(again, "yet-other-rows")
						}
					}
				}
				r.Violation(sig, caseID, fmt.Sprintf("%s returns different rows on %s and %s: %s (asked again: %v)", text, firstName, l.name, firstDiff(firstNorm, norm), again),
					map[string]interface{}{"statement": text, "layout_a": firstName, "layout_b": l.name, "rows_a": clip(firstNorm), "rows_b": clip(norm), "asked_again": again})
				failed = true
				break
			}
		}
		if failed {
			continue
		}
		rows := 0
		for _, sr := range firstSeries {
			rows += len(sr.Values)
		}
		if rows > 0 {
			for _, l := range layouts {
				r.Nontrivial(s.Shape() + "|" + layoutClass(l.name))
			}
		}
		if inRef[i] {
			want := refql.Eval(s, all)
			tol := 0.0
			if s.Func == "mean" {
				tol = 1e-12
			}
			if d := compareRef(want, firstSeries, tol); d != "" {
				r.Violation("C11/reference-mismatch/"+funcClass(s)+fillClass(s), caseID, fmt.Sprintf("%s: server rows differ from the reference evaluation: %s", text, d),
					map[string]interface{}{"statement": text, "server": clip(firstNorm), "diff": d})
				continue
			}
			r.Count("statements_checked_against_reference", 1)
		} else {
			r.Count("statements_layout_invariance_only", 1)
		}
		if r.WantSample() && rows > 0 && rows < 8 {
			r.Sample(map[string]interface{}{"case": caseID, "statement": text, "layouts_agreeing": len(layouts), "rows": clip(firstNorm), "checked_against_reference": inRef[i]})
		}
	}
}

func clip(s string) string {
	if len(s) > 1500 {
		return s[:1500] + "..."
	}
	return s
}

func layoutClass(name string) string {
	i := strings.IndexAny(name, "0123456789")
	cls := name
	if i > 0 {
		cls = name[:i]
	}
	if j := strings.Index(name, "@"); j >= 0 {
		cls += name[j:]
	}
	return cls
}

func funcClass(s refql.Stmt) string {
	if s.Func == "" {
		return "raw"
	}
	return s.Func
}

func fillClass(s refql.Stmt) string {
	if s.Fill == "" {
		return ""
	}
	return "/fill-" + s.Fill
}

func firstDiff(a, b string) string {
	la, lb := strings.Split(a, "\n"), strings.Split(b, "\n")
	for i := 0; i < len(la) || i < len(lb); i++ {
		var x, y string
		if i < len(la) {
			x = la[i]
		}
		if i < len(lb) {
			y = lb[i]
		}
		if x != y {
			return fmt.Sprintf("line %d: %q vs %q", i, x, y)
		}
	}
	return "?"
}

// tol > 0: float values may differ by that relative amount (mean(): the sum is
// accumulated in an order the reference does not reproduce bit for bit).
func compareRef(want []refql.Series, got []cluster.Row, tol float64) string {
	if len(want) != len(got) {
		return fmt.Sprintf("reference has %d series, server returned %d", len(want), len(got))
	}
	for i := range want {
		w, g := want[i], got[i]
		if w.Name != g.Name {
			return fmt.Sprintf("series %d name %q vs %q", i, w.Name, g.Name)
		}
		for k, v := range w.Tags {
			if g.Tags[k] != v {
				return fmt.Sprintf("series %d tag %s: reference %q, server %q", i, k, v, g.Tags[k])
			}
		}
		if len(w.Tags) != len(g.Tags) {
			return fmt.Sprintf("series %d tags %v vs %v", i, w.Tags, g.Tags)
		}
		if len(w.Rows) != len(g.Values) {
			return fmt.Sprintf("series %d (%v): reference has %d rows, server %d", i, w.Tags, len(w.Rows), len(g.Values))
		}
		for j := range w.Rows {
			row := g.Values[j]
			if len(row) != 2+len(w.Rows[j].Aux) {
				return fmt.Sprintf("series %d row %d has %d columns", i, j, len(row))
			}
			tn, ok := row[0].(json.Number)
			if !ok {
				return fmt.Sprintf("series %d row %d time is %T", i, j, row[0])
			}
			ti, _ := tn.Int64()
			if ti != w.Rows[j].T {
				return fmt.Sprintf("series %d (%v) row %d: reference time %d, server %d", i, w.Tags, j, w.Rows[j].T, ti)
			}
			if !sameVal(w.Rows[j].V, row[1]) && !closeFloat(w.Rows[j].V, row[1], tol) {
				return fmt.Sprintf("series %d (%v) row %d t=%d: reference value %v, server %v", i, w.Tags, j, ti, w.Rows[j].V, row[1])
			}
			for a, av := range w.Rows[j].Aux {
				if !sameVal(av, row[2+a]) {
					return fmt.Sprintf("series %d (%v) row %d t=%d: column %d: reference value %v, server %v", i, w.Tags, j, ti, 2+a, av, row[2+a])
				}
			}
		}
	}
	return ""
}

func closeFloat(want interface{}, got interface{}, tol float64) bool {
	w, ok := want.(float64)
	if !ok || tol <= 0 {
		return false
	}
	n, ok := got.(json.Number)
	if !ok {
		return false
	}
	f, err := n.Float64()
	if err != nil {
		return false
	}
	d := f - w
	if d < 0 {
		d = -d
	}
	m := w
	if m < 0 {
		m = -m
	}
	return d <= tol*m
}

func sameVal(want interface{}, got interface{}) bool {
	switch w := want.(type) {
	case nil:
		return got == nil
	case float64:
		n, ok := got.(json.Number)
		if !ok {
			return false
		}
		f, err := n.Float64()
		return err == nil && f == w
	case int64:
		n, ok := got.(json.Number)
		if !ok {
			return false
		}
		if i, err := n.Int64(); err == nil {
			return i == w
		}
		f, err := n.Float64()
		return err == nil && f == float64(w)
	case string:
		s, ok := got.(string)
		return ok && s == w
	case bool:
		b, ok := got.(bool)
		return ok && b == w
	}
	return false
}

// onlyFloatNoise reports whether two normalised results differ only in
// numeric tokens that agree to a relative 1e-12.
func onlyFloatNoise(a, b string) bool {
	ta, tb := strings.Fields(a), strings.Fields(b)
	if len(ta) != len(tb) {
		return false
	}
	diff := false
	for i := range ta {
		if ta[i] == tb[i] {
			continue
		}
		x, err1 := strconv.ParseFloat(ta[i], 64)
		y, err2 := strconv.ParseFloat(tb[i], 64)
		if err1 != nil || err2 != nil {
			return false
		}
		d := x - y
		if d < 0 {
			d = -d
		}
		m := x
		if m < 0 {
			m = -m
		}
		if d > 1e-12*m+1e-300 {
			return false
		}
		diff = true
	}
	return diff
}
