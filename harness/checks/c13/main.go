// C13 — storage encodings round-trip exactly; torn logs replay their prefix.
//
// Monitor: generated value sequences are pushed through every encoder
// (Values.Encode, the batch *ArrayEncodeAll family) and every decoder
// (DecodeBlock, Decode*ArrayBlock, the iterator decoders, *ArrayDecodeAll);
// the oracle is bit-for-bit equality with the generated sequence. WAL
// segments made of random entries are cut at every byte offset and read back
// with WALSegmentReader and CacheLoader; the oracle is "exactly the entries
// whose frame ends at or before the cut".
package main

import (
	"bytes"
	"fmt"
	"io"
	"math"
	"math/rand"
	"os"
	"path/filepath"
	"reflect"
	"runtime"
	"sort"
	"strings"
	"sync"

	"github.com/golang/snappy"
	"github.com/influxdata/influxdb/tsdb"
	"github.com/influxdata/influxdb/tsdb/engine/tsm1"

	"verifharness/internal/ev"
)

func main() { ev.Supervise("C13", body) }

var r *ev.Run

func body() {
	r = ev.Start("C13", "exploration")
	r.Rule = "value sequences are drawn per type from generators aimed at scheme boundaries (RLE / simple8b / raw for times and integers, XOR windows for floats, bit packing, snappy strings); a case is non-trivial when the encoded header shows a compressed scheme or the generator sits within +-1 of a scheme switch; distinct by (type, time scheme, value scheme, length class, generator). WAL cases: distinct by (entry kinds, #entries, cut class)."
	r.Assumptions = []string{"timestamps inside one block are sorted ascending (the cache deduplicates and sorts before encoding); unsorted sequences are exercised only through the raw scheme",
		"golang/snappy and jwilder/encoding (dependencies outside the repository) are trusted"}
	r.Floor = 40

	nSeq := r.Pick(300000, 6000000)
	if v := os.Getenv("C13_NSEQ"); v != "" {
		fmt.Sscan(v, &nSeq)
	}
	nSeg := r.Pick(1500, 30000)
	if v := os.Getenv("C13_NSEG"); v != "" {
		fmt.Sscan(v, &nSeg)
	}
	rng := r.Rand("seq")
	type job struct {
		id   string
		typ  int
		seed int64
		wal  bool
	}
	jobs := make(chan job, 1024)
	dir := ev.TempDir("c13")
	defer os.RemoveAll(dir)
	var wg sync.WaitGroup
	for w := 0; w < runtime.NumCPU(); w++ {
		wg.Add(1)
		wdir := filepath.Join(dir, fmt.Sprint(w))
		os.MkdirAll(wdir, 0o755)
		go func() {
			defer wg.Done()
			for j := range jobs {
				if j.wal {
					oneSegment(j.id, j.seed, wdir)
				} else {
					oneSequence(j.id, j.typ, j.seed)
				}
			}
		}()
	}
	for i := 0; i < nSeq; i++ {
		caseID := fmt.Sprintf("seq/%d", i)
		seqSeed := rng.Int63()
		if r.Skip(caseID) {
			continue
		}
		jobs <- job{caseID, i % 5, seqSeed, false}
	}
	wrng := r.Rand("wal")
	for i := 0; i < nSeg; i++ {
		caseID := fmt.Sprintf("wal/%d", i)
		s := wrng.Int63()
		if r.Skip(caseID) {
			continue
		}
		jobs <- job{caseID, 0, s, true}
	}
	close(jobs)
	wg.Wait()
	os.RemoveAll(dir)
	r.Finish()
}

// ---------------------------------------------------------------- generators

func lenClass(n int) string {
	switch {
	case n == 1:
		return "1"
	case n < 8:
		return "<8"
	case n < 240:
		return "<240"
	case n < 1000:
		return "<1000"
	case n == 1000:
		return "1000"
	default:
		return ">1000"
	}
}

func genLen(g *rand.Rand) int {
	switch g.Intn(10) {
	case 0:
		return 1
	case 1:
		return 2 + g.Intn(6)
	case 2:
		return 1000
	case 3:
		return 999 + g.Intn(3)
	case 4:
		return 1001 + g.Intn(1500)
	case 5:
		return 7 + g.Intn(3)*8 + g.Intn(3) - 1 // around multiples of 8
	case 6:
		return 59 + g.Intn(4) // simple8b packs up to 60 / 240
	case 7:
		return 239 + g.Intn(4)
	default:
		return 1 + g.Intn(300)
	}
}

// genTimes returns a sorted timestamp sequence and the generator name.
func genTimes(g *rand.Rand, n int) ([]int64, string) {
	ts := make([]int64, n)
	kind := g.Intn(9)
	name := ""
	switch kind {
	case 0: // constant delta with a power-of-ten scale => RLE
		name = "const-delta"
		d := int64(1+g.Intn(9)) * pow10(g.Intn(12))
		t := int64(g.Intn(1e9)) * pow10(g.Intn(9))
		for i := range ts {
			ts[i] = t
			t += d
		}
	case 1: // small irregular deltas => simple8b
		name = "small-deltas"
		t := g.Int63n(1 << 50)
		for i := range ts {
			ts[i] = t
			t += 1 + g.Int63n(1<<uint(1+g.Intn(30)))
		}
	case 2: // deltas at the simple8b limit 2^60-1 +-1
		name = "delta-at-2^60"
		t := int64(math.MinInt64) + g.Int63n(1000)
		for i := range ts {
			ts[i] = t
			if i == n/2 {
				d := int64(1<<60) - 2 + int64(g.Intn(3))
				if t > math.MaxInt64-d-int64(n) {
					d = 1
				}
				t += d
			} else {
				t++
			}
		}
	case 3: // one huge delta => raw
		name = "huge-delta"
		t := int64(math.MinInt64)
		for i := range ts {
			ts[i] = t
			if i == n/2 {
				t = math.MaxInt64 - int64(n)
			} else {
				t++
			}
		}
	case 4: // extremes
		name = "extremes"
		for i := range ts {
			switch g.Intn(4) {
			case 0:
				ts[i] = math.MinInt64 + int64(g.Intn(3))
			case 1:
				ts[i] = math.MaxInt64 - int64(g.Intn(3))
			case 2:
				ts[i] = int64(g.Intn(3)) - 1
			default:
				ts[i] = g.Int63() - g.Int63()
			}
		}
		sort.Slice(ts, func(i, j int) bool { return ts[i] < ts[j] })
	case 5: // duplicates (delta 0) mixed with constant delta
		name = "zero-deltas"
		t := g.Int63n(1 << 40)
		for i := range ts {
			ts[i] = t
			if g.Intn(3) > 0 {
				t += 1000
			}
		}
	case 6: // scaled deltas with one off-scale value (divisor collapses)
		name = "scale-break"
		d := pow10(1 + g.Intn(9))
		t := d * g.Int63n(1e6)
		for i := range ts {
			ts[i] = t
			t += d * int64(1+g.Intn(5))
		}
		if n > 2 {
			k := 1 + g.Intn(n-1)
			for j := k; j < n; j++ {
				ts[j]++
			}
		}
	case 7: // random sorted
		name = "random-sorted"
		for i := range ts {
			ts[i] = g.Int63() - g.Int63()
		}
		sort.Slice(ts, func(i, j int) bool { return ts[i] < ts[j] })
	default: // unsorted
		name = "unsorted"
		for i := range ts {
			ts[i] = g.Int63n(1 << 40)
		}
	}
	return ts, name
}

func pow10(k int) int64 {
	v := int64(1)
	for i := 0; i < k; i++ {
		v *= 10
	}
	return v
}

func genInts(g *rand.Rand, n int) ([]int64, string) {
	v := make([]int64, n)
	switch g.Intn(8) {
	case 0:
		x := g.Int63() - g.Int63()
		for i := range v {
			v[i] = x
		}
		return v, "constant"
	case 1:
		x := g.Int63n(1 << 40)
		d := g.Int63n(1000) - 500
		for i := range v {
			v[i] = x
			x += d
		}
		return v, "const-delta"
	case 2:
		x := int64(0)
		for i := range v {
			x += g.Int63n(1<<uint(1+g.Intn(20))) - 5
			v[i] = x
		}
		return v, "small-deltas"
	case 3: // zig-zag deltas at simple8b limit
		x := int64(0)
		for i := range v {
			v[i] = x
			if i == n/2 {
				x += int64(1<<59) - 1 + int64(g.Intn(3))
			} else {
				x += int64(g.Intn(3)) - 1
			}
		}
		return v, "delta-at-2^59"
	case 4:
		for i := range v {
			switch g.Intn(5) {
			case 0:
				v[i] = math.MinInt64
			case 1:
				v[i] = math.MaxInt64
			case 2:
				v[i] = 0
			case 3:
				v[i] = -1
			default:
				v[i] = g.Int63() - g.Int63()
			}
		}
		return v, "extremes"
	case 5:
		for i := range v {
			v[i] = int64(g.Intn(2))
		}
		return v, "bits"
	case 6:
		for i := range v {
			v[i] = g.Int63() - g.Int63()
		}
		return v, "random"
	default:
		x := int64(100)
		for i := range v {
			if g.Intn(20) == 0 {
				x = g.Int63n(1000)
			}
			v[i] = x
		}
		return v, "runs"
	}
}

func genFloats(g *rand.Rand, n int) ([]float64, string) {
	v := make([]float64, n)
	switch g.Intn(8) {
	case 0:
		x := g.NormFloat64()
		for i := range v {
			v[i] = x
		}
		return v, "constant"
	case 1:
		for i := range v {
			v[i] = float64(g.Intn(1000)) / 8
		}
		return v, "dyadic"
	case 2:
		for i := range v {
			v[i] = math.Float64frombits(g.Uint64())
			if math.IsNaN(v[i]) || math.IsInf(v[i], 0) {
				v[i] = 0
			}
		}
		return v, "random-bits"
	case 3:
		sp := []float64{0, math.Copysign(0, -1), math.SmallestNonzeroFloat64, -math.SmallestNonzeroFloat64, math.MaxFloat64, -math.MaxFloat64, 1, -1, math.Float64frombits(0x000fffffffffffff), math.Float64frombits(0x0010000000000000)}
		for i := range v {
			v[i] = sp[g.Intn(len(sp))]
		}
		return v, "special"
	case 4: // shrinking / growing XOR windows
		x := uint64(0x3ff0000000000000)
		for i := range v {
			w := uint(g.Intn(64))
			x ^= (g.Uint64() >> w) << uint(g.Intn(int(w)+1))
			f := math.Float64frombits(x)
			if math.IsNaN(f) || math.IsInf(f, 0) {
				x = 0x3ff0000000000000
				f = 1
			}
			v[i] = f
		}
		return v, "xor-windows"
	case 5:
		x := g.Float64() * 100
		for i := range v {
			if g.Intn(15) == 0 {
				x = g.Float64() * 100
			}
			v[i] = x
		}
		return v, "runs"
	case 6:
		x := 20.0
		for i := range v {
			x += g.NormFloat64() * 0.1
			v[i] = x
		}
		return v, "walk"
	default: // single low/high bit flips
		x := uint64(0x4000000000000000)
		for i := range v {
			if g.Intn(2) == 0 {
				x ^= 1
			} else {
				x ^= 1 << 51
			}
			v[i] = math.Float64frombits(x)
		}
		return v, "bit-flips"
	}
}

func genStrings(g *rand.Rand, n int) ([]string, string) {
	v := make([]string, n)
	kind := g.Intn(5)
	name := []string{"short", "empty-mix", "long", "non-utf8", "repeats"}[kind]
	big := 0
	for i := range v {
		switch kind {
		case 0:
			v[i] = randStr(g, g.Intn(12), false)
		case 1:
			if g.Intn(2) == 0 {
				v[i] = ""
			} else {
				v[i] = randStr(g, 1+g.Intn(3), false)
			}
		case 2:
			if big < 3 && g.Intn(n) < 3 {
				v[i] = randStr(g, 64*1024-g.Intn(2), false)
				big++
			} else {
				v[i] = randStr(g, g.Intn(40), false)
			}
		case 3:
			v[i] = randStr(g, g.Intn(20), true)
		default:
			v[i] = strings.Repeat("ab", g.Intn(50))
		}
	}
	return v, name
}

func randStr(g *rand.Rand, n int, raw bool) string {
	b := make([]byte, n)
	for i := range b {
		if raw {
			b[i] = byte(g.Intn(256))
		} else {
			b[i] = byte(32 + g.Intn(95))
		}
	}
	return string(b)
}

func genBools(g *rand.Rand, n int) ([]bool, string) {
	v := make([]bool, n)
	kind := g.Intn(3)
	for i := range v {
		switch kind {
		case 0:
			v[i] = g.Intn(2) == 0
		case 1:
			v[i] = true
		default:
			v[i] = i%9 == 0
		}
	}
	return v, []string{"random", "all-true", "sparse"}[kind]
}

// ------------------------------------------------------------------ sequences

type seqWitness struct {
	Type  string      `json:"type"`
	Gen   string      `json:"generators"`
	N     int         `json:"n"`
	Seed  int64       `json:"case_seed"`
	Where string      `json:"where"`
	Index int         `json:"index"`
	Want  interface{} `json:"want"`
	Got   interface{} `json:"got"`
}

func oneSequence(caseID string, typ int, seed int64) {
	g := rand.New(rand.NewSource(seed))
	n := genLen(g)
	ts, tgen := genTimes(g, n)
	tname := []string{"float", "integer", "unsigned", "boolean", "string"}[typ]
	if seed%64 == 0 {
		r.Begin(caseID, map[string]interface{}{"type": tname, "seed": seed, "n": n})
	}
	r.Eval(1)

	vals := make(tsm1.Values, n)
	var vgen string
	var fl []float64
	var in []int64
	var un []uint64
	var bo []bool
	var st []string
	switch typ {
	case 0:
		fl, vgen = genFloats(g, n)
		for i := range vals {
			vals[i] = tsm1.NewFloatValue(ts[i], fl[i])
		}
	case 1:
		in, vgen = genInts(g, n)
		for i := range vals {
			vals[i] = tsm1.NewIntegerValue(ts[i], in[i])
		}
	case 2:
		in, vgen = genInts(g, n)
		un = make([]uint64, n)
		for i := range vals {
			un[i] = uint64(in[i])
			vals[i] = tsm1.NewUnsignedValue(ts[i], un[i])
		}
	case 3:
		bo, vgen = genBools(g, n)
		for i := range vals {
			vals[i] = tsm1.NewBooleanValue(ts[i], bo[i])
		}
	case 4:
		st, vgen = genStrings(g, n)
		for i := range vals {
			vals[i] = tsm1.NewStringValue(ts[i], st[i])
		}
	}
	fail := func(where string, idx int, want, got interface{}) {
		r.Violation("C13/roundtrip/"+tname+"/"+where, caseID,
			fmt.Sprintf("%s sequence (times %s, values %s, n=%d) differs after %s at index %d", tname, tgen, vgen, n, where, idx),
			seqWitness{tname, tgen + "/" + vgen, n, seed, where, idx, fmt.Sprint(want), fmt.Sprint(got)})
	}

	// Path A: Values.Encode -> DecodeBlock and Decode*ArrayBlock.
	block, err := vals.Encode(nil)
	if err != nil {
		fail("Values.Encode error: "+err.Error(), 0, nil, nil)
		return
	}
	tb, vb := splitBlock(block)
	tscheme, vscheme := -1, -1
	if len(tb) > 0 {
		tscheme = int(tb[0] >> 4)
	}
	if len(vb) > 0 {
		vscheme = int(vb[0] >> 4)
	}
	dec, err := tsm1.DecodeBlock(block, nil)
	if err != nil {
		fail("DecodeBlock error: "+err.Error(), 0, nil, nil)
		return
	}
	if len(dec) != n {
		fail("DecodeBlock length", 0, n, len(dec))
		return
	}
	for i := range dec {
		if !sameValue(dec[i], vals[i]) {
			fail("DecodeBlock", i, vals[i], dec[i])
			return
		}
	}
	if c, err := tsm1.BlockCount(block); err != nil || c != n {
		fail("BlockCount", 0, n, c)
		return
	}
	var ats []int64
	switch typ {
	case 0:
		a := &tsdb.FloatArray{}
		err = tsm1.DecodeFloatArrayBlock(block, a)
		ats = a.Timestamps
		if err == nil && !cmpFloats(a.Values, fl, func(i int) { fail("DecodeFloatArrayBlock", i, fl[i], a.Values[i]) }) {
			return
		}
	case 1:
		a := &tsdb.IntegerArray{}
		err = tsm1.DecodeIntegerArrayBlock(block, a)
		ats = a.Timestamps
		if err == nil && !cmpSlice(len(a.Values), n, func(i int) bool { return a.Values[i] == in[i] }, func(i int) { fail("DecodeIntegerArrayBlock", i, in[i], a.Values[i]) }) {
			return
		}
	case 2:
		a := &tsdb.UnsignedArray{}
		err = tsm1.DecodeUnsignedArrayBlock(block, a)
		ats = a.Timestamps
		if err == nil && !cmpSlice(len(a.Values), n, func(i int) bool { return a.Values[i] == un[i] }, func(i int) { fail("DecodeUnsignedArrayBlock", i, un[i], a.Values[i]) }) {
			return
		}
	case 3:
		a := &tsdb.BooleanArray{}
		err = tsm1.DecodeBooleanArrayBlock(block, a)
		ats = a.Timestamps
		if err == nil && !cmpSlice(len(a.Values), n, func(i int) bool { return a.Values[i] == bo[i] }, func(i int) { fail("DecodeBooleanArrayBlock", i, bo[i], a.Values[i]) }) {
			return
		}
	case 4:
		a := &tsdb.StringArray{}
		err = tsm1.DecodeStringArrayBlock(block, a)
		ats = a.Timestamps
		if err == nil && !cmpSlice(len(a.Values), n, func(i int) bool { return a.Values[i] == st[i] }, func(i int) { fail("DecodeStringArrayBlock", i, st[i], a.Values[i]) }) {
			return
		}
	}
	if err != nil {
		fail("Decode*ArrayBlock error: "+err.Error(), 0, nil, nil)
		return
	}
	if !cmpSlice(len(ats), n, func(i int) bool { return ats[i] == ts[i] }, func(i int) { fail("Decode*ArrayBlock timestamps", i, ts[i], safeIdx(ats, i)) }) {
		return
	}

	// Path B: batch encoders -> iterator decoders and batch decoders; and the
	// two encoder families must be readable by both decoder families.
	if !batchPaths(typ, ts, fl, in, un, bo, st, fail) {
		return
	}

	compressed := tscheme > 0 || (vscheme > 0 && typ != 0 && typ != 3)
	edge := strings.Contains(tgen, "2^60") || strings.Contains(vgen, "2^59") || tgen == "scale-break" || n >= 999 && n <= 1001
	if compressed || edge || typ == 0 || typ == 4 {
		r.Nontrivial(fmt.Sprintf("%s|%d|%d|%s|%s|%s", tname, tscheme, vscheme, lenClass(n), tgen, vgen))
	}
	r.Count("sequences_roundtripped", 1)
	r.Count(fmt.Sprintf("time_scheme_%d", tscheme), 1)
	if r.WantSample() && n < 12 {
		r.Sample(map[string]interface{}{"case": caseID, "type": tname, "times": ts, "time_generator": tgen, "value_generator": vgen, "time_scheme": tscheme, "value_scheme": vscheme, "encoded_bytes": len(block)})
	}
}

func safeIdx(a []int64, i int) interface{} {
	if i < len(a) {
		return a[i]
	}
	return "missing"
}

func splitBlock(block []byte) (tb, vb []byte) {
	// byte 0: type; then uvarint length of the timestamp section.
	if len(block) < 2 {
		return nil, nil
	}
	b := block[1:]
	var l uint64
	var s uint
	i := 0
	for ; i < len(b); i++ {
		l |= uint64(b[i]&0x7f) << s
		if b[i] < 0x80 {
			i++
			break
		}
		s += 7
	}
	if int(l) > len(b)-i {
		return nil, nil
	}
	return b[i : i+int(l)], b[i+int(l):]
}

func sameValue(a, b tsm1.Value) bool {
	if a.UnixNano() != b.UnixNano() {
		return false
	}
	switch x := a.Value().(type) {
	case float64:
		y, ok := b.Value().(float64)
		return ok && math.Float64bits(x) == math.Float64bits(y)
	default:
		return reflect.DeepEqual(a.Value(), b.Value())
	}
}

func cmpFloats(got, want []float64, bad func(i int)) bool {
	if len(got) != len(want) {
		bad(0)
		return false
	}
	for i := range got {
		if math.Float64bits(got[i]) != math.Float64bits(want[i]) {
			bad(i)
			return false
		}
	}
	return true
}

func cmpSlice(gotLen, wantLen int, eq func(i int) bool, bad func(i int)) bool {
	if gotLen != wantLen {
		if gotLen < wantLen {
			bad(gotLen) // callers print "missing" safely only for timestamps; guard below
		} else {
			bad(0)
		}
		return false
	}
	for i := 0; i < wantLen; i++ {
		if !eq(i) {
			bad(i)
			return false
		}
	}
	return true
}

func batchPaths(typ int, ts []int64, fl []float64, in []int64, un []uint64, bo []bool, st []string, fail func(string, int, interface{}, interface{})) (ok bool) {
	defer func() {
		if e := recover(); e != nil {
			// a length mismatch reported through an index panic in the
			// comparison helpers is still a mismatch
			fail(fmt.Sprintf("batch path panic: %v", e), 0, nil, nil)
			ok = false
		}
	}()
	n := len(ts)
	// timestamps: batch encoder, iterator encoder; both decoders on both.
	tcopy := append([]int64(nil), ts...)
	tb1, err := tsm1.TimeArrayEncodeAll(tcopy, nil) // mutates its input
	if err != nil {
		fail("TimeArrayEncodeAll error: "+err.Error(), 0, nil, nil)
		return false
	}
	te := tsm1.NewTimeEncoder(n)
	for _, t := range ts {
		te.Write(t)
	}
	tb2, err := te.Bytes()
	if err != nil {
		fail("TimeEncoder.Bytes error: "+err.Error(), 0, nil, nil)
		return false
	}
	for k, tb := range [][]byte{tb1, tb2} {
		src := []string{"TimeArrayEncodeAll", "TimeEncoder"}[k]
		got, err := tsm1.TimeArrayDecodeAll(tb, nil)
		if err != nil || len(got) != n {
			fail(src+"->TimeArrayDecodeAll", 0, n, fmt.Sprint(len(got), err))
			return false
		}
		for i := range got {
			if got[i] != ts[i] {
				fail(src+"->TimeArrayDecodeAll", i, ts[i], got[i])
				return false
			}
		}
		var d tsm1.TimeDecoder
		d.Init(tb)
		i := 0
		for d.Next() {
			if i >= n || d.Read() != ts[i] {
				fail(src+"->TimeDecoder", i, nil, d.Read())
				return false
			}
			i++
		}
		if d.Error() != nil || i != n {
			fail(src+"->TimeDecoder count", i, n, fmt.Sprint(i, d.Error()))
			return false
		}
		if c := tsm1.CountTimestamps(tb); c != n {
			fail(src+"->CountTimestamps", 0, n, c)
			return false
		}
	}
	switch typ {
	case 0:
		b1, err := tsm1.FloatArrayEncodeAll(fl, nil)
		if err != nil {
			fail("FloatArrayEncodeAll error: "+err.Error(), 0, nil, nil)
			return false
		}
		e := tsm1.NewFloatEncoder()
		for _, v := range fl {
			e.Write(v)
		}
		e.Flush()
		b2, err := e.Bytes()
		if err != nil {
			fail("FloatEncoder.Bytes error: "+err.Error(), 0, nil, nil)
			return false
		}
		for k, b := range [][]byte{b1, b2} {
			src := []string{"FloatArrayEncodeAll", "FloatEncoder"}[k]
			got, err := tsm1.FloatArrayDecodeAll(b, nil)
			if err != nil {
				fail(src+"->FloatArrayDecodeAll error: "+err.Error(), 0, nil, nil)
				return false
			}
			if !cmpFloats(got, fl, func(i int) { fail(src+"->FloatArrayDecodeAll", i, fl[i], got[i]) }) {
				return false
			}
			var d tsm1.FloatDecoder
			if err := d.SetBytes(b); err != nil {
				fail(src+"->FloatDecoder.SetBytes error: "+err.Error(), 0, nil, nil)
				return false
			}
			i := 0
			for d.Next() {
				if i >= n || math.Float64bits(d.Values()) != math.Float64bits(fl[i]) {
					fail(src+"->FloatDecoder", i, nil, d.Values())
					return false
				}
				i++
			}
			if d.Error() != nil || i != n {
				fail(src+"->FloatDecoder count", i, n, fmt.Sprint(i, d.Error()))
				return false
			}
		}
	case 1, 2:
		var b1 []byte
		var err error
		if typ == 1 {
			b1, err = tsm1.IntegerArrayEncodeAll(append([]int64(nil), in...), nil)
		} else {
			b1, err = tsm1.UnsignedArrayEncodeAll(append([]uint64(nil), un...), nil)
		}
		if err != nil {
			fail("IntegerArrayEncodeAll error: "+err.Error(), 0, nil, nil)
			return false
		}
		e := tsm1.NewIntegerEncoder(n)
		for _, v := range in {
			e.Write(v)
		}
		e.Flush()
		b2, err := e.Bytes()
		if err != nil {
			fail("IntegerEncoder.Bytes error: "+err.Error(), 0, nil, nil)
			return false
		}
		for k, b := range [][]byte{b1, b2} {
			src := []string{"IntegerArrayEncodeAll", "IntegerEncoder"}[k]
			if typ == 1 {
				got, err := tsm1.IntegerArrayDecodeAll(b, nil)
				if err != nil || len(got) != n {
					fail(src+"->IntegerArrayDecodeAll", 0, n, fmt.Sprint(len(got), err))
					return false
				}
				for i := range got {
					if got[i] != in[i] {
						fail(src+"->IntegerArrayDecodeAll", i, in[i], got[i])
						return false
					}
				}
			} else {
				got, err := tsm1.UnsignedArrayDecodeAll(b, nil)
				if err != nil || len(got) != n {
					fail(src+"->UnsignedArrayDecodeAll", 0, n, fmt.Sprint(len(got), err))
					return false
				}
				for i := range got {
					if got[i] != un[i] {
						fail(src+"->UnsignedArrayDecodeAll", i, un[i], got[i])
						return false
					}
				}
			}
			var d tsm1.IntegerDecoder
			d.SetBytes(b)
			i := 0
			for d.Next() {
				if i >= n || d.Read() != in[i] {
					fail(src+"->IntegerDecoder", i, nil, d.Read())
					return false
				}
				i++
			}
			if d.Error() != nil || i != n {
				fail(src+"->IntegerDecoder count", i, n, fmt.Sprint(i, d.Error()))
				return false
			}
		}
	case 3:
		b1, err := tsm1.BooleanArrayEncodeAll(bo, nil)
		if err != nil {
			fail("BooleanArrayEncodeAll error: "+err.Error(), 0, nil, nil)
			return false
		}
		e := tsm1.NewBooleanEncoder(n)
		for _, v := range bo {
			e.Write(v)
		}
		e.Flush()
		b2, err := e.Bytes()
		if err != nil {
			fail("BooleanEncoder.Bytes error: "+err.Error(), 0, nil, nil)
			return false
		}
		for k, b := range [][]byte{b1, b2} {
			src := []string{"BooleanArrayEncodeAll", "BooleanEncoder"}[k]
			got, err := tsm1.BooleanArrayDecodeAll(b, nil)
			if err != nil || len(got) != n {
				fail(src+"->BooleanArrayDecodeAll", 0, n, fmt.Sprint(len(got), err))
				return false
			}
			for i := range got {
				if got[i] != bo[i] {
					fail(src+"->BooleanArrayDecodeAll", i, bo[i], got[i])
					return false
				}
			}
			var d tsm1.BooleanDecoder
			d.SetBytes(b)
			i := 0
			for d.Next() {
				if i >= n || d.Read() != bo[i] {
					fail(src+"->BooleanDecoder", i, nil, d.Read())
					return false
				}
				i++
			}
			if d.Error() != nil || i != n {
				fail(src+"->BooleanDecoder count", i, n, fmt.Sprint(i, d.Error()))
				return false
			}
		}
	case 4:
		b1, err := tsm1.StringArrayEncodeAll(st, nil)
		if err != nil {
			fail("StringArrayEncodeAll error: "+err.Error(), 0, nil, nil)
			return false
		}
		e := tsm1.NewStringEncoder(n)
		for _, v := range st {
			e.Write(v)
		}
		e.Flush()
		b2, err := e.Bytes()
		if err != nil {
			fail("StringEncoder.Bytes error: "+err.Error(), 0, nil, nil)
			return false
		}
		for k, b := range [][]byte{b1, b2} {
			src := []string{"StringArrayEncodeAll", "StringEncoder"}[k]
			got, err := tsm1.StringArrayDecodeAll(b, nil)
			if err != nil || len(got) != n {
				fail(src+"->StringArrayDecodeAll", 0, n, fmt.Sprint(len(got), err))
				return false
			}
			for i := range got {
				if got[i] != st[i] {
					fail(src+"->StringArrayDecodeAll", i, len(st[i]), len(got[i]))
					return false
				}
			}
			var d tsm1.StringDecoder
			if err := d.SetBytes(b); err != nil {
				fail(src+"->StringDecoder.SetBytes error: "+err.Error(), 0, nil, nil)
				return false
			}
			i := 0
			for d.Next() {
				if i >= n || d.Read() != st[i] {
					fail(src+"->StringDecoder", i, nil, len(d.Read()))
					return false
				}
				i++
			}
			if d.Error() != nil || i != n {
				fail(src+"->StringDecoder count", i, n, fmt.Sprint(i, d.Error()))
				return false
			}
		}
	}
	return true
}

// ------------------------------------------------------------------ WAL

type walEntry struct {
	Kind   string              `json:"kind"`
	Keys   []string            `json:"keys,omitempty"`
	Min    int64               `json:"min,omitempty"`
	Max    int64               `json:"max,omitempty"`
	Values map[string][]string `json:"values,omitempty"`
	End    int64               `json:"frame_end"`
	entry  tsm1.WALEntry
}

func genEntry(g *rand.Rand) *walEntry {
	keys := []string{"cpu,host=a#!~#f", "cpu,host=b#!~#f", "mem#!~#i", "mem#!~#s", "d,k=v#!~#b", "u#!~#u"}
	switch g.Intn(6) {
	case 0:
		e := &tsm1.DeleteWALEntry{}
		w := &walEntry{Kind: "delete"}
		for i := 0; i <= g.Intn(3); i++ {
			k := keys[g.Intn(len(keys))]
			e.Keys = append(e.Keys, []byte(k))
			w.Keys = append(w.Keys, k)
		}
		w.entry = e
		return w
	case 1:
		e := &tsm1.DeleteRangeWALEntry{Min: g.Int63() - g.Int63(), Max: g.Int63() - g.Int63()}
		w := &walEntry{Kind: "delete-range", Min: e.Min, Max: e.Max}
		for i := 0; i <= g.Intn(3); i++ {
			k := keys[g.Intn(len(keys))]
			e.Keys = append(e.Keys, []byte(k))
			w.Keys = append(w.Keys, k)
		}
		w.entry = e
		return w
	default:
		e := &tsm1.WriteWALEntry{Values: map[string][]tsm1.Value{}}
		w := &walEntry{Kind: "write", Values: map[string][]string{}}
		nk := 1 + g.Intn(4)
		for i := 0; i < nk; i++ {
			k := keys[g.Intn(len(keys))]
			if _, ok := e.Values[k]; ok {
				continue
			}
			nv := 1 + g.Intn(5)
			var vs []tsm1.Value
			for j := 0; j < nv; j++ {
				t := g.Int63n(1000)
				var v tsm1.Value
				switch k[len(k)-1] {
				case 'f':
					v = tsm1.NewFloatValue(t, float64(g.Intn(100))/4)
				case 'i':
					v = tsm1.NewIntegerValue(t, g.Int63()-g.Int63())
				case 's':
					v = tsm1.NewStringValue(t, randStr(g, g.Intn(30), true))
				case 'b':
					v = tsm1.NewBooleanValue(t, g.Intn(2) == 0)
				default:
					v = tsm1.NewUnsignedValue(t, g.Uint64())
				}
				vs = append(vs, v)
				w.Values[k] = append(w.Values[k], v.String())
			}
			e.Values[k] = vs
		}
		w.entry = e
		return w
	}
}

type nopCloser struct{ io.Reader }

func (nopCloser) Close() error { return nil }

type bufCloser struct{ bytes.Buffer }

func (*bufCloser) Close() error { return nil }

func entryEqual(a, b tsm1.WALEntry) bool {
	switch x := a.(type) {
	case *tsm1.WriteWALEntry:
		y, ok := b.(*tsm1.WriteWALEntry)
		if !ok || len(x.Values) != len(y.Values) {
			return false
		}
		for k, vs := range x.Values {
			ws := y.Values[k]
			if len(ws) != len(vs) {
				return false
			}
			for i := range vs {
				if !sameValue(vs[i], ws[i]) {
					return false
				}
			}
		}
		return true
	case *tsm1.DeleteWALEntry:
		y, ok := b.(*tsm1.DeleteWALEntry)
		return ok && keysEqual(x.Keys, y.Keys)
	case *tsm1.DeleteRangeWALEntry:
		y, ok := b.(*tsm1.DeleteRangeWALEntry)
		return ok && keysEqual(x.Keys, y.Keys) && x.Min == y.Min && x.Max == y.Max
	}
	return false
}

func keysEqual(a, b [][]byte) bool {
	if len(a) != len(b) {
		return false
	}
	for i := range a {
		if !bytes.Equal(a[i], b[i]) {
			return false
		}
	}
	return true
}

func oneSegment(caseID string, seed int64, dir string) {
	g := rand.New(rand.NewSource(seed))
	n := 1 + g.Intn(30)
	if g.Intn(4) == 0 {
		n = 1 + g.Intn(4)
	}
	r.Begin(caseID, map[string]interface{}{"seed": seed, "entries": n})
	var buf bufCloser
	w := tsm1.NewWALSegmentWriter(&buf)
	entries := make([]*walEntry, n)
	kinds := map[string]bool{}
	var off int64
	var dirty []byte
	for i := range entries {
		e := genEntry(g)
		entries[i] = e
		kinds[e.Kind] = true
		// The WAL encodes into recycled buffers from a pool: the destination
		// holds whatever the previous user left in it.
		var dst []byte
		switch g.Intn(4) {
		case 1:
			dst = bytes.Repeat([]byte{0x01}, 1<<16)
		case 2:
			dst = bytes.Repeat([]byte{0xff}, 1<<16)
		case 3:
			dst = append([]byte(nil), dirty...)
		}
		b, err := e.entry.Encode(dst)
		dirty = append(dirty[:0], b...)
		if err != nil {
			r.Violation("C13/wal/encode-error", caseID, "WAL entry failed to encode: "+err.Error(), e)
			return
		}
		c := snappy.Encode(nil, b)
		if err := w.Write(e.entry.Type(), c); err != nil {
			r.Violation("C13/wal/write-error", caseID, err.Error(), e)
			return
		}
		off += int64(5 + len(c))
		e.End = off
	}
	w.Flush()
	full := append([]byte(nil), buf.Bytes()...)
	if int64(len(full)) != off {
		r.Violation("C13/wal/size", caseID, fmt.Sprintf("segment length %d, sum of frames %d", len(full), off), nil)
		return
	}
	ks := make([]string, 0, 3)
	for k := range kinds {
		ks = append(ks, k)
	}
	sort.Strings(ks)

	// every cut through the reader
	for c := 0; c <= len(full); c++ {
		r.Eval(1)
		want := 0
		for want < n && entries[want].End <= int64(c) {
			want++
		}
		atBoundary := want == 0 && c == 0 || want > 0 && entries[want-1].End == int64(c)
		rd := tsm1.NewWALSegmentReader(nopCloser{bytes.NewReader(full[:c])})
		got := 0
		var rerr error
		for rd.Next() {
			e, err := rd.Read()
			if err != nil {
				rerr = err
				break
			}
			if got >= n || !entryEqual(entries[got].entry, e) {
				r.Violation("C13/wal/prefix-entry-differs", fmt.Sprintf("%s@%d", caseID, c),
					fmt.Sprintf("segment cut at %d: entry %d read back differs from what was written", c, got),
					map[string]interface{}{"seed": seed, "cut": c, "entries": entries})
				return
			}
			got++
		}
		if got != want {
			r.Violation("C13/wal/prefix-count", fmt.Sprintf("%s@%d", caseID, c),
				fmt.Sprintf("segment of %d entries cut at %d: reader yielded %d entries, %d are complete before the cut", n, c, got, want),
				map[string]interface{}{"seed": seed, "cut": c, "entries": entries})
			return
		}
		if atBoundary && rerr != nil {
			r.Violation("C13/wal/error-at-boundary", fmt.Sprintf("%s@%d", caseID, c),
				fmt.Sprintf("segment cut exactly at a frame boundary (%d) reported error %v", c, rerr),
				map[string]interface{}{"seed": seed, "cut": c})
			return
		}
		if !atBoundary && rerr == nil {
			r.Violation("C13/wal/no-error-mid-frame", fmt.Sprintf("%s@%d", caseID, c),
				fmt.Sprintf("segment cut inside a frame (%d) ended without an error", c),
				map[string]interface{}{"seed": seed, "cut": c})
			return
		}
		if rd.Count() != prefixEnd(entries, want) {
			r.Violation("C13/wal/count", fmt.Sprintf("%s@%d", caseID, c),
				fmt.Sprintf("reader Count()=%d after cut %d, last complete frame ends at %d", rd.Count(), c, prefixEnd(entries, want)), nil)
			return
		}
		cls := "boundary"
		if !atBoundary {
			if c-int(prefixEnd(entries, want)) < 5 {
				cls = "in-header"
			} else {
				cls = "in-payload"
			}
		}
		r.Nontrivial(fmt.Sprintf("wal|%s|%s|%s", strings.Join(ks, "+"), lenClass(n), cls))
	}
	r.Count("wal_cuts_checked", int64(len(full)+1))

	// a seeded subset of cuts through CacheLoader (file based): after Load the
	// file must be truncated to the last complete frame and the cache must
	// hold exactly the effect of the complete entries.
	cuts := []int{len(full)}
	for k := 0; k < 6; k++ {
		cuts = append(cuts, g.Intn(len(full)+1))
	}
	for _, c := range cuts {
		path := filepath.Join(dir, "_00001.wal")
		if err := os.WriteFile(path, full[:c], 0o644); err != nil {
			fmt.Fprintln(os.Stderr, err)
			os.Exit(ev.ExitBroken)
		}
		want := 0
		for want < n && entries[want].End <= int64(c) {
			want++
		}
		cache := tsm1.NewCache(1 << 30)
		ref := tsm1.NewCache(1 << 30)
		for _, e := range entries[:want] {
			switch t := e.entry.(type) {
			case *tsm1.WriteWALEntry:
				ref.WriteMulti(t.Values)
			case *tsm1.DeleteRangeWALEntry:
				ref.DeleteRange(t.Keys, t.Min, t.Max)
			case *tsm1.DeleteWALEntry:
				ref.Delete(t.Keys)
			}
		}
		if err := tsm1.NewCacheLoader([]string{path}).Load(cache); err != nil {
			r.Violation("C13/wal/loader-error", fmt.Sprintf("%s@%d", caseID, c), "CacheLoader.Load failed on a truncated segment: "+err.Error(), map[string]interface{}{"seed": seed, "cut": c})
			return
		}
		stt, _ := os.Stat(path)
		if c > 0 && stt.Size() != prefixEnd(entries, want) && !(c == len(full) && stt.Size() == int64(c)) {
			r.Violation("C13/wal/loader-truncate", fmt.Sprintf("%s@%d", caseID, c),
				fmt.Sprintf("after Load of a segment cut at %d the file is %d bytes, last complete frame ends at %d", c, stt.Size(), prefixEnd(entries, want)), map[string]interface{}{"seed": seed, "cut": c})
			return
		}
		if !cacheEqual(cache, ref) {
			r.Violation("C13/wal/loader-content", fmt.Sprintf("%s@%d", caseID, c),
				fmt.Sprintf("cache loaded from a segment cut at %d differs from the effect of its %d complete entries", c, want), map[string]interface{}{"seed": seed, "cut": c, "entries": entries})
			return
		}
		r.Eval(1)
		r.Count("wal_loader_cuts_checked", 1)
	}
	if r.WantSample() && n <= 3 {
		r.Sample(map[string]interface{}{"case": caseID, "entries": entries, "segment_bytes": len(full), "cuts": len(full) + 1})
	}
}

func prefixEnd(entries []*walEntry, k int) int64 {
	if k == 0 {
		return 0
	}
	return entries[k-1].End
}

func cacheEqual(a, b *tsm1.Cache) bool {
	ka, kb := a.Keys(), b.Keys()
	if len(ka) != len(kb) {
		return false
	}
	for i := range ka {
		if !bytes.Equal(ka[i], kb[i]) {
			return false
		}
		va, vb := a.Values(ka[i]), b.Values(kb[i])
		if len(va) != len(vb) {
			return false
		}
		for j := range va {
			if !sameValue(va[j], vb[j]) {
				return false
			}
		}
	}
	return true
}
