// C16 — requests run only with valid credentials and sufficient grants.
//
// Monitor: the REAL httpd.Handler (authentication enabled, with and without a
// shared secret for bearer tokens) is wired to a REAL meta.Client backed by a
// real single-node meta service; the real meta.QueryAuthorizer and
// meta.WriteAuthorizer decide; behind them sit RECORDING doubles for the
// StatementExecutor and the PointsWriter which note every statement / batch
// that would have run and for which user. The oracle is an independent
// privilege model kept by the harness (users, passwords, admin flags, grants
// as the harness set them; never read back from the store): whatever reached
// the executor or the points writer must be backed by valid credentials of an
// existing user whose grants cover every ExecutionPrivilege the statement's
// own RequiredPrivileges() names (cross-checked by a hand table for the plain
// statement classes). Histories of user / password / grant changes on two
// meta.Clients ("nodes") are interleaved with authentications that populate
// the credential caches: once a change has reached a node, the old password,
// the revoked grant or the dropped user must be dead there.
package main

import (
	"bufio"
	"fmt"
	"os"
	"path/filepath"
	"runtime/pprof"
	"strings"
	"sync"
	"time"

	"golang.org/x/crypto/bcrypt"

	"verifharness/internal/ev"
)

func main() {
	// Race reports are read from the detector's log by raceReports(); without
	// exitcode=0 a single report anywhere turns the child's exit status into
	// 66 after the verdict has been written.
	if os.Getenv("VERIF_CHILD") != "1" {
		if g := os.Getenv("GORACE"); !strings.Contains(g, "exitcode=") {
			os.Setenv("GORACE", strings.TrimSpace(g+" exitcode=0"))
		}
	}
	ev.Supervise("C16", body)
}

var r *ev.Run

// bcryptTime is the measured duration of one password verification in this
// build (only used to spread concurrent authentications; never a verdict).
var bcryptTime time.Duration

var refusedMu sync.Mutex
var refused []map[string]interface{}

// noteRefused keeps a few requests the model allows but the handler refused
// (not a violation of C16, which is one-directional; kept for the evidence).
func noteRefused(spec reqSpec, o outcome) {
	refusedMu.Lock()
	if len(refused) < 8 {
		refused = append(refused, map[string]interface{}{"request": spec, "status": o.Status, "error": o.Err})
	}
	refusedMu.Unlock()
}

func body() {
	r = ev.Start("C16", "exploration")
	r.Rule = "matrix: every statement template of every statement type the InfluxQL parser produces (explicit ON db / default db parameter, db parameter in {none, db0, db1}) x every user of {admin, not} x {none, READ, WRITE, ALL} on db0 x the same on db1, x credential carriers (basic, u/p parameters, Token header, bearer JWT), plus multi-statement requests mixing allowed and denied statements in every order, writes (v1, v2, prometheus) to each database, invalid credentials (wrong / empty password, unknown user, missing, JWT expired / no exp / wrong secret / alg none / unknown user / bearer disabled, two carriers at once) and the zero-user state; histories: scripted and random sequences of create / drop / re-create user, set password, grant / revoke, set / unset admin issued on one of two nodes and probed (Authenticate, HTTP query, HTTP write) on either node after the change reached it, plus the concurrent variant (authentications in flight while the password changes). A case is non-trivial when the model denies it because of EXACTLY ONE missing ingredient (credentials, admin, one privilege, one later statement) or when a stale credential is probed after a change; distinct by (statement types, missing ingredient) resp. (kind of change, node relation)."
	r.Assumptions = []string{
		"what a statement needs is what its own RequiredPrivileges() in the influxql dependency returns (a privilege with an empty database name means the request's db parameter); the hand table only covers SELECT (READ), SELECT INTO / DELETE / DROP SERIES (WRITE), and user / database / create+alter retention-policy management (admin)",
		"StatementExecutor and PointsWriter are recording doubles (the real coordinator.StatementExecutor enforces no privilege itself: it only filters SHOW DATABASES / SHOW CONTINUOUS QUERIES through the coarse authorizer); what reaches them is what would have run. One case additionally uses the real coordinator.StatementExecutor against the real meta store",
		"'the change has reached a node' = the node's meta.Client has seen the raft index of the change (UpdateUser etc. return only then for the issuing client; the other client is awaited by index, never by sleeping)",
		"bearer tokens: valid = HMAC-signed with the configured shared secret, numeric exp in the future, username of an existing user",
		"metadata backend: a real single-node meta service with two real meta.Clients per cluster; flux, prometheus read, pprof and /debug endpoints are not exercised",
	}
	r.Floor = 60

	shapes, err := singleShapes()
	if err != nil {
		broken("%v", err)
	}
	covered, missing := coveredTypes(shapes)
	r.Set("statement_types_covered", covered)
	r.Set("statement_types_not_covered", missing)
	if len(missing) > 0 {
		broken("statement types without a template: %v", missing)
	}

	// informational: statements whose RequiredPrivileges() (the definition of
	// "needs" used by this check) name neither admin nor the database given
	// in their own ON clause
	var gaps []string
	seenGap := map[string]bool{}
	for _, s := range allSingles() {
		if s.D == "" || !strings.Contains(s.Text, " ON "+s.D) {
			continue
		}
		for _, p := range dbParams {
			if p == s.D {
				continue
			}
			sh, err := mkShape(-1, []single{s}, p)
			if err != nil {
				broken("%v", err)
			}
			named := false
			for _, n := range sh.needs[0] {
				if n.Admin || n.DB == s.D {
					named = true
				}
			}
			if !named && !seenGap[s.Text] {
				seenGap[s.Text] = true
				var ns []string
				for _, n := range sh.needs[0] {
					ns = append(ns, n.String())
				}
				gaps = append(gaps, fmt.Sprintf("%s (db parameter %q) needs %v", s.Text, p, ns))
			}
		}
	}
	r.Set("influxql_required_privileges_not_naming_the_ON_database", gaps)

	h, _ := bcrypt.GenerateFromPassword([]byte("probe"), bcrypt.DefaultCost)
	t0 := time.Now()
	bcrypt.CompareHashAndPassword(h, []byte("probe"))
	bcryptTime = time.Since(t0)
	r.Set("bcrypt_verification_ms_in_this_build", bcryptTime.Milliseconds())

	if pf := os.Getenv("C16_CPUPROFILE"); pf != "" {
		if fh, err := os.Create(pf); err == nil {
			pprof.StartCPUProfile(fh)
			defer pprof.StopCPUProfile()
		}
	}
	root := ev.TempDir("c16")
	defer os.RemoveAll(root)

	tm := time.Now()
	runMatrix(root, shapes)
	r.Set("matrix_phase_s", time.Since(tm).Seconds())
	tm = time.Now()
	runHistories(root)
	r.Set("history_phase_s", time.Since(tm).Seconds())

	os.RemoveAll(root)
	refusedMu.Lock()
	if len(refused) > 0 {
		r.Set("allowed_by_model_but_refused_samples", refused)
	}
	refusedMu.Unlock()
	raceReports()
	pprof.StopCPUProfile()
	if r.ReplayCase() == "" && r.Counter("allowed_requests_executed") < 1000 {
		broken("only %d requests the model allows were executed: the monitor would be vacuous", r.Counter("allowed_requests_executed"))
	}
	r.Finish()
}

// raceReports turns data-race reports that involve the credential cache or
// the authentication path into a violation (the histories are quantified over
// schedules; an unsynchronised access there leaves the cache undefined) and
// counts the others.
func raceReports() {
	lp := ""
	for _, f := range strings.Fields(os.Getenv("GORACE")) {
		if strings.HasPrefix(f, "log_path=") {
			lp = strings.TrimPrefix(f, "log_path=")
		}
	}
	if lp == "" {
		return
	}
	files, _ := filepath.Glob(lp + ".*")
	total, inAuth, harnessOnly := 0, 0, 0
	var first string
	for _, f := range files {
		fh, err := os.Open(f)
		if err != nil {
			continue
		}
		sc := bufio.NewScanner(fh)
		sc.Buffer(make([]byte, 1<<20), 1<<24)
		var cur []string
		flush := func() {
			if len(cur) == 0 {
				return
			}
			total++
			txt := strings.Join(cur, "\n")
			if !strings.Contains(txt, "github.com/influxdata/") {
				harnessOnly++
				fmt.Fprintf(os.Stderr, "race report with harness frames only:\n%s\n", txt)
			}
			if strings.Contains(txt, "meta.(*Client).Authenticate") || strings.Contains(txt, "meta.(*Client).updateAuthCache") || strings.Contains(txt, "httpd.authenticate") {
				inAuth++
				if first == "" {
					first = txt
				}
			}
			cur = nil
		}
		for sc.Scan() {
			l := sc.Text()
			if strings.HasPrefix(l, "WARNING: DATA RACE") {
				flush()
			}
			if strings.HasPrefix(l, "==================") {
				continue
			}
			cur = append(cur, l)
		}
		flush()
		fh.Close()
	}
	r.Count("race_reports_total", int64(total))
	r.Count("race_reports_in_authentication_path", int64(inAuth))
	r.Count("race_reports_in_harness_only", int64(harnessOnly))
	if inAuth > 0 {
		if len(first) > 3000 {
			first = first[:3000]
		}
		r.Violation("C16/data-race-in-authentication-path", "race-detector", fmt.Sprintf("the race detector reported %d data races with frames in Client.Authenticate / updateAuthCache / httpd.authenticate", inAuth), map[string]interface{}{"first_report": first})
	}
}
