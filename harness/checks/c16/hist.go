package main

import (
	"fmt"
	"math/rand"
	"path/filepath"
	"runtime"
	"sync"
	"sync/atomic"
	"time"

	"github.com/influxdata/influxdb/coordinator"
	"github.com/influxdata/influxdb/query"
	"github.com/influxdata/influxql"

	"verifharness/internal/ev"
)

// hstep is one step of a history as it was executed (kept for the witness).
type hstep struct {
	Op     string `json:"op"`
	Node   int    `json:"node"`
	User   string `json:"user,omitempty"`
	Arg    string `json:"arg,omitempty"`
	Result string `json:"result,omitempty"`
}

// hcluster is one worker's private cluster: nobody else changes its metadata.
type hcluster struct {
	cl *cluster
	fr [2]*front
}

const rootName, rootPw = "root", "root-pw"

func startHCluster(dir string) (*hcluster, error) {
	cl, err := startCluster(dir)
	if err != nil {
		return nil, err
	}
	if _, err := cl.c[0].CreateUser(rootName, rootPw, true); err != nil {
		cl.close()
		return nil, fmt.Errorf("create root: %v", err)
	}
	hc := &hcluster{cl: cl}
	for i := range hc.fr {
		hc.fr[i] = newFront(cl.c[i], sharedSecret)
	}
	return hc, nil
}

func (hc *hcluster) close() {
	for _, f := range hc.fr {
		f.close()
	}
	hc.cl.close()
}

// hrun is one history in progress: the real cluster, the harness's model of
// the users and every password a name ever had.
type hrun struct {
	caseID string
	hc     *hcluster
	m      *model
	old    map[string][]string // former passwords per user name (all incarnations)
	change map[string]string   // last kind of credential change per name
	last   int                 // node that issued the last metadata change
	pwSeq  int
	steps  []hstep
	failed bool // harness-side problem: stop the history (inconclusive)
	kinds  map[string]bool
}

func newHRun(caseID string, hc *hcluster) *hrun {
	h := &hrun{caseID: caseID, hc: hc, m: &model{users: map[string]*muser{}}, old: map[string][]string{}, change: map[string]string{}, kinds: map[string]bool{}}
	root := &muser{Name: rootName, Pw: rootPw, Admin: true}
	h.m.users[rootName] = root
	// a fresh start: drop whatever an earlier history left behind (the last
	// change of the previous history may have been issued through node 1)
	if !hc.cl.sync(1, 0) {
		h.fail("node 0 did not catch up before the history")
		return h
	}
	for _, ui := range hc.cl.c[0].Users() {
		if ui.Name != rootName {
			if err := hc.cl.c[0].DropUser(ui.Name); err != nil {
				h.fail("cleanup DropUser: %v", err)
			}
		}
	}
	if u, _ := hc.cl.c[0].User(rootName); u == nil {
		h.fail("root user missing")
	}
	hc.cl.c[0].SetAdminPrivilege(rootName, true)
	return h
}

func (h *hrun) fail(format string, a ...interface{}) {
	if !h.failed {
		r.Inconclusive(fmt.Sprintf("%s: %s", h.caseID, fmt.Sprintf(format, a...)))
	}
	h.failed = true
}

func (h *hrun) step(s hstep) { h.steps = append(h.steps, s) }

func (h *hrun) newPw(name string) string {
	h.pwSeq++
	return fmt.Sprintf("%s-%s-pw%d", name, ev.Hash(h.caseID)[:6], h.pwSeq)
}

// reach makes sure every earlier change has reached node (its client has
// seen the index of the node that issued the last change).
func (h *hrun) reach(node int) bool {
	if h.failed {
		return false
	}
	if !h.hc.cl.sync(h.last, node) {
		h.fail("node %d did not catch up with node %d", node, h.last)
		return false
	}
	return true
}

// ---- metadata changes (applied to the real store through node's client and to the model)

func (h *hrun) create(node int, name string, admin bool) {
	if h.failed || !h.reach(node) {
		return
	}
	pw := h.newPw(name)
	r.Count("password_verifications_bcrypt_estimate", 1)
	if _, err := h.hc.cl.c[node].CreateUser(name, pw, admin); err != nil {
		h.fail("CreateUser(%s): %v", name, err)
		return
	}
	h.m.users[name] = &muser{Name: name, Pw: pw, Admin: admin, Grants: map[string]influxql.Privilege{}, GrantS: map[string]string{}}
	if len(h.old[name]) > 0 {
		h.change[name] = "drop-and-re-create"
	}
	h.last = node
	h.kinds["create"] = true
	h.step(hstep{Op: "create-user", Node: node, User: name, Arg: fmt.Sprintf("password=%s admin=%v", pw, admin)})
}

func (h *hrun) drop(node int, name string) {
	if h.failed || !h.reach(node) {
		return
	}
	if err := h.hc.cl.c[node].DropUser(name); err != nil {
		h.fail("DropUser(%s): %v", name, err)
		return
	}
	if u := h.m.users[name]; u != nil {
		h.old[name] = append(h.old[name], u.Pw)
	}
	delete(h.m.users, name)
	h.last = node
	h.kinds["drop"] = true
	h.step(hstep{Op: "drop-user", Node: node, User: name})
}

func (h *hrun) setPw(node int, name string) {
	if h.failed || !h.reach(node) {
		return
	}
	u := h.m.users[name]
	pw := h.newPw(name)
	r.Count("password_verifications_bcrypt_estimate", 1)
	if err := h.hc.cl.c[node].UpdateUser(name, pw); err != nil {
		h.fail("UpdateUser(%s): %v", name, err)
		return
	}
	h.old[name] = append(h.old[name], u.Pw)
	u.Pw = pw
	h.change[name] = "set-password"
	h.last = node
	h.kinds["set-password"] = true
	h.step(hstep{Op: "set-password", Node: node, User: name, Arg: pw})
}

func (h *hrun) grant(node int, name, db string, p influxql.Privilege) {
	if h.failed || !h.reach(node) {
		return
	}
	if err := h.hc.cl.c[node].SetPrivilege(name, db, p); err != nil {
		h.fail("SetPrivilege(%s,%s): %v", name, db, err)
		return
	}
	u := h.m.users[name]
	if p == influxql.NoPrivileges {
		delete(u.Grants, db)
		delete(u.GrantS, db)
	} else {
		u.setGrant(db, p)
	}
	h.last = node
	h.kinds["grant:"+p.String()] = true
	h.step(hstep{Op: "set-privilege", Node: node, User: name, Arg: p.String() + " on " + db})
}

// adminStmt runs one administrator statement through the real
// coordinator.StatementExecutor attached to node's meta client.
func (h *hrun) adminStmt(node int, text string) error {
	q, err := influxql.ParseQuery(text)
	if err != nil {
		return err
	}
	ex := query.NewExecutor()
	ex.StatementExecutor = &coordinator.StatementExecutor{MetaClient: h.hc.cl.c[node]}
	defer ex.Close()
	for res := range ex.ExecuteQuery(q, query.ExecutionOptions{}, make(chan struct{})) {
		if res.Err != nil {
			return res.Err
		}
	}
	return nil
}

// revoke executes REVOKE <p> ON <db> FROM <name>: it can only take rights away.
func (h *hrun) revoke(node int, name, db string, p influxql.Privilege) {
	if h.failed || !h.reach(node) || p == influxql.NoPrivileges {
		return
	}
	if err := h.adminStmt(node, fmt.Sprintf("REVOKE %s ON %s FROM %s", p.String(), db, name)); err != nil {
		h.fail("REVOKE %s ON %s FROM %s: %v", p, db, name, err)
		return
	}
	u := h.m.users[name]
	left := u.Grants[db] &^ p
	if left == influxql.NoPrivileges {
		delete(u.Grants, db)
		delete(u.GrantS, db)
	} else {
		u.setGrant(db, left)
	}
	h.last = node
	h.kinds["revoke:"+p.String()] = true
	r.Count("revoke_statements_executed", 1)
	h.step(hstep{Op: "REVOKE", Node: node, User: name, Arg: p.String() + " on " + db})
	// what the user may do on that database now, asked through the same node
	h.query(node, h.basic(name), "SELECT * FROM cpu", db)
	h.write(node, h.basic(name), db)
}

func (h *hrun) setAdmin(node int, name string, admin bool) {
	if h.failed || !h.reach(node) {
		return
	}
	if err := h.hc.cl.c[node].SetAdminPrivilege(name, admin); err != nil {
		h.fail("SetAdminPrivilege(%s): %v", name, err)
		return
	}
	h.m.users[name].Admin = admin
	h.last = node
	h.kinds[fmt.Sprintf("admin:%v", admin)] = true
	h.step(hstep{Op: "set-admin", Node: node, User: name, Arg: fmt.Sprint(admin)})
}

// ---- probes (judged)

// auth calls Client.Authenticate on node after every earlier change has
// reached it. Success requires an existing user and its CURRENT password.
func (h *hrun) auth(node int, name, pw string) (ok bool) {
	if h.failed || !h.reach(node) {
		return false
	}
	r.Eval(1)
	r.Count("authenticate_calls_judged", 1)
	_, err := h.hc.cl.c[node].Authenticate(name, pw)
	ok = err == nil
	res := "rejected"
	if ok {
		res = "accepted"
	}
	h.step(hstep{Op: "authenticate", Node: node, User: name, Arg: pw, Result: res})
	u := h.m.users[name]
	switch {
	case ok && u == nil:
		r.Violation("C16/dropped-user-authenticated", h.caseID, fmt.Sprintf("Authenticate(%q, %q) on node %d succeeded after DropUser had reached the node", name, pw, node), h.witness())
	case ok && pw != u.Pw:
		sig := "C16/old-password-accepted/after-" + h.change[name]
		if !contains(h.old[name], pw) {
			sig = "C16/never-set-password-accepted"
		}
		r.Violation(sig, h.caseID, fmt.Sprintf("Authenticate(%q, %q) on node %d succeeded although the change to password %q (%s) had reached the node", name, pw, node, u.Pw, h.change[name]), h.witness())
	case !ok && u != nil && pw == u.Pw:
		r.Count("authenticate_current_password_rejected", 1)
	case ok:
		r.Count("authenticate_current_password_accepted", 1)
		r.Nontrivial("hist|auth-current|" + h.change[name] + fmt.Sprint(node != h.last))
	default:
		r.Count("authenticate_stale_or_unknown_rejected", 1)
		r.Nontrivial("hist|auth-stale-rejected|" + h.change[name] + "|dropped=" + fmt.Sprint(u == nil) + "|other-node=" + fmt.Sprint(node != h.last))
	}
	return ok
}

func contains(a []string, s string) bool {
	for _, x := range a {
		if x == s {
			return true
		}
	}
	return false
}

func (h *hrun) witness() map[string]interface{} {
	return map[string]interface{}{"history": h.steps, "model": h.m.users}
}

// request sends one HTTP request through node's handler and judges it with
// the general oracle against the model as it stands.
func (h *hrun) request(node int, spec reqSpec, sh *shape) bool {
	if h.failed || !h.reach(node) {
		return false
	}
	f := h.hc.fr[node]
	r.Eval(1)
	r.Count("requests_served", 1)
	r.Count("history_requests_judged", 1)
	o := f.serve(spec.build())
	what := spec.Q
	if spec.Endpoint != "query" {
		what = spec.Endpoint + " to " + spec.DB
	}
	h.step(hstep{Op: "http " + credLabels(spec.Creds), Node: node, User: userOf(spec), Arg: what, Result: fmt.Sprintf("status %d, %d executed", o.Status, len(o.Execs)+len(o.Writes))})
	return judge(h.caseID, spec, sh, o, h.m, f, "/after-change", h.steps)
}

func userOf(s reqSpec) string {
	if len(s.Creds) > 0 {
		return s.Creds[0].User
	}
	return ""
}

func mustShape(q, db string) *shape {
	parsed, err := influxql.ParseQuery(q)
	if err != nil {
		broken("history statement %q does not parse: %v", q, err)
	}
	sh := &shape{ID: -1, Q: q, DB: db, query: parsed}
	for _, st := range parsed.Statements {
		ns, err := needsOf(st, db)
		if err != nil {
			broken("%v", err)
		}
		sh.stmts, sh.Types, sh.needs, sh.hand = append(sh.stmts, st), append(sh.Types, typeName(st)), append(sh.needs, ns), append(sh.hand, nil)
	}
	return sh
}

func (h *hrun) query(node int, c cred, q, db string) bool {
	return h.request(node, reqSpec{Endpoint: "query", Method: "POST", Q: q, DB: db, Creds: []cred{c}}, mustShape(q, db))
}

func (h *hrun) write(node int, c cred, db string) bool {
	return h.request(node, reqSpec{Endpoint: "write", Method: "POST", DB: db, Creds: []cred{c}}, nil)
}

func (h *hrun) basic(name string) cred {
	if u := h.m.users[name]; u != nil {
		return cred{Kind: "basic", User: name, Pass: u.Pw}
	}
	return cred{Kind: "basic", User: name, Pass: "x", Why: "unknown-user"}
}

func (h *hrun) finish(key string) {
	if h.failed {
		return
	}
	var ks []string
	for k := range h.kinds {
		ks = append(ks, k)
	}
	r.Count("histories_completed", 1)
	r.Count("history_steps", int64(len(h.steps)))
	if r.WantSample() {
		r.Sample(map[string]interface{}{"case": h.caseID, "history": h.steps})
	}
	_ = key
}

// ------------------------------------------------------------ scripted histories

var scriptNames = []string{"set-password", "drop-recreate", "revoke-read", "downgrade-write", "unset-admin", "drop-bearer", "drop-cached-request", "no-admin-left"}

// scripted runs canonical scenario k with the change issued on node x and
// probed on node y.
func scripted(h *hrun, k, x, y int) {
	u := "hs"
	switch scriptNames[k] {
	case "set-password":
		h.create(x, u, false)
		pw1 := h.m.users[u].Pw
		h.auth(y, u, pw1) // populates y's cache
		h.setPw(x, u)
		h.auth(y, u, pw1) // must fail
		h.auth(y, u, h.m.users[u].Pw)
		h.auth(y, u, pw1) // must still fail with the new password cached
		h.query(y, cred{Kind: "basic", User: u, Pass: pw1, Why: "old-password"}, "SHOW DATABASES", "")
	case "drop-recreate":
		h.create(x, u, false)
		pw1 := h.m.users[u].Pw
		h.auth(y, u, pw1)
		h.drop(x, u)
		h.auth(y, u, pw1) // user is gone
		h.create(x, u, false)
		h.auth(y, u, pw1) // re-created with another password
		h.query(y, cred{Kind: "token", User: u, Pass: pw1, Why: "old-password"}, "SHOW DATABASES", "")
		h.auth(y, u, h.m.users[u].Pw)
		h.auth(y, u, pw1)
	case "revoke-read":
		h.create(x, u, false)
		h.grant(x, u, "db0", influxql.ReadPrivilege)
		h.query(y, h.basic(u), "SELECT v FROM cpu", "db0") // runs, caches
		h.grant(x, u, "db0", influxql.NoPrivileges)
		h.query(y, h.basic(u), "SELECT v FROM cpu", "db0") // must not run
		h.query(y, cred{Kind: "bearer", User: u, JWT: "valid"}, "SELECT v FROM db0.autogen.cpu", "")
	case "downgrade-write":
		h.create(x, u, false)
		h.grant(x, u, "db1", influxql.AllPrivileges)
		h.write(y, h.basic(u), "db1")
		h.query(y, h.basic(u), "DROP SERIES FROM cpu", "db1")
		h.grant(x, u, "db1", influxql.ReadPrivilege)
		h.write(y, h.basic(u), "db1") // must not run
		h.query(y, h.basic(u), "DROP SERIES FROM cpu", "db1")
		h.query(y, h.basic(u), "SELECT v FROM cpu", "db1") // still allowed
	case "unset-admin":
		h.create(x, u, true)
		h.query(y, h.basic(u), "CREATE DATABASE x1", "")
		h.setAdmin(x, u, false)
		h.query(y, h.basic(u), "CREATE DATABASE x1", "")
		h.query(y, h.basic(u), "SHOW USERS; SHOW DATABASES", "")
		h.write(y, h.basic(u), "db0")
	case "drop-bearer":
		h.create(x, u, true)
		h.query(y, cred{Kind: "bearer", User: u, JWT: "valid"}, "SHOW USERS", "")
		h.drop(x, u)
		h.query(y, cred{Kind: "bearer", User: u, JWT: "valid"}, "SHOW USERS", "")
		h.write(y, cred{Kind: "bearer", User: u, JWT: "valid"}, "db0")
	case "drop-cached-request":
		h.create(x, u, true)
		c := h.basic(u)
		h.query(y, c, "SHOW USERS", "")
		h.write(y, c, "db0")
		h.drop(x, u)
		c.Why = "dropped-user"
		h.query(y, c, "SHOW USERS", "")
		h.write(y, c, "db0")
	case "no-admin-left":
		// users exist but none is an administrator: the handler no longer
		// authenticates at all; nothing may run, with or without credentials
		h.create(x, u, false)
		h.grant(x, u, "db0", influxql.AllPrivileges)
		h.query(y, h.basic(u), "SELECT v FROM cpu", "db0")
		h.setAdmin(x, rootName, false)
		h.query(y, h.basic(u), "SELECT v FROM cpu", "db0")
		h.write(y, h.basic(u), "db0")
		h.request(y, reqSpec{Endpoint: "query", Method: "POST", Q: "CREATE USER eve WITH PASSWORD 'evepw' WITH ALL PRIVILEGES"}, mustShape("CREATE USER eve WITH PASSWORD 'evepw' WITH ALL PRIVILEGES", ""))
		h.request(y, reqSpec{Endpoint: "query", Method: "POST", Q: "SELECT v FROM cpu", DB: "db0"}, mustShape("SELECT v FROM cpu", "db0"))
		h.request(y, reqSpec{Endpoint: "write", Method: "POST", DB: "db0"}, nil)
		h.query(y, cred{Kind: "basic", User: rootName, Pass: rootPw}, "DROP DATABASE db0", "")
		h.setAdmin(x, rootName, true)
		h.query(y, cred{Kind: "basic", User: rootName, Pass: rootPw}, "SHOW USERS", "")
	}
	h.finish("")
}

// ------------------------------------------------------------ random histories

var histStatements = []struct{ q, db string }{
	{"SELECT v FROM cpu", "db0"}, {"SELECT v FROM db1.autogen.cpu", "db0"}, {"SELECT v INTO db1.autogen.out FROM db0.autogen.cpu", ""},
	{"DROP SERIES FROM cpu", "db1"}, {"DELETE FROM cpu WHERE time < 10", "db0"}, {"CREATE DATABASE hx", ""}, {"SHOW USERS", ""},
	{"SHOW DATABASES", ""}, {"SHOW MEASUREMENTS ON db1", ""}, {"SELECT v FROM cpu; DROP SERIES FROM cpu", "db0"},
	{"GRANT ALL PRIVILEGES TO ha", ""}, {"DROP RETENTION POLICY rp1 ON db0", ""}, {"SET PASSWORD FOR root = 'owned'", ""},
}

func randomHistory(h *hrun, seed int64) {
	g := rand.New(rand.NewSource(seed))
	names := []string{"ha", "hb"}
	n := 9 + g.Intn(6)
	privs := []influxql.Privilege{influxql.NoPrivileges, influxql.ReadPrivilege, influxql.WritePrivilege, influxql.AllPrivileges}
	for i := 0; i < n && !h.failed; i++ {
		name := names[g.Intn(len(names))]
		x, y := g.Intn(2), g.Intn(2)
		u := h.m.users[name]
		pickOld := func() (string, bool) {
			o := h.old[name]
			if len(o) == 0 {
				return "", false
			}
			// prefer the most recent former password
			if g.Intn(3) > 0 {
				return o[len(o)-1], true
			}
			return o[g.Intn(len(o))], true
		}
		st := histStatements[g.Intn(len(histStatements))]
		carrier := passwordCarriers[g.Intn(len(passwordCarriers))]
		if u == nil {
			switch k := g.Intn(10); {
			case k < 6:
				h.create(x, name, g.Intn(4) == 0)
			case k < 8:
				if pw, ok := pickOld(); ok {
					h.auth(y, name, pw)
				} else {
					h.auth(y, name, "never-existed")
				}
			case k < 9:
				pw, _ := pickOld()
				h.query(y, cred{Kind: carrier, User: name, Pass: pw + "", Why: "dropped-user"}, st.q, st.db)
			default:
				h.query(y, cred{Kind: "bearer", User: name, JWT: "valid"}, st.q, st.db)
			}
			continue
		}
		switch k := g.Intn(100); {
		case k < 20:
			r.Count("password_verifications_bcrypt_estimate", 1)
			h.auth(y, name, u.Pw)
		case k < 36:
			if pw, ok := pickOld(); ok {
				r.Count("password_verifications_bcrypt_estimate", 1)
				h.auth(y, name, pw)
			} else {
				h.setPw(x, name)
			}
		case k < 50:
			h.setPw(x, name)
		case k < 62:
			if g.Intn(2) == 0 {
				h.revoke(x, name, dbNames[g.Intn(2)], privs[1+g.Intn(3)])
			} else {
				h.grant(x, name, dbNames[g.Intn(2)], privs[g.Intn(len(privs))])
			}
		case k < 68:
			h.setAdmin(x, name, !u.Admin)
		case k < 76:
			h.drop(x, name)
		case k < 86:
			h.query(y, cred{Kind: carrier, User: name, Pass: u.Pw}, st.q, st.db)
		case k < 91:
			if pw, ok := pickOld(); ok {
				r.Count("password_verifications_bcrypt_estimate", 1)
				h.query(y, cred{Kind: carrier, User: name, Pass: pw, Why: "old-password"}, st.q, st.db)
			} else {
				h.query(y, cred{Kind: carrier, User: name, Pass: u.Pw}, st.q, st.db)
			}
		case k < 96:
			h.write(y, cred{Kind: carrier, User: name, Pass: u.Pw}, dbNames[g.Intn(2)])
		default:
			h.query(y, cred{Kind: "bearer", User: name, JWT: "valid"}, st.q, st.db)
		}
	}
	// closing probes: every former password of every name on both nodes' view
	for _, name := range names {
		if o := h.old[name]; len(o) > 0 {
			r.Count("password_verifications_bcrypt_estimate", 1)
			h.auth(g.Intn(2), name, o[len(o)-1])
		}
	}
	h.finish("")
}

// ------------------------------------------------------------ concurrent variant

type authObs struct {
	StartedAfterChange bool `json:"invoked_after_change_reached_node"`
	Accepted           bool `json:"accepted"`
	ReturnedAfter      bool `json:"returned_after_change_reached_node"`
}

// concurrent: authentications with the old password are in flight on node y
// while node x changes the password. One that was INVOKED after the change
// had reached y must fail; one invoked before may go either way; and when
// everything is quiescent the old password must be dead (in particular it
// must not have been re-inserted into y's credential cache by an
// authentication that straddled the change).
func concurrent(h *hrun, seed int64) {
	g := rand.New(rand.NewSource(seed))
	x, y := g.Intn(2), g.Intn(2)
	u := "hc"
	h.create(x, u, false)
	if h.failed || !h.reach(y) {
		return
	}
	c := h.hc.cl
	pw1 := h.m.users[u].Pw
	pw2 := h.newPw(u)
	var changed int32
	var wg sync.WaitGroup
	done := make(chan struct{})
	var chErr error
	go func() {
		defer close(done)
		chErr = c.c[x].UpdateUser(u, pw2)
		if chErr == nil && x != y && !c.sync(x, y) {
			chErr = fmt.Errorf("node %d did not catch up", y)
		}
		atomic.StoreInt32(&changed, 1)
	}()
	r.Count("password_verifications_bcrypt_estimate", 1)
	nAuth := 6
	obs := make([]authObs, nAuth)
	// the authentications are started spread over roughly one password
	// verification time (workload shaping only; the verdict uses the
	// before/after flags, never the clock)
	gap := bcryptTime / time.Duration(nAuth-1)
	for i := 0; i < nAuth; i++ {
		wg.Add(1)
		go func(i int) {
			defer wg.Done()
			pre := atomic.LoadInt32(&changed) == 1
			_, err := c.c[y].Authenticate(u, pw1)
			obs[i] = authObs{StartedAfterChange: pre, Accepted: err == nil, ReturnedAfter: atomic.LoadInt32(&changed) == 1}
		}(i)
		r.Count("password_verifications_bcrypt_estimate", 1)
		select {
		case <-done:
		case <-time.After(gap):
		}
	}
	wg.Wait()
	<-done
	if chErr != nil {
		h.fail("concurrent UpdateUser: %v", chErr)
		return
	}
	h.old[u] = append(h.old[u], pw1)
	h.m.users[u].Pw = pw2
	h.change[u] = "set-password"
	h.last = x
	h.step(hstep{Op: "set-password (concurrent with authentications)", Node: x, User: u, Arg: pw2})
	straddle, lateOK := false, false
	for _, o := range obs {
		res := "rejected"
		if o.Accepted {
			res = "accepted"
		}
		h.step(hstep{Op: "authenticate (in flight)", Node: y, User: u, Arg: pw1, Result: fmt.Sprintf("%s; invoked after change=%v, returned after change=%v", res, o.StartedAfterChange, o.ReturnedAfter)})
		if o.Accepted && !o.StartedAfterChange && o.ReturnedAfter {
			straddle = true
		}
		if o.Accepted && o.StartedAfterChange {
			lateOK = true
		}
	}
	r.Eval(1)
	r.Count("concurrent_histories", 1)
	if straddle {
		r.Count("authentications_straddling_a_password_change", 1)
	}
	// quiescent now
	_, err := c.c[y].Authenticate(u, pw1)
	finalOK := err == nil
	h.step(hstep{Op: "authenticate (quiescent)", Node: y, User: u, Arg: pw1, Result: fmt.Sprint("accepted=", finalOK)})
	if lateOK || finalOK {
		// the name was never authenticated before the change, so the only way
		// the old password can be alive in y's cache is an insertion by an
		// authentication that read the old hash: a straddling one
		r.Violation("C16/old-password-accepted/recached-by-authentication-straddling-the-change", h.caseID,
			fmt.Sprintf("node %d: Authenticate(%q, old password) invoked after UpdateUser had returned (and reached the node) succeeded (late in-flight=%v, quiescent=%v; straddling success observed=%v): an authentication that started before the change re-inserted the old password into the credential cache and the cache hit path does not compare the cached bcrypt hash with the current one", y, u, lateOK, finalOK, straddle), h.witness())
	} else {
		r.Count("old_password_dead_after_concurrent_change", 1)
		if straddle {
			r.Nontrivial(fmt.Sprintf("conc|straddle|x=%d|y=%d", x, y))
		}
	}
	// the new password works and the old one stays dead once it is cached
	h.auth(y, u, pw2)
	if !(lateOK || finalOK) {
		h.auth(y, u, pw1)
	}
	h.finish("")
}

// ------------------------------------------------------------ driver

func runHistories(root string) {
	if rc := r.ReplayCase(); rc != "" && isMatrixCase(rc) {
		return
	}
	type job struct {
		id   string
		kind int // 0 scripted, 1 random, 2 concurrent
		k    int
		x, y int
		seed int64
	}
	var jobs []job
	for k := range scriptNames {
		for x := 0; x < 2; x++ {
			for y := 0; y < 2; y++ {
				if !r.Thorough() && x != k%2 {
					continue // quick: same-node and cross-node once per scenario
				}
				jobs = append(jobs, job{id: fmt.Sprintf("script/%s/%d%d", scriptNames[k], x, y), kind: 0, k: k, x: x, y: y})
			}
		}
	}
	crng := r.Rand("concurrent")
	for i, n := 0, r.Pick(5, 50); i < n; i++ {
		jobs = append(jobs, job{id: fmt.Sprintf("conc/%d", i), kind: 2, seed: crng.Int63()})
	}
	hrng := r.Rand("histories")
	for i, n := 0, r.Pick(30, 300); i < n; i++ {
		jobs = append(jobs, job{id: fmt.Sprintf("hist/%d", i), kind: 1, seed: hrng.Int63()})
	}
	var todo []job
	for _, j := range jobs {
		if !r.Skip(j.id) {
			todo = append(todo, j)
		}
	}
	workers := runtime.NumCPU()
	if workers > len(todo) {
		workers = len(todo)
	}
	if workers < 1 {
		workers = 1
	}
	ch := make(chan job)
	var wg sync.WaitGroup
	var startErr atomic.Value
	for w := 0; w < workers; w++ {
		wg.Add(1)
		go func(w int) {
			defer wg.Done()
			gen := 0
			hc, err := startHCluster(filepath.Join(root, fmt.Sprintf("h%d_%d", w, gen)))
			if err != nil {
				startErr.Store(err.Error())
				return
			}
			defer func() { hc.close() }()
			for j := range ch {
				j := j
				r.Begin(j.id, j)
				cur := hc
				res, _ := ev.Watch(10*time.Minute, 5*time.Second, func() {
					h := newHRun(j.id, cur)
					switch j.kind {
					case 0:
						scripted(h, j.k, j.x, j.y)
					case 1:
						randomHistory(h, j.seed)
					case 2:
						concurrent(h, j.seed)
					}
				})
				if res != ev.Finished {
					// the history is still running on that cluster: leave it
					// alone and continue on a fresh one
					r.Inconclusive(fmt.Sprintf("%s did not finish within the watchdog (result %d); its cluster is abandoned", j.id, res))
					gen++
					nhc, err := startHCluster(filepath.Join(root, fmt.Sprintf("h%d_%d", w, gen)))
					if err != nil {
						startErr.Store(err.Error())
						return
					}
					hc = nhc
				}
			}
		}(w)
	}
	allDone := make(chan struct{})
	go func() { wg.Wait(); close(allDone) }()
feed:
	for _, j := range todo {
		select {
		case ch <- j:
		case <-allDone:
			break feed
		}
	}
	close(ch)
	<-allDone
	if e := startErr.Load(); e != nil {
		broken("cannot start a history cluster: %v", e)
	}
	r.Set("history_workers", workers)
}
