package main

import (
	"fmt"
	"math/rand"
	"os"
	"path/filepath"
	"runtime"
	"strings"
	"sync"
	"time"

	"github.com/influxdata/influxdb/coordinator"
	"github.com/influxdata/influxdb/services/meta"
	"github.com/influxdata/influxql"

	"verifharness/internal/ev"
)

var grantCodes = []struct {
	c string
	p influxql.Privilege
}{{"n", influxql.NoPrivileges}, {"r", influxql.ReadPrivilege}, {"w", influxql.WritePrivilege}, {"a", influxql.AllPrivileges}}

// matrixUsers is every combination of admin flag x grant on db0 x grant on db1.
func matrixUsers() []*muser {
	var out []*muser
	for _, adm := range []bool{false, true} {
		for _, g0 := range grantCodes {
			for _, g1 := range grantCodes {
				a := "n"
				if adm {
					a = "a"
				}
				u := &muser{Name: fmt.Sprintf("u%s_%s%s", a, g0.c, g1.c), Admin: adm}
				u.Pw = "pw-" + u.Name
				u.Grants, u.GrantS = map[string]influxql.Privilege{}, map[string]string{}
				if g0.p != influxql.NoPrivileges {
					u.setGrant("db0", g0.p)
				}
				if g1.p != influxql.NoPrivileges {
					u.setGrant("db1", g1.p)
				}
				out = append(out, u)
			}
		}
	}
	return out
}

func broken(format string, a ...interface{}) {
	msg := fmt.Sprintf(format, a...)
	fmt.Fprintln(os.Stderr, msg)
	fmt.Printf("BROKEN-CHECK C16: %s\n", msg)
	os.Exit(ev.ExitBroken)
}

func isMatrixCase(id string) bool {
	for _, p := range []string{"nousers/", "matrix/", "multi/", "write/", "badcred/", "wrongpw/", "unit/"} {
		if strings.HasPrefix(id, p) {
			return true
		}
	}
	return false
}

type mworker struct {
	node   int
	f, fns *front // with / without shared secret
}

func (w *mworker) front(noSecret bool) *front {
	if noSecret {
		return w.fns
	}
	return w.f
}

// send serves one request on the worker's front end and judges it.
func (w *mworker) send(caseID string, spec reqSpec, sh *shape, m *model) bool {
	f := w.front(spec.NoSecret)
	r.Eval(1)
	r.Count("requests_served", 1)
	o := f.serve(spec.build())
	ok := judge(caseID, spec, sh, o, m, f, "", nil)
	if sh != nil && r.WantSample() && len(o.Execs) > 0 && len(spec.Creds) > 0 && len(sh.stmts) > 1 {
		r.Sample(map[string]interface{}{"case": caseID, "request": spec, "outcome": o})
	}
	return ok
}

func runMatrix(root string, shapes []*shape) {
	if rc := r.ReplayCase(); rc != "" && !isMatrixCase(rc) {
		return
	}
	cl, err := startCluster(filepath.Join(root, "matrix"))
	if err != nil {
		broken("cannot start the meta service: %v", err)
	}
	defer cl.close()

	singles := allSingles()
	m := &model{users: map[string]*muser{}}
	tp := time.Now()
	phaseNoUsers(cl, m, shapes, singles)
	r.Set("no_users_phase_s", time.Since(tp).Seconds())
	if strings.HasPrefix(r.ReplayCase(), "nousers/") {
		return
	}

	// ---- create the user matrix through the client API
	users := matrixUsers()
	if n := len(cl.c[0].Users()); n != 0 {
		broken("meta store holds %d users before the matrix users are created", n)
	}
	// the first user must exist before the others are added concurrently so
	// that the store is never observed with only non-admin users by phase code
	par(len(users), func(i int) {
		u := users[i]
		if _, err := cl.c[0].CreateUser(u.Name, u.Pw, u.Admin); err != nil {
			broken("CreateUser(%s): %v", u.Name, err)
		}
		for db, p := range u.Grants {
			if err := cl.c[0].SetPrivilege(u.Name, db, p); err != nil {
				broken("SetPrivilege(%s,%s): %v", u.Name, db, err)
			}
		}
	})
	for _, u := range users {
		m.users[u.Name] = u
	}
	if !cl.sync(0, 1) {
		r.Inconclusive("second meta client did not catch up with the user matrix")
		return
	}
	// prime the credential caches of both nodes (one bcrypt per user and node)
	par(2*len(users), func(i int) {
		u := users[i/2]
		if _, err := cl.c[i%2].Authenticate(u.Name, u.Pw); err != nil {
			r.Count("authenticate_current_password_rejected", 1)
		}
		r.Count("password_verifications_bcrypt_estimate", 1)
	})

	// allowed[userIdx] = single shapes the model allows the user to run
	allowed := make([][]*shape, len(users))
	for ui, u := range users {
		for _, sh := range shapes {
			if len(u.missing(sh.needs[0])) == 0 {
				allowed[ui] = append(allowed[ui], sh)
			}
		}
	}

	nw := runtime.NumCPU()
	if r.ReplayCase() != "" {
		nw = 1
	}
	jobs := make(chan func(w *mworker), 256)
	var wg sync.WaitGroup
	for i := 0; i < nw; i++ {
		wg.Add(1)
		go func(i int) {
			defer wg.Done()
			w := &mworker{node: i % 2}
			w.f, w.fns = newFront(cl.c[w.node], sharedSecret), newFront(cl.c[w.node], "")
			defer w.f.close()
			defer w.fns.close()
			for j := range jobs {
				j(w)
			}
		}(i)
	}

	carriersPerCell := r.Pick(2, 4)

	// ---- every single statement shape x every user x carriers
	for _, sh := range shapes {
		sh := sh
		caseID := fmt.Sprintf("matrix/%d", sh.ID)
		if r.Skip(caseID) {
			continue
		}
		jobs <- func(w *mworker) {
			r.Begin(caseID, sh)
			for ui, u := range users {
				for k := 0; k < carriersPerCell; k++ {
					kind := allCarriers[(sh.ID+ui+k)%len(allCarriers)]
					c := cred{Kind: kind, User: u.Name, Pass: u.Pw}
					if kind == "bearer" {
						c.Pass, c.JWT = "", "valid"
					}
					method := "POST"
					if (sh.ID+ui+k)%3 == 0 {
						method = "GET"
					}
					spec := reqSpec{Endpoint: "query", Method: method, Q: sh.Q, DB: sh.DB, Creds: []cred{c}, FormBody: method == "POST" && (sh.ID+ui)%5 == 0}
					w.send(caseID, spec, sh, m)
				}
			}
		}
	}

	// ---- multi-statement requests: allowed and denied statements in every order
	nMulti := r.Pick(30, 300)
	mrng := r.Rand("multi")
	for ui := range users {
		for k := 0; k < nMulti; k++ {
			ui, u, k := ui, users[ui], k
			caseID := fmt.Sprintf("multi/%d/%d", ui, k)
			seed := mrng.Int63()
			if r.Skip(caseID) {
				continue
			}
			jobs <- func(w *mworker) {
				g := rand.New(rand.NewSource(seed))
				pi := g.Intn(len(dbParams))
				var al, de []single
				for si, s := range singles {
					if len(u.missing(shapes[si*len(dbParams)+pi].needs[0])) == 0 {
						al = append(al, s)
					} else {
						de = append(de, s)
					}
				}
				pickA := func() single { return al[g.Intn(len(al))] }
				var combos [][]single
				if len(de) > 0 {
					d := de[g.Intn(len(de))]
					combos = append(combos, []single{pickA(), d}, []single{d, pickA()}, []single{pickA(), pickA(), d})
				}
				combos = append(combos, []single{pickA(), pickA()})
				r.Begin(caseID, map[string]interface{}{"user": u, "seed": seed})
				for ci, parts := range combos {
					sh, err := mkShape(-1, parts, dbParams[pi])
					if err != nil {
						broken("%v", err)
					}
					kind := allCarriers[(ui+k+ci)%len(allCarriers)]
					c := cred{Kind: kind, User: u.Name, Pass: u.Pw}
					if kind == "bearer" {
						c.Pass, c.JWT = "", "valid"
					}
					w.send(caseID, reqSpec{Endpoint: "query", Method: "POST", Q: sh.Q, DB: sh.DB, Creds: []cred{c}}, sh, m)
					unitAuthorizeQuery(caseID, cl.c[w.node], u, sh)
				}
			}
		}
	}

	// ---- writes: every user x database x endpoint x carrier
	for ui := range users {
		ui, u := ui, users[ui]
		caseID := fmt.Sprintf("write/%d", ui)
		if r.Skip(caseID) {
			continue
		}
		jobs <- func(w *mworker) {
			r.Begin(caseID, u)
			for _, db := range []string{"db0", "db1", "nodb"} {
				for _, ep := range []string{"write", "write2", "promwrite"} {
					for _, kind := range allCarriers {
						c := cred{Kind: kind, User: u.Name, Pass: u.Pw}
						if kind == "bearer" {
							c.Pass, c.JWT = "", "valid"
						}
						w.send(caseID, reqSpec{Endpoint: ep, Method: "POST", DB: db, Creds: []cred{c}}, nil, m)
					}
				}
			}
		}
	}

	// ---- invalid credentials that cost no password hashing
	nBad := r.Pick(96, 960)
	brng := r.Rand("badcred")
	for i := 0; i < nBad; i++ {
		i := i
		ui := i % len(users)
		u := users[ui]
		seed := brng.Int63()
		caseID := fmt.Sprintf("badcred/%d", i)
		if r.Skip(caseID) {
			continue
		}
		jobs <- func(w *mworker) {
			g := rand.New(rand.NewSource(seed))
			sh := allowed[ui][g.Intn(len(allowed[ui]))]
			other := users[(ui+1+g.Intn(len(users)-1))%len(users)]
			ghost := "ghost"
			variants := [][]cred{
				nil,
				{{Kind: "basic", User: ghost, Pass: u.Pw, Why: "unknown-user"}},
				{{Kind: "params", User: ghost, Pass: u.Pw, Why: "unknown-user"}},
				{{Kind: "token", User: ghost, Pass: u.Pw, Why: "unknown-user"}},
				{{Kind: "params", User: u.Name, Pass: "", Why: "empty-password"}},
				{{Kind: "basic", User: "", Pass: u.Pw, Why: "empty-username"}},
				{{Kind: "token", User: "", Pass: u.Pw, Why: "empty-username"}},
				{{Kind: "bearer", User: u.Name, JWT: "expired"}},
				{{Kind: "bearer", User: u.Name, JWT: "noexp"}},
				{{Kind: "bearer", User: u.Name, JWT: "zeroexp"}},
				{{Kind: "bearer", User: u.Name, JWT: "strexp"}},
				{{Kind: "bearer", User: u.Name, JWT: "wrongsecret"}},
				{{Kind: "bearer", User: u.Name, JWT: "algnone"}},
				{{Kind: "bearer", User: u.Name, JWT: "nousername"}},
				{{Kind: "bearer", User: u.Name, JWT: "numusername"}},
				{{Kind: "bearer", User: ghost, JWT: "valid"}},
				// the query parameters win over the header: unknown user in the
				// parameters, a valid header for somebody else
				{{Kind: "params", User: ghost, Pass: "x", Why: "unknown-user"}, {Kind: "basic", User: u.Name, Pass: u.Pw}},
				{{Kind: "params", User: ghost, Pass: "x", Why: "unknown-user"}, {Kind: "bearer", User: u.Name, JWT: "valid"}},
				// two valid credentials for two users: whoever the handler
				// picks, the statement must be covered by THAT user's grants
				{{Kind: "params", User: other.Name, Pass: other.Pw}, {Kind: "basic", User: u.Name, Pass: u.Pw}},
				{{Kind: "params", User: other.Name, Pass: other.Pw}, {Kind: "bearer", User: u.Name, JWT: "valid"}},
			}
			r.Begin(caseID, map[string]interface{}{"user": u, "shape": sh})
			for vi, cs := range variants {
				w.send(caseID, reqSpec{Endpoint: "query", Method: "POST", Q: sh.Q, DB: sh.DB, Creds: cs}, sh, m)
				if vi%4 == i%4 {
					db := dbNames[g.Intn(2)]
					ep := []string{"write", "write2", "promwrite"}[g.Intn(3)]
					w.send(caseID, reqSpec{Endpoint: ep, Method: "POST", DB: db, Creds: cs}, nil, m)
				}
			}
			// bearer tokens on a handler without a shared secret: bearer
			// authentication is disabled, every token must be refused
			for _, k := range []string{"valid", "noexp", "algnone"} {
				cs := []cred{{Kind: "bearer", User: u.Name, JWT: k}}
				w.send(caseID, reqSpec{Endpoint: "query", Method: "POST", Q: sh.Q, DB: sh.DB, Creds: cs, NoSecret: true}, sh, m)
				w.send(caseID, reqSpec{Endpoint: "write", Method: "POST", DB: "db0", Creds: cs, NoSecret: true}, nil, m)
			}
			// password carriers work the same without a shared secret
			w.send(caseID, reqSpec{Endpoint: "query", Method: "POST", Q: sh.Q, DB: sh.DB, Creds: []cred{{Kind: "basic", User: u.Name, Pass: u.Pw}}, NoSecret: true}, sh, m)
		}
	}

	// ---- wrong passwords: one bcrypt verification each
	nWrong := r.Pick(24, 240)
	wrng := r.Rand("wrongpw")
	for i := 0; i < nWrong; i++ {
		i := i
		ui := i % len(users)
		u := users[ui]
		seed := wrng.Int63()
		caseID := fmt.Sprintf("wrongpw/%d", i)
		if r.Skip(caseID) {
			continue
		}
		jobs <- func(w *mworker) {
			g := rand.New(rand.NewSource(seed))
			sh := allowed[ui][g.Intn(len(allowed[ui]))]
			other := users[(ui+1+g.Intn(len(users)-1))%len(users)]
			pws := []string{other.Pw, u.Pw + "x", u.Pw[:len(u.Pw)-1], strings.ToUpper(u.Pw), "pw-"}
			pw := pws[(i/len(users))%len(pws)]
			kind := passwordCarriers[i%len(passwordCarriers)]
			cs := []cred{{Kind: kind, User: u.Name, Pass: pw, Why: "wrong-password"}}
			if i%7 == 3 {
				cs = []cred{{Kind: "basic", User: u.Name, Pass: "", Why: "empty-password"}}
			}
			r.Begin(caseID, map[string]interface{}{"user": u, "shape": sh, "credentials": cs})
			r.Count("password_verifications_bcrypt_estimate", 1)
			if i%4 == 0 {
				w.send(caseID, reqSpec{Endpoint: []string{"write", "write2", "promwrite"}[g.Intn(3)], Method: "POST", DB: dbNames[g.Intn(2)], Creds: cs}, nil, m)
			} else {
				w.send(caseID, reqSpec{Endpoint: "query", Method: "POST", Q: sh.Q, DB: sh.DB, Creds: cs}, sh, m)
			}
		}
	}

	// ---- the authorizers driven directly against the model
	for ui := range users {
		ui, u := ui, users[ui]
		caseID := fmt.Sprintf("unit/%d", ui)
		if r.Skip(caseID) {
			continue
		}
		jobs <- func(w *mworker) {
			r.Begin(caseID, u)
			c := cl.c[w.node]
			for _, sh := range shapes {
				unitAuthorizeQuery(caseID, c, u, sh)
			}
			unitAuthorizeDatabase(caseID, c, u)
		}
	}
	if !r.Skip("unit/nil-user") {
		jobs <- func(w *mworker) {
			qa := meta.NewQueryAuthorizer(cl.c[w.node])
			for _, sh := range shapes {
				r.Eval(1)
				if _, err := qa.AuthorizeQuery(nil, sh.query, sh.DB); err == nil {
					r.Violation("C16/AuthorizeQuery-accepts-nil-user", "unit/nil-user", fmt.Sprintf("users exist; AuthorizeQuery(nil user, %q, %q) returned no error", sh.Q, sh.DB), sh)
				}
			}
			wa := meta.NewWriteAuthorizer(cl.c[w.node])
			for _, db := range []string{"db0", "db1", "nodb", ""} {
				for _, name := range []string{"ghost", ""} {
					r.Eval(1)
					if err := wa.AuthorizeWrite(name, db); err == nil {
						r.Violation("C16/AuthorizeWrite-accepts-unknown-user", "unit/nil-user", fmt.Sprintf("AuthorizeWrite(%q, %q) returned no error for a user that does not exist", name, db), nil)
					}
				}
			}
		}
	}
	close(jobs)
	wg.Wait()
	r.Set("matrix_users", len(users))
	r.Set("single_statement_shapes", len(shapes))
}

// par runs fn(0..n-1) on NumCPU goroutines.
func par(n int, fn func(i int)) {
	ch := make(chan int)
	var wg sync.WaitGroup
	for w := 0; w < runtime.NumCPU(); w++ {
		wg.Add(1)
		go func() {
			defer wg.Done()
			for i := range ch {
				fn(i)
			}
		}()
	}
	for i := 0; i < n; i++ {
		ch <- i
	}
	close(ch)
	wg.Wait()
}

// unitAuthorizeQuery drives the real meta.QueryAuthorizer directly: whenever
// it lets a query pass, the model must grant every need of every statement.
func unitAuthorizeQuery(caseID string, c *meta.Client, u *muser, sh *shape) {
	ui, err := c.User(u.Name)
	if err != nil {
		return
	}
	r.Eval(1)
	r.Count("AuthorizeQuery_direct_calls", 1)
	_, aerr := meta.NewQueryAuthorizer(c).AuthorizeQuery(ui, sh.query, sh.DB)
	if aerr != nil {
		return
	}
	for i, ns := range sh.needs {
		if miss := u.missing(ns); len(miss) > 0 {
			sig := "C16/AuthorizeQuery-accepts-without-privilege/" + miss[0].kind()
			if i > 0 {
				sig += "/later-statement"
			}
			r.Violation(sig, caseID, fmt.Sprintf("AuthorizeQuery(%s admin=%v grants=%v, %q, db %q) returned no error although statement #%d needs %s", u.Name, u.Admin, u.GrantS, sh.Q, sh.DB, i, miss[0]), map[string]interface{}{"user": u, "shape": sh})
			return
		}
	}
}

func unitAuthorizeDatabase(caseID string, c *meta.Client, u *muser) {
	uiU, err := c.User(u.Name)
	if err != nil {
		return
	}
	ui := uiU.(*meta.UserInfo)
	qa := meta.NewQueryAuthorizer(c)
	wa := meta.NewWriteAuthorizer(c)
	for _, db := range []string{"db0", "db1", "nodb", ""} {
		for _, p := range []influxql.Privilege{influxql.ReadPrivilege, influxql.WritePrivilege, influxql.AllPrivileges} {
			n := need{Priv: p, PrivS: p.String(), DB: db}
			want := u.covers(n)
			if p == influxql.AllPrivileges && !u.Admin {
				want = u.Grants[db] == influxql.AllPrivileges
			}
			r.Eval(2)
			r.Count("AuthorizeDatabase_direct_calls", 2)
			if got := ui.AuthorizeDatabase(p, db); got && !want {
				r.Violation("C16/AuthorizeDatabase-accepts-without-privilege/"+n.kind(), caseID, fmt.Sprintf("UserInfo(%s admin=%v grants=%v).AuthorizeDatabase(%s, %q) = true", u.Name, u.Admin, u.GrantS, p, db), u)
			}
			if err := qa.AuthorizeDatabase(ui, p, db); err == nil && !want {
				r.Violation("C16/AuthorizeDatabase-accepts-without-privilege/"+n.kind(), caseID, fmt.Sprintf("QueryAuthorizer.AuthorizeDatabase(%s admin=%v grants=%v, %s, %q) returned no error", u.Name, u.Admin, u.GrantS, p, db), u)
			}
		}
		r.Eval(1)
		r.Count("AuthorizeWrite_direct_calls", 1)
		if err := wa.AuthorizeWrite(u.Name, db); err == nil && !u.covers(need{Priv: influxql.WritePrivilege, DB: db}) {
			r.Violation("C16/AuthorizeWrite-accepts-without-privilege", caseID, fmt.Sprintf("AuthorizeWrite(%s admin=%v grants=%v, %q) returned no error", u.Name, u.Admin, u.GrantS, db), u)
		}
	}
}

// phaseNoUsers: the store holds no user. Only the creation of the first
// administrator may run.
func phaseNoUsers(cl *cluster, m *model, shapes []*shape, singles []single) {
	w := &mworker{f: newFront(cl.c[0], sharedSecret), fns: newFront(cl.c[0], "")}
	defer w.f.close()
	defer w.fns.close()
	ghost := []cred{{Kind: "basic", User: "ghost", Pass: "x", Why: "unknown-user"}}
	// A multi-statement bootstrap request against the REAL
	// coordinator.StatementExecutor (only its MetaClient is needed by these
	// statements): what is left in the meta store afterwards shows which
	// statements really ran without credentials.
	if caseID := "nousers/real-executor"; !r.Skip(caseID) {
		q := `CREATE USER c16root WITH PASSWORD 'c16rootpw' WITH ALL PRIVILEGES; CREATE USER c16mallory WITH PASSWORD 'm' WITH ALL PRIVILEGES; CREATE DATABASE c16_planted`
		r.Begin(caseID, q)
		rf := newFront(cl.c[0], sharedSecret)
		rf.h.QueryExecutor.StatementExecutor = &coordinator.StatementExecutor{MetaClient: cl.c[0]}
		spec := reqSpec{Endpoint: "query", Method: "POST", Q: q}
		r.Eval(1)
		o := rf.serve(spec.build())
		rf.close()
		_, errM := cl.c[0].User("c16mallory")
		planted := cl.c[0].Database("c16_planted") != nil
		if errM == nil || planted {
			r.Violation("C16/no-users/statement-after-bootstrap-create-user-executed-without-credentials", caseID,
				fmt.Sprintf("no user existed; the unauthenticated request %q ran completely on the real statement executor: second administrator created=%v, database created=%v (both statements ran after the first administrator existed, without any credentials)", q, errM == nil, planted),
				map[string]interface{}{"request": spec, "status": o.Status, "users_afterwards": len(cl.c[0].Users()), "database_created": planted})
		} else {
			r.Count("real_executor_bootstrap_request_stopped_after_first_statement", 1)
		}
		for _, ui := range cl.c[0].Users() {
			cl.c[0].DropUser(ui.Name)
		}
		if planted {
			cl.c[0].DropDatabase("c16_planted")
		}
	}
	qa := meta.NewQueryAuthorizer(cl.c[0])
	for _, sh := range shapes {
		caseID := fmt.Sprintf("nousers/single/%d", sh.ID)
		if r.Skip(caseID) {
			continue
		}
		r.Begin(caseID, sh)
		w.send(caseID, reqSpec{Endpoint: "query", Method: "POST", Q: sh.Q, DB: sh.DB}, sh, m)
		switch sh.ID % 4 {
		case 0:
			w.send(caseID, reqSpec{Endpoint: "query", Method: "GET", Q: sh.Q, DB: sh.DB, Creds: ghost}, sh, m)
		case 1:
			w.send(caseID, reqSpec{Endpoint: "query", Method: "POST", Q: sh.Q, DB: sh.DB, Creds: []cred{{Kind: "bearer", User: "ghost", JWT: "valid"}}}, sh, m)
		case 2:
			w.send(caseID, reqSpec{Endpoint: "query", Method: "POST", Q: sh.Q, DB: sh.DB, NoSecret: true}, sh, m)
		}
		// the authorizer directly
		r.Eval(1)
		if _, err := qa.AuthorizeQuery(nil, sh.query, sh.DB); err == nil && !isBootstrap(sh.stmts[0]) {
			r.Violation("C16/no-users/AuthorizeQuery-accepts-non-bootstrap-statement", caseID, fmt.Sprintf("no user exists; AuthorizeQuery(nil, %q) returned no error", sh.Q), sh)
		}
	}
	// multi-statement requests around the bootstrap statement
	var boot, plainUser single
	for _, s := range singles {
		if s.T.Type == "CreateUserStatement" {
			if strings.Contains(s.Text, "ALL PRIVILEGES") {
				boot = s
			} else {
				plainUser = s
			}
		}
	}
	g := r.Rand("nousers")
	nm := r.Pick(16, len(singles))
	for k := 0; k < nm; k++ {
		x := singles[g.Intn(len(singles))]
		if r.Thorough() {
			x = singles[k]
		}
		p := dbParams[g.Intn(len(dbParams))]
		caseID := fmt.Sprintf("nousers/multi/%d", k)
		if r.Skip(caseID) {
			continue
		}
		r.Begin(caseID, x)
		for _, parts := range [][]single{{boot, x}, {x, boot}, {plainUser, boot}, {boot, boot}} {
			sh, err := mkShape(-1, parts, p)
			if err != nil {
				broken("%v", err)
			}
			w.send(caseID, reqSpec{Endpoint: "query", Method: "POST", Q: sh.Q, DB: sh.DB}, sh, m)
			r.Eval(1)
			if _, err := qa.AuthorizeQuery(nil, sh.query, sh.DB); err == nil {
				for i, st := range sh.stmts {
					if !(i == 0 && isBootstrap(st)) {
						sig := "C16/no-users/AuthorizeQuery-accepts-non-bootstrap-statement"
						if i > 0 && isBootstrap(sh.stmts[0]) {
							sig = "C16/no-users/statement-after-bootstrap-create-user-executed-without-credentials"
						}
						r.Violation(sig, caseID, fmt.Sprintf("no user exists; AuthorizeQuery(nil, %q) returned no error although statement #%d %q is not the creation of the first administrator", sh.Q, i, st.String()), sh)
						break
					}
				}
			}
		}
	}
	for _, db := range []string{"db0", "db1", "nodb"} {
		for _, ep := range []string{"write", "write2", "promwrite"} {
			caseID := fmt.Sprintf("nousers/write/%s/%s", db, ep)
			if r.Skip(caseID) {
				continue
			}
			r.Begin(caseID, nil)
			w.send(caseID, reqSpec{Endpoint: ep, Method: "POST", DB: db}, nil, m)
			w.send(caseID, reqSpec{Endpoint: ep, Method: "POST", DB: db, Creds: ghost}, nil, m)
		}
	}

}
