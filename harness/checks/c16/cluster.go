package main

import (
	"fmt"
	"io"
	"log"
	"net"
	"net/http"
	"net/http/httptest"
	"os"
	"path/filepath"
	"sync"
	"time"

	"github.com/influxdata/influxdb/models"
	"github.com/influxdata/influxdb/query"
	"github.com/influxdata/influxdb/services/httpd"
	"github.com/influxdata/influxdb/services/meta"
	"github.com/influxdata/influxdb/tcp"
	"github.com/influxdata/influxql"
)

// cluster is a REAL single-node meta service (raft + HTTP on loopback) with
// two REAL meta.Clients: two "nodes", each with its own credential cache and
// its own cached copy of the metadata.
type cluster struct {
	dir string
	svc *meta.Service
	ln  net.Listener
	c   [2]*meta.Client
}

const sharedSecret = "c16-shared-secret"

func startCluster(dir string) (*cluster, error) {
	cl := &cluster{dir: dir}
	cfg := meta.NewConfig()
	cfg.BindAddress = "127.0.0.1:0"
	cfg.HTTPBindAddress = "127.0.0.1:0"
	cfg.Dir = filepath.Join(dir, "meta")
	cfg.SingleServer = true
	cfg.LoggingEnabled = false
	cfg.RetentionAutoCreate = true
	if err := os.MkdirAll(cfg.Dir, 0o755); err != nil {
		return nil, err
	}
	ln, err := net.Listen("tcp", cfg.BindAddress)
	if err != nil {
		return nil, err
	}
	cl.ln = ln
	mux := tcp.NewMux()
	mux.Logger = log.New(io.Discard, "", 0)
	s := meta.NewService(cfg)
	s.RaftListener = mux.Listen(meta.MuxHeader)
	go mux.Serve(ln)
	if err := s.Open(); err != nil {
		return nil, fmt.Errorf("meta service open: %v", err)
	}
	cl.svc = s
	for i := 0; i < 2; i++ {
		ccfg := meta.NewConfig()
		ccfg.Dir = filepath.Join(dir, fmt.Sprintf("client%d", i+1))
		if err := os.MkdirAll(ccfg.Dir, 0o755); err != nil {
			return nil, err
		}
		c := meta.NewClient(ccfg)
		c.SetMetaServers([]string{s.HTTPAddr()})
		c.SetTCPAddr(fmt.Sprintf("n%d:8088", i+1))
		if err := c.Open(); err != nil {
			return nil, fmt.Errorf("meta client open: %v", err)
		}
		cl.c[i] = c
	}
	for _, db := range []string{"db0", "db1"} {
		if _, err := cl.c[0].CreateDatabase(db); err != nil {
			return nil, fmt.Errorf("create database: %v", err)
		}
	}
	if !cl.sync(0, 1) {
		return nil, fmt.Errorf("second client did not catch up")
	}
	return cl, nil
}

func (cl *cluster) close() {
	for i := range cl.c {
		if cl.c[i] != nil {
			cl.c[i].Close()
		}
	}
	if cl.svc != nil {
		cl.svc.Close()
	}
	if cl.ln != nil {
		cl.ln.Close()
	}
}

// sync waits (watchdog, never a verdict) until client dst has seen at least
// the metadata index client src has: "the change has reached that node".
func (cl *cluster) sync(src, dst int) bool {
	if src == dst {
		return true
	}
	want := cl.c[src].Data().Index
	deadline := time.NewTimer(60 * time.Second)
	defer deadline.Stop()
	for {
		ch := cl.c[dst].WaitForDataChanged()
		if cl.c[dst].Data().Index >= want {
			return true
		}
		select {
		case <-ch:
		case <-deadline.C:
			return false
		}
	}
}

// ---------------------------------------------------------------- front end

// execRec is one statement that reached the StatementExecutor.
type execRec struct {
	Stmt    string `json:"statement"`
	User    string `json:"user"`
	HasUser bool   `json:"has_user"`
	DB      string `json:"db_param"`
	typ     string
}

// writeRec is one batch that reached the PointsWriter.
type writeRec struct {
	DB      string `json:"database"`
	User    string `json:"user"`
	HasUser bool   `json:"has_user"`
	Points  int    `json:"points"`
}

const probeDB = "\x00c16-probe"

// front is a REAL httpd.Handler (authentication enabled) wired to a real
// meta.Client, the real meta.QueryAuthorizer / meta.WriteAuthorizer (behind a
// pass-through wrapper that only observes), a real query.Executor, and
// RECORDING doubles for the StatementExecutor and the PointsWriter. One
// request at a time per front.
type front struct {
	h      *httpd.Handler
	c      *meta.Client
	secret string

	mu        sync.Mutex
	execs     []execRec
	writes    []writeRec
	probeUser meta.User
	probed    bool
	authzOK   int
	authzDeny int
}

func newFront(c *meta.Client, secret string) *front {
	cfg := httpd.NewConfig()
	cfg.AuthEnabled = true
	cfg.LogEnabled = false
	cfg.SharedSecret = secret
	f := &front{c: c, secret: secret}
	h := httpd.NewHandler(cfg)
	h.MetaClient = c
	h.QueryAuthorizer = &observingAuthorizer{inner: meta.NewQueryAuthorizer(c), f: f}
	h.WriteAuthorizer = meta.NewWriteAuthorizer(c)
	h.QueryExecutor = query.NewExecutor()
	h.QueryExecutor.StatementExecutor = &recordingExecutor{f: f}
	h.PointsWriter = &recordingWriter{f: f}
	h.Version = "0.0.0"
	h.BuildType = "verif"
	h.CLFLogger = log.New(io.Discard, "", 0)
	f.h = h
	return f
}

func (f *front) close() { f.h.QueryExecutor.Close() }

// observingAuthorizer delegates every decision to the real
// meta.QueryAuthorizer; it only notes which user the handler bound to the
// request (the recording executor asks through the CoarseAuthorizer the
// handler put into the execution options).
type observingAuthorizer struct {
	inner *meta.QueryAuthorizer
	f     *front
}

func (a *observingAuthorizer) AuthorizeQuery(u meta.User, q *influxql.Query, database string) (query.FineAuthorizer, error) {
	fa, err := a.inner.AuthorizeQuery(u, q, database)
	a.f.mu.Lock()
	if err == nil {
		a.f.authzOK++
	} else {
		a.f.authzDeny++
	}
	a.f.mu.Unlock()
	return fa, err
}

func (a *observingAuthorizer) AuthorizeDatabase(u meta.User, p influxql.Privilege, database string) error {
	if database == probeDB {
		a.f.mu.Lock()
		a.f.probeUser, a.f.probed = u, true
		a.f.mu.Unlock()
		return nil
	}
	return a.inner.AuthorizeDatabase(u, p, database)
}

type recordingExecutor struct{ f *front }

func (e *recordingExecutor) ExecuteStatement(ctx *query.ExecutionContext, stmt influxql.Statement) error {
	f := e.f
	f.mu.Lock()
	f.probeUser, f.probed = nil, false
	f.mu.Unlock()
	if ctx.CoarseAuthorizer != nil {
		ctx.CoarseAuthorizer.AuthorizeDatabase(influxql.NoPrivileges, probeDB)
	}
	f.mu.Lock()
	rec := execRec{Stmt: stmt.String(), DB: ctx.Database, typ: fmt.Sprintf("%T", stmt)}
	if f.probed && !isNilUser(f.probeUser) {
		rec.User, rec.HasUser = f.probeUser.ID(), true
	}
	f.execs = append(f.execs, rec)
	f.mu.Unlock()
	return ctx.Send(&query.Result{})
}

func isNilUser(u meta.User) bool {
	if u == nil {
		return true
	}
	if ui, ok := u.(*meta.UserInfo); ok && ui == nil {
		return true
	}
	return false
}

type recordingWriter struct{ f *front }

func (w *recordingWriter) WritePoints(database, retentionPolicy string, consistencyLevel models.ConsistencyLevel, user meta.User, points []models.Point) error {
	rec := writeRec{DB: database, Points: len(points)}
	if !isNilUser(user) {
		rec.User, rec.HasUser = user.ID(), true
	}
	w.f.mu.Lock()
	w.f.writes = append(w.f.writes, rec)
	w.f.mu.Unlock()
	return nil
}

// outcome is what the monitor saw for one request.
type outcome struct {
	Status int        `json:"status"`
	Err    string     `json:"error,omitempty"`
	Execs  []execRec  `json:"executed_statements"`
	Writes []writeRec `json:"executed_writes"`
}

func (f *front) serve(req *http.Request) outcome {
	f.mu.Lock()
	f.execs, f.writes = nil, nil
	f.mu.Unlock()
	w := httptest.NewRecorder()
	f.h.ServeHTTP(w, req)
	f.mu.Lock()
	defer f.mu.Unlock()
	o := outcome{Status: w.Code, Err: w.Header().Get("X-InfluxDB-Error"), Execs: f.execs, Writes: f.writes}
	f.execs, f.writes = nil, nil
	return o
}
