package main

import (
	"fmt"
	"sort"
	"strings"

	"github.com/golang/snappy"
	"github.com/gogo/protobuf/proto"
	"github.com/influxdata/influxdb/prometheus/remote"
	"github.com/influxdata/influxql"
)

var promBody = func() []byte {
	req := &remote.WriteRequest{Timeseries: []*remote.TimeSeries{{
		Labels:  []*remote.LabelPair{{Name: "__name__", Value: "prom_metric"}, {Name: "host", Value: "a"}},
		Samples: []*remote.Sample{{TimestampMs: 1, Value: 1}},
	}}}
	b, err := proto.Marshal(req)
	if err != nil {
		panic(err)
	}
	return snappy.Encode(nil, b)
}()

type witness struct {
	Request reqSpec  `json:"request"`
	Users   []*muser `json:"users_named_in_credentials"`
	Needs   []string `json:"needs,omitempty"`
	Outcome outcome  `json:"outcome"`
	Node    string   `json:"node,omitempty"`
	History []hstep  `json:"history,omitempty"`
}

func credLabels(cs []cred) string {
	if len(cs) == 0 {
		return "none"
	}
	var l []string
	for _, c := range cs {
		l = append(l, c.label())
	}
	return strings.Join(l, "+")
}

// isBootstrap reports whether stmt is the creation of an administrator.
func isBootstrap(stmt influxql.Statement) bool {
	cu, ok := stmt.(*influxql.CreateUserStatement)
	return ok && cu.Admin
}

// judge applies the oracle to one request: everything that reached the
// statement executor / points writer must be backed by valid credentials of
// an existing user whose grants (harness model m) cover every need. sh is the
// harness's own parse of the query (nil for writes). tag is appended to the
// signatures (histories use "/after-change"). It returns whether the request
// was fully executed.
func judge(caseID string, spec reqSpec, sh *shape, o outcome, m *model, f *front, tag string, hist []hstep) (executedAll bool) {
	valid := map[string]bool{}
	var named []*muser
	for _, c := range spec.Creds {
		if u := c.validFor(m, f.secret); u != "" {
			valid[u] = true
		}
		if u := m.user(c.User); u != nil {
			named = append(named, u)
		}
	}
	noUsers := len(m.users) == 0
	wit := func(needs []need) witness {
		w := witness{Request: spec, Users: named, Outcome: o, History: hist}
		for _, n := range needs {
			w.Needs = append(w.Needs, n.String())
		}
		return w
	}
	labels := credLabels(spec.Creds)
	bad := false

	// ---- statements that reached the executor
	for i, ex := range o.Execs {
		r.Count("statements_reached_executor", 1)
		if sh == nil || i >= len(sh.stmts) {
			r.Violation("C16/unexpected-execution"+tag, caseID, fmt.Sprintf("statement %q reached the executor but the request holds no such statement", ex.Stmt), wit(nil))
			bad = true
			continue
		}
		stmt, needs := sh.stmts[i], sh.needs[i]
		if noUsers {
			if i == 0 && isBootstrap(stmt) {
				r.Count("bootstrap_create_admin_executed", 1)
				continue
			}
			sig := "C16/no-users/non-bootstrap-statement-executed"
			if i > 0 && isBootstrap(sh.stmts[0]) {
				sig = "C16/no-users/statement-after-bootstrap-create-user-executed-without-credentials"
			}
			r.Violation(sig+tag, caseID, fmt.Sprintf("no user exists; statement #%d %q of request %q reached the executor without any credential check (only the creation of the first administrator may run)", i, stmt.String(), sh.Q), wit(needs))
			bad = true
			continue
		}
		if !ex.HasUser || !valid[ex.User] {
			if ex.HasUser && len(valid) > 0 {
				r.Violation("C16/executed-as-other-user"+tag, caseID, fmt.Sprintf("statement %q ran as user %q but the request's valid credentials are for %v", stmt.String(), ex.User, keys(valid)), wit(needs))
			} else {
				r.Violation("C16/executed-without-valid-credentials/query/"+labels+tag, caseID, fmt.Sprintf("statement %q reached the executor (as user %q) although the request carries no valid credentials of an existing user (credentials: %s)", stmt.String(), ex.User, labels), wit(needs))
			}
			bad = true
			continue
		}
		u := m.user(ex.User)
		if miss := u.missing(needs); len(miss) > 0 {
			sig := "C16/query-executed-without-privilege/" + miss[0].kind()
			if i > 0 {
				sig += "/later-statement"
			}
			r.Violation(sig+tag, caseID, fmt.Sprintf("%s %q (db parameter %q, statement #%d) reached the executor for user %q (admin=%v grants=%v) who lacks %s", sh.Types[i], stmt.String(), sh.DB, i, u.Name, u.Admin, u.GrantS, miss[0]), wit(needs))
			bad = true
			continue
		}
		if h := sh.hand[i]; h != nil {
			r.Count("hand_table_cross_checks", 1)
			if miss := u.missing(h); len(miss) > 0 {
				r.Violation("C16/hand-table/"+miss[0].kind()+"-expected"+tag, caseID, fmt.Sprintf("%s %q (db parameter %q) ran for user %q (admin=%v grants=%v); the hand table for the plain statement classes demands %s, the statement's RequiredPrivileges() does not", sh.Types[i], stmt.String(), sh.DB, u.Name, u.Admin, u.GrantS, miss[0]), wit(h))
				bad = true
			}
		}
	}

	// ---- batches that reached the points writer
	for _, wr := range o.Writes {
		r.Count("writes_reached_points_writer", 1)
		n := need{Priv: influxql.WritePrivilege, PrivS: "WRITE", DB: wr.DB}
		if wr.DB != spec.DB {
			r.Violation("C16/write-reached-other-database"+tag, caseID, fmt.Sprintf("write addressed to %q reached the points writer for %q", spec.DB, wr.DB), wit([]need{n}))
			bad = true
			continue
		}
		if noUsers {
			r.Violation("C16/no-users/write-executed"+tag, caseID, fmt.Sprintf("no user exists; a write to %q reached the points writer", wr.DB), wit([]need{n}))
			bad = true
			continue
		}
		if !wr.HasUser || !valid[wr.User] {
			if wr.HasUser && len(valid) > 0 {
				r.Violation("C16/executed-as-other-user"+tag, caseID, fmt.Sprintf("write to %q ran as user %q but the request's valid credentials are for %v", wr.DB, wr.User, keys(valid)), wit([]need{n}))
			} else {
				r.Violation("C16/executed-without-valid-credentials/"+spec.Endpoint+"/"+labels+tag, caseID, fmt.Sprintf("write to %q reached the points writer (as user %q) although the request carries no valid credentials of an existing user (credentials: %s)", wr.DB, wr.User, labels), wit([]need{n}))
			}
			bad = true
			continue
		}
		u := m.user(wr.User)
		if !u.covers(n) {
			r.Violation("C16/write-executed-without-privilege"+tag, caseID, fmt.Sprintf("write to %q through %s reached the points writer for user %q (admin=%v grants=%v) who lacks WRITE on it", wr.DB, spec.Endpoint, u.Name, u.Admin, u.GrantS), wit([]need{n}))
			bad = true
		}
	}

	// ---- bookkeeping: was the request executed, should the model allow it,
	// is it a denied-by-exactly-one-ingredient case
	want := 1
	if sh != nil {
		want = len(sh.stmts)
	}
	got := len(o.Execs) + len(o.Writes)
	executedAll = got >= want
	if bad {
		return
	}
	var missing []string
	var who *muser
	if noUsers {
		if sh == nil {
			missing = append(missing, "no-users:write")
		} else {
			for i, st := range sh.stmts {
				if !(i == 0 && isBootstrap(st)) {
					missing = append(missing, "no-users:"+sh.Types[i])
				}
			}
		}
	} else {
		if len(spec.Creds) > 0 {
			who = m.user(spec.Creds[0].User)
		}
		if len(valid) == 0 {
			missing = append(missing, "credentials:"+labels)
		} else if len(spec.Creds) > 0 && spec.Creds[0].validFor(m, f.secret) == "" {
			// the handler looks at the first carrier in its own order only
			missing = append(missing, "credentials:"+labels)
		}
		if who != nil {
			if sh == nil {
				if !who.covers(need{Priv: influxql.WritePrivilege, DB: spec.DB}) {
					missing = append(missing, "privilege:WRITE")
				}
			} else {
				for i, ns := range sh.needs {
					for _, n := range who.missing(ns) {
						pos := ""
						if i > 0 {
							pos = "@later"
						}
						missing = append(missing, "privilege:"+n.kind()+pos)
					}
				}
			}
		}
	}
	types := spec.Endpoint
	if sh != nil {
		types = strings.Join(sh.Types, "+")
	}
	switch {
	case len(missing) == 0 && executedAll:
		r.Count("allowed_requests_executed", 1)
	case len(missing) == 0 && !executedAll:
		if spec.Endpoint != "query" && spec.DB != "db0" && spec.DB != "db1" {
			r.Count("writes_to_unknown_database_refused", 1)
		} else {
			r.Count("allowed_requests_not_executed", 1)
			noteRefused(spec, o)
		}
	case got == 0:
		r.Count("denied_requests_not_executed", 1)
		if len(missing) == 1 {
			r.Count("denied_by_exactly_one_ingredient", 1)
			r.Nontrivial(types + "|" + missing[0] + tag)
		}
	default:
		// a prefix of a multi-statement request ran and every executed
		// statement was authorised: legal (the executor stops at an error)
		r.Count("partially_executed_requests", 1)
	}
	return
}

func keys(m map[string]bool) []string {
	var k []string
	for s := range m {
		k = append(k, s)
	}
	sort.Strings(k)
	return k
}
