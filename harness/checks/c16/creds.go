package main

import (
	"encoding/base64"
	"encoding/json"
	"net/http"
	"net/url"
	"strings"
	"time"

	jwt "github.com/dgrijalva/jwt-go/v4"
	"github.com/influxdata/influxql"
)

// ---------------------------------------------------------------- user model

// muser is the harness's own record of one user (never read back from the
// meta store).
type muser struct {
	Name   string                        `json:"name"`
	Pw     string                        `json:"-"`
	Admin  bool                          `json:"admin"`
	Grants map[string]influxql.Privilege `json:"-"`
	GrantS map[string]string             `json:"grants"`
}

func (u *muser) setGrant(db string, p influxql.Privilege) {
	if u.Grants == nil {
		u.Grants = map[string]influxql.Privilege{}
		u.GrantS = map[string]string{}
	}
	u.Grants[db] = p
	u.GrantS[db] = p.String()
}

// covers is the independent privilege model: administrators may do
// everything; otherwise a grant covers exactly its own privilege, ALL covers
// READ and WRITE, READ does not cover WRITE nor WRITE READ.
func (u *muser) covers(n need) bool {
	if u == nil {
		return false
	}
	if u.Admin {
		return true
	}
	if n.Admin {
		return false
	}
	if n.Priv == influxql.NoPrivileges {
		return true
	}
	g, ok := u.Grants[n.DB]
	if !ok {
		return false
	}
	switch g {
	case influxql.AllPrivileges:
		return true
	case influxql.ReadPrivilege:
		return n.Priv == influxql.ReadPrivilege
	case influxql.WritePrivilege:
		return n.Priv == influxql.WritePrivilege
	}
	return false
}

// missing returns the needs the user does not cover.
func (u *muser) missing(ns []need) []need {
	var out []need
	for _, n := range ns {
		if !u.covers(n) {
			out = append(out, n)
		}
	}
	return out
}

type model struct {
	users map[string]*muser
}

func (m *model) user(name string) *muser {
	if m == nil {
		return nil
	}
	return m.users[name]
}

// ---------------------------------------------------------------- credentials

// cred is one credential carried by a request.
type cred struct {
	Kind string `json:"kind"` // none | basic | params | token | bearer
	User string `json:"user,omitempty"`
	Pass string `json:"pass,omitempty"`
	JWT  string `json:"jwt,omitempty"` // valid | expired | noexp | zeroexp | strexp | wrongsecret | algnone | nousername | numusername
	Why  string `json:"why,omitempty"` // what the generator intended (wrong-password, unknown-user, ...)
}

var passwordCarriers = []string{"basic", "params", "token"}
var allCarriers = []string{"basic", "params", "token", "bearer"}

func b64(b []byte) string { return base64.RawURLEncoding.EncodeToString(b) }

// makeJWT builds a bearer token of the given kind for username.
func makeJWT(username, kind string) string {
	secret := sharedSecret
	claims := jwt.MapClaims{"username": username}
	switch kind {
	case "valid", "wrongsecret", "algnone":
		claims["exp"] = time.Now().Add(2 * time.Hour).Unix()
	case "expired":
		claims["exp"] = time.Now().Add(-2 * time.Hour).Unix()
	case "noexp":
	case "zeroexp":
		claims["exp"] = 0
	case "strexp":
		claims["exp"] = "tomorrow"
	case "nousername":
		delete(claims, "username")
		claims["exp"] = time.Now().Add(2 * time.Hour).Unix()
	case "numusername":
		claims["username"] = 7
		claims["exp"] = time.Now().Add(2 * time.Hour).Unix()
	}
	if kind == "wrongsecret" {
		secret = "not-the-" + sharedSecret
	}
	if kind == "algnone" {
		tok := jwt.NewWithClaims(jwt.SigningMethodNone, claims)
		s, err := tok.SignedString(jwt.UnsafeAllowNoneSignatureType)
		if err != nil {
			panic(err)
		}
		return s
	}
	if kind == "strexp" {
		// the library refuses to sign nothing; build the token by hand so a
		// malformed exp really goes over the wire
		hdr, _ := json.Marshal(map[string]string{"alg": "HS512", "typ": "JWT"})
		body, _ := json.Marshal(claims)
		signing := b64(hdr) + "." + b64(body)
		sig, err := jwt.SigningMethodHS512.Sign(signing, []byte(secret))
		if err != nil {
			panic(err)
		}
		return signing + "." + sig
	}
	tok := jwt.NewWithClaims(jwt.SigningMethodHS512, claims)
	s, err := tok.SignedString([]byte(secret))
	if err != nil {
		panic(err)
	}
	return s
}

// apply puts the credential on the request.
func (c cred) apply(req *http.Request) {
	switch c.Kind {
	case "basic":
		req.SetBasicAuth(c.User, c.Pass)
	case "params":
		q := req.URL.Query()
		q.Set("u", c.User)
		q.Set("p", c.Pass)
		req.URL.RawQuery = q.Encode()
	case "token":
		req.Header.Set("Authorization", "Token "+c.User+":"+c.Pass)
	case "bearer":
		req.Header.Set("Authorization", "Bearer "+makeJWT(c.User, c.JWT))
	}
}

// validFor is the harness's own judgement of a credential: the user it is
// valid for ("" when it is valid for nobody). frontSecret is the shared
// secret configured on the handler ("" = bearer authentication disabled).
func (c cred) validFor(m *model, frontSecret string) string {
	u := m.user(c.User)
	if u == nil {
		return ""
	}
	switch c.Kind {
	case "basic", "params", "token":
		if c.Pass != "" && c.Pass == u.Pw {
			return u.Name
		}
	case "bearer":
		if frontSecret != "" && frontSecret == sharedSecret && c.JWT == "valid" {
			return u.Name
		}
	}
	return ""
}

// label is the stable class of a credential for signatures / distinctness.
func (c cred) label() string {
	if c.Kind == "bearer" {
		return "bearer-" + c.JWT
	}
	if c.Why != "" {
		return c.Kind + "-" + c.Why
	}
	return c.Kind
}

// reqSpec is one generated request.
type reqSpec struct {
	Endpoint string `json:"endpoint"` // query | write | write2 | promwrite
	Method   string `json:"method"`
	Q        string `json:"q,omitempty"`
	DB       string `json:"db"`
	Creds    []cred `json:"credentials"`
	NoSecret bool   `json:"handler_without_shared_secret,omitempty"`
	FormBody bool   `json:"q_in_form_body,omitempty"`
}

func (s reqSpec) build() *http.Request {
	var req *http.Request
	v := url.Values{}
	switch s.Endpoint {
	case "query":
		if s.DB != "" {
			v.Set("db", s.DB)
		}
		if s.FormBody {
			form := url.Values{"q": {s.Q}}
			req, _ = http.NewRequest("POST", "/query?"+v.Encode(), strings.NewReader(form.Encode()))
			req.Header.Set("Content-Type", "application/x-www-form-urlencoded")
		} else {
			v.Set("q", s.Q)
			req, _ = http.NewRequest(s.Method, "/query?"+v.Encode(), nil)
		}
	case "write":
		v.Set("db", s.DB)
		req, _ = http.NewRequest("POST", "/write?"+v.Encode(), strings.NewReader("cpu,host=a v=1 1000\nmem,host=a v=2 1000\n"))
	case "write2":
		v.Set("bucket", s.DB+"/autogen")
		v.Set("org", "o")
		req, _ = http.NewRequest("POST", "/api/v2/write?"+v.Encode(), strings.NewReader("cpu,host=a v=1 1000\n"))
	case "promwrite":
		v.Set("db", s.DB)
		req, _ = http.NewRequest("POST", "/api/v1/prom/write?"+v.Encode(), strings.NewReader(string(promBody)))
	}
	for _, c := range s.Creds {
		c.apply(req)
	}
	return req
}
