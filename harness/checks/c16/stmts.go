package main

import (
	"fmt"
	"sort"
	"strings"

	"github.com/influxdata/influxql"
)

// parserStatementTypes is every concrete type with a stmt() method in the
// influxql package the repository is built against (read from ast.go of
// github.com/influxtsdb/influxql, the repo's replace for
// github.com/influxdata/influxql). DeleteStatement is the only one the
// parser never produces (DELETE parses to DeleteSeriesStatement).
var parserStatementTypes = []string{
	"AlterRetentionPolicyStatement", "CreateContinuousQueryStatement", "CreateDatabaseStatement",
	"CreateRetentionPolicyStatement", "CreateSubscriptionStatement", "CreateUserStatement",
	"DeleteSeriesStatement", "DropContinuousQueryStatement", "DropDatabaseStatement",
	"DropMeasurementStatement", "DropRetentionPolicyStatement", "DropSeriesStatement",
	"DropSubscriptionStatement", "DropUserStatement", "ExplainStatement", "GrantStatement",
	"GrantAdminStatement", "KillQueryStatement", "ShowContinuousQueriesStatement",
	"ShowGrantsForUserStatement", "ShowDatabasesStatement", "ShowFieldKeyCardinalityStatement",
	"ShowFieldKeysStatement", "ShowMeasurementCardinalityStatement", "ShowMeasurementsStatement",
	"ShowQueriesStatement", "ShowRetentionPoliciesStatement", "ShowSeriesStatement",
	"ShowSeriesCardinalityStatement", "ShowServersStatement", "ShowShardGroupsStatement",
	"ShowShardsStatement", "ShowStatsStatement", "DropShardStatement", "ShowSubscriptionsStatement",
	"ShowDiagnosticsStatement", "ShowTagKeyCardinalityStatement", "ShowTagKeysStatement",
	"ShowTagValuesCardinalityStatement", "ShowTagValuesStatement", "ShowUsersStatement",
	"RevokeStatement", "RevokeAdminStatement", "SelectStatement", "SetPasswordUserStatement",
}

// need is one ingredient a statement requires: administrator rights, or a
// privilege on a database.
type need struct {
	Admin bool               `json:"admin,omitempty"`
	Priv  influxql.Privilege `json:"-"`
	PrivS string             `json:"privilege,omitempty"`
	DB    string             `json:"database,omitempty"`
}

func (n need) String() string {
	if n.Admin {
		return "admin"
	}
	return n.Priv.String() + " on " + fmt.Sprintf("%q", n.DB)
}

func (n need) kind() string {
	if n.Admin {
		return "admin"
	}
	switch n.Priv {
	case influxql.ReadPrivilege:
		return "READ"
	case influxql.WritePrivilege:
		return "WRITE"
	case influxql.AllPrivileges:
		return "ALL"
	}
	return "none"
}

// tmpl is one statement template. {D} and {E} are database placeholders
// (explicit database in the statement); a template without a placeholder
// relies on the request's db parameter. Hand is the hand-written expectation
// for the plain classes only (SELECT -> READ on the source database, INTO /
// DELETE / DROP SERIES -> WRITE, user / database / retention-policy
// management -> admin); "" = no hand expectation. In Hand, D / E name the
// placeholders and P the request's db parameter.
type tmpl struct {
	Type string
	Text string
	Hand string
}

var templates = []tmpl{
	// --- data queries
	{"SelectStatement", `SELECT v FROM {D}.autogen.cpu`, "r:D"},
	{"SelectStatement", `SELECT v FROM cpu`, "r:P"},
	{"SelectStatement", `SELECT mean(v) FROM {D}.autogen.cpu WHERE time > 0 GROUP BY time(1m)`, "r:D"},
	{"SelectStatement", `SELECT v FROM {D}.autogen./c.*/`, "r:D"},
	{"SelectStatement", `SELECT v FROM {D}.autogen.cpu, {E}.autogen.mem`, "r:D,r:E"},
	{"SelectStatement", `SELECT m FROM (SELECT max(v) AS m FROM {D}.autogen.cpu)`, "r:D"},
	{"SelectStatement", `SELECT v INTO {E}.autogen.out FROM {D}.autogen.cpu`, "r:D,w:E"},
	{"SelectStatement", `SELECT v INTO {E}.autogen.out FROM cpu`, "r:P,w:E"},
	{"SelectStatement", `SELECT v INTO out FROM cpu`, "r:P,w:P"},
	{"SelectStatement", `SELECT v INTO {E}.autogen.:MEASUREMENT FROM {D}.autogen./c.*/`, "r:D,w:E"},
	{"ExplainStatement", `EXPLAIN SELECT v FROM {D}.autogen.cpu`, ""},
	{"ExplainStatement", `EXPLAIN ANALYZE SELECT v FROM cpu`, ""},
	{"DeleteSeriesStatement", `DELETE FROM cpu WHERE time < 1000`, "w:P"},
	{"DeleteSeriesStatement", `DELETE WHERE time < 1000`, "w:P"},
	{"DropSeriesStatement", `DROP SERIES FROM cpu`, "w:P"},
	{"DropSeriesStatement", `DROP SERIES WHERE host = 'a'`, "w:P"},
	{"DropMeasurementStatement", `DROP MEASUREMENT cpu`, ""},
	{"DropShardStatement", `DROP SHARD 1`, ""},
	// --- schema exploration
	{"ShowSeriesStatement", `SHOW SERIES ON {D}`, ""},
	{"ShowSeriesStatement", `SHOW SERIES`, ""},
	{"ShowSeriesCardinalityStatement", `SHOW SERIES CARDINALITY ON {D}`, ""},
	{"ShowSeriesCardinalityStatement", `SHOW SERIES CARDINALITY`, ""},
	{"ShowSeriesCardinalityStatement", `SHOW SERIES EXACT CARDINALITY ON {D}`, ""},
	{"ShowSeriesCardinalityStatement", `SHOW SERIES EXACT CARDINALITY ON {D} FROM cpu`, ""},
	{"ShowMeasurementCardinalityStatement", `SHOW MEASUREMENT CARDINALITY ON {D}`, ""},
	{"ShowMeasurementCardinalityStatement", `SHOW MEASUREMENT CARDINALITY`, ""},
	{"ShowMeasurementCardinalityStatement", `SHOW MEASUREMENT EXACT CARDINALITY ON {D}`, ""},
	{"ShowMeasurementsStatement", `SHOW MEASUREMENTS ON {D}`, ""},
	{"ShowMeasurementsStatement", `SHOW MEASUREMENTS`, ""},
	{"ShowTagKeysStatement", `SHOW TAG KEYS ON {D}`, ""},
	{"ShowTagKeysStatement", `SHOW TAG KEYS FROM cpu`, ""},
	{"ShowTagKeyCardinalityStatement", `SHOW TAG KEY CARDINALITY ON {D}`, ""},
	{"ShowTagKeyCardinalityStatement", `SHOW TAG KEY CARDINALITY FROM cpu`, ""},
	{"ShowTagKeyCardinalityStatement", `SHOW TAG KEY EXACT CARDINALITY ON {D} FROM cpu`, ""},
	{"ShowTagValuesStatement", `SHOW TAG VALUES ON {D} WITH KEY = host`, ""},
	{"ShowTagValuesStatement", `SHOW TAG VALUES WITH KEY = host`, ""},
	{"ShowTagValuesCardinalityStatement", `SHOW TAG VALUES CARDINALITY ON {D} WITH KEY = host`, ""},
	{"ShowTagValuesCardinalityStatement", `SHOW TAG VALUES EXACT CARDINALITY FROM cpu WITH KEY = host`, ""},
	{"ShowFieldKeysStatement", `SHOW FIELD KEYS ON {D}`, ""},
	{"ShowFieldKeysStatement", `SHOW FIELD KEYS FROM cpu`, ""},
	{"ShowFieldKeyCardinalityStatement", `SHOW FIELD KEY CARDINALITY ON {D}`, ""},
	{"ShowFieldKeyCardinalityStatement", `SHOW FIELD KEY EXACT CARDINALITY FROM cpu`, ""},
	{"ShowRetentionPoliciesStatement", `SHOW RETENTION POLICIES ON {D}`, ""},
	{"ShowRetentionPoliciesStatement", `SHOW RETENTION POLICIES`, ""},
	{"ShowDatabasesStatement", `SHOW DATABASES`, ""},
	{"ShowContinuousQueriesStatement", `SHOW CONTINUOUS QUERIES`, ""},
	{"ShowQueriesStatement", `SHOW QUERIES`, ""},
	{"ShowServersStatement", `SHOW SERVERS`, ""},
	// --- server / cluster information
	{"ShowStatsStatement", `SHOW STATS`, ""},
	{"ShowStatsStatement", `SHOW STATS FOR 'httpd'`, ""},
	{"ShowDiagnosticsStatement", `SHOW DIAGNOSTICS`, ""},
	{"ShowShardsStatement", `SHOW SHARDS`, ""},
	{"ShowShardGroupsStatement", `SHOW SHARD GROUPS`, ""},
	{"ShowSubscriptionsStatement", `SHOW SUBSCRIPTIONS`, ""},
	{"KillQueryStatement", `KILL QUERY 1`, ""},
	{"KillQueryStatement", `KILL QUERY 1 ON "n1:8088"`, ""},
	// --- database / retention-policy management
	{"CreateDatabaseStatement", `CREATE DATABASE newdb`, "admin"},
	{"CreateDatabaseStatement", `CREATE DATABASE newdb WITH DURATION 1d REPLICATION 1 NAME rpx`, "admin"},
	{"DropDatabaseStatement", `DROP DATABASE {D}`, "admin"},
	{"CreateRetentionPolicyStatement", `CREATE RETENTION POLICY rp1 ON {D} DURATION 1h REPLICATION 1`, "admin"},
	{"AlterRetentionPolicyStatement", `ALTER RETENTION POLICY autogen ON {D} DURATION 2h`, "admin"},
	{"DropRetentionPolicyStatement", `DROP RETENTION POLICY rp1 ON {D}`, ""},
	{"CreateContinuousQueryStatement", `CREATE CONTINUOUS QUERY cq1 ON {D} BEGIN SELECT mean(v) INTO {E}.autogen.out FROM cpu GROUP BY time(1m) END`, ""},
	{"CreateContinuousQueryStatement", `CREATE CONTINUOUS QUERY cq1 ON {D} BEGIN SELECT mean(v) INTO out FROM cpu GROUP BY time(1m) END`, ""},
	{"DropContinuousQueryStatement", `DROP CONTINUOUS QUERY cq1 ON {D}`, ""},
	{"CreateSubscriptionStatement", `CREATE SUBSCRIPTION s1 ON {D}.autogen DESTINATIONS ALL 'udp://h:9000'`, ""},
	{"DropSubscriptionStatement", `DROP SUBSCRIPTION s1 ON {D}.autogen`, ""},
	// --- user management
	{"CreateUserStatement", `CREATE USER eve WITH PASSWORD 'evepw'`, "admin"},
	{"CreateUserStatement", `CREATE USER eve WITH PASSWORD 'evepw' WITH ALL PRIVILEGES`, "admin"},
	{"DropUserStatement", `DROP USER victim`, "admin"},
	{"SetPasswordUserStatement", `SET PASSWORD FOR victim = 'changed'`, "admin"},
	{"GrantStatement", `GRANT READ ON {D} TO victim`, "admin"},
	{"GrantStatement", `GRANT ALL ON {D} TO victim`, "admin"},
	{"GrantAdminStatement", `GRANT ALL PRIVILEGES TO victim`, "admin"},
	{"RevokeStatement", `REVOKE WRITE ON {D} FROM victim`, "admin"},
	{"RevokeAdminStatement", `REVOKE ALL PRIVILEGES FROM victim`, "admin"},
	{"ShowUsersStatement", `SHOW USERS`, "admin"},
	{"ShowGrantsForUserStatement", `SHOW GRANTS FOR victim`, "admin"},
}

var dbNames = []string{"db0", "db1"}
var dbParams = []string{"", "db0", "db1"}

// shape is one concrete query text (one or more statements) plus the db
// parameter it is sent with, parsed by the harness on its own.
type shape struct {
	ID    int      `json:"-"`
	Q     string   `json:"q"`
	DB    string   `json:"db"`
	Types []string `json:"types"`
	query *influxql.Query
	stmts []influxql.Statement
	needs [][]need // per statement, from the statement's own RequiredPrivileges()
	hand  [][]need // per statement, hand table (nil = no expectation)
}

// needsOf resolves a statement's own RequiredPrivileges() against the db
// parameter of the request ("" in a privilege means the default database).
func needsOf(stmt influxql.Statement, dbParam string) ([]need, error) {
	ps, err := stmt.RequiredPrivileges()
	if err != nil {
		return nil, err
	}
	var out []need
	for _, p := range ps {
		if p.Admin {
			out = append(out, need{Admin: true, PrivS: "admin"})
			continue
		}
		db := p.Name
		if db == "" {
			db = dbParam
		}
		out = append(out, need{Priv: p.Privilege, PrivS: p.Privilege.String(), DB: db})
	}
	return out, nil
}

func handNeeds(h, d, e, p string) []need {
	if h == "" {
		return nil
	}
	var out []need
	for _, part := range strings.Split(h, ",") {
		if part == "admin" {
			out = append(out, need{Admin: true, PrivS: "admin"})
			continue
		}
		kv := strings.SplitN(part, ":", 2)
		db := map[string]string{"D": d, "E": e, "P": p}[kv[1]]
		pr := influxql.ReadPrivilege
		if kv[0] == "w" {
			pr = influxql.WritePrivilege
		}
		out = append(out, need{Priv: pr, PrivS: pr.String(), DB: db})
	}
	return out
}

func typeName(s influxql.Statement) string {
	return strings.TrimPrefix(fmt.Sprintf("%T", s), "*influxql.")
}

// expand instantiates a template for every combination of placeholder values.
func (t tmpl) expand() (texts []string, ds, es []string) {
	hasD, hasE := strings.Contains(t.Text, "{D}"), strings.Contains(t.Text, "{E}")
	dvals, evals := []string{""}, []string{""}
	if hasD {
		dvals = dbNames
	}
	if hasE {
		evals = dbNames
	}
	for _, d := range dvals {
		for _, e := range evals {
			s := strings.ReplaceAll(strings.ReplaceAll(t.Text, "{D}", d), "{E}", e)
			texts, ds, es = append(texts, s), append(ds, d), append(es, e)
		}
	}
	return
}

// single is one instantiated single statement (before the db parameter is chosen).
type single struct {
	T    tmpl
	Text string
	D, E string
}

func allSingles() []single {
	var out []single
	for _, t := range templates {
		texts, ds, es := t.expand()
		for i := range texts {
			out = append(out, single{t, texts[i], ds[i], es[i]})
		}
	}
	return out
}

// mkShape parses the text with the harness's own parser instance and derives
// the needs. parts carries the hand expectations of the individual statements.
func mkShape(id int, parts []single, dbParam string) (*shape, error) {
	texts := make([]string, len(parts))
	for i, p := range parts {
		texts[i] = p.Text
	}
	sh := &shape{ID: id, Q: strings.Join(texts, "; "), DB: dbParam}
	q, err := influxql.ParseQuery(sh.Q)
	if err != nil {
		return nil, fmt.Errorf("template %q does not parse: %v", sh.Q, err)
	}
	sh.query = q
	if len(q.Statements) != len(parts) {
		return nil, fmt.Errorf("template %q parsed into %d statements, want %d", sh.Q, len(q.Statements), len(parts))
	}
	for i, st := range q.Statements {
		tn := typeName(st)
		if tn != parts[i].T.Type {
			return nil, fmt.Errorf("template %q parsed into %s, want %s", parts[i].Text, tn, parts[i].T.Type)
		}
		ns, err := needsOf(st, dbParam)
		if err != nil {
			return nil, fmt.Errorf("RequiredPrivileges(%q): %v", parts[i].Text, err)
		}
		sh.stmts = append(sh.stmts, st)
		sh.Types = append(sh.Types, tn)
		sh.needs = append(sh.needs, ns)
		sh.hand = append(sh.hand, handNeeds(parts[i].T.Hand, parts[i].D, parts[i].E, dbParam))
	}
	return sh, nil
}

// singleShapes is every template instance x every db parameter.
func singleShapes() ([]*shape, error) {
	var out []*shape
	for _, s := range allSingles() {
		for _, p := range dbParams {
			sh, err := mkShape(len(out), []single{s}, p)
			if err != nil {
				return nil, err
			}
			out = append(out, sh)
		}
	}
	return out, nil
}

// coveredTypes returns the statement types the shapes cover and the parser
// types they miss.
func coveredTypes(shapes []*shape) (covered, missing []string) {
	have := map[string]bool{}
	for _, sh := range shapes {
		for _, t := range sh.Types {
			have[t] = true
		}
	}
	for _, t := range parserStatementTypes {
		if have[t] {
			covered = append(covered, t)
		} else {
			missing = append(missing, t)
		}
	}
	sort.Strings(covered)
	return
}
