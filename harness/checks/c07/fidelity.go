// fidelity.go — monitor (a): Restore(Persist(Snapshot(x))) == x.
package main

import (
	"fmt"
	"math"
	"math/rand"
	"runtime"
	"strings"
	"sync"
	"time"

	"github.com/influxdata/influxdb/services/meta"
	"github.com/influxdata/influxql"
)

// sectionOf names the part of the metadata a canonical line belongs to.
func sectionOf(line string) string {
	l := strings.TrimLeft(line, " ")
	switch {
	case strings.HasPrefix(l, "term "):
		return "term-index"
	case strings.HasPrefix(l, "cluster "):
		return "cluster-id-or-counters"
	case strings.HasPrefix(l, "meta "):
		return "meta-nodes"
	case strings.HasPrefix(l, "data "):
		return "data-nodes"
	case strings.HasPrefix(l, "db "):
		return "database"
	case strings.HasPrefix(l, "rp "):
		return "retention-policy"
	case strings.HasPrefix(l, "sg "):
		return "shard-group"
	case strings.HasPrefix(l, "sub "):
		return "subscription"
	case strings.HasPrefix(l, "cq "):
		return "continuous-query"
	case strings.HasPrefix(l, "user "):
		return "user"
	case strings.HasPrefix(l, "admin-exists"):
		return "admin-exists"
	}
	return "other"
}

// diffSection classifies the first difference of two canonical forms.
func diffSection(a, b string) (sec, la, lb string) {
	la, lb = firstDiff(a, b)
	sec = sectionOf(la)
	if la == "" || sec == "other" {
		sec = sectionOf(lb)
	}
	return
}

// roundTrip snapshots f, persists, restores into a fresh FSM and returns the
// exact canonical forms before and after.
func roundTrip(f *meta.VerifFSM) (before, after string, n int, err error) {
	before = canon(f.Data(), canonExact, nil)
	s, err := f.Snapshot()
	if err != nil {
		return before, "", 0, fmt.Errorf("Snapshot: %v", err)
	}
	b, err := s.Persist()
	if err != nil {
		return before, "", 0, fmt.Errorf("Persist: %v", err)
	}
	g := newFSM(false)
	if err := g.Restore(b); err != nil {
		return before, "", len(b), fmt.Errorf("Restore: %v", err)
	}
	return before, canon(g.Data(), canonExact, nil), len(b), nil
}

func nontrivialValue(d *meta.Data) bool {
	if len(d.Users) == 0 {
		return false
	}
	for i := range d.Databases {
		for j := range d.Databases[i].RetentionPolicies {
			if len(d.Databases[i].RetentionPolicies[j].ShardGroups) > 0 {
				return true
			}
		}
	}
	return false
}

// noteValue records which kinds of content the checked values carried.
func noteValue(d *meta.Data) {
	if len(d.MetaNodes) > 0 {
		r.Count("a_values_with_meta_nodes", 1)
	}
	if len(d.DataNodes) > 0 {
		r.Count("a_values_with_data_nodes", 1)
	}
	var subs, cqs, trunc, del, privs bool
	for i := range d.Databases {
		if len(d.Databases[i].ContinuousQueries) > 0 {
			cqs = true
		}
		for j := range d.Databases[i].RetentionPolicies {
			rp := &d.Databases[i].RetentionPolicies[j]
			if len(rp.Subscriptions) > 0 {
				subs = true
			}
			for k := range rp.ShardGroups {
				if rp.ShardGroups[k].Truncated() {
					trunc = true
				}
				if rp.ShardGroups[k].Deleted() {
					del = true
				}
			}
		}
	}
	for i := range d.Users {
		if len(d.Users[i].Privileges) > 0 {
			privs = true
		}
	}
	for k, v := range map[string]bool{"a_values_with_subscriptions": subs, "a_values_with_continuous_queries": cqs, "a_values_with_truncated_groups": trunc,
		"a_values_with_deleted_groups": del, "a_values_with_privilege_maps": privs} {
		if v {
			r.Count(k, 1)
		}
	}
}

func judgeFidelity(caseID string, f *meta.VerifFSM, witness func() interface{}) {
	d := f.Data()
	nt := nontrivialValue(d)
	noteValue(d)
	before, after, n, err := roundTrip(f)
	r.Count("a_values_checked", 1)
	r.Count("a_snapshot_bytes", int64(n))
	if nt {
		r.Count("a_values_nontrivial", 1)
		r.Nontrivial("a/" + ev8(before))
	}
	if err != nil {
		r.Violation("C07/snapshot-fidelity/restore-failed", caseID, fmt.Sprintf("snapshot of a metadata value does not restore: %v", err), witness())
		return
	}
	if before != after {
		sec, la, lb := diffSection(before, after)
		r.Violation("C07/snapshot-fidelity/"+sec, caseID,
			fmt.Sprintf("Restore(Persist(Snapshot(x))) != x: %q became %q", la, lb), witness())
	}
}

func ev8(s string) string {
	h := uint64(1469598103934665603)
	for i := 0; i < len(s); i++ {
		h = (h ^ uint64(s[i])) * 1099511628211
	}
	return fmt.Sprintf("%016x", h)
}

// ---------------------------------------------------------------- log-reached

func fidelityLog(caseID string, seed int64) {
	g := rand.New(rand.NewSource(seed))
	p := newProfile(g)
	if p.N > 160 {
		p.N = 160
	}
	x := &gen{g: rand.New(rand.NewSource(g.Int63())), p: p}
	f := newFSM(p.AutoCreate)
	index, term := uint64(1), uint64(1)
	var descs []string
	var hexes []string
	for i := 0; i < p.N; i++ {
		c := x.next(f.Data())
		index += 1 + uint64(x.g.Intn(8)/7)
		if x.g.Intn(40) == 0 {
			term++
		}
		descs = append(descs, c.Desc)
		hexes = append(hexes, c.Hex)
		_, pn := applyOne(f, index, term, c.bytes)
		if pn != nil {
			r.Violation("C07/fsm-panicked/"+c.TypeName(), caseID, fmt.Sprintf("FSM.Apply panicked on a well-formed %s: %v", c.Desc, pn),
				map[string]interface{}{"case_seed": seed, "log": descs, "hex": hexes})
			return
		}
		r.Count("a_log_entries_applied", 1)
		if x.g.Float64() < 0.08 || i == p.N-1 {
			n := i + 1
			judgeFidelity(caseID, f, func() interface{} {
				return map[string]interface{}{"case_seed": seed, "retention_autocreate": p.AutoCreate, "entries": n, "log": descs[:n], "hex": hexes[:n]}
			})
			if caseID == "fid/log/0" && i == p.N-1 {
				first := descs
				if len(first) > 12 {
					first = first[:12]
				}
				r.Sample(map[string]interface{}{"case": caseID, "monitor": "a", "entries": n, "first_entries": first})
			}
		}
	}
}

// ---------------------------------------------------------------- direct

var (
	strPool  = []string{"", "a", "db0", "rp0", "autogen", "name with space", "quote\"'\\", "ünïcødé✓", "新しい", strings.Repeat("x", 300), "a,b=c d", "\t\n", "0"}
	addrPool = []string{"", "h0:8086", "127.0.0.1:8091", "[::1]:8088", "host.example.com:65535", "m0:8089"}
)

func pickU64(g *rand.Rand) uint64 {
	switch g.Intn(8) {
	case 0:
		return 0
	case 1:
		return math.MaxUint64
	case 2:
		return math.MaxUint32
	case 3:
		return 1 << 63
	case 4:
		return uint64(g.Int63())
	}
	return uint64(g.Intn(50))
}

func pickStr(g *rand.Rand) string { return strPool[g.Intn(len(strPool))] }

// pickTime returns a time the API can produce for a group boundary or a
// truncation: any int64 nanosecond value, with the extremes and the epoch.
func pickTime(g *rand.Rand) time.Time {
	switch g.Intn(10) {
	case 0:
		return time.Unix(0, 0).UTC()
	case 1:
		return time.Unix(0, math.MinInt64+2).UTC() // models.MinNanoTime
	case 2:
		return time.Unix(0, math.MaxInt64).UTC() // MaxNanoTime+1, end of the last group
	case 3:
		return time.Unix(0, math.MaxInt64-1).UTC()
	case 4:
		return time.Unix(0, -1).UTC()
	case 5:
		return time.Unix(0, 1).UTC()
	case 6:
		return time.Unix(0, g.Int63()-g.Int63()).UTC()
	}
	return time.Unix(0, t0+int64(g.Intn(1000)-500)*int64(time.Hour)+g.Int63n(int64(time.Hour))).UTC()
}

func pickDur(g *rand.Rand) time.Duration {
	switch g.Intn(8) {
	case 0:
		return 0
	case 1:
		return time.Duration(math.MaxInt64)
	case 2:
		return time.Duration(math.MinInt64)
	case 3:
		return -time.Hour
	case 4:
		return 1
	}
	return time.Duration(g.Intn(1000)) * time.Hour
}

func genNodes(g *rand.Rand) []meta.NodeInfo {
	n := g.Intn(5)
	if n == 0 && g.Intn(2) == 0 {
		return nil
	}
	out := make([]meta.NodeInfo, n, n+g.Intn(3))
	for i := range out {
		out[i] = meta.NodeInfo{ID: pickU64(g), Addr: addrPool[g.Intn(len(addrPool))], TCPAddr: addrPool[g.Intn(len(addrPool))]}
	}
	return out
}

// genData populates every field of meta.Data directly.
func genData(g *rand.Rand) *meta.Data {
	d := &meta.Data{
		Term: pickU64(g), Index: pickU64(g), ClusterID: pickU64(g),
		MaxNodeID: pickU64(g), MaxShardGroupID: pickU64(g), MaxShardID: pickU64(g),
	}
	d.MetaNodes = genNodes(g)
	d.DataNodes = genNodes(g)
	for i, nd := 0, g.Intn(4); i < nd; i++ {
		di := meta.DatabaseInfo{Name: fmt.Sprintf("%s#%d", pickStr(g), i), DefaultRetentionPolicy: pickStr(g)}
		for j, nr := 0, g.Intn(4); j < nr; j++ {
			rp := meta.RetentionPolicyInfo{Name: fmt.Sprintf("%s#%d", pickStr(g), j), Duration: pickDur(g), ShardGroupDuration: pickDur(g)}
			switch g.Intn(5) {
			case 0:
				rp.ReplicaN = 0
			case 1:
				rp.ReplicaN = math.MaxUint32
			default:
				rp.ReplicaN = g.Intn(6)
			}
			if g.Intn(3) == 0 {
				di.DefaultRetentionPolicy = rp.Name
			}
			for k, ng := 0, g.Intn(5); k < ng; k++ {
				sg := meta.ShardGroupInfo{ID: pickU64(g), StartTime: pickTime(g), EndTime: pickTime(g)}
				switch g.Intn(4) {
				case 0: // deleted: DeletedAt is only ever time.Now().UTC()
					sg.DeletedAt = time.Now().UTC().Add(-time.Duration(g.Int63n(int64(1000 * time.Hour))))
				case 1:
					sg.DeletedAt = time.Unix(0, 1+g.Int63()).UTC()
				}
				switch g.Intn(4) {
				case 0:
					sg.TruncatedAt = pickTime(g)
				case 1:
					sg.TruncatedAt = sg.StartTime
				}
				ns := g.Intn(4)
				if ns > 0 || g.Intn(2) == 0 {
					sg.Shards = make([]meta.ShardInfo, ns)
				}
				for s := range sg.Shards {
					sg.Shards[s].ID = pickU64(g)
					no := g.Intn(4)
					if no > 0 || g.Intn(2) == 0 {
						sg.Shards[s].Owners = make([]meta.ShardOwner, no)
					}
					for o := range sg.Shards[s].Owners {
						sg.Shards[s].Owners[o].NodeID = pickU64(g)
					}
				}
				rp.ShardGroups = append(rp.ShardGroups, sg)
			}
			for k, nsub := 0, g.Intn(3); k < nsub; k++ {
				sub := meta.SubscriptionInfo{Name: pickStr(g), Mode: []string{"ANY", "ALL", ""}[g.Intn(3)]}
				for q, nd := 0, g.Intn(3); q < nd; q++ {
					sub.Destinations = append(sub.Destinations, []string{"udp://h1:9000", "http://h2:8086", "", "https://h3:443/path?q=ü"}[g.Intn(4)])
				}
				rp.Subscriptions = append(rp.Subscriptions, sub)
			}
			di.RetentionPolicies = append(di.RetentionPolicies, rp)
		}
		for j, nc := 0, g.Intn(3); j < nc; j++ {
			di.ContinuousQueries = append(di.ContinuousQueries, meta.ContinuousQueryInfo{Name: pickStr(g), Query: queries[g.Intn(len(queries))] + pickStr(g)})
		}
		d.Databases = append(d.Databases, di)
	}
	for i, nu := 0, g.Intn(4); i < nu; i++ {
		// through the Data API so that the unexported admin flag cache is what
		// the real code would hold
		name := fmt.Sprintf("%s#u%d", pickStr(g), i)
		if err := d.CreateUser(name, pickStr(g), g.Intn(3) == 0); err != nil {
			harnessFatal("genData: CreateUser: %v", err)
		}
		u := &d.Users[len(d.Users)-1]
		switch g.Intn(4) {
		case 0: // nil map
		case 1:
			u.Privileges = map[string]influxql.Privilege{}
		default:
			u.Privileges = map[string]influxql.Privilege{}
			for k, np := 0, 1+g.Intn(3); k < np; k++ {
				u.Privileges[fmt.Sprintf("%s#%d", pickStr(g), g.Intn(4))] = influxql.Privilege(g.Intn(4))
			}
		}
	}
	return d
}

func fidelityDirect(caseID string, seed int64) {
	g := rand.New(rand.NewSource(seed))
	x := genData(g)
	f := newFSM(false)
	*f.Data() = *x // install x as the state machine's current metadata
	judgeFidelity(caseID, f, func() interface{} {
		return map[string]interface{}{"case_seed": seed, "value": canon(x, canonExact, nil)}
	})
	r.Count("a_direct_values", 1)
	if caseID == "fid/direct/0" {
		v := canon(x, canonExact, nil)
		if len(v) > 1500 {
			v = v[:1500] + "..."
		}
		r.Sample(map[string]interface{}{"case": caseID, "monitor": "a", "directly_populated_value": v})
	}
}

// ---------------------------------------------------------------- driver

func runFidelity() {
	nLogs := r.Pick(250, 2500)
	nDirect := r.Pick(1200, 12000)
	type job struct {
		id     string
		seed   int64
		direct bool
	}
	jobs := make(chan job, 256)
	var wg sync.WaitGroup
	for w := 0; w < runtime.NumCPU(); w++ {
		wg.Add(1)
		go func() {
			defer wg.Done()
			for j := range jobs {
				r.Eval(1)
				if j.direct {
					fidelityDirect(j.id, j.seed)
				} else {
					fidelityLog(j.id, j.seed)
				}
			}
		}()
	}
	rng := r.Rand("fidelity")
	for i := 0; i < nLogs+nDirect; i++ {
		direct := i >= nLogs
		id := fmt.Sprintf("fid/log/%d", i)
		if direct {
			id = fmt.Sprintf("fid/direct/%d", i-nLogs)
		}
		seed := rng.Int63()
		if r.Skip(id) {
			continue
		}
		r.Begin(id, map[string]interface{}{"case_seed": seed})
		jobs <- job{id, seed, direct}
	}
	close(jobs)
	wg.Wait()
}
