// C07 — acknowledged metadata changes are never lost; replicas converge; a
// snapshot is a point-in-time image; no accepted request can wedge the log.
//
// Four monitors, one per clause of the statement:
//
//	(a) fidelity.go  Restore(Persist(Snapshot(x))) == x for metadata values
//	                 reached by command logs and populated directly.
//	(b) pit.go       a snapshot taken at state X restores to X whatever is
//	                 applied afterwards (before / concurrently with Persist);
//	                 race-detector reports inside services/meta are violations.
//	(c) wedge.go     bodies posted to /execute of a real single-node meta
//	                 service running in a WORKER child process (worker.go):
//	                 the worker must survive, and must restart from its log.
//	(d) faults.go    3 meta nodes + data nodes in process; client operations
//	                 interleaved with stop/restart/snapshot faults; every
//	                 acknowledged change must be on every node afterwards and
//	                 all nodes and caches must agree.
package main

import (
	"bufio"
	"fmt"
	"os"
	"path/filepath"
	"regexp"
	"runtime/debug"
	"sort"
	"strings"
	"sync"

	"github.com/influxdata/influxdb/services/meta"

	"verifharness/internal/ev"
)

func main() {
	if os.Getenv("C07_WORKER") == "1" {
		workerMain()
		return
	}
	ev.Supervise("C07", body)
}

var r *ev.Run

// scratch directories, removed also when the run ends through harnessFatal
var scratch struct {
	sync.Mutex
	dirs []string
}

func tempDir(prefix string) string {
	d := ev.TempDir(prefix)
	scratch.Lock()
	scratch.dirs = append(scratch.dirs, d)
	scratch.Unlock()
	return d
}

func harnessFatal(f string, a ...interface{}) {
	fmt.Fprintf(os.Stderr, "C07 harness: "+f+"\n", a...)
	fmt.Printf("BROKEN-CHECK C07: "+f+"\n", a...)
	scratch.Lock()
	for _, d := range scratch.dirs {
		os.RemoveAll(d)
	}
	scratch.Unlock()
	os.Exit(ev.ExitBroken)
}

func newFSM(autoCreate bool) *meta.VerifFSM {
	c := meta.NewConfig()
	c.RetentionAutoCreate = autoCreate
	return meta.NewVerifFSM(c)
}

// applyOne applies one entry; a panic in the FSM is returned, not propagated.
func applyOne(f *meta.VerifFSM, index, term uint64, b []byte) (err error, panicked interface{}) {
	defer func() {
		if e := recover(); e != nil {
			panicked = e
		}
	}()
	return f.Apply(index, term, b), nil
}

// only selects monitors (C07_ONLY=abcd) while developing / calibrating.
func enabled(m string) bool {
	o := os.Getenv("C07_ONLY")
	return o == "" || strings.Contains(o, m)
}

func body() {
	r = ev.Start("C07", "exploration")
	r.Rule = "(a) metadata values: states reached by generated command logs (30 command types, small argument pools) at seeded checkpoints, plus directly populated values covering every field; non-trivial = value with >=1 database, policy, shard group and user. " +
		"(b) snapshot cases: state reached by a log prefix, Snapshot(), then 4-16 later commands biased to node-list commands and rejected commands, applied before or concurrently with Persist; non-trivial = a node-list command or a rejected command followed the snapshot; distinct by later-command type sequence. " +
		"(c) /execute bodies: per command type well-formed / extension removed / another command's extension / truncated at every field boundary, unknown type numbers, seeded random protobuf; non-trivial = body that the endpoint's validation accepts (unmarshals as a Command); distinct by body bytes. " +
		"(d) fault histories on a 3-meta-node cluster with 1-2 data nodes: ~30 client operations (meta.Client and HTTP /query, writes) interleaved with stop-leader / stop-follower / restart / stop-all+restart-all / forced raft snapshot+restart; non-trivial = history with >=1 leader change and >=1 restart; distinct by fault sequence."
	r.Assumptions = []string{
		"(a,b) the FSM handle (meta.NewVerifFSM) runs the same storeFSM.Apply/Snapshot/Persist/Restore code as a raft-driven store; hashicorp/raft calls Snapshot() on the FSM goroutine and Persist() on another goroutine while Apply continues, which the concurrent mode of (b) reproduces",
		"(a) directly populated values are restricted to what the API can produce: times within int64 nanoseconds, group start/end never the zero time.Time, DeletedAt never exactly the Unix epoch (it is only ever time.Now()), ReplicaN within uint32, valid UTF-8 strings",
		"(c) RemovePeer is only sent for an address that is not the worker's own (removing the last voter is an administrative action, not a malformed request); the well-formed SetData payload is the worker's current metadata; the restart comparison ignores Term/Index and deleted groups (single-server start re-applies SetMetaNode; DeletedAt is re-stamped with the wall clock on replay)",
		"(d) operations are issued by one sequential client, so an operation whose outcome is unknown (transport error, timeout, error after retries, leadership lost) is ordered before every later acknowledged operation or was never applied; only whole-node stop/start is injected (no partitions, no disk corruption)",
		"(d) timeouts are watchdogs: a cluster that does not settle within the watchdog is reported inconclusive, never as a violation",
	}
	debug.SetGCPercent(200)

	if enabled("a") {
		runFidelity()
	}
	if enabled("b") {
		runPointInTime()
	}
	var wg sync.WaitGroup
	if enabled("c") {
		wg.Add(1)
		go func() { defer wg.Done(); runWedge() }()
	}
	if enabled("d") {
		wg.Add(1)
		go func() { defer wg.Done(); runFaults(); runRejoin() }()
	}
	wg.Wait()
	raceReports()

	// per-monitor floors: every enabled monitor must have observed its share
	if r.ReplayCase() == "" && r.Violations() == 0 {
		type fl struct {
			m, counter string
			q, t       int
		}
		for _, f := range []fl{
			{"a", "a_values_nontrivial", 300, 3000},
			{"b", "b_cases_nontrivial", 150, 1500},
			{"c", "c_bodies_generated", 300, 2500},
			// since the execute endpoint validates type and extension only the
			// well-formed share of the bodies passes validation
			{"c", "c_bodies_accepted_by_validation", 25, 200},
			{"d", "d_histories_completed", 2, 20},
			{"d", "d_histories_nontrivial", 1, 12},
		} {
			if enabled(f.m) && r.Counter(f.counter) < int64(r.Pick(f.q, f.t)) {
				harnessFatal("monitor (%s) observed %d %s, floor is %d; no verdict", f.m, r.Counter(f.counter), f.counter, r.Pick(f.q, f.t))
			}
		}
	}
	r.Floor = 0
	r.Finish()
}

// ------------------------------------------------------------ race reports

var (
	reApplyCmd  = regexp.MustCompile(`^\(\*storeFSM\)\.apply\w+Command$`)
	reRaceFrame = regexp.MustCompile(`^  (github\.com/influxdata/influxdb/services/meta\..*)\(\)$`)
)

// raceReports surfaces the data races the detector saw (in this process, in
// the workers of (c)) whose stacks run through services/meta. The signature
// is built from the innermost services/meta function of the two accesses.
func raceReports() {
	lp := ""
	for _, f := range strings.Fields(os.Getenv("GORACE")) {
		if strings.HasPrefix(f, "log_path=") {
			lp = strings.TrimPrefix(f, "log_path=")
		}
	}
	if lp == "" {
		return
	}
	files, _ := filepath.Glob(lp + ".*")
	total := 0
	type cls struct {
		n     int
		first string
	}
	classes := map[string]*cls{}
	for _, f := range files {
		fh, err := os.Open(f)
		if err != nil {
			continue
		}
		sc := bufio.NewScanner(fh)
		sc.Buffer(make([]byte, 1<<20), 1<<24)
		var cur []string
		flush := func() {
			if len(cur) == 0 {
				return
			}
			defer func() { cur = nil }()
			if !strings.HasPrefix(cur[0], "WARNING: DATA RACE") {
				return
			}
			total++
			txt := strings.Join(cur, "\n")
			if !strings.Contains(txt, "influxdb/services/meta.") {
				return
			}
			// the two access stacks are the first two blocks; each is named by
			// its innermost services/meta function, or "snapshot-persist" when
			// it runs under storeFSMSnapshot.Persist
			var acc []string
			inStack, got := false, false
			for _, l := range cur[1:] {
				switch {
				case strings.HasPrefix(l, "Read at ") || strings.HasPrefix(l, "Write at ") || strings.HasPrefix(l, "Previous read at ") || strings.HasPrefix(l, "Previous write at ") ||
					strings.HasPrefix(l, "Atomic") || strings.HasPrefix(l, "Previous atomic"):
					inStack, got = true, false
				case strings.HasPrefix(l, "Goroutine ") || l == "":
					inStack = false
				case inStack:
					if m := reRaceFrame.FindStringSubmatch(l); m != nil {
						fn := strings.TrimPrefix(m[1], "github.com/influxdata/influxdb/services/meta.")
						if !got {
							acc = append(acc, fn)
							got = true
						}
						// coarser names for the two sides of the raft FSM: the
						// command handler the access happened under (whatever
						// helper or library frame is innermost), and the
						// snapshot writer
						if fn == "(*storeFSMSnapshot).Persist" {
							acc[len(acc)-1] = "snapshot-persist"
						} else if reApplyCmd.MatchString(fn) && acc[len(acc)-1] != "snapshot-persist" {
							acc[len(acc)-1] = fn
						}
					}
				}
			}
			if len(acc) == 0 {
				return // services/meta only appears in goroutine creation stacks
			}
			sort.Strings(acc)
			key := strings.Join(acc, "-vs-")
			c := classes[key]
			if c == nil {
				c = &cls{first: txt}
				classes[key] = c
			}
			c.n++
		}
		for sc.Scan() {
			l := sc.Text()
			if strings.HasPrefix(l, "WARNING: DATA RACE") {
				flush()
			}
			if strings.HasPrefix(l, "==================") {
				continue
			}
			cur = append(cur, l)
		}
		flush()
		fh.Close()
	}
	r.Count("race_reports_total", int64(total))
	keys := make([]string, 0, len(classes))
	for k := range classes {
		keys = append(keys, k)
	}
	sort.Strings(keys)
	for _, k := range keys {
		c := classes[k]
		r.Count("race_reports_in_services_meta", int64(c.n))
		first := c.first
		if len(first) > 4000 {
			first = first[:4000]
		}
		r.Violation("C07/data-race-in-meta/"+k, "race-detector",
			fmt.Sprintf("the race detector reported %d data race(s) between %s", c.n, strings.Replace(k, "-vs-", " and ", 1)),
			map[string]interface{}{"first_report": first, "reports": c.n})
	}
}
