// pbdata.go — encodes a meta.Data value (exported fields only) as the `Data`
// protobuf message of meta.proto, for SetDataCommand payloads. It mirrors
// Data.marshal of the repository; mkDeletedAt lets the caller rewrite the
// wall-clock DeletedAt stamps (e.g. backdate them so that PruneShardGroups
// has something to prune).
package main

import (
	"sort"
	"time"

	"github.com/influxdata/influxdb/services/meta"
)

func pbTime(t time.Time) int64 {
	if t.IsZero() {
		return 0
	}
	return t.UnixNano()
}

func pbNode(n meta.NodeInfo) *PB {
	var p PB
	p.Uint64(1, n.ID).String(2, n.Addr).String(3, n.TCPAddr)
	return &p
}

// EncodeData encodes d. deletedAt, when non-nil, maps the DeletedAt of every
// deleted group (never called for live groups) to the value to store.
func EncodeData(d *meta.Data, deletedAt func(groupID uint64, at time.Time) time.Time) []byte {
	var p PB
	p.Uint64(1, d.Term).Uint64(2, d.Index).Uint64(3, d.ClusterID)
	for i := range d.Databases {
		di := &d.Databases[i]
		var pd PB
		pd.String(1, di.Name).String(2, di.DefaultRetentionPolicy)
		for j := range di.RetentionPolicies {
			rp := &di.RetentionPolicies[j]
			var pr PB
			pr.String(1, rp.Name).Int64(2, int64(rp.Duration)).Int64(3, int64(rp.ShardGroupDuration)).Uint64(4, uint64(uint32(rp.ReplicaN)))
			for k := range rp.ShardGroups {
				sg := &rp.ShardGroups[k]
				var pg PB
				del := sg.DeletedAt
				if !del.IsZero() && deletedAt != nil {
					del = deletedAt(sg.ID, del)
				}
				pg.Uint64(1, sg.ID).Int64(2, pbTime(sg.StartTime)).Int64(3, pbTime(sg.EndTime)).Int64(4, pbTime(del))
				for _, sh := range sg.Shards {
					var ps PB
					ps.Uint64(1, sh.ID)
					for _, o := range sh.Owners {
						var po PB
						po.Uint64(1, o.NodeID)
						ps.Msg(3, &po)
					}
					pg.Msg(5, &ps)
				}
				if !sg.TruncatedAt.IsZero() {
					pg.Int64(6, pbTime(sg.TruncatedAt))
				}
				pr.Msg(5, &pg)
			}
			for _, s := range rp.Subscriptions {
				var ps PB
				ps.String(1, s.Name).String(2, s.Mode)
				for _, dst := range s.Destinations {
					ps.String(3, dst)
				}
				pr.Msg(6, &ps)
			}
			pd.Msg(3, &pr)
		}
		for _, cq := range di.ContinuousQueries {
			var pc PB
			pc.String(1, cq.Name).String(2, cq.Query)
			pd.Msg(4, &pc)
		}
		p.Msg(5, &pd)
	}
	for i := range d.Users {
		u := &d.Users[i]
		var pu PB
		pu.String(1, u.Name).String(2, u.Hash).Bool(3, u.Admin)
		dbs := make([]string, 0, len(u.Privileges))
		for db := range u.Privileges {
			dbs = append(dbs, db)
		}
		sort.Strings(dbs)
		for _, db := range dbs {
			var pp PB
			pp.String(1, db).Int64(2, int64(int32(u.Privileges[db])))
			pu.Msg(4, &pp)
		}
		p.Msg(6, &pu)
	}
	p.Uint64(7, d.MaxNodeID).Uint64(8, d.MaxShardGroupID).Uint64(9, d.MaxShardID)
	for _, n := range d.DataNodes {
		p.Msg(10, pbNode(n))
	}
	for _, n := range d.MetaNodes {
		p.Msg(11, pbNode(n))
	}
	return p.B
}
