// pit.go — monitor (b): a snapshot is a point-in-time image.
//
// State X is reached by a seeded log prefix; Snapshot() is taken through the
// FSM handle (it captures whatever the state machine hands to raft); then
// "later" commands are applied — node-list commands, commands that the state
// machine rejects, and ordinary ones —
//
//	mode "before":     all later commands first, then Persist. After EVERY
//	                   later command the object the snapshot holds is rendered
//	                   again: the first command after which it differs is the
//	                   one that reached into the snapshot (attribution).
//	mode "concurrent": a goroutine applies the later commands while this one
//	                   persists (as hashicorp/raft does: Snapshot() on the FSM
//	                   goroutine, Persist() on the snapshot goroutine, Apply
//	                   continues). The race detector watches.
//
// In both modes the persisted bytes are restored into a fresh state machine
// and must render exactly X (Term and Index included).
package main

import (
	"fmt"
	"math/rand"
	"runtime"
	"strings"
	"sync"

	"github.com/influxdata/influxdb/services/meta"
)

type pitCmd struct {
	c        *Cmd
	rejected bool
	nodeList bool
}

func isNodeListType(t int) bool {
	switch t {
	case TypeCreateDataNode, TypeUpdateDataNode, TypeDeleteDataNode, TypeCreateMetaNode, TypeDeleteMetaNode, TypeSetMetaNode:
		return true
	}
	return false
}

// laterCmd generates one command to apply after the snapshot.
func laterCmd(g *rand.Rand, x *gen, d *meta.Data) *Cmd {
	existingData := func() uint64 {
		if len(d.DataNodes) > 0 {
			return d.DataNodes[g.Intn(len(d.DataNodes))].ID
		}
		return 1
	}
	switch k := g.Intn(20); {
	case k < 4: // in-place address update of an existing data node
		id := existingData()
		h, t := httpPool[g.Intn(len(httpPool))], fmt.Sprintf("dx%d:8088", g.Intn(50))
		return mk(TypeUpdateDataNode, CmdUpdateDataNode(id, h, t), fmt.Sprintf("UpdateDataNode(%d,%s,%s)", id, h, t))
	case k < 6:
		h, t, rn := httpPool[g.Intn(len(httpPool))], x.metaTCP(), uint64(g.Intn(3))
		return mk(TypeSetMetaNode, CmdSetMetaNode(h, t, rn), fmt.Sprintf("SetMetaNode(%s,%s,rand=%d)", h, t, rn))
	case k < 8:
		h, t := httpPool[g.Intn(len(httpPool))], x.dataTCP()
		if g.Intn(2) == 0 {
			t = fmt.Sprintf("dn%d:8088", g.Intn(50))
		}
		return mk(TypeCreateDataNode, CmdCreateDataNode(h, t), fmt.Sprintf("CreateDataNode(%s,%s)", h, t))
	case k < 9:
		id := existingData()
		if g.Intn(3) == 0 {
			id = d.MaxNodeID + 7
		}
		c := mk(TypeDeleteDataNode, CmdDeleteDataNode(id), fmt.Sprintf("DeleteDataNode(%d)", id))
		c.nodeID = id
		return c
	case k < 10:
		h, t, rn := fmt.Sprintf("hm%d:8091", g.Intn(50)), x.metaTCP(), uint64(g.Intn(3))
		return mk(TypeCreateMetaNode, CmdCreateMetaNode(h, t, rn), fmt.Sprintf("CreateMetaNode(%s,%s,rand=%d)", h, t, rn))
	case k < 11:
		id := d.MaxNodeID + 3
		if len(d.MetaNodes) > 0 && g.Intn(3) != 0 {
			id = d.MetaNodes[g.Intn(len(d.MetaNodes))].ID
		}
		return mk(TypeDeleteMetaNode, CmdDeleteMetaNode(id), fmt.Sprintf("DeleteMetaNode(%d)", id))
	case k < 15: // commands the state machine rejects
		switch g.Intn(6) {
		case 0:
			id := d.MaxNodeID + 11
			return mk(TypeUpdateDataNode, CmdUpdateDataNode(id, "hz:1", "dz:1"), fmt.Sprintf("UpdateDataNode(%d,hz:1,dz:1)", id))
		case 1:
			return mk(TypeDropUser, CmdDropUser("nosuchuser"), `DropUser("nosuchuser")`)
		case 2:
			rp := RPInfo{Name: "rpx", Duration: 0, ShardGroupDuration: 0, ReplicaN: 1}
			return mk(TypeCreateRetentionPolicy, CmdCreateRetentionPolicy("nosuchdb", rp, false), `CreateRetentionPolicy("nosuchdb",rpx)`)
		case 3:
			return mk(TypeDeleteShardGroup, CmdDeleteShardGroup("nosuchdb", "rp0", 1), `DeleteShardGroup("nosuchdb","rp0",1)`)
		case 4:
			return mk(TypeSetPrivilege, CmdSetPrivilege("nosuchuser", "db0", 1), `SetPrivilege("nosuchuser","db0",1)`)
		default:
			return mk(TypeCreateShardGroup, CmdCreateShardGroup("nosuchdb", "rp0", t0), `CreateShardGroup("nosuchdb","rp0",t0)`)
		}
	}
	for {
		c := x.next(d)
		if c.Type != TypeSetData { // replaces the whole object: says nothing about sharing
			return c
		}
	}
}

type pitWitness struct {
	Seed   int64    `json:"case_seed"`
	Auto   bool     `json:"retention_autocreate"`
	Mode   string   `json:"mode"`
	Prefix []string `json:"prefix"`
	PHex   []string `json:"prefix_hex"`
	Later  []string `json:"later"`
	LHex   []string `json:"later_hex"`
	Culprt string   `json:"culprit,omitempty"`
}

func pitCase(caseID string, seed int64) {
	g := rand.New(rand.NewSource(seed))
	p := newProfile(g)
	x := &gen{g: rand.New(rand.NewSource(g.Int63())), p: p}
	f := newFSM(p.AutoCreate)
	index, term := uint64(1), uint64(1+g.Intn(3))
	w := &pitWitness{Seed: seed, Auto: p.AutoCreate}
	apply := func(c *Cmd) (error, bool) {
		index += 1 + uint64(g.Intn(8)/7)
		if g.Intn(30) == 0 {
			term++
		}
		err, pn := applyOne(f, index, term, c.bytes)
		if pn != nil {
			r.Violation("C07/fsm-panicked/"+c.TypeName(), caseID, fmt.Sprintf("FSM.Apply panicked on a well-formed %s: %v", c.Desc, pn), w)
			return nil, false
		}
		return err, true
	}
	// ---- prefix: node lists of every shape, then a random stretch
	var prefix []*Cmd
	directed := g.Intn(8)
	switch directed {
	case 0:
		// a meta node with a low id whose TCP address a later CreateDataNode
		// re-uses: the new data node sorts in FRONT of the existing ones, in a
		// list that has spare capacity after a removal
		prefix = append(prefix, mk(TypeCreateMetaNode, CmdCreateMetaNode("hq:8091", "shared:8088", 5), "CreateMetaNode(hq:8091,shared:8088)"))
		for i := 0; i < 4; i++ {
			prefix = append(prefix, mk(TypeCreateDataNode, CmdCreateDataNode(fmt.Sprintf("hp%d:8086", i), fmt.Sprintf("dp%d:8088", i)), fmt.Sprintf("CreateDataNode(hp%d:8086,dp%d:8088)", i, i)))
		}
		prefix = append(prefix, mk(TypeDeleteDataNode, CmdDeleteDataNode(2), "DeleteDataNode(2)"))
	case 1:
		// the mirror image for the meta-node list
		prefix = append(prefix, mk(TypeCreateDataNode, CmdCreateDataNode("hq:8086", "shared:8088"), "CreateDataNode(hq:8086,shared:8088)"))
		for i := 0; i < 3; i++ {
			prefix = append(prefix, mk(TypeCreateMetaNode, CmdCreateMetaNode(fmt.Sprintf("hq%d:8091", i), fmt.Sprintf("mq%d:8089", i), 5), fmt.Sprintf("CreateMetaNode(hq%d:8091,mq%d:8089)", i, i)))
		}
	}
	for i, n := 0, 1+g.Intn(4); i < n; i++ {
		prefix = append(prefix, mk(TypeCreateDataNode, CmdCreateDataNode(fmt.Sprintf("h%d:8086", i), fmt.Sprintf("d%d:8088", i)), fmt.Sprintf("CreateDataNode(h%d:8086,d%d:8088)", i, i)))
	}
	for i, n := 0, g.Intn(3); i < n; i++ {
		prefix = append(prefix, mk(TypeCreateMetaNode, CmdCreateMetaNode(fmt.Sprintf("h%d:8091", i), fmt.Sprintf("m%d:8089", i), 5), fmt.Sprintf("CreateMetaNode(h%d:8091,m%d:8089)", i, i)))
	}
	if g.Intn(3) == 0 { // leaves spare capacity behind the data-node list
		prefix = append(prefix, mk(TypeDeleteDataNode, CmdDeleteDataNode(1), "DeleteDataNode(1)"))
	}
	prefix = append(prefix, mk(TypeCreateDatabase, CmdCreateDatabase("db0", &RPInfo{"rp0", 0, int64(3600e9), 1}), `CreateDatabase("db0",rp0)`),
		mk(TypeCreateUser, CmdCreateUser("u0", "hash0", true), `CreateUser("u0")`),
		mk(TypeCreateShardGroup, CmdCreateShardGroup("db0", "rp0", t0), `CreateShardGroup("db0","rp0",t0)`))
	if directed == 2 {
		// two subscriptions on one policy: dropping the first one later shifts
		// the second one down inside the list's backing array
		prefix = append(prefix,
			mk(TypeCreateSubscription, CmdCreateSubscription("sa", "db0", "rp0", "ANY", []string{"udp://h1:9000"}), `CreateSubscription(sa,"db0","rp0")`),
			mk(TypeCreateSubscription, CmdCreateSubscription("sb", "db0", "rp0", "ALL", []string{"udp://h2:9000"}), `CreateSubscription(sb,"db0","rp0")`))
	}
	for _, c := range prefix {
		w.Prefix, w.PHex = append(w.Prefix, c.Desc), append(w.PHex, c.Hex)
		if _, ok := apply(c); !ok {
			return
		}
	}
	nRandom := g.Intn(40)
	if directed <= 2 {
		nRandom = 0 // keep the list capacities the directed prefix arranged
	}
	for i := 0; i < nRandom; i++ {
		c := x.next(f.Data())
		w.Prefix, w.PHex = append(w.Prefix, c.Desc), append(w.PHex, c.Hex)
		if _, ok := apply(c); !ok {
			return
		}
	}

	// ---- the snapshot(s) at state X
	concurrent := g.Intn(2) == 0
	w.Mode = "before"
	nSnap := 1
	if concurrent {
		w.Mode = "concurrent"
		nSnap = 3
	}
	held := f.Data() // the object the state machine publishes now
	X := canon(held, canonExact, nil)
	snaps := make([]*meta.VerifSnapshot, nSnap)
	for i := range snaps {
		s, err := f.Snapshot()
		if err != nil {
			harnessFatal("Snapshot: %v", err)
		}
		snaps[i] = s
	}

	nLater := 4 + g.Intn(13)
	var later []pitCmd
	var typeSeq []string
	runLater := func(afterEach func(pc pitCmd) bool) bool {
		for i := 0; i < nLater; i++ {
			c := laterCmd(g, x, f.Data())
			if i == 1 && directed == 0 {
				c = mk(TypeCreateDataNode, CmdCreateDataNode("hr:8086", "shared:8088"), "CreateDataNode(hr:8086,shared:8088)")
			}
			if i == 1 && directed == 2 {
				c = mk(TypeDropSubscription, CmdDropSubscription("sa", "db0", "rp0"), `DropSubscription(sa,"db0","rp0")`)
			}
			if i == 1 && directed == 1 {
				c = mk(TypeCreateMetaNode, CmdCreateMetaNode("hr:8091", "shared:8088", 5), "CreateMetaNode(hr:8091,shared:8088)")
			}
			err, ok := apply(c)
			if !ok {
				return false
			}
			pc := pitCmd{c: c, rejected: err != nil, nodeList: isNodeListType(c.Type)}
			later = append(later, pc)
			if afterEach != nil && !afterEach(pc) {
				return false
			}
		}
		return true
	}
	persisted := make([][]byte, nSnap)
	// mutations of the object that was published when the snapshot was taken,
	// by the later command that made them. They are only evidence: whether the
	// SNAPSHOT was affected is decided by what it restores to.
	type mutation struct {
		sec, what, desc, la, lb string
		rejected                bool
		nLater                  int
	}
	var muts []mutation
	if !concurrent {
		prev := X
		ok := runLater(func(pc pitCmd) bool {
			cur := canon(held, canonExact, nil)
			if cur != prev {
				sec, la, lb := diffSection(prev, cur)
				what := pc.c.TypeName()
				if sec == "term-index" {
					// the command published no new object (rejected, or a legacy
					// no-op) and Apply stamped Term/Index on the old one
					what = "command-without-new-object"
				}
				muts = append(muts, mutation{sec, what, pc.c.Desc, la, lb, pc.rejected, len(later)})
				r.Count("b_published_object_changed_in_place_after_snapshot", 1)
				prev = cur
			}
			return true
		})
		if !ok {
			return
		}
		b, err := snaps[0].Persist()
		if err != nil {
			harnessFatal("Persist: %v", err)
		}
		persisted[0] = append([]byte(nil), b...)
	} else {
		var wg sync.WaitGroup
		start := make(chan struct{})
		okLater := true
		wg.Add(1)
		go func() {
			defer wg.Done()
			<-start
			okLater = runLater(nil)
		}()
		close(start)
		for i, s := range snaps {
			b, err := s.Persist()
			if err != nil {
				harnessFatal("Persist: %v", err)
			}
			persisted[i] = append([]byte(nil), b...)
			runtime.Gosched()
		}
		wg.Wait()
		if !okLater {
			return
		}
		r.Count("b_concurrent_persists", int64(nSnap))
	}
	w.Later, w.LHex = nil, nil
	nl, rej := false, false
	for _, l := range later {
		w.Later, w.LHex = append(w.Later, l.c.Desc), append(w.LHex, l.c.Hex)
		typeSeq = append(typeSeq, fmt.Sprintf("%d%v", l.c.Type, l.rejected))
		nl = nl || l.nodeList
		rej = rej || l.rejected
		if l.nodeList {
			r.Count("b_later_node_list_commands", 1)
		}
		if l.rejected {
			r.Count("b_later_rejected_commands", 1)
		}
	}

	// ---- restore and compare with X
	bad := false
	for _, b := range persisted {
		h := newFSM(p.AutoCreate)
		if err := h.Restore(b); err != nil {
			r.Violation("C07/snapshot-fidelity/restore-failed", caseID, fmt.Sprintf("snapshot does not restore: %v", err), *w)
			return
		}
		r.Count("b_snapshots_restored", 1)
		Y := canon(h.Data(), canonExact, nil)
		if Y == X {
			continue
		}
		bad = true
		// every section in which the restored value differs from X
		secs := map[string][2]string{}
		inY := map[string]bool{}
		for _, l := range strings.Split(Y, "\n") {
			inY[l] = true
		}
		inX := map[string]bool{}
		for _, l := range strings.Split(X, "\n") {
			inX[l] = true
			if !inY[l] {
				if _, ok := secs[sectionOf(l)]; !ok {
					secs[sectionOf(l)] = [2]string{l, ""}
				}
			}
		}
		for _, l := range strings.Split(Y, "\n") {
			if !inX[l] {
				v := secs[sectionOf(l)]
				if v[1] == "" {
					v[1] = l
					secs[sectionOf(l)] = v
				}
			}
		}
		for sec, ll := range secs {
			how := "concurrent-persist"
			what := fmt.Sprintf("snapshot taken at state X restored to a different state (%s, %d later commands): %q became %q", w.Mode, len(later), ll[0], ll[1])
			if !concurrent {
				how = "unattributed"
				for _, m := range muts {
					if m.sec == sec {
						how = m.what
						w.Culprt = m.desc
						what = fmt.Sprintf("a snapshot taken BEFORE %s was applied (rejected=%v) restores to a state that contains the command's effect: %q became %q", m.desc, m.rejected, m.la, m.lb)
						break
					}
				}
			}
			r.Violation("C07/snapshot-sees-later-change/"+sec+"/"+how, caseID, what, *w)
		}
		break
	}
	if caseID == "pit/0" {
		r.Sample(map[string]interface{}{"case": caseID, "monitor": "b", "mode": w.Mode, "prefix_entries": len(w.Prefix), "later": w.Later, "restored_equals_X": !bad})
	}
	r.Count("b_cases_"+w.Mode, 1)
	if bad {
		r.Count("b_cases_with_difference", 1)
	}
	if nl || rej {
		r.Count("b_cases_nontrivial", 1)
		r.Nontrivial("b/" + w.Mode + "/" + strings.Join(typeSeq, ","))
	}
}

func runPointInTime() {
	n := r.Pick(400, 4000)
	type job struct {
		id   string
		seed int64
	}
	jobs := make(chan job, 64)
	var wg sync.WaitGroup
	for w := 0; w < runtime.NumCPU()/2+1; w++ {
		wg.Add(1)
		go func() {
			defer wg.Done()
			for j := range jobs {
				r.Eval(1)
				pitCase(j.id, j.seed)
			}
		}()
	}
	rng := r.Rand("pit")
	for i := 0; i < n; i++ {
		id := fmt.Sprintf("pit/%d", i)
		seed := rng.Int63()
		if r.Skip(id) {
			continue
		}
		r.Begin(id, map[string]interface{}{"case_seed": seed})
		jobs <- job{id, seed}
	}
	close(jobs)
	wg.Wait()
}
