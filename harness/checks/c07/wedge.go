// wedge.go — monitor (c): no request the execute endpoint accepts can leave a
// meta node unable to apply its log.
//
// Bodies are posted to /execute of a real single-node meta service running in
// a worker process (worker.go). After every body: any HTTP status is fine, but
// the worker must still be alive and answer /ping. A worker that dies with a
// Go crash report whose faulting goroutine runs through services/meta is a
// violation; the body (hex, logged with r.Begin BEFORE it is posted) is the
// witness. The dead worker is then restarted on the same directory: the
// accepted entry is in its raft log now, and a node that dies again while
// replaying is wedged for good (counted, part of the witness). The run goes on
// with a fresh worker. Workers that survive are restarted at intervals and at
// the end and must come back with the same metadata.
package main

import (
	"encoding/hex"
	"fmt"
	"math/rand"
	"os"
	"path/filepath"
	"sort"
	"strings"
	"sync"
	"time"

	"github.com/influxdata/influxdb/services/meta"
)

// ----------------------------------------------------------- wire parsing

type pbField struct {
	num  int
	wire int
	v    uint64 // varint / fixed value
	b    []byte // length-delimited payload
	raw  []byte // the whole field as encoded
}

// parseFields splits a message into its fields; ok=false when it is not
// well-formed protobuf wire data.
func parseFields(b []byte) (out []pbField, ok bool) {
	for len(b) > 0 {
		start := b
		k, n := readVarint(b)
		if n == 0 || k>>3 == 0 || k>>3 > 1<<29-1 {
			return out, false
		}
		b = b[n:]
		f := pbField{num: int(k >> 3), wire: int(k & 7)}
		switch f.wire {
		case 0:
			v, n := readVarint(b)
			if n == 0 {
				return out, false
			}
			f.v = v
			b = b[n:]
		case 1:
			if len(b) < 8 {
				return out, false
			}
			b = b[8:]
		case 5:
			if len(b) < 4 {
				return out, false
			}
			b = b[4:]
		case 2:
			l, n := readVarint(b)
			if n == 0 || uint64(len(b)-n) < l {
				return out, false
			}
			f.b = b[n : n+int(l)]
			b = b[n+int(l):]
		default:
			return out, false
		}
		f.raw = start[:len(start)-len(b)]
		out = append(out, f)
	}
	return out, true
}

// ----------------------------------------------------------- schemas

type fspec struct {
	num  int
	wire int
	req  bool
	msg  string
}

// required / nested fields of the messages of meta.proto (optional scalar
// fields only matter for their wire type).
var schemas = map[string][]fspec{
	"RetentionPolicyInfo": {{1, 2, true, ""}, {2, 0, true, ""}, {3, 0, true, ""}, {4, 0, true, ""}, {5, 2, false, "ShardGroupInfo"}, {6, 2, false, "SubscriptionInfo"}},
	"ShardGroupInfo":      {{1, 0, true, ""}, {2, 0, true, ""}, {3, 0, true, ""}, {4, 0, true, ""}, {5, 2, false, "ShardInfo"}, {6, 0, false, ""}},
	"ShardInfo":           {{1, 0, true, ""}, {3, 2, false, "ShardOwner"}},
	"ShardOwner":          {{1, 0, true, ""}},
	"SubscriptionInfo":    {{1, 2, true, ""}, {2, 2, true, ""}, {3, 2, false, ""}},
	"ContinuousQueryInfo": {{1, 2, true, ""}, {2, 2, true, ""}},
	"UserInfo":            {{1, 2, true, ""}, {2, 2, true, ""}, {3, 0, true, ""}, {4, 2, false, "UserPrivilege"}},
	"UserPrivilege":       {{1, 2, true, ""}, {2, 0, true, ""}},
	"NodeInfo":            {{1, 0, true, ""}, {2, 2, false, ""}, {3, 2, false, ""}},
	"DatabaseInfo":        {{1, 2, true, ""}, {2, 2, true, ""}, {3, 2, false, "RetentionPolicyInfo"}, {4, 2, false, "ContinuousQueryInfo"}},
	"Data": {{1, 0, true, ""}, {2, 0, true, ""}, {3, 0, true, ""}, {4, 2, false, "NodeInfo"}, {5, 2, false, "DatabaseInfo"}, {6, 2, false, "UserInfo"},
		{7, 0, true, ""}, {8, 0, true, ""}, {9, 0, true, ""}, {10, 2, false, "NodeInfo"}, {11, 2, false, "NodeInfo"}},
	"cmd1":  {{1, 2, true, ""}, {2, 0, true, ""}},
	"cmd2":  {{1, 0, true, ""}, {2, 0, true, ""}},
	"cmd3":  {{1, 2, true, ""}, {2, 2, false, "RetentionPolicyInfo"}},
	"cmd4":  {{1, 2, true, ""}},
	"cmd5":  {{1, 2, true, ""}, {2, 2, true, "RetentionPolicyInfo"}, {3, 0, false, ""}},
	"cmd6":  {{1, 2, true, ""}, {2, 2, true, ""}},
	"cmd7":  {{1, 2, true, ""}, {2, 2, true, ""}},
	"cmd8":  {{1, 2, true, ""}, {2, 2, true, ""}, {3, 2, false, ""}, {4, 0, false, ""}, {5, 0, false, ""}, {6, 0, false, ""}, {7, 0, false, ""}},
	"cmd9":  {{1, 2, true, ""}, {2, 2, true, ""}, {3, 0, true, ""}},
	"cmd10": {{1, 2, true, ""}, {2, 2, true, ""}, {3, 0, true, ""}},
	"cmd11": {{1, 2, true, ""}, {2, 2, true, ""}, {3, 2, true, ""}},
	"cmd12": {{1, 2, true, ""}, {2, 2, true, ""}},
	"cmd13": {{1, 2, true, ""}, {2, 2, true, ""}, {3, 0, true, ""}},
	"cmd14": {{1, 2, true, ""}},
	"cmd15": {{1, 2, true, ""}, {2, 2, true, ""}},
	"cmd16": {{1, 2, true, ""}, {2, 2, true, ""}, {3, 0, true, ""}},
	"cmd17": {{1, 2, true, "Data"}},
	"cmd18": {{1, 2, true, ""}, {2, 0, true, ""}},
	"cmd19": {{1, 0, true, ""}, {2, 2, true, ""}},
	"cmd21": {{1, 2, true, ""}, {2, 2, true, ""}, {3, 2, true, ""}, {4, 2, true, ""}, {5, 2, false, ""}},
	"cmd22": {{1, 2, true, ""}, {2, 2, true, ""}, {3, 2, true, ""}},
	"cmd23": {{1, 0, false, ""}, {2, 2, true, ""}},
	"cmd24": {{1, 2, true, ""}, {2, 2, true, ""}, {3, 0, true, ""}},
	"cmd25": {{1, 2, true, ""}, {2, 2, true, ""}},
	"cmd26": {{1, 0, true, ""}, {2, 2, true, ""}, {3, 2, true, ""}},
	"cmd27": {{1, 0, true, ""}},
	"cmd28": {{1, 0, true, ""}},
	"cmd29": {{1, 2, true, ""}, {2, 2, true, ""}, {3, 0, true, ""}},
	"cmd30": {{1, 0, true, ""}},
	"cmd31": {{1, 0, true, ""}},
	"cmd32": {},
	"cmd33": {{1, 0, true, ""}, {2, 0, true, ""}},
	"cmd34": {{1, 0, true, ""}, {2, 0, true, ""}},
}

// decodes reports whether b is a complete, well-typed message of the schema.
func decodes(msg string, b []byte) bool {
	fs, ok := parseFields(b)
	if !ok {
		return false
	}
	spec := schemas[msg]
	seen := map[int]bool{}
	for _, f := range fs {
		for _, s := range spec {
			if s.num != f.num {
				continue
			}
			if s.wire != f.wire {
				return false
			}
			seen[f.num] = true
			if s.msg != "" && !decodes(s.msg, f.b) {
				return false
			}
		}
	}
	for _, s := range spec {
		if s.req && !seen[s.num] {
			return false
		}
	}
	return true
}

// handledType: the command types storeFSM.Apply has a case for.
func handledType(t int64) bool {
	_, ok := TypeName[int(t)]
	return ok && t != TypeSetDefaultRetentionPolicy
}

// classify names the structural class of a body (the cause class used in
// signatures) and whether the endpoint's validation is expected to accept it.
func classify(body []byte) (class string, unmarshals bool) {
	fs, ok := parseFields(body)
	if !ok {
		return "not-protobuf", false
	}
	typ, hasType := int64(0), false
	exts := map[int][]byte{}
	badExt := map[int]bool{}
	for _, f := range fs {
		// a known field with another wire type is skipped as unknown by the decoder
		if f.num == 1 && f.wire == 0 {
			typ, hasType = int64(int32(f.v)), true
		}
		if f.num >= 100 {
			if f.wire == 2 {
				// a repeated occurrence of a message field is merged: the
				// decoder sees the concatenation of the payloads
				exts[f.num] = append(append([]byte(nil), exts[f.num]...), f.b...)
			} else {
				badExt[f.num] = true
			}
		}
	}
	if !hasType {
		return "no-type", false
	}
	if !handledType(typ) {
		return "unknown-command-type", true
	}
	sub, has := exts[ExtField(int(typ))]
	if badExt[ExtField(int(typ))] {
		// an occurrence of the extension with another wire type is kept in the
		// raw extension bytes and makes the lazy decode fail
		return "undecodable-extension", true
	}
	if !has {
		for n := range exts {
			if _, known := TypeName[n-100]; known {
				return "wrong-extension", true
			}
		}
		return "missing-extension", true
	}
	if !decodes(fmt.Sprintf("cmd%d", typ), sub) {
		return "undecodable-extension", true
	}
	return "wellformed-command/" + TypeName[int(typ)], true
}

// ----------------------------------------------------------- bodies

type execCase struct {
	ID    string `json:"case"`
	Kind  string `json:"kind"`
	Type  int    `json:"command_type,omitempty"`
	Hex   string `json:"body_hex"`
	Class string `json:"class"`
	body  []byte
	// dyn builds the body at run time from the worker's state (SetData).
	dyn func(w *worker) []byte
}

const wedgeQuery = `CREATE CONTINUOUS QUERY cq1 ON db0 BEGIN SELECT mean(v) INTO m1 FROM m GROUP BY time(1m) END`

// wellFormed returns a well-formed command of every type, aimed at the state
// the set-up commands create.
func wellFormed(typ int, i int) []byte {
	h48, h2 := int64(48*time.Hour), int64(2*time.Hour)
	rf := uint32(1)
	nn := "rp1b"
	switch typ {
	case TypeCreateNode:
		return CmdCreateNode("hlegacy:8088", 7)
	case TypeDeleteNode:
		return CmdDeleteNode(1, false)
	case TypeCreateDatabase:
		if i%2 == 0 {
			return CmdCreateDatabase("db1", nil)
		}
		return CmdCreateDatabase("db2", &RPInfo{"rpz", int64(24 * time.Hour), int64(time.Hour), 1})
	case TypeDropDatabase:
		return CmdDropDatabase("db1")
	case TypeCreateRetentionPolicy:
		return CmdCreateRetentionPolicy("db0", RPInfo{"rp2", 0, int64(time.Hour), 1}, i%2 == 0)
	case TypeDropRetentionPolicy:
		return CmdDropRetentionPolicy("db0", "rp2")
	case TypeSetDefaultRetentionPolicy:
		return CmdSetDefaultRetentionPolicy("db0", "rp0")
	case TypeUpdateRetentionPolicy:
		if i%2 == 0 {
			return CmdUpdateRetentionPolicy("db0", "rp1", nil, &h48, &rf, &h2, false)
		}
		return CmdUpdateRetentionPolicy("db0", "rp1", &nn, nil, nil, nil, true)
	case TypeCreateShardGroup:
		return CmdCreateShardGroup("db0", "rp0", t0+int64(i)*int64(time.Hour))
	case TypeDeleteShardGroup:
		return CmdDeleteShardGroup("db0", "rp0", 1)
	case TypeCreateContinuousQuery:
		return CmdCreateContinuousQuery("db0", "cq1", wedgeQuery)
	case TypeDropContinuousQuery:
		return CmdDropContinuousQuery("db0", "cq1")
	case TypeCreateUser:
		return CmdCreateUser("u2", "hash2", i%2 == 0)
	case TypeDropUser:
		return CmdDropUser("u2")
	case TypeUpdateUser:
		return CmdUpdateUser("u0", "hashx")
	case TypeSetPrivilege:
		return CmdSetPrivilege("u1", "db0", int32(1+i%3))
	case TypeSetAdminPrivilege:
		return CmdSetAdminPrivilege("u1", i%2 == 0)
	case TypeUpdateNode:
		return CmdUpdateNode(1, "hx")
	case TypeCreateSubscription:
		return CmdCreateSubscription("s1", "db0", "rp0", "ALL", []string{"udp://h1:9000", "http://h2:8086"})
	case TypeDropSubscription:
		return CmdDropSubscription("s1", "db0", "rp0")
	case TypeRemovePeer:
		return CmdRemovePeer(0, "127.0.0.1:1")
	case TypeCreateMetaNode:
		return CmdCreateMetaNode("h9:8091", "m9:8089", 7)
	case TypeCreateDataNode:
		return CmdCreateDataNode(fmt.Sprintf("h%d:8086", 3+i), fmt.Sprintf("d%d:8088", 3+i))
	case TypeUpdateDataNode:
		return CmdUpdateDataNode(2, "h1b:8086", "d1b:8088")
	case TypeDeleteMetaNode:
		return CmdDeleteMetaNode(99)
	case TypeDeleteDataNode:
		return CmdDeleteDataNode(3)
	case TypeSetMetaNode:
		return CmdSetMetaNode("127.0.0.1:1", "127.0.0.1:2", 7)
	case TypeDropShard:
		return CmdDropShard(1)
	case TypeTruncateShardGroups:
		return CmdTruncateShardGroups(t0 + int64(30*time.Minute))
	case TypePruneShardGroups:
		return CmdPruneShardGroups()
	case TypeCopyShardOwner:
		return CmdCopyShardOwner(1, 3)
	case TypeRemoveShardOwner:
		return CmdRemoveShardOwner(1, 3)
	case TypeSetData:
		// placeholder payload (an empty cluster); the real case uses dyn
		return CmdSetData(EncodeData(&meta.Data{Index: 1}, nil))
	}
	return nil
}

func allTypes() []int {
	ts := make([]int, 0, len(TypeName))
	for t := range TypeName {
		ts = append(ts, t)
	}
	sort.Ints(ts)
	return ts
}

// splitCommand returns the type prefix ("08 <type>") and the extension field
// (key, length, payload) of a well-formed command built by WrapCommand.
func splitCommand(b []byte) (typePart, extKey []byte, sub []byte) {
	_, n := readVarint(b[1:])
	typePart = b[:1+n]
	rest := b[1+n:]
	_, kn := readVarint(rest)
	extKey = rest[:kn]
	_, ln := readVarint(rest[kn:])
	sub = rest[kn+ln:]
	return
}

func reframe(typePart, extKey, sub []byte) []byte {
	var p PB
	p.B = append(p.B, typePart...)
	p.B = append(p.B, extKey...)
	p.rawVarint(uint64(len(sub)))
	p.B = append(p.B, sub...)
	return p.B
}

func randomBody(g *rand.Rand, types []int) ([]byte, string) {
	switch g.Intn(6) {
	case 0: // raw bytes
		b := make([]byte, g.Intn(24))
		g.Read(b)
		return b, "random-bytes"
	case 1: // a well-formed command with a few flipped bytes
		t := types[g.Intn(len(types))]
		b := append([]byte(nil), wellFormed(t, g.Intn(4))...)
		for i, n := 0, 1+g.Intn(3); i < n && len(b) > 0; i++ {
			b[g.Intn(len(b))] ^= byte(1 << uint(g.Intn(8)))
		}
		return b, "random-bitflips"
	}
	// random field list around a type field
	var p PB
	t := types[g.Intn(len(types))]
	tv := uint64(t)
	if g.Intn(8) == 0 {
		tv = uint64(g.Intn(300))
	}
	if g.Intn(8) != 0 {
		p.Uint64(1, tv)
	}
	for i, n := 0, g.Intn(4); i < n; i++ {
		num := 100 + types[g.Intn(len(types))]
		switch g.Intn(5) {
		case 0:
			num = ExtField(t)
		case 1:
			num = 2 + g.Intn(2000)
		}
		switch g.Intn(5) {
		case 0:
			p.Uint64(num, uint64(g.Int63()))
		case 1:
			p.key(num, 1)
			p.B = append(p.B, 1, 2, 3, 4, 5, 6, 7, 8)
		case 2:
			p.key(num, 5)
			p.B = append(p.B, 1, 2, 3, 4)
		case 3: // the payload of a well-formed command of some type
			_, _, sub := splitCommand(wellFormed(types[g.Intn(len(types))], g.Intn(4)))
			p.Bytes(num, sub)
		default:
			b := make([]byte, g.Intn(12))
			g.Read(b)
			p.Bytes(num, b)
		}
	}
	if g.Intn(6) == 0 { // the type field last / repeated
		p.Uint64(1, uint64(types[g.Intn(len(types))]))
	}
	return p.B, "random-protobuf"
}

// buildBodies returns the case list of this run (deterministic in the seed).
// The quick tier takes one mutation of every kind per command type; the
// thorough tier takes every field boundary, every other command's extension
// and three argument variants.
func buildBodies(g *rand.Rand, thorough bool) []*execCase {
	var out []*execCase
	seen := map[string]bool{}
	add := func(kind string, typ int, b []byte, dyn func(w *worker) []byte) {
		k := string(b)
		if dyn == nil {
			if seen[k] {
				return
			}
			seen[k] = true
		}
		c := &execCase{Kind: kind, Type: typ, body: b, Hex: hex.EncodeToString(b), dyn: dyn}
		c.Class, _ = classify(b)
		out = append(out, c)
	}
	types := allTypes()
	variants := 1
	if thorough {
		variants = 3
	}
	for ti, t := range types {
		for v := 0; v < variants; v++ {
			w := wellFormed(t, v)
			switch t {
			case TypeSetData:
				add("well-formed", t, w, func(wk *worker) []byte {
					d, err := wk.data()
					if err != nil {
						return nil
					}
					return CmdSetData(EncodeData(d, nil))
				})
			case TypeSetMetaNode:
				add("well-formed", t, w, func(wk *worker) []byte { return CmdSetMetaNode(wk.httpAddr, wk.raftAddr, 7) })
			default:
				add("well-formed", t, w, nil)
			}
			typePart, extKey, sub := splitCommand(w)
			add("extension-removed", t, append([]byte(nil), typePart...), nil)
			// another command's extension
			others := []int{types[(ti+1+g.Intn(len(types)-1))%len(types)]}
			if thorough && v == 0 {
				for k := 0; k < 8; k++ {
					others = append(others, types[g.Intn(len(types))])
				}
			}
			for _, u := range others {
				if u == t {
					continue
				}
				_, uk, us := splitCommand(wellFormed(u, v))
				add("extension-of-"+TypeName[u], t, reframe(typePart, uk, us), nil)
			}
			// unknown type number in front of this command's extension
			if thorough || ti%4 == 0 {
				var up PB
				up.Uint64(1, uint64(35+g.Intn(60)))
				add("unknown-type-with-extension", t, reframe(up.B, extKey, sub), nil)
			}
			// raw truncation at every field boundary of the outer and inner message
			offs := []int{len(typePart), len(typePart) + len(extKey), len(w) - len(sub)}
			inner, _ := parseFields(sub)
			pos := len(w) - len(sub)
			for _, f := range inner {
				pos += len(f.raw)
				offs = append(offs, pos)
			}
			for _, off := range offs {
				if off < len(w) {
					add(fmt.Sprintf("truncated-raw@%d", off), t, append([]byte(nil), w[:off]...), nil)
				}
			}
			// the extension cut at an inner field boundary, outer length fixed up
			pick := -1
			if len(inner) > 0 {
				pick = g.Intn(len(inner))
			}
			cut := 0
			for k := 0; k < len(inner); k++ {
				if thorough || k == pick {
					add(fmt.Sprintf("extension-cut-after-%d-fields", k), t, reframe(typePart, extKey, sub[:cut]), nil)
				}
				cut += len(inner[k].raw)
			}
			// one inner field dropped from the middle
			if thorough && len(inner) >= 2 {
				k := g.Intn(len(inner) - 1)
				var s2 []byte
				for i, f := range inner {
					if i != k {
						s2 = append(s2, f.raw...)
					}
				}
				add(fmt.Sprintf("extension-without-field-%d", inner[k].num), t, reframe(typePart, extKey, s2), nil)
			}
		}
	}
	for i, v := range []uint64{0, 7, 20, 35, 36, 99, 100, 127, 128, 255, 1000, 1<<31 - 1, 1 << 31, 1<<32 + 3, 1<<64 - 1} {
		var p PB
		p.Uint64(1, v)
		add("unknown-type", 0, append([]byte(nil), p.B...), nil)
		if thorough || i%4 == 1 {
			_, k, s := splitCommand(wellFormed(TypeCreateDatabase, 0))
			add("unknown-type-with-extension", 0, reframe(p.B, k, s), nil)
		}
	}
	add("empty-body", 0, []byte{}, nil)
	nRandom := 90
	if thorough {
		nRandom = 2500
	}
	for i := 0; i < nRandom; i++ {
		b, kind := randomBody(g, types)
		add(kind, 0, b, nil)
	}
	// spread the kinds over the run (and over the lanes)
	g.Shuffle(len(out), func(i, j int) { out[i], out[j] = out[j], out[i] })
	for i, c := range out {
		c.ID = fmt.Sprintf("exec/%d", i)
	}
	return out
}

// ----------------------------------------------------------- lanes

// setupBodies create the state the well-formed commands refer to.
func setupBodies() [][]byte {
	return [][]byte{
		CmdCreateDataNode("h1:8086", "d1:8088"),
		CmdCreateDataNode("h2:8086", "d2:8088"),
		CmdCreateDatabase("db0", &RPInfo{"rp0", 0, int64(time.Hour), 1}),
		CmdCreateRetentionPolicy("db0", RPInfo{"rp1", int64(24 * time.Hour), int64(time.Hour), 2}, false),
		CmdCreateUser("u0", "hash0", true),
		CmdCreateUser("u1", "hash1", false),
		CmdCreateShardGroup("db0", "rp0", t0),
		CmdCreateContinuousQuery("db0", "cq0", strings.Replace(wedgeQuery, "cq1", "cq0", 1)),
		CmdCreateSubscription("s0", "db0", "rp0", "ANY", []string{"udp://h1:9000"}),
	}
}

type lane struct {
	id    int
	base  string
	w     *worker
	canon string // canonConv of the worker's metadata after the last surviving body
	since int    // bodies since the last restart check
	next  chan *worker
	stop  chan struct{}
}

var workerSeq struct {
	sync.Mutex
	n int
}

// spawn starts a worker on a new directory and runs the set-up commands.
// nil: could not get a working node.
func spawn(base string) *worker {
	for try := 0; try < 3; try++ {
		workerSeq.Lock()
		workerSeq.n++
		n := workerSeq.n
		workerSeq.Unlock()
		t0 := time.Now()
		w := newWorker(filepath.Join(base, fmt.Sprintf("w%d", n)))
		if res := w.start(120 * time.Second); res != startReady {
			rep := ""
			if res == startSlow {
				rep = w.dump()
				if nestedRLockDeadlock(rep) {
					reportStartDeadlock("spawn", rep)
				}
			} else {
				rep, _, _ = w.crashReport()
			}
			w.kill()
			r.Inconclusive(fmt.Sprintf("(c) a fresh worker did not come up: %s", firstLine(rep)))
			os.RemoveAll(w.dir)
			continue
		}
		ok := true
		for _, b := range setupBodies() {
			st, resp, err := w.post(b)
			if err != nil || st != 200 {
				ok = false
				r.Inconclusive(fmt.Sprintf("(c) set-up command failed on a fresh worker: status %d err %v %s", st, err, resp))
				break
			}
			if msg, _, _ := execResponse(resp); msg != "" {
				harnessFatal("(c) set-up command rejected by a fresh worker: %s", msg)
			}
		}
		if !ok {
			w.kill()
			os.RemoveAll(w.dir)
			continue
		}
		r.Count("c_workers_started", 1)
		if os.Getenv("C07_TRACE") != "" {
			fmt.Fprintf(os.Stderr, "   fresh worker %d ready after %v\n", n, time.Since(t0))
		}
		return w
	}
	return nil
}

func reportStartDeadlock(where, dump string) {
	if len(dump) > 12000 {
		dump = dump[:12000]
	}
	r.Count("c_start_deadlocks_observed", 1)
	r.Violation("C07/restart-hangs/store-peers-nested-rlock-vs-fsm-apply", "exec/"+where,
		"a single-server meta node never finished opening: store.peers() (called by store.open) holds s.mu.RLock and blocks in the nested RLock of store.leader() because storeFSM.Apply, replaying the log, waits for s.mu.Lock in between",
		map[string]interface{}{"goroutine_dump": dump})
}

// prefetch keeps one ready worker in stock so that a crash does not stall the lane.
func (l *lane) prefetch() {
	l.next = make(chan *worker, 1)
	l.stop = make(chan struct{})
	go func() {
		for {
			select {
			case <-l.stop:
				close(l.next)
				return
			default:
			}
			w := spawn(l.base)
			select {
			case l.next <- w:
				if w == nil {
					close(l.next)
					return
				}
			case <-l.stop:
				if w != nil {
					w.kill()
				}
				close(l.next)
				return
			}
		}
	}()
}

func (l *lane) shutdown() {
	close(l.stop)
	for w := range l.next {
		if w != nil {
			w.kill()
		}
	}
	if l.w != nil {
		l.w.kill()
	}
}

// fresh replaces the lane's worker by a new one (new directory, set-up done).
// ok=false: could not get a working node (inconclusive).
func (l *lane) fresh() bool {
	if l.w != nil {
		l.w.kill()
		os.RemoveAll(l.w.dir)
	}
	l.w = <-l.next
	if l.w == nil {
		return false
	}
	l.since = 0
	l.refresh()
	return true
}

func firstLine(s string) string {
	if i := strings.IndexByte(s, '\n'); i >= 0 {
		return s[:i]
	}
	return s
}

func (l *lane) refresh() {
	if d, err := l.w.data(); err == nil {
		l.canon = canon(d, canonConv, nil)
	}
}

// normalize removes meta nodes other than the worker itself (a single-server
// node that finds two meta nodes in its metadata never finishes opening; a
// phantom second meta node is the effect of a well-formed CreateMetaNode, not
// a malformed request).
func (l *lane) normalize() {
	d, err := l.w.data()
	if err != nil {
		return
	}
	for _, n := range d.MetaNodes {
		if n.TCPAddr != l.w.raftAddr && len(d.MetaNodes) > 1 {
			l.w.post(CmdDeleteMetaNode(n.ID))
		}
	}
}

// restartCheck stops the worker (SIGKILL) and restarts it on its directory:
// it must come up, replaying its log, with the same metadata.
func (l *lane) restartCheck(lastCase string) bool {
	l.normalize()
	l.refresh()
	d0, err := l.w.data()
	if err != nil {
		r.Inconclusive("(c) could not read the worker's metadata before a restart: " + err.Error())
		return l.fresh()
	}
	if len(d0.MetaNodes) != 1 || d0.MetaNodes[0].TCPAddr != l.w.raftAddr {
		// a body replaced the node's own registration (SetData, random
		// payload): the single-server start would re-register; not comparable
		r.Count("c_restart_checks_skipped_meta_node_list_rewritten", 1)
		return l.fresh()
	}
	before := l.canon
	l.w.kill()
	res := l.w.start(120 * time.Second)
	for try := 0; res == startSlow && try < 3; try++ {
		// the known start-up deadlock is intermittent: report it, then start
		// the node again so that the comparison below still takes place
		d := l.w.dump()
		if !nestedRLockDeadlock(d) {
			r.Inconclusive("(c) restarted worker was not ready within the watchdog")
			return l.fresh()
		}
		reportStartDeadlock(strings.TrimPrefix(lastCase, "exec/"), d)
		res = l.w.start(120 * time.Second)
	}
	switch res {
	case startDied:
		rep, kind, _ := l.w.crashReport()
		if kind == "" {
			r.Inconclusive("(c) restarted worker ended without a Go crash report: " + firstLine(rep))
			return l.fresh()
		}
		r.Violation("C07/restart-dies-replaying-log/"+panicClass(kind), lastCase,
			"a meta node that had answered every request died while replaying its log after a restart: "+kind,
			map[string]interface{}{"crash_report": rep, "last_case": lastCase})
		return l.fresh()
	case startSlow:
		if d := l.w.dump(); nestedRLockDeadlock(d) {
			reportStartDeadlock(strings.TrimPrefix(lastCase, "exec/"), d)
		} else {
			r.Inconclusive("(c) restarted worker was not ready within the watchdog")
		}
		return l.fresh()
	}
	d1, err := l.w.data()
	if err != nil {
		r.Inconclusive("(c) could not read the restarted worker's metadata: " + err.Error())
		return l.fresh()
	}
	after := canon(d1, canonConv, nil)
	r.Count("c_restart_checks", 1)
	if after != before {
		sec, la, lb := diffSection(before, after)
		r.Violation("C07/restart-changed-metadata/"+sec, lastCase,
			fmt.Sprintf("a single meta node restarted on its directory came back with different metadata: %q became %q", la, lb),
			map[string]interface{}{"before": before, "after": after})
	}
	l.since = 0
	l.canon = after
	return true
}

// panicClass reduces a panic line to a stable word.
func panicClass(kind string) string {
	switch {
	case strings.Contains(kind, "interface conversion"):
		return "nil-extension-type-assertion"
	case strings.Contains(kind, "cannot apply command"):
		return "cannot-apply-command"
	case strings.Contains(kind, "nil pointer dereference"):
		return "nil-pointer-dereference"
	case strings.Contains(kind, "cannot marshal command"):
		return "cannot-unmarshal-command"
	case strings.Contains(kind, "index out of range"), strings.Contains(kind, "slice bounds"):
		return "index-out-of-range"
	}
	return "other-panic"
}

var confirmSeq = struct {
	sync.Mutex
	n map[string]int
}{n: map[string]int{}}

type wedgeWitness struct {
	Case        *execCase `json:"case"`
	Status      int       `json:"http_status,omitempty"`
	PostError   string    `json:"post_error,omitempty"`
	CrashReport string    `json:"crash_report"`
	Wedged      string    `json:"restart_on_same_directory"`
	WedgeReport string    `json:"restart_crash_report,omitempty"`
}

// runCase posts one body and judges the outcome. It returns false when the
// lane has no usable worker any more.
func (l *lane) runCase(c *execCase) bool {
	body := c.body
	if c.dyn != nil {
		if b := c.dyn(l.w); b != nil {
			body = b
			c.Hex = hex.EncodeToString(b)
			c.Class, _ = classify(b)
		}
	}
	class, unm := classify(body)
	r.Begin(c.ID, c)
	r.Eval(1)
	r.Count("c_bodies_posted", 1)
	r.Count("c_kind_"+kindClass(c.Kind), 1)
	tPost := time.Now()
	status, resp, err := l.w.post(body)
	alive := err == nil
	if alive && status != 400 {
		// hashicorp/raft answers the apply future from a deferred call, also
		// when FSM.Apply panics: the 200 can arrive before the process is gone.
		// A following no-op command (legacy UpdateNode) is applied by the same
		// FSM goroutine strictly after the body under test: its success proves
		// the state machine got past the body.
		bst, _, berr := l.w.post(CmdUpdateNode(0, "barrier"))
		alive = berr == nil && bst == 200
		r.Count("c_barrier_commands", 1)
	}
	alive = alive && l.w.ping()
	if os.Getenv("C07_TRACE") != "" {
		fmt.Fprintf(os.Stderr, "   %s lane %d worker %s post+ping took %v status=%d err=%v alive=%v body=%s\n", c.ID, l.id, filepath.Base(l.w.dir), time.Since(tPost), status, err, alive, hexShort(body))
	}
	if !alive {
		if !l.w.died(20 * time.Second) {
			// alive as a process but not answering
			if l.w.ping() {
				alive = true
			} else {
				r.Inconclusive(fmt.Sprintf("(c) worker neither answered nor ended after case %s (%s)", c.ID, c.Kind))
				return l.fresh()
			}
		}
	}
	if (alive && status != 400) || !alive {
		// the endpoint's validation let the body through to the raft log
		r.Count("c_bodies_accepted_by_validation", 1)
		r.Nontrivial("c/" + c.Hex)
		if !unm {
			r.Count("c_accepted_bodies_the_harness_parser_rejects", 1)
		}
	}
	if alive {
		switch {
		case status == 200:
			msg, idx, ok := execResponse(resp)
			switch {
			case !ok:
				r.Count("c_status_200_undecodable_response", 1)
			case msg != "":
				r.Count("c_status_200_command_error", 1)
			default:
				r.Count("c_status_200_applied", 1)
				if d, err := l.w.data(); err == nil && d.Index < idx {
					r.Violation("C07/execute-acknowledged-index-not-applied", c.ID,
						fmt.Sprintf("/execute answered index %d but the node's metadata is at index %d", idx, d.Index), c)
				}
			}
		case status >= 400:
			r.Count(fmt.Sprintf("c_status_%dxx", status/100), 1)
			if unm && status == 400 {
				r.Count("c_unmarshalable_body_rejected_400", 1)
			}
		default:
			r.Count("c_status_other", 1)
		}
		if c.ID == "exec/0" || c.ID == "exec/1" {
			r.Sample(map[string]interface{}{"case": c.ID, "monitor": "c", "kind": c.Kind, "class": class, "body_hex": hexShort(body), "http_status": status, "worker_alive": true})
		}
		l.refresh()
		l.since++
		if l.since >= 25 {
			return l.restartCheck(c.ID)
		}
		return true
	}

	// ---- the worker died
	tDied := time.Now()
	defer func() {
		if os.Getenv("C07_TRACE") != "" {
			fmt.Fprintf(os.Stderr, "   %s crash path took %v\n", c.ID, time.Since(tDied))
		}
	}()
	rep, kind, inMeta := l.w.crashReport()
	r.Count("c_worker_deaths", 1)
	if kind == "" {
		// no Go crash report: killed from outside, or the worker's own start-up failed
		r.Inconclusive(fmt.Sprintf("(c) worker ended without a Go crash report after case %s: %s", c.ID, firstLine(rep)))
		return l.fresh()
	}
	// The cause class of the signature comes from what the node actually died
	// of; the structural parse of the body only splits the nil-extension family
	// (it cannot replace the real decoder: repeated / mistyped occurrences of
	// an extension are merged in ways a schema walk does not reproduce).
	switch pc := panicClass(kind); {
	case pc == "cannot-apply-command":
		class = "unknown-command-type"
	case pc == "nil-extension-type-assertion":
		if class != "missing-extension" && class != "wrong-extension" {
			class = "undecodable-extension"
		}
	default:
		class = pc + "/" + class
	}
	if !inMeta {
		// the worker runs no harness code after start-up: still the node dying
		// on a request, but not in the code this property is anchored to
		class = "crash-outside-services-meta/" + class
	}
	wit := wedgeWitness{Case: c, Status: status, CrashReport: rep}
	if err != nil {
		wit.PostError = err.Error()
	}
	sig := "C07/execute-wedges-log/" + class
	// is the entry in the log now? restart on the same directory (the first
	// deaths of every class and every 5th afterwards; a process start is the
	// expensive part of this monitor)
	confirmSeq.Lock()
	confirmSeq.n[class]++
	nth := confirmSeq.n[class]
	confirmSeq.Unlock()
	if !(r.Thorough() && nth <= 10) && nth > 2 && nth%5 != 0 {
		wit.Wedged = "was not restarted (sampled)"
		r.Violation(sig, c.ID, fmt.Sprintf("the meta node died after POST /execute of %d bytes (%s, %s): %s", len(body), c.Kind, hexShort(body), kind), wit)
		r.Count("c_deaths_class_"+strings.SplitN(class, "/", 2)[0], 1)
		return l.fresh()
	}
	sr := l.w.start(90 * time.Second)
	if os.Getenv("C07_TRACE") != "" {
		fmt.Fprintf(os.Stderr, "   %s restart-same-dir result %d after %v\n", c.ID, sr, time.Since(tDied))
	}
	switch sr {
	case startDied:
		rep2, kind2, _ := l.w.crashReport()
		if kind2 != "" {
			wit.Wedged = "died again while replaying its log: " + kind2
			wit.WedgeReport = rep2
			r.Count("c_wedged_restart_died_replaying", 1)
		} else {
			wit.Wedged = "ended without a Go crash report: " + firstLine(rep2)
		}
	case startReady:
		wit.Wedged = "came up"
		r.Count("c_crash_then_restart_came_up", 1)
		if d, err := l.w.data(); err == nil {
			if after := canon(d, canonConv, nil); after != l.canon && len(d.MetaNodes) == 1 {
				sec, la, lb := diffSection(l.canon, after)
				r.Violation("C07/restart-changed-metadata/"+sec, c.ID,
					fmt.Sprintf("after a crash the node came back with metadata different from what it had served: %q became %q", la, lb), wit)
			}
		}
	default:
		wit.Wedged = "not ready within the watchdog"
		if d := l.w.dump(); nestedRLockDeadlock(d) {
			wit.Wedged = "hung while opening (deadlock between store.peers and storeFSM.Apply)"
			reportStartDeadlock(strings.TrimPrefix(c.ID, "exec/"), d)
		}
	}
	what := fmt.Sprintf("the meta node died after POST /execute of %d bytes (%s, %s): %s; restarted on the same directory it %s",
		len(body), c.Kind, hexShort(body), kind, wit.Wedged)
	r.Violation(sig, c.ID, what, wit)
	r.Count("c_deaths_class_"+strings.SplitN(class, "/", 2)[0], 1)
	return l.fresh()
}

func kindClass(k string) string {
	switch {
	case strings.HasPrefix(k, "truncated-raw"):
		return "truncated-raw"
	case strings.HasPrefix(k, "extension-of-"):
		return "extension-of-other-command"
	case strings.HasPrefix(k, "extension-cut-after"):
		return "extension-cut-at-field-boundary"
	case strings.HasPrefix(k, "extension-without-field"):
		return "extension-without-one-field"
	}
	return k
}

func hexShort(b []byte) string {
	h := hex.EncodeToString(b)
	if len(h) > 48 {
		return h[:48] + "..."
	}
	return h
}

func runWedge() {
	base := tempDir("c07w")
	defer os.RemoveAll(base)
	cases := buildBodies(r.Rand("wedge"), r.Thorough())
	if v := os.Getenv("C07_WEDGE_MAX"); v != "" {
		var n int
		fmt.Sscan(v, &n)
		if n < len(cases) {
			cases = cases[:n]
		}
	}
	r.Count("c_bodies_generated", int64(len(cases)))
	nLanes := 8
	if rc := r.ReplayCase(); rc != "" {
		if !strings.HasPrefix(rc, "exec/") {
			return
		}
		nLanes = 1
	}
	if len(cases) < nLanes {
		nLanes = 1
	}
	var wg sync.WaitGroup
	if r.ReplayCase() == "" {
		wg.Add(1)
		go func() { defer wg.Done(); restartLane(base) }()
	}
	for li := 0; li < nLanes; li++ {
		wg.Add(1)
		go func(li int) {
			defer wg.Done()
			l := &lane{id: li, base: base}
			l.prefetch()
			defer l.shutdown()
			ok := false
			var last string
			for i, c := range cases {
				if i%nLanes != li && r.ReplayCase() == "" {
					continue
				}
				if r.Skip(c.ID) {
					continue
				}
				if !ok {
					if ok = l.fresh(); !ok {
						r.Inconclusive("(c) lane without a usable worker; remaining cases skipped")
						return
					}
				}
				t0 := time.Now()
				ok = l.runCase(c)
				last = c.ID
				if os.Getenv("C07_TRACE") != "" {
					fmt.Fprintf(os.Stderr, "lane %d %s %s class=%s took %v\n", li, c.ID, c.Kind, c.Class, time.Since(t0))
				}
			}
			if ok && l.w != nil && l.since > 0 {
				l.restartCheck(last)
			}
		}(li)
	}
	wg.Wait()
}

// restartLane feeds one worker a well-formed command of every type the state
// machine handles (the hostile lanes lose their workers too often to build up
// a log worth replaying) and restarts it: the node must come back from its
// log with the metadata it had.
func restartLane(base string) {
	w := spawn(base)
	if w == nil {
		r.Inconclusive("(c) restart lane: no worker")
		return
	}
	l := &lane{id: 99, base: base, w: w, next: make(chan *worker), stop: make(chan struct{})}
	close(l.next)
	defer func() {
		if l.w != nil {
			l.w.kill()
		}
	}()
	for round := 0; round < r.Pick(1, 4); round++ {
		for _, t := range allTypes() {
			if !handledType(int64(t)) {
				continue
			}
			b := wellFormed(t, round)
			switch t {
			case TypeSetData:
				d, err := l.w.data()
				if err != nil {
					continue
				}
				b = CmdSetData(EncodeData(d, nil))
			case TypeSetMetaNode:
				b = CmdSetMetaNode(l.w.httpAddr, l.w.raftAddr, 7)
			}
			id := fmt.Sprintf("exec/restart-lane/%d/%s", round, TypeName[t])
			r.Begin(id, map[string]interface{}{"body_hex": hex.EncodeToString(b), "kind": "well-formed"})
			st, _, err := l.w.post(b)
			if err != nil || st != 200 || !l.w.ping() {
				// a well-formed command that kills the node is reported by the
				// hostile lanes (same bodies); this lane only needs a live node
				r.Inconclusive(fmt.Sprintf("(c) restart lane: %s: status %d err %v", id, st, err))
				return
			}
			r.Count("c_restart_lane_commands", 1)
		}
		l.refresh()
		if !l.restartCheck(fmt.Sprintf("exec/restart-lane/%d", round)) || l.w == nil {
			return
		}
		r.Count("c_restart_lane_restarts", 1)
	}
}
