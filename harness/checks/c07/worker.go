// worker.go — the WORKER child of monitor (c) and the parent-side handle.
//
// The worker (same binary, env C07_WORKER=1) runs ONE real meta node:
// meta.Service, single-server raft, HTTP and raft listeners on the loopback
// addresses the parent chose (fixed, so that a restart on the same directory
// is the same node). It prints one READY line and then only lives; the parent
// talks to it over HTTP. A panic in the raft FSM goroutine kills it — that is
// the observation.
package main

import (
	"bufio"
	"bytes"
	"fmt"
	"io"
	"log"
	"net"
	"net/http"
	"os"
	"os/exec"
	"path/filepath"
	"strings"
	"sync"
	"syscall"
	"time"

	"github.com/influxdata/influxdb/services/meta"
	"github.com/influxdata/influxdb/tcp"
	"github.com/influxdata/influxdb/toml"
)

const workerReady = "C07WORKER READY"

func workerMain() {
	dir, httpAddr, raftAddr := os.Getenv("C07_DIR"), os.Getenv("C07_HTTP"), os.Getenv("C07_RAFT")
	fail := func(f string, a ...interface{}) {
		fmt.Fprintf(os.Stderr, "C07 worker (harness): "+f+"\n", a...)
		os.Exit(ev3)
	}
	cfg := meta.NewConfig()
	cfg.BindAddress = raftAddr
	cfg.HTTPBindAddress = httpAddr
	cfg.Dir = filepath.Join(dir, "meta")
	cfg.SingleServer = true
	cfg.LoggingEnabled = false
	cfg.RetentionAutoCreate = true
	cfg.ElectionTimeout = toml.Duration(150 * time.Millisecond)
	cfg.HeartbeatTimeout = toml.Duration(150 * time.Millisecond)
	cfg.LeaderLeaseTimeout = toml.Duration(100 * time.Millisecond)
	cfg.CommitTimeout = toml.Duration(10 * time.Millisecond)
	if err := os.MkdirAll(cfg.Dir, 0o755); err != nil {
		fail("mkdir: %v", err)
	}
	ln, err := net.Listen("tcp", raftAddr)
	if err != nil {
		fail("listen %s: %v", raftAddr, err)
	}
	mux := tcp.NewMux()
	mux.Logger = log.New(io.Discard, "", 0)
	s := meta.NewService(cfg)
	s.RaftListener = mux.Listen(meta.MuxHeader)
	go mux.Serve(ln)
	// Service.Open gives the mux one second to start serving; on a loaded
	// machine that goroutine may not have run yet
	for i := 0; i < 3000 && s.RaftListener.Addr() == nil; i++ {
		time.Sleep(10 * time.Millisecond)
	}
	// the parent going away (stdin closed) ends the worker, also while opening
	go func() {
		io.Copy(io.Discard, os.Stdin)
		os.Exit(0)
	}()
	if err := s.Open(); err != nil {
		fail("meta service open: %v", err)
	}
	fmt.Printf("%s %s %s\n", workerReady, s.HTTPAddr(), s.RaftAddr())
	select {}
}

const ev3 = 3 // worker exit status for "harness problem, not the target"

// ------------------------------------------------------------ parent side

type worker struct {
	dir      string
	httpAddr string
	raftAddr string
	starts   int

	cmd    *exec.Cmd
	stdin  io.WriteCloser
	exited chan struct{}
	state  *os.ProcessState
	errLog string
	mu     sync.Mutex
	hc     *http.Client // connections to the current process
}

// newHTTP returns a client with its own connection pool. Connections are
// kept alive and re-used: every short-lived connection leaves a TIME_WAIT
// socket on an ephemeral port for a minute, and such a socket makes bind()
// fail for any server (a restarting meta node, another check on this
// machine) that was promised that port.
func newHTTP(timeout time.Duration) *http.Client {
	return &http.Client{
		Timeout:       timeout,
		CheckRedirect: func(req *http.Request, via []*http.Request) error { return http.ErrUseLastResponse },
		Transport:     &http.Transport{MaxIdleConnsPerHost: 2, IdleConnTimeout: 30 * time.Second},
	}
}

var sharedHTTP = newHTTP(60 * time.Second)

func freeAddr() string {
	ln, err := net.Listen("tcp", "127.0.0.1:0")
	if err != nil {
		harnessFatal("listen: %v", err)
	}
	defer ln.Close()
	return ln.Addr().String()
}

func newWorker(dir string) *worker {
	os.MkdirAll(dir, 0o755)
	return &worker{dir: dir, httpAddr: freeAddr(), raftAddr: freeAddr()}
}

type startResult int

const (
	startReady startResult = iota
	startDied              // the process ended before it was ready
	startSlow              // neither within the watchdog
)

// start launches the worker process on w.dir and waits until it is ready,
// dead, or the watchdog expires.
func (w *worker) start(wait time.Duration) startResult {
	for try := 0; ; try++ {
		res := w.start1(wait)
		if res == startDied && try < 40 {
			// the worker's fixed port may be held by a TIME_WAIT socket of some
			// other connection on this machine (up to a minute)
			if b, _ := os.ReadFile(w.errLog); strings.Contains(string(b), "address already in use") {
				time.Sleep(2 * time.Second)
				continue
			}
		}
		return res
	}
}

func (w *worker) start1(wait time.Duration) startResult {
	w.starts++
	if w.hc != nil {
		w.hc.CloseIdleConnections()
	}
	w.hc = newHTTP(90 * time.Second)
	w.errLog = filepath.Join(w.dir, fmt.Sprintf("worker.%d.stderr", w.starts))
	ef, err := os.Create(w.errLog)
	if err != nil {
		harnessFatal("create %s: %v", w.errLog, err)
	}
	cmd := exec.Command(os.Args[0])
	for _, e := range os.Environ() {
		if strings.HasPrefix(e, "VERIF_CHILD=") || strings.HasPrefix(e, "VERIF_CURRENT=") || strings.HasPrefix(e, "C07_") {
			continue
		}
		cmd.Env = append(cmd.Env, e)
	}
	cmd.Env = append(cmd.Env, "C07_WORKER=1", "C07_DIR="+w.dir, "C07_HTTP="+w.httpAddr, "C07_RAFT="+w.raftAddr, "GOMAXPROCS=2")
	cmd.Stderr = ef
	stdin, err := cmd.StdinPipe()
	if err != nil {
		harnessFatal("pipe: %v", err)
	}
	stdout, err := cmd.StdoutPipe()
	if err != nil {
		harnessFatal("pipe: %v", err)
	}
	if err := cmd.Start(); err != nil {
		harnessFatal("start worker: %v", err)
	}
	ef.Close()
	w.cmd, w.stdin = cmd, stdin
	w.exited = make(chan struct{})
	ready := make(chan struct{})
	exited := w.exited
	go func() {
		sc := bufio.NewScanner(stdout)
		signalled := false
		for sc.Scan() {
			if !signalled && strings.HasPrefix(sc.Text(), workerReady) {
				signalled = true
				close(ready)
			}
		}
		cmd.Wait()
		w.mu.Lock()
		w.state = cmd.ProcessState
		w.mu.Unlock()
		close(exited)
	}()
	t := time.NewTimer(wait)
	defer t.Stop()
	select {
	case <-ready:
		return startReady
	case <-exited:
		return startDied
	case <-t.C:
		return startSlow
	}
}

// died reports whether the process ended (waiting up to wait for it).
func (w *worker) died(wait time.Duration) bool {
	select {
	case <-w.exited:
		return true
	case <-time.After(wait):
		return false
	}
}

// kill ends the process (SIGKILL: the node gets no chance to tidy up).
func (w *worker) kill() {
	if w.cmd == nil {
		return
	}
	w.cmd.Process.Kill()
	w.stdin.Close()
	<-w.exited
	if w.hc != nil {
		w.hc.CloseIdleConnections()
	}
}

// dump makes a process that is alive but not answering print all its
// goroutines (SIGQUIT) and returns them once it has ended.
func (w *worker) dump() string {
	w.cmd.Process.Signal(syscall.SIGQUIT)
	if !w.died(30 * time.Second) {
		w.kill()
	}
	b, _ := os.ReadFile(w.errLog)
	return string(b)
}

// nestedRLockDeadlock recognises, in a goroutine dump, the start-up deadlock
// of the store: store.peers() holds s.mu.RLock and calls store.leader(), which
// takes s.mu.RLock again, while storeFSM.Apply waits in s.mu.Lock between the
// two (a pending writer blocks new readers).
func nestedRLockDeadlock(dump string) bool {
	reader, writer := false, false
	for _, g := range strings.Split(dump, "\n\n") {
		if strings.Contains(g, "services/meta.(*store).leader") && strings.Contains(g, "services/meta.(*store).peers") && strings.Contains(g, "RWMutex).RLock") {
			reader = true
		}
		if strings.Contains(g, "services/meta.(*storeFSM).Apply") && strings.Contains(g, "RWMutex).Lock") {
			writer = true
		}
	}
	return reader && writer
}

// crashReport returns the Go crash report of the last process (from its
// stderr), the panic line, and whether the faulting goroutine ran through the
// repository's meta service code.
func (w *worker) crashReport() (report, kind string, inMeta bool) {
	b, _ := os.ReadFile(w.errLog)
	lines := strings.Split(string(b), "\n")
	start := -1
	for i, l := range lines {
		if strings.HasPrefix(l, "panic: ") || strings.HasPrefix(l, "fatal error: ") {
			start = i
			break
		}
	}
	if start < 0 {
		if len(lines) > 12 {
			lines = lines[len(lines)-12:]
		}
		return strings.Join(lines, "\n"), "", false
	}
	kind = lines[start]
	end := start + 40
	if end > len(lines) {
		end = len(lines)
	}
	// first goroutine block = the faulting goroutine
	seenG := false
	for _, l := range lines[start:] {
		if strings.HasPrefix(l, "goroutine ") {
			if seenG {
				break
			}
			seenG = true
			continue
		}
		if seenG && strings.HasPrefix(l, "github.com/influxdata/influxdb/services/meta.") {
			inMeta = true
		}
		if seenG && (strings.HasPrefix(l, "main.") || strings.HasPrefix(l, "verifharness")) {
			inMeta = false
			break
		}
	}
	return strings.Join(lines[start:end], "\n"), kind, inMeta
}

func (w *worker) url(path string) string { return "http://" + w.httpAddr + path }

// post sends one body to /execute.
func (w *worker) post(body []byte) (status int, resp []byte, err error) {
	rs, err := w.hc.Post(w.url("/execute"), "application/octet-stream", bytes.NewReader(body))
	if err != nil {
		return 0, nil, err
	}
	defer rs.Body.Close()
	b, err := io.ReadAll(rs.Body)
	return rs.StatusCode, b, err
}

// ping asks the worker for its leader; ok when it answers 200.
func (w *worker) ping() bool {
	for try := 0; try < 3; try++ {
		rs, err := w.hc.Get(w.url("/ping"))
		if err == nil {
			io.Copy(io.Discard, rs.Body)
			rs.Body.Close()
			if rs.StatusCode == 200 {
				return true
			}
		}
		select {
		case <-w.exited:
			return false
		case <-time.After(200 * time.Millisecond):
		}
	}
	return false
}

// fetchData reads a meta node's current metadata from its snapshot endpoint.
func fetchData(hc *http.Client, httpAddr string) (*meta.Data, error) {
	rs, err := hc.Get("http://" + httpAddr + "/?index=0")
	if err != nil {
		return nil, err
	}
	defer rs.Body.Close()
	b, err := io.ReadAll(rs.Body)
	if err != nil {
		return nil, err
	}
	if rs.StatusCode != 200 {
		return nil, fmt.Errorf("status %d: %s", rs.StatusCode, strings.TrimSpace(string(b)))
	}
	d := &meta.Data{}
	if err := d.UnmarshalBinary(b); err != nil {
		return nil, err
	}
	return d, nil
}

func (w *worker) data() (*meta.Data, error) { return fetchData(w.hc, w.httpAddr) }

// execResponse decodes the Response message of /execute (OK=1, Error=2, Index=3).
func execResponse(b []byte) (errMsg string, index uint64, ok bool) {
	for len(b) > 0 {
		k, n := readVarint(b)
		if n == 0 {
			return "", 0, false
		}
		b = b[n:]
		switch k & 7 {
		case 0:
			v, n := readVarint(b)
			if n == 0 {
				return "", 0, false
			}
			if k>>3 == 3 {
				index = v
			}
			b = b[n:]
		case 2:
			l, n := readVarint(b)
			if n == 0 || uint64(len(b)-n) < l {
				return "", 0, false
			}
			if k>>3 == 2 {
				errMsg = string(b[n : n+int(l)])
			}
			b = b[n+int(l):]
		default:
			return "", 0, false
		}
	}
	return errMsg, index, true
}
