package main

// A meta node that leaves the cluster and joins it again without a process
// restart replays the leader's log from the start: it must end with exactly
// the leader's metadata (counters included).

import (
	"encoding/json"
	"fmt"
	"io"
	"net/url"
	"path/filepath"
	"strings"
	"time"

	"github.com/influxdata/influxdb/services/meta"
	"verifharness/internal/cluster"
	"verifharness/internal/ev"
)

func runRejoin() {
	id := "rejoin/0"
	if rc := r.ReplayCase(); rc != "" && rc != id {
		return
	}
	if r.Skip(id) {
		return
	}
	r.Eval(1)
	dir := filepath.Join(ev.TempDir("c07rj"), "cl")
	cl, err := startCluster(dir, 1)
	if err != nil {
		r.Inconclusive("(e) " + id + ": start: " + err.Error())
		return
	}
	defer closeCluster(cl)
	mc := cl.Datas[0].Srv.MetaClient
	step := func(what string, err error) bool {
		if err != nil {
			r.Inconclusive(fmt.Sprintf("(e) %s: %s: %v", id, what, err))
			return false
		}
		return true
	}
	// a history with create/delete pairs and counter-bumping commands
	_, err = mc.CreateDatabase("foo")
	if !step("create foo", err) {
		return
	}
	_, err = mc.CreateShardGroup("foo", "autogen", time.Unix(1700000000, 0))
	if !step("create shard group", err) {
		return
	}
	if !step("drop foo", mc.DropDatabase("foo")) {
		return
	}
	_, err = mc.CreateUser("u1", "pw", false)
	if !step("create user", err) {
		return
	}
	if !step("drop user", mc.DropUser("u1")) {
		return
	}
	_, err = mc.CreateDatabase("keep")
	if !step("create keep", err) {
		return
	}
	if !step("caught up", cl.WaitMetaCaughtUp(cluster.DefaultWait)) {
		return
	}
	// pick a follower
	leaderAddr := ""
	for i := range cl.Metas {
		if st, err := metaStatus(cl, i); err == nil && st != "" {
			leaderAddr = st
			break
		}
	}
	victim := -1
	for i, m := range cl.Metas {
		if leaderAddr != "" && !strings.Contains(leaderAddr, m.TCPAddr) && !strings.Contains(leaderAddr, m.HTTPAddr) {
			victim = i
		}
	}
	if victim < 0 {
		r.Inconclusive("(e) " + id + ": no follower identified")
		return
	}
	post := func(addr, path string, form url.Values) error {
		resp, err := cl.HTTP.PostForm("http://"+addr+path, form)
		if err != nil {
			return err
		}
		resp.Body.Close()
		if resp.StatusCode/100 != 2 {
			return fmt.Errorf("%s: status %d", path, resp.StatusCode)
		}
		return nil
	}
	if !step("leave", post(cl.Metas[victim].HTTPAddr, "/leave", nil)) {
		return
	}
	// join again through one of the remaining nodes (retries: leadership may move)
	other := (victim + 1) % len(cl.Metas)
	var jerr error
	for try := 0; try < 40; try++ {
		if jerr = post(cl.Metas[other].HTTPAddr, "/join", url.Values{"addr": {cl.Metas[victim].HTTPAddr}}); jerr == nil {
			break
		}
		time.Sleep(250 * time.Millisecond)
	}
	if !step("join again", jerr) {
		return
	}
	_, err = mc.CreateDatabase("bar")
	if !step("create bar", err) {
		return
	}
	_, err = mc.CreateShardGroup("bar", "autogen", time.Unix(1700000000, 0))
	if !step("create shard group in bar", err) {
		return
	}
	// wait until all three nodes report one index, then compare
	deadline := time.Now().Add(cluster.DefaultWait)
	var views []*meta.Data
	for {
		views = views[:0]
		same := true
		for i := range cl.Metas {
			d, err := cl.MetaData(i)
			if err != nil {
				same = false
				break
			}
			views = append(views, d)
			if d.Index != views[0].Index {
				same = false
			}
		}
		if same && len(views) == len(cl.Metas) {
			break
		}
		if time.Now().After(deadline) {
			r.Inconclusive("(e) " + id + ": the meta nodes did not reach one applied index after the re-join")
			return
		}
		time.Sleep(100 * time.Millisecond)
	}
	r.Count("e_leave_and_rejoin_histories", 1)
	ref := canon(views[0], canonLive, nil)
	for i := 1; i < len(views); i++ {
		if c := canon(views[i], canonLive, nil); c != ref {
			sec, la, lb := diffSection(ref, c)
			r.Violation("C07/meta-nodes-diverge-after-leave-and-rejoin/"+sec, id,
				fmt.Sprintf("meta node %d left the cluster and joined it again (no restart); at index %d meta node %d differs from meta node 0: %q vs %q", victim, views[0].Index, i, lb, la),
				map[string]interface{}{"rejoined_node": victim, "index": views[0].Index})
			return
		}
	}
	r.Nontrivial("rejoin|converged")
}

// metaStatus returns the leader address meta node i reports.
func metaStatus(cl *cluster.Cluster, i int) (string, error) {
	resp, err := cl.HTTP.Get("http://" + cl.Metas[i].HTTPAddr + "/status")
	if err != nil {
		return "", err
	}
	defer resp.Body.Close()
	var st struct {
		Leader string `json:"leader"`
	}
	if err := jsonDecode(resp.Body, &st); err != nil {
		return "", err
	}
	return st.Leader, nil
}

func jsonDecode(rd io.Reader, v interface{}) error { return json.NewDecoder(rd).Decode(v) }
