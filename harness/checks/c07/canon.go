// canon.go — canonical forms of meta.Data (exported fields only). Copied from
// checks/c06 and extended with canonExact (everything, in stored order,
// DeletedAt exact, Term/Index included): the form a snapshot must restore to.
//
// canonLive is the form compared ACROSS replicas. It contains exactly what the
// property says is a function of the command sequence: nodes, databases,
// retention policies, LIVE shard groups with time ranges and owners, users,
// queries, subscriptions, id counters (+ ClusterID, Term, Index). Shard
// groups marked deleted are left out altogether: their DeletedAt is
// time.Now() and whether they are still present depends on when
// PruneShardGroups ran on that replica (wall clock). Owner lists are compared
// as sorted multisets (order of equivalent owners is not part of the claim).
//
// canonFull is the form compared on ONE replica before/after a rejected
// command ("changes nothing"): everything, in stored order, DeletedAt exact,
// without Term/Index (raft bookkeeping stamped on every entry).
package main

import (
	"sort"
	"strconv"
	"time"

	"github.com/influxdata/influxdb/services/meta"
)

type canonMode int

const (
	canonLive canonMode = iota
	canonFull
	canonExact // canonFull + Term/Index
	canonConv  // canonLive without Term/Index (compared across a restart that re-applies SetMetaNode)
)

type cbuf struct{ b []byte }

func (c *cbuf) s(v string) { c.b = strconv.AppendQuote(c.b, v); c.b = append(c.b, ' ') }
func (c *cbuf) u(v uint64) { c.b = strconv.AppendUint(c.b, v, 10); c.b = append(c.b, ' ') }
func (c *cbuf) i(v int64)  { c.b = strconv.AppendInt(c.b, v, 10); c.b = append(c.b, ' ') }
func (c *cbuf) lit(v string) {
	c.b = append(c.b, v...)
}
func (c *cbuf) t(v time.Time) {
	// well defined for every time.Time (UnixNano is not, outside 1678..2262)
	if v.IsZero() {
		c.lit("Z ")
		return
	}
	c.b = strconv.AppendInt(c.b, v.Unix(), 10)
	c.b = append(c.b, '.')
	c.b = strconv.AppendInt(c.b, int64(v.Nanosecond()), 10)
	c.b = append(c.b, ' ')
}
func (c *cbuf) bl(v bool) {
	if v {
		c.lit("T ")
	} else {
		c.lit("F ")
	}
}

func canonNodes(c *cbuf, tag string, ns []meta.NodeInfo) {
	c.lit(tag)
	c.u(uint64(len(ns)))
	for _, n := range ns {
		c.u(n.ID)
		c.s(n.Addr)
		c.s(n.TCPAddr)
	}
	c.lit("\n")
}

// mask (canonLive only) hides parts of the form; used to classify a difference:
// owners of the listed shards / the time range of the listed groups are
// rendered as "?".
type mask struct {
	owners map[uint64]bool
	times  map[uint64]bool
}

// canon renders d as a string.
func canon(d *meta.Data, mode canonMode, mk *mask) string {
	return string(canonInto(nil, d, mode, mk))
}

// canonInto renders d into buf[:0] (the hot path re-uses buffers: the forms
// are tens of kilobytes and are computed eight times per log entry).
func canonInto(buf []byte, d *meta.Data, mode canonMode, mk *mask) []byte {
	var maskOwners, maskTimes map[uint64]bool
	if mk != nil {
		maskOwners, maskTimes = mk.owners, mk.times
	}
	if buf == nil {
		buf = make([]byte, 0, 4096)
	}
	c := &cbuf{b: buf[:0]}
	var ids []uint64
	if mode == canonLive || mode == canonExact {
		c.lit("term ")
		c.u(d.Term)
		c.lit("index ")
		c.u(d.Index)
		c.lit("\n")
	}
	exact := mode == canonFull || mode == canonExact
	if mode == canonConv {
		mode = canonLive
	}
	c.lit("cluster ")
	c.u(d.ClusterID)
	c.lit("max ")
	c.u(d.MaxNodeID)
	c.u(d.MaxShardGroupID)
	c.u(d.MaxShardID)
	c.lit("\n")
	canonNodes(c, "meta ", d.MetaNodes)
	canonNodes(c, "data ", d.DataNodes)
	for i := range d.Databases {
		di := &d.Databases[i]
		c.lit("db ")
		c.s(di.Name)
		c.s(di.DefaultRetentionPolicy)
		c.lit("\n")
		for j := range di.RetentionPolicies {
			rp := &di.RetentionPolicies[j]
			c.lit(" rp ")
			c.s(rp.Name)
			c.i(int64(rp.ReplicaN))
			c.i(int64(rp.Duration))
			c.i(int64(rp.ShardGroupDuration))
			c.lit("\n")
			for k := range rp.ShardGroups {
				sg := &rp.ShardGroups[k]
				if mode == canonLive && sg.Deleted() {
					continue
				}
				c.lit("  sg ")
				c.u(sg.ID)
				if mode == canonLive && maskTimes[sg.ID] {
					c.lit("? ? trunc ? ")
				} else {
					c.t(sg.StartTime)
					c.t(sg.EndTime)
					c.lit("trunc ")
					c.t(sg.TruncatedAt)
				}
				if exact {
					c.lit("del ")
					c.t(sg.DeletedAt)
				}
				for _, sh := range sg.Shards {
					c.lit("| ")
					c.u(sh.ID)
					c.lit(": ")
					if mode == canonLive && maskOwners[sh.ID] {
						c.lit("? ")
						continue
					}
					if mode == canonLive {
						ids = ids[:0]
						for _, o := range sh.Owners {
							ids = append(ids, o.NodeID)
						}
						for a := 1; a < len(ids); a++ { // insertion sort: lists are tiny
							for b := a; b > 0 && ids[b] < ids[b-1]; b-- {
								ids[b], ids[b-1] = ids[b-1], ids[b]
							}
						}
						for _, id := range ids {
							c.u(id)
						}
					} else {
						for _, o := range sh.Owners {
							c.u(o.NodeID)
						}
					}
				}
				c.lit("\n")
			}
			for _, s := range rp.Subscriptions {
				c.lit("  sub ")
				c.s(s.Name)
				c.s(s.Mode)
				for _, dst := range s.Destinations {
					c.s(dst)
				}
				c.lit("\n")
			}
		}
		for _, cq := range di.ContinuousQueries {
			c.lit(" cq ")
			c.s(cq.Name)
			c.s(cq.Query)
			c.lit("\n")
		}
	}
	for i := range d.Users {
		u := &d.Users[i]
		c.lit("user ")
		c.s(u.Name)
		c.s(u.Hash)
		c.bl(u.Admin)
		dbs := make([]string, 0, len(u.Privileges))
		for db := range u.Privileges {
			dbs = append(dbs, db)
		}
		sort.Strings(dbs)
		for _, db := range dbs {
			c.s(db)
			c.i(int64(u.Privileges[db]))
		}
		c.lit("\n")
	}
	c.lit("admin-exists ")
	c.bl(d.AdminUserExists())
	return c.b
}

// firstDiff returns the first differing line of two canonical forms.
func firstDiff(a, b string) (la, lb string) {
	i := 0
	for i < len(a) && i < len(b) && a[i] == b[i] {
		i++
	}
	line := func(s string) string {
		st := i
		if st > len(s) {
			st = len(s)
		}
		for st > 0 && s[st-1] != '\n' {
			st--
		}
		en := i
		for en < len(s) && s[en] != '\n' {
			en++
		}
		if en > st+300 {
			en = st + 300
		}
		return s[st:en]
	}
	return line(a), line(b)
}
