// faults.go — monitor (d): durability and convergence under faults.
//
// An in-process cluster (3 real meta servers, 1-2 real data servers, loopback)
// receives metadata changes from ONE sequential client that alternates between
// the meta.Client of a data node and InfluxQL over the data node's HTTP API.
// Between operations meta nodes are stopped and restarted (leader, follower,
// all of them, after a forced raft snapshot). Every call's outcome is recorded:
//
//	acknowledged  the call returned success
//	failed        the service answered with a command error
//	unknown       anything else (transport error, no leader, retries exhausted)
//
// Only acknowledged operations oblige the service. Because the client is
// sequential, an operation that was not acknowledged either took effect before
// every later acknowledged operation or never: so the oracle is a last-writer
// rule — an acknowledged change must be visible on every meta node and in every
// data node's cache at the end unless a LATER operation (whatever its outcome)
// touched the same object, an ancestor or a descendant of it. Right after an
// acknowledged call the issuing node's cache must reflect it already (the
// client waits for its cache to reach the command's index).
package main

import (
	"fmt"
	"io"
	"math/rand"
	"net/http"
	"os"
	"runtime"
	"runtime/debug"
	"strings"
	"sync"
	"sync/atomic"
	"time"

	"github.com/influxdata/influxdb/services/meta"
	"github.com/influxdata/influxql"

	"verifharness/internal/cluster"
)

type outcome string

const (
	ack     outcome = "acknowledged"
	failed  outcome = "failed"
	unknown outcome = "unknown"
)

type opRec struct {
	N       int      `json:"n"`
	Desc    string   `json:"op"`
	Via     string   `json:"via"`
	Outcome outcome  `json:"outcome"`
	Err     string   `json:"error,omitempty"`
	Keys    []string `json:"-"`
	Destr   bool     `json:"-"` // removes the object and everything below it
	// pred returns "" when d reflects the operation's effect.
	pred func(d *meta.Data) string
}

type faultRec struct {
	AfterOp int    `json:"after_op"`
	Fault   string `json:"fault"`
}

// supersedes: the later operation b (whatever its outcome) may have undone or
// replaced the effect of a: it names the same object, or it removes an
// ancestor of a's object (DROP DATABASE / RETENTION POLICY / USER).
func supersedes(b, a *opRec) bool {
	for _, x := range a.Keys {
		for _, y := range b.Keys {
			if x == y || (b.Destr && strings.HasPrefix(x, y+"/")) {
				return true
			}
		}
	}
	return false
}

type history struct {
	id     string
	seed   int64
	g      *rand.Rand
	cl     *cluster.Cluster
	ops    []*opRec
	faults []faultRec
	down   map[int]bool

	leaderChanges, restarts, snapshots int
	lastLeader                         int
	maxIdx                             []uint64 // per data node: highest cache index seen by the client thread
	regress                            int64
	seenMax                            []uint64 // per data node: highest cache index the sampler saw (atomic)
	stopSampler                        chan struct{}
	samplerDone                        sync.WaitGroup
	hc                                 *http.Client
}

func (h *history) witness() interface{} {
	return map[string]interface{}{"case_seed": h.seed, "operations": h.ops, "faults": h.faults}
}

// ------------------------------------------------------------------ cluster helpers

// An in-process server that was closed keeps serving the connections it had
// accepted (its old handler answers /ping with "no leader" for ever), so the
// history's HTTP client is replaced whenever a meta node is stopped or started.
func (h *history) renewHTTP() {
	if h.hc != nil {
		h.hc.CloseIdleConnections()
	}
	h.hc = newHTTP(20 * time.Second)
}

// leader returns the index of the meta node that the running nodes name as
// leader (-1: none / no agreement).
func (h *history) leader() int {
	votes := map[string]int{}
	running := 0
	for i, m := range h.cl.Metas {
		if h.down[i] {
			continue
		}
		running++
		rs, err := h.hc.Get("http://" + m.HTTPAddr + "/ping")
		if err != nil {
			continue
		}
		b, _ := io.ReadAll(rs.Body)
		rs.Body.Close()
		if rs.StatusCode == 200 && len(b) > 0 {
			votes[string(b)]++
		}
	}
	for addr, n := range votes {
		if n*2 > running || running == 1 {
			for i, m := range h.cl.Metas {
				if m.TCPAddr == addr && !h.down[i] {
					return i
				}
			}
		}
	}
	return -1
}

// waitLeader polls until the running nodes agree on a running leader.
func (h *history) waitLeader(wait time.Duration) int {
	deadline := time.Now().Add(wait)
	for {
		if l := h.leader(); l >= 0 {
			if h.lastLeader >= 0 && l != h.lastLeader {
				h.leaderChanges++
			}
			h.lastLeader = l
			return l
		}
		if time.Now().After(deadline) {
			return -1
		}
		time.Sleep(50 * time.Millisecond)
	}
}

func (h *history) stop(i int, why string) {
	h.cl.StopMeta(i)
	h.down[i] = true
	h.renewHTTP()
	h.faults = append(h.faults, faultRec{len(h.ops), fmt.Sprintf("stop meta %d (%s)", i, why)})
}

// start restarts meta node i on its directory; false: it did not come up
// within the watchdog.
func (h *history) start(is ...int) bool {
	for _, i := range is {
		if err := h.cl.StartMeta(i); err != nil {
			r.Inconclusive(fmt.Sprintf("(d) %s: StartMeta(%d): %v", h.id, i, err))
			return false
		}
		h.faults = append(h.faults, faultRec{len(h.ops), fmt.Sprintf("start meta %d", i)})
	}
	for _, i := range is {
		var err error
		for try := 0; try < 40; try++ {
			if err = h.cl.WaitMeta(i, 120*time.Second); err == nil {
				break
			}
			// A server whose Open failed or is still running must not be
			// closed by Cluster.Close (its Close dereferences what Open sets up).
			h.cl.Metas[i].Running = false
			if !strings.Contains(err.Error(), "address already in use") {
				break
			}
			// the node's fixed port is held by a TIME_WAIT socket of some other
			// connection on this machine (for up to a minute): try again
			r.Count("d_restart_retries_port_in_use", 1)
			time.Sleep(2 * time.Second)
			if e := h.cl.StartMeta(i); e != nil {
				err = e
				break
			}
		}
		if err != nil {
			h.cl.Metas[i].Running = false
			why := ""
			if strings.Contains(err.Error(), "did not finish opening") {
				if site, stack, ok := openDeadlock(); ok {
					known := r.Violation("C07/restart-hangs/"+site, h.id, fmt.Sprintf("meta node %d never finished opening after a restart: the goroutine inside store.open is blocked on a lock at the same stack in two dumps taken 5 s apart (after the %v start watchdog)", i, 120*time.Second),
						map[string]interface{}{"history": h.id, "node": i, "blocked_stack": stack, "ops": len(h.ops), "faults": h.faults})
					if !known {
						// the stuck server lives in this process and cannot be
						// stopped; further histories would only wait for it
						r.Finish()
					}
					return false
				}
				why = " | " + openStacks()
			}
			r.Inconclusive(fmt.Sprintf("(d) %s: %v%s", h.id, err, why))
			return false
		}
		h.down[i] = false
		h.restarts++
	}
	h.renewHTTP()
	return true
}

// openDeadlock looks for clock-free evidence that an opening meta store is
// stuck: a goroutine inside store.open that is blocked on a lock with exactly
// the same stack in two dumps.
func openDeadlock() (site, stack string, ok bool) {
	snap := func() map[string]string {
		buf := make([]byte, 32<<20)
		buf = buf[:runtime.Stack(buf, true)]
		out := map[string]string{}
		for _, g := range strings.Split(string(buf), "\n\n") {
			if !strings.Contains(g, "services/meta.(*store).open") {
				continue
			}
			lines := strings.Split(g, "\n")
			hdr := lines[0]
			if !(strings.Contains(hdr, "Lock") || strings.Contains(hdr, "semacquire")) {
				continue
			}
			id := strings.Fields(hdr)[1]
			var fr []string
			for _, l := range lines[1:] {
				if strings.HasPrefix(l, "\t") || l == "" {
					continue
				}
				if j := strings.LastIndex(l, "("); j > 0 {
					l = l[:j]
				}
				fr = append(fr, l)
			}
			out[id] = strings.Join(fr, " < ")
		}
		return out
	}
	a := snap()
	time.Sleep(5 * time.Second)
	b := snap()
	for id, st := range a {
		if b[id] != st {
			continue
		}
		site = "unknown-site"
		for _, f := range strings.Split(st, " < ") {
			if k := strings.Index(f, "services/meta."); k >= 0 {
				site = f[k+len("services/"):]
				break
			}
		}
		return site, st, true
	}
	return "", "", false
}

// openStacks summarises where the goroutines that are opening a meta store
// are waiting (diagnostic text for an inconclusive restart).
func openStacks() string {
	buf := make([]byte, 16<<20)
	buf = buf[:runtime.Stack(buf, true)]
	var out []string
	for _, g := range strings.Split(string(buf), "\n\n") {
		if !strings.Contains(g, "services/meta.(*store).open") {
			continue
		}
		var fr []string
		for _, l := range strings.Split(g, "\n") {
			if strings.HasPrefix(l, "goroutine ") || (!strings.HasPrefix(l, "\t") && l != "") {
				if i := strings.LastIndex(l, "/"); i >= 0 && !strings.HasPrefix(l, "goroutine ") {
					l = l[i+1:]
				}
				if j := strings.Index(l, "(0x"); j > 0 {
					l = l[:j]
				}
				fr = append(fr, l)
			}
			if len(fr) >= 7 {
				break
			}
		}
		out = append(out, strings.Join(fr, " < "))
	}
	if len(out) == 0 {
		return "no goroutine is inside store.open"
	}
	return strings.Join(out, " || ")
}

func (h *history) nDown() int {
	n := 0
	for _, d := range h.down {
		if d {
			n++
		}
	}
	return n
}

// ------------------------------------------------------------------ operations

func findRP(d *meta.Data, db, rp string) *meta.RetentionPolicyInfo {
	di := d.Database(db)
	if di == nil {
		return nil
	}
	return di.RetentionPolicy(rp)
}

func findUser(d *meta.Data, name string) *meta.UserInfo {
	for i := range d.Users {
		if d.Users[i].Name == name {
			return &d.Users[i]
		}
	}
	return nil
}

var (
	fDBs   = []string{"d0", "d1", "d2"}
	fRPs   = []string{"r0", "r1"}
	fUsers = []string{"ua", "ub"}
	fCQs   = []string{"c0", "c1"}
	privs  = map[influxql.Privilege]string{influxql.ReadPrivilege: "READ", influxql.WritePrivilege: "WRITE", influxql.AllPrivileges: "ALL"}
)

// call is one client call: through the meta.Client of a data node (mc != nil)
// or InfluxQL / line protocol over the node's HTTP API.
type call struct {
	desc  string
	destr bool
	keys  []string
	pred  func(d *meta.Data) string
	mc    func(c *meta.Client) error
	q     string // InfluxQL
	// write: line protocol to db/rp
	wdb, wrp, wline string
}

// nextCall picks the next operation, aimed (mostly) at things that exist in
// the issuing node's cache so that most calls can succeed.
func (h *history) nextCall(d *meta.Data) call {
	g := h.g
	db := fDBs[g.Intn(len(fDBs))]
	if len(d.Databases) > 0 && g.Intn(4) != 0 {
		db = d.Databases[g.Intn(len(d.Databases))].Name
	}
	rp := fRPs[g.Intn(len(fRPs))]
	u := fUsers[g.Intn(len(fUsers))]
	cq := fCQs[g.Intn(len(fCQs))]
	dbKey, rpKey := "db/"+db, "db/"+db+"/rp/"+rp
	switch k := g.Intn(100); {
	case k < 14 || len(d.Databases) == 0:
		return call{desc: fmt.Sprintf("CREATE DATABASE %s", db), keys: []string{dbKey},
			pred: func(d *meta.Data) string {
				if d.Database(db) == nil {
					return "database " + db + " does not exist"
				}
				return ""
			},
			mc: func(c *meta.Client) error { _, err := c.CreateDatabase(db); return err },
			q:  "CREATE DATABASE " + db}
	case k < 19:
		return call{desc: fmt.Sprintf("DROP DATABASE %s", db), destr: true, keys: []string{dbKey},
			pred: func(d *meta.Data) string {
				if d.Database(db) != nil {
					return "database " + db + " still exists"
				}
				return ""
			},
			mc: func(c *meta.Client) error { return c.DropDatabase(db) },
			q:  "DROP DATABASE " + db}
	case k < 31:
		hours := 2 + g.Intn(40)
		dur := time.Duration(hours) * time.Hour
		one := 1
		return call{desc: fmt.Sprintf("CREATE RETENTION POLICY %s ON %s DURATION %dh REPLICATION 1", rp, db, hours), keys: []string{rpKey},
			pred: func(d *meta.Data) string {
				if findRP(d, db, rp) == nil {
					return "retention policy " + db + "." + rp + " does not exist"
				}
				return ""
			},
			mc: func(c *meta.Client) error {
				_, err := c.CreateRetentionPolicy(db, &meta.RetentionPolicySpec{Name: rp, Duration: &dur, ReplicaN: &one}, false)
				return err
			},
			q: fmt.Sprintf("CREATE RETENTION POLICY %s ON %s DURATION %dh REPLICATION 1", rp, db, hours)}
	case k < 39:
		hours := 50 + g.Intn(400)
		dur := time.Duration(hours) * time.Hour
		return call{desc: fmt.Sprintf("ALTER RETENTION POLICY %s ON %s DURATION %dh", rp, db, hours), keys: []string{rpKey},
			pred: func(d *meta.Data) string {
				p := findRP(d, db, rp)
				if p == nil {
					return "retention policy " + db + "." + rp + " does not exist"
				}
				if p.Duration != dur {
					return fmt.Sprintf("retention policy %s.%s has duration %v, not the acknowledged %v", db, rp, p.Duration, dur)
				}
				return ""
			},
			mc: func(c *meta.Client) error {
				rpu := &meta.RetentionPolicyUpdate{}
				rpu.SetDuration(dur)
				return c.UpdateRetentionPolicy(db, rp, rpu, false)
			},
			q: fmt.Sprintf("ALTER RETENTION POLICY %s ON %s DURATION %dh", rp, db, hours)}
	case k < 43:
		return call{desc: fmt.Sprintf("DROP RETENTION POLICY %s ON %s", rp, db), destr: true, keys: []string{rpKey},
			pred: func(d *meta.Data) string {
				if findRP(d, db, rp) != nil {
					return "retention policy " + db + "." + rp + " still exists"
				}
				return ""
			},
			mc: func(c *meta.Client) error { return c.DropRetentionPolicy(db, rp) },
			q:  fmt.Sprintf("DROP RETENTION POLICY %s ON %s", rp, db)}
	case k < 51:
		admin := g.Intn(3) == 0
		q := fmt.Sprintf("CREATE USER %s WITH PASSWORD 'pw-%s'", u, u)
		if admin {
			q += " WITH ALL PRIVILEGES"
		}
		return call{desc: q, keys: []string{"user/" + u},
			pred: func(d *meta.Data) string {
				if findUser(d, u) == nil {
					return "user " + u + " does not exist"
				}
				return ""
			},
			mc: func(c *meta.Client) error { _, err := c.CreateUser(u, "pw-"+u, admin); return err },
			q:  q}
	case k < 54:
		return call{desc: "DROP USER " + u, destr: true, keys: []string{"user/" + u},
			pred: func(d *meta.Data) string {
				if findUser(d, u) != nil {
					return "user " + u + " still exists"
				}
				return ""
			},
			mc: func(c *meta.Client) error { return c.DropUser(u) },
			q:  "DROP USER " + u}
	case k < 62:
		p := []influxql.Privilege{influxql.ReadPrivilege, influxql.WritePrivilege, influxql.AllPrivileges}[g.Intn(3)]
		return call{desc: fmt.Sprintf("GRANT %s ON %s TO %s", privs[p], db, u), keys: []string{"user/" + u + "/priv/" + db, dbKey + "/priv/" + u},
			pred: func(d *meta.Data) string {
				ui := findUser(d, u)
				if ui == nil {
					return "user " + u + " does not exist"
				}
				if ui.Privileges[db] != p {
					return fmt.Sprintf("user %s has privilege %v on %s, not the acknowledged %v", u, ui.Privileges[db], db, p)
				}
				return ""
			},
			mc: func(c *meta.Client) error { return c.SetPrivilege(u, db, p) },
			q:  fmt.Sprintf("GRANT %s ON %s TO %s", privs[p], db, u)}
	case k < 66:
		return call{desc: fmt.Sprintf("REVOKE ALL ON %s FROM %s", db, u), keys: []string{"user/" + u + "/priv/" + db, dbKey + "/priv/" + u},
			pred: func(d *meta.Data) string {
				ui := findUser(d, u)
				if ui == nil {
					return "user " + u + " does not exist"
				}
				if ui.Privileges[db] != influxql.NoPrivileges {
					return fmt.Sprintf("user %s still has privilege %v on %s", u, ui.Privileges[db], db)
				}
				return ""
			},
			mc: func(c *meta.Client) error { return c.SetPrivilege(u, db, influxql.NoPrivileges) },
			q:  fmt.Sprintf("REVOKE ALL ON %s FROM %s", db, u)}
	case k < 71:
		admin := g.Intn(2) == 0
		q := "GRANT ALL PRIVILEGES TO " + u
		if !admin {
			q = "REVOKE ALL PRIVILEGES FROM " + u
		}
		return call{desc: q, keys: []string{"user/" + u + "/admin"},
			pred: func(d *meta.Data) string {
				ui := findUser(d, u)
				if ui == nil {
					return "user " + u + " does not exist"
				}
				if ui.Admin != admin {
					return fmt.Sprintf("user %s has admin=%v, acknowledged was %v", u, ui.Admin, admin)
				}
				return ""
			},
			mc: func(c *meta.Client) error { return c.SetAdminPrivilege(u, admin) },
			q:  q}
	case k < 78:
		stmt := fmt.Sprintf("CREATE CONTINUOUS QUERY %s ON %s BEGIN SELECT mean(v) INTO m1 FROM m GROUP BY time(1m) END", cq, db)
		return call{desc: stmt, keys: []string{dbKey + "/cq/" + cq},
			pred: func(d *meta.Data) string {
				if di := d.Database(db); di != nil {
					for _, c := range di.ContinuousQueries {
						if c.Name == cq {
							return ""
						}
					}
				}
				return "continuous query " + db + "." + cq + " does not exist"
			},
			mc: func(c *meta.Client) error { return c.CreateContinuousQuery(db, cq, stmt) },
			q:  stmt}
	case k < 81:
		return call{desc: fmt.Sprintf("DROP CONTINUOUS QUERY %s ON %s", cq, db), keys: []string{dbKey + "/cq/" + cq},
			pred: func(d *meta.Data) string {
				if di := d.Database(db); di != nil {
					for _, c := range di.ContinuousQueries {
						if c.Name == cq {
							return "continuous query " + db + "." + cq + " still exists"
						}
					}
				}
				return ""
			},
			mc: func(c *meta.Client) error { return c.DropContinuousQuery(db, cq) },
			q:  fmt.Sprintf("DROP CONTINUOUS QUERY %s ON %s", cq, db)}
	case k < 86:
		sub := fmt.Sprintf("s%d", g.Intn(2))
		rpn := rp
		if di := d.Database(db); di != nil && len(di.RetentionPolicies) > 0 {
			rpn = di.RetentionPolicies[g.Intn(len(di.RetentionPolicies))].Name
		}
		return call{desc: fmt.Sprintf("CREATE SUBSCRIPTION %s ON %s.%s", sub, db, rpn), keys: []string{"db/" + db + "/rp/" + rpn + "/sub/" + sub},
			pred: func(d *meta.Data) string {
				if p := findRP(d, db, rpn); p != nil {
					for _, s := range p.Subscriptions {
						if s.Name == sub {
							return ""
						}
					}
				}
				return "subscription " + sub + " on " + db + "." + rpn + " does not exist"
			},
			mc: func(c *meta.Client) error {
				return c.CreateSubscription(db, rpn, sub, "ANY", []string{"udp://127.0.0.1:9"})
			}}
	default:
		// a shard group: through CreateShardGroup or through a write
		rpn := ""
		if di := d.Database(db); di != nil {
			rpn = di.DefaultRetentionPolicy
			if len(di.RetentionPolicies) > 0 && g.Intn(2) == 0 {
				rpn = di.RetentionPolicies[g.Intn(len(di.RetentionPolicies))].Name
			}
		}
		if rpn == "" {
			rpn = "autogen"
		}
		ts := time.Now().Add(-time.Duration(g.Intn(30)) * time.Minute).UTC()
		return call{desc: fmt.Sprintf("shard group for %s.%s at %s", db, rpn, ts.Format(time.RFC3339)), keys: []string{fmt.Sprintf("db/%s/rp/%s/sg/%d", db, rpn, ts.UnixNano())},
			pred: func(d *meta.Data) string {
				if p := findRP(d, db, rpn); p != nil {
					for i := range p.ShardGroups {
						if sg := &p.ShardGroups[i]; !sg.Deleted() && sg.Contains(ts) {
							return ""
						}
					}
				}
				return fmt.Sprintf("no live shard group of %s.%s covers %s", db, rpn, ts.Format(time.RFC3339))
			},
			mc:  func(c *meta.Client) error { _, err := c.CreateShardGroup(db, rpn, ts); return err },
			wdb: db, wrp: rpn, wline: fmt.Sprintf("m,t=a v=1 %d", ts.UnixNano())}
	}
}

// nextChange picks an operation that is a real change with respect to d (its
// effect is not there yet).
func (h *history) nextChange(d *meta.Data) call {
	var c call
	for try := 0; try < 40; try++ {
		c = h.nextCall(d)
		if c.pred(d) != "" {
			break
		}
	}
	return c
}

// isCommandError: the meta service executed the command and rejected it.
func isCommandError(msg string) bool {
	for _, s := range []string{"not found", "already exists", "exists", "conflict", "required", "invalid", "too low", "cannot", "can't", "must be", "greater than"} {
		if strings.Contains(msg, s) {
			return true
		}
	}
	return false
}

// issue runs one call through data node di and records the outcome.
func (h *history) issue(c call, di int, viaHTTP bool) *opRec {
	rec := &opRec{N: len(h.ops), Desc: c.desc, Keys: c.keys, Destr: c.destr, pred: c.pred}
	node := h.cl.Datas[di]
	var err error
	switch {
	case viaHTTP && c.wline != "":
		rec.Via = fmt.Sprintf("POST /write on data node %d", di)
		var st int
		var body string
		st, body, err = h.cl.Write(di, c.wdb, c.wrp, "", "ns", []byte(c.wline))
		if err == nil && st != 204 {
			err = fmt.Errorf("status %d: %s", st, strings.TrimSpace(body))
		}
	case viaHTTP && c.q != "":
		rec.Via = fmt.Sprintf("POST /query on data node %d", di)
		var resp *cluster.Response
		resp, err = h.cl.Query(di, "", c.q, nil)
		if err == nil {
			if resp.Err != "" {
				err = fmt.Errorf("%s", resp.Err)
			}
			for _, rs := range resp.Results {
				if rs.Err != "" {
					err = fmt.Errorf("%s", rs.Err)
				}
			}
		}
	default:
		rec.Via = fmt.Sprintf("meta.Client of data node %d", di)
		err = c.mc(node.Srv.MetaClient)
	}
	switch {
	case err == nil:
		rec.Outcome = ack
	case isCommandError(err.Error()) && !strings.Contains(err.Error(), "leader") && !strings.Contains(err.Error(), "meta service"):
		rec.Outcome, rec.Err = failed, err.Error()
	default:
		rec.Outcome, rec.Err = unknown, err.Error()
	}
	h.ops = append(h.ops, rec)
	r.Count("d_ops_"+string(rec.Outcome), 1)
	if rec.Outcome == ack {
		// the issuing node's cache must reflect the change already
		d := node.Srv.MetaClient.Data()
		r.Count("d_immediate_cache_checks", 1)
		if d.Index > h.maxIdx[di] {
			h.maxIdx[di] = d.Index
		}
		if why := c.pred(&d); why != "" {
			if sm := atomic.LoadUint64(&h.seenMax[di]); sm > h.maxIdx[di] {
				h.maxIdx[di] = sm
			}
			if d.Index < h.maxIdx[di] {
				r.Violation("C07/data-node-cache-went-backwards", h.id,
					fmt.Sprintf("after the acknowledged %q the cache of data node %d is at index %d although it had been at %d: %s", c.desc, di, d.Index, h.maxIdx[di], why), h.witness())
			} else {
				r.Violation("C07/acknowledged-change-missing-from-issuing-cache", h.id,
					fmt.Sprintf("%q was acknowledged through data node %d but the node's metadata cache (index %d) read right after the call does not reflect it: %s", c.desc, di, d.Index, why), h.witness())
			}
		}
	}
	return rec
}

// sampler watches the data nodes' caches for an index that goes backwards.
func (h *history) sampler() {
	defer h.samplerDone.Done()
	last := make([]uint64, len(h.cl.Datas))
	var first string
	for {
		select {
		case <-h.stopSampler:
			if n := atomic.LoadInt64(&h.regress); n > 0 {
				r.Count("d_cache_index_regressions_sampled", n)
				r.Violation("C07/data-node-cache-went-backwards", h.id,
					fmt.Sprintf("the metadata cache of a data node moved to an OLDER state %d time(s) (first: %s): the client installs whatever snapshot a meta node returns, also one from a node that is still replaying its log after a restart", n, first), h.witness())
			}
			return
		case <-time.After(2 * time.Millisecond):
		}
		for i, dn := range h.cl.Datas {
			d := dn.Srv.MetaClient.Data()
			if d.Index > atomic.LoadUint64(&h.seenMax[i]) {
				atomic.StoreUint64(&h.seenMax[i], d.Index)
			}
			if d.Index < last[i] {
				if atomic.AddInt64(&h.regress, 1) == 1 {
					first = fmt.Sprintf("data node %d cache index %d -> %d", i, last[i], d.Index)
				}
			}
			last[i] = d.Index
		}
	}
}

// ------------------------------------------------------------------ history

// startCluster starts the cluster. When a node cannot open (its port was
// taken in the meantime) the library's clean-up closes servers that never
// opened, which panics inside their Close: that is the harness tripping over
// a failed start, not an observation about the target.
func startCluster(dir string, nData int) (cl *cluster.Cluster, err error) {
	defer func() {
		if e := recover(); e != nil {
			st := string(debug.Stack())
			where := ""
			for _, l := range strings.Split(st, "\n") {
				if strings.Contains(l, "internal/cluster/cluster.go:") {
					where += " " + strings.TrimSpace(l[strings.LastIndex(l, "/")+1:])
				}
			}
			cl, err = nil, fmt.Errorf("start failed and the clean-up of the half-started cluster panicked: %v (at%s)", e, where)
		}
	}()
	return cluster.Start(dir, 3, nData, cluster.Options{})
}

func closeCluster(cl *cluster.Cluster) {
	safely := func(f func()) {
		defer func() { recover() }()
		f()
	}
	for i := range cl.Datas {
		i := i
		safely(func() { cl.StopData(i) })
	}
	for i := range cl.Metas {
		i := i
		safely(func() { cl.StopMeta(i) })
	}
}

func faultHistory(caseID string, seed int64) {
	g := rand.New(rand.NewSource(seed))
	nData := 1 + g.Intn(2)
	nOps := 26 + g.Intn(10)
	if r.Thorough() {
		nOps = 50 + g.Intn(40)
	}
	dir := tempDir("c07d")
	defer os.RemoveAll(dir)
	r.Begin(caseID, map[string]interface{}{"case_seed": seed, "data_nodes": nData, "ops": nOps})
	r.Eval(1)
	cl, err := startCluster(dir, nData)
	for try := 0; err != nil && try < 3; try++ {
		// ports picked for the servers were taken before they could bind: new ports
		r.Count("d_cluster_start_retries", 1)
		os.RemoveAll(dir)
		os.MkdirAll(dir, 0o755)
		cl, err = startCluster(dir, nData)
	}
	if err != nil {
		r.Inconclusive(fmt.Sprintf("(d) %s: cluster did not start: %v", caseID, err))
		return
	}
	defer closeCluster(cl)
	h := &history{id: caseID, seed: seed, g: g, cl: cl, down: map[int]bool{}, lastLeader: -1, maxIdx: make([]uint64, nData), seenMax: make([]uint64, nData), stopSampler: make(chan struct{})}
	h.renewHTTP()
	if h.waitLeader(60*time.Second) < 0 {
		r.Inconclusive(fmt.Sprintf("(d) %s: no leader after start", caseID))
		return
	}
	h.samplerDone.Add(1)
	go h.sampler()
	samplerStopped := false
	stopSampler := func() {
		if !samplerStopped {
			samplerStopped = true
			close(h.stopSampler)
			h.samplerDone.Wait()
		}
	}
	defer stopSampler()

	var faultSeq []string
	noQuorumOps := 0
	nextFault := 2 + g.Intn(3)
	forceAllAt := g.Intn(3) // the fault (by ordinal among those on a fully running cluster) that stops every node
	fullFaults := 0
	for len(h.ops) < nOps {
		if len(h.ops) >= nextFault {
			nextFault = len(h.ops) + 3 + g.Intn(4)
			kind := ""
			switch {
			case h.nDown() > 0: // bring stopped nodes back (sometimes after one more operation)
				kind = "restart-stopped"
				var is []int
				for i := range cl.Metas {
					if h.down[i] {
						is = append(is, i)
					}
				}
				if !h.start(is...) {
					return
				}
			default:
				l := h.waitLeader(60 * time.Second)
				if l < 0 {
					r.Inconclusive(fmt.Sprintf("(d) %s: no leader before a fault", caseID))
					return
				}
				pick := g.Intn(6)
				if fullFaults == forceAllAt {
					pick = 5
				} else if fullFaults == (forceAllAt+1)%3 {
					pick = 0 // every history stops its leader at least once
				}
				fullFaults++
				switch pick {
				case 0, 1:
					kind = "stop-leader"
					h.stop(l, "leader")
				case 2:
					kind = "stop-follower"
					h.stop((l+1+g.Intn(2))%3, "follower")
				case 3:
					kind = "restart-one"
					i := g.Intn(3)
					h.stop(i, "restart")
					if !h.start(i) {
						return
					}
				case 4:
					kind = "snapshot-then-restart"
					i := g.Intn(3)
					if err := cl.Metas[i].Srv.MetaService.VerifForceSnapshot(); err == nil {
						h.snapshots++
						r.Count("d_forced_snapshots", 1)
					}
					h.faults = append(h.faults, faultRec{len(h.ops), fmt.Sprintf("forced raft snapshot on meta %d", i)})
					h.stop(i, "after snapshot")
					if !h.start(i) {
						return
					}
				default:
					kind = "stop-all-restart-all"
					for i := range cl.Metas {
						if g.Intn(2) == 0 {
							if err := cl.Metas[i].Srv.MetaService.VerifForceSnapshot(); err == nil {
								h.snapshots++
								r.Count("d_forced_snapshots", 1)
							}
						}
					}
					order := g.Perm(3)
					for _, i := range order {
						h.stop(i, "all")
					}
					if noQuorumOps < 1 { // one real change sent into the void: it cannot be acknowledged
						noQuorumOps++
						di := g.Intn(nData)
						d := cl.Datas[di].Srv.MetaClient.Data()
						rec := h.issue(h.nextChange(&d), di, false)
						r.Count("d_ops_issued_without_quorum", 1)
						if rec.Outcome == ack {
							r.Count("d_ops_acknowledged_without_quorum", 1)
						}
					}
					if !h.start(g.Perm(3)...) {
						return
					}
				}
			}
			faultSeq = append(faultSeq, kind)
			r.Count("d_fault_"+kind, 1)
			if h.nDown() <= 1 {
				if h.waitLeader(90*time.Second) < 0 {
					r.Inconclusive(fmt.Sprintf("(d) %s: no leader within the watchdog after %s", caseID, kind))
					return
				}
			}
		}
		di := g.Intn(nData)
		d := cl.Datas[di].Srv.MetaClient.Data()
		c := h.nextCall(&d)
		if g.Intn(10) < 7 {
			c = h.nextChange(&d)
		}
		viaHTTP := g.Intn(2) == 0 && (c.q != "" || c.wline != "")
		h.issue(c, di, viaHTTP)
	}

	// ---- faults stop: everything up, a leader, equal applied indexes
	var is []int
	for i := range cl.Metas {
		if h.down[i] {
			is = append(is, i)
		}
	}
	if len(is) > 0 && !h.start(is...) {
		return
	}
	if h.waitLeader(90*time.Second) < 0 {
		r.Inconclusive(fmt.Sprintf("(d) %s: no leader within the watchdog after the last fault", caseID))
		return
	}
	// a final acknowledged marker: every node has to reach its index
	marker := "zz_marker"
	var mErr error
	for try := 0; try < 5; try++ {
		if _, mErr = cl.Datas[0].Srv.MetaClient.CreateDatabase(marker); mErr == nil {
			break
		}
		time.Sleep(500 * time.Millisecond)
	}
	if mErr != nil {
		r.Inconclusive(fmt.Sprintf("(d) %s: marker operation not acknowledged: %v", caseID, mErr))
		return
	}
	h.ops = append(h.ops, &opRec{N: len(h.ops), Desc: "CREATE DATABASE " + marker, Via: "meta.Client of data node 0", Outcome: ack, Keys: []string{"db/" + marker},
		pred: func(d *meta.Data) string {
			if d.Database(marker) == nil {
				return "database " + marker + " does not exist"
			}
			return ""
		}})
	deadline := time.Now().Add(120 * time.Second)
	var metas []*meta.Data
	var caches []meta.Data
	for {
		metas, caches = metas[:0], caches[:0]
		settled := true
		for _, m := range cl.Metas {
			d, err := fetchData(h.hc, m.HTTPAddr)
			if err != nil {
				settled = false
				break
			}
			metas = append(metas, d)
		}
		if settled {
			for _, d := range metas {
				if d.Index != metas[0].Index || d.Database(marker) == nil {
					settled = false
				}
			}
		}
		if settled {
			for _, dn := range cl.Datas {
				d := dn.Srv.MetaClient.Data()
				if d.Index != metas[0].Index {
					settled = false
				}
				caches = append(caches, d)
			}
		}
		if settled {
			break
		}
		if time.Now().After(deadline) {
			var idx []uint64
			for _, d := range metas {
				idx = append(idx, d.Index)
			}
			for _, dn := range cl.Datas {
				idx = append(idx, dn.Srv.MetaClient.Data().Index)
			}
			r.Inconclusive(fmt.Sprintf("(d) %s: nodes and caches did not reach one applied index within the watchdog (indexes %v)", caseID, idx))
			return
		}
		time.Sleep(100 * time.Millisecond)
	}
	stopSampler()

	// ---- oracle
	type view struct {
		name string
		d    *meta.Data
	}
	var views []view
	for i, d := range metas {
		views = append(views, view{fmt.Sprintf("meta node %d", i), d})
	}
	for i := range caches {
		views = append(views, view{fmt.Sprintf("cache of data node %d", i), &caches[i]})
	}
	ref := canon(views[0].d, canonLive, nil)
	for _, v := range views[1:] {
		r.Count("d_views_compared", 1)
		if c := canon(v.d, canonLive, nil); c != ref {
			sec, la, lb := diffSection(ref, c)
			what := "meta-nodes-diverge"
			if strings.HasPrefix(v.name, "cache") {
				what = "data-node-cache-diverges"
			}
			r.Violation("C07/"+what+"/"+sec, caseID,
				fmt.Sprintf("after the faults stopped and every node reached index %d, %s differs from meta node 0: %q vs %q", metas[0].Index, v.name, lb, la), h.witness())
		}
	}
	for i, op := range h.ops {
		if op.Outcome != ack || op.pred == nil {
			continue
		}
		superseded := false
		for _, later := range h.ops[i+1:] {
			if supersedes(later, op) {
				superseded = true
				break
			}
		}
		if superseded {
			r.Count("d_ack_superseded_by_later_op", 1)
			continue
		}
		// An acknowledgement may come from the client's cache without a round
		// trip (CreateDatabase of a database the cache still shows): it does
		// not order the operation after an EARLIER operation of unknown
		// outcome whose entry may still be committed later.
		shadowed := false
		for _, earlier := range h.ops[:i] {
			if earlier.Outcome == unknown && supersedes(earlier, op) {
				shadowed = true
				break
			}
		}
		if shadowed {
			r.Count("d_ack_not_binding_after_unknown_op", 1)
			continue
		}
		r.Count("d_ack_predicates_checked", 1)
		for _, v := range views {
			if why := op.pred(v.d); why != "" {
				where := "meta-node"
				if strings.HasPrefix(v.name, "cache") {
					where = "data-node-cache"
				}
				r.Violation("C07/acknowledged-change-lost/"+where, caseID,
					fmt.Sprintf("operation %d %q was acknowledged (%s) and no later operation touched its object, but on %s: %s", op.N, op.Desc, op.Via, v.name, why), h.witness())
				break
			}
		}
	}
	r.Count("d_histories_completed", 1)
	r.Count("d_leader_changes", int64(h.leaderChanges))
	r.Count("d_restarts", int64(h.restarts))
	if h.leaderChanges >= 1 && h.restarts >= 1 {
		r.Count("d_histories_nontrivial", 1)
		r.Nontrivial("d/" + strings.Join(faultSeq, ","))
	}
	if r.WantSample() {
		var ops []string
		for _, o := range h.ops {
			ops = append(ops, fmt.Sprintf("%s [%s]", o.Desc, o.Outcome))
		}
		r.Sample(map[string]interface{}{"case": caseID, "data_nodes": nData, "faults": h.faults, "operations": ops, "leader_changes": h.leaderChanges, "restarts": h.restarts})
	}
}

func runFaults() {
	if rc := r.ReplayCase(); rc != "" && !strings.HasPrefix(rc, "faults/") {
		return
	}
	n := r.Pick(3, 30)
	par := 3
	rng := r.Rand("faults")
	type job struct {
		id   string
		seed int64
	}
	jobs := make(chan job, n)
	for i := 0; i < n; i++ {
		id := fmt.Sprintf("faults/%d", i)
		seed := rng.Int63()
		if r.Skip(id) {
			continue
		}
		jobs <- job{id, seed}
	}
	close(jobs)
	var wg sync.WaitGroup
	for w := 0; w < par; w++ {
		wg.Add(1)
		go func() {
			defer wg.Done()
			for j := range jobs {
				faultHistory(j.id, j.seed)
			}
		}()
	}
	wg.Wait()
}
