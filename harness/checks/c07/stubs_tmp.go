package main

func runFaults() {}
