// gen.go — command-log generator (copied from checks/c06). Arguments come from small pools so that
// repeats, conflicts and invalid references are common. The generator looks
// at replica 0's current metadata only to aim ids at things that exist
// (or used to exist); everything else comes from the per-log PRNG.
package main

import (
	"encoding/hex"
	"fmt"
	"math"
	"math/rand"
	"strings"
	"time"

	"github.com/influxdata/influxdb/services/meta"
)

// Cmd is one log entry.
type Cmd struct {
	Type  int    `json:"-"`
	Desc  string `json:"cmd"`
	Index uint64 `json:"index"`
	Term  uint64 `json:"term"`
	// Snap: after this entry replica 3 is 1 = restored from its own snapshot,
	// 2 = replaced by a fresh instance restored from its snapshot.
	Snap  int    `json:"snap,omitempty"`
	Hex   string `json:"hex"`
	bytes []byte

	nodeID uint64 // DeleteDataNode / CopyShardOwner target, for the oracle
}

func (c *Cmd) TypeName() string { return TypeName[c.Type] }

func mk(typ int, b []byte, desc string) *Cmd {
	return &Cmd{Type: typ, Desc: desc, bytes: b, Hex: hex.EncodeToString(b)}
}

const (
	kCreateDataNode = iota
	kDeleteDataNode
	kUpdateDataNode
	kCreateMetaNode
	kDeleteMetaNode
	kSetMetaNode
	kCreateDatabase
	kDropDatabase
	kCreateRP
	kDropRP
	kUpdateRP
	kCreateShardGroup
	kDeleteShardGroup
	kDropShard
	kTruncate
	kPrune
	kCopyOwner
	kRemoveOwner
	kCreateUser
	kDropUser
	kUpdateUser
	kSetPrivilege
	kSetAdmin
	kCreateCQ
	kDropCQ
	kCreateSub
	kDropSub
	kSetData
	kLegacyDeleteNode
	kLegacyUpdateNode
	nKinds
)

var baseWeight = [nKinds]float64{
	kCreateDataNode: 6, kDeleteDataNode: 4, kUpdateDataNode: 2, kCreateMetaNode: 2, kDeleteMetaNode: 1, kSetMetaNode: 1,
	kCreateDatabase: 4, kDropDatabase: 0.7, kCreateRP: 5, kDropRP: 0.7, kUpdateRP: 4,
	kCreateShardGroup: 20, kDeleteShardGroup: 3, kDropShard: 3, kTruncate: 4, kPrune: 2, kCopyOwner: 5, kRemoveOwner: 4,
	kCreateUser: 2, kDropUser: 1, kUpdateUser: 1, kSetPrivilege: 2, kSetAdmin: 1, kCreateCQ: 2, kDropCQ: 1,
	kCreateSub: 2, kDropSub: 1, kSetData: 1, kLegacyDeleteNode: 0.4, kLegacyUpdateNode: 0.4,
}

// t0 is deliberately not aligned to any shard group duration.
const t0 = int64(1700000000) * int64(time.Second)

type profile struct {
	N          int
	w          [nKinds]float64
	wsum       float64
	Step       int64 // spacing of the timestamp pool
	AutoCreate bool  // Config.RetentionAutoCreate
	Extreme    bool  // timestamps / durations from the far ends, sometimes
	SnapP      float64
	SharedAddr bool // meta and data nodes may share a TCP address (id reuse path)
}

var steps = []int64{int64(20 * time.Minute), int64(time.Hour), int64(6 * time.Hour), int64(24 * time.Hour), int64(72 * time.Hour)}

func newProfile(g *rand.Rand) *profile {
	p := &profile{}
	p.N = 50 + g.Intn(351)
	mult := []float64{0.25, 1, 1, 3}
	for k := 0; k < nKinds; k++ {
		p.w[k] = baseWeight[k] * mult[g.Intn(len(mult))]
		p.wsum += p.w[k]
	}
	p.Step = steps[g.Intn(len(steps))]
	p.AutoCreate = g.Intn(4) != 0
	p.Extreme = g.Intn(8) == 0
	p.SnapP = []float64{0.02, 0.08, 0.3}[g.Intn(3)]
	p.SharedAddr = g.Intn(3) == 0
	return p
}

func (p *profile) kind(g *rand.Rand) int {
	x := g.Float64() * p.wsum
	for k := 0; k < nKinds; k++ {
		x -= p.w[k]
		if x < 0 {
			return k
		}
	}
	return kCreateShardGroup
}

var (
	dbPool   = []string{"db0", "db1", "db2"}
	rpPool   = []string{"rp0", "rp1", "autogen"}
	userPool = []string{"u0", "u1", "u2"}
	durPool  = []int64{0, 0, int64(30 * time.Minute), int64(time.Hour), int64(2 * time.Hour), int64(24 * time.Hour), int64(7 * 24 * time.Hour), int64(30 * 24 * time.Hour), int64(200 * 24 * time.Hour), -int64(time.Hour)}
	sgdPool  = []int64{0, 0, int64(10 * time.Minute), int64(time.Hour), int64(90 * time.Minute), int64(7 * time.Hour), int64(24 * time.Hour), int64(7 * 24 * time.Hour), int64(1000 * time.Hour), -1}
	rfPool   = []uint32{0, 1, 1, 2, 2, 3, 5}
	queries  = []string{`CREATE CONTINUOUS QUERY cq ON db BEGIN SELECT mean(v) INTO m1 FROM m GROUP BY time(1m) END`, `create continuous query cq on db begin select mean(v) into m1 from m group by time(1m) end`, `CREATE CONTINUOUS QUERY cq ON db BEGIN SELECT max(v) INTO m2 FROM m GROUP BY time(5m) END`}
	destPool = [][]string{{"udp://h1:9000"}, {"http://h1:8086", "udp://h2:9000"}, {"https://h3:443"}, {"ftp://h1:21"}, {"http://noport"}, {}}
	httpPool = []string{"h0:8086", "h1:8086", "h2:8086", "h3:8086", "h4:8086", "h5:8086"}
	dtcpPool = []string{"d0:8088", "d1:8088", "d2:8088", "d3:8088", "d4:8088", "d5:8088"}
	mtcpPool = []string{"m0:8089", "m1:8089", "m2:8089"}
	extremes = []int64{0, 1, -1, math.MinInt64, math.MinInt64 + 2, math.MaxInt64, math.MaxInt64 - 1, 1 << 62, -(1 << 62)}
)

type gen struct {
	g       *rand.Rand
	p       *profile
	removed []uint64 // data-node ids seen removed (for aiming CopyShardOwner)
}

func (x *gen) db() string {
	switch x.g.Intn(30) {
	case 0:
		return ""
	case 1:
		return strings.Repeat("n", 256)
	case 2:
		return "nosuchdb"
	}
	return dbPool[x.g.Intn(len(dbPool))]
}

func (x *gen) rp() string {
	switch x.g.Intn(25) {
	case 0:
		return ""
	case 1:
		return "nosuchrp"
	}
	return rpPool[x.g.Intn(len(rpPool))]
}

func (x *gen) user() string {
	if x.g.Intn(20) == 0 {
		return ""
	}
	return userPool[x.g.Intn(len(userPool))]
}

// existing (db, rp) with probability ~0.75, else from the pools.
func (x *gen) dbrp(d *meta.Data) (string, string) {
	if len(d.Databases) > 0 && x.g.Intn(4) != 0 {
		di := &d.Databases[x.g.Intn(len(d.Databases))]
		if len(di.RetentionPolicies) > 0 && x.g.Intn(8) != 0 {
			return di.Name, di.RetentionPolicies[x.g.Intn(len(di.RetentionPolicies))].Name
		}
		return di.Name, x.rp()
	}
	return x.db(), x.rp()
}

func (x *gen) ts() int64 {
	if x.p.Extreme && x.g.Intn(12) == 0 {
		return extremes[x.g.Intn(len(extremes))]
	}
	k := int64(x.g.Intn(16) - 3)
	return t0 + k*x.p.Step + x.g.Int63n(x.p.Step)
}

func (x *gen) dur(pool []int64) int64 {
	if x.p.Extreme && x.g.Intn(15) == 0 {
		return []int64{math.MaxInt64, math.MinInt64, int64(100 * 365 * 24 * time.Hour), 1}[x.g.Intn(4)]
	}
	return pool[x.g.Intn(len(pool))]
}

func (x *gen) rpinfo(name string) RPInfo {
	return RPInfo{Name: name, Duration: x.dur(durPool), ShardGroupDuration: x.dur(sgdPool), ReplicaN: rfPool[x.g.Intn(len(rfPool))]}
}

func (x *gen) dataTCP() string {
	if x.p.SharedAddr && x.g.Intn(4) == 0 {
		return mtcpPool[x.g.Intn(len(mtcpPool))]
	}
	return dtcpPool[x.g.Intn(len(dtcpPool))]
}

func (x *gen) metaTCP() string {
	if x.p.SharedAddr && x.g.Intn(3) == 0 {
		return dtcpPool[x.g.Intn(len(dtcpPool))]
	}
	return mtcpPool[x.g.Intn(len(mtcpPool))]
}

func (x *gen) nodeID(d *meta.Data) uint64 {
	switch {
	case len(d.DataNodes) > 0 && x.g.Intn(10) < 7:
		return d.DataNodes[x.g.Intn(len(d.DataNodes))].ID
	case len(x.removed) > 0 && x.g.Intn(2) == 0:
		return x.removed[x.g.Intn(len(x.removed))]
	}
	return uint64(x.g.Int63n(int64(d.MaxNodeID) + 3))
}

type shardRef struct {
	db, rp string
	group  uint64
	shard  uint64
	owners []uint64
}

func allShards(d *meta.Data) (out []shardRef) {
	for i := range d.Databases {
		for j := range d.Databases[i].RetentionPolicies {
			rp := &d.Databases[i].RetentionPolicies[j]
			for k := range rp.ShardGroups {
				for _, sh := range rp.ShardGroups[k].Shards {
					r := shardRef{db: d.Databases[i].Name, rp: rp.Name, group: rp.ShardGroups[k].ID, shard: sh.ID}
					for _, o := range sh.Owners {
						r.owners = append(r.owners, o.NodeID)
					}
					out = append(out, r)
				}
			}
		}
	}
	return
}

func (x *gen) shard(d *meta.Data) (shardRef, bool) {
	if x.g.Intn(6) != 0 {
		if s := allShards(d); len(s) > 0 {
			return s[x.g.Intn(len(s))], true
		}
	}
	return shardRef{shard: uint64(x.g.Int63n(int64(d.MaxShardID) + 3))}, false
}

func fmtTS(ts int64) string {
	return fmt.Sprintf("%d(%s)", ts, time.Unix(0, ts).UTC().Format("2006-01-02T15:04:05.999999999Z"))
}

func fmtDur(d int64) string {
	if d > -int64(1000000*time.Hour) && d < int64(1000000*time.Hour) {
		return time.Duration(d).String()
	}
	return fmt.Sprintf("%dns", d)
}

func (r RPInfo) String() string {
	return fmt.Sprintf("{%s dur=%s sgd=%s rf=%d}", r.Name, fmtDur(r.Duration), fmtDur(r.ShardGroupDuration), r.ReplicaN)
}

// next generates the next command given replica 0's current metadata.
func (x *gen) next(d *meta.Data) *Cmd {
	g := x.g
	switch x.p.kind(g) {
	case kCreateDataNode:
		h, t := httpPool[g.Intn(len(httpPool))], x.dataTCP()
		return mk(TypeCreateDataNode, CmdCreateDataNode(h, t), fmt.Sprintf("CreateDataNode(%s,%s)", h, t))
	case kDeleteDataNode:
		id := x.nodeID(d)
		c := mk(TypeDeleteDataNode, CmdDeleteDataNode(id), fmt.Sprintf("DeleteDataNode(%d)", id))
		c.nodeID = id
		return c
	case kUpdateDataNode:
		id := x.nodeID(d)
		h, t := httpPool[g.Intn(len(httpPool))], x.dataTCP()
		return mk(TypeUpdateDataNode, CmdUpdateDataNode(id, h, t), fmt.Sprintf("UpdateDataNode(%d,%s,%s)", id, h, t))
	case kCreateMetaNode:
		h, t, r := httpPool[g.Intn(len(httpPool))], x.metaTCP(), uint64(g.Intn(3))
		return mk(TypeCreateMetaNode, CmdCreateMetaNode(h, t, r), fmt.Sprintf("CreateMetaNode(%s,%s,rand=%d)", h, t, r))
	case kDeleteMetaNode:
		id := uint64(g.Int63n(int64(d.MaxNodeID) + 2))
		if len(d.MetaNodes) > 0 && g.Intn(3) != 0 {
			id = d.MetaNodes[g.Intn(len(d.MetaNodes))].ID
		}
		return mk(TypeDeleteMetaNode, CmdDeleteMetaNode(id), fmt.Sprintf("DeleteMetaNode(%d)", id))
	case kSetMetaNode:
		h, t, r := httpPool[g.Intn(len(httpPool))], x.metaTCP(), uint64(g.Intn(3))
		return mk(TypeSetMetaNode, CmdSetMetaNode(h, t, r), fmt.Sprintf("SetMetaNode(%s,%s,rand=%d)", h, t, r))
	case kCreateDatabase:
		name := x.db()
		if g.Intn(2) == 0 {
			return mk(TypeCreateDatabase, CmdCreateDatabase(name, nil), fmt.Sprintf("CreateDatabase(%q)", short(name)))
		}
		rp := x.rpinfo(x.rp())
		return mk(TypeCreateDatabase, CmdCreateDatabase(name, &rp), fmt.Sprintf("CreateDatabase(%q,%v)", short(name), rp))
	case kDropDatabase:
		name := x.db()
		return mk(TypeDropDatabase, CmdDropDatabase(name), fmt.Sprintf("DropDatabase(%q)", short(name)))
	case kCreateRP:
		db := x.db()
		if len(d.Databases) > 0 && g.Intn(5) != 0 {
			db = d.Databases[g.Intn(len(d.Databases))].Name
		}
		rp := x.rpinfo(x.rp())
		def := g.Intn(3) == 0
		return mk(TypeCreateRetentionPolicy, CmdCreateRetentionPolicy(db, rp, def), fmt.Sprintf("CreateRetentionPolicy(%q,%v,default=%v)", short(db), rp, def))
	case kDropRP:
		db, rp := x.dbrp(d)
		return mk(TypeDropRetentionPolicy, CmdDropRetentionPolicy(db, rp), fmt.Sprintf("DropRetentionPolicy(%q,%q)", short(db), rp))
	case kUpdateRP:
		db, rp := x.dbrp(d)
		var nn *string
		var du, sd *int64
		var rf *uint32
		desc := ""
		if g.Intn(5) == 0 {
			v := x.rp()
			nn = &v
			desc += " name=" + v
		}
		if g.Intn(3) == 0 {
			v := x.dur(durPool)
			du = &v
			desc += " dur=" + fmtDur(v)
		}
		if g.Intn(2) == 0 {
			v := rfPool[g.Intn(len(rfPool))]
			rf = &v
			desc += fmt.Sprintf(" rf=%d", v)
		}
		if g.Intn(2) == 0 {
			v := x.dur(sgdPool)
			sd = &v
			desc += " sgd=" + fmtDur(v)
		}
		def := g.Intn(4) == 0
		return mk(TypeUpdateRetentionPolicy, CmdUpdateRetentionPolicy(db, rp, nn, du, rf, sd, def), fmt.Sprintf("UpdateRetentionPolicy(%q,%q,%s default=%v)", short(db), rp, desc, def))
	case kCreateShardGroup:
		db, rp := x.dbrp(d)
		ts := x.ts()
		return mk(TypeCreateShardGroup, CmdCreateShardGroup(db, rp, ts), fmt.Sprintf("CreateShardGroup(%q,%q,%s)", short(db), rp, fmtTS(ts)))
	case kDeleteShardGroup:
		db, rp := x.dbrp(d)
		id := uint64(g.Int63n(int64(d.MaxShardGroupID) + 2))
		if s, ok := x.shard(d); ok && g.Intn(5) != 0 {
			db, rp, id = s.db, s.rp, s.group
		}
		return mk(TypeDeleteShardGroup, CmdDeleteShardGroup(db, rp, id), fmt.Sprintf("DeleteShardGroup(%q,%q,%d)", short(db), rp, id))
	case kDropShard:
		s, _ := x.shard(d)
		return mk(TypeDropShard, CmdDropShard(s.shard), fmt.Sprintf("DropShard(%d)", s.shard))
	case kTruncate:
		ts := x.ts()
		return mk(TypeTruncateShardGroups, CmdTruncateShardGroups(ts), fmt.Sprintf("TruncateShardGroups(%s)", fmtTS(ts)))
	case kPrune:
		return mk(TypePruneShardGroups, CmdPruneShardGroups(), "PruneShardGroups()")
	case kCopyOwner:
		s, _ := x.shard(d)
		id := x.nodeID(d)
		c := mk(TypeCopyShardOwner, CmdCopyShardOwner(s.shard, id), fmt.Sprintf("CopyShardOwner(shard=%d,node=%d)", s.shard, id))
		c.nodeID = id
		return c
	case kRemoveOwner:
		s, ok := x.shard(d)
		id := x.nodeID(d)
		if ok && len(s.owners) > 0 && g.Intn(4) != 0 {
			id = s.owners[g.Intn(len(s.owners))]
		}
		return mk(TypeRemoveShardOwner, CmdRemoveShardOwner(s.shard, id), fmt.Sprintf("RemoveShardOwner(shard=%d,node=%d)", s.shard, id))
	case kCreateUser:
		u, h, a := x.user(), fmt.Sprintf("hash%d", g.Intn(3)), g.Intn(3) == 0
		return mk(TypeCreateUser, CmdCreateUser(u, h, a), fmt.Sprintf("CreateUser(%q,%s,admin=%v)", u, h, a))
	case kDropUser:
		u := x.user()
		return mk(TypeDropUser, CmdDropUser(u), fmt.Sprintf("DropUser(%q)", u))
	case kUpdateUser:
		u, h := x.user(), fmt.Sprintf("hash%d", g.Intn(3))
		return mk(TypeUpdateUser, CmdUpdateUser(u, h), fmt.Sprintf("UpdateUser(%q,%s)", u, h))
	case kSetPrivilege:
		u, db, pr := x.user(), x.db(), int32(g.Intn(5))-1
		return mk(TypeSetPrivilege, CmdSetPrivilege(u, db, pr), fmt.Sprintf("SetPrivilege(%q,%q,%d)", u, short(db), pr))
	case kSetAdmin:
		u, a := x.user(), g.Intn(2) == 0
		return mk(TypeSetAdminPrivilege, CmdSetAdminPrivilege(u, a), fmt.Sprintf("SetAdminPrivilege(%q,%v)", u, a))
	case kCreateCQ:
		db, n, q := x.db(), fmt.Sprintf("cq%d", g.Intn(2)), queries[g.Intn(len(queries))]
		return mk(TypeCreateContinuousQuery, CmdCreateContinuousQuery(db, n, q), fmt.Sprintf("CreateContinuousQuery(%q,%s,q%d)", short(db), n, len(q)))
	case kDropCQ:
		db, n := x.db(), fmt.Sprintf("cq%d", g.Intn(2))
		return mk(TypeDropContinuousQuery, CmdDropContinuousQuery(db, n), fmt.Sprintf("DropContinuousQuery(%q,%s)", short(db), n))
	case kCreateSub:
		db, rp := x.dbrp(d)
		n, m, ds := fmt.Sprintf("s%d", g.Intn(2)), []string{"ANY", "ALL"}[g.Intn(2)], destPool[g.Intn(len(destPool))]
		return mk(TypeCreateSubscription, CmdCreateSubscription(n, db, rp, m, ds), fmt.Sprintf("CreateSubscription(%s,%q,%q,%s,%v)", n, short(db), rp, m, ds))
	case kDropSub:
		db, rp := x.dbrp(d)
		n := fmt.Sprintf("s%d", g.Intn(2))
		return mk(TypeDropSubscription, CmdDropSubscription(n, db, rp), fmt.Sprintf("DropSubscription(%s,%q,%q)", n, short(db), rp))
	case kSetData:
		// The current metadata itself, with the wall-clock deletion stamps of
		// some deleted groups moved far into the past (so that a later
		// PruneShardGroups removes them). Restoring an arbitrary older state
		// would legitimately re-issue ids and is outside the property.
		// The snapshot encoding cannot express a time outside int64 nanoseconds
		// or a truncation at exactly the epoch (both listed findings): such a
		// state cannot be handed to SetData as "itself".
		if oor, epoch := unrepresentable(d); len(oor.times)+len(epoch.times) > 0 {
			return mk(TypePruneShardGroups, CmdPruneShardGroups(), "PruneShardGroups()")
		}
		backdate := g.Intn(4) != 0
		old := time.Unix(946684800, 0).UTC()
		sel := g.Int63()
		payload := EncodeData(d, func(id uint64, at time.Time) time.Time {
			if backdate && (sel>>(id%60))&1 == 0 {
				return old
			}
			return at
		})
		return mk(TypeSetData, CmdSetData(payload), fmt.Sprintf("SetData(current state, %d bytes, backdate=%v)", len(payload), backdate))
	case kLegacyDeleteNode:
		id := x.nodeID(d)
		return mk(TypeDeleteNode, CmdDeleteNode(id, g.Intn(2) == 0), fmt.Sprintf("DeleteNode[legacy](%d)", id))
	default:
		id := x.nodeID(d)
		return mk(TypeUpdateNode, CmdUpdateNode(id, "hx"), fmt.Sprintf("UpdateNode[legacy](%d)", id))
	}
}

func short(s string) string {
	if len(s) > 20 {
		return fmt.Sprintf("%s..(%d)", s[:4], len(s))
	}
	return s
}

var (
	minNS = time.Unix(0, math.MinInt64)
	maxNS = time.Unix(0, math.MaxInt64)
)

// unrepresentable lists the groups that carry a time outside the range of
// int64 nanoseconds since the epoch (oor), and the groups truncated at exactly
// the Unix epoch (epoch). Both used to be lost by the snapshot encoding (fixed
// in the repository); the generator still avoids handing such a state to
// SetData through the harness's own encoder.
func unrepresentable(d *meta.Data) (oor, epoch *mask) {
	oor, epoch = &mask{times: map[uint64]bool{}}, &mask{times: map[uint64]bool{}}
	for i := range d.Databases {
		for j := range d.Databases[i].RetentionPolicies {
			for _, sg := range d.Databases[i].RetentionPolicies[j].ShardGroups {
				for _, t := range []time.Time{sg.StartTime, sg.EndTime, sg.TruncatedAt} {
					if !t.IsZero() && (t.Before(minNS) || t.After(maxNS)) {
						oor.times[sg.ID] = true
					}
				}
				if !sg.TruncatedAt.IsZero() && sg.TruncatedAt.Equal(time.Unix(0, 0)) {
					epoch.times[sg.ID] = true
				}
			}
		}
	}
	return
}

func readVarint(b []byte) (uint64, int) {
	var v uint64
	for i := 0; i < len(b) && i < 10; i++ {
		v |= uint64(b[i]&0x7f) << (7 * uint(i))
		if b[i] < 0x80 {
			return v, i + 1
		}
	}
	return 0, 0
}
