package main

// Abstract points and an independent line-protocol writer.
//
// The writer below is written from the line-protocol documentation, not from
// the parser: measurement escapes `,` and ` `; tag keys, tag values and field
// keys escape `,` ` ` and `=`; string field values are double quoted and
// escape `"` and `\`. Nothing else is escaped.
//
// The documentation is silent about a literal backslash that is followed by a
// character which is special somewhere in the grammar, and the parser's
// behaviour there differs between scanners (pairing vs. "previous byte is a
// backslash"). To never call correct behaviour wrong, the claimed-valid
// domain keeps every run of literal backslashes in a name followed by an
// ordinary byte, except in "exotic" points (measurement / tags only) where a
// backslash may precede a character that is escaped in that very position.

import (
	"bytes"
	"fmt"
	"math"
	"math/rand"
	"sort"
	"strconv"
	"strings"
	"time"
)

type tagKV struct{ K, V string }

const (
	kFloat = iota
	kInt
	kUint
	kBool
	kString
)

type field struct {
	Key  string
	Kind int
	F    float64
	I    int64
	U    uint64
	B    bool
	S    string
	Text string // value text as written on the line
	Form string // name of the textual form
}

func (f field) value() interface{} {
	switch f.Kind {
	case kFloat:
		return f.F
	case kInt:
		return f.I
	case kUint:
		return f.U
	case kBool:
		return f.B
	}
	return f.S
}

type absPoint struct {
	M       string
	Tags    []tagKV // in the order they are written on the line
	Fields  []field
	HasTime bool
	TS      int64 // in units of Prec
	TSText  string
	TSForm  string
	Prec    string
	Default time.Time
	Exotic  bool
}

var precisions = []string{"n", "u", "ms", "s", "m", "h", ""}

func precMult(p string) int64 {
	switch p {
	case "u":
		return 1e3
	case "ms":
		return 1e6
	case "s":
		return 1e9
	case "m":
		return 60e9
	case "h":
		return 3600e9
	}
	return 1
}

const (
	minNano = int64(math.MinInt64) + 2
	maxNano = int64(math.MaxInt64) - 1
)

func floorDiv(a, b int64) int64 {
	q := a / b
	if (a%b != 0) && ((a < 0) != (b < 0)) {
		q--
	}
	return q
}

// expectedNS is the timestamp the point must carry.
func (p *absPoint) expectedNS() int64 {
	m := precMult(p.Prec)
	if p.HasTime {
		return p.TS * m
	}
	return floorDiv(p.Default.UnixNano(), m) * m
}

// ------------------------------------------------------------------ names

var plainAtoms = []string{"a", "b", "c", "d", "cpu", "host", "region", "us", "A", "Z", "0", "9", "_", "-", ".", "x", "y", "value", "ab", "abc"}
var specialAtoms = []string{",", " ", "=", "\"", "\\", "\\\\", ",,", "  ", "==", ", ", "=,", " =", "\\\\\\"}
var oddAtoms = []string{"\t", "\x00", "\x7f", "\r", "é", "日本", "😀", "\x80", "\xff", "\xc3", "\xfe\xfd", "#", "!", "~", "'", "+", "/", ":", "i", "u", "e", "t", "f", "n", "N", "1", "-1", "1e5", "true", "\xef\xbf\xbd"}

func isSpecial(c byte) bool { return c == ',' || c == ' ' || c == '=' || c == '"' }

const (
	ctxMeasurement = iota
	ctxTag
	ctxFieldKey
)

func rawName(g *rand.Rand) string {
	n := 1 + g.Intn(4)
	if g.Intn(6) == 0 {
		n = 1 + g.Intn(9)
	}
	var b strings.Builder
	for i := 0; i < n; i++ {
		switch k := g.Intn(100); {
		case k < 50:
			b.WriteString(plainAtoms[g.Intn(len(plainAtoms))])
		case k < 82:
			b.WriteString(specialAtoms[g.Intn(len(specialAtoms))])
		default:
			b.WriteString(oddAtoms[g.Intn(len(oddAtoms))])
		}
	}
	return b.String()
}

// fixName forces a raw name into the claimed-valid domain of its position.
func fixName(s string, ctx int, exotic bool) string {
	s = strings.ReplaceAll(s, "\n", "")
	if exotic {
		// exotic points never carry a double quote in a name (see header of
		// hostile.go: the request splitter is a heuristic on quotes).
		s = strings.ReplaceAll(s, "\"", "")
	}
	var out []byte
	for i := 0; i < len(s); i++ {
		out = append(out, s[i])
		if s[i] != '\\' {
			continue
		}
		if i+1 < len(s) && s[i+1] == '\\' {
			continue // inside a run
		}
		// end of a run of backslashes
		if i+1 == len(s) {
			out = append(out, 'x')
			continue
		}
		c := s[i+1]
		if !isSpecial(c) {
			continue
		}
		ok := false
		if exotic {
			switch ctx {
			case ctxMeasurement:
				ok = c == ',' || c == ' '
			case ctxTag:
				ok = c == ',' || c == ' ' || c == '='
			}
		}
		if !ok {
			out = append(out, 'z')
		}
	}
	s = string(out)
	if s == "" {
		s = "n"
	}
	switch ctx {
	case ctxMeasurement:
		if s[0] == '#' || s[0] == '\t' || s[0] == 0 {
			s = "m" + s
		}
	case ctxFieldKey:
		if s[0] == '\t' || s[0] == 0 {
			s = "f" + s
		}
	}
	return s
}

func genName(g *rand.Rand, ctx int, exotic bool) string {
	return fixName(rawName(g), ctx, exotic)
}

// ------------------------------------------------------------------ values

var specialFloats = []float64{0, math.Copysign(0, -1), 1, -1, 0.1, -0.1, 0.5, 1.0 / 3, 100, 1e6, 1e21, 1e22, 1e23, 8.41e21, 5e-324, -5e-324,
	math.MaxFloat64, -math.MaxFloat64, math.Float64frombits(0x000fffffffffffff), math.Float64frombits(0x0010000000000000),
	9007199254740992, 9007199254740993, 9007199254740991, 2.2250738585072011e-308, 1.7976931348623157e308, 4.9e-324, 123456789.123456789, 1e-7, 1e-5, 3.14159}

func genFloat(g *rand.Rand) float64 {
	switch g.Intn(7) {
	case 0:
		return specialFloats[g.Intn(len(specialFloats))]
	case 1:
		for {
			f := math.Float64frombits(g.Uint64())
			if !math.IsNaN(f) && !math.IsInf(f, 0) {
				return f
			}
		}
	case 2:
		return float64(g.Int63n(2000) - 1000)
	case 3:
		return float64(g.Int63n(200000)-100000) / 100
	case 4:
		return float64(g.Int63()-g.Int63()) * math.Pow(10, float64(g.Intn(40)-20))
	case 5:
		return g.NormFloat64() * math.Pow(10, float64(g.Intn(600)-300))
	default:
		return g.NormFloat64()
	}
}

// floatText returns a textual form which denotes exactly v (verified with
// strconv, which is trusted) and the name of the form.
func floatText(g *rand.Rand, v float64) (string, string) {
	for {
		s, form := floatText1(g, v)
		if f, err := strconv.ParseFloat(s, 64); err == nil && math.Float64bits(f) == math.Float64bits(v) {
			return s, form
		}
	}
}

func floatText1(g *rand.Rand, v float64) (string, string) {
	sf := strconv.FormatFloat(v, 'f', -1, 64)
	isInt := v == math.Trunc(v) && math.Abs(v) < 1e15
	for {
		switch g.Intn(12) {
		case 0, 1:
			return sf, "f"
		case 2:
			return strconv.FormatFloat(v, 'e', -1, 64), "e"
		case 3:
			return strconv.FormatFloat(v, 'E', -1, 64), "E"
		case 4:
			return strings.Replace(strconv.FormatFloat(v, 'e', -1, 64), "e+", "e", 1), "e-noplus"
		case 5:
			return strconv.FormatFloat(v, 'g', 17, 64), "g17"
		case 6:
			return strconv.FormatFloat(v, 'e', 20, 64), "e20"
		case 7:
			if isInt && !strings.ContainsAny(sf, ".") {
				return sf + ".", "int-trailing-dot"
			}
		case 8:
			if isInt && !strings.ContainsAny(sf, ".") {
				return sf + ".0", "int-dot-zero"
			}
		case 9:
			if strings.HasPrefix(sf, "0.") {
				return sf[1:], "leading-dot"
			}
			if strings.HasPrefix(sf, "-0.") {
				return "-" + sf[2:], "neg-leading-dot"
			}
		case 10:
			if isInt && !strings.ContainsAny(sf, ".") {
				return sf + "e0", "int-e0"
			}
		case 11:
			if len(sf) < 40 {
				return strconv.FormatFloat(v, 'f', 40, 64), "f40-exact"
			}
		}
	}
}

func init() {
	// 'f' with 40 decimals is only exact-enough for values that are not tiny;
	// guard: the form above is used only when the short form is short, and it
	// is verified here once for the special list.
	for _, v := range specialFloats {
		s := strconv.FormatFloat(v, 'e', 20, 64)
		if f, err := strconv.ParseFloat(s, 64); err != nil || math.Float64bits(f) != math.Float64bits(v) {
			panic("harness: e20 form does not round-trip " + s)
		}
	}
}

var specialInts = []int64{0, 1, -1, math.MaxInt64, math.MinInt64, math.MaxInt64 - 1, math.MinInt64 + 1, 1e18, -1e18, 999999999999999999, 1000000000000000000, 42, 1 << 53, math.MaxInt32, math.MinInt32}

func genInt(g *rand.Rand) int64 {
	switch g.Intn(4) {
	case 0:
		return specialInts[g.Intn(len(specialInts))]
	case 1:
		return g.Int63() - g.Int63()
	case 2:
		return int64(g.Intn(2000) - 1000)
	default:
		return (g.Int63() - g.Int63()) >> uint(g.Intn(63))
	}
}

var specialUints = []uint64{0, 1, math.MaxUint64, math.MaxInt64, math.MaxInt64 + 1, math.MaxUint64 - 1, 1e19, 42}

func genUint(g *rand.Rand) uint64 {
	switch g.Intn(3) {
	case 0:
		return specialUints[g.Intn(len(specialUints))]
	case 1:
		return g.Uint64()
	default:
		return g.Uint64() >> uint(g.Intn(64))
	}
}

var trueForms = []string{"t", "T", "true", "True", "TRUE"}
var falseForms = []string{"f", "F", "false", "False", "FALSE"}

var stringAtoms = []string{"a", "b", "hello", " ", ",", "=", "\"", "\\", "\n", "\\\\", "\"\"", "\\\"", "\t", "\x00", "\xff", "\x80\x81", "é", "日本", "1", "1i", "true", "#", "\r\n", "m,t=v f=1 1", "'", "\\n"}

func genString(g *rand.Rand) string {
	n := g.Intn(6)
	switch g.Intn(12) {
	case 0:
		return ""
	case 1:
		n = 6 + g.Intn(30)
	}
	var b strings.Builder
	for i := 0; i < n; i++ {
		b.WriteString(stringAtoms[g.Intn(len(stringAtoms))])
	}
	return b.String()
}

// escString writes a string field value. lenient leaves a backslash
// unescaped where the documentation allows it unambiguously: a single
// backslash (no backslash neighbour) followed by a byte other than `"`.
func escString(s string, lenient bool) string {
	var b []byte
	b = append(b, '"')
	for i := 0; i < len(s); i++ {
		c := s[i]
		switch c {
		case '"':
			b = append(b, '\\', '"')
		case '\\':
			if lenient && i+1 < len(s) && s[i+1] != '"' && s[i+1] != '\\' && (i == 0 || s[i-1] != '\\') {
				b = append(b, '\\')
			} else {
				b = append(b, '\\', '\\')
			}
		default:
			b = append(b, c)
		}
	}
	b = append(b, '"')
	return string(b)
}

func genField(g *rand.Rand, key string, allowUint bool) field {
	f := field{Key: key}
	k := g.Intn(100)
	switch {
	case k < 35:
		f.Kind = kFloat
		f.F = genFloat(g)
		f.Text, f.Form = floatText(g, f.F)
		f.Form = "float:" + f.Form
	case k < 58:
		f.Kind = kInt
		f.I = genInt(g)
		f.Text, f.Form = strconv.FormatInt(f.I, 10)+"i", "int"
		if f.I == 0 && g.Intn(3) == 0 {
			f.Text, f.Form = "-0i", "int:-0"
		}
	case k < 70:
		f.Kind = kBool
		f.B = g.Intn(2) == 0
		if f.B {
			f.Text = trueForms[g.Intn(len(trueForms))]
		} else {
			f.Text = falseForms[g.Intn(len(falseForms))]
		}
		f.Form = "bool:" + f.Text
	case k < 82 && allowUint:
		f.Kind = kUint
		f.U = genUint(g)
		f.Text, f.Form = strconv.FormatUint(f.U, 10)+"u", "uint"
	default:
		f.Kind = kString
		f.S = genString(g)
		lenient := g.Intn(3) == 0
		f.Text = escString(f.S, lenient)
		f.Form = "string"
		if lenient && f.Text != escString(f.S, false) {
			f.Form = "string:lenient-bs"
		}
		if strings.Contains(f.S, "\n") {
			f.Form += "+nl"
		}
	}
	return f
}

// ------------------------------------------------------------------ point

type profile struct {
	exotic    bool
	allowUint bool
	plain     bool // no quotes anywhere, no strings (used for class A bad lines)
	maxTags   int
	forcePrec *string
	forceDef  *time.Time
}

func genPoint(g *rand.Rand, pr profile) *absPoint {
	p := &absPoint{Exotic: pr.exotic}
	p.M = genName(g, ctxMeasurement, pr.exotic)
	nt := 0
	switch k := g.Intn(10); {
	case k < 2:
		nt = 0
	case k < 4:
		nt = 1
	case k < 9:
		nt = 2 + g.Intn(4)
	default:
		nt = 6 + g.Intn(8)
	}
	if pr.maxTags > 0 && nt > pr.maxTags {
		nt = pr.maxTags
	}
	seen := map[string]bool{}
	for len(p.Tags) < nt {
		var k string
		if len(p.Tags) > 0 && g.Intn(3) == 0 {
			// a key related to an existing one: extension, prefix, or differing in the last byte
			base := p.Tags[g.Intn(len(p.Tags))].K
			switch g.Intn(4) {
			case 0:
				k = base + plainAtoms[g.Intn(len(plainAtoms))]
			case 1:
				if len(base) > 1 {
					k = base[:len(base)-1]
				}
			case 2:
				k = base + specialAtoms[g.Intn(5)]
			default:
				k = base[:len(base)-1] + string(rune('a'+g.Intn(26)))
			}
			k = fixName(k, ctxTag, pr.exotic)
		} else {
			k = genName(g, ctxTag, pr.exotic)
		}
		if seen[k] {
			continue
		}
		seen[k] = true
		p.Tags = append(p.Tags, tagKV{k, genName(g, ctxTag, pr.exotic)})
	}
	nf := 1 + g.Intn(3)
	if g.Intn(8) == 0 {
		nf = 4 + g.Intn(6)
	}
	seenF := map[string]bool{}
	for len(p.Fields) < nf {
		k := genName(g, ctxFieldKey, false)
		if pr.exotic {
			k = strings.ReplaceAll(k, "\"", "q")
		}
		if seenF[k] {
			continue
		}
		seenF[k] = true
		f := genField(g, k, pr.allowUint)
		if pr.exotic && f.Kind == kString && strings.Contains(f.S, "\n") {
			// the request splitter pairs backslashes, the key scanner does not
			// (known finding ambiguous-backslash-run-in-key): an exotic key can
			// desynchronise its quote tracking, which only matters when a
			// newline is inside a string value
			f.S = strings.ReplaceAll(f.S, "\n", "N")
			f.Text, f.Form = escString(f.S, false), "string"
		}
		p.Fields = append(p.Fields, f)
	}
	p.Prec = precisions[g.Intn(len(precisions))]
	if pr.forcePrec != nil {
		p.Prec = *pr.forcePrec
	}
	m := precMult(p.Prec)
	// default time well inside the representable range
	p.Default = time.Unix(0, g.Int63n(1<<62)-(1<<61)).UTC()
	if g.Intn(4) == 0 {
		p.Default = time.Unix(1700000000+g.Int63n(1e8), g.Int63n(1e9)).UTC()
	}
	if pr.forceDef != nil {
		p.Default = *pr.forceDef
	}
	if g.Intn(5) > 0 {
		p.HasTime = true
		lo, hi := -floorDiv(-minNano, m), floorDiv(maxNano, m) // ceil(min/m), floor(max/m)
		switch g.Intn(8) {
		case 0:
			p.TS = lo
		case 1:
			p.TS = hi
		case 2:
			p.TS = 0
		case 3:
			p.TS = int64(g.Intn(3)) - 1
		case 4:
			p.TS = lo + g.Int63n(1000)
		case 5:
			p.TS = hi - g.Int63n(1000)
		case 6:
			p.TS = (1700000000*1e9 + g.Int63n(1e17)) / m
		default:
			p.TS = lo + g.Int63n(hi/2-lo/2)*2
			if p.TS > hi {
				p.TS = hi
			}
		}
		p.TSText, p.TSForm = strconv.FormatInt(p.TS, 10), "ts"
		if p.TS == 0 && g.Intn(2) == 0 {
			p.TSText, p.TSForm = "-0", "ts:-0"
		}
	} else {
		p.TSForm = "ts:none"
	}
	if pr.plain {
		p.plainify(g)
	}
	return p
}

func (p *absPoint) hasStrings() bool {
	for _, f := range p.Fields {
		if f.Kind == kString {
			return true
		}
	}
	return false
}

// plainify removes every double quote from the point (names and values) so
// that a line derived from it cannot open a quoted section.
func (p *absPoint) plainify(g *rand.Rand) {
	nq := func(s string) string { return strings.ReplaceAll(s, "\"", "q") }
	p.M = nq(p.M)
	seen := map[string]bool{}
	var tags []tagKV
	for _, t := range p.Tags {
		t.K, t.V = nq(t.K), nq(t.V)
		if !seen[t.K] {
			seen[t.K] = true
			tags = append(tags, t)
		}
	}
	p.Tags = tags
	seenF := map[string]bool{}
	var fs []field
	for _, f := range p.Fields {
		f.Key = nq(f.Key)
		if f.Kind == kString {
			f = field{Key: f.Key, Kind: kInt, I: int64(len(f.S)), Text: strconv.Itoa(len(f.S)) + "i", Form: "int"}
		}
		if !seenF[f.Key] {
			seenF[f.Key] = true
			fs = append(fs, f)
		}
	}
	p.Fields = fs
}

// ------------------------------------------------------------------ writer

func escWith(s string, set string) string {
	var b []byte
	for i := 0; i < len(s); i++ {
		if strings.IndexByte(set, s[i]) >= 0 {
			b = append(b, '\\')
		}
		b = append(b, s[i])
	}
	return string(b)
}

func escMeasurement(s string) string { return escWith(s, ", ") }
func escTag(s string) string         { return escWith(s, ", =") }
func escFieldKey(s string) string    { return escWith(s, ", =") }

// parts is a line split into its rendered pieces so that grammar-aware
// defects can be injected.
type parts struct {
	M      string
	Tags   []string
	Fields []string
	TS     string
	Sep1   string // between key and fields
	Sep2   string // between fields and timestamp
	Lead   string
	Trail  string
}

func (p *absPoint) parts() *parts {
	x := &parts{M: escMeasurement(p.M), Sep1: " ", Sep2: " "}
	for _, t := range p.Tags {
		x.Tags = append(x.Tags, escTag(t.K)+"="+escTag(t.V))
	}
	for _, f := range p.Fields {
		x.Fields = append(x.Fields, escFieldKey(f.Key)+"="+f.Text)
	}
	if p.HasTime {
		x.TS = p.TSText
	}
	return x
}

func (x *parts) bytes() []byte {
	var b bytes.Buffer
	b.WriteString(x.Lead)
	b.WriteString(x.M)
	for _, t := range x.Tags {
		b.WriteByte(',')
		b.WriteString(t)
	}
	b.WriteString(x.Sep1)
	b.WriteString(strings.Join(x.Fields, ","))
	if x.TS != "" {
		b.WriteString(x.Sep2)
		b.WriteString(x.TS)
	}
	b.WriteString(x.Trail)
	return b.Bytes()
}

func (p *absPoint) line() []byte { return p.parts().bytes() }

// withTagOrder returns a copy of p whose tags are written in another order.
func (p *absPoint) withTagOrder(perm []int) *absPoint {
	q := *p
	q.Tags = make([]tagKV, len(p.Tags))
	for i, j := range perm {
		q.Tags[i] = p.Tags[j]
	}
	return &q
}

// keyFor renders the series key for tags in the given order.
func keyFor(m string, tags []tagKV) string {
	var b strings.Builder
	b.WriteString(escMeasurement(m))
	for _, t := range tags {
		b.WriteByte(',')
		b.WriteString(escTag(t.K))
		b.WriteByte('=')
		b.WriteString(escTag(t.V))
	}
	return b.String()
}

// ------------------------------------------------------------------ shape

func classes(s string) string {
	var c [9]bool
	for i := 0; i < len(s); i++ {
		switch b := s[i]; {
		case b == ',':
			c[0] = true
		case b == ' ':
			c[1] = true
		case b == '=':
			c[2] = true
		case b == '"':
			c[3] = true
		case b == '\\':
			c[4] = true
		case b >= 0x80:
			c[5] = true
		case b < 0x20 || b == 0x7f:
			c[6] = true
		}
	}
	out := ""
	for i, ch := range "cseqbhn" {
		if c[i] {
			out += string(ch)
		}
	}
	return out
}

// shape is the token-shape signature of a point; ok reports whether the point
// is non-trivial (carries an escape or a non-default numeric form).
func (p *absPoint) shape() (string, bool) {
	mc := classes(p.M)
	tc, fc := "", ""
	for _, t := range p.Tags {
		tc += classes(t.K) + classes(t.V)
	}
	tc = classes(tcExpand(tc))
	var forms []string
	for _, f := range p.Fields {
		fc += classes(f.Key)
		forms = append(forms, f.Form)
	}
	fc = classes(tcExpand(fc))
	sort.Strings(forms)
	forms = uniq(forms)
	sorted := sort.SliceIsSorted(p.Tags, func(i, j int) bool { return p.Tags[i].K < p.Tags[j].K })
	ntc := "0"
	switch n := len(p.Tags); {
	case n == 1:
		ntc = "1"
	case n >= 2 && n < 6:
		ntc = "2-5"
	case n >= 6 && n < 100:
		ntc = "6+"
	case n >= 100:
		ntc = "100+"
	}
	nontrivial := mc != "" || tc != "" || fc != "" || !sorted
	for _, f := range forms {
		if f != "float:f" && f != "int" && f != "string" && f != "bool:true" && f != "bool:false" {
			nontrivial = true
		}
	}
	if p.TSForm != "ts" {
		nontrivial = true
	}
	return fmt.Sprintf("m[%s]t%s[%s]s%v f[%s]%s %s %s x%v", mc, ntc, tc, sorted, fc, strings.Join(forms, ","), p.Prec, p.TSForm, p.Exotic), nontrivial
}

func tcExpand(cl string) string {
	m := map[rune]string{'c': ",", 's': " ", 'e': "=", 'q': "\"", 'b': "\\", 'h': "\x80", 'n': "\x01"}
	out := ""
	for _, r := range cl {
		out += m[r]
	}
	return out
}

func uniq(s []string) []string {
	var out []string
	for i, v := range s {
		if i == 0 || v != s[i-1] {
			out = append(out, v)
		}
	}
	return out
}
