package main

// Observation of a models.Point through its public accessors, comparison of
// observations, the panic guard and the round-trip oracles.

import (
	"encoding"
	"fmt"
	"math"
	"runtime"
	"sort"
	"strings"
	"time"

	"github.com/influxdata/influxdb/models"
)

type obs struct {
	Name   string
	Tags   []tagKV
	Fields map[string]interface{}
	NS     int64
	Key    string
	Hash   uint64
	Str    string
}

// observe reads everything the property talks about from a point.
func observe(p models.Point) (o obs, err error) {
	o.Name = string(p.Name())
	for _, t := range p.Tags() {
		o.Tags = append(o.Tags, tagKV{string(t.Key), string(t.Value)})
	}
	fs, err := p.Fields()
	if err != nil {
		return o, err
	}
	o.Fields = make(map[string]interface{}, len(fs))
	for k, v := range fs {
		o.Fields[k] = v
	}
	o.NS = p.Time().UnixNano()
	if p.UnixNano() != o.NS {
		return o, fmt.Errorf("UnixNano()=%d but Time().UnixNano()=%d", p.UnixNano(), o.NS)
	}
	o.Key = string(p.Key())
	o.Hash = p.HashID()
	o.Str = p.String()
	return o, nil
}

func sameVal(a, b interface{}) bool {
	switch x := a.(type) {
	case float64:
		y, ok := b.(float64)
		return ok && math.Float64bits(x) == math.Float64bits(y)
	case int64:
		y, ok := b.(int64)
		return ok && x == y
	case uint64:
		y, ok := b.(uint64)
		return ok && x == y
	case bool:
		y, ok := b.(bool)
		return ok && x == y
	case string:
		y, ok := b.(string)
		return ok && x == y
	}
	return false
}

func showVal(v interface{}) string {
	switch x := v.(type) {
	case float64:
		return fmt.Sprintf("float64(%v bits=%#016x)", x, math.Float64bits(x))
	case string:
		return fmt.Sprintf("string(%q)", x)
	case nil:
		return "missing"
	}
	return fmt.Sprintf("%T(%v)", v, v)
}

// diffObs returns the first aspect in which two observations differ.
func diffObs(a, b obs) (aspect, detail string) {
	if a.Name != b.Name {
		return "name", fmt.Sprintf("%q vs %q", a.Name, b.Name)
	}
	if len(a.Tags) != len(b.Tags) {
		return "tags", fmt.Sprintf("%d tags vs %d tags", len(a.Tags), len(b.Tags))
	}
	for i := range a.Tags {
		if a.Tags[i] != b.Tags[i] {
			return "tags", fmt.Sprintf("tag %d: %q=%q vs %q=%q", i, a.Tags[i].K, a.Tags[i].V, b.Tags[i].K, b.Tags[i].V)
		}
	}
	if len(a.Fields) != len(b.Fields) {
		return "fields", fmt.Sprintf("%d fields vs %d fields", len(a.Fields), len(b.Fields))
	}
	for k, v := range a.Fields {
		if w, ok := b.Fields[k]; !ok || !sameVal(v, w) {
			return "fields", fmt.Sprintf("field %q: %s vs %s", k, showVal(v), showVal(w))
		}
	}
	if a.NS != b.NS {
		return "time", fmt.Sprintf("%d vs %d", a.NS, b.NS)
	}
	if a.Key != b.Key {
		return "key", fmt.Sprintf("%q vs %q", a.Key, b.Key)
	}
	if a.Hash != b.Hash {
		return "hash", fmt.Sprintf("%#x vs %#x", a.Hash, b.Hash)
	}
	if a.Str != b.Str {
		return "string", fmt.Sprintf("%q vs %q", a.Str, b.Str)
	}
	return "", ""
}

// check compares an observation with the abstract point it must denote.
func (p *absPoint) check(o obs) (aspect, detail string) {
	if o.Name != p.M {
		return "name", fmt.Sprintf("got %q want %q", o.Name, p.M)
	}
	if len(o.Tags) != len(p.Tags) {
		return "tags", fmt.Sprintf("got %d tags want %d", len(o.Tags), len(p.Tags))
	}
	want := make(map[string]string, len(p.Tags))
	for _, t := range p.Tags {
		want[t.K] = t.V
	}
	for _, t := range o.Tags {
		if v, ok := want[t.K]; !ok || v != t.V {
			return "tags", fmt.Sprintf("got tag %q=%q, want value %q (present=%v)", t.K, t.V, v, ok)
		}
		delete(want, t.K)
	}
	// canonical order: the property asks for one order that is independent of
	// the input; both "by key" and "by escaped key" are accepted.
	byRaw := sort.SliceIsSorted(o.Tags, func(i, j int) bool { return o.Tags[i].K < o.Tags[j].K })
	byEsc := sort.SliceIsSorted(o.Tags, func(i, j int) bool { return escTag(o.Tags[i].K) < escTag(o.Tags[j].K) })
	if !byRaw && !byEsc {
		return "tag-order", fmt.Sprintf("tags are not in a canonical order: %q", o.Tags)
	}
	if k := keyFor(p.M, o.Tags); o.Key != k {
		return "key", fmt.Sprintf("got key %q want %q", o.Key, k)
	}
	if len(o.Fields) != len(p.Fields) {
		return "fields", fmt.Sprintf("got %d fields want %d", len(o.Fields), len(p.Fields))
	}
	for _, f := range p.Fields {
		if v, ok := o.Fields[f.Key]; !ok || !sameVal(f.value(), v) {
			return "fields", fmt.Sprintf("field %q written as %q: got %s want %s", f.Key, f.Text, showVal(v), showVal(f.value()))
		}
	}
	if ns := p.expectedNS(); o.NS != ns {
		return "time", fmt.Sprintf("got %d want %d (precision %q)", o.NS, ns, p.Prec)
	}
	return "", ""
}

// ------------------------------------------------------------------ guard

// faultFrame finds the function that raised the panic being recovered and
// whether it belongs to the repository.
func faultFrame() (string, bool) {
	pcs := make([]uintptr, 96)
	n := runtime.Callers(1, pcs)
	frames := runtime.CallersFrames(pcs[:n])
	seenPanic := false
	for {
		fr, more := frames.Next()
		fn := fr.Function
		if !seenPanic {
			if fn == "runtime.gopanic" {
				seenPanic = true
			}
		} else if strings.HasPrefix(fn, "github.com/influxdata/influxdb/") {
			return strings.TrimPrefix(fn, "github.com/influxdata/influxdb/"), true
		} else if strings.HasPrefix(fn, "main.") || strings.HasPrefix(fn, "verifharness") {
			return fn, false
		}
		if !more {
			return "unknown", false
		}
	}
}

// guard runs f, turning a panic raised in repository code into a violation.
// A panic raised by the harness itself is re-raised (broken check).
func (c *wctx) guard(caseID, where string, witness func() interface{}, f func()) (ok bool) {
	defer func() {
		if e := recover(); e != nil {
			fn, inTarget := faultFrame()
			if !inTarget {
				panic(fmt.Sprintf("harness panic in %s (%s): %v", where, fn, e))
			}
			c.count("panics_recovered", 1)
			r.Violation("C12/panic/"+fn, caseID, fmt.Sprintf("%s: panic in %s: %v", where, fn, e), witness())
			ok = false
		}
	}()
	f()
	return true
}

func parse(line []byte, def time.Time, prec string) ([]models.Point, error) {
	buf := append([]byte(nil), line...) // the points alias the buffer: private copy
	return models.ParsePointsWithPrecision(buf, def, prec)
}

var epoch1 = time.Unix(1, 0).UTC()

// freshPoint returns a point that has never been read, for UnmarshalBinary.
func freshPoint() models.Point {
	pts, err := models.ParsePointsWithPrecision([]byte("x f=1 1"), epoch1, "n")
	if err != nil || len(pts) != 1 {
		panic("harness: cannot make a fresh point")
	}
	return pts[0]
}

// roundTrips checks, for an accepted point, text -> parse and binary ->
// decode identity. It returns false after reporting a violation.
func (c *wctx) roundTrips(caseID, origin string, p models.Point, o obs, def time.Time, witness func() interface{}) bool {
	wit := func() interface{} {
		return map[string]interface{}{"origin": origin, "point_string": fmt.Sprintf("%q", o.Str), "case": witness()}
	}
	// A hostile input may be accepted with a key in which an even run of
	// backslashes precedes `,` ` ` or `=`: the key scanner ("previous byte is a
	// backslash") and the line splitter (pairs of backslashes) read it
	// differently. A text round-trip failure of such a point is one class.
	tsig := func(s string) string {
		if origin != "valid line" && ambiguousKey(o.Key) {
			return "C12/hostile-roundtrip/ambiguous-backslash-run-in-key"
		}
		return s
	}
	// text
	var qs []models.Point
	var err error
	if !c.guard(caseID, "parse(String())", wit, func() { qs, err = parse([]byte(o.Str), def, "n") }) {
		return false
	}
	c.count("text_roundtrips", 1)
	if err != nil || len(qs) != 1 {
		r.Violation(tsig("C12/text-roundtrip/rejected"), caseID, fmt.Sprintf("%s: accepted point written with String() is not parsed back as one point: %d points, err=%v", origin, len(qs), err), wit())
		return false
	}
	var o2 obs
	if !c.guard(caseID, "observe(parse(String()))", wit, func() { o2, err = observe(qs[0]) }) {
		return false
	}
	if err != nil {
		r.Violation(tsig("C12/text-roundtrip/undecodable"), caseID, origin+": "+err.Error(), wit())
		return false
	}
	if a, d := diffObs(o, o2); a != "" {
		r.Violation(tsig("C12/text-roundtrip/"+a), caseID, fmt.Sprintf("%s: parse(p.String()) differs from p in %s: %s", origin, a, d), wit())
		return false
	}
	// binary
	var b []byte
	if !c.guard(caseID, "MarshalBinary", wit, func() { b, err = p.MarshalBinary() }) {
		return false
	}
	if err != nil {
		r.Violation("C12/binary-roundtrip/marshal-error", caseID, origin+": MarshalBinary of an accepted point failed: "+err.Error(), wit())
		return false
	}
	c.count("binary_roundtrips", 1)
	var q models.Point
	if !c.guard(caseID, "NewPointFromBytes(MarshalBinary())", wit, func() { q, err = models.NewPointFromBytes(append([]byte(nil), b...)) }) {
		return false
	}
	if err != nil || q == nil {
		r.Violation("C12/binary-roundtrip/rejected", caseID, fmt.Sprintf("%s: NewPointFromBytes(MarshalBinary(p)) failed: %v", origin, err), wit())
		return false
	}
	if !c.guard(caseID, "observe(NewPointFromBytes())", wit, func() { o2, err = observe(q) }) {
		return false
	}
	if err != nil {
		r.Violation("C12/binary-roundtrip/undecodable", caseID, origin+": "+err.Error(), wit())
		return false
	}
	if a, d := diffObs(o, o2); a != "" {
		r.Violation("C12/binary-roundtrip/"+a, caseID, fmt.Sprintf("%s: NewPointFromBytes(MarshalBinary(p)) differs from p in %s: %s", origin, a, d), wit())
		return false
	}
	fresh := freshPoint()
	if !c.guard(caseID, "UnmarshalBinary(MarshalBinary())", wit, func() {
		err = fresh.(encoding.BinaryUnmarshaler).UnmarshalBinary(append([]byte(nil), b...))
		if err == nil {
			o2, err = observe(fresh)
		}
	}) {
		return false
	}
	if err != nil {
		r.Violation("C12/binary-roundtrip/unmarshal-rejected", caseID, fmt.Sprintf("%s: UnmarshalBinary(MarshalBinary(p)) failed: %v", origin, err), wit())
		return false
	}
	if a, d := diffObs(o, o2); a != "" {
		r.Violation("C12/binary-roundtrip/unmarshal-"+a, caseID, fmt.Sprintf("%s: UnmarshalBinary(MarshalBinary(p)) differs from p in %s: %s", origin, a, d), wit())
		return false
	}
	return true
}

// acceptedChecks is what every point accepted from a hostile input must
// satisfy: its field section is well-formed under the strict grammar, it can
// be read, and it round-trips.
func (c *wctx) acceptedChecks(caseID, origin string, pts []models.Point, def time.Time, witness func() interface{}) bool {
	for _, p := range pts {
		if kind, ok := c.strictCheck(caseID, origin, p, witness); !ok {
			return false
		} else if kind != "" {
			continue // reported; nothing further is claimed about a malformed point
		}
		var o obs
		var err error
		if !c.guard(caseID, "observe(accepted point)", witness, func() { o, err = observe(p) }) {
			return false
		}
		if err != nil {
			r.Violation("C12/accepted-undecodable", caseID, origin+": the parser accepted a point whose fields cannot be read: "+err.Error(), witness())
			return false
		}
		if !c.roundTrips(caseID, origin, p, o, def, witness) {
			return false
		}
		c.count("hostile_points_accepted", 1)
	}
	return true
}

// rawFields returns the field section of a point exactly as the point holds
// it (the binary form carries it verbatim behind a length prefix).
func rawFields(p models.Point) ([]byte, error) {
	b, err := p.MarshalBinary()
	if err != nil {
		return nil, err
	}
	if len(b) < 8 {
		return nil, fmt.Errorf("binary form too short")
	}
	kl := int(b[0])<<24 | int(b[1])<<16 | int(b[2])<<8 | int(b[3])
	if len(b) < 8+kl {
		return nil, fmt.Errorf("binary form too short")
	}
	b = b[4+kl:]
	fl := int(b[0])<<24 | int(b[1])<<16 | int(b[2])<<8 | int(b[3])
	if len(b) < 4+fl {
		return nil, fmt.Errorf("binary form too short")
	}
	return b[4 : 4+fl], nil
}

// strictCheck reports an accepted point whose field section is malformed
// under the strict grammar. kind is "" when it is well-formed.
func (c *wctx) strictCheck(caseID, origin string, p models.Point, witness func() interface{}) (kind string, ok bool) {
	var raw []byte
	var err error
	if !c.guard(caseID, "MarshalBinary(accepted point)", witness, func() { raw, err = rawFields(p) }) {
		return "", false
	}
	if err != nil {
		r.Violation("C12/binary-roundtrip/marshal-error", caseID, origin+": MarshalBinary of an accepted point failed: "+err.Error(), witness())
		return "", false
	}
	kind = strictFields(raw)
	if kind == "" {
		var key []byte
		if !c.guard(caseID, "Key(accepted point)", witness, func() { key = p.Key() }) {
			return "", false
		}
		for i, ch := range key {
			if ch != '\n' {
				continue
			}
			run := 0
			for j := i - 1; j >= 0 && key[j] == '\\'; j-- {
				run++
			}
			if run%2 == 0 { // not escaped under the pairing rule of the line splitter
				kind, raw = "newline-in-key", key
			}
		}
	}
	if kind == "newline-in-key" {
		c.count("malformed_accepted_"+kind, 1)
		r.Violation("C12/malformed-accepted/"+kind, caseID, fmt.Sprintf("%s: the parser accepted a point whose key %q contains an unescaped newline", origin, raw),
			map[string]interface{}{"key": q(raw), "case": witness()})
	} else if kind != "" {
		c.count("malformed_accepted_"+kind, 1)
		r.Violation("C12/malformed-accepted/"+kind, caseID, fmt.Sprintf("%s: the parser accepted a line whose field section %q is malformed (%s)", origin, raw, kind),
			map[string]interface{}{"field_section": q(raw), "case": witness()})
	}
	return kind, true
}

// strictFields lexes a field section `key=value(,key=value)*` structurally:
// a backslash escapes the next byte in a key; a value is either a quoted
// string (with \" and \\ escapes) that is followed by `,` or the end, or a
// bare token without quotes. It returns "" or the kind of defect.
func strictFields(b []byte) string {
	n := len(b)
	if n == 0 {
		return "empty-field-section"
	}
	i := 0
	for {
		ks := i
		for {
			if i >= n {
				return "field-without-value"
			}
			ch := b[i]
			if ch == '\\' {
				j := i
				for j < n && b[j] == '\\' {
					j++
				}
				run := j - i
				if j >= n {
					return "field-without-value"
				}
				if b[j] == '=' && run%2 == 0 {
					// the two scanners of the parser disagree on whether this '=' is escaped
					return "backslash-run-before-equals"
				}
				i = j
				if run%2 == 1 {
					i++
				}
				continue
			}
			if ch == '=' {
				break
			}
			if ch == ',' {
				return "field-without-value"
			}
			if ch == ' ' {
				return "space-in-field-key"
			}
			if ch == '\n' {
				return "newline-in-key"
			}
			i++
		}
		if i == ks {
			return "empty-field-key"
		}
		i++
		if i >= n {
			return "empty-field-value"
		}
		if b[i] == '"' {
			i++
			for {
				if i >= n {
					return "unbalanced-quote"
				}
				if b[i] == '\\' && i+1 < n && (b[i+1] == '"' || b[i+1] == '\\') {
					i += 2
					continue
				}
				if b[i] == '"' {
					i++
					break
				}
				i++
			}
			if i < n && b[i] != ',' {
				return "text-after-closing-quote"
			}
		} else {
			vs := i
			for i < n && b[i] != ',' {
				if b[i] == '"' {
					return "quote-in-bare-value"
				}
				i++
			}
			if i == vs {
				return "empty-field-value"
			}
		}
		if i >= n {
			return ""
		}
		i++
		if i >= n {
			return "trailing-comma"
		}
	}
}

func q(b []byte) string { return fmt.Sprintf("%q", b) }

// ambiguousKey reports whether a key contains an even run of backslashes
// directly before `,` ` ` or `=`.
func ambiguousKey(key string) bool {
	for i := 0; i < len(key); i++ {
		if key[i] != '\\' {
			continue
		}
		j := i
		for j < len(key) && key[j] == '\\' {
			j++
		}
		if (j-i)%2 == 0 && j < len(key) && (key[j] == ',' || key[j] == ' ' || key[j] == '=') {
			return true
		}
		i = j
	}
	return false
}
