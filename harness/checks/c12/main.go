// C12 — line protocol and binary point encoding are faithful.
//
// Monitor: abstract points (measurement, tags, typed fields, time, precision)
// are rendered to line protocol by an independent writer (gen.go) in every
// escape / numeric form / tag order and given to the real parser; the oracle
// is equality with the abstract point. Every accepted point is written back
// with String() and MarshalBinary() and must come back identical (names, tag
// order, field types and float bits, time, Key, HashID). Lines with one
// grammar-aware defect must be rejected; requests with bad lines must yield
// exactly the points of their lines parsed alone; mutated / random text and
// mutated / truncated / crafted binary must not crash the parser, the decoder
// or the accessors of what they return.
package main

import (
	"fmt"
	"math/rand"
	"os"
	"runtime"
	"sort"
	"strings"
	"sync"
	"time"

	"github.com/influxdata/influxdb/models"

	"verifharness/internal/ev"
)

func main() { ev.Supervise("C12", body) }

var r *ev.Run

// wctx is per-worker state: counters are merged into the run per batch.
type wctx struct {
	id     int
	uintOn bool
	evals  int64
	counts map[string]int64
	seenNT map[string]struct{}
}

func (c *wctx) count(name string, n int64) { c.counts[name] += n }

func (c *wctx) nontrivial(key string) {
	if _, ok := c.seenNT[key]; ok {
		return
	}
	c.seenNT[key] = struct{}{}
	r.Nontrivial(key)
}

func (c *wctx) flush() {
	r.Eval(int(c.evals))
	c.evals = 0
	for k, v := range c.counts {
		r.Count(k, v)
		delete(c.counts, k)
	}
}

type phase struct {
	name  string
	n     int
	batch int
	fn    func(c *wctx, caseID string, seed int64)
}

type batch struct {
	ph    *phase
	start int
	seeds []int64
}

var (
	inflightMu sync.Mutex
	inflight   = map[int]interface{}{}
)

// begin records, before any hostile input of the batch reaches the target,
// which batches are in flight on all workers (the file is shared).
func begin(worker int, batchID string, info interface{}) {
	inflightMu.Lock()
	defer inflightMu.Unlock()
	inflight[worker] = info
	snap := make(map[string]interface{}, len(inflight))
	for k, v := range inflight {
		snap[fmt.Sprint("worker", k)] = v
	}
	r.Begin(batchID, snap)
}

func runPhases(phases []*phase, uintOn bool) {
	jobs := make(chan batch, 64)
	var wg sync.WaitGroup
	for w := 0; w < runtime.NumCPU(); w++ {
		wg.Add(1)
		go func(w int) {
			defer wg.Done()
			c := &wctx{id: w, uintOn: uintOn, counts: map[string]int64{}, seenNT: map[string]struct{}{}}
			for b := range jobs {
				batchID := fmt.Sprintf("%s/batch/%d", b.ph.name, b.start)
				rc := r.ReplayCase()
				began := false
				for i, seed := range b.seeds {
					caseID := fmt.Sprintf("%s/%d", b.ph.name, b.start+i)
					if rc != "" && rc != caseID && rc != batchID {
						continue
					}
					if !began {
						begin(w, batchID, map[string]interface{}{"batch": batchID, "first_case": b.start, "case_seeds": b.seeds})
						began = true
					}
					b.ph.fn(c, caseID, seed)
				}
				c.flush()
			}
		}(w)
	}
	for _, ph := range phases {
		rng := r.Rand(ph.name)
		for start := 0; start < ph.n; start += ph.batch {
			n := ph.batch
			if start+n > ph.n {
				n = ph.n - start
			}
			seeds := make([]int64, n)
			for i := range seeds {
				seeds[i] = rng.Int63() // drawn unconditionally: case i is the same in replay
			}
			jobs <- batch{ph, start, seeds}
		}
	}
	close(jobs)
	wg.Wait()
}

func envInt(name string, def int) int {
	if v := os.Getenv(name); v != "" {
		fmt.Sscan(v, &def)
	}
	return def
}

func body() {
	r = ev.Start("C12", "exploration")
	r.Rule = "constructive cases: an abstract point drawn from name alphabets rich in `,` ` ` `=` `\"` `\\`, control, NUL and non-UTF-8 bytes, every numeric / boolean / string spelling, every precision, random tag order; it is non-trivial when it carries an escape, an unsorted tag list or a non-default numeric form; distinct by token-shape signature (escape classes per position, tag-count class, sortedness, set of value forms, precision, timestamp form). Rejected inputs count when they differ from an accepted line by one grammar-aware defect (distinct by defect class x shape). Requests: distinct by kinds of lines. Binary: distinct by key shape."
	r.Assumptions = []string{
		"valid line protocol is what the documentation defines: `,` and ` ` escaped in measurements, `,` ` ` `=` in tag keys, tag values and field keys, `\"` and `\\` in string values; a literal backslash in a name is claimed valid only when the byte after the run of backslashes is not one of `,` ` ` `=` `\"` (exotic cases: also before a character escaped in that position, measurement and tags only) and the name does not end in a backslash",
		"names beginning with `#`, tab or NUL (comment / whitespace to the parser), empty tag values, NaN/Inf, out-of-range times and integers, keys beyond MaxKeyLength, leading zeros and extra whitespace are not claimed valid; for the lenient forms only 'if accepted, it means the same point' is checked",
		"exotic points (a literal backslash before an escaped character) carry no double quote in a name and no newline in a string value: the line splitter pairs backslashes while the key scanner does not (known finding ambiguous-backslash-run-in-key), which matters only through quote tracking across newlines",
		"the defect 'a field without =value' is claimed to be rejected only for points without string fields (known finding field-without-value: the parser validates the field section by counting '=' and ',')",
		"a point accepted from a hostile input is first lexed by a strict structural field-section lexer (key=value(,key=value)*, a closing quote is followed by ',' or the end, no empty key, no unescaped newline in a key); only if that passes are decodability and the round trips demanded of it",
		"canonical tag order may be by key or by escaped key",
		"a request is split at newlines outside quoted string values; the request oracle is applied only when no bad line contains a double quote or ends in a backslash",
		"unsigned fields are exercised after models.EnableUintSupport() in a second stage of the same process; before that `1u` must be rejected",
		"strconv (number formatting / parsing) and time.Time.MarshalBinary are trusted",
	}
	r.Floor = 400

	mul := r.Pick(1, 15)
	nCons := envInt("C12_NCONS", 90000*mul)
	nReq := envInt("C12_NREQ", 30000*mul)
	nBin := envInt("C12_NBIN", 12000*mul)
	nRand := envInt("C12_NRAND", 90000*mul)
	nEdge := envInt("C12_NEDGE", 240*mul)
	nUint := envInt("C12_NUINT", 22000*mul)

	stage1 := []*phase{
		{"cons", nCons, 64, func(c *wctx, id string, s int64) { c.consCase(id, s) }},
		{"req", nReq, 64, func(c *wctx, id string, s int64) { c.reqCase(id, s) }},
		{"bin", nBin, 32, func(c *wctx, id string, s int64) { c.binCase(id, s) }},
		{"rand", nRand, 256, func(c *wctx, id string, s int64) { c.randCase(id, s) }},
		{"edge", nEdge, 4, func(c *wctx, id string, s int64) { c.edgeCase(id, s) }},
	}
	runPhases(stage1, false)

	// stage 2: the same monitors with unsigned support switched on (global,
	// irreversible: therefore last).
	models.EnableUintSupport()
	stage2 := []*phase{
		{"ucons", nUint, 64, func(c *wctx, id string, s int64) { c.consCase(id, s) }},
		{"ureq", nUint / 8, 64, func(c *wctx, id string, s int64) { c.reqCase(id, s) }},
		{"ubin", nUint / 16, 32, func(c *wctx, id string, s int64) { c.binCase(id, s) }},
	}
	runPhases(stage2, true)
	r.Finish()
}

// ------------------------------------------------------------------ constructive

func (c *wctx) consCase(caseID string, seed int64) {
	g := rand.New(rand.NewSource(seed))
	p := genPoint(g, profile{exotic: g.Intn(8) == 0, allowUint: c.uintOn})
	line := p.line()
	wit := func() interface{} {
		return map[string]interface{}{"line": q(line), "precision": p.Prec, "default_time_ns": p.Default.UnixNano(), "abstract": describe(p), "case_seed": seed}
	}
	var pts []models.Point
	var err error
	if !c.guard(caseID, "ParsePointsWithPrecision(valid line)", wit, func() { pts, err = parse(line, p.Default, p.Prec) }) {
		return
	}
	c.evals++
	if err != nil || len(pts) != 1 {
		r.Violation("C12/valid-rejected", caseID, fmt.Sprintf("a valid line was not accepted as one point: %d points, err=%v", len(pts), err), wit())
		return
	}
	var o obs
	if !c.guard(caseID, "observe(valid line)", wit, func() { o, err = observe(pts[0]) }) {
		return
	}
	if err != nil {
		r.Violation("C12/accepted-undecodable", caseID, "fields of a valid line cannot be read: "+err.Error(), wit())
		return
	}
	if a, d := p.check(o); a != "" {
		r.Violation("C12/parse-mismatch/"+a, caseID, "valid line parsed to a different point: "+d, wit())
		return
	}
	if !c.roundTrips(caseID, "valid line", pts[0], o, p.Default, wit) {
		return
	}
	// text in the requested precision
	{
		var qs []models.Point
		var s string
		if !c.guard(caseID, "parse(PrecisionString())", wit, func() {
			s = pts[0].PrecisionString(p.Prec)
			qs, err = parse([]byte(s), p.Default, p.Prec)
		}) {
			return
		}
		c.evals++
		var o2 obs
		if err == nil && len(qs) == 1 {
			if !c.guard(caseID, "observe(parse(PrecisionString()))", wit, func() { o2, err = observe(qs[0]) }) {
				return
			}
		}
		if err != nil || len(qs) != 1 {
			r.Violation("C12/text-roundtrip/precision-rejected", caseID, fmt.Sprintf("PrecisionString(%q)=%q is not parsed back: err=%v", p.Prec, s, err), wit())
			return
		}
		if a, d := diffObs(o, o2); a != "" {
			r.Violation("C12/text-roundtrip/precision-"+a, caseID, fmt.Sprintf("parse(PrecisionString(%q)) differs in %s: %s", p.Prec, a, d), wit())
			return
		}
	}

	// every tag order gives the same key and hash (and the same point)
	if n := len(p.Tags); n > 1 {
		var perms [][]int
		if n <= 3 {
			perms = allPerms(n)
		} else {
			rev := make([]int, n)
			srt := make([]int, n)
			for i := range rev {
				rev[i] = n - 1 - i
				srt[i] = i
			}
			sort.Slice(srt, func(a, b int) bool { return p.Tags[srt[a]].K < p.Tags[srt[b]].K })
			perms = append(perms, rev, srt)
			for k := 0; k < 4; k++ {
				perms = append(perms, g.Perm(n))
			}
		}
		for _, perm := range perms {
			pl := p.withTagOrder(perm).line()
			pw := func() interface{} {
				return map[string]interface{}{"line": q(line), "permuted_line": q(pl), "precision": p.Prec, "case_seed": seed}
			}
			var qs []models.Point
			var o2 obs
			if !c.guard(caseID, "parse(permuted tags)", pw, func() {
				qs, err = parse(pl, p.Default, p.Prec)
				if err == nil && len(qs) == 1 {
					o2, err = observe(qs[0])
				}
			}) {
				return
			}
			c.evals++
			if err != nil || len(qs) != 1 {
				r.Violation("C12/tag-order/rejected", caseID, fmt.Sprintf("the same point with another tag order is not accepted: err=%v", err), pw())
				return
			}
			if o2.Key != o.Key {
				r.Violation("C12/tag-order/key", caseID, fmt.Sprintf("Key() depends on the order tags were written in: %q vs %q", o.Key, o2.Key), pw())
				return
			}
			if o2.Hash != o.Hash {
				r.Violation("C12/tag-order/hash", caseID, fmt.Sprintf("HashID() depends on the order tags were written in: %#x vs %#x", o.Hash, o2.Hash), pw())
				return
			}
			if a, d := diffObs(o, o2); a != "" {
				r.Violation("C12/tag-order/"+a, caseID, "the same point with another tag order differs in "+a+": "+d, pw())
				return
			}
		}
		c.count("tag_permutations_checked", int64(len(perms)))
	}

	// duplicate tags are rejected wherever the duplicate sits
	if len(p.Tags) > 0 {
		for k := 0; k < 2; k++ {
			dl := duplicateTag(g, p)
			dw := func() interface{} { return map[string]interface{}{"line": q(dl), "case_seed": seed} }
			var qs []models.Point
			if !c.guard(caseID, "parse(duplicate tag)", dw, func() { qs, err = parse(dl, p.Default, p.Prec) }) {
				return
			}
			c.evals++
			if err == nil || len(qs) != 0 {
				r.Violation("C12/duplicate-tags-accepted", caseID, "a line with a duplicated tag key was accepted", dw())
				return
			}
			c.count("duplicate_tag_lines_rejected", 1)
		}
	}

	shape, nontrivial := p.shape()

	// one defect => rejected
	for k := 0; k < 3; k++ {
		class, ml := malformed(g, p, c.uintOn)
		mw := func() interface{} {
			return map[string]interface{}{"defect": class, "line": q(ml), "valid_line": q(line), "precision": p.Prec, "case_seed": seed}
		}
		var qs []models.Point
		if !c.guard(caseID, "parse(malformed:"+class+")", mw, func() { qs, err = parse(ml, p.Default, p.Prec) }) {
			return
		}
		c.evals++
		if err == nil || len(qs) != 0 {
			if r.Violation("C12/malformed-accepted/"+class, caseID, fmt.Sprintf("a line with defect %q was accepted (%d points, err=%v)", class, len(qs), err), mw()) {
				c.count("malformed_accepted_"+class, 1)
				continue // listed finding: keep checking the rest of the case
			}
			return
		}
		c.count("malformed_lines_rejected", 1)
		c.nontrivial("reject|" + class + "|" + p.Prec)
	}

	// lenient forms: accepted => same point
	{
		class, ll := lenient(g, p)
		lw := func() interface{} {
			return map[string]interface{}{"form": class, "line": q(ll), "valid_line": q(line), "precision": p.Prec, "case_seed": seed}
		}
		var qs []models.Point
		var o2 obs
		if !c.guard(caseID, "parse(lenient:"+class+")", lw, func() {
			qs, err = parse(ll, p.Default, p.Prec)
			if err == nil && len(qs) == 1 {
				o2, err = observe(qs[0])
			}
		}) {
			return
		}
		c.evals++
		if err == nil {
			if len(qs) != 1 {
				r.Violation("C12/lenient-meaning/"+class, caseID, fmt.Sprintf("lenient form %q accepted as %d points", class, len(qs)), lw())
				return
			}
			if a, d := p.check(o2); a != "" {
				r.Violation("C12/lenient-meaning/"+class, caseID, fmt.Sprintf("lenient form %q accepted but means another point (%s): %s", class, a, d), lw())
				return
			}
			c.count("lenient_accepted", 1)
		} else {
			c.count("lenient_rejected", 1)
		}
	}

	// mutations of the valid line: no crash; what is accepted round-trips
	for k := 0; k < 5; k++ {
		ml, ops := mutate(g, line, line)
		prec := precisions[g.Intn(len(precisions))]
		mw := func() interface{} {
			return map[string]interface{}{"mutation": ops, "input": q(ml), "valid_line": q(line), "precision": prec, "default_time_ns": p.Default.UnixNano(), "case_seed": seed}
		}
		var qs []models.Point
		if !c.guard(caseID, "parse(mutated line)", mw, func() { qs, err = parse(ml, p.Default, prec) }) {
			return
		}
		c.evals++
		c.count("mutated_lines_parsed", 1)
		if err != nil {
			c.count("mutated_lines_rejected", 1)
		}
		if !c.acceptedChecks(caseID, "mutated line", qs, p.Default, mw) {
			return
		}
	}

	// the programmatic constructor: NewPoint -> String -> parse, and binary
	if !p.Exotic {
		if !c.newPointPath(caseID, g, p, seed) {
			return
		}
	}

	c.count("valid_lines_checked", 1)
	if nontrivial {
		c.nontrivial("cons|" + shape)
	}
	if len(line) < 120 && r.WantSample() {
		r.Sample(map[string]interface{}{"case": caseID, "line": q(line), "precision": p.Prec, "key": o.Key, "string": o.Str, "shape": shape})
	}
}

// newPointPath builds the abstract point with models.NewPoint and checks that
// its text and binary forms denote the abstract point.
func (c *wctx) newPointPath(caseID string, g *rand.Rand, p *absPoint, seed int64) bool {
	tags := map[string]string{}
	for _, t := range p.Tags {
		tags[t.K] = t.V
	}
	fields := models.Fields{}
	for _, f := range p.Fields {
		fields[f.Key] = f.value()
	}
	ns := p.expectedNS()
	wit := func() interface{} {
		return map[string]interface{}{"abstract": describe(p), "time_ns": ns, "case_seed": seed}
	}
	var np models.Point
	var err error
	var o obs
	if !c.guard(caseID, "NewPoint", wit, func() {
		np, err = models.NewPoint(p.M, models.NewTags(tags), fields, time.Unix(0, ns).UTC())
		if err == nil {
			o, err = observe(np)
		}
	}) {
		return false
	}
	c.evals++
	if err != nil {
		r.Violation("C12/newpoint/rejected", caseID, "NewPoint rejected a valid point: "+err.Error(), wit())
		return false
	}
	// same abstract content, timestamp already in nanoseconds
	pn := *p
	pn.HasTime, pn.TS, pn.Prec = true, ns, "n"
	if a, d := pn.check(o); a != "" {
		r.Violation("C12/newpoint/mismatch-"+a, caseID, "NewPoint built a different point: "+d, wit())
		return false
	}
	// text: parse(String()) must denote the abstract point (the key may order
	// escaped tag keys differently, so the comparison is with the abstract point)
	var qs []models.Point
	var o2 obs
	w2 := func() interface{} {
		return map[string]interface{}{"abstract": describe(p), "newpoint_string": q([]byte(o.Str)), "case_seed": seed}
	}
	if !c.guard(caseID, "parse(NewPoint.String())", w2, func() {
		qs, err = parse([]byte(o.Str), p.Default, "n")
		if err == nil && len(qs) == 1 {
			o2, err = observe(qs[0])
		}
	}) {
		return false
	}
	c.evals++
	if err != nil || len(qs) != 1 {
		r.Violation("C12/newpoint/text-rejected", caseID, fmt.Sprintf("String() of a NewPoint point is not parsed back: %d points, err=%v", len(qs), err), w2())
		return false
	}
	if a, d := pn.check(o2); a != "" {
		r.Violation("C12/newpoint/text-"+a, caseID, "String() of a NewPoint point parses to another point: "+d, w2())
		return false
	}
	// binary
	var b []byte
	var q2 models.Point
	if !c.guard(caseID, "NewPointFromBytes(NewPoint.MarshalBinary())", w2, func() {
		b, err = np.MarshalBinary()
		if err == nil {
			q2, err = models.NewPointFromBytes(b)
		}
		if err == nil {
			o2, err = observe(q2)
		}
	}) {
		return false
	}
	c.evals++
	if err != nil {
		r.Violation("C12/newpoint/binary-rejected", caseID, "binary form of a NewPoint point is not decoded: "+err.Error(), w2())
		return false
	}
	if a, d := diffObs(o, o2); a != "" {
		r.Violation("C12/newpoint/binary-"+a, caseID, "binary form of a NewPoint point decodes to another point: "+d, w2())
		return false
	}
	c.count("newpoint_paths_checked", 1)
	return true
}

func allPerms(n int) [][]int {
	var out [][]int
	var rec func(cur []int, used []bool)
	rec = func(cur []int, used []bool) {
		if len(cur) == n {
			out = append(out, append([]int(nil), cur...))
			return
		}
		for i := 0; i < n; i++ {
			if !used[i] {
				used[i] = true
				rec(append(cur, i), used)
				used[i] = false
			}
		}
	}
	rec(nil, make([]bool, n))
	return out
}

func describe(p *absPoint) map[string]interface{} {
	var tags, fields []string
	for _, t := range p.Tags {
		tags = append(tags, fmt.Sprintf("%q=%q", t.K, t.V))
	}
	for _, f := range p.Fields {
		fields = append(fields, fmt.Sprintf("%q=%s as %q (%s)", f.Key, showVal(f.value()), f.Text, f.Form))
	}
	return map[string]interface{}{"measurement": fmt.Sprintf("%q", p.M), "tags": strings.Join(tags, " "), "fields": fields, "has_time": p.HasTime, "ts": p.TS, "exotic": p.Exotic}
}
