package main

// Malformed, lenient, mutated and random inputs; multi-line requests; binary
// decoder abuse.
//
// About lines: a request is split at newlines, but a newline inside a quoted
// string field value belongs to the value, so an unbalanced quote legitimately
// makes "the line" run on to the next quote. The request oracle ("points of
// the request = points of each line parsed alone, in order") is therefore
// applied only to requests whose bad lines carry no double quote and do not
// end in a backslash (class A). Requests with arbitrary bad lines (class B)
// are judged only by "no crash" and by the round trips of what was accepted.

import (
	"bytes"
	"encoding"
	"encoding/binary"
	"fmt"
	"math"
	"math/rand"
	"strconv"
	"strings"
	"time"

	"github.com/influxdata/influxdb/coordinator"
	"github.com/influxdata/influxdb/models"
)

var badNumbers = []string{"1.1.1", "1i2", "-", "1e", "1e+", ".", "-.", "1-1", "0x1f", "1ii", "1.5i", "1e3i", "NaN", "nan", "Inf", "-Inf", "+Inf", "+1", "1_000", "1f",
	"--1", "1e5e5", "1.e.", "-i", "i", "1I", "1U", "e5", "-e5", ".e5", "infinity", "-nan", "1e400i", "1..", "1e1.5.2", "-1-", "1iu", "1ui", "0b1", "1e--1"}
var badBools = []string{"tru", "fals", "TRue", "yes", "tRUE", "truee", "falsey", "no", "on", "y", "ture", "FALSe", "tt", "ff", "True1", "fALSE", "Tr", "Fa", "truE", "falsE"}
var intOverflow = []string{"9223372036854775808i", "-9223372036854775809i", "10000000000000000000i", "123456789012345678901234i", "-99999999999999999999i"}
var floatOverflow = []string{"1e309", "-1e309", "1.8e308", "2e308", "1e99999", "1" + strings.Repeat("0", 400), "-1" + strings.Repeat("0", 309) + ".5"}
var badTimestamps = []string{"12a", "1.5", "1e9", "--1", "+1", "1-", "0x10", "1_0", "१", "1i", "now", "1 2", "1 x", "1,2", "2015-01-01"}

// malformed renders p with exactly one grammar-aware defect that makes the
// line malformed whatever else it contains.
func malformed(g *rand.Rand, p *absPoint, uintOn bool) (string, []byte) {
	for {
		x := p.parts()
		ti, fi := -1, g.Intn(len(x.Fields))
		if len(x.Tags) > 0 {
			ti = g.Intn(len(x.Tags))
		}
		fkey := escFieldKey(p.Fields[fi].Key)
		class := ""
		switch g.Intn(23) {
		case 21:
			f := p.Fields[fi]
			if f.Kind != kString {
				f = field{Key: f.Key, Kind: kString, S: "a", Text: "\"a\""}
			}
			x.Fields[fi] = fkey + "=" + f.Text + []string{"b", "\\", "1", "\"", "\\,", "=1"}[g.Intn(6)]
			class = "text-after-closing-quote"
		case 22:
			x.Fields = x.Fields[:1]
			x.Fields[0] = "=" + p.Fields[0].Text
			x.Sep1 = []string{" \t", " \x00", " \t\x00"}[g.Intn(3)]
			class = "empty-field-key"
		case 0:
			x.Fields, x.TS = nil, ""
			if g.Intn(2) == 0 {
				x.Sep1 = ""
			}
			class = "no-fields"
		case 1:
			x.Fields = nil
			if x.TS == "" {
				x.TS = "1"
			}
			class = "no-fields-with-timestamp"
		case 2:
			if ti < 0 {
				continue // without tags the line would begin with the field section
			}
			x.M = ""
			class = "no-measurement"
		case 3:
			if ti < 0 {
				continue
			}
			x.Tags[ti] = escTag(p.Tags[ti].K) + "="
			class = "tag-no-value"
		case 4:
			if ti < 0 {
				continue
			}
			x.Tags[ti] = escTag(p.Tags[ti].K)
			class = "tag-no-equals"
		case 5:
			if ti < 0 {
				continue
			}
			x.Tags[ti] = "=" + escTag(p.Tags[ti].V)
			class = "tag-no-key"
		case 6:
			x.Tags = append(x.Tags, "")
			if ti >= 0 {
				x.Tags[len(x.Tags)-1], x.Tags[ti] = x.Tags[ti], ""
			}
			class = "tag-empty"
		case 7:
			if ti < 0 {
				continue
			}
			x.Tags[ti] = escTag(p.Tags[ti].K) + "=" + []string{"v=w", "a=", "a==b", "ab=c=d"}[g.Intn(4)]
			class = "tag-unescaped-equals"
		case 8:
			x.Fields[fi] = fkey + "="
			class = "field-no-value"
		case 9:
			x.Fields[fi] = "=" + p.Fields[fi].Text
			class = "field-no-key"
		case 10:
			// the parser validates the field section by counting '=' and ',';
			// with string values around the count can be restored by accident
			// (known finding C12/malformed-accepted/field-without-value), so the
			// claim is made only for points without string fields
			if p.hasStrings() {
				continue
			}
			x.Fields[fi] = fkey
			class = "field-no-equals"
		case 11:
			x.Fields[fi] = fkey + "=" + badNumbers[g.Intn(len(badNumbers))]
			class = "bad-number"
		case 12:
			x.Fields[fi] = fkey + "=" + badBools[g.Intn(len(badBools))]
			class = "bad-boolean"
		case 13:
			x.Fields[fi] = fkey + "=" + intOverflow[g.Intn(len(intOverflow))]
			class = "integer-overflow"
		case 14:
			x.Fields[fi] = fkey + "=" + floatOverflow[g.Intn(len(floatOverflow))]
			class = "float-overflow"
		case 15:
			if uintOn {
				x.Fields[fi] = fkey + "=" + []string{"-1u", "18446744073709551616u", "1.5u", "1e3u", "-0u", "99999999999999999999999u", "1u1"}[g.Intn(7)]
				class = "bad-unsigned"
			} else {
				x.Fields[fi] = fkey + "=" + []string{"1u", "0u", "18446744073709551615u", "42u"}[g.Intn(4)]
				class = "unsigned-not-enabled"
			}
		case 16:
			x.Fields = x.Fields[:fi+1]
			x.Fields[fi] = fkey + "=\"" + []string{"abc", "", "a\\\"", "a b,c=d"}[g.Intn(4)]
			class = "unbalanced-quote"
		case 17:
			x.TS = badTimestamps[g.Intn(len(badTimestamps))]
			class = "bad-timestamp"
		case 18:
			m := precMult(p.Prec)
			lo, hi := -floorDiv(-minNano, m), floorDiv(maxNano, m)
			x.TS = []string{strconv.FormatInt(hi+1, 10), strconv.FormatInt(lo-1, 10), "9223372036854775807", "-9223372036854775808",
				"9223372036854775808", "-9223372036854775809", "99999999999999999999"}[g.Intn(7)]
			class = "timestamp-out-of-range"
			if m > 1 && g.Intn(2) == 0 {
				// anywhere in the out-of-range span of this precision: the
				// product with the unit wraps around int64 a varying number of times
				if g.Intn(2) == 0 {
					x.TS = strconv.FormatInt(hi+1+g.Int63n(math.MaxInt64-hi-1), 10)
				} else {
					x.TS = strconv.FormatInt(lo-1-g.Int63n(lo-1-math.MinInt64), 10)
				}
				class = "timestamp-out-of-range-wrapping"
			}
		case 19:
			if x.TS == "" {
				x.TS = "1"
			}
			x.TS += []string{" x", " 1", " f=1", "  ,", " -"}[g.Intn(5)]
			class = "garbage-after-timestamp"
		case 20:
			// a tag without a measurement separator: "m,t" handled above; here a
			// field section that is a bare value
			x.Fields = []string{p.Fields[fi].Text}
			if p.Fields[fi].Kind == kString {
				continue
			}
			class = "field-bare-value"
		}
		return class, x.bytes()
	}
}

// duplicateTag renders p with one tag key written twice.
func duplicateTag(g *rand.Rand, p *absPoint) []byte {
	x := p.parts()
	i := g.Intn(len(p.Tags))
	v := p.Tags[i].V
	if g.Intn(2) == 0 {
		v = genName(g, ctxTag, p.Exotic)
	}
	dup := escTag(p.Tags[i].K) + "=" + escTag(v)
	pos := g.Intn(len(x.Tags) + 1)
	x.Tags = append(x.Tags[:pos], append([]string{dup}, x.Tags[pos:]...)...)
	if g.Intn(3) == 0 {
		g.Shuffle(len(x.Tags), func(a, b int) { x.Tags[a], x.Tags[b] = x.Tags[b], x.Tags[a] })
	}
	return x.bytes()
}

// lenient renders p in a form outside the strict grammar that a parser may
// accept or reject, but that can only mean p.
func lenient(g *rand.Rand, p *absPoint) (string, []byte) {
	for tries := 0; tries < 20; tries++ {
		x := p.parts()
		switch g.Intn(7) {
		case 0:
			x.Sep1 = []string{"  ", " \t", " \x00", "    "}[g.Intn(4)]
			return "extra-space-before-fields", x.bytes()
		case 1:
			if x.TS == "" {
				continue
			}
			x.Sep2 = []string{"  ", " \t", " \x00 ", "     "}[g.Intn(4)]
			return "extra-space-before-timestamp", x.bytes()
		case 2:
			x.Lead = []string{" ", "\t", "\x00", "  \t "}[g.Intn(4)]
			return "leading-whitespace", x.bytes()
		case 3:
			x.Trail = []string{" ", "   "}[g.Intn(2)]
			return "trailing-space", x.bytes()
		case 4:
			if x.TS == "" || x.TS[0] == '-' {
				continue
			}
			x.TS = "00" + x.TS
			return "timestamp-leading-zeros", x.bytes()
		case 5:
			i := g.Intn(len(p.Fields))
			f := p.Fields[i]
			if (f.Kind != kInt && f.Kind != kFloat && f.Kind != kUint) || f.Text[0] == '-' || f.Text[0] == '.' {
				continue
			}
			x.Fields[i] = escFieldKey(f.Key) + "=0" + f.Text
			return "number-leading-zero", x.bytes()
		case 6:
			i := g.Intn(len(p.Fields))
			if !strings.Contains(p.Fields[i].Key, "\"") {
				continue
			}
			x.Fields[i] = escWith(p.Fields[i].Key, ", =\"") + "=" + p.Fields[i].Text
			return "field-key-escaped-quote", x.bytes()
		}
	}
	x := p.parts()
	x.Trail = " "
	return "trailing-space", x.bytes()
}

var hostileBytes = []byte{'"', '\\', ',', ' ', '=', '\n', 0, 0x80, 0xff, 0xc3, '#', '\t', '\r', 'i', 'u', 'e', 'E', '-', '+', '.', '0', '9', 't', 'f', 'N', 'n', '"', '\\', ',', ' ', '=', '\n'}

func mutate(g *rand.Rand, line, other []byte) ([]byte, string) {
	b := append([]byte(nil), line...)
	n := 1 + g.Intn(3)
	ops := ""
	for k := 0; k < n; k++ {
		if len(b) == 0 {
			b = append(b, hostileBytes[g.Intn(len(hostileBytes))])
			continue
		}
		pos := g.Intn(len(b))
		switch op := g.Intn(9); op {
		case 0:
			b[pos] = hostileBytes[g.Intn(len(hostileBytes))]
			ops += "r"
		case 1:
			b = append(b[:pos], append([]byte{hostileBytes[g.Intn(len(hostileBytes))]}, b[pos:]...)...)
			ops += "i"
		case 2:
			b = append(b[:pos], b[pos+1:]...)
			ops += "d"
		case 3:
			b = b[:pos]
			ops += "t"
		case 4:
			end := pos + g.Intn(len(b)-pos+1)
			b = append(b[:end], append(append([]byte(nil), b[pos:end]...), b[end:]...)...)
			ops += "D"
		case 5:
			if len(other) > 0 {
				cut := g.Intn(len(other))
				b = append(b[:pos], other[cut:]...)
			}
			ops += "s"
		case 6:
			j := g.Intn(len(b))
			b[pos], b[j] = b[j], b[pos]
			ops += "x"
		case 7:
			b[pos] ^= 1 << uint(g.Intn(8))
			ops += "f"
		case 8:
			b = b[pos:]
			ops += "h"
		}
	}
	return b, ops
}

func randomDefault(g *rand.Rand) time.Time {
	return time.Unix(0, g.Int63n(1<<62)-(1<<61)).UTC()
}

// ------------------------------------------------------------------ requests

type reqLine struct {
	Text string `json:"text"`
	Kind string `json:"kind"`
	p    *absPoint
	raw  []byte
}

func (c *wctx) reqCase(caseID string, seed int64) {
	g := rand.New(rand.NewSource(seed))
	classA := g.Intn(4) > 0
	prec := precisions[g.Intn(len(precisions))]
	def := randomDefault(g)
	n := 2 + g.Intn(9)
	lines := make([]*reqLine, 0, n)
	nbad := 0
	var lastGood []byte
	for i := 0; i < n; i++ {
		bad := g.Intn(3) == 0 || (i == n-1 && nbad == 0)
		if !bad {
			p := genPoint(g, profile{forcePrec: &prec, forceDef: &def})
			if len(p.Tags) > 1 {
				g.Shuffle(len(p.Tags), func(a, b int) { p.Tags[a], p.Tags[b] = p.Tags[b], p.Tags[a] })
			}
			l := &reqLine{Kind: "good", p: p, raw: p.line()}
			lastGood = l.raw
			lines = append(lines, l)
			continue
		}
		nbad++
		var l *reqLine
		for l == nil {
			p := genPoint(g, profile{forcePrec: &prec, forceDef: &def, plain: classA})
			switch k := g.Intn(12); {
			case k < 6:
				cl, b := malformed(g, p, c.uintOn)
				l = &reqLine{Kind: "malformed:" + cl, raw: b}
			case k == 6:
				l = &reqLine{Kind: "blank", raw: []byte{}}
			case k == 7:
				l = &reqLine{Kind: "whitespace", raw: []byte([]string{" ", "\t", "  \x00 ", "   "}[g.Intn(4)])}
			case k == 8:
				l = &reqLine{Kind: "comment", raw: append([]byte([]string{"#", " #", "# ", "#m f=1 ", "\t# "}[g.Intn(5)]), p.line()...)}
			case k == 9:
				if len(p.Tags) == 0 {
					continue
				}
				l = &reqLine{Kind: "duplicate-tags", raw: duplicateTag(g, p)}
			default:
				b, ops := mutate(g, p.line(), lastGood)
				l = &reqLine{Kind: "mutated:" + ops, raw: b}
			}
			if classA && (bytes.IndexByte(l.raw, '"') >= 0 || bytes.IndexByte(l.raw, '\n') >= 0 || (len(l.raw) > 0 && l.raw[len(l.raw)-1] == '\\')) {
				l = nil
			}
		}
		lines = append(lines, l)
	}
	var req []byte
	for i, l := range lines {
		l.Text = q(l.raw)
		req = append(req, l.raw...)
		if i < len(lines)-1 || g.Intn(2) == 0 {
			req = append(req, '\n')
			if g.Intn(10) == 0 {
				req = append(req, '\n')
			}
		}
	}
	wit := func() interface{} {
		return map[string]interface{}{"class_A": classA, "precision": prec, "default_time_ns": def.UnixNano(), "lines": lines, "request": q(req), "case_seed": seed}
	}
	var pts []models.Point
	var err error
	if !c.guard(caseID, "ParsePointsWithPrecision(request)", wit, func() { pts, err = parse(req, def, prec) }) {
		return
	}
	c.evals++
	c.count("requests_parsed", 1)
	if !classA {
		c.count("requests_class_B", 1)
		if c.acceptedChecks(caseID, "hostile request", pts, def, wit) {
			c.nontrivial("reqB|" + kinds(lines))
		}
		return
	}
	// class A: line by line
	var want []obs
	allOK := true
	for i, l := range lines {
		var lp []models.Point
		var lerr error
		if !c.guard(caseID, "ParsePointsWithPrecision(line alone)", wit, func() { lp, lerr = parse(l.raw, def, prec) }) {
			return
		}
		c.evals++
		if lerr != nil {
			allOK = false
		}
		if l.p != nil {
			if lerr != nil || len(lp) != 1 {
				r.Violation("C12/valid-rejected", caseID, fmt.Sprintf("line %d of the request, a valid line, parsed alone gives %d points, err=%v", i, len(lp), lerr), wit())
				return
			}
		} else if strings.HasPrefix(l.Kind, "malformed:") || l.Kind == "duplicate-tags" {
			if lerr == nil || len(lp) != 0 {
				r.Violation("C12/malformed-accepted/"+strings.TrimPrefix(l.Kind, "malformed:"), caseID, fmt.Sprintf("line %d of the request (%s) parsed alone is accepted: %d points, err=%v", i, l.Kind, len(lp), lerr), wit())
				return
			}
		}
		for _, p := range lp {
			if l.p == nil {
				// an accepted line that was not built as a valid one: its field
				// section must at least be well-formed
				if kind, ok := c.strictCheck(caseID, "request line ("+l.Kind+")", p, wit); !ok || kind != "" {
					return
				}
			}
			var o obs
			var oerr error
			if !c.guard(caseID, "observe(line alone)", wit, func() { o, oerr = observe(p) }) {
				return
			}
			if oerr != nil {
				r.Violation("C12/accepted-undecodable", caseID, fmt.Sprintf("line %d: %v", i, oerr), wit())
				return
			}
			if l.p != nil {
				if a, d := l.p.check(o); a != "" {
					r.Violation("C12/parse-mismatch/"+a, caseID, fmt.Sprintf("line %d of the request parsed alone: %s", i, d), wit())
					return
				}
			}
			want = append(want, o)
		}
	}
	if len(pts) != len(want) {
		r.Violation("C12/request/point-count", caseID, fmt.Sprintf("request of %d lines yields %d points; its lines parsed alone yield %d", len(lines), len(pts), len(want)), wit())
		return
	}
	if (err == nil) != allOK {
		r.Violation("C12/request/error-flag", caseID, fmt.Sprintf("request error is %v but all-lines-ok is %v", err, allOK), wit())
		return
	}
	for i, p := range pts {
		var o obs
		var oerr error
		if !c.guard(caseID, "observe(request point)", wit, func() { o, oerr = observe(p) }) {
			return
		}
		if oerr != nil {
			r.Violation("C12/accepted-undecodable", caseID, fmt.Sprintf("point %d of the request: %v", i, oerr), wit())
			return
		}
		if a, d := diffObs(want[i], o); a != "" {
			r.Violation("C12/request/bad-line-affects-others", caseID, fmt.Sprintf("point %d of the request differs in %s from the same line parsed alone: %s", i, a, d), wit())
			return
		}
	}
	// the accepted points through the inter-node envelope
	if len(pts) > 0 && !c.envelope(caseID, pts, want, wit) {
		return
	}
	c.count("requests_class_A", 1)
	c.count("request_lines_good", int64(len(lines)-nbad))
	c.count("request_lines_bad", int64(nbad))
	c.nontrivial("reqA|" + kinds(lines))
	if r.WantSample() && len(req) < 300 {
		r.Sample(map[string]interface{}{"case": caseID, "request": q(req), "points": len(pts), "error": fmt.Sprint(err)})
	}
}

func kinds(lines []*reqLine) string {
	var ks []string
	for _, l := range lines {
		k := l.Kind
		if i := strings.IndexByte(k, ':'); i >= 0 && strings.HasPrefix(k, "mutated") {
			k = k[:i]
		}
		ks = append(ks, k)
	}
	if len(ks) > 4 {
		ks = ks[:4]
	}
	return strings.Join(ks, ",")
}

// envelope sends points through coordinator.WriteShardRequest, the message
// used between nodes and stored by hinted handoff.
func (c *wctx) envelope(caseID string, pts []models.Point, want []obs, wit func() interface{}) bool {
	var out []models.Point
	var err error
	if !c.guard(caseID, "WriteShardRequest round trip", wit, func() {
		var w coordinator.WriteShardRequest
		w.SetShardID(7)
		w.AddPoints(pts)
		var b []byte
		b, err = w.MarshalBinary()
		if err != nil {
			return
		}
		var w2 coordinator.WriteShardRequest
		if err = w2.UnmarshalBinary(b); err != nil {
			return
		}
		out = w2.Points()
	}) {
		return false
	}
	if err != nil || len(out) != len(pts) {
		r.Violation("C12/envelope/error", caseID, fmt.Sprintf("WriteShardRequest round trip: %d points in, %d out, err=%v", len(pts), len(out), err), wit())
		return false
	}
	for i, p := range out {
		if p == nil {
			r.Violation("C12/envelope/nil-point", caseID, fmt.Sprintf("point %d came back nil from WriteShardRequest", i), wit())
			return false
		}
		var o obs
		var oerr error
		if !c.guard(caseID, "observe(envelope point)", wit, func() { o, oerr = observe(p) }) {
			return false
		}
		if oerr != nil {
			r.Violation("C12/envelope/undecodable", caseID, oerr.Error(), wit())
			return false
		}
		if a, d := diffObs(want[i], o); a != "" {
			r.Violation("C12/envelope/"+a, caseID, fmt.Sprintf("point %d differs after WriteShardRequest round trip in %s: %s", i, a, d), wit())
			return false
		}
	}
	c.count("envelope_points", int64(len(out)))
	return true
}

// ------------------------------------------------------------------ random text

var soup = []string{"m", "cpu", ",", " ", "=", "\"", "\\", "\n", "1", "0", "i", "u", "e", "-", ".", "t", "true", "F", "NaN", "\x00", "\xff", "#", "\t", "a", "b", "=1", " f=1", ",t=v", " 1", "\"x\"", "\\,", "\\ ", "\\=", "\\\"", "\\\\", "1e", "9223372036854775807", "-", "\r"}

func (c *wctx) randCase(caseID string, seed int64) {
	g := rand.New(rand.NewSource(seed))
	var b []byte
	kind := g.Intn(3)
	switch kind {
	case 0:
		b = make([]byte, g.Intn(64))
		g.Read(b)
	case 1:
		n := g.Intn(40)
		for i := 0; i < n; i++ {
			b = append(b, soup[g.Intn(len(soup))]...)
		}
	default:
		// a valid line with random bytes poured in
		p := genPoint(g, profile{exotic: g.Intn(4) == 0})
		b = p.line()
		for k := g.Intn(6); k >= 0 && len(b) > 0; k-- {
			b[g.Intn(len(b))] = byte(g.Intn(256))
		}
	}
	prec := precisions[g.Intn(len(precisions))]
	def := randomDefault(g)
	wit := func() interface{} {
		return map[string]interface{}{"input": q(b), "precision": prec, "default_time_ns": def.UnixNano(), "case_seed": seed}
	}
	var pts []models.Point
	var err error
	if !c.guard(caseID, "ParsePointsWithPrecision(random bytes)", wit, func() { pts, err = parse(b, def, prec) }) {
		return
	}
	_ = err
	c.evals++
	c.count("random_inputs_parsed", 1)
	if !c.acceptedChecks(caseID, "random bytes", pts, def, wit) {
		return
	}
	// ParseKey / ParseName / ParseTags are fed keys from disk and network too
	c.guard(caseID, "ParseKeyBytes(random bytes)", wit, func() {
		models.ParseKeyBytes(append([]byte(nil), b...))
		models.ParseName(append([]byte(nil), b...))
		models.ParseTags(append([]byte(nil), b...))
	})
	if len(pts) > 0 {
		c.nontrivial(fmt.Sprintf("rand|%d|%d|%s", kind, len(pts), classes(string(b))))
	}
}

// ------------------------------------------------------------------ binary

var hostileFieldBytes = []string{"a=\"", "a=", "=", "a", "a=1,", ",", "a=\"\\", "\"", "a=\"x", "a=1i,b", "a=i", "a=u", "a=-", "a=.", "=1", "a=1,=2", "a==", "a=\"\"\"", "a=t,b=\"", "\\", "a\\=1", "a=1e", "a=nan", "a=\"x\"y", "a=1,,b=2", "a=1 b=2"}
var hostileKeyBytes = []string{"", ",", "m,", "m,=", "m,a", "m,a=", "\\", "m\\", "m,a=b,", "m,,", ",a=b", "m,a=b\\", "m,=b", "m,a==", " ", "m,a=b,a=b", "m,\\=", "m,a=b,c", "\x00", "m\n", "m,a=\\"}

func binPoint(key, fields string, t time.Time) []byte {
	tb, _ := t.MarshalBinary()
	b := make([]byte, 0, 8+len(key)+len(fields)+len(tb))
	var l [4]byte
	binary.BigEndian.PutUint32(l[:], uint32(len(key)))
	b = append(b, l[:]...)
	b = append(b, key...)
	binary.BigEndian.PutUint32(l[:], uint32(len(fields)))
	b = append(b, l[:]...)
	b = append(b, fields...)
	return append(b, tb...)
}

// useDecoded reads a decoded point the way the storage engine and the
// coordinator do. Nothing is asserted about the values: the input is
// hostile; only that reading does not crash.
func useDecoded(p models.Point) {
	p.Name()
	p.Key()
	p.HashID()
	p.Tags()
	p.ForEachTag(func(k, v []byte) bool { return true })
	p.HasTag([]byte("a"))
	p.Time()
	p.UnixNano()
	it := p.FieldIterator()
	for it.Next() {
		if len(it.FieldKey()) == 0 {
			continue
		}
		switch it.Type() {
		case models.Float:
			it.FloatValue()
		case models.Integer:
			it.IntegerValue()
		case models.Unsigned:
			it.UnsignedValue()
		case models.String:
			it.StringValue()
		case models.Boolean:
			it.BooleanValue()
		}
	}
	p.ForEachField(func(k, v []byte) bool { return true })
	p.Fields()
	_ = p.String()
	p.StringSize()
	p.MarshalBinary()
}

func (c *wctx) decodeHostile(caseID, what string, b []byte, mustFail bool, wit func() interface{}) bool {
	var p models.Point
	var err error
	if !c.guard(caseID, "NewPointFromBytes("+what+")", wit, func() {
		p, err = models.NewPointFromBytes(append([]byte(nil), b...))
		if err == nil && p != nil {
			useDecoded(p)
		}
	}) {
		return false
	}
	c.evals++
	if err == nil {
		c.count("hostile_binary_accepted", 1)
		if mustFail {
			r.Violation("C12/binary/truncated-accepted", caseID, what+": a strict prefix of a marshalled point was decoded without error", wit())
			return false
		}
	} else {
		c.count("hostile_binary_rejected", 1)
	}
	fresh := freshPoint()
	if !c.guard(caseID, "UnmarshalBinary("+what+")", wit, func() {
		err = fresh.(encoding.BinaryUnmarshaler).UnmarshalBinary(append([]byte(nil), b...))
		if err == nil {
			useDecoded(fresh)
		}
	}) {
		return false
	}
	c.evals++
	if err == nil && mustFail {
		r.Violation("C12/binary/truncated-accepted", caseID, what+": UnmarshalBinary decoded a strict prefix of a marshalled point without error", wit())
		return false
	}
	return true
}

func (c *wctx) binCase(caseID string, seed int64) {
	g := rand.New(rand.NewSource(seed))
	p := genPoint(g, profile{allowUint: c.uintOn, maxTags: 4})
	line := p.line()
	var pts []models.Point
	var err error
	var b []byte
	base := func() interface{} { return map[string]interface{}{"line": q(line), "case_seed": seed} }
	if !c.guard(caseID, "parse+MarshalBinary", base, func() {
		pts, err = parse(line, p.Default, p.Prec)
		if err == nil && len(pts) == 1 {
			b, err = pts[0].MarshalBinary()
		}
	}) {
		return
	}
	if err != nil || len(pts) != 1 {
		r.Violation("C12/valid-rejected", caseID, fmt.Sprintf("valid line rejected: %d points, err=%v", len(pts), err), base())
		return
	}
	cur := []byte(nil)
	what := ""
	wit := func() interface{} {
		return map[string]interface{}{"base_line": q(line), "mutation": what, "bytes": q(cur), "case_seed": seed}
	}
	// truncations
	var cuts []int
	if len(b) <= 96 {
		for k := 0; k < len(b); k++ {
			cuts = append(cuts, k)
		}
	} else {
		for k := 0; k < 12; k++ {
			cuts = append(cuts, k, len(b)-1-k)
		}
		for k := 0; k < 40; k++ {
			cuts = append(cuts, g.Intn(len(b)))
		}
	}
	for _, k := range cuts {
		cur, what = b[:k], fmt.Sprintf("truncated to %d of %d", k, len(b))
		if !c.decodeHostile(caseID, "truncated", cur, true, wit) {
			return
		}
	}
	c.count("binary_truncations", int64(len(cuts)))
	// length-prefix tampering
	klen := int(binary.BigEndian.Uint32(b[:4]))
	flenOff := 4 + klen
	flen := int(binary.BigEndian.Uint32(b[flenOff : flenOff+4]))
	for _, off := range []int{0, flenOff} {
		orig := klen
		if off != 0 {
			orig = flen
		}
		for _, v := range []uint32{0, 1, uint32(orig - 1), uint32(orig + 1), uint32(len(b)), uint32(len(b) - off - 4), uint32(len(b) - off - 3), 0x7fffffff, 0x80000000, 0xffffffff, 0xfffffffc, uint32(g.Intn(1 << 16)), g.Uint32()} {
			m := append([]byte(nil), b...)
			binary.BigEndian.PutUint32(m[off:], v)
			cur, what = m, fmt.Sprintf("length prefix at %d set to %d (was %d)", off, v, orig)
			if !c.decodeHostile(caseID, "length-prefix", cur, false, wit) {
				return
			}
		}
	}
	// byte mutations
	for k := 0; k < 12; k++ {
		m, ops := mutate(g, b, b)
		cur, what = m, "mutated:"+ops
		if !c.decodeHostile(caseID, "mutated", cur, false, wit) {
			return
		}
	}
	// crafted sections and random bytes
	for k := 0; k < 6; k++ {
		key, fields := string(pts[0].Key()), "a=1"
		switch g.Intn(4) {
		case 0:
			fields = hostileFieldBytes[g.Intn(len(hostileFieldBytes))]
		case 1:
			key = hostileKeyBytes[g.Intn(len(hostileKeyBytes))]
		case 2:
			key, fields = hostileKeyBytes[g.Intn(len(hostileKeyBytes))], hostileFieldBytes[g.Intn(len(hostileFieldBytes))]
		default:
			kb, _ := mutate(g, pts[0].Key(), line)
			fb, _ := mutate(g, []byte(strings.Join(p.parts().Fields, ",")), line)
			key, fields = string(kb), string(fb)
		}
		cur, what = binPoint(key, fields, pts[0].Time()), fmt.Sprintf("crafted key=%q fields=%q", key, fields)
		if g.Intn(6) == 0 {
			cur = cur[:len(cur)-g.Intn(16)]
		}
		if !c.decodeHostile(caseID, "crafted", cur, false, wit) {
			return
		}
	}
	for k := 0; k < 4; k++ {
		m := make([]byte, g.Intn(48))
		g.Read(m)
		if len(m) >= 4 && g.Intn(2) == 0 {
			binary.BigEndian.PutUint32(m, uint32(g.Intn(len(m))))
		}
		cur, what = m, "random bytes"
		if !c.decodeHostile(caseID, "random", cur, false, wit) {
			return
		}
	}
	c.count("binary_base_points", 1)
	c.nontrivial(fmt.Sprintf("bin|%s|%d", classes(string(b[4:4+klen])), len(p.Fields)))
}

// ------------------------------------------------------------------ edges

func (c *wctx) edgeCase(caseID string, seed int64) {
	g := rand.New(rand.NewSource(seed))
	p := genPoint(g, profile{allowUint: c.uintOn, maxTags: 3})
	kind := g.Intn(6)
	name := ""
	expectReject := false
	switch kind {
	case 0: // series key size at the limit (65535) and one over
		name = "key-size-limit"
		p.Tags = []tagKV{{"t", ""}}
		p.M = "m"
		longest := 0
		for _, f := range p.Fields {
			if n := len(escFieldKey(f.Key)); n > longest {
				longest = n
			}
		}
		// len("m,t=")+L + 4 + longest == 65535
		L := models.MaxKeyLength - 4 - 4 - longest
		if g.Intn(2) == 0 {
			L++
			expectReject = true
			name = "key-size-over-limit"
		}
		p.Tags[0].V = strings.Repeat("v", L)
	case 1: // around the parser's initial tag-index capacity
		name = "many-tags"
		n := []int{99, 100, 101, 102, 199, 200, 201, 250}[g.Intn(8)]
		p.Tags = nil
		for i := 0; i < n; i++ {
			p.Tags = append(p.Tags, tagKV{fmt.Sprintf("k%d%s", i, []string{"", ",", " ", "="}[g.Intn(4)]), genName(g, ctxTag, false)})
		}
		g.Shuffle(n, func(a, b int) { p.Tags[a], p.Tags[b] = p.Tags[b], p.Tags[a] })
	case 2:
		name = "many-fields"
		p.Fields = nil
		for i := 0; i < 150+g.Intn(100); i++ {
			p.Fields = append(p.Fields, genField(g, fmt.Sprintf("f%d%s", i, []string{"", ",", " ", "=", "\""}[g.Intn(5)]), c.uintOn))
		}
	case 3:
		name = "long-string"
		s := strings.Repeat(genString(g)+"x", 1+g.Intn(3000))
		p.Fields[0] = field{Key: p.Fields[0].Key, Kind: kString, S: s, Text: escString(s, false), Form: "string"}
	case 4:
		name = "long-measurement"
		p.M = fixName(strings.Repeat(genName(g, ctxMeasurement, false), 1+g.Intn(400)), ctxMeasurement, false)
		if len(keyFor(p.M, p.Tags)) > 60000 {
			p.M = "m"
		}
	case 5:
		name = "long-number"
		v := []float64{1e308, 1e300, 5e-324, 1e-300, math.MaxFloat64, 123456789e200}[g.Intn(6)]
		p.Fields[0] = field{Key: p.Fields[0].Key, Kind: kFloat, F: v, Text: strconv.FormatFloat(v, 'f', -1, 64), Form: "float:f-long"}
	}
	line := p.line()
	wit := func() interface{} {
		l := line
		if len(l) > 400 {
			l = l[:400]
		}
		return map[string]interface{}{"edge": name, "line_prefix": q(l), "line_len": len(line), "case_seed": seed}
	}
	var pts []models.Point
	var err error
	if !c.guard(caseID, "parse(edge)", wit, func() { pts, err = parse(line, p.Default, p.Prec) }) {
		return
	}
	c.evals++
	if expectReject {
		// correct behaviour is a rejection; nothing is claimed beyond "no crash"
		if err != nil {
			c.count("edge_over_limit_rejected", 1)
		} else {
			c.count("edge_over_limit_accepted", 1)
		}
		return
	}
	if err != nil || len(pts) != 1 {
		r.Violation("C12/valid-rejected", caseID, fmt.Sprintf("%s: valid line rejected: %d points, err=%.200v", name, len(pts), err), wit())
		return
	}
	var o obs
	if !c.guard(caseID, "observe(edge)", wit, func() { o, err = observe(pts[0]) }) {
		return
	}
	if err != nil {
		r.Violation("C12/accepted-undecodable", caseID, name+": "+err.Error(), wit())
		return
	}
	if a, d := p.check(o); a != "" {
		if len(d) > 300 {
			d = d[:300]
		}
		r.Violation("C12/parse-mismatch/"+a, caseID, name+": "+d, wit())
		return
	}
	if !c.roundTrips(caseID, "edge:"+name, pts[0], o, p.Default, wit) {
		return
	}
	if len(p.Tags) > 1 {
		perm := g.Perm(len(p.Tags))
		line2 := p.withTagOrder(perm).line()
		var p2 []models.Point
		if !c.guard(caseID, "parse(edge permuted)", wit, func() { p2, err = parse(line2, p.Default, p.Prec) }) {
			return
		}
		if err != nil || len(p2) != 1 || string(p2[0].Key()) != o.Key || p2[0].HashID() != o.Hash {
			r.Violation("C12/tag-order/key", caseID, name+": key or hash differs for another tag order", wit())
			return
		}
		// a duplicate among many
		var p3 []models.Point
		dl := duplicateTag(g, p)
		if !c.guard(caseID, "parse(edge duplicate)", wit, func() { p3, err = parse(dl, p.Default, p.Prec) }) {
			return
		}
		if err == nil || len(p3) != 0 {
			r.Violation("C12/duplicate-tags-accepted", caseID, name+": a line with a duplicated tag key was accepted", wit())
			return
		}
	}
	c.count("edge_"+name, 1)
	c.nontrivial("edge|" + name)
}
