// C06 — cluster metadata is a deterministic function of the committed command
// sequence and keeps its invariants.
//
// Monitor: generated command logs (50–400 entries, every command type the FSM
// accepts except RemovePeer and legacy CreateNode, arguments from small pools)
// are applied entry by entry, with explicit (index, term), to three independent
// instances of the real meta FSM (Go randomises map iteration per map, so an
// order leak shows up as divergence between in-process replicas) and to a 4th
// instance that is snapshotted and restored at seeded points. After EVERY entry
// the oracle (canon.go, oracle.go) compares the replicas and evaluates the
// invariants of the property statement.
package main

import (
	"bytes"
	"encoding/hex"
	"encoding/json"
	"fmt"
	"math"
	"math/rand"
	"os"
	"runtime"
	"runtime/debug"
	"sort"
	"strings"
	"sync"
	"time"

	"github.com/influxdata/influxdb/services/meta"

	"verifharness/internal/ev"
)

func main() { ev.Supervise("C06", body) }

var r *ev.Run

const nRep = 4 // replicas 0..2 plain, replica 3 snapshot/restored

type logCfg struct {
	AutoCreate bool
	fixed      bool // commands come from a recorded list (shrinking / replaying a witness)
}

type logResult struct {
	cmds    []*Cmd
	viol    []violation
	violAt  []int // index into cmds of the entry that produced viol[i]
	c       map[string]int64
	bigrams map[[2]int]bool
	nontriv bool
	aborted string
}

func newFSM(cfg logCfg) *meta.VerifFSM {
	c := meta.NewConfig()
	c.RetentionAutoCreate = cfg.AutoCreate
	return meta.NewVerifFSM(c)
}

func snapshotBytes(f *meta.VerifFSM) []byte {
	s, err := f.Snapshot()
	if err != nil {
		harnessFatal("Snapshot: %v", err)
	}
	b, err := s.Persist()
	if err != nil {
		harnessFatal("Persist: %v", err)
	}
	return append([]byte(nil), b...)
}

func harnessFatal(f string, a ...interface{}) {
	fmt.Fprintf(os.Stderr, "C06 harness: "+f+"\n", a...)
	os.Exit(ev.ExitBroken)
}

// applyOne applies one entry; a panic in the FSM is returned, not propagated.
func applyOne(f *meta.VerifFSM, c *Cmd) (err error, panicked interface{}) {
	defer func() {
		if e := recover(); e != nil {
			panicked = e
		}
	}()
	return f.Apply(c.Index, c.Term, c.bytes), nil
}

// execLog runs one log. next returns the i-th command given replica 0's
// current metadata and the data-node ids removed so far (nil ends the log).
func execLog(cfg logCfg, next func(i int, d *meta.Data, removed []uint64) *Cmd) *logResult {
	res := &logResult{c: map[string]int64{}, bigrams: map[[2]int]bool{}}
	var fsm [nRep]*meta.VerifFSM
	for k := range fsm {
		fsm[k] = newFSM(cfg)
	}
	r3ok := true
	o := newOracle()
	// canonical forms live in re-used buffers: full/prevFull swap every entry
	var live, full, prevFull [nRep][]byte
	for k := range fsm {
		prevFull[k] = canonInto(nil, fsm[k].Data(), canonFull, nil)
	}
	o.check(fsm[0].Data(), nil, false, true)
	report := func(at int, v violation) {
		res.viol = append(res.viol, v)
		res.violAt = append(res.violAt, at)
	}
	prevType := 0

	for i := 0; ; i++ {
		cmd := next(i, fsm[0].Data(), o.removedList())
		if cmd == nil {
			break
		}
		res.cmds = append(res.cmds, cmd)
		res.bigrams[[2]int{prevType, cmd.Type}] = true
		prevType = cmd.Type
		ct := cmd.TypeName()

		// ---- apply to every replica
		var errs [nRep]error
		for k := range fsm {
			if k == 3 && !r3ok {
				continue
			}
			e, p := applyOne(fsm[k], cmd)
			if p != nil {
				report(i, violation{"C06/apply-panicked/" + ct, fmt.Sprintf("replica %d: FSM.Apply panicked on %s: %v", k, cmd.Desc, p)})
				res.aborted = "panic"
				return finish(res, o)
			}
			errs[k] = e
		}
		res.c["entries_applied"]++
		rejected := errs[0] != nil
		if rejected {
			res.c["entries_rejected"]++
			res.c["cmd_"+ct+"_rejected"]++
		} else {
			res.c["cmd_"+ct+"_ok"]++
		}

		// ---- canonical forms
		for k := range fsm {
			if k == 3 && !r3ok {
				continue
			}
			d := fsm[k].Data()
			live[k] = canonInto(live[k], d, canonLive, nil)
			full[k] = canonInto(full[k], d, canonFull, nil)
			if d.Index != cmd.Index || d.Term != cmd.Term {
				// not part of the property, but the comparison below relies on it
				res.c["index_or_term_not_stamped"]++
			}
		}

		// ---- a rejected command changes nothing
		for k := range fsm {
			if k == 3 && !r3ok {
				continue
			}
			if errs[k] != nil && !bytes.Equal(full[k], prevFull[k]) {
				a, b := firstDiff(string(prevFull[k]), string(full[k]))
				report(i, violation{"C06/rejected-command-changed-state/" + ct,
					fmt.Sprintf("replica %d: %s returned %q but the metadata changed: %q -> %q", k, cmd.Desc, errs[k], a, b)})
				break
			}
		}
		if rejected {
			res.c["rejected_unchanged_checks"]++
		}

		// ---- replicas agree
		res.c["replica_comparisons"]++
		plainAgree := bytes.Equal(live[0], live[1]) && bytes.Equal(live[0], live[2])
		if plainAgree && (!r3ok || bytes.Equal(live[3], live[0])) {
			if (errs[0] == nil) != (errs[1] == nil) || (errs[0] == nil) != (errs[2] == nil) {
				res.c["same_state_different_outcome_observed"]++
			}
		} else {
			other := 3
			for k := 2; k >= 1; k-- {
				if !bytes.Equal(live[k], live[0]) {
					other = k
				}
			}
			a, b := firstDiff(string(live[0]), string(live[other]))
			sig := "C06/replica-divergence/" + ct
			what := fmt.Sprintf("replicas fed the same %d entries differ after %s: replica 0 %q vs replica %d %q", i+1, cmd.Desc, a, other, b)
			if plainAgree {
				sig = "C06/restored-replica-diverges/" + ct
				what = fmt.Sprintf("after %s the replica that was restored from a snapshot earlier differs from the plain replicas: %q vs %q", cmd.Desc, a, b)
			}
			if cmd.Type == TypeDeleteDataNode {
				// Is the difference confined to the owners chosen for shards
				// that were owned by the removed node alone?
				mk := &mask{owners: o.soleOwned(cmd.nodeID)}
				same := len(mk.owners) > 0
				m0 := canon(fsm[0].Data(), canonLive, mk)
				for k := 1; k < nRep && same; k++ {
					if k == 3 && !r3ok {
						continue
					}
					same = canon(fsm[k].Data(), canonLive, mk) == m0
				}
				if same {
					sig = "C06/replica-divergence/DeleteDataNodeCommand/orphaned-shard-new-owner"
				}
			}
			report(i, violation{sig, what})
			res.c["divergences_observed"]++
			// Re-synchronise every replica from replica 0 so that the rest of
			// the log is still checked.
			b0 := snapshotBytes(fsm[0])
			for k := range fsm {
				fsm[k] = newFSM(cfg)
				if err := fsm[k].Restore(b0); err != nil {
					harnessFatal("Restore: %v", err)
				}
				full[k] = canonInto(full[k], fsm[k].Data(), canonFull, nil)
			}
			r3ok = true
			if canon(fsm[0].Data(), canonLive, nil) != string(live[0]) {
				res.aborted = "resync changed the state"
				return finish(res, o)
			}
		}

		// ---- invariants (on replica 0)
		baseline := cfg.fixed && cmd.Type == TypeSetData
		for _, v := range o.check(fsm[0].Data(), cmd, rejected, baseline) {
			report(i, v)
		}

		// ---- snapshot / restore of replica 3
		if cmd.Snap != 0 && r3ok {
			b3 := snapshotBytes(fsm[3])
			if cmd.Snap == 2 {
				fsm[3] = newFSM(cfg)
			}
			if err := fsm[3].Restore(b3); err != nil {
				report(i, violation{"C06/snapshot-restore-failed", fmt.Sprintf("Restore of a snapshot taken after %s failed: %v", cmd.Desc, err)})
				r3ok = false
			} else {
				res.c["snapshots_restored"]++
				l3 := canon(fsm[3].Data(), canonLive, nil)
				full[3] = canonInto(full[3], fsm[3].Data(), canonFull, nil)
				if l3 != string(live[0]) {
					a, b := firstDiff(string(live[0]), l3)
					sig := "C06/snapshot-restore-changed-metadata"
					// Is the difference confined to groups with a time that
					// int64 nanoseconds (the snapshot encoding) cannot hold?
					// or to groups truncated at exactly the Unix epoch (encoded as 0 = "not truncated")?
					what := fmt.Sprintf("snapshot+restore after %s changed the metadata: %q became %q", cmd.Desc, a, b)
					oor, epoch := unrepresentable(fsm[0].Data())
					both := &mask{times: map[uint64]bool{}}
					for id := range oor.times {
						both.times[id] = true
					}
					for id := range epoch.times {
						both.times[id] = true
					}
					eq := func(mk *mask) bool {
						return len(mk.times) > 0 && canon(fsm[0].Data(), canonLive, mk) == canon(fsm[3].Data(), canonLive, mk)
					}
					switch {
					case eq(oor):
						sig += "/time-outside-int64-nanoseconds"
					case eq(epoch):
						sig += "/truncated-at-unix-epoch"
					case eq(both):
						report(i, violation{sig + "/truncated-at-unix-epoch", what})
						sig += "/time-outside-int64-nanoseconds"
					}
					report(i, violation{sig, what})
					r3ok = false
				}
			}
		}
		prevFull, full = full, prevFull
	}
	return finish(res, o)
}

var (
	minNS = time.Unix(0, math.MinInt64)
	maxNS = time.Unix(0, math.MaxInt64)
)

// unrepresentable lists the groups that carry a time outside the range of
// int64 nanoseconds since the epoch (oor), and the groups truncated at exactly
// the Unix epoch (epoch) — the two things the snapshot encoding
// (MarshalTime/UnmarshalTime: UnixNano, 0 = unset) cannot express.
func unrepresentable(d *meta.Data) (oor, epoch *mask) {
	oor, epoch = &mask{times: map[uint64]bool{}}, &mask{times: map[uint64]bool{}}
	for i := range d.Databases {
		for j := range d.Databases[i].RetentionPolicies {
			for _, sg := range d.Databases[i].RetentionPolicies[j].ShardGroups {
				for _, t := range []time.Time{sg.StartTime, sg.EndTime, sg.TruncatedAt} {
					if !t.IsZero() && (t.Before(minNS) || t.After(maxNS)) {
						oor.times[sg.ID] = true
					}
				}
				if !sg.TruncatedAt.IsZero() && sg.TruncatedAt.Equal(time.Unix(0, 0)) {
					epoch.times[sg.ID] = true
				}
			}
		}
	}
	return
}

func finish(res *logResult, o *oracle) *logResult {
	for k, v := range o.c {
		if strings.HasPrefix(k, "max_") {
			if v > res.c[k] {
				res.c[k] = v
			}
			continue
		}
		res.c[k] += v
	}
	res.nontriv = o.orphanRemoval || o.createAfterTrnc
	if o.orphanRemoval {
		res.c["logs_with_orphaning_node_removal"]++
	}
	if o.createAfterTrnc {
		res.c["logs_with_group_creation_after_truncation"]++
	}
	return res
}

// ------------------------------------------------------------------ sources

func genSource(seed int64, p *profile) func(int, *meta.Data, []uint64) *Cmd {
	g := rand.New(rand.NewSource(seed))
	x := &gen{g: g, p: p}
	index, term := uint64(1), uint64(1)
	return func(i int, d *meta.Data, removed []uint64) *Cmd {
		if i >= p.N {
			return nil
		}
		x.removed = removed
		c := x.next(d)
		index += 1 + uint64(g.Intn(8)/7) // occasional gap (raft no-op / configuration entries)
		if g.Intn(40) == 0 {
			term++
		}
		c.Index, c.Term = index, term
		if g.Float64() < p.SnapP {
			c.Snap = 1 + g.Intn(2)
		}
		return c
	}
}

func fixedSource(cmds []*Cmd) func(int, *meta.Data, []uint64) *Cmd {
	return func(i int, d *meta.Data, removed []uint64) *Cmd {
		if i >= len(cmds) {
			return nil
		}
		return cmds[i]
	}
}

// ------------------------------------------------------------------ shrinking

func hasSig(res *logResult, sig string) bool {
	for _, v := range res.viol {
		if v.Sig == sig {
			return true
		}
	}
	return false
}

// shrink removes entries from cmds while the violation class sig is still
// observed (delta debugging over the recorded bytes).
func shrink(cfg logCfg, cmds []*Cmd, sig string) []*Cmd {
	cfg.fixed = true
	tries := 1
	if strings.Contains(sig, "divergence") {
		tries = 8 // map order: a tie is observed by three replicas with probability 3/4
	}
	budget := 6000
	test := func(c []*Cmd) bool {
		for t := 0; t < tries && budget > 0; t++ {
			budget--
			if hasSig(execLog(cfg, fixedSource(c)), sig) {
				return true
			}
		}
		return false
	}
	cur := append([]*Cmd(nil), cmds...)
	if !test(cur) {
		return nil // not reproducible from the recorded bytes
	}
	// SetData entries first: they make a short but unreadable reproduction.
	var noSD []*Cmd
	for _, c := range cur {
		if c.Type != TypeSetData {
			noSD = append(noSD, c)
		}
	}
	if len(noSD) < len(cur) && test(noSD) {
		cur = noSD
	}
	for chunk := (len(cur) + 1) / 2; chunk >= 1 && budget > 0; {
		removed := false
		for start := 0; start < len(cur) && budget > 0; {
			end := start + chunk
			if end > len(cur) {
				end = len(cur)
			}
			cand := append(append([]*Cmd(nil), cur[:start]...), cur[end:]...)
			if len(cand) > 0 && test(cand) {
				cur = cand
				removed = true
			} else {
				start = end
			}
		}
		if chunk == 1 {
			if !removed {
				break
			}
			continue
		}
		chunk = (chunk + 1) / 2
	}
	return cur
}

func descs(cmds []*Cmd) []string {
	out := make([]string, len(cmds))
	for i, c := range cmds {
		out[i] = c.Desc
		if c.Snap != 0 {
			out[i] += fmt.Sprintf(" +snapshot/restore(%d)", c.Snap)
		}
	}
	return out
}

// ------------------------------------------------------------------ body

var sigOnce sync.Map // signature -> *sync.Once

type witness struct {
	Seed       int64    `json:"case_seed"`
	AutoCreate bool     `json:"retention_autocreate"`
	At         int      `json:"violating_entry"`
	Minimal    []string `json:"minimal_reproduction,omitempty"`
	MinimalCmd []*Cmd   `json:"minimal_reproduction_entries,omitempty"`
	Log        []*Cmd   `json:"log_up_to_violation"`
}

// reportAll hands the violations of one log to the evidence plumbing. The
// first occurrence of every signature in this run is minimised first (later
// occurrences of the same signature wait for it, so that the minimised one is
// the first to be printed / written).
func reportAll(caseID string, seed int64, cfg logCfg, res *logResult) {
	for i, v := range res.viol {
		at := res.violAt[i]
		prefix := res.cmds[:at+1]
		w := witness{Seed: seed, AutoCreate: cfg.AutoCreate, At: at, Log: prefix}
		oi, _ := sigOnce.LoadOrStore(v.Sig, new(sync.Once))
		done := false
		oi.(*sync.Once).Do(func() {
			done = true
			what := v.What
			if m := shrink(cfg, prefix, v.Sig); m != nil {
				w.Minimal, w.MinimalCmd = descs(m), m
				what += fmt.Sprintf(" || minimal reproduction (retention-autocreate=%v, %d entries): %s", cfg.AutoCreate, len(m), strings.Join(w.Minimal, "; "))
			}
			r.Violation(v.Sig, caseID, what, w)
		})
		if !done {
			r.Violation(v.Sig, caseID, v.What, w)
		}
	}
}

func body() {
	r = ev.Start("C06", "exploration")
	r.Rule = "command logs of 50-400 entries over 30 command types with per-log random type weights, arguments from small pools (3 databases, 3 policies, 6 node addresses, timestamps on a 16-slot grid around one base time, ids aimed at existing / removed / unknown objects); a log is non-trivial when it contains a data-node removal that orphans a shard of a live group or a shard-group creation after an effective truncation; distinct by the set of command-type bigrams"
	r.Assumptions = []string{
		"in-process replicas applying the same bytes stand for raft replicas (raft delivers the same committed sequence to every FSM)",
		"shard groups marked deleted are not compared across replicas: DeletedAt is time.Now() and pruning depends on the local clock",
		"SetDataCommand is exercised only with the current metadata (deletion stamps backdated); replacing the metadata by an arbitrary other value is a restore and outside the statement",
		"RemovePeerCommand and legacy CreateNodeCommand need a live raft instance and are not generated; SetDefaultRetentionPolicyCommand is not handled by the FSM at all",
	}
	r.Floor = r.Pick(200, 2000)
	debug.SetGCPercent(400) // allocation-heavy, tiny live heap

	selfTest()
	runRepros()

	n := r.Pick(6000, 120000)
	if v := os.Getenv("C06_NLOGS"); v != "" {
		fmt.Sscan(v, &n)
	}
	type job struct {
		id   string
		seed int64
	}
	jobs := make(chan job, 256)
	var wg sync.WaitGroup
	for w := 0; w < runtime.NumCPU(); w++ {
		wg.Add(1)
		go func() {
			defer wg.Done()
			for j := range jobs {
				oneLog(j.id, j.seed)
			}
		}()
	}
	rng := r.Rand("logs")
	for i := 0; i < n; i++ {
		caseID := fmt.Sprintf("log/%d", i)
		seed := rng.Int63()
		if r.Skip(caseID) {
			continue
		}
		jobs <- job{caseID, seed}
	}
	close(jobs)
	wg.Wait()
	replayWitness()
	r.Finish()
}

func oneLog(caseID string, seed int64) {
	g := rand.New(rand.NewSource(seed))
	p := newProfile(g)
	cfg := logCfg{AutoCreate: p.AutoCreate}
	r.Begin(caseID, map[string]interface{}{"case_seed": seed, "entries": p.N})
	r.Eval(1)
	res := execLog(cfg, genSource(g.Int63(), p))
	reportAll(caseID, seed, cfg, res)
	for k, v := range res.c {
		if strings.HasPrefix(k, "max_") {
			continue
		}
		r.Count(k, v)
	}
	if res.aborted != "" {
		r.Count("logs_cut_short", 1)
	}
	if res.nontriv {
		keys := make([]string, 0, len(res.bigrams))
		for b := range res.bigrams {
			keys = append(keys, fmt.Sprintf("%d>%d", b[0], b[1]))
		}
		sort.Strings(keys)
		r.Nontrivial(strings.Join(keys, ","))
	}
	if r.WantSample() && len(res.cmds) <= 80 && res.nontriv {
		d := descs(res.cmds)
		if len(d) > 25 {
			d = append(d[:25], fmt.Sprintf("... %d more", len(res.cmds)-25))
		}
		r.Sample(map[string]interface{}{"case": caseID, "entries": len(res.cmds), "retention_autocreate": p.AutoCreate, "first_entries": d,
			"rejected": res.c["entries_rejected"], "groups_created": res.c["groups_created"], "snapshots_restored": res.c["snapshots_restored"]})
	}
}

// replayWitness: when replaying, the recorded minimal reproduction (bytes) is
// run as well, independently of the generator.
func replayWitness() {
	p := os.Getenv("VERIF_REPLAY")
	if p == "" {
		return
	}
	b, err := os.ReadFile(p)
	if err != nil {
		return
	}
	var rp struct {
		Case    string  `json:"case"`
		Witness witness `json:"witness"`
	}
	if json.Unmarshal(b, &rp) != nil {
		return
	}
	for _, list := range [][]*Cmd{rp.Witness.MinimalCmd, rp.Witness.Log} {
		if len(list) == 0 {
			continue
		}
		for _, c := range list {
			c.bytes, _ = hex.DecodeString(c.Hex)
			c.Type = int(decodeType(c.bytes))
			c.nodeID = decodeNodeArg(c)
		}
		cfg := logCfg{AutoCreate: rp.Witness.AutoCreate, fixed: true}
		for t := 0; t < 8; t++ {
			res := execLog(cfg, fixedSource(list))
			if len(res.viol) > 0 {
				fmt.Printf("replay of recorded entries (%d): %d violation(s), first: %s: %s\n", len(list), len(res.viol), res.viol[0].Sig, res.viol[0].What)
				for i, v := range res.viol {
					r.Violation(v.Sig, rp.Case+"/recorded", v.What, witness{AutoCreate: cfg.AutoCreate, At: res.violAt[i], Log: list})
				}
				return
			}
		}
		fmt.Printf("replay of recorded entries (%d): no violation in 8 runs\n", len(list))
	}
}

// decodeType reads field 1 (varint) at the start of a command.
func decodeType(b []byte) uint64 {
	if len(b) < 2 || b[0] != 0x08 {
		return 0
	}
	v, _ := readVarint(b[1:])
	return v
}

func readVarint(b []byte) (uint64, int) {
	var v uint64
	for i := 0; i < len(b) && i < 10; i++ {
		v |= uint64(b[i]&0x7f) << (7 * uint(i))
		if b[i] < 0x80 {
			return v, i + 1
		}
	}
	return 0, 0
}

// decodeNodeArg recovers the node id argument of DeleteDataNode (field 1) and
// CopyShardOwner (field 2) from recorded bytes.
func decodeNodeArg(c *Cmd) uint64 {
	if c.Type != TypeDeleteDataNode && c.Type != TypeCopyShardOwner {
		return 0
	}
	b := c.bytes
	// skip "08 <type>" and the extension key + length
	_, n := readVarint(b[1:])
	b = b[1+n:]
	_, n = readVarint(b)
	b = b[n:]
	_, n = readVarint(b)
	b = b[n:]
	want := byte(0x08)
	if c.Type == TypeCopyShardOwner {
		want = 0x10
	}
	for len(b) > 0 {
		k := b[0]
		v, n := readVarint(b[1:])
		if n == 0 {
			return 0
		}
		if k == want {
			return v
		}
		b = b[1+n:]
	}
	return 0
}

// selfTest checks the harness's own encoders against the real code before
// any verdict depends on them: one command of every generated type must be
// accepted by the FSM's decoder, and EncodeData must round-trip.
func selfTest() {
	cfg := logCfg{AutoCreate: true}
	f := newFSM(cfg)
	idx := uint64(1)
	ap := func(b []byte) error {
		idx++
		e, p := applyOne(f, &Cmd{Index: idx, Term: 1, bytes: b})
		if p != nil {
			harnessFatal("self-test: Apply panicked on type %d: %v", decodeType(b), p)
		}
		return e
	}
	must := func(e error, what string) {
		if e != nil {
			harnessFatal("self-test: %s: %v", what, e)
		}
	}
	for i := 0; i < 3; i++ {
		must(ap(CmdCreateDataNode(fmt.Sprintf("h%d:8086", i), fmt.Sprintf("d%d:8088", i))), "CreateDataNode")
	}
	must(ap(CmdCreateMetaNode("h0:8091", "m0:8089", 7)), "CreateMetaNode")
	must(ap(CmdSetMetaNode("h0:8091", "m0:8089", 7)), "SetMetaNode")
	must(ap(CmdCreateDatabase("db0", nil)), "CreateDatabase")
	must(ap(CmdCreateDatabase("db1", &RPInfo{"rp0", int64(24 * 3600e9), int64(3600e9), 2})), "CreateDatabase+rp")
	must(ap(CmdCreateRetentionPolicy("db0", RPInfo{"rp1", 0, 0, 1}, true)), "CreateRetentionPolicy")
	nn, du, rf, sd := "rp2", int64(48*3600e9), uint32(2), int64(2*3600e9)
	must(ap(CmdUpdateRetentionPolicy("db0", "rp1", &nn, &du, &rf, &sd, true)), "UpdateRetentionPolicy")
	must(ap(CmdCreateShardGroup("db0", "rp2", t0)), "CreateShardGroup")
	must(ap(CmdCreateShardGroup("db1", "rp0", t0)), "CreateShardGroup")
	must(ap(CmdCreateShardGroup("db1", "rp0", -5)), "CreateShardGroup(negative)")
	must(ap(CmdTruncateShardGroups(t0+1)), "Truncate")
	must(ap(CmdCopyShardOwner(1, 3)), "CopyShardOwner")
	must(ap(CmdRemoveShardOwner(1, 3)), "RemoveShardOwner")
	must(ap(CmdCreateUser("u0", "h", true)), "CreateUser")
	must(ap(CmdUpdateUser("u0", "h2")), "UpdateUser")
	must(ap(CmdSetPrivilege("u0", "db0", 2)), "SetPrivilege")
	must(ap(CmdSetAdminPrivilege("u0", false)), "SetAdminPrivilege")
	must(ap(CmdCreateContinuousQuery("db0", "cq0", queries[0])), "CreateCQ")
	must(ap(CmdCreateSubscription("s0", "db0", "rp2", "ANY", []string{"udp://h:1"})), "CreateSubscription")
	must(ap(CmdDeleteShardGroup("db1", "rp0", 2)), "DeleteShardGroup")
	must(ap(CmdDeleteNode(1, true)), "DeleteNode")
	must(ap(CmdUpdateNode(1, "x")), "UpdateNode")
	must(ap(CmdUpdateDataNode(2, "h9:8086", "d9:8088")), "UpdateDataNode")
	must(ap(CmdPruneShardGroups()), "Prune")
	d := f.Data()
	if len(d.DataNodes) != 3 || len(d.MetaNodes) != 1 || len(d.Databases) != 2 || d.Databases[0].RetentionPolicies[1].Name != "rp2" ||
		d.Databases[0].RetentionPolicies[1].ReplicaN != 2 || len(d.Users) != 1 || d.Users[0].Privileges["db0"] != 2 || d.ClusterID != 7 ||
		len(d.Databases[0].ContinuousQueries) != 1 || len(d.Databases[0].RetentionPolicies[1].Subscriptions) != 1 ||
		d.DataNodes[1].TCPAddr != "d9:8088" || d.MaxShardGroupID != 3 || !d.Databases[0].RetentionPolicies[1].ShardGroups[0].Truncated() {
		harnessFatal("self-test: commands did not have the expected effect: %s", canon(d, canonFull, nil))
	}
	// EncodeData round trip, through SetData and through Restore.
	before := canon(d, canonFull, nil)
	g := newFSM(cfg)
	if err := g.Restore(EncodeData(d, nil)); err != nil || canon(g.Data(), canonFull, nil) != before {
		harnessFatal("self-test: EncodeData does not round-trip through Restore (%v)", err)
	}
	must(ap(CmdSetData(EncodeData(d, nil))), "SetData")
	if canon(f.Data(), canonFull, nil) != before {
		a, b := firstDiff(before, canon(f.Data(), canonFull, nil))
		harnessFatal("self-test: SetData(EncodeData(x)) != x: %q vs %q", a, b)
	}
	must(ap(CmdDropSubscription("s0", "db0", "rp2")), "DropSubscription")
	must(ap(CmdDropContinuousQuery("db0", "cq0")), "DropCQ")
	must(ap(CmdDropShard(1)), "DropShard")
	must(ap(CmdDropRetentionPolicy("db0", "rp2")), "DropRP")
	must(ap(CmdDropDatabase("db1")), "DropDatabase")
	must(ap(CmdDropUser("u0")), "DropUser")
	must(ap(CmdDeleteDataNode(3)), "DeleteDataNode")
	must(ap(CmdDeleteMetaNode(4)), "DeleteMetaNode")
	d = f.Data()
	if len(d.DataNodes) != 2 || len(d.MetaNodes) != 0 || len(d.Databases) != 1 || len(d.Users) != 0 || len(d.Databases[0].RetentionPolicies) != 1 {
		harnessFatal("self-test: drop commands did not have the expected effect: %s", canon(d, canonFull, nil))
	}
}
