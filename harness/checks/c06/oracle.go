// oracle.go — the per-entry invariants of C06, evaluated on one replica's
// metadata after every applied log entry. Every clause is phrased as "this
// entry introduced ..." so that one defect is reported once, against the
// command type that caused it.
package main

import (
	"fmt"
	"sort"
	"strings"
	"time"

	"github.com/influxdata/influxdb/services/meta"
)

type violation struct {
	Sig  string
	What string
}

type pair [2]uint64

type oracle struct {
	everShard, everGroup map[uint64]bool // every id ever observed in any state of this log
	curShard, curGroup   map[uint64]bool // ids present in the previous state
	dupSeen              map[string]bool
	overlap              map[pair]bool // overlapping live pairs already present in the previous state
	badOwner             map[pair]bool // (shard,node) pairs already reported / ignored
	neverNode            map[pair]bool
	removed              map[uint64]bool // data-node ids removed so far and not present now
	everNode             map[uint64]bool
	taint                map[uint64]bool // removed nodes for which an ownership was already reported
	curNodes             map[uint64]bool
	max                  [3]uint64
	prevDup              bool // previous state had two data nodes with one id
	prevOwners           map[uint64][]uint64 // shard id -> owners in the previous state (live groups only)
	prevTrunc            map[uint64]time.Time

	// observations for the evidence file / non-triviality
	c               map[string]int64
	orphanRemoval   bool
	truncateSeen    bool
	createAfterTrnc bool
}

func newOracle() *oracle {
	return &oracle{
		everShard: map[uint64]bool{}, everGroup: map[uint64]bool{}, curShard: map[uint64]bool{}, curGroup: map[uint64]bool{},
		dupSeen: map[string]bool{}, overlap: map[pair]bool{}, badOwner: map[pair]bool{}, neverNode: map[pair]bool{},
		removed: map[uint64]bool{}, everNode: map[uint64]bool{}, taint: map[uint64]bool{}, curNodes: map[uint64]bool{},
		prevOwners: map[uint64][]uint64{}, prevTrunc: map[uint64]time.Time{}, c: map[string]int64{},
	}
}

func (o *oracle) removedList() []uint64 {
	out := make([]uint64, 0, len(o.removed))
	for id := range o.removed {
		out = append(out, id)
	}
	sort.Slice(out, func(i, j int) bool { return out[i] < out[j] })
	return out
}

// soleOwned returns the shards of live groups that, in the previous state,
// were owned by exactly [node].
func (o *oracle) soleOwned(node uint64) map[uint64]bool {
	out := map[uint64]bool{}
	for sh, ow := range o.prevOwners {
		if len(ow) == 1 && ow[0] == node {
			out[sh] = true
		}
	}
	return out
}

type liveRange struct {
	id         uint64
	start, end time.Time
}

func effEnd(sg *meta.ShardGroupInfo) time.Time {
	e := sg.EndTime
	if sg.Truncated() && sg.TruncatedAt.Before(e) {
		e = sg.TruncatedAt
	}
	return e
}

// check evaluates the invariants on the state d reached by applying cmd.
// baseline=true only records the state (used after SetData in fixed-log mode).
func (o *oracle) check(d *meta.Data, cmd *Cmd, rejected bool, baseline bool) (out []violation) {
	ct := "baseline"
	if cmd != nil {
		ct = cmd.TypeName()
	}
	// ---- data nodes: removed set
	cur := map[uint64]bool{}
	dupNode := false
	for _, n := range d.DataNodes {
		if cur[n.ID] {
			dupNode = true
		}
		cur[n.ID] = true
	}
	if dupNode {
		o.c["states_with_duplicate_data_node_ids"]++
	}
	dupCtx := dupNode || o.prevDup
	o.prevDup = dupNode
	add := func(sig, what string) {
		if baseline {
			return
		}
		if dupCtx && (strings.HasPrefix(sig, "new-group-") || sig == "shard-owned-by-removed-node") {
			// Root cause class: two entries of DataNodes carry the same id, so
			// owners cannot be distinct / removal strips one occurrence only.
			out = append(out, violation{"C06/data-node-id-assigned-twice", what + fmt.Sprintf(" [two data nodes share an id: before/after this entry DataNodes ids are %v]", nodeIDs(d))})
			return
		}
		out = append(out, violation{"C06/" + sig + "/" + ct, what})
	}
	for id := range o.curNodes {
		if !cur[id] {
			o.removed[id] = true
			o.c["data_nodes_removed"]++
		}
	}
	for id := range cur {
		if o.removed[id] {
			o.c["removed_node_id_came_back"]++
			for p := range o.badOwner {
				if p[1] == id {
					delete(o.badOwner, p)
				}
			}
		}
		delete(o.removed, id)
		delete(o.taint, id)
		o.everNode[id] = true
	}
	o.curNodes = cur

	// ---- counters monotone
	now := [3]uint64{d.MaxNodeID, d.MaxShardGroupID, d.MaxShardID}
	for i, name := range []string{"MaxNodeID", "MaxShardGroupID", "MaxShardID"} {
		if now[i] < o.max[i] {
			add("counter-decreased", fmt.Sprintf("%s went from %d to %d", name, o.max[i], now[i]))
		}
	}
	o.max = now

	// ---- groups and shards
	newShard, newGroup := map[uint64]bool{}, map[uint64]bool{}
	newOverlap := map[pair]bool{}
	owners := map[uint64][]uint64{}
	nLive, nDeleted, truncChanged := 0, 0, 0
	trunc := map[uint64]time.Time{}
	for i := range d.Databases {
		di := &d.Databases[i]
		for j := range di.RetentionPolicies {
			rp := &di.RetentionPolicies[j]
			var live []liveRange
			for k := range rp.ShardGroups {
				sg := &rp.ShardGroups[k]
				// uniqueness / reuse of group ids
				if newGroup[sg.ID] {
					key := fmt.Sprintf("g%d", sg.ID)
					if !o.dupSeen[key] {
						o.dupSeen[key] = true
						add("duplicate-shard-group-id", fmt.Sprintf("shard group id %d occurs twice in the metadata", sg.ID))
					}
				}
				newGroup[sg.ID] = true
				created := !o.curGroup[sg.ID]
				if created && o.everGroup[sg.ID] {
					add("shard-group-id-reused", fmt.Sprintf("shard group id %d (db %q rp %q) was used before by a group that is gone", sg.ID, di.Name, rp.Name))
				}
				for _, sh := range sg.Shards {
					if newShard[sh.ID] {
						key := fmt.Sprintf("s%d", sh.ID)
						if !o.dupSeen[key] {
							o.dupSeen[key] = true
							add("duplicate-shard-id", fmt.Sprintf("shard id %d occurs twice in the metadata (second time in group %d)", sh.ID, sg.ID))
						}
					}
					newShard[sh.ID] = true
					if !o.curShard[sh.ID] && o.everShard[sh.ID] {
						add("shard-id-reused", fmt.Sprintf("shard id %d (group %d) was used before by a shard that is gone", sh.ID, sg.ID))
					}
				}
				if sg.Deleted() {
					nDeleted++
					continue
				}
				nLive++
				if !sg.TruncatedAt.Equal(o.prevTrunc[sg.ID]) {
					truncChanged++
				}
				trunc[sg.ID] = sg.TruncatedAt
				if e := effEnd(sg); e.After(sg.StartTime) {
					live = append(live, liveRange{sg.ID, sg.StartTime, e})
				}
				// placement of a group created by this entry
				if created && !baseline && (cmd == nil || cmd.Type != TypeSetData) {
					o.c["groups_created"]++
					if o.truncateSeen {
						o.createAfterTrnc = true
					}
					if sg.EndTime.Sub(sg.StartTime) != rp.ShardGroupDuration {
						o.c["groups_created_clipped"]++
					}
					o.checkPlacement(d, rp, sg, cur, add)
				}
				// no live shard owned by a removed node
				for _, sh := range sg.Shards {
					ow := make([]uint64, len(sh.Owners))
					for x, so := range sh.Owners {
						ow[x] = so.NodeID
						p := pair{sh.ID, so.NodeID}
						if o.removed[so.NodeID] {
							if !o.badOwner[p] {
								o.badOwner[p] = true
								if !o.taint[so.NodeID] {
									o.taint[so.NodeID] = true
									add("shard-owned-by-removed-node", fmt.Sprintf("live shard %d (group %d, db %q rp %q) is owned by data node %d, which was removed earlier; data nodes now %v",
										sh.ID, sg.ID, di.Name, rp.Name, so.NodeID, nodeIDs(d)))
								}
							}
						} else if !cur[so.NodeID] && !o.everNode[so.NodeID] && !o.neverNode[p] {
							o.neverNode[p] = true
							o.c["owner_that_never_was_a_data_node_observed"]++
						}
					}
					owners[sh.ID] = ow
				}
			}
			// effective ranges of live groups pairwise disjoint
			sort.Slice(live, func(a, b int) bool { return live[a].start.Before(live[b].start) })
			for a := range live {
				for b := a + 1; b < len(live) && live[b].start.Before(live[a].end); b++ {
					p := pair{live[a].id, live[b].id}
					if p[0] > p[1] {
						p[0], p[1] = p[1], p[0]
					}
					newOverlap[p] = true
					if !o.overlap[p] {
						add("live-groups-overlap", fmt.Sprintf("db %q rp %q: live groups %d [%s, %s) and %d [%s, %s) overlap (ends are min(EndTime, TruncatedAt))",
							di.Name, rp.Name, live[a].id, ft(live[a].start), ft(live[a].end), live[b].id, ft(live[b].start), ft(live[b].end)))
					}
				}
			}
		}
	}
	if cmd != nil && !rejected {
		switch cmd.Type {
		case TypePruneShardGroups:
			for id := range o.curGroup {
				if !newGroup[id] {
					o.c["deleted_groups_pruned"]++
				}
			}
		case TypeTruncateShardGroups:
			if truncChanged > 0 {
				o.truncateSeen = true
				o.c["truncations_effective"]++
				o.c["live_groups_truncated"] += int64(truncChanged)
			}
		case TypeDeleteDataNode:
			if n := len(o.soleOwned(cmd.nodeID)); n > 0 {
				o.orphanRemoval = true
				o.c["node_removals_orphaning_live_shards"]++
				o.c["live_shards_orphaned"] += int64(n)
			}
		}
	}
	o.overlap = newOverlap
	for id := range newShard {
		o.everShard[id] = true
	}
	for id := range newGroup {
		o.everGroup[id] = true
	}
	if baseline {
		// a replaced state re-bases the id history
		o.everShard, o.everGroup = copySet(newShard), copySet(newGroup)
	}
	o.curShard, o.curGroup = newShard, newGroup
	o.prevOwners = owners
	o.prevTrunc = trunc
	if int64(nLive) > o.c["max_live_groups_in_a_state"] {
		o.c["max_live_groups_in_a_state"] = int64(nLive)
	}
	return out
}

func copySet(m map[uint64]bool) map[uint64]bool {
	out := make(map[uint64]bool, len(m))
	for k := range m {
		out[k] = true
	}
	return out
}

func nodeIDs(d *meta.Data) []uint64 {
	out := make([]uint64, len(d.DataNodes))
	for i, n := range d.DataNodes {
		out[i] = n.ID
	}
	return out
}

func ft(t time.Time) string { return t.UTC().Format("2006-01-02T15:04:05.999999999Z") }

// checkPlacement: each shard of a newly created group has
// min(replication factor, #data nodes) distinct existing data nodes as owners,
// spread evenly. The code treats RF 0 as 1 (UpdateRetentionPolicy does not
// validate ReplicaN), both readings are accepted for RF < 1. "Evenly" is read
// as: the numbers of the group's shards owned by any two data nodes differ by
// at most one (the implementation picks the shard count so that they are equal).
func (o *oracle) checkPlacement(d *meta.Data, rp *meta.RetentionPolicyInfo, sg *meta.ShardGroupInfo, nodes map[uint64]bool, add func(sig, what string)) {
	n := len(nodes)
	want := rp.ReplicaN
	if want < 1 {
		want = 1
	}
	if want > n {
		want = n
	}
	per := map[uint64]int{}
	for id := range nodes {
		per[id] = 0
	}
	for _, sh := range sg.Shards {
		seen := map[uint64]bool{}
		for _, so := range sh.Owners {
			if seen[so.NodeID] {
				add("new-group-owners-not-distinct", fmt.Sprintf("new group %d shard %d owners %v contain node %d twice (rf %d, data nodes %v)", sg.ID, sh.ID, sh.Owners, so.NodeID, rp.ReplicaN, nodeIDs(d)))
				return
			}
			seen[so.NodeID] = true
			if !nodes[so.NodeID] {
				add("new-group-owner-not-a-data-node", fmt.Sprintf("new group %d shard %d is owned by %d which is not a data node (data nodes %v)", sg.ID, sh.ID, so.NodeID, nodeIDs(d)))
				return
			}
			per[so.NodeID]++
		}
		if len(sh.Owners) != want && !(rp.ReplicaN < 1 && len(sh.Owners) == 0) {
			add("new-group-owner-count", fmt.Sprintf("new group %d shard %d has %d owners %v, expected min(rf=%d, data nodes=%d)=%d", sg.ID, sh.ID, len(sh.Owners), sh.Owners, rp.ReplicaN, n, want))
			return
		}
	}
	lo, hi := -1, -1
	for _, c := range per {
		if lo < 0 || c < lo {
			lo = c
		}
		if c > hi {
			hi = c
		}
	}
	if hi-lo > 1 {
		add("new-group-owners-uneven", fmt.Sprintf("new group %d (%d shards, rf %d): shards per data node %v differ by more than one", sg.ID, len(sg.Shards), rp.ReplicaN, per))
	}
	if len(sg.Shards) > 1 {
		o.c["groups_created_multi_shard"]++
	}
	if rp.ReplicaN > n {
		o.c["groups_created_rf_above_nodes"]++
	}
}
