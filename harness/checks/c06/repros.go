// repros.go — hand-minimised command lists for the defects this check found on
// the unchanged tree. They run first, as ordinary cases ("repro/<name>"),
// through the same executor and oracle as the generated logs, so a listed
// finding is re-demonstrated on every run independently of the seed, and a
// fix makes the corresponding KNOWN-FINDING line disappear.
package main

import (
	"fmt"
	"math"
	"sync"
)

type repro struct {
	name       string
	autoCreate bool
	tries      int // >1 where the observation depends on Go's map iteration order
	cmds       []*Cmd
}

func seq(cmds ...*Cmd) []*Cmd {
	for i, c := range cmds {
		c.Index, c.Term = uint64(i+2), 1
	}
	return cmds
}

func withSnap(c *Cmd, mode int) *Cmd { c.Snap = mode; return c }

func cDataNode(h, t string) *Cmd {
	return mk(TypeCreateDataNode, CmdCreateDataNode(h, t), fmt.Sprintf("CreateDataNode(%s,%s)", h, t))
}
func cDeleteDataNode(id uint64) *Cmd {
	c := mk(TypeDeleteDataNode, CmdDeleteDataNode(id), fmt.Sprintf("DeleteDataNode(%d)", id))
	c.nodeID = id
	return c
}
func cDatabase(name string, rp *RPInfo) *Cmd {
	if rp == nil {
		return mk(TypeCreateDatabase, CmdCreateDatabase(name, nil), fmt.Sprintf("CreateDatabase(%q)", name))
	}
	return mk(TypeCreateDatabase, CmdCreateDatabase(name, rp), fmt.Sprintf("CreateDatabase(%q,%v)", name, *rp))
}
func cShardGroup(db, rp string, ts int64) *Cmd {
	return mk(TypeCreateShardGroup, CmdCreateShardGroup(db, rp, ts), fmt.Sprintf("CreateShardGroup(%q,%q,%s)", db, rp, fmtTS(ts)))
}

func repros() []repro {
	return []repro{
		{
			// newShardOwner picks the least-loaded remaining owner by ranging over a
			// map; with a tie (nodes 2 and 3 own one shard each) the choice differs
			// from replica to replica.
			name: "orphaned-shard-new-owner-tie", autoCreate: true, tries: 12,
			cmds: seq(
				cDatabase("db0", nil), // no data nodes yet: autogen gets rf 1
				cDataNode("h0:8086", "d0:8088"), cDataNode("h1:8086", "d1:8088"), cDataNode("h2:8086", "d2:8088"),
				cShardGroup("db0", "autogen", t0), // 3 shards, one owner each
				cDeleteDataNode(1),
			),
		},
		{
			// CopyShardOwner does not check that the target is a data node.
			name: "copy-owner-to-removed-node", autoCreate: true, tries: 1,
			cmds: seq(
				cDataNode("h0:8086", "d0:8088"), cDataNode("h1:8086", "d1:8088"),
				cDeleteDataNode(2),
				cDatabase("db0", nil),
				cShardGroup("db0", "autogen", t0), // shard 1 owned by node 1
				func() *Cmd {
					c := mk(TypeCopyShardOwner, CmdCopyShardOwner(1, 2), "CopyShardOwner(shard=1,node=2)")
					c.nodeID = 2
					return c
				}(),
			),
		},
		{
			// CreateDataNode re-uses the id of the meta node with the same TCP
			// address without checking that a data node already carries it.
			name: "data-node-id-assigned-twice", autoCreate: true, tries: 1,
			cmds: seq(
				mk(TypeCreateMetaNode, CmdCreateMetaNode("h0:8091", "a:8088", 1), "CreateMetaNode(h0:8091,a:8088,rand=1)"),
				cDataNode("h1:8086", "a:8088"), // same process as meta node 1: id 1
				mk(TypeUpdateDataNode, CmdUpdateDataNode(1, "h1:8086", "b:8088"), "UpdateDataNode(1,h1:8086,b:8088)"),
				cDataNode("h2:8086", "a:8088"), // id 1 again
				cDatabase("db0", &RPInfo{"rp0", 0, 0, 2}),
				cShardGroup("db0", "rp0", t0), // owners [1 1]
			),
		},
		{
			// CreateShardGroup clamps the end of a group to MaxNanoTime but not its
			// start to MinNanoTime; UnixNano of the start wraps in the snapshot.
			name: "group-start-before-int64-nanoseconds", autoCreate: true, tries: 1,
			cmds: seq(
				cDataNode("h0:8086", "d0:8088"),
				cDatabase("db0", nil),
				withSnap(cShardGroup("db0", "autogen", math.MinInt64+2), 2), // models.MinNanoTime
			),
		},
		{
			// MarshalTime/UnmarshalTime use 0 for "unset": a truncation at exactly
			// the Unix epoch is lost by snapshot+restore.
			name: "truncated-at-unix-epoch", autoCreate: true, tries: 1,
			cmds: seq(
				cDataNode("h0:8086", "d0:8088"),
				cDatabase("db0", nil),
				cShardGroup("db0", "autogen", 0),
				withSnap(mk(TypeTruncateShardGroups, CmdTruncateShardGroups(0), "TruncateShardGroups(0)"), 1),
			),
		},
	}
}

func runRepros() {
	for _, rp := range repros() {
		caseID := "repro/" + rp.name
		if r.Skip(caseID) {
			continue
		}
		cfg := logCfg{AutoCreate: rp.autoCreate, fixed: true}
		r.Begin(caseID, descs(rp.cmds))
		r.Eval(1)
		for t := 0; t < rp.tries; t++ {
			res := execLog(cfg, fixedSource(rp.cmds))
			if len(res.viol) > 0 {
				for i, v := range res.viol {
					at := res.violAt[i]
					what := v.What + fmt.Sprintf(" || reproduction (retention-autocreate=%v): %s", rp.autoCreate, joinDescs(rp.cmds[:at+1]))
					r.Violation(v.Sig, caseID, what, witness{AutoCreate: rp.autoCreate, At: at, Minimal: descs(rp.cmds[:at+1]), MinimalCmd: rp.cmds[:at+1], Log: rp.cmds[:at+1]})
				}
				for _, v := range res.viol {
					// already minimal: later occurrences in generated logs are not minimised again
					o := new(sync.Once)
					o.Do(func() {})
					sigOnce.LoadOrStore(v.Sig, o)
				}
				r.Count("handwritten_reproductions_firing", 1)
				break
			}
		}
	}
}

func joinDescs(c []*Cmd) string {
	s := ""
	for i, d := range descs(c) {
		if i > 0 {
			s += "; "
		}
		s += d
	}
	return s
}
