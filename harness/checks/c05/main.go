// C05 — a distributed query reads every shard exactly once or fails.
//
// Real in-process clusters (3 data nodes; databases with replication 1, 2
// and 3 and 1h shard groups) are loaded with the same data (level all).
// Reference answers come from the fault-free cluster. Then every statement
// kind that fans out (raw / aggregate SELECT, SHOW MEASUREMENTS / TAG KEYS /
// TAG VALUES / FIELD KEYS / SERIES CARDINALITY, EXPLAIN) is re-run from every
// coordinator under every fault of one other node: node stopped, a shard
// disabled on one owner (error reply), connection refused, reply delayed
// past the reader timeout, response stream cut after k bytes (at frame
// boundaries and inside frames). Oracle: the answer is the reference answer
// or an error — never a different (silently incomplete or double-counted)
// result; and when every shard keeps a healthy owner and the fault is visible
// at request time, the answer must be the reference answer.
package main

import (
	"fmt"
	"net/url"
	"os"
	"path/filepath"
	"sort"
	"strings"
	"time"

	"verifharness/internal/cluster"
	"verifharness/internal/ev"
	"verifharness/internal/faultconn"
)

func main() { ev.Supervise("C05", body) }

var r *ev.Run

const t0 = int64(1700000000) * 1e9

type stmt struct {
	kind string
	text string
	// selects must not be silently incomplete; metadata listings (SHOW ...) too
	// expect, when set, is the normalized answer computed by the harness from
	// the points it loaded (independent of any node's answer).
	expect string
}

type dbdef struct {
	name string
	rf   int
}

func broken(msg string) {
	fmt.Fprintln(os.Stderr, "harness: "+msg)
	fmt.Println("BROKEN-CHECK C05: " + msg)
	os.Exit(ev.ExitBroken)
}

func body() {
	r = ev.Start("C05", "fault_enumeration")
	r.Rule = "3 data nodes; databases rf1/rf2/rf3 with 1h shard groups over 5h of data (>=15 shards per database, 3 per group); statements: raw select, count/sum/mean/max with GROUP BY time and tags, selective tag predicate, SHOW MEASUREMENTS / TAG KEYS / TAG VALUES / FIELD KEYS / SERIES CARDINALITY, EXPLAIN; every coordinator x every other node as fault target x fault in {node stopped, shard disabled on that owner, connection refused, reply delayed past reader timeout, stream cut after k bytes for a seeded set of k incl. 0, inside the response header, at and inside point frames}. A case is non-trivial when the statement touches >=2 shards on >=2 nodes with a fault active; distinct by (database, statement kind, coordinator, fault target, fault mode/offset class)."
	r.Assumptions = []string{
		"one query at a time, so the connection-fault wrapper (which only knows the target node) is attributed to the query in flight",
		"Byzantine replies (well-formed but wrong points) are out of reach",
		"'fault visible at request time' = node stopped, connection refused, or an error reply (disabled shard); delays and mid-stream cuts may legitimately end in an error",
	}
	r.Floor = 40
	dir := ev.TempDir("c05")
	defer os.RemoveAll(dir)
	faultconn.Install()
	c, err := cluster.Start(filepath.Join(dir, "c3"), 1, 3, cluster.Options{ReaderTimeout: 3 * time.Second})
	if err != nil {
		broken("start cluster: " + err.Error())
	}
	dbs := []dbdef{{"rf1", 1}, {"rf2", 2}, {"rf3", 3}}
	for _, d := range dbs {
		must(c, 0, "", fmt.Sprintf("CREATE DATABASE %s WITH REPLICATION %d SHARD DURATION 1h", d.name, d.rf))
	}
	if err := c.WaitMetaIndex(cluster.DefaultWait); err != nil {
		broken(err.Error())
	}
	g := r.Rand("data")
	var lp strings.Builder
	hosts := []string{"a", "b", "c", "d", "e"}
	n := 1500
	type loaded struct {
		m  string
		ts int64
	}
	var points []loaded
	for k := 0; k < n; k++ {
		ts := t0 + int64(k)*int64(5*3600*1e9)/int64(n) + int64(g.Intn(1000))
		h := hosts[g.Intn(len(hosts))]
		reg := []string{"x", "y"}[g.Intn(2)]
		m := "cpu"
		if k%4 == 0 {
			m = "mem"
		}
		fmt.Fprintf(&lp, "%s,host=%s,region=%s f=%v,i=%di,s=\"v%d\" %d\n", m, h, reg, float64(g.Intn(4096))/8, g.Intn(1000), k, ts)
		points = append(points, loaded{m, ts})
		if k%16 == 0 {
			// a measurement with a different schema (field and tag names)
			fmt.Fprintf(&lp, "disk,path=p%d used=%di %d\n", k%3, k, ts)
		}
	}
	for _, d := range dbs {
		st, b, err := c.Write(0, d.name, "", "all", "ns", []byte(lp.String()))
		if err != nil || st != 204 {
			broken(fmt.Sprintf("load %s: %d %s %v", d.name, st, b, err))
		}
	}
	if md, err := c.MetaData(0); err == nil {
		// layout record: which nodes own nothing in which group (multi-source statements need such coordinators)
		for _, d := range md.Databases {
			for _, rp := range d.RetentionPolicies {
				for _, sg := range rp.ShardGroups {
					own := map[uint64]bool{}
					for _, sh := range sg.Shards {
						for _, o := range sh.Owners {
							own[o.NodeID] = true
						}
					}
					for _, dn := range c.Datas {
						if !own[dn.ID] {
							r.Count("layout_"+d.Name+"_groups_with_a_node_owning_nothing", 1)
							break
						}
					}
				}
			}
		}
	}
	tmin, tmax := t0-1, t0+int64(6*3600*1e9)
	where := fmt.Sprintf("WHERE time >= %d AND time <= %d", tmin, tmax)
	stmts := []stmt{
		{"select-raw", "SELECT i FROM cpu " + where + " AND host = 'a'", ""},
		{"select-count", "SELECT count(i) FROM cpu " + where, ""},
		{"select-sum-group-time", "SELECT sum(i) FROM cpu " + where + " GROUP BY time(30m), host fill(none)", ""},
		{"select-mean-tags", "SELECT mean(f) FROM mem " + where + " GROUP BY region", ""},
		{"select-max", "SELECT max(i), host FROM cpu " + where, ""},
		{"select-string-selective", "SELECT count(s) FROM cpu " + where + " AND host = 'e' AND region = 'y'", ""},
		{"select-regex-source", "SELECT count(i) FROM /.*/ " + where, ""},
		{"show-measurements", "SHOW MEASUREMENTS", ""},
		{"show-tag-keys", "SHOW TAG KEYS", ""},
		{"show-tag-values", "SHOW TAG VALUES WITH KEY = host", ""},
		{"show-field-keys", "SHOW FIELD KEYS", ""},
		{"show-series-cardinality", "SHOW SERIES EXACT CARDINALITY", ""},
		{"show-series", "SHOW SERIES", ""},
	}
	if !r.Thorough() {
		// quick: a representative subset of statement kinds
		stmts = []stmt{stmts[0], stmts[1], stmts[2], stmts[5], stmts[7], stmts[9], stmts[10], stmts[11]}
	}
	// wildcard statements ask the remote nodes for field / tag names first
	wildcard := stmt{"select-wildcard", "SELECT * FROM cpu " + where + " AND host = 'a' AND region = 'x'", ""}
	otherSchema := stmt{"select-wildcard-other-schema", "SELECT * FROM disk " + where, ""}
	stmts = append(stmts, wildcard, otherSchema)
	// Statements with several sources of one database, restricted to one shard
	// group each: with rf2 on three nodes a group's single shard has two owners,
	// so for every hour some coordinator owns no shard of the statement's range
	// and maps everything remotely. Expected counts come from the loaded points.
	hour := int64(3600 * 1e9)
	h0 := (t0/hour + 1) * hour
	nh := 3
	if !r.Thorough() {
		nh = 3
	}
	for h := 0; h < nh; h++ {
		lo, hi := h0+int64(h)*hour, h0+int64(h+1)*hour
		cnt := map[string]int{}
		for _, p := range points {
			if p.ts >= lo && p.ts < hi {
				cnt[p.m]++
			}
		}
		w := fmt.Sprintf("WHERE time >= %d AND time < %d", lo, hi)
		exp := fmt.Sprintf("#cpu [time count]\n%d %d \n#mem [time count]\n%d %d \n", lo, cnt["cpu"], lo, cnt["mem"])
		kind := fmt.Sprintf("select-multi-source-h%d", h)
		if h == 1 {
			kind = "select-subqueries-h1"
			stmts = append(stmts, stmt{kind, "SELECT count(i) FROM (SELECT i FROM cpu " + w + "), (SELECT i FROM mem " + w + ") " + w, exp})
			continue
		}
		stmts = append(stmts, stmt{kind, "SELECT count(i) FROM cpu, mem " + w, exp})
	}

	// ---- reference answers (and agreement of all coordinators without faults)
	ref := map[string]string{}
	for _, d := range dbs {
		for _, s := range stmts {
			for node := range c.Datas {
				resp, err := c.Query(node, d.name, s.text, nil)
				if err != nil {
					broken("reference query: " + err.Error())
				}
				norm, rows, qerr := cluster.Normalize(resp)
				if qerr != "" {
					broken(fmt.Sprintf("reference query %q on %s failed: %s", s.text, d.name, qerr))
				}
				k := d.name + "|" + s.kind
				if node == 0 {
					ref[k] = norm
					if rows == 0 {
						broken(fmt.Sprintf("reference query %q on %s returns no rows", s.text, d.name))
					}
					if s.expect != "" {
						r.Count("reference_answers_checked_against_loaded_points", 1)
						if norm != s.expect {
							r.Violation("C05/fault-free-answer-differs-from-data/"+s.kind, d.name+"/"+s.kind, fmt.Sprintf("%s on %s from node 0 without any fault: the answer differs from the counts of the points that were loaded", s.text, d.name),
								map[string]interface{}{"statement": s.text, "expected": s.expect, "got": clip(norm)})
						}
					}
				} else if norm != ref[k] {
					r.Violation("C05/fault-free-coordinators-disagree/"+s.kind, d.name+"/"+s.kind, fmt.Sprintf("%s on %s: node %d answers differently from node 0 without any fault", s.text, d.name, node),
						map[string]interface{}{"statement": s.text, "node0": clip(ref[k]), "other": clip(norm)})
				}
			}
		}
	}
	r.Count("reference_answers", int64(len(ref)))

	run := func(caseID string, d dbdef, s stmt, coord int, fault string, visibleAtRequest bool, healthyOwnerForAll bool) {
		if r.Skip(caseID) {
			return
		}
		r.Eval(1)
		faultconn.Reset()
		var resp *cluster.Response
		var err error
		wres, _ := ev.Watch(120*time.Second, 15*time.Second, func() { resp, err = c.Query(coord, d.name, s.text, nil) })
		if wres != ev.Finished {
			r.Inconclusive(caseID + ": query did not return")
			return
		}
		r.Count("queries_under_fault", 1)
		if err != nil {
			r.Count("outcome_error", 1)
			return // transport-level failure is an error outcome
		}
		norm, _, qerr := cluster.Normalize(resp)
		k := d.name + "|" + s.kind
		wit := map[string]interface{}{"database": d.name, "replication": d.rf, "statement": s.text, "coordinator_node": coord, "fault": fault, "traffic": faultconn.Stats()}
		switch {
		case qerr != "":
			r.Count("outcome_error", 1)
			if visibleAtRequest && healthyOwnerForAll {
				wit["error"] = qerr
				sig := "C05/no-failover/" + faultClass(fault)
				if strings.Contains(caseID, fmt.Sprintf("/c%d/", coord)) && strings.HasSuffix(caseID, fmt.Sprintf("-n%d", coord)) {
					sig += "/local-owner" // the failing owner is the coordinator itself
				} else {
					sig += "/" + s.kind
				}
				r.Violation(sig, caseID,
					fmt.Sprintf("%s on %s (rf %d) from node %d with %s: every shard still has a healthy owner but the query failed: %s", s.text, d.name, d.rf, coord, fault, qerr), wit)
				return
			}
		case norm == ref[k]:
			r.Count("outcome_reference", 1)
		default:
			wit["reference"] = clip(ref[k])
			wit["got"] = clip(norm)
			sig := "C05/silently-different-result/" + faultClass(fault)
			if faultClass(fault) != "stream-cut" {
				sig += "/" + s.kind
			}
			r.Violation(sig, caseID,
				fmt.Sprintf("%s on %s (rf %d) from node %d with %s: no error, but the rows differ from the fault-free answer: %s", s.text, d.name, d.rf, coord, fault, firstDiff(ref[k], norm)), wit)
			return
		}
		r.Nontrivial(fmt.Sprintf("%s|%s|%d|%s", d.name, s.kind, coord, faultClass(fault)))
		if r.WantSample() {
			r.Sample(map[string]interface{}{"case": caseID, "statement": s.text, "database": d.name, "coordinator": coord, "fault": fault, "outcome": map[bool]string{true: "error: " + qerr, false: "reference answer"}[qerr != ""]})
		}
	}

	cg := r.Rand("cuts")
	// ---- connection faults (no restarts needed)
	for _, d := range dbs {
		for _, s := range stmts {
			for coord := range c.Datas {
				for target := range c.Datas {
					if target == coord {
						continue
					}
					tid := c.Datas[target].ID
					// refused
					faultconn.Set(&faultconn.Fault{Node: tid, Mode: "refuse"})
					run(fmt.Sprintf("%s/%s/c%d/refuse-n%d", d.name, s.kind, coord, target), d, s, coord, fmt.Sprintf("refuse node %d", tid), true, d.rf >= 2)
					// cuts
					offs := []int64{0, 1, 5, 9, 10, 17, 40, 64, 65, 130, 500, 2048}
					for k := 0; k < 3; k++ {
						offs = append(offs, int64(cg.Intn(6000)))
					}
					if !r.Thorough() {
						offs = []int64{0, 9, int64(10 + cg.Intn(60)), int64(70 + cg.Intn(400)), int64(500 + cg.Intn(5000))}
					}
					for _, o := range offs {
						faultconn.Set(&faultconn.Fault{Node: tid, Mode: "cut", CutAfter: o})
						run(fmt.Sprintf("%s/%s/c%d/cut%d-n%d", d.name, s.kind, coord, o, target), d, s, coord, fmt.Sprintf("cut stream from node %d after %d bytes", tid, o), false, d.rf >= 2)
					}
					faultconn.Set(nil)
				}
			}
		}
	}
	// delays past the reader timeout (slow: few)
	for _, d := range dbs[:2] {
		for _, s := range stmts[:2] {
			tid := c.Datas[1].ID
			faultconn.Set(&faultconn.Fault{Node: tid, Mode: "delay", Delay: 4 * time.Second})
			run(fmt.Sprintf("%s/%s/c0/delay-n1", d.name, s.kind), d, s, 0, fmt.Sprintf("delay replies of node %d past the reader timeout", tid), false, d.rf >= 2)
			faultconn.Set(nil)
		}
		// a name lookup times out, then (fault gone) a lookup for a measurement
		// with another schema goes to the same node: it must get its own answer
		tid := c.Datas[1].ID
		faultconn.Set(&faultconn.Fault{Node: tid, Mode: "delay", Delay: 4 * time.Second})
		run(fmt.Sprintf("%s/%s/c0/delay-n1", d.name, wildcard.kind), d, wildcard, 0, fmt.Sprintf("delay replies of node %d past the reader timeout", tid), false, d.rf >= 2)
		faultconn.Set(nil)
		time.Sleep(1500 * time.Millisecond) // let the late reply arrive on whatever connection still waits for it (widens what a stale connection would hold; no verdict depends on it)
		for k := 0; k < 3; k++ {
			run(fmt.Sprintf("%s/%s/c0/after-timeout-n1/%d", d.name, otherSchema.kind, k), d, otherSchema, 0, fmt.Sprintf("no fault any more; an earlier reply of node %d had timed out", tid), true, true)
		}
	}

	// ---- a shard disabled on one owner (error reply from a live node)
	for target := range c.Datas {
		st := c.Datas[target].Srv.TSDBStore
		ids := st.ShardIDs()
		sort.Slice(ids, func(i, j int) bool { return ids[i] < ids[j] })
		for _, d := range dbs {
			var mine []uint64
			for _, id := range ids {
				if sh := st.Shard(id); sh != nil && sh.Database() == d.name {
					mine = append(mine, id)
				}
			}
			if len(mine) == 0 {
				continue
			}
			dis := mine[len(mine)/2]
			st.SetShardEnabled(dis, false)
			for _, s := range stmts {
				for coord := range c.Datas {
					run(fmt.Sprintf("%s/%s/c%d/disabled-shard%d-n%d", d.name, s.kind, coord, dis, target), d, s, coord,
						fmt.Sprintf("shard %d disabled on node %d", dis, c.Datas[target].ID), true, d.rf >= 2)
				}
			}
			st.SetShardEnabled(dis, true)
		}
	}

	// ---- a node stopped
	stopTargets := []int{2}
	if r.Thorough() {
		stopTargets = []int{1, 2}
	}
	for _, target := range stopTargets {
		c.StopData(target)
		for _, d := range dbs {
			for _, s := range stmts {
				for coord := range c.Datas {
					if coord == target {
						continue
					}
					run(fmt.Sprintf("%s/%s/c%d/stopped-n%d", d.name, s.kind, coord, target), d, s, coord, fmt.Sprintf("node %d stopped", c.Datas[target].ID), true, d.rf >= 2)
				}
			}
		}
		// double fault: a second node refuses connections while this one is down
		for _, d := range dbs {
			for _, s := range stmts {
				for coord := range c.Datas {
					if coord == target {
						continue
					}
					other := 3 - coord - target // the third node
					faultconn.Set(&faultconn.Fault{Node: c.Datas[other].ID, Mode: "refuse"})
					run(fmt.Sprintf("%s/%s/c%d/stopped-n%d+refuse-n%d", d.name, s.kind, coord, target, other), d, s, coord,
						fmt.Sprintf("node %d stopped and node %d refusing connections", c.Datas[target].ID, c.Datas[other].ID), true, d.rf >= 3)
					faultconn.Set(nil)
				}
			}
		}
		if err := c.StartData(target); err != nil {
			broken("restart: " + err.Error())
		}
		// wait until the cluster answers as before (stale pooled connections are retried away)
		deadline := time.Now().Add(cluster.DefaultWait)
		for {
			ok := true
			for _, d := range dbs {
				for coord := range c.Datas {
					resp, err := c.Query(coord, d.name, stmts[1].text, nil)
					if err != nil {
						ok = false
						continue
					}
					if norm, _, qerr := cluster.Normalize(resp); qerr != "" || norm != ref[d.name+"|"+stmts[1].kind] {
						ok = false
					}
				}
			}
			if ok {
				break
			}
			if time.Now().After(deadline) {
				r.Inconclusive("cluster did not answer as before after restarting a node")
				break
			}
			time.Sleep(200 * time.Millisecond)
		}
	}
	truncatePhase(c)

	// ---- a coordinator that owns nothing: a data node that joins after all
	// shard groups exist maps every shard of every statement remotely
	if nd, err := c.AddData(); err != nil {
		r.Inconclusive("late-joining data node: " + err.Error())
	} else {
		c.WaitMetaIndex(cluster.DefaultWait)
		late := len(c.Datas) - 1
		for _, d := range dbs {
			for _, s := range stmts {
				caseID := fmt.Sprintf("%s/%s/c%d/late-joiner", d.name, s.kind, late)
				if !r.Skip(caseID) {
					r.Eval(1)
					resp, err := c.Query(late, d.name, s.text, nil)
					if err != nil {
						r.Inconclusive(caseID + ": " + err.Error())
						continue
					}
					norm, _, qerr := cluster.Normalize(resp)
					r.Count("late_joiner_fault_free_queries", 1)
					if qerr != "" || norm != ref[d.name+"|"+s.kind] {
						r.Violation("C05/coordinator-owning-no-shard-answers-differently/"+s.kind, caseID, fmt.Sprintf("%s on %s (rf %d) from node %d, which joined after every shard group was created and owns no shard, without any fault: %s", s.text, d.name, d.rf, nd.ID, map[bool]string{true: "error " + qerr, false: "rows differ from the answer of the owners: " + firstDiff(ref[d.name+"|"+s.kind], norm)}[qerr != ""]),
							map[string]interface{}{"statement": s.text, "database": d.name, "reference": clip(ref[d.name+"|"+s.kind]), "got": clip(norm), "error": qerr})
						continue
					}
					r.Nontrivial(fmt.Sprintf("%s|%s|late-joiner|fault-free", d.name, s.kind))
				}
				for target := 0; target < late; target++ {
					tid := c.Datas[target].ID
					faultconn.Set(&faultconn.Fault{Node: tid, Mode: "refuse"})
					run(fmt.Sprintf("%s/%s/c%d/refuse-n%d", d.name, s.kind, late, target), d, s, late, fmt.Sprintf("refuse node %d", tid), true, d.rf >= 2)
					o := int64(9 + cg.Intn(3000))
					faultconn.Set(&faultconn.Fault{Node: tid, Mode: "cut", CutAfter: o})
					run(fmt.Sprintf("%s/%s/c%d/cut%d-n%d", d.name, s.kind, late, o, target), d, s, late, fmt.Sprintf("cut stream from node %d after %d bytes", tid, o), false, d.rf >= 2)
					faultconn.Set(nil)
				}
			}
		}
	}
	c.Close()
	fourNodePhase(dir, stmts)
	r.Finish()
}

// fourNodePhase: 4 data nodes, replication 2: the shards a coordinator reads
// from one remote node have different second owners, so after a double fault
// some of them still have a healthy owner and some have none. The answer must
// then be an error, never the rows of the reachable shards only.
func fourNodePhase(dir string, stmts []stmt) {
	c, err := cluster.Start(filepath.Join(dir, "c4"), 1, 4, cluster.Options{ReaderTimeout: 3 * time.Second})
	if err != nil {
		broken("start 4-node cluster: " + err.Error())
	}
	defer c.Close()
	must(c, 0, "", "CREATE DATABASE rf2n4 WITH REPLICATION 2 SHARD DURATION 1h")
	if err := c.WaitMetaIndex(cluster.DefaultWait); err != nil {
		broken(err.Error())
	}
	g := r.Rand("data4")
	var lp strings.Builder
	for k := 0; k < 1200; k++ {
		ts := t0 + int64(k)*int64(5*3600*1e9)/1200 + int64(g.Intn(1000))
		fmt.Fprintf(&lp, "cpu,host=%s,region=%s f=%v,i=%di,s=\"v%d\" %d\n", []string{"a", "b", "c", "d", "e"}[g.Intn(5)], []string{"x", "y"}[g.Intn(2)], float64(g.Intn(4096))/8, g.Intn(1000), k, ts)
		if k%4 == 0 {
			fmt.Fprintf(&lp, "mem,host=%s f=%v,i=%di %d\n", []string{"a", "b"}[g.Intn(2)], float64(k)/8, k, ts)
		}
	}
	if st, b, err := c.Write(0, "rf2n4", "", "all", "ns", []byte(lp.String())); err != nil || st != 204 {
		broken(fmt.Sprintf("load rf2n4: %d %s %v", st, b, err))
	}
	ref := map[string]string{}
	for _, s := range stmts {
		resp, err := c.Query(0, "rf2n4", s.text, nil)
		if err != nil {
			broken(err.Error())
		}
		norm, _, qerr := cluster.Normalize(resp)
		if qerr != "" {
			broken(s.text + ": " + qerr)
		}
		ref[s.kind] = norm
	}
	judge := func(caseID string, s stmt, coord int, fault string, mustAnswer bool) {
		if r.Skip(caseID) {
			return
		}
		r.Eval(1)
		faultconn.Reset()
		var resp *cluster.Response
		var err error
		if wres, _ := ev.Watch(120*time.Second, 15*time.Second, func() { resp, err = c.Query(coord, "rf2n4", s.text, nil) }); wres != ev.Finished {
			r.Inconclusive(caseID + ": query did not return")
			return
		}
		r.Count("queries_under_fault", 1)
		if err != nil {
			r.Count("outcome_error", 1)
			return
		}
		norm, _, qerr := cluster.Normalize(resp)
		wit := map[string]interface{}{"database": "rf2n4", "statement": s.text, "coordinator_node": coord, "fault": fault, "traffic": faultconn.Stats()}
		switch {
		case qerr != "":
			r.Count("outcome_error", 1)
			if mustAnswer {
				wit["error"] = qerr
				r.Violation("C05/no-failover/"+faultClass(fault)+"/"+s.kind, caseID, fmt.Sprintf("%s on a 4-node rf2 database from node %d with %s: every shard still has a healthy owner but the query failed: %s", s.text, coord, fault, qerr), wit)
				return
			}
		case norm == ref[s.kind]:
			r.Count("outcome_reference", 1)
		default:
			wit["reference"], wit["got"] = clip(ref[s.kind]), clip(norm)
			r.Violation("C05/silently-different-result/"+faultClass(fault)+"/"+s.kind, caseID, fmt.Sprintf("%s on a 4-node rf2 database from node %d with %s: no error, but rows differ from the fault-free answer: %s", s.text, coord, fault, firstDiff(ref[s.kind], norm)), wit)
			return
		}
		r.Nontrivial(fmt.Sprintf("rf2n4|%s|%d|%s", s.kind, coord, faultClass(fault)))
	}
	for a := 1; a < 4; a++ {
		for b := a + 1; b < 4; b++ {
			// single fault: node a refuses
			faultconn.Set(&faultconn.Fault{Node: c.Datas[a].ID, Mode: "refuse"})
			for _, s := range stmts {
				judge(fmt.Sprintf("rf2n4/%s/c0/refuse-n%d", s.kind, a), s, 0, fmt.Sprintf("refuse node %d", c.Datas[a].ID), true)
			}
			faultconn.Set(nil)
		}
	}
	// double faults: one node stopped, another refusing
	c.StopData(3)
	for _, other := range []int{1, 2} {
		faultconn.Set(&faultconn.Fault{Node: c.Datas[other].ID, Mode: "refuse"})
		for _, s := range stmts {
			judge(fmt.Sprintf("rf2n4/%s/c0/stopped-n3+refuse-n%d", s.kind, other), s, 0, fmt.Sprintf("node %d stopped and node %d refusing connections", c.Datas[3].ID, c.Datas[other].ID), false)
		}
		faultconn.Set(nil)
	}
}

func must(c *cluster.Cluster, node int, db, q string) {
	resp, err := c.Query(node, db, q, nil)
	if err != nil {
		broken(q + ": " + err.Error())
	}
	if _, _, qerr := cluster.Normalize(resp); qerr != "" {
		broken(q + ": " + qerr)
	}
}

func faultClass(f string) string {
	switch {
	case strings.HasPrefix(f, "refuse"):
		return "connection-refused"
	case strings.HasPrefix(f, "cut"):
		return "stream-cut"
	case strings.HasPrefix(f, "delay"):
		return "reply-delayed"
	case strings.HasPrefix(f, "shard"):
		return "shard-disabled"
	case strings.HasPrefix(f, "node") && strings.Contains(f, "refusing"):
		return "node-stopped+connection-refused"
	case strings.HasPrefix(f, "node"):
		return "node-stopped"
	case strings.HasPrefix(f, "no fault any more"):
		return "after-a-timed-out-reply"
	}
	return "other"
}

func clip(s string) string {
	if len(s) > 1200 {
		return s[:1200] + "..."
	}
	return s
}

func firstDiff(a, b string) string {
	la, lb := strings.Split(a, "\n"), strings.Split(b, "\n")
	for i := 0; i < len(la) || i < len(lb); i++ {
		var x, y string
		if i < len(la) {
			x = la[i]
		}
		if i < len(lb) {
			y = lb[i]
		}
		if x != y {
			return fmt.Sprintf("line %d: reference %q, got %q (reference %d lines, got %d)", i, x, y, len(la), len(lb))
		}
	}
	return "?"
}

// truncatePhase: truncate-shards (a step of the rebalance workflow) only stops
// new writes into the current shard groups; the points they already hold -
// also those with timestamps after the truncation time - must stay readable
// from every coordinator.
func truncatePhase(c *cluster.Cluster) {
	if r.Skip("truncate/after") && r.Skip("truncate/before") {
		return
	}
	must(c, 0, "", "CREATE DATABASE trunc WITH REPLICATION 2 SHARD DURATION 1h")
	if err := c.WaitMetaIndex(cluster.DefaultWait); err != nil {
		broken(err.Error())
	}
	now := time.Now().UnixNano()
	minute := int64(60 * 1e9)
	var lp strings.Builder
	var ts []int64
	for k, off := range []int64{-50, -20, -5, 5, 12, 20, 35, 50, 70, 95} {
		for h := 0; h < 4; h++ {
			t := now + off*minute + int64(h)
			fmt.Fprintf(&lp, "cpu,host=h%d i=%di %d\n", h, k, t)
			ts = append(ts, t)
		}
	}
	// idempotent load at level all; pooled connections to the node that was
	// restarted earlier may still be stale on the first attempts
	for attempt := 0; ; attempt++ {
		st, b, err := c.Write(0, "trunc", "", "all", "ns", []byte(lp.String()))
		if err == nil && st == 204 {
			break
		}
		if attempt >= 20 {
			r.Inconclusive(fmt.Sprintf("truncate phase: load failed: %d %s %v", st, b, err))
			return
		}
		time.Sleep(500 * time.Millisecond)
	}
	type q struct {
		text   string
		expect string
	}
	var qs []q
	for _, lo := range []int64{now - 60*minute, now + 3*minute, now + 30*minute, now + 65*minute} {
		hi := now + 3*60*minute
		n := 0
		for _, t := range ts {
			if t >= lo && t <= hi {
				n++
			}
		}
		qs = append(qs, q{fmt.Sprintf("SELECT count(i) FROM cpu WHERE time >= %d AND time <= %d", lo, hi), fmt.Sprintf("#cpu [time count]\n%d %d \n", lo, n)})
	}
	ask := func(phase string) {
		for qi, x := range qs {
			for node := range c.Datas {
				caseID := "truncate/" + phase
				r.Eval(1)
				resp, err := c.Query(node, "trunc", x.text, nil)
				if err != nil {
					r.Inconclusive(caseID + ": " + err.Error())
					continue
				}
				norm, _, qerr := cluster.Normalize(resp)
				r.Count("queries_around_a_shard_group_truncation", 1)
				if qerr != "" || norm != x.expect {
					r.Violation("C05/truncated-group/"+phase+"-truncation/answer-differs-from-data", caseID,
						fmt.Sprintf("%s from node %d %s truncate-shards, no fault: %s", x.text, node, phase, map[bool]string{true: "error " + qerr, false: "the answer differs from the points that were loaded: " + firstDiff(x.expect, norm)}[qerr != ""]),
						map[string]interface{}{"statement": x.text, "expected": x.expect, "got": clip(norm), "error": qerr, "phase": phase})
					return
				}
				r.Nontrivial(fmt.Sprintf("trunc|%s|q%d|n%d", phase, qi, node))
			}
		}
	}
	ask("before")
	if err := c.MetaPostOnce("/truncate-shards", url.Values{"delay": {"1m"}}); err != nil {
		r.Inconclusive("truncate-shards: " + err.Error())
		return
	}
	c.WaitMetaCaughtUp(cluster.DefaultWait)
	if err := c.WaitMetaIndex(cluster.DefaultWait); err != nil {
		r.Inconclusive("after truncate-shards: " + err.Error())
		return
	}
	ask("after")
}
