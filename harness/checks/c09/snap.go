package main

import (
	"fmt"
	"math/rand"
	"os"
	"sort"
	"sync/atomic"

	"github.com/influxdata/influxdb/tsdb/engine/tsm1"
)

// Snapshot cases: a Cache is filled in several batches with unsorted values
// and duplicate timestamps (the last write of a timestamp wins: the cache
// sorts stably), optionally on top of an existing file set, and written out
// with Compactor.WriteSnapshot the way Engine.WriteSnapshot does it
// (Cache.Snapshot, Deduplicate, WriteSnapshot, FileStore.Replace(nil, files),
// ClearSnapshot).

func cacheCounts(g *rand.Rand, scale string) int {
	switch g.Intn(12) {
	case 0:
		return 1
	case 1:
		return 2 + g.Intn(5)
	case 2:
		return 999
	case 3:
		return 1000
	case 4:
		return 1001
	case 5:
		return 2000
	case 6:
		return 2001 + g.Intn(700)
	default:
		return 1 + g.Intn(300)
	}
}

func runSnapshot(id string, seed int64, dir string) {
	g := rand.New(rand.NewSource(seed))
	// reuse the file-set generator for keys, universe and (optionally) existing files
	base := genCase(g.Int63())
	withFiles := g.Intn(2) == 0
	s := &setRun{id: id, cs: base, dir: dir, types: map[string]int{}, g: g, kcWrong: map[string]bool{}, skipKey: map[string]bool{}}
	s.cs.Seed = seed
	for _, k := range base.Keys {
		s.types[k.Name] = k.Typ
		s.keys = append(s.keys, k.Name)
	}
	r.Begin(id, map[string]interface{}{"seed": seed, "with_files": withFiles, "keys": len(base.Keys)})
	r.Eval(1)

	if withFiles {
		if len(base.Files) > 3 {
			base.Files = base.Files[:3]
		}
		for _, f := range base.Files {
			writeModelFile(dir, f, s.types)
		}
		s.cur = append([]*mfile(nil), base.Files...)
		sortFiles(s.cur)
	}
	s.fs = tsm1.NewFileStore(dir)
	if err := s.fs.Open(); err != nil {
		hfail("FileStore.Open: %v", err)
	}
	defer func() { s.fs.Close() }()
	if withFiles {
		for i := range base.Tombs {
			op := &base.Tombs[i]
			ok := true
			for _, fi := range op.Files {
				if fi >= len(s.cur) {
					ok = false
				}
			}
			if ok {
				s.applyTomb(op, false)
			}
		}
	}

	// cache content
	u := base.Universe
	cache := tsm1.NewCache(1 << 40)
	model := map[string]map[int64]interface{}{}
	nb := 1 + g.Intn(5)
	total := 0
	written := map[string]int{}
	maxPerKey := 0
	for _, k := range base.Keys {
		if g.Intn(5) == 0 && len(base.Keys) > 1 {
			continue // key only in the files
		}
		want := cacheCounts(g, base.Scale)
		written[k.Name] = want
		if want > maxPerKey {
			maxPerKey = want
		}
	}
	if len(written) == 0 {
		written[base.Keys[0].Name] = cacheCounts(g, base.Scale)
	}
	// timestamps: the universe extended so that large counts have room
	ext := append([]int64(nil), u...)
	for len(ext) < maxPerKey+10 {
		last := ext[len(ext)-1]
		if last >= maxNano-2000 {
			break
		}
		ext = append(ext, last+1+int64(g.Intn(1000)))
	}
	for b := 0; b < nb; b++ {
		batch := map[string][]tsm1.Value{}
		for _, k := range base.Keys {
			want, ok := written[k.Name]
			if !ok {
				continue
			}
			n := want/nb + 1
			if b == nb-1 {
				n = want // overshoot with duplicates
			}
			dup := []float64{0, 0.05, 0.5}[g.Intn(3)]
			m := model[k.Name]
			if m == nil {
				m = map[int64]interface{}{}
				model[k.Name] = m
			}
			var vs []tsm1.Value
			for i := 0; i < n && len(m) < want; i++ {
				var ts int64
				if len(vs) > 0 && g.Float64() < dup {
					ts = vs[g.Intn(len(vs))].UnixNano() // duplicate inside the batch
				} else {
					ts = ext[g.Intn(len(ext))]
				}
				v := mkValue(g, k.Typ, 100+b, ts)
				vs = append(vs, toValue(k.Typ, pt{ts, v}))
				m[ts] = v
			}
			if len(vs) == 0 {
				continue
			}
			if g.Intn(3) == 0 { // sometimes an already sorted batch
				sort.SliceStable(vs, func(i, j int) bool { return vs[i].UnixNano() < vs[j].UnixNano() })
			}
			batch[k.Name] = vs
			total += len(vs)
		}
		if len(batch) == 0 {
			continue
		}
		if err := cache.WriteMulti(batch); err != nil {
			hfail("Cache.WriteMulti: %v", err)
		}
	}
	// the cache as a model file that is newer than everything on disk
	cf := &mfile{Gen: 1 << 30, Seq: 1, keys: map[string][]mblock{}, tombs: map[string][]trange{}}
	for k, m := range model {
		if len(m) == 0 {
			continue
		}
		b := mblock{}
		for ts, v := range m {
			b.pts = append(b.pts, pt{ts, v})
		}
		sort.Slice(b.pts, func(i, j int) bool { return b.pts[i].T < b.pts[j].T })
		b.N, b.Min, b.Max = len(b.pts), b.pts[0].T, b.pts[len(b.pts)-1].T
		cf.keys[k] = []mblock{b}
	}
	if len(cf.keys) == 0 {
		return
	}
	group := []*mfile{cf}
	rs := &roundSpec{Size: 1000}

	cacheEquals := func(phase string) bool {
		for _, k := range s.keys {
			want := merged(group, k)
			var got []pt
			for _, v := range cache.Values([]byte(k)) {
				got = append(got, valueToPt(v))
			}
			if d := diffPts(want, got); d != "" {
				s.violation("C09/"+phase+"/cache-content", fmt.Sprintf("Cache.Values(%s) differs from the values written (last write of a timestamp wins): %s", showKey(k), d), s.wit(0, rs, group, k, d))
				return false
			}
		}
		return true
	}
	if !cacheEquals("read-before") {
		return
	}
	if withFiles && !s.checkReads(s.fs, "read-before", 0, nil, nil, nil, false) {
		return
	}

	comp := tsm1.NewCompactor()
	comp.Dir = dir
	comp.FileStore = s.fs
	comp.Open()
	defer comp.Close()
	st := &hookState{comp: comp}
	hookStates.Store(dir, st)

	snap, err := cache.Snapshot()
	if err != nil {
		hfail("Cache.Snapshot: %v", err)
	}
	snap.Deduplicate()

	// expected number of blocks = hook firings of a complete run
	var blocks int64
	for _, bs := range cf.keys {
		blocks += int64((bs[0].N + 999) / 1000)
	}
	images := snapshotInputs(s.cur)
	var ks []int64
	for k := int64(1); k <= blocks && k <= 20; k++ {
		if blocks > 6 && g.Intn(3) != 0 && k != blocks {
			continue // snapshots: sample the abort points of larger caches
		}
		ks = append(ks, k)
	}
	for ai, k := range ks {
		action := []int{actDisableSnapshots, actError, actClose}[(ai+int(seed&3))%3]
		atomic.StoreInt64(&st.n, 0)
		atomic.StoreInt32(&st.fired, 0)
		st.k, st.action = k, action
		outs, err := comp.WriteSnapshot(snap)
		st.k = 0
		fired := atomic.LoadInt32(&st.fired) == 1
		if action == actClose && fired {
			comp.Open()
		} else {
			comp.EnableSnapshots()
			comp.EnableCompactions()
		}
		if !fired {
			r.Inconclusive(fmt.Sprintf("case %s: compact.block not reached %d times during a snapshot of %d blocks", id, k, blocks))
			for _, o := range outs {
				os.Remove(o)
			}
			continue
		}
		r.Count("snapshot_aborts_"+actNames[action], 1)
		what := fmt.Sprintf("snapshot with %s at block %d of %d", actNames[action], k, blocks)
		if err == nil {
			s.violation("C09/abort/no-error-returned", what+" returned no error", s.wit(0, rs, group, "", what))
			for _, o := range outs {
				os.Remove(o)
			}
			return
		}
		if len(outs) > 0 {
			s.violation("C09/abort/files-returned", fmt.Sprintf("%s returned error %q together with %d files", what, err, len(outs)), s.wit(0, rs, group, "", what))
			return
		}
		if !s.checkAfterFailure(0, rs, group, images, what, false) {
			return
		}
		// the values are still in the cache (Engine.WriteSnapshot would retry)
		if !cacheEquals("read-after-abort") {
			return
		}
	}

	atomic.StoreInt64(&st.n, 0)
	outs, err := comp.WriteSnapshot(snap)
	r.Count("hook_compact_block_reached", atomic.LoadInt64(&st.n))
	if err != nil {
		r.Count("snapshots_failed_without_injection", 1)
		r.Inconclusive(fmt.Sprintf("case %s (seed %d): WriteSnapshot failed without an injected fault: %v", id, seed, err))
		return
	}
	r.Count("snapshots_written", 1)
	r.Count("snapshot_values", int64(total))
	outFiles, ok := s.verifyOutputs(outs, group, 0, rs, 1000, true)
	if outFiles == nil || !ok {
		return
	}
	if err := s.fs.Replace(nil, outs); err != nil {
		r.Inconclusive(fmt.Sprintf("case %s: FileStore.Replace failed: %v", id, err))
		return
	}
	cache.ClearSnapshot(true)
	// the snapshot file must be the newest file of the store
	for _, of := range outFiles {
		for _, f := range s.cur {
			if of.Gen < f.Gen || (of.Gen == f.Gen && of.Seq <= f.Seq) {
				s.violation("C09/snapshot-structure/not-newest", fmt.Sprintf("snapshot file %s does not sort after existing file %s", of.name(), f.name()), s.wit(0, rs, group, "", ""))
				return
			}
		}
	}
	// what a query saw before: files + cache on top; now: files + snapshot
	// file(s), verified above to hold exactly the cache content
	existing := s.cur
	s.cur = append(append([]*mfile(nil), s.cur...), outFiles...)
	if !s.checkReads(s.fs, "read-after-snapshot", 0, rs, group, nil, true) {
		return
	}
	s.cur = existing
	if s.bad {
		return
	}
	cls := func(n int) string {
		switch {
		case n < 999:
			return "<999"
		case n <= 1001:
			return fmt.Sprint(n)
		case n == 2000:
			return "2000"
		default:
			return ">1001"
		}
	}
	var parts []string
	for k, bs := range cf.keys {
		parts = append(parts, fmt.Sprintf("%s/%s", typeNames[s.types[k]], cls(bs[0].N)))
	}
	sort.Strings(parts)
	r.Nontrivial(fmt.Sprintf("snap|files%t|batches%d|%v", withFiles, nb, parts))
	if r.WantSample() && total < 40 {
		r.Sample(map[string]interface{}{"case": id, "seed": seed, "cache_values_written": total, "batches": nb, "existing_files": describe(s.cur), "snapshot_files": describe(outFiles)})
	}
}
