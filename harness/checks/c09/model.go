package main

import (
	"fmt"
	"math"
	"math/rand"
	"sort"
	"strings"
)

// The model: the harness writes every block itself, so the logical content of
// a set of files is known without asking any reader of the repository.
//
//	content(file, key) = points of the key's blocks minus the file's tombstone ranges (inclusive)
//	content(set, key)  = union over the files in engine order (generation, sequence ascending),
//	                     the newest file wins on an equal timestamp.

const (
	tFloat = iota
	tInt
	tUint
	tBool
	tString
)

var typeNames = []string{"float", "integer", "unsigned", "boolean", "string"}

type pt struct {
	T int64
	V interface{}
}

type mblock struct {
	Min, Max int64
	N        int
	pts      []pt
}

type trange struct{ Min, Max int64 }

type mfile struct {
	Gen, Seq int
	Path     string
	keys     map[string][]mblock
	tombs    map[string][]trange
}

func (f *mfile) name() string { return fmt.Sprintf("%09d-%09d.tsm", f.Gen, f.Seq) }

func deleted(ts int64, tr []trange) bool {
	for _, t := range tr {
		if t.Min <= ts && ts <= t.Max {
			return true
		}
	}
	return false
}

// merged returns the logical content of key over files (which must be in engine order).
func merged(files []*mfile, key string) []pt {
	m := map[int64]interface{}{}
	for _, f := range files {
		tr := f.tombs[key]
		for _, b := range f.keys[key] {
			for _, p := range b.pts {
				if len(tr) > 0 && deleted(p.T, tr) {
					continue
				}
				m[p.T] = p.V
			}
		}
	}
	out := make([]pt, 0, len(m))
	for t, v := range m {
		out = append(out, pt{t, v})
	}
	sort.Slice(out, func(i, j int) bool { return out[i].T < out[j].T })
	return out
}

func sortFiles(files []*mfile) {
	sort.Slice(files, func(i, j int) bool {
		if files[i].Gen != files[j].Gen {
			return files[i].Gen < files[j].Gen
		}
		return files[i].Seq < files[j].Seq
	})
}

func sameV(a, b interface{}) bool {
	switch x := a.(type) {
	case float64:
		y, ok := b.(float64)
		return ok && math.Float64bits(x) == math.Float64bits(y)
	case int64:
		y, ok := b.(int64)
		return ok && x == y
	case uint64:
		y, ok := b.(uint64)
		return ok && x == y
	case bool:
		y, ok := b.(bool)
		return ok && x == y
	case string:
		y, ok := b.(string)
		return ok && x == y
	}
	return false
}

// diffPts compares two ascending point lists; "" when equal.
func diffPts(want, got []pt) string {
	n := len(want)
	if len(got) < n {
		n = len(got)
	}
	for i := 0; i < n; i++ {
		if want[i].T != got[i].T {
			if want[i].T < got[i].T {
				return fmt.Sprintf("point at t=%d (%s) is missing (next returned t=%d); want %d points, got %d", want[i].T, showV(want[i].V), got[i].T, len(want), len(got))
			}
			return fmt.Sprintf("unexpected point at t=%d (%s) (next expected t=%d); want %d points, got %d", got[i].T, showV(got[i].V), want[i].T, len(want), len(got))
		}
		if !sameV(want[i].V, got[i].V) {
			return fmt.Sprintf("value at t=%d is %s, want %s", want[i].T, showV(got[i].V), showV(want[i].V))
		}
	}
	if len(want) > len(got) {
		return fmt.Sprintf("point at t=%d (%s) is missing; want %d points, got %d", want[n].T, showV(want[n].V), len(want), len(got))
	}
	if len(got) > len(want) {
		return fmt.Sprintf("unexpected point at t=%d (%s); want %d points, got %d", got[n].T, showV(got[n].V), len(want), len(got))
	}
	return ""
}

func showV(v interface{}) string {
	s := fmt.Sprintf("%v", v)
	if len(s) > 40 {
		s = s[:40] + "..."
	}
	return s
}

func showKey(k string) string {
	if len(k) > 60 {
		return fmt.Sprintf("%s...(len %d)", k[:40], len(k))
	}
	return k
}

// ------------------------------------------------------------------ generation

type keySpec struct {
	Name string
	Typ  int
}

type tombOp struct {
	Files    []int // indices into the sorted file list; nil = through FileStore.DeleteRange (every file, as the engine does)
	Keys     []string
	Min, Max int64
	WholeKey bool // TSMReader.Delete(keys)
	PostOpen bool // applied through the FileStore's live reader instead of a fresh TSMReader before Open
}

type roundSpec struct {
	Fast bool
	Size int
	// the compacted group is a run of whole generations: [FromFrac, ToFrac] of the generation list
	All        bool
	FromFrac   float64
	LenFrac    float64
	PreDeletes int // global deletes (FileStore.DeleteRange) issued before this round (round >= 2)
}

type caseSpec struct {
	Seed        int64
	Keys        []keySpec
	Files       []*mfile // engine order
	WriteOrder  []int
	Tombs       []tombOp
	Rounds      []roundSpec
	Universe    []int64
	Layouts     []string
	Scale       string
	BlockBudget int
}

var sizes = []int{1, 2, 10, 1000}

func mkValue(g *rand.Rand, typ, ord int, ts int64) interface{} {
	switch typ {
	case tFloat:
		if g.Intn(40) == 0 {
			sp := []float64{0, math.Copysign(0, -1), math.MaxFloat64, -math.SmallestNonzeroFloat64}
			return sp[g.Intn(len(sp))]
		}
		return float64(ord)*1000 + float64(g.Intn(1000))/8
	case tInt:
		v := int64(ord+1)*1000000000 + int64(g.Intn(1000000))
		if ts&1 == 1 {
			v = -v
		}
		return v
	case tUint:
		return uint64(ord+1)<<56 | uint64(g.Int63n(1<<40))
	case tBool:
		return (ord+int(ts&1))&1 == 0
	default:
		if g.Intn(60) == 0 {
			return fmt.Sprintf("%d:%d:%s", ord, ts, strings.Repeat("x", 200+g.Intn(1500)))
		}
		return fmt.Sprintf("%d:%d:%s", ord, ts, randLetters(g, g.Intn(10)))
	}
}

func randLetters(g *rand.Rand, n int) string {
	b := make([]byte, n)
	for i := range b {
		b[i] = byte('a' + g.Intn(26))
	}
	return string(b)
}

const (
	minNano = int64(math.MinInt64) + 2
	maxNano = int64(math.MaxInt64) - 1
)

func genUniverse(g *rand.Rand, n int) []int64 {
	var step func() int64
	switch g.Intn(10) {
	case 0, 1, 2:
		step = func() int64 { return 1 }
	case 3, 4:
		step = func() int64 { return 1000000000 }
	case 5:
		step = func() int64 { return 10 }
	default:
		step = func() int64 { return 1 + g.Int63n(1000) }
	}
	span := int64(n) * 1000000000 // upper bound of the span
	var base int64
	switch g.Intn(20) {
	case 0:
		base = minNano
	case 1:
		base = maxNano - span
	case 2, 3:
		base = -int64(g.Intn(n + 1)) // straddles zero
	case 4, 5, 6, 7, 8, 9:
		base = 1500000000000000000 + g.Int63n(1000000000)
	default:
		base = int64(g.Intn(1000))
	}
	u := make([]int64, n)
	t := base
	for i := range u {
		u[i] = t
		t += step()
	}
	if base == maxNano-span {
		// end exactly at the largest valid timestamp
		d := maxNano - u[n-1]
		for i := range u {
			u[i] += d
		}
	}
	return u
}

func pickIdx(g *rand.Rand, n int) []int {
	var idx []int
	switch g.Intn(6) {
	case 0: // window
		a := g.Intn(n)
		l := 1 + g.Intn(n-a)
		for i := a; i < a+l; i++ {
			idx = append(idx, i)
		}
	case 1: // stride
		m := 2 + g.Intn(3)
		for i := g.Intn(m); i < n; i += m {
			idx = append(idx, i)
		}
	case 2: // random subset
		d := []float64{0.1, 0.5, 0.9}[g.Intn(3)]
		for i := 0; i < n; i++ {
			if g.Float64() < d {
				idx = append(idx, i)
			}
		}
	case 3: // everything
		for i := 0; i < n; i++ {
			idx = append(idx, i)
		}
	case 4: // two windows with a gap
		a := g.Intn(n/3 + 1)
		b := n/2 + g.Intn(n/3+1)
		for i := a; i < a+n/6+1 && i < n; i++ {
			idx = append(idx, i)
		}
		for i := b; i < b+n/6+1 && i < n; i++ {
			idx = append(idx, i)
		}
	default: // single point
		idx = []int{g.Intn(n)}
	}
	if len(idx) == 0 {
		idx = []int{g.Intn(n)}
	}
	// strictly increasing (the two windows may touch)
	sort.Ints(idx)
	out := idx[:1]
	for _, v := range idx[1:] {
		if v != out[len(out)-1] {
			out = append(out, v)
		}
	}
	return out
}

// layoutIdx picks which universe indices file number fi (of nf files holding the key) gets.
func layoutIdx(g *rand.Rand, layout string, fi, nf, n, size int, base []int) []int {
	switch layout {
	case "identical":
		return base
	case "shift-adjacent", "shift-overlap", "shift-gap", "shift-one", "reverse-overlap":
		l := n / (nf + 1)
		if l < 1 {
			l = 1
		}
		if size <= l && g.Intn(2) == 0 {
			l = l / size * size // windows that are whole blocks
		}
		shift := l
		switch layout {
		case "shift-overlap", "reverse-overlap":
			shift = l/2 + 1
		case "shift-gap":
			shift = l + 1 + l/4
		case "shift-one":
			shift = 1
		}
		k := fi
		if layout == "reverse-overlap" {
			k = nf - 1 - fi
		}
		var idx []int
		for i := k * shift; i < k*shift+l && i < n; i++ {
			idx = append(idx, i)
		}
		if len(idx) == 0 {
			idx = []int{n - 1}
		}
		return idx
	case "interleave":
		var idx []int
		for i := fi; i < n; i += nf {
			idx = append(idx, i)
		}
		if len(idx) == 0 {
			idx = []int{fi % n}
		}
		return idx
	case "nested-old-spans", "nested-new-spans":
		spans := fi == 0
		if layout == "nested-new-spans" {
			spans = fi == nf-1
		}
		if spans {
			idx := make([]int, n)
			for i := range idx {
				idx[i] = i
			}
			return idx
		}
		a := g.Intn(n)
		l := 1 + g.Intn((n-a+3)/4)
		var idx []int
		for i := a; i < a+l && i < n; i++ {
			idx = append(idx, i)
		}
		return idx
	}
	return pickIdx(g, n)
}

var layouts = []string{"identical", "shift-adjacent", "shift-overlap", "shift-gap", "shift-one", "reverse-overlap", "interleave", "nested-old-spans", "nested-new-spans", "random", "random"}

// splitBlocks cuts idx into block lengths aimed at the points-per-block setting.
func splitBlocks(g *rand.Rand, n, size, maxBlocks int) []int {
	var lens []int
	mode := g.Intn(8)
	for n > 0 {
		var l int
		switch mode {
		case 0, 1: // exactly size
			l = size
		case 2:
			l = size + 1
		case 3:
			if size > 1 {
				l = size - 1
			} else {
				l = 1
			}
		case 4: // one big block
			l = n
		case 5: // mixture around the setting
			l = []int{size, size, size + 1, size - 1, 1, 2, 2 * size, 3}[g.Intn(8)]
		case 6:
			l = 1 + g.Intn(n)
		default:
			l = 1 + g.Intn(2*size+3)
		}
		if l < 1 {
			l = 1
		}
		if l > n || len(lens) == maxBlocks-1 {
			l = n
		}
		lens = append(lens, l)
		n -= l
	}
	return lens
}

func genKeys(g *rand.Rand) []keySpec {
	nk := 1 + g.Intn(6)
	names := map[string]bool{}
	var ks []keySpec
	pool := []string{"cpu", "cpu,host=a", "cpu,host=a#!~#v", "cpu,host=a#!~#v2", "cpu,host=b#!~#v", "mem,host=a#!~#used", "m#!~#f", "z\xff#!~#f", "a b,t=\\ x#!~#v", "disk,path=/#!~#free"}
	long := g.Intn(10) == 0
	for len(ks) < nk {
		var name string
		if long && len(ks) < 2 {
			l := 65535 - []int{0, 1, 2, 17, 500}[g.Intn(5)]
			prefix := []string{"cpu,host=", "mem,host=", "a", "zz,t="}[g.Intn(4)]
			name = prefix + strings.Repeat(string(rune('a'+g.Intn(3))), l-len(prefix)-7) + "#!~#val"
			if len(ks) == 1 && g.Intn(2) == 0 {
				// shares all but the last byte with the other long key
				o := ks[0].Name
				name = o[:len(o)-1] + "m"
			}
		} else {
			name = pool[g.Intn(len(pool))]
		}
		if names[name] {
			continue
		}
		names[name] = true
		ks = append(ks, keySpec{name, len(ks) % 5})
	}
	// types: rotate so that all five types appear over few cases
	off := g.Intn(5)
	for i := range ks {
		ks[i].Typ = (i + off) % 5
	}
	sort.Slice(ks, func(i, j int) bool { return ks[i].Name < ks[j].Name })
	return ks
}

func genCase(seed int64) *caseSpec {
	g := rand.New(rand.NewSource(seed))
	cs := &caseSpec{Seed: seed}
	cs.Keys = genKeys(g)
	size := sizes[g.Intn(len(sizes))]
	r1 := roundSpec{Fast: g.Intn(2) == 0, Size: size, All: g.Intn(10) < 6, FromFrac: g.Float64(), LenFrac: g.Float64()}
	cs.Rounds = []roundSpec{r1}
	if g.Intn(2) == 0 {
		cs.Rounds = append(cs.Rounds, roundSpec{Fast: g.Intn(2) == 0, Size: sizes[g.Intn(len(sizes))], All: g.Intn(4) != 0, FromFrac: g.Float64(), LenFrac: g.Float64(), PreDeletes: []int{0, 0, 1, 2}[g.Intn(4)]})
	}

	// universe scale
	var n int
	sc := g.Intn(10)
	if size == 1000 {
		sc += 4
	}
	switch {
	case sc < 5:
		n = 4 + g.Intn(40)
		cs.Scale = "small"
	case sc < 8:
		n = 40 + g.Intn(400)
		cs.Scale = "medium"
	default:
		n = 1000 + g.Intn(2600)
		cs.Scale = "large"
	}
	u := genUniverse(g, n)
	cs.Universe = u

	// files
	nf := 1 + g.Intn(8)
	gen := 1 + g.Intn(5)
	if g.Intn(8) == 0 {
		gen = 1000 + g.Intn(100000)
	}
	seq := 1 + g.Intn(3)
	for i := 0; i < nf; i++ {
		if i > 0 {
			if g.Intn(4) == 0 {
				seq++
			} else {
				gen += 1 + g.Intn(3)
				seq = 1 + g.Intn(4)
			}
		}
		cs.Files = append(cs.Files, &mfile{Gen: gen, Seq: seq, keys: map[string][]mblock{}, tombs: map[string][]trange{}})
	}
	cs.WriteOrder = g.Perm(nf)

	// total number of blocks of a key over all files: above 12 (KeyCursor) and
	// 20 (Compactor) the block sorts of the engine leave insertion sort, which
	// is where the listed ordering defects live; keep a good share of the cases
	// below those thresholds so that the strict oracle applies to them.
	budget := []int{12, 12, 20, 48 * 8, 48 * 8}[g.Intn(5)]
	cs.BlockBudget = budget

	for _, k := range cs.Keys {
		layout := layouts[g.Intn(len(layouts))]
		cs.Layouts = append(cs.Layouts, layout)
		// which files hold the key
		var holders []int
		for i := 0; i < nf; i++ {
			if g.Intn(10) < 7 {
				holders = append(holders, i)
			}
		}
		if len(holders) == 0 {
			holders = []int{g.Intn(nf)}
		}
		base := pickIdx(g, n)
		for hi, fi := range holders {
			idx := layoutIdx(g, layout, hi, len(holders), n, size, base)
			mb := budget / len(holders)
			if mb < 1 {
				mb = 1
			}
			if mb > 48 {
				mb = 48
			}
			lens := splitBlocks(g, len(idx), size, mb)
			pos := 0
			var blocks []mblock
			for _, l := range lens {
				b := mblock{N: l}
				for _, ix := range idx[pos : pos+l] {
					b.pts = append(b.pts, pt{u[ix], mkValue(g, k.Typ, fi, u[ix])})
				}
				b.Min, b.Max = b.pts[0].T, b.pts[l-1].T
				blocks = append(blocks, b)
				pos += l
			}
			cs.Files[fi].keys[k.Name] = blocks
		}
	}
	// a file without any key cannot be written: give it one
	for fi, f := range cs.Files {
		if len(f.keys) == 0 {
			k := cs.Keys[g.Intn(len(cs.Keys))]
			idx := pickIdx(g, n)
			b := mblock{N: len(idx)}
			for _, ix := range idx {
				b.pts = append(b.pts, pt{u[ix], mkValue(g, k.Typ, fi, u[ix])})
			}
			b.Min, b.Max = b.pts[0].T, b.pts[len(idx)-1].T
			f.keys[k.Name] = []mblock{b}
		}
	}

	// tombstones
	nt := []int{0, 0, 1, 1, 2, 3}[g.Intn(6)]
	for i := 0; i < nt; i++ {
		cs.Tombs = append(cs.Tombs, genTomb(g, cs, false))
	}
	return cs
}

// genTomb draws one delete aimed at block boundaries of the current files.
func genTomb(g *rand.Rand, cs *caseSpec, globalOnly bool) tombOp {
	op := tombOp{PostOpen: g.Intn(2) == 0}
	nf := len(cs.Files)
	switch {
	case globalOnly || g.Intn(3) == 0:
		op.Files = nil // every file (FileStore.DeleteRange)
		op.PostOpen = true
	case g.Intn(2) == 0:
		op.Files = []int{g.Intn(nf)}
	default:
		for i := 0; i < nf; i++ {
			if g.Intn(2) == 0 {
				op.Files = append(op.Files, i)
			}
		}
		if len(op.Files) == 0 {
			op.Files = []int{g.Intn(nf)}
		}
	}
	// keys: one or several, possibly one that the file does not hold
	nk := 1
	if g.Intn(3) == 0 {
		nk = 1 + g.Intn(len(cs.Keys))
	}
	seen := map[string]bool{}
	for len(op.Keys) < nk {
		k := cs.Keys[g.Intn(len(cs.Keys))].Name
		if !seen[k] {
			seen[k] = true
			op.Keys = append(op.Keys, k)
		}
	}
	if g.Intn(6) == 0 {
		op.Keys = append(op.Keys, "absent,key=1#!~#v")
	}
	sort.Strings(op.Keys)

	if op.Files != nil && g.Intn(7) == 0 {
		op.WholeKey = true
		op.Min, op.Max = math.MinInt64, math.MaxInt64
		return op
	}
	// aim at a block of a file for the first key
	var blk *mblock
	for try := 0; try < 8 && blk == nil; try++ {
		f := cs.Files[g.Intn(nf)]
		if bs := f.keys[op.Keys[g.Intn(len(op.Keys))]]; len(bs) > 0 {
			blk = &bs[g.Intn(len(bs))]
		}
	}
	u := cs.Universe
	a, b := u[g.Intn(len(u))], u[g.Intn(len(u))]
	if a > b {
		a, b = b, a
	}
	if blk != nil {
		switch g.Intn(9) {
		case 0: // exactly the block
			a, b = blk.Min, blk.Max
		case 1: // all but the first point
			a, b = blk.Min+1, blk.Max
		case 2: // all but the last point
			a, b = blk.Min, blk.Max-1
		case 3: // first point only
			a, b = blk.Min, blk.Min
		case 4: // last point only
			a, b = blk.Max, blk.Max
		case 5: // inside
			p := blk.pts[g.Intn(len(blk.pts))].T
			q := blk.pts[g.Intn(len(blk.pts))].T
			if p > q {
				p, q = q, p
			}
			a, b = p, q
		case 6: // from the middle of the block to the end of time
			a, b = blk.pts[g.Intn(len(blk.pts))].T, math.MaxInt64
		case 7: // from the beginning of time into the block
			a, b = math.MinInt64, blk.pts[g.Intn(len(blk.pts))].T
		}
	}
	if a > b {
		a, b = b, a
	}
	if g.Intn(25) == 0 {
		a, b = math.MinInt64, math.MaxInt64
	}
	op.Min, op.Max = a, b
	return op
}

// applyToModel records the delete in the model.
func (op *tombOp) applyToModel(files []*mfile) {
	targets := op.Files
	if targets == nil {
		for i := range files {
			targets = append(targets, i)
		}
	}
	for _, fi := range targets {
		f := files[fi]
		for _, k := range op.Keys {
			if _, ok := f.keys[k]; ok {
				f.tombs[k] = append(f.tombs[k], trange{op.Min, op.Max})
			}
		}
	}
}
