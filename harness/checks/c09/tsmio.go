package main

import (
	"context"
	"fmt"
	"os"
	"path/filepath"
	"sort"
	"strings"

	"github.com/influxdata/influxdb/tsdb"
	"github.com/influxdata/influxdb/tsdb/engine/tsm1"
)

func toValue(typ int, p pt) tsm1.Value {
	switch typ {
	case tFloat:
		return tsm1.NewFloatValue(p.T, p.V.(float64))
	case tInt:
		return tsm1.NewIntegerValue(p.T, p.V.(int64))
	case tUint:
		return tsm1.NewUnsignedValue(p.T, p.V.(uint64))
	case tBool:
		return tsm1.NewBooleanValue(p.T, p.V.(bool))
	default:
		return tsm1.NewStringValue(p.T, p.V.(string))
	}
}

func blockTypeOf(typ int) byte {
	return []byte{tsm1.BlockFloat64, tsm1.BlockInteger, tsm1.BlockUnsigned, tsm1.BlockBoolean, tsm1.BlockString}[typ]
}

func typOfBlockType(b byte) int {
	switch b {
	case tsm1.BlockFloat64:
		return tFloat
	case tsm1.BlockInteger:
		return tInt
	case tsm1.BlockUnsigned:
		return tUint
	case tsm1.BlockBoolean:
		return tBool
	case tsm1.BlockString:
		return tString
	}
	return -1
}

// harnessErr is a failure of the harness's own plumbing (not a verdict).
type harnessErr struct{ msg string }

func (e harnessErr) Error() string { return e.msg }

func hfail(format string, a ...interface{}) {
	panic(harnessErr{fmt.Sprintf(format, a...)})
}

// writeModelFile writes f with tsm1.NewTSMWriter, one Write per block.
func writeModelFile(dir string, f *mfile, types map[string]int) {
	f.Path = filepath.Join(dir, f.name())
	fd, err := os.OpenFile(f.Path, os.O_CREATE|os.O_RDWR|os.O_EXCL, 0o644)
	if err != nil {
		hfail("create %s: %v", f.Path, err)
	}
	w, err := tsm1.NewTSMWriter(fd)
	if err != nil {
		hfail("NewTSMWriter: %v", err)
	}
	keys := make([]string, 0, len(f.keys))
	for k := range f.keys {
		keys = append(keys, k)
	}
	sort.Strings(keys)
	for _, k := range keys {
		typ := types[k]
		for _, b := range f.keys[k] {
			vals := make([]tsm1.Value, len(b.pts))
			for i, p := range b.pts {
				vals[i] = toValue(typ, p)
			}
			if err := w.Write([]byte(k), vals); err != nil {
				hfail("TSMWriter.Write(%s): %v", showKey(k), err)
			}
		}
	}
	if err := w.WriteIndex(); err != nil {
		hfail("WriteIndex %s: %v", f.Path, err)
	}
	if err := w.Close(); err != nil {
		hfail("writer close: %v", err)
	}
}

func byteKeys(ks []string) [][]byte {
	out := make([][]byte, len(ks))
	for i, k := range ks {
		out[i] = []byte(k)
	}
	return out
}

// applyTombFresh applies op to one file through a fresh TSMReader (before the FileStore is opened).
func applyTombFresh(path string, op *tombOp) error {
	fd, err := os.Open(path)
	if err != nil {
		return err
	}
	r, err := tsm1.NewTSMReader(fd)
	if err != nil {
		fd.Close()
		return err
	}
	defer r.Close()
	if op.WholeKey {
		return r.Delete(byteKeys(op.Keys))
	}
	return r.DeleteRange(byteKeys(op.Keys), op.Min, op.Max)
}

// applyTombLive applies op through the reader that the FileStore holds.
func applyTombLive(fs *tsm1.FileStore, path string, op *tombOp) error {
	r := fs.TSMReader(path)
	if r == nil {
		return fmt.Errorf("FileStore has no reader for %s", path)
	}
	defer r.Unref()
	if op.WholeKey {
		return r.Delete(byteKeys(op.Keys))
	}
	return r.DeleteRange(byteKeys(op.Keys), op.Min, op.Max)
}

// rawFile is what a fresh TSMReader sees in one file: per key, per index entry, the decoded block.
type rawFile struct {
	Path string
	Size int64
	Keys []string
	Typ  map[string]int
	Blk  map[string][]mblock
}

func valueToPt(v tsm1.Value) pt { return pt{v.UnixNano(), v.Value()} }

// readRaw decodes every block of a file with a fresh TSMReader. structural
// problems that make the file unreadable are returned as error strings.
func readRaw(path string) (*rawFile, error) {
	fd, err := os.Open(path)
	if err != nil {
		return nil, err
	}
	st, _ := fd.Stat()
	r, err := tsm1.NewTSMReader(fd)
	if err != nil {
		fd.Close()
		return nil, fmt.Errorf("NewTSMReader: %v", err)
	}
	defer r.Close()
	rf := &rawFile{Path: path, Size: st.Size(), Typ: map[string]int{}, Blk: map[string][]mblock{}}
	n := r.KeyCount()
	for i := 0; i < n; i++ {
		kb, bt := r.KeyAt(i)
		key := string(kb)
		rf.Keys = append(rf.Keys, key)
		rf.Typ[key] = typOfBlockType(bt)
		entries := append([]tsm1.IndexEntry(nil), r.Entries(kb)...)
		for _, e := range entries {
			e := e
			vals, err := r.ReadAt(&e, nil)
			if err != nil {
				return nil, fmt.Errorf("ReadAt(%s, [%d,%d]): %v", showKey(key), e.MinTime, e.MaxTime, err)
			}
			b := mblock{Min: e.MinTime, Max: e.MaxTime, N: len(vals)}
			b.pts = make([]pt, len(vals))
			for j, v := range vals {
				b.pts[j] = valueToPt(v)
			}
			rf.Blk[key] = append(rf.Blk[key], b)
		}
	}
	return rf, nil
}

// cursorRead reads key through a FileStore KeyCursor from t in the given
// direction and returns the points in the order a cursor consumer sees them
// (ascending: block after block; descending: each block walked backwards).
func cursorRead(fs *tsm1.FileStore, key string, typ int, t int64, asc, array bool) ([]pt, int, error) {
	c := fs.KeyCursor(context.Background(), []byte(key), t, asc)
	defer c.Close()
	var out []pt
	nblocks := 0
	for guard := 0; ; guard++ {
		if guard > 1<<20 {
			return out, nblocks, fmt.Errorf("cursor did not terminate")
		}
		var blk []pt
		var err error
		switch typ {
		case tFloat:
			if array {
				var a *tsdb.FloatArray
				if a, err = c.ReadFloatArrayBlock(&tsdb.FloatArray{}); err == nil && a != nil {
					for i, ts := range a.Timestamps {
						blk = append(blk, pt{ts, a.Values[i]})
					}
				}
			} else {
				var buf []tsm1.FloatValue
				var vs []tsm1.FloatValue
				if vs, err = c.ReadFloatBlock(&buf); err == nil {
					for _, v := range vs {
						blk = append(blk, pt{v.UnixNano(), v.Value()})
					}
				}
			}
		case tInt:
			if array {
				var a *tsdb.IntegerArray
				if a, err = c.ReadIntegerArrayBlock(&tsdb.IntegerArray{}); err == nil && a != nil {
					for i, ts := range a.Timestamps {
						blk = append(blk, pt{ts, a.Values[i]})
					}
				}
			} else {
				var buf []tsm1.IntegerValue
				var vs []tsm1.IntegerValue
				if vs, err = c.ReadIntegerBlock(&buf); err == nil {
					for _, v := range vs {
						blk = append(blk, pt{v.UnixNano(), v.Value()})
					}
				}
			}
		case tUint:
			if array {
				var a *tsdb.UnsignedArray
				if a, err = c.ReadUnsignedArrayBlock(&tsdb.UnsignedArray{}); err == nil && a != nil {
					for i, ts := range a.Timestamps {
						blk = append(blk, pt{ts, a.Values[i]})
					}
				}
			} else {
				var buf []tsm1.UnsignedValue
				var vs []tsm1.UnsignedValue
				if vs, err = c.ReadUnsignedBlock(&buf); err == nil {
					for _, v := range vs {
						blk = append(blk, pt{v.UnixNano(), v.Value()})
					}
				}
			}
		case tBool:
			if array {
				var a *tsdb.BooleanArray
				if a, err = c.ReadBooleanArrayBlock(&tsdb.BooleanArray{}); err == nil && a != nil {
					for i, ts := range a.Timestamps {
						blk = append(blk, pt{ts, a.Values[i]})
					}
				}
			} else {
				var buf []tsm1.BooleanValue
				var vs []tsm1.BooleanValue
				if vs, err = c.ReadBooleanBlock(&buf); err == nil {
					for _, v := range vs {
						blk = append(blk, pt{v.UnixNano(), v.Value()})
					}
				}
			}
		default:
			if array {
				var a *tsdb.StringArray
				if a, err = c.ReadStringArrayBlock(&tsdb.StringArray{}); err == nil && a != nil {
					for i, ts := range a.Timestamps {
						blk = append(blk, pt{ts, a.Values[i]})
					}
				}
			} else {
				var buf []tsm1.StringValue
				var vs []tsm1.StringValue
				if vs, err = c.ReadStringBlock(&buf); err == nil {
					for _, v := range vs {
						blk = append(blk, pt{v.UnixNano(), v.Value()})
					}
				}
			}
		}
		if err != nil {
			return out, nblocks, err
		}
		if len(blk) == 0 {
			break
		}
		nblocks++
		if asc {
			out = append(out, blk...)
		} else {
			for i := len(blk) - 1; i >= 0; i-- {
				out = append(out, blk[i])
			}
		}
		c.Next()
	}
	return out, nblocks, nil
}

func reversed(p []pt) []pt {
	out := make([]pt, len(p))
	for i := range p {
		out[len(p)-1-i] = p[i]
	}
	return out
}

// listDir returns the names in dir.
func listDir(dir string) []string {
	es, err := os.ReadDir(dir)
	if err != nil {
		hfail("readdir %s: %v", dir, err)
	}
	var out []string
	for _, e := range es {
		out = append(out, e.Name())
	}
	sort.Strings(out)
	return out
}

func tmpLeft(dir string) []string {
	var out []string
	for _, n := range listDir(dir) {
		if strings.HasSuffix(n, ".tmp") {
			out = append(out, n)
		}
	}
	return out
}
