package main

import (
	"encoding/json"
	"fmt"
	"os"
	"path/filepath"
	"strings"
)

// Shrinking (developer aid, used with --replay and C09_SHRINK=1): reduce a
// failing file set to a small one that still shows the same signature, and
// print it. Every trial is a complete run of the case in probe mode.

func cloneCase(cs *caseSpec) *caseSpec {
	c := &caseSpec{Seed: cs.Seed, Keys: append([]keySpec(nil), cs.Keys...), Universe: cs.Universe, Layouts: cs.Layouts, Scale: cs.Scale}
	for _, f := range cs.Files {
		nf := &mfile{Gen: f.Gen, Seq: f.Seq, keys: map[string][]mblock{}, tombs: map[string][]trange{}}
		for k, bs := range f.keys {
			nb := make([]mblock, len(bs))
			for i, b := range bs {
				nb[i] = mblock{Min: b.Min, Max: b.Max, N: b.N, pts: append([]pt(nil), b.pts...)}
			}
			nf.keys[k] = nb
		}
		c.Files = append(c.Files, nf)
	}
	for i := range cs.Files {
		c.WriteOrder = append(c.WriteOrder, i)
	}
	for _, t := range cs.Tombs {
		nt := t
		nt.Keys = append([]string(nil), t.Keys...)
		if t.Files != nil {
			nt.Files = append([]int{}, t.Files...)
		}
		c.Tombs = append(c.Tombs, nt)
	}
	c.Rounds = append([]roundSpec(nil), cs.Rounds...)
	return c
}

var probeN int

func probeCase(cs *caseSpec, root string, aborts bool) (string, string) {
	probeN++
	dir := filepath.Join(root, fmt.Sprintf("probe-%d", probeN))
	os.MkdirAll(dir, 0o755)
	defer os.RemoveAll(dir)
	defer hookStates.Delete(dir)
	s := runFileset("probe", cloneCase(cs), dir, aborts, true)
	return s.firstSig, s.firstWhat
}

func validCase(cs *caseSpec) bool {
	if len(cs.Files) == 0 || len(cs.Keys) == 0 || len(cs.Rounds) == 0 {
		return false
	}
	for _, f := range cs.Files {
		n := 0
		for _, bs := range f.keys {
			for _, b := range bs {
				if len(b.pts) == 0 {
					return false
				}
				n++
			}
		}
		if n == 0 {
			return false
		}
	}
	return true
}

func dropFile(cs *caseSpec, i int) *caseSpec {
	c := cloneCase(cs)
	c.Files = append(c.Files[:i], c.Files[i+1:]...)
	c.WriteOrder = nil
	for j := range c.Files {
		c.WriteOrder = append(c.WriteOrder, j)
	}
	var ts []tombOp
	for _, t := range c.Tombs {
		if t.Files != nil {
			var nf []int
			for _, fi := range t.Files {
				if fi == i {
					continue
				}
				if fi > i {
					fi--
				}
				nf = append(nf, fi)
			}
			if len(nf) == 0 {
				continue
			}
			t.Files = nf
		}
		ts = append(ts, t)
	}
	c.Tombs = ts
	return c
}

func shrinkCase(id string, cs *caseSpec, root string) {
	target := os.Getenv("C09_SHRINK_SIG")
	sig, what := probeCase(cs, root, true)
	if sig == "" {
		fmt.Printf("shrink %s: the case shows no violation\n", id)
		return
	}
	if target == "" {
		target = sig
	}
	aborts := strings.Contains(target, "abort")
	fmt.Printf("shrink %s: target %s (%s)\n", id, target, what)
	still := func(c *caseSpec) bool {
		if !validCase(c) {
			return false
		}
		s, _ := probeCase(c, root, aborts)
		return s == target
	}
	if !still(cs) {
		fmt.Printf("shrink %s: first violation is %s, not the target\n", id, sig)
		return
	}
	cur := cloneCase(cs)
	for changed := true; changed; {
		changed = false
		// rounds
		if len(cur.Rounds) > 1 {
			c := cloneCase(cur)
			c.Rounds = c.Rounds[:1]
			if still(c) {
				cur, changed = c, true
			}
		}
		if !cur.Rounds[0].All {
			c := cloneCase(cur)
			c.Rounds[0].All = true
			if still(c) {
				cur, changed = c, true
			}
		}
		// tombstones
		for i := 0; i < len(cur.Tombs); i++ {
			c := cloneCase(cur)
			c.Tombs = append(c.Tombs[:i], c.Tombs[i+1:]...)
			if still(c) {
				cur, changed = c, true
				i--
			}
		}
		// files
		for i := 0; i < len(cur.Files); i++ {
			if len(cur.Files) == 1 {
				break
			}
			c := dropFile(cur, i)
			if still(c) {
				cur, changed = c, true
				i--
			}
		}
		// keys
		for i := 0; i < len(cur.Keys); i++ {
			if len(cur.Keys) == 1 {
				break
			}
			c := cloneCase(cur)
			name := c.Keys[i].Name
			c.Keys = append(c.Keys[:i], c.Keys[i+1:]...)
			for _, f := range c.Files {
				delete(f.keys, name)
			}
			for ti := range c.Tombs {
				var ks []string
				for _, k := range c.Tombs[ti].Keys {
					if k != name {
						ks = append(ks, k)
					}
				}
				c.Tombs[ti].Keys = ks
			}
			var ts []tombOp
			for _, t := range c.Tombs {
				if len(t.Keys) > 0 {
					ts = append(ts, t)
				}
			}
			c.Tombs = ts
			if still(c) {
				cur, changed = c, true
				i--
			}
		}
		// blocks
		for fi := range cur.Files {
			for _, k := range cur.Keys {
				for bi := 0; bi < len(cur.Files[fi].keys[k.Name]); bi++ {
					c := cloneCase(cur)
					bs := c.Files[fi].keys[k.Name]
					bs = append(bs[:bi], bs[bi+1:]...)
					if len(bs) == 0 {
						delete(c.Files[fi].keys, k.Name)
					} else {
						c.Files[fi].keys[k.Name] = bs
					}
					if still(c) {
						cur, changed = c, true
						bi--
					}
				}
			}
		}
		// points
		for fi := range cur.Files {
			for _, k := range cur.Keys {
				for bi := range cur.Files[fi].keys[k.Name] {
					for pi := 0; pi < len(cur.Files[fi].keys[k.Name][bi].pts); pi++ {
						if len(cur.Files[fi].keys[k.Name][bi].pts) == 1 {
							break
						}
						c := cloneCase(cur)
						b := &c.Files[fi].keys[k.Name][bi]
						b.pts = append(b.pts[:pi], b.pts[pi+1:]...)
						b.N, b.Min, b.Max = len(b.pts), b.pts[0].T, b.pts[len(b.pts)-1].T
						if still(c) {
							cur, changed = c, true
							pi--
						}
					}
				}
			}
		}
	}
	_, what = probeCase(cur, root, aborts)
	var dump []string
	for _, f := range cur.Files {
		for k, bs := range f.keys {
			line := f.name() + "  " + showKey(k) + " :"
			for _, b := range bs {
				line += " ["
				for i, p := range b.pts {
					if i > 0 {
						line += " "
					}
					line += fmt.Sprintf("%d=%s", p.T, showV(p.V))
				}
				line += "]"
			}
			dump = append(dump, line)
		}
	}
	out := map[string]interface{}{"target": target, "what": what, "rounds": cur.Rounds, "files": dump, "deletes": cur.Tombs, "probes": probeN}
	b, _ := json.MarshalIndent(out, "", " ")
	fmt.Printf("shrink %s: minimal case after %d probes:\n%s\n", id, probeN, b)
}
