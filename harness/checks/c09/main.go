// C09 — snapshot and compaction never change what reads return.
//
// Monitor: the harness CONSTRUCTS sets of TSM files block by block with
// tsm1.NewTSMWriter (so the logical content key -> ts -> value, newest file
// wins, minus tombstoned ranges, is known without trusting any reader), applies
// deletes through TSMReader.DeleteRange/Delete and FileStore.DeleteRange, then
// drives the real Compactor (CompactFull / CompactFast, points-per-block
// 1/2/10/1000) and FileStore.Replace, and Compactor.WriteSnapshot over caches
// filled with unsorted duplicated values. The oracle compares the model with
// (a) fresh TSMReaders over the output files, (b) FileStore KeyCursors in both
// directions before and after, checks the structure of every output index and,
// with faults injected at the k-th block through the compact.block hook, that
// a failed or aborted run returns an error, leaves the inputs byte-identical
// and readable and leaves no temporary file behind.
//
// Signatures name the reader that saw the difference and the kind of the first
// diverging point (point-lost, deleted-point-reappears, older-value-wins, ...).
// Two listed findings (block lists sorted with a comparator that is not a
// strict weak order) only exist above 12 (KeyCursor) / 20 (Compactor) blocks
// of a key, so those signatures carry an /over-N-blocks suffix and every case
// below the thresholds stays under the strict oracle; cases fixed/0 and
// fixed/1 are their shrunk reproductions. C09_SHRINK=1 with --replay shrinks a
// failing file set (shrink.go).
package main

import (
	"bytes"
	"errors"
	"fmt"
	"math"
	"math/rand"
	"os"
	"path/filepath"
	"runtime"
	"runtime/pprof"
	"sort"
	"strings"
	"sync"
	"sync/atomic"

	"github.com/influxdata/influxdb/pkg/verifhook"
	"github.com/influxdata/influxdb/tsdb/engine/tsm1"

	"verifharness/internal/ev"
)

func main() { ev.Supervise("C09", body) }

var r *ev.Run

const (
	maxIndexEntries = 65535
	maxTSMFileSize  = int64(2048 * 1024 * 1024)
)

// ---------------------------------------------------------------- hook plumbing

const (
	actNone = iota
	actError
	actDisableCompactions
	actDisableSnapshots
	actClose
	actDeleteKey // a whole-series delete reaches the inputs' indexes while their block iterators are open: the readers then fail inside Next()
)

var actNames = []string{"none", "inject-error", "DisableCompactions", "DisableSnapshots", "Close", "delete-a-later-key-from-the-inputs"}

type hookState struct {
	n      int64 // blocks seen
	k      int64 // act at the k-th block (0 = never)
	action int
	comp   *tsm1.Compactor
	fired  int32
	fs     *tsm1.FileStore
	delKey string
	delErr error
}

var hookStates sync.Map // directory -> *hookState

var errInjected = errors.New("verif: injected failure at compact.block")

func installHook() {
	verifhook.Set("compact.block", func(name string, args ...interface{}) error {
		if len(args) == 0 {
			return nil
		}
		p, ok := args[0].(string)
		if !ok {
			return nil
		}
		v, ok := hookStates.Load(filepath.Dir(p))
		if !ok {
			return nil
		}
		st := v.(*hookState)
		n := atomic.AddInt64(&st.n, 1)
		if st.k > 0 && n == st.k {
			atomic.StoreInt32(&st.fired, 1)
			switch st.action {
			case actError:
				return errInjected
			case actDisableCompactions:
				st.comp.DisableCompactions()
			case actDisableSnapshots:
				st.comp.DisableSnapshots()
			case actClose:
				st.comp.Close()
			case actDeleteKey:
				st.delErr = st.fs.DeleteRange([][]byte{[]byte(st.delKey)}, math.MinInt64, math.MaxInt64)
			}
		}
		return nil
	})
}

// ---------------------------------------------------------------- driver

type job struct {
	id   string
	kind string
	seed int64
	idx  int
}

func body() {
	r = ev.Start("C09", "exploration")
	r.Rule = "file sets are generated from a per-case seed: 1-8 files with chosen generation/sequence names written in shuffled order, 1-6 keys (one value type each, some at the key-length limit), per key a layout (identical timestamps, shifted/overlapping/adjacent windows, interleaved, nested, random), block lengths aimed at the points-per-block setting (exactly N, N+-1, one big block, single points), deletes aimed at block boundaries applied per file or to every file; each set is compacted (full or fast, size 1/2/10/1000, all files or a run of whole generations, optionally a second round) with an abort or injected failure at every block k<=20 plus sampled later blocks. A case is non-trivial when some key has blocks of >=2 files overlapping in time or a delete intersecting a block; distinct by (mode, size, per-key overlap-pattern signature: #files, overlap, equal timestamps, partial / whole-block tombstone, full / short blocks). Snapshot cases: caches written in several unsorted batches with duplicate timestamps, block-boundary value counts, optionally over an existing file set."
	r.Assumptions = []string{
		"compaction groups are runs of whole generations passed in engine order (generation, sequence ascending), as the planner produces them",
		"within one input file a key's blocks are sorted and disjoint and a block holds strictly increasing timestamps (what every writer of the engine produces); overlap exists only between files",
		"failures are injected at the compact.block site (error return, DisableCompactions / DisableSnapshots / Close from the handler) and, as the one reader-originated failure, by deleting a later key from the inputs through the FileStore once the block iterators are open (only in layouts where BlockIterator is certain to notice: it checks when it moves to another key; the engine itself never deletes under a running compaction); I/O errors of the readers and the .bad rename of checksum-failing inputs are not exercised",
		"the 2 GiB file-size rollover and the >=2e6-value concurrent snapshot path are out of reach of the tiers; the size limit is only checked on the outputs produced",
	}
	r.Floor = 150

	nSets := r.Pick(900, 27000)
	nSnap := r.Pick(240, 7200)
	nBig := r.Pick(3, 15)
	if v := os.Getenv("C09_NSETS"); v != "" {
		fmt.Sscan(v, &nSets)
	}
	if v := os.Getenv("C09_NSNAP"); v != "" {
		fmt.Sscan(v, &nSnap)
	}
	if v := os.Getenv("C09_NBIG"); v != "" {
		fmt.Sscan(v, &nBig)
	}

	if p := os.Getenv("C09_PPROF"); p != "" {
		if f, err := os.Create(p); err == nil {
			pprof.StartCPUProfile(f)
			defer pprof.StopCPUProfile()
		}
	}
	installHook()
	root := ev.TempDir("c09")
	defer os.RemoveAll(root)

	jobs := make(chan job, 64)
	var wg sync.WaitGroup
	for w := 0; w < runtime.NumCPU(); w++ {
		wg.Add(1)
		go func() {
			defer wg.Done()
			for j := range jobs {
				runJob(j, root)
			}
		}()
	}
	for i := 0; fixedCase(i) != nil; i++ {
		id := fmt.Sprintf("fixed/%d", i)
		if r.Skip(id) {
			continue
		}
		jobs <- job{id, "fixed", 0, i}
	}
	// the big-index cases first: they are the longest
	brng := r.Rand("bigidx")
	for i := 0; i < nBig; i++ {
		id := fmt.Sprintf("bigidx/%d", i)
		s := brng.Int63()
		if r.Skip(id) {
			continue
		}
		jobs <- job{id, "bigidx", s, i}
	}
	rng := r.Rand("filesets")
	for i := 0; i < nSets; i++ {
		id := fmt.Sprintf("set/%d", i)
		s := rng.Int63()
		if r.Skip(id) {
			continue
		}
		jobs <- job{id, "set", s, i}
	}
	srng := r.Rand("snapshots")
	for i := 0; i < nSnap; i++ {
		id := fmt.Sprintf("snap/%d", i)
		s := srng.Int63()
		if r.Skip(id) {
			continue
		}
		jobs <- job{id, "snap", s, i}
	}
	close(jobs)
	wg.Wait()
	os.RemoveAll(root)
	pprof.StopCPUProfile()
	r.Finish()
}

func runJob(j job, root string) {
	dir := filepath.Join(root, strings.ReplaceAll(j.id, "/", "-"))
	if err := os.MkdirAll(dir, 0o755); err != nil {
		fmt.Fprintln(os.Stderr, err)
		os.Exit(ev.ExitBroken)
	}
	defer os.RemoveAll(dir)
	defer hookStates.Delete(dir)
	defer func() {
		if e := recover(); e != nil {
			if he, ok := e.(harnessErr); ok {
				fmt.Fprintf(os.Stderr, "harness failure in case %s: %s\n", j.id, he.msg)
				fmt.Printf("BROKEN-CHECK C09: harness failure in case %s: %s\n", j.id, he.msg)
				os.Exit(ev.ExitBroken)
			}
			panic(e)
		}
	}()
	switch j.kind {
	case "set":
		cs := genCase(j.seed)
		if os.Getenv("C09_SHRINK") != "" {
			shrinkCase(j.id, cs, root)
			return
		}
		runFileset(j.id, cs, dir, true, false)
	case "fixed":
		runFileset(j.id, fixedCase(j.idx), dir, false, false)
	case "bigidx":
		cs := genBigIndexCase(j.seed, j.idx)
		runFileset(j.id, cs, dir, true, false)
	case "snap":
		runSnapshot(j.id, j.seed, dir)
	}
}

// ---------------------------------------------------------------- witnesses

type fileDesc struct {
	Name  string              `json:"name"`
	Keys  map[string][]string `json:"blocks"` // key -> "[min,max]xN"
	Tombs map[string][]string `json:"tombstones,omitempty"`
}

func describe(files []*mfile) []fileDesc {
	var out []fileDesc
	for _, f := range files {
		d := fileDesc{Name: f.name(), Keys: map[string][]string{}, Tombs: map[string][]string{}}
		for k, bs := range f.keys {
			for i, b := range bs {
				if i >= 12 {
					d.Keys[showKey(k)] = append(d.Keys[showKey(k)], fmt.Sprintf("... %d blocks", len(bs)))
					break
				}
				d.Keys[showKey(k)] = append(d.Keys[showKey(k)], fmt.Sprintf("[%d,%d]x%d", b.Min, b.Max, b.N))
			}
		}
		for k, ts := range f.tombs {
			for _, t := range ts {
				d.Tombs[showKey(k)] = append(d.Tombs[showKey(k)], fmt.Sprintf("[%d,%d]", t.Min, t.Max))
			}
		}
		out = append(out, d)
	}
	return out
}

type witness struct {
	Seed    int64       `json:"case_seed"`
	Round   int         `json:"round"`
	Mode    string      `json:"mode"`
	Size    int         `json:"points_per_block"`
	Group   []string    `json:"compacted_files"`
	Files   []fileDesc  `json:"file_set"`
	Key     string      `json:"key,omitempty"`
	KeyType string      `json:"key_type,omitempty"`
	Detail  string      `json:"detail"`
	Extra   interface{} `json:"extra,omitempty"`
}

// classify names the kind of the first divergence between want and got (both ascending).
func classify(want, got []pt, files []*mfile, key string) string {
	wm := map[int64]interface{}{}
	for _, p := range want {
		wm[p.T] = p.V
	}
	gm := map[int64]interface{}{}
	for _, p := range got {
		gm[p.T] = p.V
	}
	// lowest diverging timestamp
	var ts []int64
	for _, p := range want {
		if v, ok := gm[p.T]; !ok || !sameV(v, p.V) {
			ts = append(ts, p.T)
		}
	}
	for _, p := range got {
		if _, ok := wm[p.T]; !ok {
			ts = append(ts, p.T)
		}
	}
	if len(ts) == 0 {
		return "order"
	}
	sort.Slice(ts, func(i, j int) bool { return ts[i] < ts[j] })
	t := ts[0]
	wv, inW := wm[t]
	gv, inG := gm[t]
	switch {
	case inW && !inG:
		return "point-lost"
	case !inW && inG:
		for _, f := range files {
			for _, b := range f.keys[key] {
				if t >= b.Min && t <= b.Max {
					for _, p := range b.pts {
						if p.T == t {
							return "deleted-point-reappears"
						}
					}
				}
			}
		}
		return "phantom-point"
	default:
		_ = wv
		for _, f := range files {
			for _, b := range f.keys[key] {
				if t >= b.Min && t <= b.Max {
					for _, p := range b.pts {
						if p.T == t && sameV(p.V, gv) {
							return "older-value-wins"
						}
					}
				}
			}
		}
		return "wrong-value"
	}
}

// ---------------------------------------------------------------- file-set cases

type setRun struct {
	id    string
	cs    *caseSpec
	dir   string
	types map[string]int
	keys  []string
	cur   []*mfile
	fs    *tsm1.FileStore
	g     *rand.Rand
	bad   bool
	// keys whose KeyCursor read was already wrong earlier in the case (read-path signature)
	kcWrong map[string]bool
	// keys whose compaction output was wrong (listed finding): not judged any further
	skipKey map[string]bool
	// probe mode (shrinking): record the first violation instead of reporting it
	probe     bool
	firstSig  string
	firstWhat string
}

func (s *setRun) wit(round int, rs *roundSpec, group []*mfile, key, detail string) witness {
	w := witness{Seed: s.cs.Seed, Round: round, Files: describe(s.cur), Key: showKey(key), Detail: detail}
	if key != "" {
		w.KeyType = typeNames[s.types[key]]
	}
	if rs != nil {
		w.Mode = "full"
		if rs.Fast {
			w.Mode = "fast"
		}
		w.Size = rs.Size
	}
	for _, f := range group {
		w.Group = append(w.Group, f.name())
	}
	return w
}

// violation reports (or, when probing, records) a violation; it returns true
// when the signature is a listed known finding, in which case the case goes on.
func (s *setRun) violation(sig, what string, w witness) bool {
	if s.probe {
		if s.firstSig == "" {
			s.firstSig, s.firstWhat = sig, what
		}
		s.bad = true
		return false
	}
	r.Count("violation:"+sig, 1)
	if r.Violation(sig, s.id, what, w) {
		return true
	}
	s.bad = true
	return false
}

// readSig picks the signature of a KeyCursor mismatch: the read path itself
// when the key already read wrongly before any compaction of this case touched
// it, the phase otherwise.
func (s *setRun) readSig(phase, key, cls string) string {
	// With more than 12 blocks of a key in the store the KeyCursor sorts its
	// block list with a comparator that is not a strict weak order (pdqsort
	// leaves insertion sort above 12 elements): a listed read-path defect whose
	// symptoms do not depend on the phase.
	if blocksOf(s.cur, key) > 12 {
		return "C09/keycursor/" + cls + "/over-12-blocks"
	}
	if phase == "read-before" || s.kcWrong[key] {
		return "C09/keycursor/" + cls
	}
	return "C09/" + phase + "/" + cls
}

// checkReads compares KeyCursor reads of every key with the model.
// phase names the moment ("read-before", "read-after-compaction", ...).
func (s *setRun) checkReads(fs *tsm1.FileStore, phase string, round int, rs *roundSpec, group []*mfile, onlyKeys []string, full bool) bool {
	keys := s.keys
	if onlyKeys != nil {
		keys = onlyKeys
	}
	ok := true
	// judge one read; returns false when the case must stop
	judge := func(key, dir string, want, got []pt, seekTo *int64) bool {
		d := diffPts(want, got)
		if d == "" {
			return true
		}
		cls := classify(want, sortedCopy(got), s.cur, key)
		if !strictlyAscending(got) {
			cls = "order"
		}
		what := fmt.Sprintf("%s: %s KeyCursor read of %s key %s differs from the written content: %s", phase, dir, typeNames[s.types[key]], showKey(key), d)
		if seekTo != nil {
			cls = "seek-" + cls
			what = fmt.Sprintf("%s: %s KeyCursor seek to %d of %s key %s differs from the written content: %s", phase, dir, *seekTo, typeNames[s.types[key]], showKey(key), d)
		}
		sig := s.readSig(phase, key, cls)
		s.kcWrong[key] = true
		if s.violation(sig, what, s.wit(round, rs, group, key, dir+": "+d)) {
			return true // listed finding: go on
		}
		ok = false
		return false
	}
	for ki, key := range keys {
		if s.skipKey[key] {
			continue
		}
		want := merged(s.cur, key)
		typ := s.types[key]
		flavour := (ki+int(s.cs.Seed&1))&1 == 0
		// ascending from the beginning of time
		got, nb, err := cursorRead(fs, key, typ, minNano, true, flavour)
		r.Count("keycursor_reads", 1)
		r.Count("keycursor_blocks_returned", int64(nb))
		if err != nil {
			s.violation("C09/keycursor/cursor-error", fmt.Sprintf("%s: ascending KeyCursor over key %s failed: %v", phase, showKey(key), err), s.wit(round, rs, group, key, err.Error()))
			return false
		}
		if !judge(key, "ascending", want, got, nil) {
			continue
		}
		if !full {
			continue
		}
		if blocksOf(s.cur, key) > 4000 {
			// the cursor's block bookkeeping is quadratic in the number of blocks of a key
			r.Count("descending_reads_skipped_over_4000_blocks", 1)
			continue
		}
		// descending from the end of time
		got, nb, err = cursorRead(fs, key, typ, maxNano, false, !flavour)
		r.Count("keycursor_reads", 1)
		r.Count("keycursor_blocks_returned", int64(nb))
		if err != nil {
			s.violation("C09/keycursor/cursor-error", fmt.Sprintf("%s: descending KeyCursor over key %s failed: %v", phase, showKey(key), err), s.wit(round, rs, group, key, err.Error()))
			return false
		}
		if !judge(key, "descending", want, reversed(got), nil) {
			continue
		}
		// a seek into the middle, both directions
		if len(want) > 1 && ki == int(uint64(s.cs.Seed)>>3)%len(keys) {
			mid := want[s.g.Intn(len(want))].T
			if s.g.Intn(2) == 0 && mid < maxNano {
				mid++ // possibly between two points
			}
			var wa, wd []pt
			for _, p := range want {
				if p.T >= mid {
					wa = append(wa, p)
				}
				if p.T <= mid {
					wd = append(wd, p)
				}
			}
			r.Count("keycursor_seeks", 2)
			ga, _, err := cursorRead(fs, key, typ, mid, true, flavour)
			if err == nil {
				ga = filterPts(ga, func(p pt) bool { return p.T >= mid })
				if !judge(key, "ascending", wa, ga, &mid) {
					continue
				}
			}
			gd, _, err := cursorRead(fs, key, typ, mid, false, flavour)
			if err == nil {
				gd = filterPts(gd, func(p pt) bool { return p.T <= mid })
				judge(key, "descending", wd, reversed(gd), &mid)
			}
		}
	}
	return ok
}

func blocksOf(files []*mfile, key string) int {
	n := 0
	for _, f := range files {
		n += len(f.keys[key])
	}
	return n
}

func filterPts(p []pt, keep func(pt) bool) []pt {
	var out []pt
	for _, x := range p {
		if keep(x) {
			out = append(out, x)
		}
	}
	return out
}

func sortedCopy(p []pt) []pt {
	out := append([]pt(nil), p...)
	sort.SliceStable(out, func(i, j int) bool { return out[i].T < out[j].T })
	return out
}

func strictlyAscending(p []pt) bool {
	for i := 1; i < len(p); i++ {
		if p[i].T <= p[i-1].T {
			return false
		}
	}
	return true
}

type inputImage struct {
	path string
	data []byte
}

func snapshotInputs(files []*mfile) []inputImage {
	var out []inputImage
	for _, f := range files {
		b, err := os.ReadFile(f.Path)
		if err != nil {
			hfail("read input %s: %v", f.Path, err)
		}
		out = append(out, inputImage{f.Path, b})
	}
	return out
}

// verifyOutputs checks structure and content of the files a compaction or
// snapshot returned against the model of its inputs. It returns the outputs as
// model files (named as they will be after Replace).
func (s *setRun) verifyOutputs(outs []string, group []*mfile, round int, rs *roundSpec, size int, snapshot bool) ([]*mfile, bool) {
	sigBase := "C09/output-structure/"
	if snapshot {
		sigBase = "C09/snapshot-structure/"
	}
	// blocks that may legitimately be passed through undecoded: input blocks no tombstone touches
	type bk struct {
		key      string
		min, max int64
		n        int
	}
	pass := map[bk]bool{}
	if !snapshot {
		for _, f := range group {
			for k, bs := range f.keys {
				for _, b := range bs {
					touched := false
					for _, t := range f.tombs[k] {
						if t.Min <= b.Max && t.Max >= b.Min {
							touched = true
						}
					}
					if !touched {
						pass[bk{k, b.Min, b.Max, b.N}] = true
					}
				}
			}
		}
	}
	var outFiles []*mfile
	ok := true
	for _, p := range outs {
		rf, err := readRaw(p)
		if err != nil {
			s.violation(sigBase+"unreadable-output", fmt.Sprintf("output file %s cannot be read back with a fresh TSMReader: %v", filepath.Base(p), err), s.wit(round, rs, group, "", err.Error()))
			return nil, false
		}
		if rf.Size > maxTSMFileSize {
			s.violation(sigBase+"file-over-size-limit", fmt.Sprintf("output file %s is %d bytes", filepath.Base(p), rf.Size), s.wit(round, rs, group, "", ""))
			ok = false
		}
		gen, seq, err := tsm1.DefaultParseFileName(p)
		if err != nil {
			s.violation(sigBase+"bad-output-name", fmt.Sprintf("output file name %s does not parse", filepath.Base(p)), s.wit(round, rs, group, "", ""))
			return nil, false
		}
		mf := &mfile{Gen: gen, Seq: seq, Path: strings.TrimSuffix(p, ".tmp"), keys: map[string][]mblock{}, tombs: map[string][]trange{}}
		for _, key := range rf.Keys {
			bs := rf.Blk[key]
			mf.keys[key] = bs
			r.Count("output_blocks_checked", int64(len(bs)))
			if want, known := s.types[key]; known && rf.Typ[key] != want {
				s.violation(sigBase+"wrong-type", fmt.Sprintf("key %s has block type %d in the output, written as %s", showKey(key), rf.Typ[key], typeNames[want]), s.wit(round, rs, group, key, ""))
				ok = false
			}
			if len(bs) > maxIndexEntries {
				s.violation(sigBase+"index-entries-over-limit", fmt.Sprintf("key %s has %d index entries in %s", showKey(key), len(bs), filepath.Base(p)), s.wit(round, rs, group, key, ""))
				ok = false
			}
			for i, b := range bs {
				if b.Min > b.Max || (i > 0 && b.Min <= bs[i-1].Max) {
					prev := "-"
					if i > 0 {
						prev = fmt.Sprintf("[%d,%d]", bs[i-1].Min, bs[i-1].Max)
					}
					d := fmt.Sprintf("index entry %d of key %s in %s is [%d,%d] after %s: entries are not strictly increasing and disjoint", i, showKey(key), filepath.Base(p), b.Min, b.Max, prev)
					s.violation(sigBase+"blocks-overlap-or-unsorted", d, s.wit(round, rs, group, key, d))
					ok = false
					break
				}
				inRange := b.N > 0 && b.pts[0].T >= b.Min && b.pts[b.N-1].T <= b.Max && strictlyAscending(b.pts)
				if !inRange {
					d := fmt.Sprintf("block %d of key %s in %s holds %d points that are not strictly increasing inside its index range [%d,%d]", i, showKey(key), filepath.Base(p), b.N, b.Min, b.Max)
					s.violation(sigBase+"block-outside-index-range", d, s.wit(round, rs, group, key, d))
					ok = false
					break
				}
				if b.N > size {
					if pass[bk{key, b.Min, b.Max, b.N}] {
						r.Count("output_blocks_passed_through_over_size", 1)
					} else {
						d := fmt.Sprintf("block %d of key %s in %s holds %d points, points-per-block is %d and no untouched input block [%d,%d]x%d exists that could have been passed through", i, showKey(key), filepath.Base(p), b.N, size, b.Min, b.Max, b.N)
						s.violation(sigBase+"block-over-points-per-block", d, s.wit(round, rs, group, key, d))
						ok = false
						break
					}
				}
			}
		}
		outFiles = append(outFiles, mf)
	}
	if len(outs) > 1 {
		r.Count("multi_file_outputs", 1)
	}
	// content: the outputs (engine order) against the inputs
	sortFiles(outFiles)
	sig := "C09/output-content/"
	if snapshot {
		sig = "C09/snapshot-content/"
	}
	allKeys := map[string]bool{}
	for _, k := range s.keys {
		allKeys[k] = true
	}
	for _, f := range outFiles {
		for k := range f.keys {
			allKeys[k] = true
		}
	}
	ks := make([]string, 0, len(allKeys))
	for k := range allKeys {
		ks = append(ks, k)
	}
	sort.Strings(ks)
	for _, key := range ks {
		want := merged(group, key)
		got := merged(outFiles, key)
		r.Count("points_compared_raw", int64(len(want)))
		if d := diffPts(want, got); d != "" {
			cls := classify(want, got, group, key)
			what := "compaction output"
			if snapshot {
				what = "snapshot file"
			}
			if blocksOf(group, key) > 20 {
				// sort.Stable leaves insertion sort above 20 elements and the
				// compactor's block comparator is not a strict weak order
				cls += "/over-20-blocks"
			}
			if s.violation(sig+cls, fmt.Sprintf("%s read back with fresh TSMReaders differs from the written content for key %s: %s", what, showKey(key), d), s.wit(round, rs, group, key, d)) {
				s.skipKey[key] = true // listed finding: this key is not judged any further in this case
				continue
			}
			ok = false
		}
	}
	return outFiles, ok
}

func pathsOf(files []*mfile) []string {
	out := make([]string, len(files))
	for i, f := range files {
		out[i] = f.Path
	}
	return out
}

// pickGroup returns a run of whole generations of cur.
func pickGroup(cur []*mfile, rs *roundSpec) []*mfile {
	if rs.All {
		return cur
	}
	var gens []int
	for _, f := range cur {
		if len(gens) == 0 || gens[len(gens)-1] != f.Gen {
			gens = append(gens, f.Gen)
		}
	}
	from := int(rs.FromFrac * float64(len(gens)))
	if from >= len(gens) {
		from = len(gens) - 1
	}
	l := 1 + int(rs.LenFrac*float64(len(gens)-from))
	if from+l > len(gens) {
		l = len(gens) - from
	}
	lo, hi := gens[from], gens[from+l-1]
	var out []*mfile
	for _, f := range cur {
		if f.Gen >= lo && f.Gen <= hi {
			out = append(out, f)
		}
	}
	return out
}

func patternSignature(group []*mfile, keys []string, size int) (sig string, nontrivial bool, stats map[string]int64) {
	stats = map[string]int64{}
	var parts []string
	for _, key := range keys {
		type iv struct {
			min, max int64
			f        int
		}
		var ivs []iv
		nf := 0
		full, short, tp, tw := false, false, false, false
		seen := map[int64]int{}
		eq := false
		for fi, f := range group {
			bs := f.keys[key]
			if len(bs) == 0 {
				continue
			}
			nf++
			for _, b := range bs {
				ivs = append(ivs, iv{b.Min, b.Max, fi})
				if b.N >= size {
					full = true
				} else {
					short = true
				}
				for _, t := range f.tombs[key] {
					if t.Min <= b.Max && t.Max >= b.Min {
						if t.Min <= b.Min && t.Max >= b.Max {
							tw = true
						} else {
							tp = true
						}
					}
				}
				for _, p := range b.pts {
					if o, ok := seen[p.T]; ok && o != fi {
						eq = true
					}
					seen[p.T] = fi
				}
			}
		}
		if nf == 0 {
			continue
		}
		ov := false
		for i := range ivs {
			for j := i + 1; j < len(ivs) && !ov; j++ {
				if ivs[i].f != ivs[j].f && ivs[i].min <= ivs[j].max && ivs[i].max >= ivs[j].min {
					ov = true
				}
			}
		}
		if nf > 3 {
			nf = 3
		}
		if ov {
			stats["keys_with_overlapping_files"]++
		}
		if eq {
			stats["keys_with_equal_timestamps_in_several_files"]++
		}
		if tp {
			stats["keys_with_partially_tombstoned_block"]++
		}
		if tw {
			stats["keys_with_wholly_tombstoned_block"]++
		}
		if ov || tp || tw {
			nontrivial = true
		}
		parts = append(parts, fmt.Sprintf("f%d,ov%t,eq%t,tp%t,tw%t,full%t,short%t", nf, ov, eq, tp, tw, full, short))
	}
	sort.Strings(parts)
	// collapse repeats
	var u []string
	for i, p := range parts {
		if i == 0 || parts[i-1] != p {
			u = append(u, p)
		}
	}
	return strings.Join(u, ";"), nontrivial, stats
}

func (s *setRun) applyTomb(op *tombOp, preOpen bool) {
	if op.Files == nil {
		if err := s.fs.DeleteRange(byteKeys(op.Keys), op.Min, op.Max); err != nil {
			hfail("FileStore.DeleteRange: %v", err)
		}
		r.Count("deletes_through_filestore", 1)
	} else {
		for _, fi := range op.Files {
			var err error
			if preOpen {
				err = applyTombFresh(s.cur[fi].Path, op)
			} else {
				err = applyTombLive(s.fs, s.cur[fi].Path, op)
			}
			if err != nil {
				hfail("delete on %s: %v", s.cur[fi].Path, err)
			}
			r.Count("deletes_through_tsmreader", 1)
		}
	}
	op.applyToModel(s.cur)
}

func runFileset(id string, cs *caseSpec, dir string, aborts, probe bool) *setRun {
	s := &setRun{probe: probe, id: id, cs: cs, dir: dir, types: map[string]int{}, g: rand.New(rand.NewSource(cs.Seed ^ 0x5eed)), kcWrong: map[string]bool{}, skipKey: map[string]bool{}}
	for _, k := range cs.Keys {
		s.types[k.Name] = k.Typ
		s.keys = append(s.keys, k.Name)
	}
	in := map[string]interface{}{"seed": cs.Seed, "files": len(cs.Files), "keys": len(cs.Keys), "rounds": cs.Rounds, "scale": cs.Scale, "layouts": cs.Layouts}
	if !probe {
		r.Begin(id, in)
		r.Eval(1)
	}

	for _, i := range cs.WriteOrder {
		writeModelFile(dir, cs.Files[i], s.types)
	}
	s.cur = append([]*mfile(nil), cs.Files...)
	sortFiles(s.cur)
	r.Count("input_files_written", int64(len(s.cur)))

	for i := range cs.Tombs {
		if op := &cs.Tombs[i]; !op.PostOpen && op.Files != nil {
			s.applyTomb(op, true)
		}
	}
	s.fs = tsm1.NewFileStore(dir)
	if err := s.fs.Open(); err != nil {
		hfail("FileStore.Open: %v", err)
	}
	defer func() { s.fs.Close() }()
	for i := range cs.Tombs {
		if op := &cs.Tombs[i]; op.PostOpen || op.Files == nil {
			s.applyTomb(op, false)
		}
	}

	if !s.checkReads(s.fs, "read-before", 0, nil, nil, nil, true) {
		return s
	}

	nontrivial := false
	var sigs []string
	for ri := range cs.Rounds {
		rs := &cs.Rounds[ri]
		if ri > 0 {
			for d := 0; d < rs.PreDeletes; d++ {
				op := genTomb(s.g, &caseSpec{Keys: cs.Keys, Files: s.cur, Universe: cs.Universe}, true)
				s.applyTomb(&op, false)
			}
			if rs.PreDeletes > 0 && !s.checkReads(s.fs, "read-before", ri, rs, nil, nil, false) {
				return s
			}
		}
		group := pickGroup(s.cur, rs)
		for _, k := range s.keys {
			switch n := blocksOf(group, k); {
			case n == 0:
			case n <= 20:
				r.Count("compacted_keys_with_at_most_20_blocks", 1)
			default:
				r.Count("compacted_keys_with_over_20_blocks", 1)
			}
			switch n := blocksOf(s.cur, k); {
			case n == 0:
			case n <= 12:
				r.Count("read_keys_with_at_most_12_blocks", 1)
			default:
				r.Count("read_keys_with_over_12_blocks", 1)
			}
		}
		sig, nt, stats := patternSignature(group, s.keys, rs.Size)
		for k, v := range stats {
			r.Count(k, v)
		}
		if !s.oneRound(ri, rs, group, aborts && ri == 0) {
			return s
		}
		mode := "full"
		if rs.Fast {
			mode = "fast"
		}
		sigs = append(sigs, fmt.Sprintf("%s/%d/%s", mode, rs.Size, sig))
		nontrivial = nontrivial || nt
	}

	// a fresh FileStore over the directory must read the same
	if cs.Seed%3 == 0 {
		s.fs.Close()
		fs2 := tsm1.NewFileStore(dir)
		if err := fs2.Open(); err != nil {
			s.violation("C09/read-after-reopen/open-error", "a fresh FileStore cannot open the directory after compaction: "+err.Error(), s.wit(len(cs.Rounds)-1, nil, nil, "", err.Error()))
			return s
		}
		s.fs = fs2
		if !s.checkReads(fs2, "read-after-reopen", len(cs.Rounds)-1, nil, nil, nil, true) {
			return s
		}
		r.Count("reopened_filestores_checked", 1)
	}
	if s.bad {
		return s
	}
	if nontrivial && !probe {
		r.Nontrivial(strings.Join(sigs, "|"))
	}
	if !probe && r.WantSample() && cs.Scale == "small" && len(cs.Files) <= 3 {
		r.Sample(map[string]interface{}{"case": id, "seed": cs.Seed, "rounds": cs.Rounds, "layouts": cs.Layouts, "inputs": describe(cs.Files), "final_files": describe(s.cur), "signature": sigs})
	}
	return s
}

func (s *setRun) compact(comp *tsm1.Compactor, fast bool, paths []string) ([]string, error) {
	if fast {
		return comp.CompactFast(paths)
	}
	return comp.CompactFull(paths)
}

// oneRound runs the abort / failure attempts and then the real compaction of group.
func (s *setRun) oneRound(ri int, rs *roundSpec, group []*mfile, aborts bool) bool {
	comp := tsm1.NewCompactor()
	comp.Dir = s.dir
	comp.FileStore = s.fs
	comp.Size = rs.Size
	comp.Open()
	defer comp.Close()
	paths := pathsOf(group)
	st := &hookState{comp: comp}
	hookStates.Store(s.dir, st)

	if aborts {
		images := snapshotInputs(group)
		// dry run: how many blocks does this compaction write?
		outs, err := s.compact(comp, rs.Fast, paths)
		total := atomic.LoadInt64(&st.n)
		if err != nil {
			return s.unexpectedFailure(ri, rs, group, images, err)
		}
		for _, o := range outs {
			os.Remove(o)
		}
		var ks []int64
		for k := int64(1); k <= total && k <= 20; k++ {
			ks = append(ks, k)
		}
		for i := 0; i < 3 && total > 20; i++ {
			ks = append(ks, 21+s.g.Int63n(total-20))
		}
		if total > 20 {
			ks = append(ks, total)
		}
		for ai, k := range ks {
			action := []int{actError, actDisableCompactions, actClose, actError, actDisableCompactions}[(ai+int(s.cs.Seed&3))%5]
			atomic.StoreInt64(&st.n, 0)
			atomic.StoreInt32(&st.fired, 0)
			st.k, st.action = k, action
			outs, err := s.compact(comp, rs.Fast, paths)
			st.k = 0
			fired := atomic.LoadInt32(&st.fired) == 1
			// put the compactor back into service
			if action == actClose && fired {
				comp.Open() // a closed compactor is reopened, as the engine does
			} else {
				comp.EnableCompactions()
				comp.EnableSnapshots()
			}
			if !fired {
				r.Inconclusive(fmt.Sprintf("case %s: compact.block was not reached %d times on the second run (first run: %d blocks)", s.id, k, total))
				for _, o := range outs {
					os.Remove(o)
				}
				continue
			}
			r.Count("aborts_"+actNames[action], 1)
			what := fmt.Sprintf("%s at block %d of %d", actNames[action], k, total)
			if err == nil {
				s.violation("C09/abort/no-error-returned", "compaction with "+what+" returned no error", s.wit(ri, rs, group, "", what))
				for _, o := range outs {
					os.Remove(o)
				}
				return false
			}
			if len(outs) > 0 {
				s.violation("C09/abort/files-returned", fmt.Sprintf("compaction with %s returned error %q together with %d output files", what, err, len(outs)), s.wit(ri, rs, group, "", what))
				return false
			}
			if !s.checkAfterFailure(ri, rs, group, images, what, ai == len(ks)-1) {
				return false
			}
		}
		// a reader-originated failure: the last key of the group is deleted from
		// the inputs (whole series, through the FileStore) once the compaction
		// has opened its block iterators; the iterators of the files that held
		// it then stop with an error inside Next()
		gkeys := map[string]bool{}
		for _, f := range group {
			for k := range f.keys {
				gkeys[k] = true
			}
		}
		if len(gkeys) >= 2 && total >= 2 && s.g.Intn(2) == 0 {
			var last string
			for k := range gkeys {
				if k > last {
					last = k
				}
			}
			// BlockIterator notices a delete when it moves on to another key. At
			// block 1 every input iterator sits on its file's first key, so the
			// failure is certain only if no input holds the deleted key as its
			// first key (the engine never deletes under a running compaction, it
			// stops compactions first; this is a way to make a reader fail).
			certain, detects := true, false
			for _, f := range group {
				if _, ok := f.keys[last]; !ok {
					continue
				}
				// a key without any tombstone in this file is surely in its index
				smaller := false
				for k := range f.keys {
					if k < last && len(f.tombs[k]) == 0 {
						smaller = true
					}
				}
				if !smaller {
					certain = false
				} else if len(f.tombs[last]) == 0 {
					detects = true
				}
			}
			certain = certain && detects
			if !certain {
				goto noDelete
			}
			atomic.StoreInt64(&st.n, 0)
			atomic.StoreInt32(&st.fired, 0)
			st.k, st.action, st.fs, st.delKey, st.delErr = 1, actDeleteKey, s.fs, last, nil
			outs, err := s.compact(comp, rs.Fast, paths)
			st.k = 0
			comp.EnableCompactions()
			comp.EnableSnapshots()
			what := fmt.Sprintf("whole-series delete of %s through the FileStore at block 1 of %d", showKey(last), total)
			switch {
			case atomic.LoadInt32(&st.fired) != 1:
				r.Inconclusive(fmt.Sprintf("case %s: compact.block was not reached for the delete-during-compaction attempt", s.id))
				for _, o := range outs {
					os.Remove(o)
				}
			case st.delErr != nil:
				hfail("FileStore.DeleteRange inside the compaction: %v", st.delErr)
			default:
				op := &tombOp{Keys: []string{last}, Min: math.MinInt64, Max: math.MaxInt64}
				op.applyToModel(s.cur)
				r.Count("aborts_"+actNames[actDeleteKey], 1)
				if err == nil {
					// tolerated only if the outputs hold exactly the inputs' remaining content
					r.Count("compactions_that_survived_a_concurrent_delete", 1)
					outFiles, ok := s.verifyOutputs(outs, group, ri, rs, rs.Size, false)
					for _, o := range outs {
						os.Remove(o)
					}
					if outFiles == nil || !ok {
						return false
					}
				} else {
					if len(outs) > 0 {
						s.violation("C09/abort/files-returned", fmt.Sprintf("compaction with %s returned error %q together with %d output files", what, err, len(outs)), s.wit(ri, rs, group, "", what))
						return false
					}
					if !s.checkAfterFailure(ri, rs, group, images, what, true) {
						return false
					}
				}
			}
		}
	noDelete:
		atomic.StoreInt64(&st.n, 0)
	}

	images := []inputImage(nil)
	outs, err := s.compact(comp, rs.Fast, paths)
	r.Count("hook_compact_block_reached", atomic.LoadInt64(&st.n))
	if err != nil {
		if images == nil {
			images = snapshotInputs(group)
		}
		return s.unexpectedFailure(ri, rs, group, images, err)
	}
	if rs.Fast {
		r.Count("compactions_fast", 1)
	} else {
		r.Count("compactions_full", 1)
	}
	r.Count(fmt.Sprintf("compactions_size_%d", rs.Size), 1)
	outFiles, ok := s.verifyOutputs(outs, group, ri, rs, rs.Size, false)
	if outFiles == nil {
		return false
	}
	if err := s.fs.Replace(paths, outs); err != nil {
		r.Inconclusive(fmt.Sprintf("case %s: FileStore.Replace failed: %v", s.id, err))
		return false
	}
	r.Count("replaces", 1)
	{
		want := map[string]bool{}
		inG := map[string]bool{}
		for _, p := range paths {
			inG[p] = true
		}
		for _, f := range s.cur {
			if !inG[f.Path] {
				want[f.Path] = true
			}
		}
		for _, o := range outs {
			want[strings.TrimSuffix(o, ".tmp")] = true
		}
		var got []string
		bad := false
		for _, f := range s.fs.Files() {
			got = append(got, filepath.Base(f.Path()))
			if !want[f.Path()] {
				bad = true
			}
			delete(want, f.Path())
		}
		if bad || len(want) > 0 {
			s.violation("C09/replace/file-set-wrong", fmt.Sprintf("after Replace the FileStore serves %v", got), s.wit(ri, rs, group, "", fmt.Sprint(got)))
			return false
		}
	}
	// new model: the files that were not compacted plus the outputs as read back
	inGroup := map[*mfile]bool{}
	for _, f := range group {
		inGroup[f] = true
	}
	var next []*mfile
	for _, f := range s.cur {
		if !inGroup[f] {
			next = append(next, f)
		}
	}
	if !ok {
		// outputs already reported as wrong; do not pile cursor reports on top
		return false
	}
	// The outputs were verified equal to their inputs (keys with a listed
	// output defect are no longer judged), so switching the model to the files
	// that are now on disk does not change the expected content: the reads
	// below are judged against what was written before the compaction.
	next = append(next, outFiles...)
	sortFiles(next)
	s.cur = next
	if !s.checkReads(s.fs, "read-after-compaction", ri, rs, group, nil, true) {
		return false
	}
	// the model switch must be neutral: outputs were verified equal to the inputs
	return true
}

func (s *setRun) unexpectedFailure(ri int, rs *roundSpec, group []*mfile, images []inputImage, err error) bool {
	r.Count("compactions_failed_without_injection", 1)
	r.Inconclusive(fmt.Sprintf("case %s (seed %d): compaction failed without an injected fault: %v", s.id, s.cs.Seed, err))
	s.checkAfterFailure(ri, rs, group, images, "failure without injection: "+err.Error(), true)
	return false
}

// checkAfterFailure: no temporary file, inputs byte-identical, still served by the FileStore, reads unchanged.
func (s *setRun) checkAfterFailure(ri int, rs *roundSpec, group []*mfile, images []inputImage, what string, fullRead bool) bool {
	if left := tmpLeft(s.dir); len(left) > 0 {
		s.violation("C09/abort/tmp-file-left", fmt.Sprintf("after %s the directory still holds %v", what, left), s.wit(ri, rs, group, "", what))
		for _, n := range left {
			os.Remove(filepath.Join(s.dir, n))
		}
		return false
	}
	for _, im := range images {
		b, err := os.ReadFile(im.path)
		if err != nil {
			s.violation("C09/abort/input-missing", fmt.Sprintf("after %s input %s cannot be read: %v", what, filepath.Base(im.path), err), s.wit(ri, rs, group, "", what))
			return false
		}
		if !bytes.Equal(b, im.data) {
			s.violation("C09/abort/input-changed", fmt.Sprintf("after %s input %s is no longer byte-identical", what, filepath.Base(im.path)), s.wit(ri, rs, group, "", what))
			return false
		}
		tr := s.fs.TSMReader(im.path)
		if tr == nil {
			s.violation("C09/abort/input-not-in-filestore", fmt.Sprintf("after %s the FileStore no longer serves %s", what, filepath.Base(im.path)), s.wit(ri, rs, group, "", what))
			return false
		}
		tr.Unref()
	}
	r.Count("failed_runs_checked", 1)
	var only []string
	if !fullRead {
		only = []string{s.keys[s.g.Intn(len(s.keys))]}
	}
	return s.checkReads(s.fs, "read-after-abort", ri, rs, group, only, false)
}

// genBigIndexCase: one key whose compaction writes more blocks than an index
// entry list can hold (65535), so the output must roll over to a second file.
func genBigIndexCase(seed int64, idx int) *caseSpec {
	g := rand.New(rand.NewSource(seed))
	typ := idx % 5
	cs := &caseSpec{Seed: seed, Scale: "bigidx", Layouts: []string{"interleave"}}
	cs.Keys = []keySpec{{"big,host=a#!~#v", typ}, {"small#!~#v", (typ + 1) % 5}}
	n := maxIndexEntries + 1 + g.Intn(3000)
	if idx%3 == 2 {
		n = maxIndexEntries + g.Intn(2) // exactly at / one over the limit
	}
	u := make([]int64, n)
	for i := range u {
		u[i] = 1000 + int64(i)*10
	}
	cs.Universe = u
	cs.Rounds = []roundSpec{{Fast: idx%2 == 1, Size: 1, All: true}}
	for fi := 0; fi < 2; fi++ {
		f := &mfile{Gen: fi + 1, Seq: 1, keys: map[string][]mblock{}, tombs: map[string][]trange{}}
		var blocks []mblock
		var cur mblock
		for i := fi; i < n; i += 2 {
			cur.pts = append(cur.pts, pt{u[i], mkValue(g, typ, fi, u[i])})
			if len(cur.pts) == 1000 {
				cur.N, cur.Min, cur.Max = len(cur.pts), cur.pts[0].T, cur.pts[len(cur.pts)-1].T
				blocks = append(blocks, cur)
				cur = mblock{}
			}
		}
		if len(cur.pts) > 0 {
			cur.N, cur.Min, cur.Max = len(cur.pts), cur.pts[0].T, cur.pts[len(cur.pts)-1].T
			blocks = append(blocks, cur)
		}
		f.keys[cs.Keys[0].Name] = blocks
		if fi == 1 {
			p := pt{5, mkValue(g, cs.Keys[1].Typ, fi, 5)}
			f.keys[cs.Keys[1].Name] = []mblock{{Min: 5, Max: 5, N: 1, pts: []pt{p}}}
		}
		cs.Files = append(cs.Files, f)
	}
	cs.WriteOrder = []int{0, 1}
	return cs
}

var _ = math.MaxInt64

// ---------------------------------------------------------------- fixed minimal reproductions

// fixedCases are the shrunk reproductions of the listed findings; they run
// first in every tier so that a listed finding is always shown on its
// smallest witness (and so that a fix shows up as the line disappearing).
func fixedCase(i int) *caseSpec {
	const key = "cpu,host=a#!~#v"
	mk := func(gen, seq, ord int, blocks [][]int64) *mfile {
		f := &mfile{Gen: gen, Seq: seq, keys: map[string][]mblock{}, tombs: map[string][]trange{}}
		for _, b := range blocks {
			mb := mblock{N: len(b), Min: b[0], Max: b[len(b)-1]}
			for _, t := range b {
				mb.pts = append(mb.pts, pt{t, float64(ord)*1000 + float64(t)})
			}
			f.keys[key] = append(f.keys[key], mb)
		}
		return f
	}
	single := func(ts ...int64) [][]int64 {
		var out [][]int64
		for _, t := range ts {
			out = append(out, []int64{t})
		}
		return out
	}
	cs := &caseSpec{Seed: int64(i), Keys: []keySpec{{key, tFloat}}, Scale: "fixed", Layouts: []string{"fixed"}}
	switch i {
	case 0:
		// KeyCursor: 14 blocks of one key in three files. The newest file
		// (gen 12 seq 3) holds t=2255; the cursor returns the value of gen 12 seq 2.
		cs.Files = []*mfile{
			mk(4, 1, 1, single(1428, 1879, 2255, 2815, 5495, 6281)),
			mk(12, 2, 6, [][]int64{{565}, {1879}, {2255, 2815}, {4670}, {6281}, {8256}}),
			mk(12, 3, 7, single(2255)),
		}
		cs.Rounds = []roundSpec{{Fast: false, Size: 2, All: true}}
	case 1:
		// Compactor: 41 blocks of one key in four files, full compaction with 1
		// point per block. The newest file (gen 8) holds t=41; the output keeps
		// the value of gen 5.
		b2 := single(6, 11, 16, 20, 24, 28, 30, 33, 35, 40)
		b2 = append(b2, []int64{41, 44}, []int64{47})
		cs.Files = []*mfile{
			mk(2, 5, 2, single(14, 16, 18, 20, 22, 24, 26, 28, 30, 39, 42, 43, 46)),
			mk(5, 2, 3, b2),
			mk(6, 1, 4, single(6, 10, 14, 15, 19, 20, 21, 23, 26, 29, 30, 31, 34, 36, 48)),
			mk(8, 1, 6, single(41)),
		}
		cs.Rounds = []roundSpec{{Fast: false, Size: 1, All: true}}
	default:
		return nil
	}
	for j := range cs.Files {
		cs.WriteOrder = append(cs.WriteOrder, j)
	}
	for t := int64(0); t < 9000; t++ {
		cs.Universe = append(cs.Universe, t)
	}
	return cs
}
