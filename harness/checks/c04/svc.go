package main

// Monitor (e): hh.Service. Blocks may be discarded only for the documented
// reasons. The service's purge ticker removes processors whose queue reports
// Empty(); the harness holds the target node active and the data young, so
// any removal of a queue with pending blocks is an undocumented discard.

import (
	"fmt"
	"math/rand"
	"os"
	"path/filepath"
	"sync"
	"time"

	"github.com/influxdata/influxdb/models"
	"github.com/influxdata/influxdb/services/hh"
	"github.com/influxdata/influxdb/toml"
)

type svcWriter struct {
	mu       sync.Mutex
	gate     chan struct{} // first call waits here
	calls    int
	failed   int
	up       bool
	got      map[uint64][]uint64 // node -> delivered ids
	failedCh chan struct{}
	once     sync.Once
}

func (w *svcWriter) WriteShardBinary(shardID, ownerID uint64, points [][]byte) error {
	w.mu.Lock()
	first := w.calls == 0
	w.calls++
	w.mu.Unlock()
	if first && w.gate != nil {
		<-w.gate
	}
	w.mu.Lock()
	defer w.mu.Unlock()
	if !first && !w.up {
		w.failed++
		w.once.Do(func() { close(w.failedCh) })
		return errRetry
	}
	for _, pb := range points {
		p, err := models.NewPointFromBytes(pb)
		if err != nil {
			continue
		}
		f, _ := p.Fields()
		v, _ := f["id"].(int64)
		w.got[ownerID] = append(w.got[ownerID], uint64(v))
	}
	return nil
}

func (w *svcWriter) delivered(node uint64) []uint64 {
	w.mu.Lock()
	defer w.mu.Unlock()
	return append([]uint64(nil), w.got[node]...)
}

func idPoint(id uint64) models.Point {
	p, err := models.NewPoint("m", models.NewTags(map[string]string{"k": "v"}), models.Fields{"id": int64(id)}, time.Unix(0, int64(id)))
	if err != nil {
		harnessFatal("NewPoint: %v", err)
	}
	return p
}

// runSvcPurge: three blocks are queued for an active node; the first delivery
// succeeds, later ones fail retryably until the harness has seen one failure.
// A send rate limit makes the processor pause right after its first Advance.
func runSvcPurge(caseID string, seed int64, root string) {
	g := rand.New(rand.NewSource(seed))
	dir := filepath.Join(root, "svc-"+fmt.Sprint(seed&0xffffffffff))
	os.RemoveAll(dir)
	defer os.RemoveAll(dir)
	nblocks := 3 + g.Intn(3)
	r.Begin(caseID, map[string]interface{}{"seed": seed, "blocks": nblocks})
	r.Eval(1)

	cfg := hh.NewConfig()
	cfg.Dir = dir
	cfg.RetryInterval = toml.Duration(5 * time.Millisecond)
	cfg.RetryMaxInterval = toml.Duration(10 * time.Millisecond)
	cfg.PurgeInterval = toml.Duration(25 * time.Millisecond)
	cfg.MaxAge = toml.Duration(time.Hour)
	cfg.RetryRateLimit = 1 // bytes per second: the send loop sleeps ~1s after a successful block
	w := &svcWriter{gate: make(chan struct{}), got: map[uint64][]uint64{}, failedCh: make(chan struct{})}
	svc := hh.NewService(cfg, w)
	svc.MetaClient = &metaDouble{active: 1}
	if err := svc.Open(); err != nil {
		r.Violation("C04/open-fails/service", caseID, "Service.Open failed: "+err.Error(), nil)
		return
	}
	defer svc.Close()
	const shard, node = 7, 3
	var accepted []uint64
	for i := 0; i < nblocks; i++ {
		id := uint64(i + 1)
		if err := svc.WriteShard(shard, node, []models.Point{idPoint(id)}); err != nil {
			close(w.gate)
			harnessFatal("Service.WriteShard: %v", err)
		}
		accepted = append(accepted, id)
	}
	qdir := filepath.Join(dir, fmt.Sprint(node), fmt.Sprint(shard))
	close(w.gate) // let the first delivery succeed now that all blocks are queued

	// wait until a later delivery has failed once (the pause after the first
	// Advance is over), then bring the target back
	purged := false
	deadline := time.Now().Add(60 * time.Second)
	failedSeen := false
	for !failedSeen {
		select {
		case <-w.failedCh:
			failedSeen = true
		case <-time.After(5 * time.Millisecond):
			if _, err := os.Stat(qdir); os.IsNotExist(err) {
				purged = true
				failedSeen = true
			}
			if time.Now().After(deadline) {
				r.Inconclusive(caseID + ": no second delivery attempt within the watchdog")
				return
			}
		}
	}
	w.mu.Lock()
	w.up = true
	w.mu.Unlock()
	// now either everything is delivered or the queue directory disappears
	for {
		d := w.delivered(node)
		if len(d) >= len(accepted) {
			break
		}
		if _, err := os.Stat(qdir); os.IsNotExist(err) {
			purged = true
			// give an in-flight delivery a moment to be recorded, then judge
			time.Sleep(20 * time.Millisecond)
			break
		}
		if time.Now().After(deadline) {
			r.Inconclusive(caseID + ": blocks neither delivered nor purged within the watchdog")
			return
		}
		time.Sleep(2 * time.Millisecond)
	}
	d := w.delivered(node)
	got := map[uint64]bool{}
	for _, id := range d {
		got[id] = true
	}
	missing := 0
	for _, id := range accepted {
		if !got[id] {
			missing++
		}
	}
	r.Count("svc_purge_cases", 1)
	if purged && missing > 0 {
		r.Count("svc_nonempty_queue_purged", 1)
		r.Violation("C04/service/nonempty-queue-purged-for-active-node", caseID,
			fmt.Sprintf("the service's purge ticker removed the queue of an active node holding %d accepted, undelivered blocks younger than MaxAge (Empty() reported true right after an Advance)", missing),
			map[string]interface{}{"case_seed": seed, "accepted": accepted, "delivered": d, "queue_dir": qdir,
				"schedule": "WriteShard x n; first SendWrite succeeds and advances; send loop pauses (rate limit); purge ticker evaluates Empty(); next SendWrite fails retryably; processor closed and its directory removed"})
		return
	}
	if missing > 0 {
		r.Violation("C04/service/accepted-blocks-not-delivered", caseID, fmt.Sprintf("%d accepted blocks were not delivered although the node is active and the queue still exists", missing), map[string]interface{}{"case_seed": seed, "accepted": accepted, "delivered": d})
		return
	}
	for i := range accepted {
		if i >= len(d) || d[i] != accepted[i] {
			// duplicates are possible only for a block re-sent after a failure; order must hold
			break
		}
	}
	r.Count("svc_all_delivered", 1)
	r.Nontrivial(fmt.Sprintf("svc-purge|%d", nblocks))
}

// runSvcRemove: RemoveNode may discard the removed node's blocks only.
func runSvcRemove(caseID string, seed int64, root string) {
	g := rand.New(rand.NewSource(seed))
	dir := filepath.Join(root, "svr-"+fmt.Sprint(seed&0xffffffffff))
	os.RemoveAll(dir)
	defer os.RemoveAll(dir)
	r.Begin(caseID, map[string]interface{}{"seed": seed})
	r.Eval(1)
	cfg := hh.NewConfig()
	cfg.Dir = dir
	cfg.RetryInterval = toml.Duration(3 * time.Millisecond)
	cfg.RetryMaxInterval = toml.Duration(6 * time.Millisecond)
	cfg.PurgeInterval = toml.Duration(time.Hour)
	cfg.MaxAge = toml.Duration(time.Hour)
	w := &svcWriter{got: map[uint64][]uint64{}, failedCh: make(chan struct{})}
	w.calls = 1 // no gate; every call fails until up
	svc := hh.NewService(cfg, w)
	svc.MetaClient = &metaDouble{active: 1}
	if err := svc.Open(); err != nil {
		r.Violation("C04/open-fails/service", caseID, "Service.Open failed: "+err.Error(), nil)
		return
	}
	defer svc.Close()
	n := 4 + g.Intn(8)
	var keep []uint64
	for i := 0; i < n; i++ {
		id := uint64(i + 1)
		node := uint64(2 + i%2)
		if err := svc.WriteShard(7+uint64(i%3), node, []models.Point{idPoint(id)}); err != nil {
			harnessFatal("Service.WriteShard: %v", err)
		}
		if node == 3 {
			keep = append(keep, id)
		}
	}
	if err := svc.RemoveNode(2); err != nil {
		r.Violation("C04/service/remove-node-error", caseID, "RemoveNode failed: "+err.Error(), nil)
		return
	}
	w.mu.Lock()
	w.up = true
	w.mu.Unlock()
	deadline := time.Now().Add(60 * time.Second)
	for len(w.delivered(3)) < len(keep) {
		if time.Now().After(deadline) {
			d := w.delivered(3)
			if _, err := os.Stat(filepath.Join(dir, "3")); os.IsNotExist(err) {
				r.Violation("C04/service/remove-node-discarded-other-nodes-blocks", caseID, fmt.Sprintf("RemoveNode(2) left no queue for node 3, %d of its %d accepted blocks were never delivered", len(keep)-len(d), len(keep)), map[string]interface{}{"case_seed": seed})
				return
			}
			r.Inconclusive(caseID + ": node 3 blocks not delivered within the watchdog")
			return
		}
		time.Sleep(2 * time.Millisecond)
	}
	got := map[uint64]bool{}
	for _, id := range w.delivered(3) {
		got[id] = true
	}
	for _, id := range keep {
		if !got[id] {
			r.Violation("C04/service/remove-node-discarded-other-nodes-blocks", caseID, "a block queued for node 3 was lost when node 2 was removed", map[string]interface{}{"case_seed": seed})
			return
		}
	}
	r.Count("svc_remove_node_cases", 1)
	r.Count("svc_blocks_discarded_removed_node", int64(n-len(keep)))
	r.Nontrivial(fmt.Sprintf("svc-remove|%d", n))
}
