package main

// Monitor (e): hh.Service. Blocks may be discarded only for the documented
// reasons. The service's purge ticker closes and removes processors whose
// queue reports Empty(); the harness keeps the target node active and the data
// young, so an accepted block that is neither delivered nor on disk after
// Service.Close() was discarded without a documented reason.

import (
	"encoding/binary"
	"fmt"
	"io"
	"math/rand"
	"os"
	"path/filepath"
	"sync"
	"sync/atomic"
	"time"

	"github.com/influxdata/influxdb/models"
	"github.com/influxdata/influxdb/services/hh"
	"github.com/influxdata/influxdb/toml"
)

type svcWriter struct {
	mu       sync.Mutex
	okFirst  int  // this many calls succeed before the target "goes down"
	up       bool // target is back
	calls    int
	failed   int
	acks     int
	got      map[uint64][]uint64 // node -> delivered ids
	failedCh chan struct{}
	once     sync.Once
}

func newSvcWriter(okFirst int, up bool) *svcWriter {
	return &svcWriter{okFirst: okFirst, up: up, got: map[uint64][]uint64{}, failedCh: make(chan struct{})}
}

func (w *svcWriter) WriteShardBinary(shardID, ownerID uint64, points [][]byte) error {
	w.mu.Lock()
	defer w.mu.Unlock()
	w.calls++
	if !w.up && w.calls > w.okFirst {
		w.failed++
		w.once.Do(func() { close(w.failedCh) })
		return errRetry
	}
	for _, pb := range points {
		if id, ok := pointID(pb); ok {
			w.got[ownerID] = append(w.got[ownerID], id)
		}
	}
	w.acks++
	return nil
}

func (w *svcWriter) nacks() int {
	w.mu.Lock()
	defer w.mu.Unlock()
	return w.acks
}

// advanceCounter counts hh.advance hook firings (head pointer moves) in the
// given queue directories. Every move must follow an acknowledged delivery; the
// surplus is the number of blocks skipped by SendWrite's Advance-on-EOF racing
// with a WriteShard (listed finding), which the service cases must not blame
// on the purge ticker or on RemoveNode.
func advanceCounter(dirs []string) (count *int32, stop func()) {
	count = new(int32)
	for _, d := range dirs {
		observe(d, func(name string, args []interface{}) {
			if name == "hh.advance" {
				atomic.AddInt32(count, 1)
			}
		})
	}
	return count, func() {
		for _, d := range dirs {
			unobserve(d)
		}
	}
}

// reportSvcLoss files lost blocks: first those explained by observed
// Advance-on-EOF skips, the rest under the case's own signature.
func reportSvcLoss(caseID string, lost []uint64, skips int, sig, what string, wit map[string]interface{}) {
	if len(lost) == 0 {
		return
	}
	wit["lost"] = trimU64(lost, 32)
	wit["advances_without_acknowledged_delivery"] = skips
	if skips > 0 {
		r.Violation("C04/service/accepted-block-lost/skipped-by-advance-after-stale-eof", caseID,
			fmt.Sprintf("%d accepted blocks are neither delivered nor on disk; the head pointer moved %d times without an acknowledged delivery (SendWrite's Advance after Current()==EOF skipped a block appended in between)", len(lost), skips), wit)
	}
	if len(lost) > skips {
		r.Violation(sig, caseID, what, wit)
	}
}

func pointID(pb []byte) (uint64, bool) {
	p, err := models.NewPointFromBytes(pb)
	if err != nil {
		return 0, false
	}
	f, err := p.Fields()
	if err != nil {
		return 0, false
	}
	v, ok := f["id"].(int64)
	return uint64(v), ok
}

func (w *svcWriter) delivered() map[uint64]bool {
	w.mu.Lock()
	defer w.mu.Unlock()
	out := map[uint64]bool{}
	for _, l := range w.got {
		for _, id := range l {
			out[id] = true
		}
	}
	return out
}

func (w *svcWriter) setUp() {
	w.mu.Lock()
	w.up = true
	w.mu.Unlock()
}

func idPoint(id uint64) models.Point {
	p, err := models.NewPoint("m", models.NewTags(map[string]string{"k": "v"}), models.Fields{"id": int64(id)}, time.Unix(0, int64(id)))
	if err != nil {
		harnessFatal("NewPoint: %v", err)
	}
	return p
}

// idsOnDisk reads, after the service is closed, every block still stored under
// the hinted-handoff root and returns the harness ids found.
func idsOnDisk(root string) map[uint64]bool {
	out := map[uint64]bool{}
	nodes, _ := os.ReadDir(root)
	for _, n := range nodes {
		shards, _ := os.ReadDir(filepath.Join(root, n.Name()))
		for _, sh := range shards {
			dir := filepath.Join(root, n.Name(), sh.Name())
			q, err := hh.NewVerifQueue(dir, 1<<40, 8)
			if err != nil || q.Open() != nil {
				continue
			}
			eofs := 0
			for guard := 0; guard < 100000 && eofs < 4; guard++ {
				b, err := q.Current()
				if err == io.EOF {
					eofs++
					q.Advance()
					continue
				}
				if err != nil {
					break
				}
				eofs = 0
				if len(b) >= 8 {
					blk := b[8:]
					for len(blk) >= 4 {
						k := int(binary.BigEndian.Uint32(blk[:4]))
						if 4+k > len(blk) {
							break
						}
						if id, ok := pointID(blk[4 : 4+k]); ok {
							out[id] = true
						}
						blk = blk[4+k:]
					}
				}
				q.Advance()
			}
			q.Close()
		}
	}
	return out
}

// closeService calls Service.Close under a watchdog. Service.Close holds the
// service mutex while it waits for the purge goroutine, and that goroutine
// takes the same mutex on every tick: with the short purge intervals used here
// Close deadlocks regularly (after it has closed every processor, which is all
// the accounting below needs). The watchdog is not a verdict.
func closeService(svc *hh.Service, patience time.Duration) {
	done := make(chan struct{})
	go func() { svc.Close(); close(done) }()
	select {
	case <-done:
	case <-time.After(patience):
		r.Count("svc_close_did_not_return_mutex_held_while_waiting_for_purge_goroutine", 1)
	}
}

// runSvcPurge: several blocks are queued for an active node; the first
// delivery succeeds, later ones fail retryably until one failure was seen. A
// send rate limit makes the processor pause right after its first Advance,
// which is when the purge ticker asks the queue whether it is empty.
func runSvcPurge(caseID string, seed int64, root string) {
	g := rand.New(rand.NewSource(seed))
	dir := filepath.Join(root, "svc-"+fmt.Sprint(seed&0xffffffffff))
	os.RemoveAll(dir)
	defer os.RemoveAll(dir)
	nblocks := 3 + g.Intn(2)
	r.Begin(caseID, map[string]interface{}{"seed": seed, "blocks": nblocks})
	r.Eval(1)

	cfg := hh.NewConfig()
	cfg.Dir = dir
	// NodeProcessor.run re-arms both timers on every pass, so the send timer only
	// ever fires when it is shorter than the purge timer.
	cfg.RetryInterval = toml.Duration(120 * time.Millisecond) // first send after all blocks are queued
	cfg.RetryMaxInterval = toml.Duration(120 * time.Millisecond)
	cfg.PurgeInterval = toml.Duration(170 * time.Millisecond)
	cfg.MaxAge = toml.Duration(time.Hour)
	cfg.RetryRateLimit = 1 // bytes per second: the send loop sleeps ~1s after a successful block
	w := newSvcWriter(1, false)
	svc := hh.NewService(cfg, w)
	svc.MetaClient = &metaDouble{active: 1}
	if err := svc.Open(); err != nil {
		r.Violation("C04/open-fails/service", caseID, "Service.Open failed: "+err.Error(), nil)
		return
	}
	closed := false
	defer func() {
		if !closed {
			closeService(svc, 10*time.Second)
		}
	}()
	const shard, node = 7, 3
	advs, stopObs := advanceCounter([]string{filepath.Join(dir, fmt.Sprint(node), fmt.Sprint(shard))})
	defer stopObs()
	var accepted []uint64
	refused := 0
	for i := 0; len(accepted) < nblocks && i < nblocks+20; i++ {
		id := uint64(i + 1)
		if err := svc.WriteShard(shard, node, []models.Point{idPoint(id)}); err != nil {
			refused++ // e.g. "node processor is closed": the ticker removed the still empty processor
			continue
		}
		accepted = append(accepted, id)
	}
	qdir := filepath.Join(dir, fmt.Sprint(node), fmt.Sprint(shard))
	deadline := time.Now().Add(90 * time.Second)
	gone := func() bool { _, err := os.Stat(qdir); return os.IsNotExist(err) }
	// wait until a delivery has failed (the pause after the first Advance is over) or the queue vanished
	for waiting := true; waiting; {
		select {
		case <-w.failedCh:
			waiting = false
		case <-time.After(5 * time.Millisecond):
			if gone() {
				waiting = false
			} else if time.Now().After(deadline) {
				r.Inconclusive(caseID + ": no second delivery attempt within the watchdog")
				return
			}
		}
	}
	w.setUp()
	sawGone := false
	for {
		d := w.delivered()
		all := true
		for _, id := range accepted {
			all = all && d[id]
		}
		if all {
			break
		}
		if gone() {
			sawGone = true
			time.Sleep(20 * time.Millisecond) // an in-flight delivery may still be recorded
			break
		}
		if time.Now().After(deadline) {
			r.Inconclusive(caseID + ": blocks neither delivered nor purged within the watchdog")
			return
		}
		time.Sleep(2 * time.Millisecond)
	}
	closeService(svc, 10*time.Second)
	closed = true
	d, disk := w.delivered(), idsOnDisk(dir)
	var lost []uint64
	for _, id := range accepted {
		if !d[id] && !disk[id] {
			lost = append(lost, id)
		}
	}
	r.Count("svc_purge_cases", 1)
	r.Count("svc_writes_refused", int64(refused))
	if len(lost) > 0 {
		sig := "C04/service/accepted-blocks-lost"
		what := fmt.Sprintf("%d accepted blocks for an active node, younger than MaxAge, are neither delivered nor on disk after Service.Close()", len(lost))
		if sawGone && !d[accepted[0]] {
			// nothing was ever delivered, so no Advance preceded the purge: the ticker
			// met the still empty queue while the first write was on its way
			sig = "C04/service/block-lost-when-purge-ticker-removes-queue-during-write"
			what = fmt.Sprintf("the purge ticker removed a queue it had seen empty while a write was being accepted: %d accepted blocks are neither delivered nor on disk", len(lost))
		} else if sawGone {
			sig = "C04/service/nonempty-queue-purged-for-active-node"
			what = fmt.Sprintf("the purge ticker removed the queue of an active node right after its first block was delivered and advanced, while %d accepted blocks younger than MaxAge were pending (Empty() reported true)", len(lost))
			r.Count("svc_nonempty_queue_purged", 1)
		}
		reportSvcLoss(caseID, lost, int(atomic.LoadInt32(advs))-w.nacks(), sig, what, map[string]interface{}{"case_seed": seed, "accepted": accepted, "queue_dir_removed": sawGone,
			"schedule": "WriteShard x n; first SendWrite succeeds and advances; send loop pauses (retry-rate-limit); purge ticker evaluates Empty(); next SendWrite fails retryably; processor closed and its directory removed"})
		return
	}
	r.Count("svc_all_accounted_for", 1)
	r.Nontrivial(fmt.Sprintf("svc-purge|%d", nblocks))
}

// runSvcChurn: single blocks are written to queues that the purge ticker keeps
// removing as soon as they are empty; the target always accepts. Every block
// whose WriteShard returned nil must be delivered or still on disk.
func runSvcChurn(caseID string, seed int64, root string) {
	g := rand.New(rand.NewSource(seed))
	dir := filepath.Join(root, "svh-"+fmt.Sprint(seed&0xffffffffff))
	os.RemoveAll(dir)
	defer os.RemoveAll(dir)
	n := 60 + g.Intn(60)
	r.Begin(caseID, map[string]interface{}{"seed": seed, "writes": n})
	r.Eval(1)
	cfg := hh.NewConfig()
	cfg.Dir = dir
	cfg.RetryInterval = toml.Duration(time.Millisecond)
	cfg.RetryMaxInterval = toml.Duration(time.Millisecond)
	cfg.PurgeInterval = toml.Duration(time.Duration(2+g.Intn(3)) * time.Millisecond)
	cfg.MaxAge = toml.Duration(time.Hour)
	w := newSvcWriter(0, true)
	svc := hh.NewService(cfg, w)
	svc.MetaClient = &metaDouble{active: 1}
	if err := svc.Open(); err != nil {
		r.Violation("C04/open-fails/service", caseID, "Service.Open failed: "+err.Error(), nil)
		return
	}
	var qdirs []string
	for i := 0; i < n; i++ {
		qdirs = append(qdirs, filepath.Join(dir, "3", fmt.Sprint(100+i)))
	}
	advs, stopObs := advanceCounter(qdirs)
	defer stopObs()
	var accepted []uint64
	refused := 0
	pairs := n // one block per queue: Empty() is then only asked about queues with 0 or 1 block
	for i := 0; i < n; i++ {
		id := uint64(i + 1)
		if err := svc.WriteShard(uint64(100+i), 3, []models.Point{idPoint(id)}); err != nil {
			refused++
			continue
		}
		accepted = append(accepted, id)
		if g.Intn(3) == 0 {
			time.Sleep(time.Duration(g.Intn(3000)) * time.Microsecond) // let queues drain and get purged
		}
	}
	// give the send loops a moment (not a verdict: the accounting below is positive evidence)
	deadline := time.Now().Add(5 * time.Second)
	for time.Now().Before(deadline) {
		d := w.delivered()
		all := true
		for _, id := range accepted {
			all = all && d[id]
		}
		if all {
			break
		}
		time.Sleep(5 * time.Millisecond)
	}
	closeService(svc, 3*time.Second)
	d, disk := w.delivered(), idsOnDisk(dir)
	var lost []uint64
	for _, id := range accepted {
		if !d[id] && !disk[id] {
			lost = append(lost, id)
		}
	}
	r.Count("svc_churn_cases", 1)
	r.Count("svc_churn_accepted", int64(len(accepted)))
	r.Count("svc_writes_refused", int64(refused))
	if len(lost) > 0 {
		reportSvcLoss(caseID, lost, int(atomic.LoadInt32(advs))-w.nacks(), "C04/service/block-lost-when-purge-ticker-removes-queue-during-write",
			fmt.Sprintf("%d of %d blocks whose Service.WriteShard returned nil are neither delivered nor on disk after Service.Close(): the purge ticker saw an empty queue, a write was accepted, then the queue directory was removed", len(lost), len(accepted)),
			map[string]interface{}{"case_seed": seed, "accepted": len(accepted), "refused": refused})
		return
	}
	if len(accepted) > 0 {
		r.Nontrivial(fmt.Sprintf("svc-churn|%d", pairs/10))
	}
}

// runSvcRemove: RemoveNode may discard the removed node's blocks only.
func runSvcRemove(caseID string, seed int64, root string) {
	g := rand.New(rand.NewSource(seed))
	dir := filepath.Join(root, "svr-"+fmt.Sprint(seed&0xffffffffff))
	os.RemoveAll(dir)
	defer os.RemoveAll(dir)
	r.Begin(caseID, map[string]interface{}{"seed": seed})
	r.Eval(1)
	cfg := hh.NewConfig()
	cfg.Dir = dir
	cfg.RetryInterval = toml.Duration(3 * time.Millisecond)
	cfg.RetryMaxInterval = toml.Duration(6 * time.Millisecond)
	cfg.PurgeInterval = toml.Duration(time.Hour)
	cfg.MaxAge = toml.Duration(time.Hour)
	w := newSvcWriter(0, false) // target down until the node removal is done
	svc := hh.NewService(cfg, w)
	svc.MetaClient = &metaDouble{active: 1}
	if err := svc.Open(); err != nil {
		r.Violation("C04/open-fails/service", caseID, "Service.Open failed: "+err.Error(), nil)
		return
	}
	var qdirs []string
	for _, nd := range []int{2, 3} {
		for _, sh := range []int{7, 8, 9} {
			qdirs = append(qdirs, filepath.Join(dir, fmt.Sprint(nd), fmt.Sprint(sh)))
		}
	}
	advs, stopObs := advanceCounter(qdirs)
	defer stopObs()
	n := 4 + g.Intn(8)
	var keep []uint64
	for i := 0; i < n; i++ {
		id := uint64(i + 1)
		node := uint64(2 + i%2)
		if err := svc.WriteShard(7+uint64(i%3), node, []models.Point{idPoint(id)}); err != nil {
			harnessFatal("Service.WriteShard: %v", err)
		}
		if node == 3 {
			keep = append(keep, id)
		}
	}
	if err := svc.RemoveNode(2); err != nil {
		closeService(svc, 10*time.Second)
		r.Violation("C04/service/remove-node-error", caseID, "RemoveNode failed: "+err.Error(), nil)
		return
	}
	w.setUp()
	deadline := time.Now().Add(5 * time.Second)
	for time.Now().Before(deadline) {
		d := w.delivered()
		all := true
		for _, id := range keep {
			all = all && d[id]
		}
		if all {
			break
		}
		time.Sleep(2 * time.Millisecond)
	}
	closeService(svc, 10*time.Second)
	d, disk := w.delivered(), idsOnDisk(dir)
	var lost []uint64
	for _, id := range keep {
		if !d[id] && !disk[id] {
			lost = append(lost, id)
		}
	}
	if len(lost) > 0 {
		reportSvcLoss(caseID, lost, int(atomic.LoadInt32(advs))-w.nacks(), "C04/service/remove-node-discarded-other-nodes-blocks",
			fmt.Sprintf("%d blocks queued for node 3 are neither delivered nor on disk after node 2 was removed", len(lost)), map[string]interface{}{"case_seed": seed})
		return
	}
	r.Count("svc_remove_node_cases", 1)
	r.Count("svc_blocks_discarded_removed_node", int64(n-len(keep)))
	r.Nontrivial(fmt.Sprintf("svc-remove|%d", n))
}
