package main

// Monitor (a): sequential histories through the VerifQueue handle against a
// FIFO model of unique block ids.

import (
	"bytes"
	"fmt"
	"io"
	"math/rand"
	"os"
	"path/filepath"
	"time"

	"github.com/influxdata/influxdb/services/hh"
)

type mEntry struct {
	id   uint64
	data []byte
	seg  string // segment file that holds the block (from hh.flush.before)
}

type seqOp struct {
	Op  string `json:"op"`
	Arg int64  `json:"arg,omitempty"`
	ID  uint64 `json:"id,omitempty"`
	Res string `json:"res,omitempty"`
}

type seqCase struct {
	caseID  string
	seed    int64
	g       *rand.Rand
	dir     string
	q       *hh.VerifQueue
	maxSeg  int64
	maxSize int64
	model   []mEntry
	done    map[uint64]bool // advanced ids
	nextID  uint64
	ops     []seqOp
	ctx     string // last operation that moved the head position / file offset / segment list

	lastFlushPath string
	flushes       int

	maxSegFiles       int
	advancedWithPend  bool
	reopens, purges   int
	resizes, rejected int
	loweredBelowBlock bool
	stop              bool
}

// purgeEpoch is a fixed instant far in the past: segment mtimes are set
// around it with os.Chtimes, files created by the queue itself are newer.
var purgeEpoch = time.Date(2015, 6, 1, 12, 0, 0, 0, time.UTC)

func (s *seqCase) witness() interface{} {
	ops := s.ops
	if len(ops) > 400 {
		ops = ops[len(ops)-400:]
	}
	pend := make([]uint64, 0, len(s.model))
	for _, e := range s.model {
		pend = append(pend, e.id)
	}
	return map[string]interface{}{"case_seed": s.seed, "max_segment_size": s.maxSeg, "max_size": s.maxSize, "ops": ops, "model_pending": pend, "segment_files": len(segFiles(s.dir))}
}

func (s *seqCase) violation(sig, what string) {
	known := r.Violation(sig, s.caseID, what, s.witness())
	if !known {
		s.stop = true
	}
}

func (s *seqCase) log(op string, arg int64, id uint64, res string) {
	s.ops = append(s.ops, seqOp{op, arg, id, res})
}

func (s *seqCase) hook(name string, args []interface{}) {
	if name == "hh.flush.before" {
		s.lastFlushPath = args[0].(string)
		s.flushes++
	}
}

func (s *seqCase) nseg() int {
	n := len(segFiles(s.dir))
	if n > s.maxSegFiles {
		s.maxSegFiles = n
	}
	return n
}

func (s *seqCase) open(first bool) bool {
	q, err := hh.NewVerifQueue(s.dir, s.maxSize, 64)
	if err != nil {
		harnessFatal("NewVerifQueue: %v", err)
	}
	if err := q.Open(); err != nil {
		s.violation("C04/open-fails/clean-reopen", fmt.Sprintf("Open of a cleanly closed queue failed: %v", err))
		s.stop = true
		return false
	}
	s.q = q
	if first || s.g.Intn(5) > 0 {
		if err := q.SetMaxSegmentSize(s.maxSeg); err != nil {
			harnessFatal("SetMaxSegmentSize: %v", err)
		}
	} else {
		s.maxSeg = hh.VerifDefaultSegmentSize
	}
	return true
}

func (s *seqCase) checkEmpty() {
	if s.stop {
		return
	}
	e := s.q.Empty()
	want := len(s.model) == 0
	if e == want {
		return
	}
	sig := emptySignature(e, s.ctx, len(segFiles(s.dir)))
	if e {
		s.violation(sig, fmt.Sprintf("Empty() returned true while %d accepted blocks are pending (last state-moving operation: %s)", len(s.model), s.ctx))
	} else {
		s.violation(sig, fmt.Sprintf("Empty() returned false while nothing is pending (last state-moving operation: %s, %d segment files)", s.ctx, len(segFiles(s.dir))))
	}
}

func (s *seqCase) sizeFor() int {
	base := s.maxSeg
	if base > 2048 {
		base = 2048
	}
	max := int(base) - 8 // largest block a fresh segment accepts
	switch s.g.Intn(12) {
	case 0:
		return blockMin
	case 1:
		return max
	case 2:
		return max - 1
	case 3:
		return max + 1 // never fits
	case 4:
		return max/2 + s.g.Intn(3) - 1
	case 5:
		return max - 8 - s.g.Intn(3)
	case 6, 7:
		return blockMin + s.g.Intn(1+max/3)
	default:
		return blockMin + s.g.Intn(1+max/6)
	}
}

func (s *seqCase) doAppend() {
	n := s.sizeFor()
	if n < blockMin {
		n = blockMin
	}
	id := s.nextID
	s.nextID++
	b := mkBlock(id, n)
	before := s.nseg()
	s.lastFlushPath = ""
	err := s.q.Append(b)
	after := s.nseg()
	if err != nil {
		s.rejected++
		s.log("append", int64(n), id, "rejected: "+err.Error())
		switch err {
		case hh.ErrQueueFull:
			r.Count("seq_append_rejected_queue_full", 1)
		case hh.ErrSegmentFull:
			r.Count("seq_append_rejected_segment_full", 1)
		case hh.ErrNotOpen:
			r.Count("seq_append_rejected_not_open", 1)
		default:
			r.Count("seq_append_rejected_other", 1)
		}
		if after != before {
			s.ctx = "rejected-append-that-added-a-segment"
		}
		return
	}
	if s.lastFlushPath == "" {
		r.Count("seq_appends_accepted_without_a_flush", 1) // the FIFO check decides whether the block exists
	}
	s.model = append(s.model, mEntry{id, b, s.lastFlushPath})
	s.log("append", int64(n), id, "ok")
	if after != before {
		s.ctx = "append-rollover"
	} else {
		s.ctx = "append"
	}
	r.Count("seq_appends_accepted", 1)
}

// peek reads the head the way SendWrite does and compares it with the model.
func (s *seqCase) peek(op string) (got bool) {
	rounds := 0
	for {
		b, err := s.q.Current()
		if err == io.EOF {
			if len(s.model) == 0 {
				if s.g.Intn(2) == 0 { // SendWrite advances on EOF
					s.advanceAtEOF()
				}
				s.log(op, 0, 0, "eof")
				return false
			}
			if rounds > s.nseg()+1 {
				s.violation("C04/fifo/pending-block-unreadable/after-"+s.ctx,
					fmt.Sprintf("Current() keeps returning EOF although %d accepted blocks are pending (head id %d)", len(s.model), s.model[0].id))
				s.stop = true
				return false
			}
			rounds++
			s.advanceAtEOF()
			continue
		}
		if err != nil {
			sig := "C04/fifo/current-error/after-" + s.ctx
			if s.loweredBelowBlock {
				sig = "C04/fifo/current-error/segment-size-lowered-below-pending-block"
			}
			s.violation(sig, fmt.Sprintf("Current() failed with %q while %d accepted blocks are pending", err.Error(), len(s.model)))
			s.stop = true
			return false
		}
		id, ok := decBlock(b)
		if len(s.model) > 0 && bytes.Equal(b, s.model[0].data) {
			s.log(op, 0, id, "ok")
			s.ctx = "current"
			return true
		}
		kind := "foreign-block"
		switch {
		case !ok:
		case s.done[id]:
			kind = "advanced-block-returned-again"
		default:
			for _, e := range s.model {
				if e.id == id {
					kind = "pending-block-skipped"
				}
			}
		}
		want := "nothing (queue empty)"
		if len(s.model) > 0 {
			want = fmt.Sprintf("block %d", s.model[0].id)
		}
		s.violation("C04/fifo/"+kind+"/after-"+s.ctx, fmt.Sprintf("Current() returned block id=%d decodable=%v len=%d, the model head is %s", id, ok, len(b), want))
		s.stop = true
		return false
	}
}

// advanceAtEOF is SendWrite's reaction to io.EOF from Current: it lets the
// queue drop an exhausted head segment.
func (s *seqCase) advanceAtEOF() {
	before := s.nseg()
	s.q.Advance()
	if s.nseg() != before {
		s.ctx = "advance-at-eof-trim"
	}
}

// doStaleEOFAdvance interleaves a producer with the consumer at the point
// where SendWrite has seen io.EOF from Current and is about to call Advance
// ("try to skip it"): Current()=EOF, Append(X), Advance().
func (s *seqCase) doStaleEOFAdvance() {
	if _, err := s.q.Current(); err != io.EOF {
		return
	}
	pendingBefore := len(s.model)
	s.log("current", 0, 0, "eof (consumer)")
	s.doAppend()
	if len(s.model) == pendingBefore {
		return // append refused
	}
	x := s.model[len(s.model)-1]
	before := s.nseg()
	s.q.Advance()
	s.log("advance", 0, 0, "consumer reacts to the EOF it saw before the append")
	if s.nseg() != before {
		s.ctx = "advance-at-eof-trim"
	}
	r.Count("seq_stale_eof_advances", 1)
	if pendingBefore != 0 {
		return // the head segment was exhausted, the append went elsewhere; the general checks apply
	}
	// x is the only pending block; empty segments in front of it are skipped the
	// usual way (Advance on EOF)
	var b []byte
	var err error
	for rounds := 0; rounds <= s.nseg()+1; rounds++ {
		b, err = s.q.Current()
		if err != io.EOF {
			break
		}
		s.advanceAtEOF()
	}
	if err == nil && bytes.Equal(b, x.data) {
		s.ctx = "current"
		return
	}
	s.violation("C04/block-lost/advance-after-stale-eof-skips-appended-block",
		fmt.Sprintf("Current()=EOF, Append(id %d)=nil, Advance(): the block accepted between the consumer's Current and its Advance was skipped without ever being returned (Current now: err=%v)", x.id, err))
	if !s.stop {
		// known: resynchronise the model with the loss and go on
		s.done[x.id] = true
		s.model = s.model[:len(s.model)-1]
		s.ctx = "advance"
	}
}

func (s *seqCase) doDeliver() {
	if !s.peek("deliver") || s.stop {
		return
	}
	before := s.nseg()
	if err := s.q.Advance(); err != nil {
		s.violation("C04/advance-error", "Advance() failed: "+err.Error())
		s.stop = true
		return
	}
	s.done[s.model[0].id] = true
	s.model = s.model[1:]
	if len(s.model) > 0 {
		s.advancedWithPend = true
	}
	if s.nseg() != before {
		s.ctx = "advance-trim"
	} else {
		s.ctx = "advance"
	}
	r.Count("seq_advances", 1)
}

func (s *seqCase) doReopen() {
	if err := s.q.Close(); err != nil {
		s.violation("C04/close-error", "Close() failed: "+err.Error())
		s.stop = true
		return
	}
	s.log("reopen", 0, 0, "")
	s.reopens++
	if !s.open(false) {
		return
	}
	s.loweredBelowBlock = false
	for _, e := range s.model {
		if int64(len(e.data)) > s.maxSeg {
			s.loweredBelowBlock = true
		}
	}
	s.ctx = "reopen"
}

func (s *seqCase) doResize() {
	sizes := []int64{64, 100, 128, 256, 600, 1024, 1500}
	n := sizes[s.g.Intn(len(sizes))]
	var big int64
	for _, e := range s.model {
		if int64(len(e.data)) > big {
			big = int64(len(e.data))
		}
	}
	if n < big && s.g.Intn(12) > 0 {
		// Lowering the limit below a pending block makes the block unreadable
		// (record size out of range); production never lowers the limit, so
		// this is exercised rarely and reported under its own signature.
		for _, c := range sizes {
			if c >= big {
				n = c
				break
			}
		}
		if n < big {
			return
		}
	}
	before := s.nseg()
	if err := s.q.SetMaxSegmentSize(n); err != nil {
		harnessFatal("SetMaxSegmentSize: %v", err)
	}
	s.maxSeg = n
	if n < big {
		s.loweredBelowBlock = true
	}
	s.resizes++
	s.log("resize", n, 0, "")
	if s.nseg() != before {
		s.ctx = "resize-that-added-a-segment"
	}
}

func (s *seqCase) doPurge() {
	files := segFiles(s.dir)
	if len(files) == 0 {
		return
	}
	k := s.g.Intn(len(files) + 1)
	if s.g.Intn(3) == 0 {
		k = len(files)
	}
	old, young := purgeEpoch.Add(-time.Hour), purgeEpoch.Add(time.Hour)
	removed := map[string]bool{}
	for i, f := range files {
		t := young
		if i < k {
			t = old
			removed[f] = true
		}
		if err := os.Chtimes(f, t, t); err != nil {
			harnessFatal("chtimes: %v", err)
		}
	}
	if err := s.q.PurgeOlderThan(purgeEpoch); err != nil {
		s.violation("C04/purge-error", "PurgeOlderThan failed: "+err.Error())
		s.stop = true
		return
	}
	s.log("purge", int64(k), 0, fmt.Sprintf("of %d segments", len(files)))
	s.purges++
	for _, f := range files {
		_, err := os.Stat(f)
		gone := os.IsNotExist(err)
		if removed[f] && !gone {
			s.violation("C04/purge/old-segment-kept", "a segment older than the cutoff at the head of the queue was not purged")
			return
		}
		if !removed[f] && gone {
			s.violation("C04/purge/young-segment-discarded", fmt.Sprintf("PurgeOlderThan removed segment %s which is newer than the cutoff", filepath.Base(f)))
			s.stop = true
			return
		}
	}
	var keep []mEntry
	dropped := 0
	for _, e := range s.model {
		if removed[e.seg] {
			s.done[e.id] = true
			dropped++
			continue
		}
		keep = append(keep, e)
	}
	s.model = keep
	r.Count("seq_blocks_discarded_by_age", int64(dropped))
	if k == len(files) {
		s.ctx = "purge-of-all-segments"
	} else if k > 0 {
		s.ctx = "purge-of-head-segments"
	}
	s.nseg()
}

func runSeq(caseID string, seed int64, root string) {
	g := rand.New(rand.NewSource(seed))
	s := &seqCase{caseID: caseID, seed: seed, g: g, done: map[uint64]bool{}, ctx: "open"}
	s.dir = filepath.Join(root, "seq-"+fmt.Sprint(seed&0xffffffffff))
	os.RemoveAll(s.dir)
	if err := os.MkdirAll(s.dir, 0o755); err != nil {
		harnessFatal("mkdir: %v", err)
	}
	defer os.RemoveAll(s.dir)
	observe(s.dir, s.hook)
	defer unobserve(s.dir)

	s.maxSeg = []int64{64, 100, 128, 256, 600, 1024}[g.Intn(6)]
	switch g.Intn(10) {
	case 0, 1:
		s.maxSize = 3 * s.maxSeg
	case 2:
		s.maxSize = 6 * s.maxSeg
	default:
		s.maxSize = 1 << 40
	}
	s.nextID = 1 + uint64(g.Intn(1000))
	if g.Intn(2) == 0 {
		s.nextID |= uint64(1+g.Intn(0xfffe)) << 48
	}
	nops := 20 + g.Intn(70)
	r.Begin(caseID, map[string]interface{}{"seed": seed, "ops": nops})
	r.Eval(1)
	if !s.open(true) {
		return
	}
	s.checkEmpty()
	// phases change the append/consume balance so that queues both grow over
	// several segments and drain to empty
	bias := g.Intn(3)
	for i := 0; i < nops && !s.stop; i++ {
		if i%15 == 14 {
			bias = g.Intn(3)
		}
		x := g.Intn(100)
		appendW := []int{55, 38, 22}[bias]
		switch {
		case x < appendW:
			s.doAppend()
		case x < appendW+8:
			s.peek("peek")
		case x < 82:
			s.doDeliver()
		case x < 85:
			s.doStaleEOFAdvance()
		case x < 89:
			s.doReopen()
		case x < 94:
			s.doResize()
		default:
			s.doPurge()
			if s.ctx == "purge-of-all-segments" && !s.stop && g.Intn(8) > 0 {
				// the queue refuses every append from here on (stale tail, listed
				// finding): record it once, then restart to go on exploring
				s.checkEmpty()
				s.doReopen()
			}
		}
		s.checkEmpty()
	}
	// drain
	for guard := 0; len(s.model) > 0 && !s.stop && guard < 10000; guard++ {
		s.doDeliver()
		s.checkEmpty()
	}
	if !s.stop {
		s.peek("final")
		s.checkEmpty()
	}
	if !s.stop {
		s.doReopen()
		if !s.stop {
			s.peek("after-final-reopen")
			s.checkEmpty()
		}
	}
	if s.q != nil {
		s.q.Close()
	}
	if s.stop {
		return
	}
	r.Count("seq_histories_checked", 1)
	r.Count("seq_ops", int64(len(s.ops)))
	if s.maxSegFiles >= 2 || s.advancedWithPend {
		r.Nontrivial(fmt.Sprintf("seq|%d|segs%d|re%d|pu%d|rs%d|rej%v|%d", s.maxSeg, min(s.maxSegFiles, 6), min(s.reopens, 3), min(s.purges, 3), min(s.resizes, 3), s.rejected > 0, len(s.ops)/10))
	}
	if r.WantSample() && len(s.ops) < 40 {
		r.Sample(map[string]interface{}{"case": caseID, "kind": "sequential history", "ops": s.ops, "max_segment_files": s.maxSegFiles})
	}
}
