// C04 — the hinted-handoff queue loses nothing and keeps order.
//
// Runtime monitors over the real services/hh code (build: -race, -tags verif):
//
//	(a) seq.go    sequential histories through the VerifQueue handle against a
//	              FIFO model of unique block ids; Empty() <=> model empty after
//	              every step; PurgeOlderThan with mtimes set by os.Chtimes
//	(b) proc.go   hh.NodeProcessor WriteShard/SendWrite with a recording shard
//	              writer double (ok / retryable / permanent): FIFO, advance only
//	              after ok or permanent rejection, batches > 10 MiB bisected
//	              without losing or reordering points, age purge by the run loop
//	(c) conc.go   1/4/12/32 concurrent appenders x one consumer x Close at a
//	              seeded moment, reopen, drain: accepted = delivered + drained
//	              (multisets), per-appender and real-time order
//	(d) crash.go  crash images taken inside the hh.* hooks, every torn prefix of
//	              the pending segment write and of the footer rewrite, reopened
//	              with a fresh queue and judged; concurrent variant for the
//	              buffered (>= 10 writers) path
//	(e) svc.go    hh.Service: the purge ticker and RemoveNode may discard only
//	              for documented reasons
package main

import (
	"bufio"
	"fmt"
	"os"
	"path/filepath"
	"runtime"
	"runtime/pprof"
	"strings"
	"sync"

	"verifharness/internal/ev"
)

func main() { ev.Supervise("C04", body) }

var r *ev.Run

func envInt(name string, def int) int {
	if v := os.Getenv(name); v != "" {
		fmt.Sscan(v, &def)
	}
	return def
}

func body() {
	r = ev.Start("C04", "fault_enumeration")
	r.Rule = "histories are seeded random walks over {append (sizes at the segment limit -1/0/+1, half, tiny), current, advance, resize, purge-by-age with harness-set mtimes, close/reopen}; concurrent runs fix the number of appenders (1,4,12,32) and draw the Close moment as an append count; crash cases enumerate an image at every hh.* hook plus every (quick: sampled above 48 bytes) torn prefix of the pending write. Non-trivial: sequential history with >= 2 segment files or an advance that left a block pending; processor history with >= 2 accepted blocks and a retry / permanent rejection / reopen; split batch delivered in >= 2 blocks or refused; concurrent run that accepted blocks (for >= 10 appenders only when a multi-block flush, i.e. the buffered path, was seen by the hook); crash history whose images were taken with a returned, unadvanced block. Distinct by the shape parameters of the case."
	r.Assumptions = []string{
		"process-kill crash semantics: what write() returned is in the image, so removing a file.Sync leaves no trace (documented blind spot)",
		"torn writes are prefixes of a single write() call (the bytes handed to hh.flush.before, the 8-byte footer in advance)",
		"the consumer follows NodeProcessor.SendWrite's protocol: Current; on io.EOF Advance and retry; on another error Truncate; the consumer is stopped before Close as NodeProcessor.Close does",
		"zero-length blocks are not appended (marshalWrite always emits the 8-byte shard id)",
	}
	r.Floor = 60
	installHooks()
	if pf := os.Getenv("C04_CPUPROFILE"); pf != "" {
		f, _ := os.Create(pf)
		pprof.StartCPUProfile(f)
		defer pprof.StopCPUProfile()
	}
	root := ev.TempDir("c04")
	defer os.RemoveAll(root)

	nSeq := envInt("C04_NSEQ", r.Pick(400, 8000))
	nProc := envInt("C04_NPROC", r.Pick(80, 1600))
	nBig := envInt("C04_NBIG", r.Pick(3, 28)) // batches > 10 MiB: fresh memory is slow under the race detector
	nAge := envInt("C04_NAGE", r.Pick(12, 120))
	nAgeBig := envInt("C04_NAGEBIG", r.Pick(0, 4))
	nConc := envInt("C04_NCONC", r.Pick(40, 640))
	nConcProc := envInt("C04_NCONCPROC", r.Pick(12, 200))
	nCrash := envInt("C04_NCRASH", r.Pick(32, 300))
	nCrashConc := envInt("C04_NCRASHCONC", r.Pick(8, 120))
	nSvc := envInt("C04_NSVC", r.Pick(3, 16))

	type job struct {
		id  string
		run func()
	}
	var jobs []job
	rc := r.ReplayCase() // crash-image violations are filed as "<case>@<crash point>"
	if k := strings.Index(rc, "@"); k >= 0 {
		rc = rc[:k]
	}
	add := func(stream string, n int, f func(i int, caseID string, seed int64)) {
		g := r.Rand(stream)
		for i := 0; i < n; i++ {
			caseID := fmt.Sprintf("%s/%d", stream, i)
			seed := g.Int63()
			if rc != "" && rc != caseID {
				continue
			}
			i := i
			jobs = append(jobs, job{caseID, func() { f(i, caseID, seed) }})
		}
	}
	// long cases first
	add("svc-purge", nSvc, func(i int, id string, s int64) { runSvcPurge(id, s, root) })
	add("svc-remove", nSvc, func(i int, id string, s int64) { runSvcRemove(id, s, root) })
	add("svc-churn", nSvc*2, func(i int, id string, s int64) { runSvcChurn(id, s, root) })
	add("age-multi-segment", nAgeBig, func(i int, id string, s int64) { runProcAge(id, s, true, root) })
	shapeOrder := []int{0, 1, 3, 2, 5, 6, 4} // the quick tier runs the first three
	add("split", nBig, func(i int, id string, s int64) { runProcBig(id, s, shapeOrder[i%7], root) })
	add("age", nAge, func(i int, id string, s int64) { runProcAge(id, s, false, root) })
	degrees := []int{1, 4, 12, 32}
	add("conc", nConc, func(i int, id string, s int64) { runConcQueue(id, s, degrees[i%4], root) })
	add("concproc", nConcProc, func(i int, id string, s int64) { runConcProc(id, s, degrees[1+i%3], root) })
	add("crashconc", nCrashConc, func(i int, id string, s int64) { runCrashConc(id, s, []int{12, 32, 4, 16}[i%4], root) })
	add("crash", nCrash, func(i int, id string, s int64) { runCrash(id, s, root, r.Thorough()) })
	add("closedrain", envInt("C04_NCLOSEDRAIN", r.Pick(12, 100)), func(i int, id string, s int64) { runProcCloseDuringDrain(id, s, root) })
	add("svc-empty", envInt("C04_NSVCEMPTY", r.Pick(10, 60)), func(i int, id string, s int64) { runSvcEmpty(id, s, root) })
	add("proc", nProc, func(i int, id string, s int64) { runProcSmall(id, s, root) })
	add("seq", nSeq, func(i int, id string, s int64) { runSeq(id, s, root) })

	ch := make(chan job)
	var wg sync.WaitGroup
	workers := runtime.NumCPU()
	if workers > 16 {
		workers = 16
	}
	// replay files name a case, crash-image cases carry "@point" suffixes
	for w := 0; w < workers; w++ {
		wg.Add(1)
		go func() {
			defer wg.Done()
			for j := range ch {
				j.run()
			}
		}()
	}
	for _, j := range jobs {
		ch <- j
	}
	close(ch)
	wg.Wait()
	os.RemoveAll(root)
	pprof.StopCPUProfile()
	raceReports()
	r.Finish()
}

// raceReports turns data-race reports of the race detector that involve the
// hinted-handoff package into evidence (and a violation: the property is
// quantified over schedules, an unsynchronised access in services/hh is a
// schedule on which the queue's bookkeeping is undefined).
func raceReports() {
	lp := ""
	for _, f := range strings.Fields(os.Getenv("GORACE")) {
		if strings.HasPrefix(f, "log_path=") {
			lp = strings.TrimPrefix(f, "log_path=")
		}
	}
	if lp == "" {
		return
	}
	files, _ := filepath.Glob(lp + ".*")
	total, inHH := 0, 0
	var first string
	for _, f := range files {
		fh, err := os.Open(f)
		if err != nil {
			continue
		}
		sc := bufio.NewScanner(fh)
		sc.Buffer(make([]byte, 1<<20), 1<<24)
		var cur []string
		flush := func() {
			if len(cur) == 0 {
				return
			}
			total++
			txt := strings.Join(cur, "\n")
			if strings.Contains(txt, "influxdb/services/hh.") {
				inHH++
				if first == "" {
					first = txt
				}
			}
			cur = nil
		}
		for sc.Scan() {
			l := sc.Text()
			if strings.HasPrefix(l, "WARNING: DATA RACE") {
				flush()
			}
			if strings.HasPrefix(l, "==================") {
				continue
			}
			cur = append(cur, l)
		}
		flush()
		fh.Close()
	}
	r.Count("race_reports_total", int64(total))
	r.Count("race_reports_in_services_hh", int64(inHH))
	if inHH > 0 {
		if len(first) > 3000 {
			first = first[:3000]
		}
		r.Violation("C04/data-race-in-services-hh", "race-detector", fmt.Sprintf("the race detector reported %d data races with frames in services/hh during the concurrent runs", inHH), map[string]interface{}{"first_report": first})
	}
}
