package main

// Monitor (b): the exported hh.NodeProcessor driven through WriteShard /
// SendWrite with a recording shard-writer double.

import (
	"bytes"
	"encoding/binary"
	"errors"
	"fmt"
	"io"
	"math/rand"
	"os"
	"path/filepath"
	"strings"
	"sync"
	"sync/atomic"
	"time"

	"github.com/influxdata/influxdb/models"
	"github.com/influxdata/influxdb/services/hh"
	"github.com/influxdata/influxdb/services/meta"
	"github.com/influxdata/influxdb/toml"
)

const (
	outOK    = "ok"
	outRetry = "retryable-error"
	outPerm  = "permanent-rejection"
)

var (
	errRetry = errors.New("dial tcp 127.0.0.1:8088: connect: connection refused")
	errPerm1 = errors.New("partial write: field type conflict: input field \"v\" on measurement \"m\" is type float, already exists as type string dropped=1")
	errPerm2 = errors.New("partial write: points beyond retention policy dropped=1")
)

type wcall struct {
	points  [][]byte
	outcome string
}

// recWriter is the shardWriter double: it records every block handed to it
// and answers according to the outcome chosen by next().
type recWriter struct {
	mu    sync.Mutex
	calls []wcall
	next  func(call int, points [][]byte) string // called with mu held
	shard uint64
	node  uint64
	wrong int32
	alias bool // keep the slices handed in (they alias a buffer Current() allocated for this call)
}

func (w *recWriter) WriteShardBinary(shardID, ownerID uint64, points [][]byte) error {
	w.mu.Lock()
	defer w.mu.Unlock()
	if (w.shard != 0 && shardID != w.shard) || (w.node != 0 && ownerID != w.node) {
		atomic.AddInt32(&w.wrong, 1)
	}
	cp := make([][]byte, len(points))
	for i, p := range points {
		if w.alias {
			cp[i] = p
		} else {
			cp[i] = append([]byte(nil), p...)
		}
	}
	out := outOK
	if w.next != nil {
		out = w.next(len(w.calls), cp)
	}
	w.calls = append(w.calls, wcall{cp, out})
	switch out {
	case outRetry:
		return errRetry
	case outPerm:
		if len(w.calls)%2 == 0 {
			return errPerm1
		}
		return errPerm2
	}
	return nil
}

func (w *recWriter) ncalls() int {
	w.mu.Lock()
	defer w.mu.Unlock()
	return len(w.calls)
}

// metaDouble is the metaClient double.
type metaDouble struct {
	active   int32 // 1 active, 0 removed
	notFound int32 // removed nodes answer (nil, ErrNodeNotFound) instead of (nil, nil)
}

func (m *metaDouble) DataNode(id uint64) (*meta.NodeInfo, error) {
	if atomic.LoadInt32(&m.active) == 1 {
		return &meta.NodeInfo{ID: id, Addr: "127.0.0.1:8088", TCPAddr: "127.0.0.1:8088"}, nil
	}
	if atomic.LoadInt32(&m.notFound) == 1 {
		return nil, meta.ErrNodeNotFound
	}
	return nil, nil
}

func idleConfig() hh.Config {
	cfg := hh.NewConfig()
	cfg.RetryInterval = toml.Duration(time.Hour)
	cfg.RetryMaxInterval = toml.Duration(time.Hour)
	cfg.PurgeInterval = toml.Duration(time.Hour)
	cfg.MaxAge = toml.Duration(time.Hour)
	cfg.MaxSize = 1 << 40
	cfg.MaxWritesPending = 64
	return cfg
}

func mkPoint(seq uint64, fieldBytes int) models.Point {
	var v interface{}
	if fieldBytes <= 0 {
		v = int64(seq)
	} else {
		b := make([]byte, fieldBytes)
		for i := range b {
			b[i] = 'a' + byte((seq+uint64(i))%26)
		}
		v = string(b)
	}
	p, err := models.NewPoint("m", models.NewTags(map[string]string{"seq": fmt.Sprint(seq)}), models.Fields{"v": v}, time.Unix(0, int64(seq)))
	if err != nil {
		harnessFatal("NewPoint: %v", err)
	}
	return p
}

// rawPoint builds a point directly in its MarshalBinary form (exactly n bytes:
// 4-byte key length, key "m,seq=<seq>", 4-byte fields length, fields
// v="<filler>", 15 time bytes) and parses it with models.NewPointFromBytes.
// Large points are made this way because fresh memory is expensive under the
// race detector.
var fillPattern = func() []byte {
	b := make([]byte, 4096)
	for i := range b {
		b[i] = 'a' + byte(i%26)
	}
	return b
}()

func rawPoint(seq uint64, n int) (models.Point, []byte) {
	key := "m,seq=" + fmt.Sprint(seq)
	tb, _ := time.Unix(0, int64(seq)).UTC().MarshalBinary()
	fixed := 4 + len(key) + 4 + len(`v=""`) + len(tb)
	fill := n - fixed
	if fill < 1 {
		fill = 1
	}
	raw := make([]byte, fixed+fill)
	i := 0
	binary.BigEndian.PutUint32(raw[i:], uint32(len(key)))
	i += 4
	i += copy(raw[i:], key)
	binary.BigEndian.PutUint32(raw[i:], uint32(len(`v=""`)+fill))
	i += 4
	i += copy(raw[i:], `v="`)
	off := int(seq % 26)
	for fill > 0 {
		k := copy(raw[i:i+fill], fillPattern[off:])
		i += k
		fill -= k
		off = 0
	}
	i += copy(raw[i:], `"`)
	copy(raw[i:], tb)
	p, err := models.NewPointFromBytes(raw)
	if err != nil {
		harnessFatal("rawPoint: %v", err)
	}
	return p, raw
}

func marshalPoints(ps []models.Point) [][]byte {
	out := make([][]byte, len(ps))
	for i, p := range ps {
		b, err := p.MarshalBinary()
		if err != nil {
			harnessFatal("MarshalBinary: %v", err)
		}
		out[i] = b
	}
	return out
}

func sameSlices(a, b [][]byte) bool {
	if len(a) != len(b) {
		return false
	}
	for i := range a {
		if !bytes.Equal(a[i], b[i]) {
			return false
		}
	}
	return true
}

// ------------------------------------------------------- small histories

type procOp struct {
	Op  string `json:"op"`
	N   int    `json:"n,omitempty"`
	Res string `json:"res,omitempty"`
}

func runProcSmall(caseID string, seed int64, root string) {
	g := rand.New(rand.NewSource(seed))
	dir := filepath.Join(root, "np-"+fmt.Sprint(seed&0xffffffffff))
	os.RemoveAll(dir)
	defer os.RemoveAll(dir)
	r.Begin(caseID, map[string]interface{}{"seed": seed})
	r.Eval(1)

	cfg := idleConfig()
	sizeLimited := g.Intn(4) == 0
	if sizeLimited {
		cfg.MaxSize = int64(300 + g.Intn(600))
	}
	w := &recWriter{shard: 7, node: 3}
	m := &metaDouble{active: 1, notFound: int32(g.Intn(2))}
	var planned string
	w.next = func(int, [][]byte) string { return planned }

	var model [][][]byte // pending blocks, each a slice of marshalled points
	var ops []procOp
	var seq uint64 = 1
	ctx := "open"
	stop := false
	viol := func(sig, what string) {
		if !r.Violation(sig, caseID, what, map[string]interface{}{"case_seed": seed, "ops": ops, "pending_blocks": len(model)}) {
			stop = true
		}
	}
	np := hh.NewNodeProcessor(cfg, 3, 7, dir, w, m)
	if err := np.Open(); err != nil {
		viol("C04/open-fails/node-processor", "NodeProcessor.Open failed: "+err.Error())
		return
	}
	defer func() { np.Close() }()
	checkEmpty := func() {
		if stop {
			return
		}
		e, want := np.Empty(), len(model) == 0
		if e && !want {
			viol(emptySignature(true, ctx, len(segFiles(dir))), fmt.Sprintf("NodeProcessor.Empty() returned true while %d accepted blocks are pending (after %s)", len(model), ctx))
		} else if !e && want {
			viol(emptySignature(false, ctx, len(segFiles(dir))), "NodeProcessor.Empty() returned false while nothing is pending (after "+ctx+")")
		}
	}
	accepted, delivered, discardedPerm := 0, 0, 0
	sawRetry, sawPerm, sawInactive, reopens, sawFull := false, false, false, 0, false
	send := func(out string) {
		planned = out
		active := atomic.LoadInt32(&m.active) == 1
		for attempt := 0; ; attempt++ {
			before := w.ncalls()
			_, err := np.SendWrite()
			called := w.ncalls() - before
			ops = append(ops, procOp{"send", called, fmt.Sprintf("%s -> %v", out, err)})
			if called > 1 {
				viol("C04/send/more-than-one-block-per-send", "one SendWrite handed more than one block to the shard writer")
				return
			}
			if !active && called == 0 {
				if err != io.EOF {
					r.Count("np_inactive_send_not_eof", 1)
				}
				return
			}
			if called == 0 {
				if len(model) == 0 {
					if err != io.EOF {
						r.Count("np_empty_send_not_eof", 1)
					}
					return
				}
				if err == io.EOF && attempt < 3 {
					continue // exhausted head segment skipped; the run loop retries
				}
				viol("C04/fifo/pending-block-unreadable/after-"+ctx, fmt.Sprintf("SendWrite delivered nothing (%v) although %d accepted blocks are pending", err, len(model)))
				stop = true
				return
			}
			w.mu.Lock()
			got := w.calls[len(w.calls)-1].points
			w.mu.Unlock()
			if len(model) == 0 {
				viol("C04/fifo/advanced-block-returned-again/after-"+ctx, "SendWrite delivered a block although every accepted block was already acknowledged")
				stop = true
				return
			}
			if !sameSlices(got, model[0]) {
				viol("C04/fifo/wrong-block-delivered/after-"+ctx, fmt.Sprintf("SendWrite delivered %d points that are not the oldest pending block (%d points)", len(got), len(model[0])))
				stop = true
				return
			}
			switch out {
			case outOK, outPerm:
				if err != nil {
					viol("C04/send/error-after-acknowledged-write", fmt.Sprintf("SendWrite returned %v although the shard writer answered %s", err, out))
				}
				model = model[1:]
				delivered++
				if out == outPerm {
					discardedPerm++
					sawPerm = true
				}
				ctx = "advance"
			case outRetry:
				if err == nil {
					viol("C04/send/retryable-error-swallowed", "SendWrite returned nil although the shard writer failed retryably")
				}
				sawRetry = true
				ctx = "failed-send"
			}
			return
		}
	}
	nops := 15 + g.Intn(50)
	for i := 0; i < nops && !stop; i++ {
		switch x := g.Intn(100); {
		case x < 40:
			n := 1 + g.Intn(4)
			ps := make([]models.Point, n)
			for k := range ps {
				fb := 0
				if g.Intn(3) == 0 {
					fb = 1 + g.Intn(120)
				}
				ps[k] = mkPoint(seq, fb)
				seq++
			}
			err := np.WriteShard(ps)
			ops = append(ops, procOp{"write", n, fmt.Sprint(err)})
			if err == nil {
				model = append(model, marshalPoints(ps))
				accepted++
				ctx = "append"
			} else if err == hh.ErrQueueFull {
				sawFull = true
				if !sizeLimited {
					viol("C04/write/queue-full-without-size-limit", "WriteShard returned ErrQueueFull although the queue is far below its size limit")
				}
			} else if !(err == hh.ErrNotOpen) {
				r.Count("np_write_rejected_other", 1)
			}
		case x < 75:
			out := outOK
			switch y := g.Intn(10); {
			case y < 2:
				out = outRetry
			case y < 4:
				out = outPerm
			}
			send(out)
		case x < 83:
			if atomic.LoadInt32(&m.active) == 1 {
				atomic.StoreInt32(&m.active, 0)
				sawInactive = true
				send(outOK)
				if g.Intn(2) == 0 {
					send(outOK)
				}
			}
			atomic.StoreInt32(&m.active, 1)
		case x < 92:
			if err := np.Close(); err != nil {
				viol("C04/close-error", "NodeProcessor.Close failed: "+err.Error())
				stop = true
				break
			}
			np = hh.NewNodeProcessor(cfg, 3, 7, dir, w, m)
			if err := np.Open(); err != nil {
				viol("C04/open-fails/clean-reopen", "NodeProcessor.Open after a clean Close failed: "+err.Error())
				stop = true
				break
			}
			reopens++
			ops = append(ops, procOp{"reopen", 0, ""})
			ctx = "reopen"
		default:
			// a retryable failure must present the same block again
			if len(model) > 0 {
				send(outRetry)
				if !stop {
					send(outRetry)
				}
			}
		}
		checkEmpty()
	}
	for guard := 0; len(model) > 0 && !stop && guard < 1000; guard++ {
		send(outOK)
		checkEmpty()
	}
	if !stop {
		send(outOK) // must be EOF
		checkEmpty()
	}
	if atomic.LoadInt32(&w.wrong) > 0 {
		viol("C04/send/wrong-target", "a block was sent with a shard or node id different from the processor's")
	}
	if stop {
		return
	}
	r.Count("np_histories_checked", 1)
	r.Count("np_blocks_accepted", int64(accepted))
	r.Count("np_blocks_acknowledged", int64(delivered))
	r.Count("np_blocks_discarded_permanent_rejection", int64(discardedPerm))
	if accepted >= 2 && (sawRetry || sawPerm || reopens > 0) {
		r.Nontrivial(fmt.Sprintf("np|retry%v|perm%v|inactive%v|re%d|full%v|%d", sawRetry, sawPerm, sawInactive, min(reopens, 3), sawFull, accepted/4))
	}
	if r.WantSample() && len(ops) < 30 {
		r.Sample(map[string]interface{}{"case": caseID, "kind": "node processor history", "ops": ops})
	}
}

// ------------------------------------------------------- bisection

var bigSem = make(chan struct{}, 3)

const segLimit = hh.VerifDefaultSegmentSize

// runProcBig writes one batch whose encoding exceeds the segment size so that
// WriteShard has to bisect it, then delivers with scripted outcomes. Sizes are
// MarshalBinary sizes of the points; a block is 8 + sum(4 + size).
func runProcBig(caseID string, seed int64, shape int, root string) {
	bigSem <- struct{}{}
	defer func() { <-bigSem }()
	g := rand.New(rand.NewSource(seed))
	dir := filepath.Join(root, "big-"+fmt.Sprint(seed&0xffffffffff))
	os.RemoveAll(dir)
	defer os.RemoveAll(dir)

	var sizes []int
	switch shape {
	case 0: // few equal points, total just above the limit: two blocks
		n := 3 + g.Intn(6)
		each := segLimit/n + 1 + g.Intn(4000)
		for i := 0; i < n; i++ {
			sizes = append(sizes, each)
		}
	case 1: // one point larger than a segment in the middle: must be refused, the prefix may stay accepted
		n := 3 + g.Intn(4)
		for i := 0; i < n; i++ {
			sizes = append(sizes, 200000+g.Intn(100000))
		}
		sizes[1+g.Intn(n-1)] = segLimit + 100
	case 2: // halves whose encoding lands within a few bytes of the limit
		a := (segLimit - 8 - 8) / 2
		sizes = []int{a, segLimit - 8 - 8 - a - 2 + g.Intn(5), a, segLimit - 8 - 8 - a - 10 + g.Intn(5)}
	case 3: // a block whose encoding falls in (limit-8, limit]: passes WriteShard's test, no segment can hold it
		sizes = []int{segLimit - 8 - 4 - g.Intn(8), 100}
	case 4: // many small points
		n := 11000 + g.Intn(3000)
		for i := 0; i < n; i++ {
			sizes = append(sizes, 900+g.Intn(300))
		}
	case 5: // skewed: big head, small tail
		sizes = []int{segLimit*6/10 + g.Intn(1000), segLimit*3/10 + g.Intn(1000)}
		for i := 0; i < 5+g.Intn(20); i++ {
			sizes = append(sizes, 1000+g.Intn(200000))
		}
	default: // about twice the limit in medium points: several levels of bisection
		n := 9 + g.Intn(24)
		total := segLimit*2 + g.Intn(segLimit/4)
		for i := 0; i < n; i++ {
			sizes = append(sizes, total/n)
		}
	}
	r.Begin(caseID, map[string]interface{}{"seed": seed, "shape": shape, "points": len(sizes)})
	r.Eval(1)
	ps := make([]models.Point, len(sizes))
	orig := make([][]byte, len(sizes))
	var total int64
	for i, s := range sizes {
		ps[i], orig[i] = rawPoint(uint64(i+1), s)
		total += int64(len(orig[i])) + 4
	}
	if b, err := ps[0].MarshalBinary(); err != nil || !bytes.Equal(b, orig[0]) {
		harnessFatal("rawPoint does not round-trip through MarshalBinary")
	}

	w := &recWriter{shard: 7, node: 3, alias: true}
	m := &metaDouble{active: 1}
	var planned string
	w.next = func(int, [][]byte) string { return planned }
	cfg := idleConfig()
	np := hh.NewNodeProcessor(cfg, 3, 7, dir, w, m)
	wit := func() interface{} {
		return map[string]interface{}{"case_seed": seed, "shape": shape, "point_sizes": trimInts(sizes, 64), "encoded_bytes": total}
	}
	if err := np.Open(); err != nil {
		r.Violation("C04/open-fails/node-processor", caseID, "NodeProcessor.Open failed: "+err.Error(), wit())
		return
	}
	defer func() { np.Close() }()
	werr := np.WriteShard(ps)

	// deliver
	var acked [][]byte
	blocks := 0
	var last [][]byte
	lastOut := ""
	for guard := 0; guard < 100000; guard++ {
		planned = outOK
		switch y := g.Intn(10); {
		case y < 2:
			planned = outRetry
		case y < 3:
			planned = outPerm
		}
		if g.Intn(6) == 0 {
			// restart in the middle of the delivery
			np.Close()
			np = hh.NewNodeProcessor(cfg, 3, 7, dir, w, m)
			if err := np.Open(); err != nil {
				r.Violation("C04/open-fails/clean-reopen", caseID, "NodeProcessor.Open after a clean Close failed: "+err.Error(), wit())
				return
			}
		}
		before := w.ncalls()
		_, err := np.SendWrite()
		if w.ncalls() == before {
			if err == io.EOF {
				// EOF twice in a row without a delivery: drained
				before2 := w.ncalls()
				_, err2 := np.SendWrite()
				if w.ncalls() == before2 && err2 == io.EOF {
					break
				}
				if w.ncalls() == before2 {
					r.Violation("C04/split/send-error", caseID, fmt.Sprintf("SendWrite failed with %v while delivering a split batch", err2), wit())
					return
				}
				// a block was delivered by the second call: account for it below
			} else {
				r.Violation("C04/split/send-error", caseID, fmt.Sprintf("SendWrite failed with %v while delivering a split batch", err), wit())
				return
			}
		}
		w.mu.Lock()
		c := w.calls[len(w.calls)-1]
		w.mu.Unlock()
		if lastOut == outRetry && !sameSlices(c.points, last) {
			r.Violation("C04/send/block-advanced-after-retryable-failure", caseID, "after a retryable failure the next SendWrite presented a different block: the failed block was skipped", wit())
			return
		}
		var sz int64 = 8
		for _, p := range c.points {
			sz += int64(len(p)) + 4
		}
		if sz > segLimit {
			r.Violation("C04/split/block-larger-than-segment", caseID, fmt.Sprintf("a delivered block encodes to %d bytes, more than a segment", sz), wit())
			return
		}
		last, lastOut = c.points, c.outcome
		if c.outcome != outRetry {
			acked = append(acked, c.points...)
			blocks++
		}
	}
	// oracle: concatenation of acknowledged slices = original batch (accepted) or a prefix of it (refused)
	n := len(acked)
	if n > len(orig) {
		n = len(orig)
	}
	firstDiff := -1
	for i := 0; i < n; i++ {
		if !bytes.Equal(acked[i], orig[i]) {
			firstDiff = i
			break
		}
	}
	switch {
	case firstDiff >= 0:
		r.Violation("C04/split/points-differ-or-reordered", caseID, fmt.Sprintf("batch of %d points split into %d blocks: delivered point %d is not original point %d", len(orig), blocks, firstDiff, firstDiff), wit())
		return
	case len(acked) > len(orig):
		r.Violation("C04/split/points-duplicated", caseID, fmt.Sprintf("batch of %d points split into %d blocks: %d points delivered", len(orig), blocks, len(acked)), wit())
		return
	case werr == nil && len(acked) < len(orig):
		r.Violation("C04/split/points-lost", caseID, fmt.Sprintf("WriteShard accepted a batch of %d points (%d bytes), split into %d blocks; only %d points were delivered", len(orig), total, blocks, len(acked)), wit())
		return
	}
	if werr != nil {
		r.Count("split_batches_refused", 1)
		if werr != hh.ErrSegmentFull {
			r.Count("split_batches_refused_other_error", 1)
		}
	} else {
		r.Count("split_batches_accepted", 1)
	}
	r.Count("split_blocks_delivered", int64(blocks))
	if blocks >= 2 || werr != nil {
		r.Nontrivial(fmt.Sprintf("split|%d|%d|%v", shape, min(blocks, 8), werr != nil))
	}
	if r.WantSample() {
		r.Sample(map[string]interface{}{"case": caseID, "kind": "split batch", "points": len(orig), "encoded_bytes": total, "blocks": blocks, "write_error": fmt.Sprint(werr)})
	}
}

func trimInts(a []int, n int) []int {
	if len(a) > n {
		return a[:n]
	}
	return a
}

// ------------------------------------------------------- age limit through the run loop

// runProcAge lets the processor's own purge timer discard whole segments that
// the harness made older than MaxAge with os.Chtimes, then checks that exactly
// the blocks of those segments are gone.
func runProcAge(caseID string, seed int64, big bool, root string) {
	if big {
		bigSem <- struct{}{}
		defer func() { <-bigSem }()
	}
	g := rand.New(rand.NewSource(seed))
	dir := filepath.Join(root, "age-"+fmt.Sprint(seed&0xffffffffff))
	os.RemoveAll(dir)
	defer os.RemoveAll(dir)
	r.Begin(caseID, map[string]interface{}{"seed": seed})
	r.Eval(1)

	segOf := map[int]string{} // block index -> segment path
	cur := -1
	observe(dir, func(name string, args []interface{}) {
		if name == "hh.flush.before" && cur >= 0 {
			segOf[cur] = args[0].(string)
		}
	})
	defer unobserve(dir)

	w := &recWriter{shard: 7, node: 3}
	m := &metaDouble{active: 1}
	cfg := idleConfig()
	cfg.PurgeInterval = toml.Duration(2 * time.Millisecond) // purge timer wins over the retry timer
	np := hh.NewNodeProcessor(cfg, 3, 7, dir, w, m)
	if err := np.Open(); err != nil {
		r.Violation("C04/open-fails/node-processor", caseID, "NodeProcessor.Open failed: "+err.Error(), nil)
		return
	}
	nblocks := 3 + g.Intn(2)
	if !big {
		nblocks = 2 + g.Intn(8) // small blocks: everything sits in one segment
	}
	var blocks [][][]byte
	for i := 0; i < nblocks; i++ {
		var p []models.Point
		if big {
			pt, _ := rawPoint(uint64(i+1), segLimit*55/100+g.Intn(1000))
			p = []models.Point{pt}
		} else {
			p = []models.Point{mkPoint(uint64(i+1), g.Intn(200))}
		}
		cur = i
		if err := np.WriteShard(p); err != nil {
			np.Close()
			harnessFatal("WriteShard in age case: %v", err)
		}
		blocks = append(blocks, marshalPoints(p))
	}
	cur = -1
	files := segFiles(dir)
	k := 1 + g.Intn(len(files))
	if g.Intn(3) == 0 {
		k = 0
	}
	old := time.Now().Add(-3 * time.Hour)
	for i := 0; i < k; i++ {
		os.Chtimes(files[i], old, old)
	}
	// wait (watchdog, not a verdict) until the purge timer has removed the old segments
	deadline := time.Now().Add(60 * time.Second)
	for {
		gone := 0
		for i := 0; i < k; i++ {
			if _, err := os.Stat(files[i]); os.IsNotExist(err) {
				gone++
			}
		}
		if gone == k {
			break
		}
		if time.Now().After(deadline) {
			np.Close()
			r.Inconclusive(caseID + ": purge timer did not remove the aged segments within the watchdog")
			return
		}
		time.Sleep(2 * time.Millisecond)
	}
	if k == 0 {
		time.Sleep(30 * time.Millisecond) // several purge ticks on young data
	}
	np.Close()
	for i := k; i < len(files); i++ {
		if _, err := os.Stat(files[i]); err != nil {
			r.Violation("C04/purge/young-segment-discarded", caseID, "the processor's age purge removed a segment that is younger than MaxAge", map[string]interface{}{"case_seed": seed, "aged_segments": k, "segments": len(files)})
			return
		}
	}
	// drain with an idle processor
	np = hh.NewNodeProcessor(idleConfig(), 3, 7, dir, w, m)
	if err := np.Open(); err != nil {
		r.Violation("C04/open-fails/clean-reopen", caseID, "NodeProcessor.Open failed: "+err.Error(), nil)
		return
	}
	defer np.Close()
	eofs := 0
	for guard := 0; guard < 100 && eofs < 3; guard++ {
		_, err := np.SendWrite()
		if err == io.EOF {
			eofs++
		} else if err != nil {
			r.Violation("C04/send/error-while-draining", caseID, "SendWrite failed: "+err.Error(), nil)
			return
		} else {
			eofs = 0
		}
	}
	agedFiles := map[string]bool{}
	for i := 0; i < k; i++ {
		agedFiles[files[i]] = true
	}
	var want [][][]byte
	for i, b := range blocks {
		if !agedFiles[segOf[i]] {
			want = append(want, b)
		}
	}
	w.mu.Lock()
	got := w.calls
	w.mu.Unlock()
	ok := len(got) == len(want)
	for i := 0; ok && i < len(want); i++ {
		ok = sameSlices(got[i].points, want[i])
	}
	if !ok {
		r.Violation("C04/purge/wrong-blocks-after-age-purge", caseID, fmt.Sprintf("%d blocks in %d segments, %d segments aged beyond MaxAge: %d blocks delivered, %d expected", nblocks, len(files), k, len(got), len(want)), map[string]interface{}{"case_seed": seed})
		return
	}
	r.Count("np_age_purge_cases", 1)
	r.Count("np_blocks_discarded_by_age", int64(len(blocks)-len(want)))
	r.Nontrivial(fmt.Sprintf("age|%d|%d", len(files), k))
}

var _ = strings.Contains
