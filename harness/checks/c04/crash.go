package main

// Monitor (d): crash images. Inside the hook handlers (the queue is stopped in
// its own critical section) the queue directory is copied; at hh.flush.before
// every torn state of the pending write is synthesized; at hh.advance every
// torn state of the 8-byte footer rewrite. Each image is reopened with a fresh
// queue, drained the way SendWrite consumes a queue, and judged.

import (
	"encoding/binary"
	"fmt"
	"math/rand"
	"os"
	"path/filepath"
	"strconv"
	"strings"
	"sync"
	"sync/atomic"

	"github.com/influxdata/influxdb/services/hh"
)

type crashExpect struct {
	returned    []uint64 // ids whose Append returned nil, in acceptance order
	advanced    int      // Advance calls that returned
	advInFlight bool     // an Advance is executing
	appInFlight []uint64 // ids inside an Append that has not returned
}

type crashCase struct {
	caseID  string
	seed    int64
	g       *rand.Rand
	dir     string
	imgRoot string
	maxSeg  int64
	allTorn bool

	exp        crashExpect
	ops        []seqOp
	lastFooter map[string]uint64
	imgN       int
	images     int
	bad        int
	sampleJ    int
}

func (c *crashCase) witness(point string, d *drained, extra map[string]interface{}) interface{} {
	ops := c.ops
	if len(ops) > 200 {
		ops = ops[len(ops)-200:]
	}
	w := map[string]interface{}{"case_seed": c.seed, "max_segment_size": c.maxSeg, "ops_so_far": ops, "crash_point": point,
		"accepted_ids": trimU64(c.exp.returned, 200), "advances_returned": c.exp.advanced, "advance_in_flight": c.exp.advInFlight, "append_in_flight": c.exp.appInFlight}
	if d != nil {
		w["recovered"] = d
	}
	for k, v := range extra {
		w[k] = v
	}
	return w
}

// snapshot copies the queue directory into a new image directory.
func (c *crashCase) snapshot() string {
	c.imgN++
	img := filepath.Join(c.imgRoot, strconv.Itoa(c.imgN))
	if err := copyDir(c.dir, img); err != nil {
		harnessFatal("copy image: %v", err)
	}
	return img
}

func patchFile(path string, off int64, data []byte, truncateTo int64) {
	f, err := os.OpenFile(path, os.O_RDWR|os.O_CREATE, 0o600)
	if err != nil {
		harnessFatal("patch image: %v", err)
	}
	if len(data) > 0 {
		if _, err := f.WriteAt(data, off); err != nil {
			harnessFatal("patch image: %v", err)
		}
	}
	if truncateTo >= 0 {
		f.Truncate(truncateTo)
	}
	f.Close()
}

// judge reopens an image and checks what a restarted process would deliver.
// class names the crash point (part of the signature). Wrong recoveries of an
// image whose head pointer (footer) is not usable are filed under one
// signature per crash class, "<class>/footer-destroyed": the observable
// outcome (loss, garbage, re-delivery, wedged queue) then only depends on which
// garbage offset the torn bytes happen to spell.
func (c *crashCase) judge(img, class, point string, exp crashExpect, extra map[string]interface{}) {
	c.judgeF(img, class, point, exp, extra, "", nil)
}

// judgeF: for torn images tornFile names the segment file that was patched and
// headOffsets the value(s) its footer legitimately holds (the live head
// offset); the footer counts as destroyed when the file ends in anything else.
func (c *crashCase) judgeF(img, class, point string, exp crashExpect, extra map[string]interface{}, tornFile string, headOffsets []uint64) {
	defer os.RemoveAll(img)
	c.images++
	r.Eval(1)
	r.Count("crash_images_checked", 1)
	r.Count("crash_images_"+class, 1)
	footersOK := allFootersValid(img)
	if tornFile != "" {
		footersOK = false
		if b, err := os.ReadFile(filepath.Join(img, tornFile)); err == nil && len(b) >= 8 {
			v := binary.BigEndian.Uint64(b[len(b)-8:])
			for _, h := range headOffsets {
				if v == h {
					footersOK = allFootersValid(img)
				}
			}
		}
	}
	if !footersOK {
		r.Count("crash_images_with_unusable_footer", 1)
	}
	report := func(kind, what string, d *drained) {
		c.bad++
		x := map[string]interface{}{"image_footers_usable": footersOK}
		for k, v := range extra {
			x[k] = v
		}
		sig := "C04/crash-image/" + class + "/" + kind
		if !footersOK && kind != "panic-on-reopen" {
			sig = "C04/crash-image/" + class + "/footer-destroyed"
			what = "head pointer unusable after the torn write; " + what
		}
		r.Violation(sig, c.caseID+"@"+point, what, c.witness(point, d, x))
	}
	var q *hh.VerifQueue
	var d drained
	var openErr error
	stage := "open"
	full := append(append([]uint64{}, exp.returned...), exp.appInFlight...)
	valid := false
	maxS := exp.advanced
	if exp.advInFlight {
		maxS++
	}
	var afterMsg string
	pmsg := guarded(func() {
		var err error
		q, err = hh.NewVerifQueue(img, 1<<40, 64)
		if err != nil {
			harnessFatal("NewVerifQueue: %v", err)
		}
		if openErr = q.Open(); openErr != nil {
			return
		}
		defer q.Close()
		q.SetMaxSegmentSize(c.maxSeg)
		stage = "drain"
		d = drainQueue(q, img, len(exp.returned)+len(exp.appInFlight)+20)
		for s := exp.advanced; s <= maxS && !valid; s++ {
			for t := 0; t <= len(exp.appInFlight) && !valid; t++ {
				end := len(exp.returned) + t
				if s > end {
					valid = len(d.IDs) == 0
					continue
				}
				valid = equalIDs(d.IDs, full[s:end])
			}
		}
		if d.Stuck {
			valid = false
		}
		if !valid {
			return
		}
		// the recovered queue must still work: one more block goes through
		stage = "append-after-recovery"
		xid := uint64(0xC04)<<40 | uint64(c.imgN)
		if err := q.Append(mkBlock(xid, 24)); err != nil {
			afterMsg = "the recovered queue refused a new block: " + err.Error()
			return
		}
		d2 := drainQueue(q, img, 10)
		if len(d2.IDs) != 1 || d2.Foreign != 0 || d2.IDs[0] != xid {
			afterMsg = fmt.Sprintf("a block appended to the recovered queue was not read back (got %v)", d2.IDs)
		}
	})
	if pmsg != "" {
		report("panic-on-reopen", fmt.Sprintf("the code under test panicked during %s of the crash image: %s", stage, firstLine(pmsg)), nil)
		return
	}
	if openErr != nil {
		report("open-fails", "a fresh queue failed to Open the crash image: "+openErr.Error(), nil)
		return
	}
	if valid {
		if afterMsg != "" {
			report("unusable-after-recovery", afterMsg, &d)
		}
		return
	}
	// classify
	kind := "order-or-duplicate"
	pos := map[uint64]int{}
	for i, id := range full {
		pos[id] = i
	}
	got := map[uint64]int{}
	unknown := d.Foreign > 0
	for _, id := range d.IDs {
		if _, ok := pos[id]; !ok {
			unknown = true
		}
		got[id]++
	}
	missing := 0
	for i := maxS; i < len(exp.returned); i++ {
		if got[exp.returned[i]] == 0 {
			missing++
		}
	}
	redelivered := 0
	for i := 0; i < exp.advanced && i < len(exp.returned); i++ {
		if got[exp.returned[i]] > 0 {
			redelivered++
		}
	}
	what := ""
	switch {
	case d.Stuck:
		kind = "queue-unreadable"
		what = fmt.Sprintf("the reopened image cannot be drained (read errors %v)", d.ReadErrs)
	case unknown:
		kind = "foreign-block"
		what = fmt.Sprintf("the reopened image delivers %d blocks that were never appended (garbage)", d.Foreign)
	case missing > 0:
		kind = "loses-returned-blocks"
		what = fmt.Sprintf("the reopened image lacks %d of the %d blocks whose Append had returned and that were not yet advanced", missing, len(exp.returned)-maxS)
	case redelivered > 0:
		kind = "redelivers-advanced-blocks"
		what = fmt.Sprintf("the reopened image delivers again %d blocks whose Advance had returned", redelivered)
	default:
		what = "the reopened image delivers the pending blocks out of order or more than once"
	}
	report(kind, what+fmt.Sprintf(" (recovered %d blocks, %d truncations)", len(d.IDs), d.Truncs), &d)
}

func firstLine(s string) string {
	if i := strings.IndexByte(s, '\n'); i >= 0 {
		return s[:i]
	}
	return s
}

func equalIDs(a, b []uint64) bool {
	if len(a) != len(b) {
		return false
	}
	for i := range a {
		if a[i] != b[i] {
			return false
		}
	}
	return true
}

func (c *crashCase) expNow() crashExpect {
	e := c.exp
	e.returned = append([]uint64(nil), c.exp.returned...)
	e.appInFlight = append([]uint64(nil), c.exp.appInFlight...)
	return e
}

func (c *crashCase) tornOffsets(L int) []int {
	var js []int
	if c.allTorn || L <= 48 {
		for j := 1; j < L; j++ {
			js = append(js, j)
		}
		return js
	}
	// sampled: both ends densely, the middle by a seeded stride
	seen := map[int]bool{}
	add := func(j int) {
		if j >= 1 && j < L && !seen[j] {
			seen[j] = true
			js = append(js, j)
		}
	}
	for j := 1; j <= 18; j++ {
		add(j)
	}
	for j := L - 18; j < L; j++ {
		add(j)
	}
	stride := 5 + c.g.Intn(9)
	for j := 19 + c.g.Intn(stride); j < L-18; j += stride {
		add(j)
	}
	return js
}

func (c *crashCase) hook(name string, args []interface{}) {
	path := args[0].(string)
	base := filepath.Base(path)
	switch name {
	case "hh.flush.before":
		off := args[1].(int64)
		data := append([]byte(nil), args[2].([]byte)...)
		L := len(data)
		exp := c.expNow()
		c.judge(c.snapshot(), "before-write", fmt.Sprintf("flush.before:%s@%d", base, off), exp, nil)
		for _, j := range c.tornOffsets(L) {
			class := "torn-inside-new-block"
			switch {
			case j <= 8:
				class = "torn-old-footer-overwrite"
			case j > L-8:
				class = "torn-inside-new-footer"
			}
			img := c.snapshot()
			patchFile(filepath.Join(img, base), off, data[:j], -1)
			c.judgeF(img, class, fmt.Sprintf("flush.torn:%s@%d+%d/%d", base, off, j, L), exp, map[string]interface{}{"torn_bytes_written": j, "pending_write_len": L, "write_offset": off},
				base, []uint64{binary.BigEndian.Uint64(data[L-8:])})
		}
		c.lastFooter[path] = binary.BigEndian.Uint64(data[L-8:])
	case "hh.flush.written", "hh.flush.synced":
		c.judge(c.snapshot(), name[3:], name[3:]+":"+base, c.expNow(), nil)
		if name == "hh.flush.synced" && c.g.Intn(3) == 0 {
			// crash while the next segment file is being created
			files := segFiles(c.dir)
			last, _ := strconv.ParseUint(filepath.Base(files[len(files)-1]), 10, 64)
			k := []int{0, 3, 8}[c.g.Intn(3)]
			img := c.snapshot()
			patchFile(filepath.Join(img, strconv.FormatUint(last+1, 10)), 0, make([]byte, k), int64(k))
			c.judge(img, "new-segment-creation", fmt.Sprintf("flush.synced+new-segment-file-of-%d-bytes", k), c.expNow(), nil)
		}
	case "hh.advance":
		newpos := uint64(args[1].(int64))
		exp := c.expNow()
		c.judge(c.snapshot(), "advance", fmt.Sprintf("advance:%s->%d", base, newpos), exp, nil)
		if old, ok := c.lastFooter[path]; ok && old != newpos {
			var ob, nb [8]byte
			binary.BigEndian.PutUint64(ob[:], old)
			binary.BigEndian.PutUint64(nb[:], newpos)
			st, err := os.Stat(path)
			if err == nil {
				for j := 1; j < 8; j++ {
					mix := append(append([]byte{}, nb[:j]...), ob[j:]...)
					v := binary.BigEndian.Uint64(mix)
					if v == old || v == newpos {
						continue // indistinguishable from before/after
					}
					img := c.snapshot()
					patchFile(filepath.Join(img, base), st.Size()-8, mix, -1)
					c.judgeF(img, "torn-advance-footer", fmt.Sprintf("advance.torn:%s %d->%d +%d/8", base, old, newpos, j), exp, map[string]interface{}{"torn_bytes_written": j, "old_head_offset": old, "new_head_offset": newpos},
						base, []uint64{old, newpos})
				}
			}
		}
		c.lastFooter[path] = newpos
	case "hh.trim":
		c.judge(c.snapshot(), "trim", "trim:"+base, c.expNow(), nil)
		delete(c.lastFooter, path)
	}
}

func runCrash(caseID string, seed int64, root string, allTorn bool) {
	g := rand.New(rand.NewSource(seed))
	c := &crashCase{caseID: caseID, seed: seed, g: g, allTorn: allTorn, lastFooter: map[string]uint64{}}
	c.dir = filepath.Join(root, "cr-"+fmt.Sprint(seed&0xffffffffff))
	c.imgRoot = c.dir + ".img"
	os.RemoveAll(c.dir)
	os.RemoveAll(c.imgRoot)
	os.MkdirAll(c.dir, 0o755)
	os.MkdirAll(c.imgRoot, 0o755)
	defer os.RemoveAll(c.dir)
	defer os.RemoveAll(c.imgRoot)
	c.maxSeg = []int64{96, 160, 300, 700, 1500}[g.Intn(5)]
	nops := 10 + g.Intn(22)
	r.Begin(caseID, map[string]interface{}{"seed": seed, "ops": nops, "max_segment_size": c.maxSeg})

	q, err := hh.NewVerifQueue(c.dir, 1<<40, 64)
	if err != nil {
		harnessFatal("NewVerifQueue: %v", err)
	}
	if err := q.Open(); err != nil {
		r.Violation("C04/open-fails/fresh-queue", caseID, "Open failed: "+err.Error(), nil)
		return
	}
	q.SetMaxSegmentSize(c.maxSeg)
	observe(c.dir, c.hook)
	defer unobserve(c.dir)
	defer q.Close()

	nextID := uint64(1 + g.Intn(500))
	if g.Intn(2) == 0 {
		nextID |= uint64(1+g.Intn(0xfffe)) << 48
	}
	pendingAtImage := false
	for i := 0; i < nops; i++ {
		pending := len(c.exp.returned) - c.exp.advanced
		if g.Intn(100) < 58 || pending == 0 {
			limit := int(c.maxSeg) - 8
			n := blockMin + g.Intn(1+limit*2/5)
			if g.Intn(8) == 0 {
				n = limit - g.Intn(3)
			}
			if n > 260 {
				n = 260 - g.Intn(100)
			}
			id := nextID
			nextID++
			c.exp.appInFlight = []uint64{id}
			c.ops = append(c.ops, seqOp{"append", int64(n), id, ""})
			if pending > 0 {
				pendingAtImage = true
			}
			err := q.Append(mkBlock(id, n))
			c.exp.appInFlight = nil
			if err != nil {
				c.ops[len(c.ops)-1].Res = "rejected: " + err.Error()
				continue
			}
			c.exp.returned = append(c.exp.returned, id)
		} else {
			// consume the head like SendWrite: Current (skip exhausted segments), then Advance
			var b []byte
			var err error
			for k := 0; k < 6; k++ {
				b, err = q.Current()
				if err == nil {
					break
				}
				q.Advance()
			}
			want := c.exp.returned[c.exp.advanced]
			if id, ok := decBlock(b); err != nil || !ok || id != want {
				r.Violation("C04/fifo/wrong-block-in-crash-history", caseID, fmt.Sprintf("Current() returned id %d (err %v), expected %d", id, err, want), c.witness("live", nil, nil))
				return
			}
			c.ops = append(c.ops, seqOp{"deliver", 0, want, ""})
			c.exp.advInFlight = true
			q.Advance()
			c.exp.advInFlight = false
			c.exp.advanced++
		}
	}
	r.Count("crash_histories", 1)
	if pendingAtImage && c.images > 0 {
		r.Nontrivial(fmt.Sprintf("crash|%d|%d|%d", c.maxSeg, len(c.exp.returned), c.exp.advanced))
	}
	if r.WantSample() && len(c.ops) < 16 {
		r.Sample(map[string]interface{}{"case": caseID, "kind": "crash history", "ops": c.ops, "images_checked": c.images, "images_violating": c.bad})
	}
}

// ---------------------------------------------------------------- concurrent crash images
//
// With >= 10 writers inside Append the queue acknowledges appends from its
// write buffer. Images taken at the flush hooks must still contain every
// block whose Append had returned when the image was taken.

func runCrashConc(caseID string, seed int64, K int, root string) {
	g := rand.New(rand.NewSource(seed))
	dir := filepath.Join(root, "cc-"+fmt.Sprint(seed&0xffffffffff))
	imgRoot := dir + ".img"
	os.RemoveAll(dir)
	os.RemoveAll(imgRoot)
	os.MkdirAll(dir, 0o755)
	os.MkdirAll(imgRoot, 0o755)
	defer os.RemoveAll(dir)
	defer os.RemoveAll(imgRoot)
	M := 8 + g.Intn(10)
	maxSeg := []int64{1024, 8192}[g.Intn(2)]
	every := 1 + g.Intn(3)
	r.Begin(caseID, map[string]interface{}{"seed": seed, "appenders": K, "per_appender": M})

	q, err := hh.NewVerifQueue(dir, 1<<40, 64)
	if err != nil {
		harnessFatal("NewVerifQueue: %v", err)
	}
	if err := q.Open(); err != nil {
		r.Violation("C04/open-fails/fresh-queue", caseID, "Open failed: "+err.Error(), nil)
		return
	}
	q.SetMaxSegmentSize(maxSeg)
	defer q.Close()

	retFlag := make([][]int32, K) // 1 once Append returned nil
	for a := range retFlag {
		retFlag[a] = make([]int32, M)
	}
	var hmu sync.Mutex
	imgN, images, hooksSeen, buffered := 0, 0, 0, 0
	wit := func(point string, extra map[string]interface{}) map[string]interface{} {
		w := map[string]interface{}{"case_seed": seed, "appenders": K, "per_appender": M, "max_segment_size": maxSeg, "crash_point": point}
		for k, v := range extra {
			w[k] = v
		}
		return w
	}
	observe(dir, func(name string, args []interface{}) {
		if name != "hh.flush.before" && name != "hh.flush.written" && name != "hh.flush.synced" {
			return
		}
		hmu.Lock()
		defer hmu.Unlock()
		hooksSeen++
		var pendingIDs []uint64
		if name == "hh.flush.before" {
			pendingIDs, _, _ = idsInFlush(args[2].([]byte))
			if len(pendingIDs) > 1 {
				buffered++
			}
		}
		if hooksSeen%every != 0 && len(pendingIDs) <= 1 {
			return
		}
		// ids whose Append has returned nil before this instant
		var returned []uint64
		for a := 0; a < K; a++ {
			for s := 0; s < M; s++ {
				if atomic.LoadInt32(&retFlag[a][s]) == 1 {
					returned = append(returned, concID(a, s))
				}
			}
		}
		imgN++
		img := filepath.Join(imgRoot, strconv.Itoa(imgN))
		if err := copyDir(dir, img); err != nil {
			harnessFatal("copy image: %v", err)
		}
		defer os.RemoveAll(img)
		images++
		r.Eval(1)
		r.Count("crash_images_checked", 1)
		r.Count("crash_images_concurrent_"+name[3:], 1)
		point := name[3:] + ":" + filepath.Base(args[0].(string))
		q2, _ := hh.NewVerifQueue(img, 1<<40, 64)
		if err := q2.Open(); err != nil {
			r.Violation("C04/crash-image/concurrent/"+name[3:]+"/open-fails", caseID+"@"+point, "a fresh queue failed to Open the crash image: "+err.Error(), wit(point, nil))
			return
		}
		defer q2.Close()
		q2.SetMaxSegmentSize(maxSeg)
		d := drainQueue(q2, img, K*M+20)
		if d.Foreign > 0 || d.Stuck || d.Truncs > 0 {
			r.Violation("C04/crash-image/concurrent/"+name[3:]+"/foreign-or-unreadable", caseID+"@"+point, fmt.Sprintf("the reopened image is not cleanly readable (foreign %d, truncations %d, errors %v)", d.Foreign, d.Truncs, d.ReadErrs), wit(point, nil))
			return
		}
		got := map[uint64]int{}
		lastSeq := map[uint64]uint64{}
		for _, id := range d.IDs {
			got[id]++
			a, s := id>>32, id&0xffffffff
			if got[id] > 1 {
				r.Violation("C04/crash-image/concurrent/"+name[3:]+"/duplicate-block", caseID+"@"+point, fmt.Sprintf("block %#x is in the image twice", id), wit(point, nil))
				return
			}
			if a == 0 || a > uint64(K) || s == 0 || s > uint64(M) {
				r.Violation("C04/crash-image/concurrent/"+name[3:]+"/foreign-or-unreadable", caseID+"@"+point, fmt.Sprintf("block %#x was never appended", id), wit(point, nil))
				return
			}
			if s < lastSeq[a] {
				r.Violation("C04/crash-image/concurrent/"+name[3:]+"/per-appender-order", caseID+"@"+point, fmt.Sprintf("appender %d: seq %d stored after seq %d", a-1, s-1, lastSeq[a]-1), wit(point, nil))
				return
			}
			lastSeq[a] = s
		}
		var missing, missingBuffered []uint64
		inPending := map[uint64]bool{}
		for _, id := range pendingIDs {
			inPending[id] = true
		}
		for _, id := range returned {
			if got[id] == 0 {
				if inPending[id] {
					missingBuffered = append(missingBuffered, id)
				} else {
					missing = append(missing, id)
				}
			}
		}
		if len(missingBuffered) > 0 {
			r.Violation("C04/crash-image/concurrent/returned-append-still-in-write-buffer", caseID+"@"+point,
				fmt.Sprintf("%d appends had returned nil but their blocks were only in the segment's write buffer (part of the write that was about to start): a crash here loses acknowledged blocks", len(missingBuffered)),
				wit(point, map[string]interface{}{"returned_but_unwritten": trimU64(missingBuffered, 32), "blocks_in_pending_write": len(pendingIDs)}))
		}
		if len(missing) > 0 {
			r.Violation("C04/crash-image/concurrent/"+name[3:]+"/loses-returned-blocks", caseID+"@"+point,
				fmt.Sprintf("%d appends had returned nil but their blocks are not in the image", len(missing)), wit(point, map[string]interface{}{"missing": trimU64(missing, 32)}))
		}
	})
	defer unobserve(dir)

	var wg sync.WaitGroup
	gate := make(chan struct{})
	for a := 0; a < K; a++ {
		wg.Add(1)
		go func(a int) {
			defer wg.Done()
			<-gate
			for s := 0; s < M; s++ {
				if q.Append(mkBlock(concID(a, s), 24+((a+s)%40))) == nil {
					atomic.StoreInt32(&retFlag[a][s], 1)
				}
			}
		}(a)
	}
	close(gate)
	wg.Wait()
	r.Count("crash_conc_runs", 1)
	r.Count("crash_conc_buffered_flushes", int64(buffered))
	if images > 0 && (K < 10 || buffered > 0) {
		r.Nontrivial(fmt.Sprintf("crashconc|%d|%v|%d", K, buffered > 0, every))
	}
}
