package main

import (
	"encoding/binary"
	"fmt"
	"io"
	"os"
	"path/filepath"
	"runtime/debug"
	"sort"
	"strconv"
	"strings"
	"sync"

	"github.com/influxdata/influxdb/pkg/verifhook"
	"github.com/influxdata/influxdb/services/hh"
)

// ---------------------------------------------------------------- blocks
//
// Every block the harness appends is self-describing: 8-byte id, 4-byte total
// length, 4-byte magic, filler derived from (id, offset). Anything read back
// from a queue either decodes to the id of a block the harness appended, or is
// a foreign (garbage) block.

const (
	blockMin   = 16
	blockMagic = 0xC04B10C4
)

func filler(id uint64, i int) byte {
	return byte(id*131+uint64(i)*29+7) | 1 // never zero
}

func mkBlock(id uint64, n int) []byte {
	if n < blockMin {
		n = blockMin
	}
	b := make([]byte, n)
	binary.BigEndian.PutUint64(b[0:8], id)
	binary.BigEndian.PutUint32(b[8:12], uint32(n))
	binary.BigEndian.PutUint32(b[12:16], blockMagic)
	for i := 16; i < n; i++ {
		b[i] = filler(id, i)
	}
	return b
}

func decBlock(b []byte) (uint64, bool) {
	if len(b) < blockMin {
		return 0, false
	}
	id := binary.BigEndian.Uint64(b[0:8])
	if int(binary.BigEndian.Uint32(b[8:12])) != len(b) || binary.BigEndian.Uint32(b[12:16]) != blockMagic {
		return 0, false
	}
	for i := 16; i < len(b); i++ {
		if b[i] != filler(id, i) {
			return 0, false
		}
	}
	return id, true
}

// idsInFlush parses the byte string handed to hh.flush.before: a sequence of
// (8-byte length, body) frames followed by the 8-byte footer.
func idsInFlush(data []byte) (ids []uint64, footer uint64, ok bool) {
	if len(data) < 8 {
		return nil, 0, false
	}
	body := data[:len(data)-8]
	footer = binary.BigEndian.Uint64(data[len(data)-8:])
	for len(body) > 0 {
		if len(body) < 8 {
			return ids, footer, false
		}
		n := binary.BigEndian.Uint64(body[:8])
		if n > uint64(len(body)-8) {
			return ids, footer, false
		}
		id, dok := decBlock(body[8 : 8+n])
		if !dok {
			return ids, footer, false
		}
		ids = append(ids, id)
		body = body[8+n:]
	}
	return ids, footer, true
}

// ---------------------------------------------------------------- hooks
//
// Hooks are process-wide; cases run in parallel, each on its own queue
// directory, so handlers are looked up by the directory of the segment path.

var observers sync.Map // queue dir -> func(name string, args []interface{})

var hookNames = []string{"hh.flush.before", "hh.flush.written", "hh.flush.synced", "hh.advance", "hh.trim"}

func installHooks() {
	for _, n := range hookNames {
		verifhook.Set(n, dispatch)
	}
}

func dispatch(name string, args ...interface{}) error {
	if len(args) == 0 {
		return nil
	}
	p, ok := args[0].(string)
	if !ok {
		return nil
	}
	if o, ok := observers.Load(filepath.Dir(p)); ok {
		o.(func(string, []interface{}))(name, args)
	}
	return nil
}

func observe(dir string, f func(name string, args []interface{})) {
	observers.Store(filepath.Clean(dir), f)
}
func unobserve(dir string) { observers.Delete(filepath.Clean(dir)) }

// ---------------------------------------------------------------- files

// segFiles lists the segment files (numeric names) of a queue directory in
// segment order.
func segFiles(dir string) []string {
	es, err := os.ReadDir(dir)
	if err != nil {
		return nil
	}
	type sf struct {
		id uint64
		p  string
	}
	var l []sf
	for _, e := range es {
		if e.IsDir() {
			continue
		}
		id, err := strconv.ParseUint(e.Name(), 10, 64)
		if err != nil {
			continue
		}
		l = append(l, sf{id, filepath.Join(dir, e.Name())})
	}
	sort.Slice(l, func(i, j int) bool { return l[i].id < l[j].id })
	out := make([]string, len(l))
	for i := range l {
		out[i] = l[i].p
	}
	return out
}

func copyDir(src, dst string) error {
	if err := os.MkdirAll(dst, 0o755); err != nil {
		return err
	}
	es, err := os.ReadDir(src)
	if err != nil {
		return err
	}
	for _, e := range es {
		if e.IsDir() {
			continue
		}
		b, err := os.ReadFile(filepath.Join(src, e.Name()))
		if err != nil {
			if os.IsNotExist(err) {
				continue
			}
			return err
		}
		if err := os.WriteFile(filepath.Join(dst, e.Name()), b, 0o600); err != nil {
			return err
		}
	}
	return nil
}

func harnessFatal(format string, a ...interface{}) {
	fmt.Fprintf(os.Stderr, "harness error: "+format+"\n", a...)
	os.Exit(3) // ev.ExitBroken
}

// ---------------------------------------------------------------- drain
//
// drainQueue empties a queue the way NodeProcessor.SendWrite consumes it:
// Current; on io.EOF try Advance (skip an exhausted head segment); on another
// error Truncate the head segment (what SendWrite does with a corrupt block);
// otherwise take the block and Advance.

type drained struct {
	IDs      []uint64 `json:"ids"`
	Foreign  int      `json:"foreign_blocks"`
	Truncs   int      `json:"truncates"`
	ReadErrs []string `json:"read_errors,omitempty"`
	Stuck    bool     `json:"stuck,omitempty"`
}

func drainQueue(q *hh.VerifQueue, dir string, limit int) drained {
	var d drained
	nseg := len(segFiles(dir))
	eofRounds, errRounds := 0, 0
	for len(d.IDs) < limit {
		b, err := q.Current()
		if err == io.EOF {
			if eofRounds > nseg+1 {
				return d
			}
			eofRounds++
			q.Advance()
			continue
		}
		if err != nil {
			if len(d.ReadErrs) < 4 {
				d.ReadErrs = append(d.ReadErrs, err.Error())
			}
			errRounds++
			if errRounds > nseg+3 {
				d.Stuck = true
				return d
			}
			d.Truncs++
			q.Truncate()
			continue
		}
		eofRounds = 0
		if id, ok := decBlock(b); ok {
			d.IDs = append(d.IDs, id)
		} else {
			d.Foreign++
			d.IDs = append(d.IDs, 0)
		}
		if err := q.Advance(); err != nil {
			d.ReadErrs = append(d.ReadErrs, "advance: "+err.Error())
			return d
		}
	}
	d.Stuck = true
	return d
}

// guarded runs f and turns a panic raised by the code under test into a
// description (the calls are synchronous, so the panic unwinds through f).
func guarded(f func()) (panicked string) {
	defer func() {
		if e := recover(); e != nil {
			st := string(debug.Stack())
			if !strings.Contains(st, "influxdb/services/hh.") {
				panic(e) // not raised under the code under test: a harness bug
			}
			if i := strings.Index(st, "services/hh"); i >= 0 {
				j := i - 200
				if j < 0 {
					j = 0
				}
				k := i + 600
				if k > len(st) {
					k = len(st)
				}
				st = st[j:k]
			} else if len(st) > 800 {
				st = st[:800]
			}
			panicked = fmt.Sprintf("%v\n%s", e, st)
		}
	}()
	f()
	return ""
}

// footerValid reports whether a segment file ends in a usable head pointer:
// the last 8 bytes are an offset inside the file from which a chain of
// complete (length, body) frames ends exactly where the footer starts.
func footerValid(path string) bool {
	b, err := os.ReadFile(path)
	if err != nil {
		return false
	}
	if len(b) == 0 {
		return true // treated as a new segment
	}
	if len(b) < 8 {
		return false
	}
	end := uint64(len(b) - 8)
	p := binary.BigEndian.Uint64(b[end:])
	for p < end {
		if p+8 > end {
			return false
		}
		n := binary.BigEndian.Uint64(b[p : p+8])
		if n > end-p-8 {
			return false
		}
		p += 8 + n
	}
	return p == end
}

func allFootersValid(dir string) bool {
	for _, f := range segFiles(dir) {
		if !footerValid(f) {
			return false
		}
	}
	return true
}

// describeDir summarises the segment files of a queue directory for witnesses.
func describeDir(dir string) []string {
	var out []string
	for _, f := range segFiles(dir) {
		b, err := os.ReadFile(f)
		if err != nil {
			continue
		}
		foot := "-"
		if len(b) >= 8 {
			foot = fmt.Sprint(binary.BigEndian.Uint64(b[len(b)-8:]))
		}
		out = append(out, fmt.Sprintf("%s: size=%d footer=%s", filepath.Base(f), len(b), foot))
	}
	return out
}

// emptySignature classifies a wrong Empty() answer by mechanism rather than by
// the exact operation: queue.Empty() compares the head position with the
// segment file's current OS offset, which is only meaningful right after an
// append or a read of the head block.
//
//	ctx   last operation that moved the head position / file offset / segment list
//	nseg  segment files on disk
func emptySignature(saidEmpty bool, ctx string, nseg int) string {
	offsetFresh := ctx == "append" || ctx == "append-rollover" || ctx == "current" || ctx == "failed-send"
	if saidEmpty {
		if offsetFresh {
			return "C04/empty-true-with-pending-blocks/after-" + ctx
		}
		return "C04/empty-true-with-pending-blocks/stale-file-offset"
	}
	switch {
	case ctx == "purge-of-all-segments":
		return "C04/empty-false-with-nothing-pending/stale-tail-after-purge-of-last-segment"
	case offsetFresh:
		return "C04/empty-false-with-nothing-pending/after-" + ctx
	case nseg >= 2:
		return "C04/empty-false-with-nothing-pending/exhausted-head-and-empty-tail-segments"
	}
	return "C04/empty-false-with-nothing-pending/stale-file-offset"
}
