package main

// Close arriving while the NodeProcessor's run loop drains the queue, with the
// target failing from then on: every block that was accepted and not
// acknowledged by the target must still be in the queue after a reopen.

import (
	"bytes"
	"fmt"
	"io"
	"math/rand"
	"os"
	"path/filepath"
	"sync"
	"time"

	"github.com/influxdata/influxdb/models"
	"github.com/influxdata/influxdb/services/hh"
	"github.com/influxdata/influxdb/toml"
)

// gateWriter answers the first send only when released; later sends fail with
// a retryable error (failAfter) or succeed.
type gateWriter struct {
	mu        sync.Mutex
	inFirst   chan struct{}
	release   chan struct{}
	calls     int
	acked     [][][]byte
	refused   int
	failAfter bool
}

func (w *gateWriter) WriteShardBinary(shardID, ownerID uint64, points [][]byte) error {
	w.mu.Lock()
	w.calls++
	n := w.calls
	w.mu.Unlock()
	cp := make([][]byte, len(points))
	for i, p := range points {
		cp[i] = append([]byte(nil), p...)
	}
	if n == 1 && w.inFirst != nil {
		close(w.inFirst)
		<-w.release
	} else if w.failAfter {
		w.mu.Lock()
		w.refused++
		w.mu.Unlock()
		return errRetry
	}
	w.mu.Lock()
	w.acked = append(w.acked, cp)
	w.mu.Unlock()
	return nil
}

func runProcCloseDuringDrain(caseID string, seed int64, root string) {
	g := rand.New(rand.NewSource(seed))
	dir := filepath.Join(root, "cd-"+fmt.Sprint(seed&0xffffffffff))
	os.RemoveAll(dir)
	defer os.RemoveAll(dir)
	r.Begin(caseID, map[string]interface{}{"seed": seed})
	r.Eval(1)

	cfg := idleConfig()
	cfg.RetryInterval = toml.Duration(5 * time.Millisecond)
	cfg.RetryMaxInterval = toml.Duration(10 * time.Millisecond)
	w := &gateWriter{inFirst: make(chan struct{}), release: make(chan struct{}), failAfter: true}
	m := &metaDouble{active: 1}
	// The queue is filled through an idle processor first: a run loop that
	// polls an empty queue while blocks are appended is a different (known)
	// history, the EOF-advance race.
	np0 := hh.NewNodeProcessor(idleConfig(), 3, 7, dir, &gateWriter{}, m)
	if err := np0.Open(); err != nil {
		r.Inconclusive(caseID + ": open: " + err.Error())
		return
	}
	nblocks := 3 + g.Intn(5)
	var accepted [][][]byte
	var seq uint64 = 1
	for b := 0; b < nblocks; b++ {
		var pts []models.Point
		for k := 0; k < 1+g.Intn(3); k++ {
			pts = append(pts, mkPoint(seq, g.Intn(40)))
			seq++
		}
		if err := np0.WriteShard(pts); err != nil {
			r.Inconclusive(caseID + ": WriteShard: " + err.Error())
			np0.Close()
			return
		}
		accepted = append(accepted, marshalPoints(pts))
	}
	if err := np0.Close(); err != nil {
		r.Inconclusive(caseID + ": close of the filling processor: " + err.Error())
		return
	}
	np := hh.NewNodeProcessor(cfg, 3, 7, dir, w, m)
	if err := np.Open(); err != nil {
		r.Inconclusive(caseID + ": open: " + err.Error())
		return
	}
	// the run loop picks up the first block
	select {
	case <-w.inFirst:
	case <-time.After(30 * time.Second):
		r.Inconclusive(caseID + ": the run loop did not start sending")
		close(w.release)
		np.Close()
		return
	}
	closed := make(chan struct{})
	go func() { np.Close(); close(closed) }()
	// give Close the time to queue up behind the send in flight (not a verdict:
	// if it has not, the history is an ordinary close)
	time.Sleep(time.Duration(5+g.Intn(30)) * time.Millisecond)
	close(w.release)
	select {
	case <-closed:
	case <-time.After(60 * time.Second):
		r.Inconclusive(caseID + ": Close did not return")
		return
	}
	w.mu.Lock()
	ackedFirst := append([][][]byte(nil), w.acked...)
	refused := w.refused
	w.mu.Unlock()

	// restart with a healthy target and drain by hand
	w2 := &gateWriter{}
	np2 := hh.NewNodeProcessor(idleConfig(), 3, 7, dir, w2, m)
	if err := np2.Open(); err != nil {
		r.Violation("C04/open-fails/node-processor", caseID, "NodeProcessor.Open failed after a close during the drain: "+err.Error(), map[string]interface{}{"case_seed": seed})
		return
	}
	for i := 0; i < 4*nblocks+8; i++ {
		if _, err := np2.SendWrite(); err == io.EOF && np2.Empty() {
			break
		}
	}
	np2.Close()
	delivered := append(ackedFirst, w2.acked...)
	r.Count("close_during_drain_histories", 1)
	r.Count("close_during_drain_sends_refused_after_close", int64(refused))
	// every accepted block must have been acknowledged by the target, in order
	// (a block may be delivered twice: at-least-once)
	di := 0
	for bi, blk := range accepted {
		found := false
		for di < len(delivered) {
			if sameBlock(delivered[di], blk) {
				found = true
				di++
				break
			}
			di++
		}
		if !found {
			r.Violation("C04/processor/close-during-drain/accepted-block-lost", caseID,
				fmt.Sprintf("block %d of %d accepted by NodeProcessor.WriteShard was never acknowledged by the target and is no longer in the queue after a restart (Close arrived while the run loop was draining; %d sends were refused with a retryable error after that)", bi+1, len(accepted), refused),
				map[string]interface{}{"case_seed": seed, "accepted_blocks": len(accepted), "acknowledged_before_close": len(ackedFirst), "acknowledged_after_restart": len(w2.acked), "refused_after_close": refused})
			return
		}
	}
	if refused > 0 {
		r.Nontrivial(fmt.Sprintf("close-during-drain|refused=%d|blocks=%d", min(refused, 3), nblocks))
	}
}

func sameBlock(a, b [][]byte) bool {
	if len(a) != len(b) {
		return false
	}
	for i := range a {
		if !bytes.Equal(a[i], b[i]) {
			return false
		}
	}
	return true
}
