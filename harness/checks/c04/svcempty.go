package main

// Service.Empty(shard, owner) is what the points writer asks before it decides
// between a direct write and an enqueue behind pending blocks: it must be false
// exactly for the (shard, owner) pairs that hold accepted, undelivered blocks.

import (
	"fmt"
	"math/rand"
	"os"
	"path/filepath"
	"time"

	"github.com/influxdata/influxdb/models"
	"github.com/influxdata/influxdb/services/hh"
	"github.com/influxdata/influxdb/toml"
)

func runSvcEmpty(caseID string, seed int64, root string) {
	g := rand.New(rand.NewSource(seed))
	dir := filepath.Join(root, "svce-"+fmt.Sprint(seed&0xffffffffff))
	os.RemoveAll(dir)
	defer os.RemoveAll(dir)
	r.Begin(caseID, map[string]interface{}{"seed": seed})
	r.Eval(1)

	cfg := hh.NewConfig()
	cfg.Dir = dir
	cfg.RetryInterval = toml.Duration(time.Hour) // nothing is delivered during the history
	cfg.RetryMaxInterval = toml.Duration(time.Hour)
	cfg.PurgeInterval = toml.Duration(time.Hour)
	cfg.MaxAge = toml.Duration(time.Hour)
	w := newSvcWriter(0, false)
	svc := hh.NewService(cfg, w)
	svc.MetaClient = &metaDouble{active: 1}
	if err := svc.Open(); err != nil {
		r.Violation("C04/open-fails/service", caseID, "Service.Open failed: "+err.Error(), nil)
		return
	}
	defer closeService(svc, 10*time.Second)

	type pair struct{ shard, node uint64 }
	ids := []uint64{2, 3, 5, 7, 11}
	pending := map[pair]int{}
	var ops []string
	id := uint64(1)
	for step := 0; step < 6+g.Intn(6); step++ {
		p := pair{ids[g.Intn(len(ids))], ids[g.Intn(len(ids))]}
		if err := svc.WriteShard(p.shard, p.node, []models.Point{idPoint(id)}); err != nil {
			r.Inconclusive(caseID + ": Service.WriteShard: " + err.Error())
			return
		}
		id++
		pending[p]++
		ops = append(ops, fmt.Sprintf("WriteShard(shard %d, node %d)", p.shard, p.node))
		// ask about every pair, including the mirrored ones
		for _, s := range ids {
			for _, n := range ids {
				got, want := svc.Empty(s, n), pending[pair{s, n}] == 0
				r.Count("service_empty_questions", 1)
				if got == want {
					continue
				}
				sig := "C04/service-empty/true-with-pending-blocks"
				what := fmt.Sprintf("Service.Empty(shard %d, node %d) = true although %d accepted blocks for that shard and node are pending", s, n, pending[pair{s, n}])
				if !got {
					sig = "C04/service-empty/false-with-nothing-pending"
					what = fmt.Sprintf("Service.Empty(shard %d, node %d) = false although nothing was ever queued for that shard and node", s, n)
				}
				r.Violation(sig, caseID, what, map[string]interface{}{"case_seed": seed, "ops": ops})
				return
			}
		}
	}
	r.Nontrivial(fmt.Sprintf("svc-empty|pairs=%d", min(len(pending), 6)))
}
