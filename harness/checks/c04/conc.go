package main

// Monitor (c): concurrent appenders x one consumer x Close at a seeded
// moment, then reopen and drain.

import (
	"encoding/binary"
	"fmt"
	"io"
	"math/rand"
	"os"
	"path/filepath"
	"runtime"
	"sort"
	"sync"
	"sync/atomic"
	"time"

	"github.com/influxdata/influxdb/models"
	"github.com/influxdata/influxdb/services/hh"
	"github.com/influxdata/influxdb/toml"
)

type appendRec struct {
	id       uint64
	appender int
	seq      int
	call     int64 // ns on one monotonic clock
	ret      int64
	returned bool
	err      error
}

type concResult struct {
	recs      map[uint64]*appendRec
	final     []uint64 // delivered before close ++ drained after reopen
	nBefore   int      // how many of final were delivered before close
	inFlight  uint64   // block delivered but not advanced when the consumer stopped (0 = none)
	flushed   map[uint64]bool
	haveFlush bool
	skipMoves int // Advance calls made in reaction to io.EOF that moved the head pointer
}

// judgeConc applies the oracle shared by the queue-level and the
// NodeProcessor-level concurrent runs.
func judgeConc(caseID, level string, res *concResult, wit func() map[string]interface{}) (ok bool) {
	viol := func(sig, what string, extra map[string]interface{}) {
		w := wit()
		for k, v := range extra {
			w[k] = v
		}
		r.Violation(sig, caseID, what, w)
		ok = false
	}
	ok = true
	count := map[uint64]int{}
	for _, id := range res.final {
		if id == 0 {
			viol("C04/concurrent/"+level+"/foreign-block", "a block that decodes to nothing the harness appended was read from the queue", nil)
			return
		}
		if _, known := res.recs[id]; !known {
			viol("C04/concurrent/"+level+"/foreign-block", fmt.Sprintf("block id %#x was never appended", id), nil)
			return
		}
		count[id]++
	}
	// nothing accepted is lost
	var lostFlushed, lostUnflushed []uint64
	for id, a := range res.recs {
		if a.returned && a.err == nil && count[id] == 0 {
			if res.haveFlush && !res.flushed[id] {
				lostUnflushed = append(lostUnflushed, id)
			} else {
				lostFlushed = append(lostFlushed, id)
			}
		}
	}
	sort.Slice(lostFlushed, func(i, j int) bool { return lostFlushed[i] < lostFlushed[j] })
	sort.Slice(lostUnflushed, func(i, j int) bool { return lostUnflushed[i] < lostUnflushed[j] })
	if len(lostUnflushed) > 0 {
		viol("C04/concurrent/"+level+"/accepted-block-lost-on-close/buffered-never-flushed",
			fmt.Sprintf("%d blocks whose Append returned nil were neither delivered nor found after Close+reopen; they were acknowledged from the write buffer and never written to the segment", len(lostUnflushed)),
			map[string]interface{}{"lost_ids": trimU64(lostUnflushed, 32)})
	}
	if len(lostFlushed) > 0 && res.skipMoves >= len(lostFlushed) {
		viol("C04/concurrent/"+level+"/accepted-block-lost/skipped-by-advance-after-stale-eof",
			fmt.Sprintf("%d blocks whose Append returned nil were written to a segment but neither delivered nor found after Close+reopen; %d times the consumer's Advance, issued because Current had returned io.EOF, moved the head pointer over a block appended in between", len(lostFlushed), res.skipMoves),
			map[string]interface{}{"lost_ids": trimU64(lostFlushed, 32)})
	} else if len(lostFlushed) > 0 {
		viol("C04/concurrent/"+level+"/accepted-block-lost",
			fmt.Sprintf("%d blocks whose Append returned nil (and that were written to a segment) were neither delivered nor found after Close+reopen", len(lostFlushed)),
			map[string]interface{}{"lost_ids": trimU64(lostFlushed, 32)})
	}
	// at least once, and more than once only for the block in flight at close
	var dups []uint64
	for id, c := range count {
		if c > 2 || (c == 2 && id != res.inFlight) {
			dups = append(dups, id)
		}
	}
	if len(dups) > 0 {
		sort.Slice(dups, func(i, j int) bool { return dups[i] < dups[j] })
		viol("C04/concurrent/"+level+"/duplicate-delivery", fmt.Sprintf("%d blocks were delivered more than once although they were not in flight at Close", len(dups)), map[string]interface{}{"dup_ids": trimU64(dups, 32)})
	}
	// order: first occurrence of every accepted block
	seen := map[uint64]bool{}
	lastSeq := map[int]int{}
	var maxCall int64 = -1
	var maxCallID uint64
	for _, id := range res.final {
		if seen[id] {
			continue
		}
		seen[id] = true
		a := res.recs[id]
		if !a.returned || a.err != nil {
			continue // not accepted: presence allowed, no ordering claim
		}
		if ls, okk := lastSeq[a.appender]; okk && a.seq < ls {
			viol("C04/concurrent/"+level+"/per-appender-order", fmt.Sprintf("appender %d: block seq %d was delivered after its later block seq %d", a.appender, a.seq, ls), nil)
			return
		}
		lastSeq[a.appender] = a.seq
		if maxCall > a.ret {
			viol("C04/concurrent/"+level+"/real-time-order", fmt.Sprintf("block %#x was delivered after block %#x although its Append had returned before that Append was called", id, maxCallID), nil)
			return
		}
		if a.call > maxCall {
			maxCall, maxCallID = a.call, id
		}
	}
	return
}

func trimU64(a []uint64, n int) []uint64 {
	if len(a) > n {
		return a[:n]
	}
	return a
}

func concID(appender, seq int) uint64 { return uint64(appender+1)<<32 | uint64(seq+1) }

// ---------------------------------------------------------------- queue level

func runConcQueue(caseID string, seed int64, K int, root string) {
	g := rand.New(rand.NewSource(seed))
	dir := filepath.Join(root, "cq-"+fmt.Sprint(seed&0xffffffffff))
	os.RemoveAll(dir)
	if err := os.MkdirAll(dir, 0o755); err != nil {
		harnessFatal("mkdir: %v", err)
	}
	defer os.RemoveAll(dir)
	M := 20 + g.Intn(60)
	if K >= 12 {
		M = 15 + g.Intn(30)
	}
	maxSeg := []int64{400, 4096, 65536}[g.Intn(3)]
	maxWrites := 64
	if g.Intn(5) == 0 && K > 2 {
		maxWrites = K / 2 // some appends are refused with ErrQueueBlocked
	}
	closeAt := g.Intn(K*M + 1)
	if g.Intn(6) == 0 {
		closeAt = K * M // after the burst
	}
	consumerMode := g.Intn(3)     // 0 eager, 1 yields, 2 starts late
	stopBetween := g.Intn(2) == 0 // consumer may stop between Current and Advance
	blkSize := 16 + g.Intn(100)
	r.Begin(caseID, map[string]interface{}{"seed": seed, "appenders": K, "per_appender": M, "close_at": closeAt})
	r.Eval(1)

	var fmu sync.Mutex
	flushed := map[uint64]bool{}
	multi := 0
	var inSkipAdvance, skipMoves int32
	observe(dir, func(name string, args []interface{}) {
		if name == "hh.advance" && atomic.LoadInt32(&inSkipAdvance) == 1 {
			atomic.AddInt32(&skipMoves, 1)
		}
		if name != "hh.flush.before" {
			return
		}
		ids, _, _ := idsInFlush(args[2].([]byte))
		fmu.Lock()
		for _, id := range ids {
			flushed[id] = true
		}
		if len(ids) > 1 {
			multi++
		}
		fmu.Unlock()
	})
	defer unobserve(dir)

	q, err := hh.NewVerifQueue(dir, 1<<40, maxWrites)
	if err != nil {
		harnessFatal("NewVerifQueue: %v", err)
	}
	wit := func() map[string]interface{} {
		return map[string]interface{}{"case_seed": seed, "appenders": K, "per_appender": M, "close_at_append": closeAt, "max_segment_size": maxSeg, "max_writes": maxWrites, "block_size": blkSize}
	}
	if err := q.Open(); err != nil {
		r.Violation("C04/open-fails/fresh-queue", caseID, "Open failed: "+err.Error(), wit())
		return
	}
	q.SetMaxSegmentSize(maxSeg)

	base := time.Now()
	recs := make([][]*appendRec, K)
	var started int64
	trig := make(chan struct{})
	var trigOnce sync.Once
	var wg sync.WaitGroup
	startGate := make(chan struct{})
	for a := 0; a < K; a++ {
		recs[a] = make([]*appendRec, 0, M)
		wg.Add(1)
		go func(a int) {
			defer wg.Done()
			<-startGate
			for s := 0; s < M; s++ {
				rec := &appendRec{id: concID(a, s), appender: a, seq: s}
				recs[a] = append(recs[a], rec)
				b := mkBlock(rec.id, blkSize)
				if int(atomic.AddInt64(&started, 1)) > closeAt {
					trigOnce.Do(func() { close(trig) })
				}
				rec.call = int64(time.Since(base))
				e := q.Append(b)
				rec.ret = int64(time.Since(base))
				rec.err = e
				rec.returned = true
				if e == hh.ErrNotOpen {
					return
				}
			}
		}(a)
	}
	// consumer
	var stopFlag int32
	var delivered []uint64
	var inFlight uint64
	consDone := make(chan struct{})
	var consErr string
	go func() {
		defer close(consDone)
		if consumerMode == 2 {
			for atomic.LoadInt64(&started) < int64(closeAt/2) && atomic.LoadInt32(&stopFlag) == 0 {
				runtime.Gosched()
			}
		}
		for atomic.LoadInt32(&stopFlag) == 0 {
			b, err := q.Current()
			if err == io.EOF {
				atomic.StoreInt32(&inSkipAdvance, 1)
				q.Advance()
				atomic.StoreInt32(&inSkipAdvance, 0)
				runtime.Gosched()
				continue
			}
			if err != nil {
				consErr = err.Error()
				return
			}
			id, _ := decBlock(b)
			delivered = append(delivered, id)
			if stopBetween && atomic.LoadInt32(&stopFlag) == 1 {
				inFlight = id
				return
			}
			q.Advance()
			if consumerMode == 1 {
				runtime.Gosched()
			}
		}
	}()
	close(startGate)
	// closer: stop the consumer first (NodeProcessor.Close waits for its send
	// loop before closing the queue), then Close while appenders keep going
	allDone := make(chan struct{})
	go func() { wg.Wait(); close(allDone) }()
	select {
	case <-trig:
	case <-allDone:
	}
	atomic.StoreInt32(&stopFlag, 1)
	<-consDone
	cerr := q.Close()
	select {
	case <-allDone:
	case <-time.After(120 * time.Second):
		r.Inconclusive(caseID + ": appenders did not finish after Close within the watchdog")
		return
	}
	if consErr != "" {
		r.Violation("C04/concurrent/queue/current-error", caseID, "Current() failed during concurrent appends: "+consErr, wit())
		return
	}
	if cerr != nil {
		r.Violation("C04/close-error", caseID, "Close failed: "+cerr.Error(), wit())
		return
	}
	// reopen and drain
	q2, _ := hh.NewVerifQueue(dir, 1<<40, 64)
	if err := q2.Open(); err != nil {
		r.Violation("C04/open-fails/clean-reopen", caseID, "Open after a clean Close failed: "+err.Error(), wit())
		return
	}
	q2.SetMaxSegmentSize(maxSeg)
	d := drainQueue(q2, dir, K*M+10)
	emptyAfter := q2.Empty()
	dirAfter := describeDir(dir)
	q2.Close()
	if d.Truncs > 0 || d.Stuck {
		r.Violation("C04/concurrent/queue/unreadable-after-clean-close", caseID, fmt.Sprintf("after Close+reopen the queue could not be read cleanly (read errors %v)", d.ReadErrs), wit())
		return
	}
	if !emptyAfter {
		x := wit()
		x["segments_after_drain"] = dirAfter
		x["drained"] = len(d.IDs)
		r.Violation(emptySignature(false, "reopen", len(dirAfter)), caseID, "Empty() returned false after the reopened queue was drained to EOF", x)
	}
	res := &concResult{recs: map[uint64]*appendRec{}, inFlight: inFlight, flushed: flushed, haveFlush: true, skipMoves: int(atomic.LoadInt32(&skipMoves))}
	r.Count("conc_queue_stale_eof_advances_that_moved_head", int64(res.skipMoves))
	nAcc, nErr, nBlocked := 0, 0, 0
	for a := range recs {
		for _, rec := range recs[a] {
			res.recs[rec.id] = rec
			switch {
			case rec.err == nil && rec.returned:
				nAcc++
			case rec.err == hh.ErrQueueBlocked:
				nBlocked++
			default:
				nErr++
			}
		}
	}
	res.final = append(append([]uint64{}, delivered...), d.IDs...)
	res.nBefore = len(delivered)
	w2 := func() map[string]interface{} {
		w := wit()
		w["accepted"] = nAcc
		w["delivered_before_close"] = len(delivered)
		w["drained_after_reopen"] = len(d.IDs)
		w["multi_block_flushes"] = multi
		return w
	}
	okk := judgeConc(caseID, "queue", res, w2)
	r.Count("conc_queue_runs", 1)
	r.Count(fmt.Sprintf("conc_queue_runs_%d_appenders", K), 1)
	r.Count("conc_queue_accepted", int64(nAcc))
	r.Count("conc_queue_refused_blocked", int64(nBlocked))
	r.Count("conc_queue_buffered_flushes", int64(multi))
	if multi > 0 {
		r.Count("conc_queue_runs_with_buffered_path", 1)
	}
	if inFlight != 0 {
		r.Count("conc_queue_runs_with_block_in_flight_at_close", 1)
	}
	if okk && nAcc > 0 && (K == 1 || K < 10 || multi > 0) {
		r.Nontrivial(fmt.Sprintf("concq|%d|%v|%d|%d|%v", K, multi > 0, consumerMode, closeAt*4/(K*M+1), inFlight != 0))
	}
}

// ---------------------------------------------------------------- NodeProcessor level

type idWriter struct {
	mu     sync.Mutex
	ids    []uint64
	g      *rand.Rand
	fails  int
	acks   int
	bad    int
	notify chan struct{}
}

func (w *idWriter) WriteShardBinary(shardID, ownerID uint64, points [][]byte) error {
	w.mu.Lock()
	defer w.mu.Unlock()
	if w.g != nil && w.g.Intn(12) == 0 {
		w.fails++
		return errRetry
	}
	for _, pb := range points {
		p, err := models.NewPointFromBytes(pb)
		if err != nil {
			w.bad++
			w.ids = append(w.ids, 0)
			continue
		}
		f, err := p.Fields()
		if err != nil {
			w.bad++
			w.ids = append(w.ids, 0)
			continue
		}
		v, _ := f["id"].(int64)
		w.ids = append(w.ids, uint64(v))
	}
	w.acks++
	return nil
}

// idsInProcFlush extracts the harness ids from a pending segment write made
// of marshalWrite blocks (8-byte shard id, then 4-byte length + point).
func idsInProcFlush(data []byte) (ids []uint64, frames int) {
	if len(data) < 8 {
		return
	}
	body := data[:len(data)-8]
	for len(body) >= 8 {
		l := int(binary.BigEndian.Uint64(body[:8]))
		if l < 0 || l+8 > len(body) {
			return
		}
		blk := body[8 : 8+l]
		body = body[8+l:]
		frames++
		if len(blk) < 8 {
			continue
		}
		blk = blk[8:]
		for len(blk) >= 4 {
			n := int(binary.BigEndian.Uint32(blk[:4]))
			if n < 0 || 4+n > len(blk) {
				break
			}
			if p, err := models.NewPointFromBytes(blk[4 : 4+n]); err == nil {
				if f, err := p.Fields(); err == nil {
					if v, ok := f["id"].(int64); ok {
						ids = append(ids, uint64(v))
					}
				}
			}
			blk = blk[4+n:]
		}
	}
	return
}

func runConcProc(caseID string, seed int64, K int, root string) {
	g := rand.New(rand.NewSource(seed))
	dir := filepath.Join(root, "cp-"+fmt.Sprint(seed&0xffffffffff))
	os.RemoveAll(dir)
	defer os.RemoveAll(dir)
	M := 10 + g.Intn(30)
	closeAt := g.Intn(K*M + 1)
	r.Begin(caseID, map[string]interface{}{"seed": seed, "writers": K, "per_writer": M, "close_at": closeAt})
	r.Eval(1)

	var fmu sync.Mutex
	multi := 0
	flushed := map[uint64]bool{}
	var advHooks int32
	observe(dir, func(name string, args []interface{}) {
		if name == "hh.advance" {
			atomic.AddInt32(&advHooks, 1)
		}
		if name != "hh.flush.before" {
			return
		}
		ids, frames := idsInProcFlush(args[2].([]byte))
		fmu.Lock()
		for _, id := range ids {
			flushed[id] = true
		}
		if frames > 1 {
			multi++
		}
		fmu.Unlock()
	})
	defer unobserve(dir)

	cfg := idleConfig()
	cfg.RetryInterval = toml.Duration(time.Millisecond) // the processor's own send loop is the consumer
	cfg.RetryMaxInterval = toml.Duration(4 * time.Millisecond)
	w := &idWriter{g: rand.New(rand.NewSource(seed + 1))}
	m := &metaDouble{active: 1}
	np := hh.NewNodeProcessor(cfg, 3, 7, dir, w, m)
	wit := func() map[string]interface{} {
		return map[string]interface{}{"case_seed": seed, "writers": K, "per_writer": M, "close_at_write": closeAt}
	}
	if err := np.Open(); err != nil {
		r.Violation("C04/open-fails/node-processor", caseID, "NodeProcessor.Open failed: "+err.Error(), wit())
		return
	}
	base := time.Now()
	recs := make([][]*appendRec, K)
	var started int64
	trig := make(chan struct{})
	var trigOnce sync.Once
	var wg sync.WaitGroup
	gate := make(chan struct{})
	for a := 0; a < K; a++ {
		wg.Add(1)
		go func(a int) {
			defer wg.Done()
			<-gate
			for s := 0; s < M; s++ {
				rec := &appendRec{id: concID(a, s), appender: a, seq: s}
				recs[a] = append(recs[a], rec)
				p, err := models.NewPoint("m", models.NewTags(map[string]string{"w": fmt.Sprint(a)}), models.Fields{"id": int64(rec.id)}, time.Unix(0, int64(s)))
				if err != nil {
					harnessFatal("NewPoint: %v", err)
				}
				if int(atomic.AddInt64(&started, 1)) > closeAt {
					trigOnce.Do(func() { close(trig) })
				}
				rec.call = int64(time.Since(base))
				e := np.WriteShard([]models.Point{p})
				rec.ret = int64(time.Since(base))
				rec.err = e
				rec.returned = true
				if e != nil && e != hh.ErrQueueBlocked {
					return
				}
			}
		}(a)
	}
	allDone := make(chan struct{})
	go func() { wg.Wait(); close(allDone) }()
	close(gate)
	select {
	case <-trig:
	case <-allDone:
	}
	cerr := np.Close()
	select {
	case <-allDone:
	case <-time.After(120 * time.Second):
		r.Inconclusive(caseID + ": writers did not finish after Close within the watchdog")
		return
	}
	if cerr != nil {
		r.Violation("C04/close-error", caseID, "NodeProcessor.Close failed: "+cerr.Error(), wit())
		return
	}
	w.mu.Lock()
	nBefore := len(w.ids)
	w.g = nil // no more injected failures
	acksBefore := w.acks
	w.mu.Unlock()
	// every head-pointer move must follow an acknowledged delivery
	skipMoves := int(atomic.LoadInt32(&advHooks)) - acksBefore
	if skipMoves < 0 {
		skipMoves = 0
	}
	r.Count("conc_proc_advances_without_delivery", int64(skipMoves))
	np2 := hh.NewNodeProcessor(idleConfig(), 3, 7, dir, w, m)
	if err := np2.Open(); err != nil {
		r.Violation("C04/open-fails/clean-reopen", caseID, "NodeProcessor.Open after a clean Close failed: "+err.Error(), wit())
		return
	}
	eofs := 0
	for guard := 0; guard < K*M+50 && eofs < 3; guard++ {
		_, err := np2.SendWrite()
		if err == io.EOF {
			eofs++
		} else if err != nil {
			np2.Close()
			r.Violation("C04/concurrent/processor/unreadable-after-clean-close", caseID, "SendWrite failed after Close+reopen: "+err.Error(), wit())
			return
		} else {
			eofs = 0
		}
	}
	emptyAfter := np2.Empty()
	np2.Close()
	if !emptyAfter {
		r.Violation(emptySignature(false, "reopen", len(segFiles(dir))), caseID, "NodeProcessor.Empty() returned false after the reopened queue was drained to EOF", wit())
	}
	res := &concResult{recs: map[uint64]*appendRec{}, flushed: flushed, haveFlush: true, skipMoves: skipMoves}
	nAcc := 0
	for a := range recs {
		for _, rec := range recs[a] {
			res.recs[rec.id] = rec
			if rec.returned && rec.err == nil {
				nAcc++
			}
		}
	}
	w.mu.Lock()
	res.final = append([]uint64{}, w.ids...)
	w.mu.Unlock()
	res.nBefore = nBefore
	if nBefore > 0 {
		res.inFlight = res.final[nBefore-1] // at most the last block sent before Close may repeat
	}
	w2 := func() map[string]interface{} {
		x := wit()
		x["accepted"] = nAcc
		x["delivered_before_close"] = nBefore
		x["delivered_total"] = len(res.final)
		x["multi_block_flushes"] = multi
		return x
	}
	okk := judgeConc(caseID, "processor", res, w2)
	r.Count("conc_proc_runs", 1)
	r.Count("conc_proc_accepted", int64(nAcc))
	r.Count("conc_proc_buffered_flushes", int64(multi))
	if okk && nAcc > 0 {
		r.Nontrivial(fmt.Sprintf("concp|%d|%v|%d", K, multi > 0, closeAt*4/(K*M+1)))
	}
}
