// C01 — acknowledged writes survive any crash and restart.
//
// A seeded history of writes / snapshots / compactions / deletes / restarts
// runs against a real tsdb.Store. At every durable step (hooks in the WAL,
// snapshot commit, FileStore.replace, tombstone commit, delete) the handler
// copies the store directory — a crash image under process-kill semantics —
// and, at every WAL sync, also the family of torn tails (newest segment cut
// at offsets between the previously synced length and the new length). Each
// image is reopened with a fresh Store and read back in full: every point of
// every acknowledged write must be there with the last acknowledged value
// (the one operation in flight may or may not have taken effect). Selected
// recovered images continue the history (more acknowledged writes, more
// crash points) so that consecutive crash/restart cycles are covered, and
// hooks firing while an image is being recovered give crashes during recovery.
package main

import (
	"context"
	"fmt"
	"math/rand"
	"os"
	"path/filepath"
	"runtime"
	"sort"
	"strings"
	"sync"
	"sync/atomic"
	"time"

	"github.com/influxdata/influxdb/pkg/verifhook"

	"verifharness/internal/crashimg"
	"verifharness/internal/ev"
	sm "verifharness/internal/shardmodel"
)

func main() { ev.Supervise("C01", body) }

var (
	r        *ev.Run
	maxDepth = 2

	regMu sync.Mutex
	reg   = map[string]*hctx{} // live root -> context
)

// hctx is one (sub)history running on one live root directory.
type hctx struct {
	caseID string
	seed   int64
	index  string
	base   string // scratch directory of the whole case
	root   string // live root
	env    *sm.Env
	tr     *sm.Tracker // state after completed (acknowledged) ops
	depth  int
	chain  []string // how this root came to be: e.g. ["torn@wal.synced"]
	ops    []string
	g      *rand.Rand

	// the op in flight
	pendW    []sm.Point
	pendD    *sm.PendingDel
	pendKind string

	walPre       map[string]int64
	imgSeq       *int
	contBudget   map[string]int // variant class -> images that may still be continued
	failSnapOnce bool           // inject one snapshot failure at snap.written
	midSnap      func()         // activity inside the failing snapshot: an acknowledged write and a colliding snapshot request
	extra        []sm.Point     // the batch midSnap writes (the generator placed it right after that snapshot)
	tornSnapOnce bool           // instead of an error: the freshly written snapshot file is cut in half before it is installed
	recovering   bool           // root is being opened (hooks = crash during recovery)
	failed       bool
	dead         *int32 // shared by all contexts of a case: the case was abandoned by a watchdog, whatever still runs must not judge
	tornMode     bool   // this history's snapshot fault is a torn output file
	tornActive   bool
	tornAll      bool
	noContinue   bool

	// A failed cache snapshot stays in memory for a retry. A delete that runs
	// before the retry neither reaches that data nor sees it when it prunes the
	// index (known finding, judged by C10); from then on violations of this case
	// carry the sticky condition in their signature instead of the crash chain.
	snapFailedPending bool
	taint             *string
}

func find(path string) *hctx {
	regMu.Lock()
	defer regMu.Unlock()
	var best *hctx
	bl := -1
	for root, c := range reg {
		if strings.HasPrefix(path, root+"/") || path == root {
			if len(root) > bl {
				best, bl = c, len(root)
			}
		}
	}
	return best
}

func register(c *hctx) {
	regMu.Lock()
	reg[c.root] = c
	regMu.Unlock()
}

func unregister(c *hctx) {
	regMu.Lock()
	delete(reg, c.root)
	regMu.Unlock()
}

var crashHooks = []string{"wal.sync.before", "wal.synced", "wal.rolled", "wal.removed", "wal.replay.truncated",
	"snap.written", "snap.installed", "snap.walremoved", "del.tombstoned", "del.cache", "del.wal",
	"fs.renamed", "fs.removed", "fs.synced", "tomb.committed"}

func body() {
	r = ev.Start("C01", "fault_enumeration")
	r.Rule = "each history (~24 ops: writes, snapshots, compactions, deletes, drops, clean restarts, one injected snapshot failure in some) yields a crash image at every firing of the WAL / snapshot / file-store / tombstone / delete hooks, plus torn-tail images at every WAL sync (all offsets in the unsynced range when it is <= 48 bytes, else frame boundaries +-1 and a seeded sample; every offset in thorough); selected recovered images continue the history to depth 2 (3 in thorough); hooks firing during recovery give crash-during-recovery images. An image is non-trivial when the model holds >=1 acknowledged point; distinct by (hook, op kind in flight, crash chain, torn/clean, hash of the file listing)."
	r.Assumptions = []string{
		"crash model = process kill: everything write(2) returned for is in the image; additionally the newest WAL segment is cut anywhere in its not-yet-fsynced suffix (the model the property states). Loss or reordering of un-fsynced page cache of other files is out of reach here",
		"one sequential client, so at most one operation is in flight at any hook; that operation may or may not be visible in the image",
		"a timestamp written twice inside one batch may hold either value",
	}
	r.Floor = 100
	if r.Thorough() {
		maxDepth = 3
	}
	n := r.Pick(24, 32)
	if v := os.Getenv("C01_N"); v != "" {
		fmt.Sscan(v, &n)
	}
	for _, h := range crashHooks {
		verifhook.Set(h, onHook)
	}
	rng := r.Rand("hist")
	type job struct {
		id   string
		seed int64
		idx  int
	}
	ch := make(chan job)
	scratch := ev.TempDir("c01")
	defer os.RemoveAll(scratch)
	var wg sync.WaitGroup
	for w := 0; w < runtime.NumCPU(); w++ {
		wg.Add(1)
		go func() {
			defer wg.Done()
			for j := range ch {
				base := filepath.Join(scratch, fmt.Sprintf("h%d", j.idx))
				os.MkdirAll(base, 0o755)
				if runCase(j.id, j.seed, j.idx, base) {
					os.RemoveAll(base)
				}
			}
		}()
	}
	for i := 0; i < n; i++ {
		j := job{fmt.Sprintf("hist/%d", i), rng.Int63(), i}
		if r.Skip(j.id) {
			continue
		}
		ch <- j
	}
	close(ch)
	wg.Wait()
	r.Finish()
}

// runCase returns false when the case was abandoned by a watchdog (its
// directory must stay: the stuck operation may still be using it).
func runCase(caseID string, seed int64, idx int, base string) bool {
	g := rand.New(rand.NewSource(seed))
	index := "inmem"
	if idx%3 == 2 {
		index = "tsi1"
	}
	seq := 0
	c := &hctx{caseID: caseID, seed: seed, index: index, base: base, root: filepath.Join(base, "live"),
		tr: sm.NewTracker(), g: g, walPre: map[string]int64{}, imgSeq: &seq,
		contBudget: map[string]int{"torn": 1, "snap": 1, "other": 1},
		tornAll:    r.Thorough(), taint: new(string), dead: new(int32)}
	if r.Thorough() {
		c.contBudget = map[string]int{"torn": 3, "snap": 2, "other": 2}
	}
	c.tr.TolerateResurrected = true // resurrection of deleted points is C10's verdict, not C01's
	r.Eval(1)
	cfg := sm.DefaultGen()
	cfg.Ops = 18 + g.Intn(12)
	cfg.MaxBatch = 12
	cfg.WeightSnap, cfg.WeightCompact, cfg.WeightDelete, cfg.WeightReopen = 5, 4, 3, 1
	gen := sm.NewGenerator(g, cfg)
	c.env = sm.NewEnv(c.root, index)
	register(c)
	defer unregister(c)
	if err := c.env.Open(); err != nil {
		fmt.Fprintf(os.Stderr, "harness: open live: %v\n", err)
		os.Exit(ev.ExitBroken)
	}
	failSnapAt := -1
	if idx%2 == 1 {
		failSnapAt = 3 + g.Intn(8) // the next snapshot after this step fails once
	}
	var ops []sm.Op
	var extra []sm.Point
	for i := 0; i < cfg.Ops; i++ {
		op := gen.Next()
		ops = append(ops, op)
		if failSnapAt >= 0 && i >= failSnapAt && op.Kind == "snapshot" && extra == nil && idx%4 == 1 {
			// the snapshot that will fail: a batch acknowledged while it is in
			// flight, followed by a second snapshot request that collides with it
			// (what a backup or the periodic cache compaction does)
			extra = gen.Batch()
			gen.T.ApplyWrite(extra)
		}
	}
	if extra != nil {
		c.extra = extra
		c.midSnap = func() {
			c.midSnap = nil
			c.ops = append(c.ops, "  (inside the failing snapshot) "+sm.Op{Kind: "write", Batch: extra}.String())
			c.pendW = extra
			res := c.env.Write(extra)
			c.pendW = nil
			if res.Err != nil && !res.Partial {
				r.Inconclusive(c.caseID + ": write inside the failing snapshot: " + res.Err.Error())
				return
			}
			c.tr.ApplyWrite(extra)
			r.Count("acknowledged_writes", 1)
			r.Count("writes_acknowledged_inside_a_failing_snapshot", 1)
			if err := c.env.Snapshot(); err != nil {
				r.Count("colliding_snapshot_requests_rejected", 1)
				c.ops = append(c.ops, "  (inside the failing snapshot) snapshot request: "+err.Error())
			}
		}
	}
	c.tornMode = idx%4 == 3
	c.runOps(ops, failSnapAt)
	if !c.failed {
		r.Count("histories_completed", 1)
		if r.WantSample() {
			r.Sample(map[string]interface{}{"case": caseID, "index": index, "ops": c.ops, "images_from_this_history": seq})
		}
	}
	if c.env != nil {
		closeWatched(c.env)
	}
	return atomic.LoadInt32(c.dead) == 0
}

func closeWatched(e *sm.Env) {
	res, _ := ev.Watch(240*time.Second, 20*time.Second, func() { e.Close() })
	if res != ev.Finished {
		r.Inconclusive("Close did not finish")
	}
}

// opLimit is the watchdog of one operation including every image it spawns
// (thorough: three levels of continued images per hook firing).
func opLimit() time.Duration {
	if r.Thorough() {
		return 45 * time.Minute
	}
	return 10 * time.Minute
}

// runOps executes ops on c's live root; every hook fired meanwhile produces images.
func (c *hctx) runOps(ops []sm.Op, failSnapAt int) {
	for i, op := range ops {
		if c.failed {
			return
		}
		c.ops = append(c.ops, op.String())
		c.pendW, c.pendD, c.pendKind = nil, nil, op.Kind
		armedNow := false
		if failSnapAt >= 0 && i >= failSnapAt && op.Kind == "snapshot" {
			if c.tornMode {
				c.tornSnapOnce = true
			} else {
				c.failSnapOnce = true
			}
			failSnapAt = -1
			armedNow = true
		}
		var opErr error
		res, _ := ev.Watch(opLimit(), 20*time.Second, func() {
			opErr = c.exec(op)
			if opErr == nil && armedNow && c.midSnap != nil {
				// the snapshot had nothing to flush, its hook never fired: the
				// batch the generator placed here is written as an ordinary write
				c.midSnap = nil
				opErr = c.exec(sm.Op{Kind: "write", Batch: c.extra})
				c.ops = append(c.ops, sm.Op{Kind: "write", Batch: c.extra}.String())
			}
		})
		if res != ev.Finished {
			r.Inconclusive(fmt.Sprintf("%s: %s did not finish (deadlock evidence=%v); history abandoned", c.caseID, op, res == ev.Deadlocked))
			atomic.StoreInt32(c.dead, 1)
			c.failed = true
			c.env = nil // leave the hung store alone
			return
		}
		if opErr != nil {
			c.violation("C01/op-error/"+op.Kind, "operation failed on the live store: "+opErr.Error(), nil)
			return
		}
	}
}

func (c *hctx) exec(op sm.Op) error {
	switch op.Kind {
	case "write":
		c.pendW = op.Batch
		res := c.env.Write(op.Batch)
		c.pendW = nil
		if res.Err != nil && !res.Partial {
			return fmt.Errorf("write: %w", res.Err)
		}
		// acknowledged (fully, or the accepted subset of a partial write)
		c.tr.ApplyWrite(op.Batch)
		r.Count("acknowledged_writes", 1)
	case "snapshot":
		injected, torn := c.failSnapOnce, c.tornSnapOnce
		err := c.env.Snapshot()
		c.tornActive = false
		if err != nil && !(injected && strings.Contains(err.Error(), "injected")) && !(torn && !c.tornSnapOnce) {
			return fmt.Errorf("snapshot: %w", err)
		}
		if torn && !c.tornSnapOnce {
			if err != nil {
				r.Count("snapshot_outputs_torn_before_install_refused", 1)
			} else {
				r.Count("snapshot_outputs_torn_before_install_reported_success", 1)
			}
		}
		if err != nil {
			c.ops[len(c.ops)-1] += " (injected failure)"
			r.Count("snapshot_failures_injected", 1)
			c.snapFailedPending = true
		} else {
			c.snapFailedPending = false
		}
	case "compact":
		if _, err := c.env.Compact(op.Compact, op.PPB, op.Arg); err != nil {
			return err
		}
	case "delete":
		min, max := op.EffRange()
		c.pendD = &sm.PendingDel{Sel: op.Sel, Min: min, Max: max}
		if c.snapFailedPending {
			*c.taint = "delete-while-failed-snapshot-pending"
		}
		err := c.env.Delete(op.Sel, op.Min, op.Max, op.HasMin, op.HasMax)
		c.pendD = nil
		if err != nil {
			return fmt.Errorf("delete: %w", err)
		}
		c.tr.ApplyDelete(op.Sel, min, max)
	case "drop-measurement":
		c.pendD = &sm.PendingDel{DropMeas: op.Meas}
		if c.snapFailedPending {
			*c.taint = "delete-while-failed-snapshot-pending"
		}
		err := c.env.DropMeasurement(op.Meas)
		c.pendD = nil
		if err != nil {
			return fmt.Errorf("drop measurement: %w", err)
		}
		c.tr.ApplyDelete(sm.Selector{Measurement: op.Meas}, sm.MinTime, sm.MaxTime)
	case "reopen":
		if err := c.env.Reopen(); err != nil {
			return fmt.Errorf("clean restart: %w", err)
		}
		// a clean restart is the simplest "crash": check right away
		t := c.tr.Clone()
		reads, mm, err := t.CheckAll(c.env, false)
		r.Count("reads", int64(reads))
		r.Count("clean_restarts_checked", 1)
		if err != nil {
			c.violation("C01/read-error/clean-restart", err.Error(), nil)
		} else if mm != nil {
			c.violation("C01/"+short(mm.Kind)+"/"+c.chainSig("clean-restart"), "after a clean restart: "+mm.Error(), nil)
		}
	}
	return nil
}

func short(kind string) string {
	if i := strings.IndexByte(kind, '/'); i >= 0 {
		return kind[i+1:]
	}
	return kind
}

func (c *hctx) chainSig(last string) string {
	if *c.taint != "" {
		return *c.taint
	}
	return strings.Join(append(append([]string(nil), c.chain...), last), ">")
}

// sigTail is the crash chain, or the sticky condition of the case when one applies.
func (c *hctx) sigTail(chain []string) string {
	if *c.taint != "" {
		return *c.taint
	}
	return strings.Join(chain, ">")
}

type witness struct {
	Seed     int64    `json:"history_seed"`
	Index    string   `json:"index"`
	Chain    []string `json:"crash_chain"`
	Ops      []string `json:"ops_on_this_root"`
	InFlight string   `json:"op_in_flight"`
	Detail   string   `json:"detail"`
	Files    []string `json:"image_files,omitempty"`
}

func (c *hctx) violation(sig, what string, files []string) {
	c.failed = true
	if c.dead != nil && atomic.LoadInt32(c.dead) == 1 {
		return // the case was abandoned: its directories may be gone already
	}
	r.Violation(sig, c.caseID, what, witness{c.seed, c.index, c.chain, c.ops, c.pendKind, what, files})
}

// ----------------------------------------------------------------- hooks

func onHook(name string, args ...interface{}) error {
	if len(args) == 0 {
		return nil
	}
	path, _ := args[0].(string)
	c := find(path)
	if c == nil || c.failed || (c.dead != nil && atomic.LoadInt32(c.dead) == 1) {
		return nil
	}
	switch name {
	case "wal.sync.before":
		if st, err := os.Stat(path); err == nil {
			c.walPre[path] = st.Size()
		} else {
			c.walPre[path] = 0
		}
		return nil
	case "snap.written":
		c.image(name, path)
		if c.failSnapOnce {
			c.failSnapOnce = false
			if c.midSnap != nil {
				c.midSnap()
			}
			return fmt.Errorf("injected snapshot failure")
		}
		if c.tornSnapOnce && len(args) > 1 {
			if files, ok := args[1].([]string); ok && len(files) > 0 {
				if st, err := os.Stat(files[0]); err == nil && st.Size() > 8 {
					if os.Truncate(files[0], st.Size()/2) == nil {
						c.tornSnapOnce = false
						// until the snapshot attempt is over the directory holds a
						// file no crash could have produced: no images meanwhile
						c.tornActive = true
					}
				}
			}
		}
		return nil
	}
	if c.tornActive {
		return nil
	}
	c.image(name, path)
	return nil
}

// image takes the crash image(s) for one hook firing and judges them.
func (c *hctx) image(hook, path string) {
	if c.depth >= maxDepth {
		return
	}
	r.Count("hook_"+hook, 1)
	*c.imgSeq++
	baseImg := filepath.Join(c.base, fmt.Sprintf("img%d", *c.imgSeq))
	if err := crashimg.CopyTree(c.root, baseImg); err != nil {
		if c.dead != nil && atomic.LoadInt32(c.dead) == 1 {
			return // abandoned case: its directories are being removed
		}
		fmt.Fprintf(os.Stderr, "harness: copy image: %v\n", err)
		os.Exit(ev.ExitBroken)
	}
	defer os.RemoveAll(baseImg)

	kind := "clean"
	if c.recovering {
		kind = "recovery"
	}
	c.judge(baseImg, "", kind+"@"+hook, -1)

	if hook == "wal.synced" && !c.recovering {
		l0, ok := c.walPre[path]
		st, err := os.Stat(path)
		if !ok || err != nil {
			return
		}
		l1 := st.Size()
		var offs []int64
		if c.tornAll || l1-l0 <= 48 {
			for o := l0; o < l1; o++ {
				offs = append(offs, o)
			}
		} else {
			set := map[int64]bool{l0: true, l0 + 1: true, l0 + 4: true, l0 + 5: true, l0 + 6: true, l1 - 1: true, l1 - 2: true}
			for k := 0; k < 6; k++ {
				set[l0+c.g.Int63n(l1-l0)] = true
			}
			for o := range set {
				if o >= l0 && o < l1 {
					offs = append(offs, o)
				}
			}
			sort.Slice(offs, func(i, j int) bool { return offs[i] < offs[j] })
		}
		seg := crashimg.Rel(c.root, "", path)
		for i, o := range offs {
			if c.failed {
				return
			}
			// only a cut strictly inside a frame leaves a torn entry behind:
			// that is the image worth continuing the history on
			c.noContinue = !(i == len(offs)/2 && o > l0)
			c.judge(baseImg, seg, "torn@"+hook, o)
			c.noContinue = false
		}
		r.Count("torn_offsets", int64(len(offs)))
	}
}

// judge copies baseImg, optionally cuts the WAL segment, reopens and checks.
func (c *hctx) judge(baseImg, tornRel, variant string, cut int64) {
	if c.failed {
		return
	}
	*c.imgSeq++
	img := filepath.Join(c.base, fmt.Sprintf("img%d", *c.imgSeq))
	if err := crashimg.CopyTree(baseImg, img); err != nil {
		if c.dead != nil && atomic.LoadInt32(c.dead) == 1 {
			return // abandoned case: its directories are being removed
		}
		fmt.Fprintf(os.Stderr, "harness: copy image: %v\n", err)
		os.Exit(ev.ExitBroken)
	}
	defer os.RemoveAll(img)
	if cut >= 0 {
		if err := os.Truncate(filepath.Join(img, tornRel), cut); err != nil {
			if c.dead != nil && atomic.LoadInt32(c.dead) == 1 {
				return // abandoned case: its directories are being removed
			}
			fmt.Fprintf(os.Stderr, "harness: truncate: %v\n", err)
			os.Exit(ev.ExitBroken)
		}
	}
	files := crashimg.Listing(img)
	exp := c.tr.Clone()
	exp.PendingWrite, exp.PendingDelete = c.pendW, c.pendD

	child := &hctx{caseID: c.caseID, seed: c.seed, index: c.index, base: c.base, root: img, tr: exp, depth: c.depth + 1,
		chain: append(append([]string(nil), c.chain...), variant), g: c.g, walPre: map[string]int64{}, imgSeq: c.imgSeq,
		contBudget: c.contBudget, pendW: c.pendW, pendD: c.pendD, pendKind: c.pendKind, recovering: true, tornAll: c.tornAll, taint: c.taint, dead: c.dead,
		ops: []string{"(recovery of image taken during: " + c.lastOp() + ")"}}
	register(child)
	defer unregister(child)

	env := sm.NewEnv(img, c.index)
	var openErr error
	res, _ := ev.Watch(300*time.Second, 20*time.Second, func() { openErr = env.Open() })
	if res != ev.Finished {
		r.Inconclusive(fmt.Sprintf("%s: reopening an image (%s) did not finish", c.caseID, child.chainSig("")))
		return
	}
	child.recovering = false
	r.Eval(1)
	r.Count("images_reopened", 1)
	if child.failed { // a nested (crash during recovery) image already failed
		c.failed = true
		env.Close()
		return
	}
	if openErr != nil {
		c.failed = true
		r.Violation("C01/open-failed/"+c.sigTail(child.chain), c.caseID, "store does not open on a crash image: "+openErr.Error(),
			witness{c.seed, c.index, child.chain, c.ops, c.pendKind, openErr.Error(), files})
		return
	}
	child.env = env
	defer func() {
		if child.env != nil {
			closeWatched(child.env)
		}
	}()
	reads, mm, err := exp.CheckAll(env, false)
	r.Count("reads", int64(reads))
	if exp.Resurrected > 0 {
		r.Count("deleted_points_seen_again_left_to_C10", int64(exp.Resurrected))
	}
	if err != nil {
		c.failed = true
		r.Violation("C01/read-error/"+c.sigTail(child.chain), c.caseID, "read fails on a recovered crash image: "+err.Error(),
			witness{c.seed, c.index, child.chain, c.ops, c.pendKind, err.Error(), files})
		return
	}
	if mm != nil {
		c.failed = true
		cutS := ""
		if cut >= 0 {
			cutS = fmt.Sprintf(" (newest WAL segment cut at %d)", cut)
		}
		what := fmt.Sprintf("image %s%s taken while %q was in flight: %s", strings.Join(child.chain, ">"), cutS, c.pendKind, mm.Error())
		r.Violation("C01/"+short(mm.Kind)+"/"+c.sigTail(child.chain), c.caseID, what,
			witness{c.seed, c.index, child.chain, c.ops, c.pendKind, what, files})
		return
	}
	if !listingOK(env, exp) {
		c.failed = true
		what := "a measurement that holds acknowledged points is not listed after recovery of image " + strings.Join(child.chain, ">")
		r.Violation("C01/measurement-not-listed/"+c.sigTail(child.chain), c.caseID, what,
			witness{c.seed, c.index, child.chain, c.ops, c.pendKind, what, files})
		return
	}
	if exp.M.NumPoints() > 0 {
		h := strings.Join(files, ",")
		r.Nontrivial(fmt.Sprintf("%s|%s|%s|%s", strings.Join(child.chain, ">"), c.pendKind, variant, ev.Hash(h)))
	}
	if cut >= 0 {
		r.Count("torn_images_checked", 1)
	}
	if child.depth >= 2 {
		r.Count("images_after_consecutive_crashes", 1)
	}

	// ---- continue the history on some recovered images (consecutive crash cycles)
	class := "other"
	if cut >= 0 {
		class = "torn"
	} else if strings.Contains(variant, "snap.") {
		class = "snap"
	}
	if child.depth < maxDepth && !c.noContinue && c.contBudget[class] > 0 && exp.M.NumPoints() > 0 && (class != "other" || c.g.Intn(6) == 0) {
		c.contBudget[class]--
		child.contBudget = map[string]int{}
		if err := resolvePending(env, exp); err != nil {
			r.Inconclusive("cannot resolve the in-flight operation after recovery: " + err.Error())
			return
		}
		child.tr = exp
		child.pendW, child.pendD = nil, nil
		cfg := sm.DefaultGen()
		cfg.MaxBatch = 6
		cfg.Reopen = false
		cfg.WeightSnap, cfg.WeightCompact, cfg.WeightDelete = 3, 1, 1
		gen := sm.NewGenerator(c.g, cfg)
		gen.T = exp.Clone() // so that type conflicts are generated against what is really there
		var ops []sm.Op
		ops = append(ops, sm.Op{Kind: "write", Batch: gen.Batch()})
		for i := 0; i < 3; i++ {
			ops = append(ops, gen.Next())
		}
		ops = append(ops, sm.Op{Kind: "write", Batch: gen.Batch()}, sm.Op{Kind: "reopen"})
		r.Count("histories_continued_after_crash", 1)
		child.runOps(ops, -1)
		if child.failed {
			c.failed = true
		}
	}
}

func (c *hctx) lastOp() string {
	if len(c.ops) == 0 {
		return "?"
	}
	return c.ops[len(c.ops)-1]
}

func listingOK(env *sm.Env, exp *sm.Tracker) bool {
	names, err := env.Store.MeasurementNames(context.Background(), nil, env.DB, "", nil)
	if err != nil {
		return false
	}
	have := map[string]bool{}
	for _, n := range names {
		have[string(n)] = true
	}
	for k := range exp.M.Data {
		for _, e := range exp.Expected(k) {
			if e.Required {
				if !have[exp.M.SeriesOf[k.SeriesID].Name] {
					return false
				}
				break
			}
		}
	}
	return true
}

// resolvePending makes the model agree with what the recovered store holds
// for the points the in-flight operation touched (both outcomes were legal).
func resolvePending(env *sm.Env, t *sm.Tracker) error {
	if t.PendingWrite != nil {
		for _, p := range t.PendingWrite {
			if t.M.Conflicts(p) {
				continue
			}
			id := p.Series.ID()
			for f, v := range p.Fields {
				got, err := env.ReadCursor(p.Series, f, p.Time, p.Time, true)
				if err != nil {
					return err
				}
				if len(got) == 1 && got[0].V.Equal(v) {
					one := sm.Point{Series: p.Series, Fields: map[string]sm.Val{f: v}, Time: p.Time}
					t.M.Write([]sm.Point{one})
					if a := t.Ambig[sm.Key{SeriesID: id, Field: f}]; a != nil {
						delete(a, p.Time)
					}
				}
			}
		}
	}
	if d := t.PendingDelete; d != nil {
		for _, k := range t.M.Keys() {
			s := t.M.SeriesOf[k.SeriesID]
			match := d.Sel.Match(s)
			if d.DropMeas != "" {
				match = s.Name == d.DropMeas
			}
			if !match {
				continue
			}
			got, err := env.ReadCursor(s, k.Field, sm.MinTime, sm.MaxTime, true)
			if err != nil {
				return err
			}
			present := map[int64]bool{}
			for _, tv := range got {
				present[tv.T] = true
			}
			for ts := range t.M.Data[k] {
				if (d.DropMeas != "" || (ts >= d.Min && ts <= d.Max)) && !present[ts] {
					delete(t.M.Data[k], ts)
				}
			}
			if len(t.M.Data[k]) == 0 {
				delete(t.M.Data, k)
			}
		}
	}
	t.PendingWrite, t.PendingDelete = nil, nil
	return nil
}
