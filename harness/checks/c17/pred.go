package main

import (
	"fmt"
	"math/rand"
	"sort"
	"strings"
	"time"

	"github.com/influxdata/influxdb/models"
	"github.com/influxdata/influxdb/services/meta"
)

var predSGDs = []time.Duration{time.Hour, time.Hour, 2 * time.Hour, 24 * time.Hour, 7 * 24 * time.Hour, 25*time.Hour + 13*time.Minute}

func durClass(d, sgd time.Duration) string {
	switch {
	case d == 0:
		return "inf"
	case d == sgd:
		return "=sgd"
	case d < 2*sgd:
		return "<2sgd"
	case d < 30*24*time.Hour:
		return "<30d"
	default:
		return ">=30d"
	}
}

func pickDuration(g *rand.Rand, sgd time.Duration) time.Duration {
	switch g.Intn(8) {
	case 0, 1:
		return 0
	case 2:
		return sgd
	case 3:
		return sgd + time.Duration(1+g.Intn(1000))
	case 4:
		return sgd * time.Duration(2+g.Intn(5))
	case 5:
		return sgd + time.Duration(g.Int63n(int64(400*24*time.Hour)))
	case 6:
		return 365 * 24 * time.Hour
	default:
		return sgd + time.Duration(g.Int63n(int64(3*sgd)))
	}
}

type predWitness struct {
	Seed    int64    `json:"case_seed"`
	Ops     []string `json:"ops"`
	D       string   `json:"duration"`
	T       string   `json:"t"`
	Group   string   `json:"group"`
	Groups  []string `json:"groups"`
	Got     []uint64 `json:"reported_ids"`
	Deleted []uint64 `json:"harness_deleted_ids"`
}

func fmtGroup(sg *meta.ShardGroupInfo) string {
	s := fmt.Sprintf("id=%d [%s, %s)", sg.ID, sg.StartTime.UTC().Format(time.RFC3339Nano), sg.EndTime.UTC().Format(time.RFC3339Nano))
	if sg.Truncated() {
		s += " truncated_at=" + sg.TruncatedAt.UTC().Format(time.RFC3339Nano)
	}
	if sg.Deleted() {
		s += " deleted_at=" + sg.DeletedAt.UTC().Format(time.RFC3339Nano)
	}
	ids := []string{}
	for _, sh := range sg.Shards {
		ids = append(ids, fmt.Sprint(sh.ID))
	}
	return s + " shards=" + strings.Join(ids, ",")
}

func predCase(caseID string, seed int64) {
	g := rand.New(rand.NewSource(seed))
	if seed%256 == 0 {
		r.Begin(caseID, map[string]interface{}{"seed": seed})
	}
	r.Eval(1)
	data := &meta.Data{}
	nodes := 1 + g.Intn(3)
	for i := 0; i < nodes; i++ {
		if err := data.CreateDataNode(fmt.Sprintf("h%d:8086", i), fmt.Sprintf("h%d:8088", i)); err != nil {
			harnessFail("pred: CreateDataNode: %v", err)
		}
	}
	if err := data.CreateDatabase("db"); err != nil {
		harnessFail("pred: CreateDatabase: %v", err)
	}
	sgd := predSGDs[g.Intn(len(predSGDs))]
	D := pickDuration(g, sgd)
	var ops []string
	op := func(f string, a ...interface{}) { ops = append(ops, fmt.Sprintf(f, a...)) }
	if err := data.CreateRetentionPolicy("db", &meta.RetentionPolicyInfo{Name: "rp", ReplicaN: 1 + g.Intn(2), Duration: D, ShardGroupDuration: sgd}, true); err != nil {
		harnessFail("pred: CreateRetentionPolicy(D=%v sgd=%v): %v", D, sgd, err)
	}
	op("CREATE RETENTION POLICY rp DURATION %v SHARD DURATION %v; %d data nodes", D, sgd, nodes)

	// time base
	extreme := ""
	var base time.Time
	switch g.Intn(20) {
	case 0:
		extreme = "max"
		base = time.Unix(0, models.MaxNanoTime).Add(-time.Duration(g.Intn(6)) * sgd).UTC()
	case 1:
		extreme = "min"
		base = time.Unix(0, models.MinNanoTime).Add(time.Duration(g.Intn(6)) * sgd).UTC()
	default:
		base = time.Unix(g.Int63n(4_000_000_000), g.Int63n(1_000_000_000)).UTC()
	}
	inRange := func(t time.Time) time.Time {
		if t.After(time.Unix(0, models.MaxNanoTime)) {
			return time.Unix(0, models.MaxNanoTime).UTC()
		}
		if t.Before(time.Unix(0, models.MinNanoTime)) {
			return time.Unix(0, models.MinNanoTime).UTC()
		}
		return t
	}

	deleted := map[uint64]bool{} // ids the harness marked deleted itself
	altered, roundtrip, pruned := false, false, false
	rp := func() *meta.RetentionPolicyInfo {
		p, err := data.RetentionPolicy("db", "rp")
		if err != nil || p == nil {
			harnessFail("pred: policy lost: %v", err)
		}
		return p
	}
	nontrivial := false
	var sawTrunc, sawDel bool

	evaluate := func() bool {
		p := rp()
		n := len(p.ShardGroups)
		if n == 0 {
			return true
		}
		ends := make([]inst, n)
		for i := range p.ShardGroups {
			ends[i] = at(p.ShardGroups[i].EndTime)
			if p.ShardGroups[i].Truncated() {
				sawTrunc = true
			}
		}
		// DeletedShardGroups: exactly the groups the harness deleted.
		gotDel := map[uint64]bool{}
		for _, sg := range p.DeletedShardGroups() {
			gotDel[sg.ID] = true
		}
		for i := range p.ShardGroups {
			sg := &p.ShardGroups[i]
			if gotDel[sg.ID] != deleted[sg.ID] {
				sig, what := "C17/predicate/live-group-reported-deleted", "DeletedShardGroups() reports a group that was never marked deleted"
				if deleted[sg.ID] {
					sig, what = "C17/predicate/deleted-group-not-reported", "DeletedShardGroups() omits a group that was marked deleted"
				}
				r.Violation(sig, caseID, what+": "+fmtGroup(sg), predWitness{Seed: seed, Ops: ops, D: D.String(), Group: fmtGroup(sg), Groups: allGroups(p), Deleted: keys(deleted)})
				return false
			}
			delete(gotDel, sg.ID)
		}
		if len(gotDel) > 0 {
			r.Violation("C17/predicate/unknown-group-reported-deleted", caseID, "DeletedShardGroups() reports a group that is not in the policy", predWitness{Seed: seed, Ops: ops, D: D.String(), Groups: allGroups(p), Got: keys(gotDel)})
			return false
		}
		if len(deleted) > 0 {
			sawDel = true
		}

		// candidate instants
		var ts []inst
		for i := range p.ShardGroups {
			sg := &p.ShardGroups[i]
			e := ends[i]
			ts = append(ts, e.add(D).add(-1), e.add(D), e.add(D).add(1))
			ts = append(ts, at(sg.StartTime).add(D).add(1)) // decoy: start instead of end
			if sg.Truncated() {
				ts = append(ts, at(sg.TruncatedAt).add(D).add(1)) // decoy: truncation point instead of end
			}
			if D != 0 {
				ts = append(ts, e.add(1), e.add(-1))                // decoy: duration ignored
				ts = append(ts, e.add(p.ShardGroupDuration).add(1)) // decoy: shard duration instead of duration
				ts = append(ts, e.add(D).add(-p.ShardGroupDuration), e.add(D).add(p.ShardGroupDuration))
			} else {
				ts = append(ts, e.add(time.Hour), e.add(100*365*24*time.Hour), e.add(p.ShardGroupDuration).add(1))
			}
		}
		ts = append(ts, at(time.Unix(0, models.MaxNanoTime)), at(time.Unix(g.Int63n(4_000_000_000), 0)))
		for _, t := range ts {
			got := map[uint64]bool{}
			list := p.ExpiredShardGroups(t.time())
			for _, sg := range list {
				got[sg.ID] = true
			}
			r.Count("pred_expired_evaluations", 1)
			nExp, nLive := 0, 0
			for i := range p.ShardGroups {
				sg := &p.ShardGroups[i]
				isDel := deleted[sg.ID]
				must := !isDel && mustExpire(ends[i], D, t)
				may := mayExpire(ends[i], D, t)
				if may && !isDel {
					nExp++
				} else if !isDel {
					nLive++
				}
				if got[sg.ID] && !may {
					sig := "C17/predicate/unexpired-group-reported-expired"
					what := fmt.Sprintf("ExpiredShardGroups(%s) reports group %s although End+D = %s is not before t (D=%v)", t.time().Format(time.RFC3339Nano), fmtGroup(sg), ends[i].add(D).time().Format(time.RFC3339Nano), D)
					if D == 0 {
						sig = "C17/predicate/infinite-policy-group-reported-expired"
						what = fmt.Sprintf("ExpiredShardGroups(%s) reports group %s under an infinite policy", t.time().Format(time.RFC3339Nano), fmtGroup(sg))
					}
					r.Violation(sig, caseID, what, predWitness{Seed: seed, Ops: ops, D: D.String(), T: t.time().Format(time.RFC3339Nano), Group: fmtGroup(sg), Groups: allGroups(p), Got: keys(got), Deleted: keys(deleted)})
					return false
				}
				if must && !got[sg.ID] {
					r.Violation("C17/predicate/expired-group-not-reported", caseID,
						fmt.Sprintf("ExpiredShardGroups(%s) omits group %s although End+D = %s is before t (D=%v)", t.time().Format(time.RFC3339Nano), fmtGroup(sg), ends[i].add(D).time().Format(time.RFC3339Nano), D),
						predWitness{Seed: seed, Ops: ops, D: D.String(), T: t.time().Format(time.RFC3339Nano), Group: fmtGroup(sg), Groups: allGroups(p), Got: keys(got), Deleted: keys(deleted)})
					return false
				}
				if got[sg.ID] && isDel {
					r.Count("pred_deleted_group_reported_expired_again", 1) // allowed by the text (it is expired); never seen on the real tree
				}
				if !t.less(ends[i].add(D)) && !ends[i].add(D).less(t) && D != 0 && !isDel {
					if got[sg.ID] {
						r.Count("pred_exact_boundary_reported_expired", 1)
					} else {
						r.Count("pred_exact_boundary_reported_live", 1)
					}
				}
				delete(got, sg.ID)
			}
			if len(got) > 0 {
				r.Violation("C17/predicate/unknown-group-reported-expired", caseID, "ExpiredShardGroups reports a group that is not in the policy", predWitness{Seed: seed, Ops: ops, D: D.String(), T: t.time().Format(time.RFC3339Nano), Groups: allGroups(p), Got: keys(got)})
				return false
			}
			if nExp > 0 && nLive > 0 || D == 0 && n > 0 {
				nontrivial = true
			}
		}
		return true
	}

	steps := 3 + g.Intn(10)
	for s := 0; s < steps; s++ {
		p := rp()
		k := g.Intn(12)
		switch {
		case k < 5 || len(p.ShardGroups) == 0: // create a group
			ts := inRange(base.Add(time.Duration(g.Intn(9)-4)*sgd + time.Duration(g.Int63n(int64(sgd)))))
			if err := data.CreateShardGroup("db", "rp", ts); err != nil {
				harnessFail("pred: CreateShardGroup: %v", err)
			}
			op("CreateShardGroup(%s)", ts.Format(time.RFC3339Nano))
		case k < 7: // truncate inside / at the edge of an existing group
			sg := p.ShardGroups[g.Intn(len(p.ShardGroups))]
			var t time.Time
			switch g.Intn(4) {
			case 0:
				t = sg.StartTime
			case 1:
				t = sg.EndTime.Add(-1)
			default:
				w := sg.EndTime.Sub(sg.StartTime)
				if w <= 0 {
					w = 1
				}
				t = sg.StartTime.Add(time.Duration(g.Int63n(int64(w))))
			}
			data.TruncateShardGroups(t)
			op("TruncateShardGroups(%s)", t.UTC().Format(time.RFC3339Nano))
		case k < 9: // delete a group
			sg := p.ShardGroups[g.Intn(len(p.ShardGroups))]
			if err := data.DeleteShardGroup("db", "rp", sg.ID); err != nil {
				harnessFail("pred: DeleteShardGroup: %v", err)
			}
			deleted[sg.ID] = true
			op("DeleteShardGroup(%d)", sg.ID)
		case k < 10: // alter the duration after groups exist
			nd := pickDuration(g, p.ShardGroupDuration)
			rpu := &meta.RetentionPolicyUpdate{}
			rpu.SetDuration(nd)
			if err := data.UpdateRetentionPolicy("db", "rp", rpu, false); err != nil {
				harnessFail("pred: UpdateRetentionPolicy(D=%v, sgd=%v): %v", nd, p.ShardGroupDuration, err)
			}
			D = nd
			altered = true
			op("ALTER RETENTION POLICY rp DURATION %v", nd)
		case k < 11: // alter the shard duration (new groups get another width)
			ns := predSGDs[g.Intn(len(predSGDs))]
			if D != 0 && ns > D {
				ns = time.Hour
			}
			rpu := &meta.RetentionPolicyUpdate{}
			rpu.SetShardGroupDuration(ns)
			if err := data.UpdateRetentionPolicy("db", "rp", rpu, false); err != nil {
				harnessFail("pred: UpdateRetentionPolicy(sgd=%v, D=%v): %v", ns, D, err)
			}
			sgd = ns
			altered = true
			op("ALTER RETENTION POLICY rp SHARD DURATION %v", ns)
		default:
			if g.Intn(2) == 0 { // marshal round trip: what a client snapshot sees
				b, err := data.MarshalBinary()
				if err != nil {
					harnessFail("pred: MarshalBinary: %v", err)
				}
				nd := &meta.Data{}
				if err := nd.UnmarshalBinary(b); err != nil {
					harnessFail("pred: UnmarshalBinary: %v", err)
				}
				data = nd
				roundtrip = true
				op("marshal/unmarshal")
			} else { // backdate one deleted group past the prune horizon, then prune
				for i := range p.ShardGroups {
					if deleted[p.ShardGroups[i].ID] {
						p.ShardGroups[i].DeletedAt = time.Now().UTC().Add(-15 * 24 * time.Hour)
						op("backdate DeletedAt of %d by 15d", p.ShardGroups[i].ID)
						break
					}
				}
				data.PruneShardGroups()
				pruned = true
				op("PruneShardGroups()")
			}
		}
		if !evaluate() {
			return
		}
	}
	p := rp()
	if nontrivial {
		ng := len(p.ShardGroups)
		if ng > 6 {
			ng = 6
		}
		r.Nontrivial(fmt.Sprintf("pred|%s|%v|%d|%v|%v|%v|%v|%v|%s", durClass(D, p.ShardGroupDuration), p.ShardGroupDuration, ng, sawTrunc, sawDel, altered, roundtrip, pruned, extreme))
		r.Count("pred_cases_nontrivial", 1)
	}
	r.Count("pred_cases", 1)
	if r.WantSample() && len(p.ShardGroups) >= 3 && len(p.ShardGroups) <= 4 && sawDel && D != 0 && seed%7 == 0 {
		r.Sample(map[string]interface{}{"case": caseID, "ops": ops, "duration": D.String(), "groups": allGroups(p)})
	}
}

func allGroups(p *meta.RetentionPolicyInfo) []string {
	var out []string
	for i := range p.ShardGroups {
		out = append(out, fmtGroup(&p.ShardGroups[i]))
	}
	return out
}

func keys(m map[uint64]bool) []uint64 {
	out := make([]uint64, 0, len(m))
	for k, v := range m {
		if v {
			out = append(out, k)
		}
	}
	sort.Slice(out, func(i, j int) bool { return out[i] < out[j] })
	return out
}
