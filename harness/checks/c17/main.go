// C17 — retention removes only expired data, and removes all of it.
//
// Three monitors over the real code:
//
//  1. predicate level (pred/N): meta.Data histories built in memory through the
//     exported Data API (CreateShardGroup at chosen timestamps, TruncateShardGroups,
//     DeleteShardGroup, UpdateRetentionPolicy after groups exist, backdated +
//     PruneShardGroups, marshal round trip); RetentionPolicyInfo.ExpiredShardGroups(t)
//     is called with t = End+D-1ns, End+D, End+D+1ns (and Start/TruncatedAt/SGD
//     based decoys) for every group, DeletedShardGroups() after every step.
//  2. service level (svc/N): the REAL retention.Service against a REAL meta
//     service + meta.Client and a recording TSDBStore double; every pass is
//     gated at the service's own Databases() call, every DeleteShardGroup /
//     DeleteShard / PruneShardGroups call is recorded with the wall clock read
//     when it was observed; metadata errors are injected by the MetaClient
//     wrapper.
//  3. write cut-off (map/N): PointsWriter.MapShards with clock brackets.
//
// Oracle (from the property text only): a group may be reported expired /
// deleted by retention only if D != 0 and End + D <= t (the whole range
// [Start,End) is then older than D); it must be once End + D < t; at exactly
// End + D == t both answers are accepted. DeleteShard(id) only for a shard whose
// group is marked deleted in the metadata or is expired at the time the call is
// observed; never for an id the metadata does not know; never under D == 0.
// Bounded progress: once injected faults have stopped, after K=3 completed
// passes every group with End + D < t_before is marked deleted and every local
// shard of a deleted or expired group has been handed to DeleteShard.
package main

import (
	"fmt"
	"os"
	"path/filepath"
	"runtime"
	"sync"
	"sync/atomic"
	"time"

	"verifharness/internal/ev"
)

func main() { ev.Supervise("C17", body) }

var r *ev.Run

const passesK = 3

var svcNontrivial, mapNontrivial int64

func harnessFail(format string, a ...interface{}) {
	msg := fmt.Sprintf(format, a...)
	fmt.Fprintln(os.Stderr, "harness failure: "+msg)
	fmt.Printf("BROKEN-CHECK C17: %s\n", msg)
	os.Exit(ev.ExitBroken)
}

func body() {
	r = ev.Start("C17", "exploration")
	r.Rule = "pred: one in-memory meta.Data history (policy duration incl. infinite x shard duration, 3-12 steps from: create group at a chosen timestamp, truncate, delete group, alter duration, alter shard duration, backdate+prune, marshal round trip) judged after every step at t = End+D-1ns / End+D / End+D+1ns and decoy instants of every group; non-trivial when some judged instant has an expired and an unexpired group in the same policy, or the policy is infinite and has groups; distinct by (duration class, shard duration, #groups, truncated, deleted, altered, round trip, extreme time base). " +
		"svc: one run of the real retention.Service over 1-2 databases x 1-3 policies (infinite / boundary >=30min from every group end / boundary band within seconds of one group end) with groups on both sides of the boundary, truncated, hand-deleted and long-deleted (prunable) groups, a local shard set mixing shards of all of these with ids unknown to the metadata, 2-4 rounds of {mutate metadata or local shards; inject 0-3 DeleteShardGroup errors (before or after the command took effect) and 0-2 PruneShardGroups errors; run passes until the faults are consumed; 3 judged fault-free passes}; non-trivial when some finite policy has an expired and a live group at a judged pass; distinct by (policy kinds, group-count class, truncated, hand-deleted, prunable, unknown ids, fault counts and mode, mutation kinds). " +
		"map: one MapShards batch per policy with timestamps placed around now-D; non-trivial when the batch has points on both sides (or the policy is infinite and the batch has ancient points)."
	r.Assumptions = []string{
		"service level: the wall clock does not step backwards by more than the duration of one enforcement pass while a pass runs (verdicts compare End+D with the wall clock read when a call is observed / before a pass is released)",
		"service level: between passes only the harness changes the metadata, through the same meta.Client (DeletedAt backdating for prunable groups uses Client.SetData, as a restore would); during a pass only the service does",
		"the TSDBStore double always succeeds (store errors are outside the property's quantifier: 'metadata errors in between'); injected metadata errors are bounded (at most 3+2 per round) and stop before progress is judged",
		"a group is identified as 'marked deleted' by the harness's own record of successful DeleteShardGroup commands at the predicate level, and by the metadata snapshot taken before each pass at the service level",
		"at exactly End + D == t both 'expired' and 'not expired' are accepted (the property text admits either reading of the half-open range); the two-week prune horizon is not waited for",
	}
	r.Floor = 60

	nPred := r.Pick(100000, 1500000)
	nSvc := r.Pick(400, 6000)
	nMap := r.Pick(200, 3000)
	if v := os.Getenv("C17_NPRED"); v != "" {
		fmt.Sscan(v, &nPred)
	}
	if v := os.Getenv("C17_NSVC"); v != "" {
		fmt.Sscan(v, &nSvc)
	}
	if v := os.Getenv("C17_NMAP"); v != "" {
		fmt.Sscan(v, &nMap)
	}

	// ---- monitor 1: predicate level, CPU bound, all cores.
	{
		type job struct {
			id   string
			seed int64
		}
		jobs := make(chan job, 1024)
		var wg sync.WaitGroup
		for w := 0; w < runtime.NumCPU(); w++ {
			wg.Add(1)
			go func() {
				defer wg.Done()
				for j := range jobs {
					predCase(j.id, j.seed)
				}
			}()
		}
		rng := r.Rand("pred")
		for i := 0; i < nPred; i++ {
			id := fmt.Sprintf("pred/%d", i)
			seed := rng.Int63()
			if r.Skip(id) {
				continue
			}
			jobs <- job{id, seed}
		}
		close(jobs)
		wg.Wait()
	}

	// ---- monitors 2 and 3: one real meta service per worker.
	workers := runtime.NumCPU() / 2
	if workers > 8 {
		workers = 8
	}
	if workers < 2 {
		workers = 2
	}
	if r.ReplayCase() != "" {
		workers = 1
	}
	root := ev.TempDir("c17")
	defer os.RemoveAll(root)
	type job struct {
		id   string
		seed int64
		kind int // 0 svc, 1 map
	}
	jobs := make(chan job, 64)
	var wg sync.WaitGroup
	var startErr error
	var startMu sync.Mutex
	for w := 0; w < workers; w++ {
		wg.Add(1)
		go func(w int) {
			defer wg.Done()
			gen := 0
			var e *env
			restart := func() bool {
				if e != nil {
					go e.close() // a wedged environment must not wedge the worker
				}
				gen++
				var err error
				e, err = startEnv(filepath.Join(root, fmt.Sprintf("%d_%d", w, gen)))
				if err != nil {
					startMu.Lock()
					startErr = err
					startMu.Unlock()
					e = nil
					return false
				}
				return true
			}
			if !restart() {
				for range jobs {
				}
				return
			}
			for j := range jobs {
				ok := true
				if j.kind == 0 {
					ok = svcRun(e, j.id, j.seed)
				} else {
					mapCase(e, j.id, j.seed)
				}
				if !ok { // watchdog fired: abandon this environment
					if !restart() {
						for range jobs {
						}
						return
					}
				}
			}
			if e != nil {
				e.close()
			}
		}(w)
	}
	srng := r.Rand("svc")
	mrng := r.Rand("map")
	im := 0
	for i := 0; i < nSvc; i++ {
		id := fmt.Sprintf("svc/%d", i)
		seed := srng.Int63()
		if !r.Skip(id) {
			jobs <- job{id, seed, 0}
		}
		// interleave the map cases so that both kinds share the workers
		for ; im < nMap && im*nSvc <= i*nMap; im++ {
			mid := fmt.Sprintf("map/%d", im)
			ms := mrng.Int63()
			if !r.Skip(mid) {
				jobs <- job{mid, ms, 1}
			}
		}
	}
	for ; im < nMap; im++ {
		mid := fmt.Sprintf("map/%d", im)
		ms := mrng.Int63()
		if !r.Skip(mid) {
			jobs <- job{mid, ms, 1}
		}
	}
	close(jobs)
	wg.Wait()
	os.RemoveAll(root)
	if startErr != nil {
		harnessFail("cannot start the meta service: %v", startErr)
	}
	r.Set("metadata_backend", "predicate: in-memory meta.Data; service/map: real single-node meta service + meta.Client per worker")
	r.Set("workers", workers)
	r.Set("passes_K", passesK)
	if r.ReplayCase() == "" && r.Violations() == 0 {
		if n := atomic.LoadInt64(&svcNontrivial); n < int64(nSvc/4) {
			harnessFail("only %d of %d service runs were non-trivial", n, nSvc)
		}
		if n := atomic.LoadInt64(&mapNontrivial); n < int64(nMap/4) {
			harnessFail("only %d of %d MapShards cases were non-trivial", n, nMap)
		}
		if r.Counter("svc_progress_group_obligations") == 0 || r.Counter("svc_progress_shard_obligations") == 0 ||
			r.Counter("svc_delete_shard_calls") == 0 || r.Counter("svc_dsg_calls_injected_error") == 0 {
			harnessFail("service monitor observed no deletions / obligations / injected errors")
		}
	}
	r.Finish()
}

// ------------------------------------------------------------ exact instants

// inst is an instant as (seconds, nanoseconds) so that End + D is computed
// without going through time.Time arithmetic (the code under test uses that).
type inst struct{ s, n int64 }

func at(t time.Time) inst { return inst{t.Unix(), int64(t.Nanosecond())} }

func (a inst) add(d time.Duration) inst {
	s := a.s + int64(d)/1e9
	n := a.n + int64(d)%1e9
	if n < 0 {
		n += 1e9
		s--
	} else if n >= 1e9 {
		n -= 1e9
		s++
	}
	return inst{s, n}
}

func (a inst) less(b inst) bool { return a.s < b.s || a.s == b.s && a.n < b.n }

func (a inst) time() time.Time { return time.Unix(a.s, a.n).UTC() }

// mustExpire / mayExpire are the oracle for one group at instant t.
func mustExpire(end inst, d time.Duration, t inst) bool { return d != 0 && end.add(d).less(t) }
func mayExpire(end inst, d time.Duration, t inst) bool  { return d != 0 && !t.less(end.add(d)) }
