package main

import (
	"fmt"
	"math/rand"
	"sort"
	"strings"
	"sync/atomic"
	"time"

	"github.com/influxdata/influxdb/services/meta"
	"github.com/influxdata/influxdb/services/retention"
	"github.com/influxdata/influxdb/toml"
)

const watchdog = 90 * time.Second

type polSpec struct {
	db, rp string
	sgd    time.Duration
	kind   string    // inf | far | band-expired | band-expiring
	estar  time.Time // aligned group end the boundary is placed relative to
}

// groupRec is what the oracle needs to know about one group of a snapshot.
type groupRec struct {
	DB, RP  string
	ID      uint64
	D       time.Duration
	End     inst
	Deleted bool
	Shards  []uint64
	Desc    string
}

type snapshot struct {
	groups map[uint64]*groupRec
	shard  map[uint64]*groupRec
	desc   []string
}

func takeSnapshot(d meta.Data) *snapshot {
	s := &snapshot{groups: map[uint64]*groupRec{}, shard: map[uint64]*groupRec{}}
	for i := range d.Databases {
		db := &d.Databases[i]
		for j := range db.RetentionPolicies {
			p := &db.RetentionPolicies[j]
			s.desc = append(s.desc, fmt.Sprintf("%s.%s DURATION %v SHARD DURATION %v", db.Name, p.Name, p.Duration, p.ShardGroupDuration))
			for k := range p.ShardGroups {
				sg := &p.ShardGroups[k]
				g := &groupRec{DB: db.Name, RP: p.Name, ID: sg.ID, D: p.Duration, End: at(sg.EndTime), Deleted: !sg.DeletedAt.IsZero(), Desc: fmtGroup(sg)}
				for _, sh := range sg.Shards {
					g.Shards = append(g.Shards, sh.ID)
					s.shard[sh.ID] = g
				}
				s.groups[sg.ID] = g
				s.desc = append(s.desc, "  "+g.Desc)
			}
		}
	}
	return s
}

type svcWitness struct {
	Seed     int64    `json:"case_seed"`
	Ops      []string `json:"ops"`
	Metadata []string `json:"metadata_before_pass"`
	Local    []uint64 `json:"local_shards_before_pass"`
	Event    *event   `json:"event,omitempty"`
	Events   []event  `json:"events_of_pass,omitempty"`
	TBefore  string   `json:"t_before,omitempty"`
	Note     string   `json:"note,omitempty"`
}

type svcHarness struct {
	e      *env
	caseID string
	seed   int64
	g      *rand.Rand
	gate   *gateMC
	store  *storeDouble
	rec    *recorder
	svc    *retention.Service
	ops    []string
	pols   []*polSpec

	lastPre          *snapshot
	everDeletedGroup map[uint64]bool // groups seen marked deleted in some snapshot (they may be pruned later)
	everDeletedShard map[uint64]bool
	unknownIDs       int
	passes           int
	failed           bool // a violation was reported: stop the run
	wedged           bool // watchdog fired
	nontrivial       bool
	features         map[string]bool
}

func (h *svcHarness) op(f string, a ...interface{}) { h.ops = append(h.ops, fmt.Sprintf(f, a...)) }

// waitArrival blocks until the service reaches the gate again (= the previous
// pass, if any, has completed). Watchdog => inconclusive.
func (h *svcHarness) waitArrival() bool {
	t := time.NewTimer(watchdog)
	defer t.Stop()
	select {
	case <-h.gate.arrived:
		return true
	case <-t.C:
		r.Inconclusive(fmt.Sprintf("case %s: the retention service did not start its next pass within %v", h.caseID, watchdog))
		h.wedged = true
		return false
	}
}

// pass releases exactly one enforcement pass and judges every call it made.
// The service is waiting at the gate on entry and again on return.
func (h *svcHarness) pass() (pre *snapshot, tBefore time.Time, local []uint64, ok bool) {
	pre = takeSnapshot(h.e.c.Data())
	for id, g := range pre.groups {
		if g.Deleted {
			h.everDeletedGroup[id] = true
			for _, s := range g.Shards {
				h.everDeletedShard[s] = true
			}
		}
	}
	local = h.store.ids()
	if left := h.rec.take(); len(left) > 0 {
		// calls made outside a released pass (before the service's Databases()
		// call): judged against the last snapshot the harness holds
		r.Count("svc_calls_outside_a_released_pass", int64(len(left)))
		ref := h.lastPre
		if ref == nil {
			ref = pre
		}
		h.judgeSafety(ref, local, time.Now().UTC(), left)
		if h.failed {
			return nil, tBefore, nil, false
		}
	}
	h.lastPre = pre
	tBefore = time.Now().UTC()
	t := time.NewTimer(watchdog)
	select {
	case h.gate.permits <- struct{}{}:
		t.Stop()
	case <-t.C:
		r.Inconclusive(fmt.Sprintf("case %s: the retention service is not waiting at the gate", h.caseID))
		h.wedged = true
		return nil, tBefore, nil, false
	}
	if !h.waitArrival() {
		return nil, tBefore, nil, false
	}
	h.passes++
	r.Count("svc_passes_observed", 1)
	evs := h.rec.take()
	h.judgeSafety(pre, local, tBefore, evs)
	return pre, tBefore, local, !h.failed
}

func (h *svcHarness) witness(pre *snapshot, local []uint64, ev *event, evs []event, tb time.Time, note string) svcWitness {
	return svcWitness{Seed: h.seed, Ops: h.ops, Metadata: pre.desc, Local: local, Event: ev, Events: evs, TBefore: tb.Format(time.RFC3339Nano), Note: note}
}

func (h *svcHarness) judgeSafety(pre *snapshot, local []uint64, tb time.Time, evs []event) {
	tbi := at(tb)
	// non-triviality: some finite policy with an expired and a live group now
	type side struct{ exp, live bool }
	sides := map[string]*side{}
	for _, g := range pre.groups {
		if g.D == 0 {
			continue
		}
		k := g.DB + "." + g.RP
		if sides[k] == nil {
			sides[k] = &side{}
		}
		if mustExpire(g.End, g.D, tbi) {
			sides[k].exp = true
		} else if !g.Deleted {
			sides[k].live = true
		}
	}
	for _, s := range sides {
		if s.exp && s.live {
			h.nontrivial = true
		}
	}
	for i := range evs {
		e := &evs[i]
		t1 := at(e.T1)
		switch e.Kind {
		case "prune":
			r.Count("svc_prune_calls", 1)
			if e.Injected != "" {
				r.Count("svc_prune_calls_injected_error", 1)
			}
		case "dsg":
			r.Count("svc_dsg_calls", 1)
			if e.Injected != "" {
				r.Count("svc_dsg_calls_injected_error", 1)
			}
			g := pre.groups[e.ID]
			if g == nil || g.DB != e.DB || g.RP != e.RP {
				if h.everDeletedGroup[e.ID] {
					r.Count("svc_dsg_on_pruned_group", 1)
					continue
				}
				h.failed = true
				r.Violation("C17/service/delete-shard-group/unknown-group", h.caseID,
					fmt.Sprintf("retention called DeleteShardGroup(%s, %s, %d) for a group the metadata does not have there", e.DB, e.RP, e.ID),
					h.witness(pre, local, e, evs, tb, ""))
				return
			}
			if g.D == 0 {
				h.failed = true
				r.Violation("C17/service/delete-shard-group/infinite-policy", h.caseID,
					fmt.Sprintf("retention marked group %d of %s.%s deleted although the policy is infinite: %s", e.ID, e.DB, e.RP, g.Desc),
					h.witness(pre, local, e, evs, tb, ""))
				return
			}
			if !mayExpire(g.End, g.D, t1) {
				h.failed = true
				r.Violation("C17/service/delete-shard-group/unexpired", h.caseID,
					fmt.Sprintf("retention marked group %d of %s.%s deleted at %s although End+D = %s is later (D=%v): %s", e.ID, e.DB, e.RP, e.T1.Format(time.RFC3339Nano), g.End.add(g.D).time().Format(time.RFC3339Nano), g.D, g.Desc),
					h.witness(pre, local, e, evs, tb, ""))
				return
			}
			if g.Deleted {
				r.Count("svc_dsg_on_already_deleted_group", 1) // not forbidden by the text; never seen on the real tree
			}
			if !mustExpire(g.End, g.D, tbi) {
				r.Count("svc_dsg_on_group_expiring_during_pass", 1)
			}
		case "ds":
			r.Count("svc_delete_shard_calls", 1)
			g := pre.shard[e.ID]
			if g == nil {
				if h.everDeletedShard[e.ID] {
					r.Count("svc_delete_shard_of_pruned_group", 1)
					continue
				}
				h.failed = true
				r.Violation("C17/service/delete-shard/unknown-to-metadata", h.caseID,
					fmt.Sprintf("retention deleted local shard %d whose id no shard group in the metadata has (neither marked deleted nor expired)", e.ID),
					h.witness(pre, local, e, evs, tb, ""))
				return
			}
			if g.Deleted {
				r.Count("svc_delete_shard_of_deleted_group", 1)
				continue
			}
			if g.D == 0 {
				h.failed = true
				r.Violation("C17/service/delete-shard/infinite-policy", h.caseID,
					fmt.Sprintf("retention deleted local shard %d of group %d under the infinite policy %s.%s, group not marked deleted: %s", e.ID, g.ID, g.DB, g.RP, g.Desc),
					h.witness(pre, local, e, evs, tb, ""))
				return
			}
			if !mayExpire(g.End, g.D, t1) {
				h.failed = true
				r.Violation("C17/service/delete-shard/live-unexpired-group", h.caseID,
					fmt.Sprintf("retention deleted local shard %d of group %d (%s.%s) at %s; the group is not marked deleted and End+D = %s is later (D=%v): %s", e.ID, g.ID, g.DB, g.RP, e.T1.Format(time.RFC3339Nano), g.End.add(g.D).time().Format(time.RFC3339Nano), g.D, g.Desc),
					h.witness(pre, local, e, evs, tb, ""))
				return
			}
			r.Count("svc_delete_shard_of_expired_group", 1)
		}
	}
}

// judgeProgress: pre/tb/local are those of the first of K fault-free passes
// that have all completed.
func (h *svcHarness) judgeProgress(pre *snapshot, tb time.Time, local []uint64) {
	final := takeSnapshot(h.e.c.Data())
	tbi := at(tb)
	ids := make([]uint64, 0, len(pre.groups))
	for id := range pre.groups {
		ids = append(ids, id)
	}
	sort.Slice(ids, func(i, j int) bool { return ids[i] < ids[j] })
	due := map[uint64]bool{} // groups whose local shards must be gone
	for _, id := range ids {
		g := pre.groups[id]
		if g.Deleted {
			due[id] = true
			continue
		}
		if !mustExpire(g.End, g.D, tbi) {
			continue
		}
		due[id] = true
		r.Count("svc_progress_group_obligations", 1)
		f := final.groups[id]
		if f != nil && !f.Deleted {
			h.failed = true
			r.Violation("C17/service/progress/expired-group-not-marked-deleted", h.caseID,
				fmt.Sprintf("group %d of %s.%s had End+D = %s before t_before = %s (D=%v) and no fault was injected, yet after %d completed passes it is not marked deleted: %s", id, g.DB, g.RP, g.End.add(g.D).time().Format(time.RFC3339Nano), tb.Format(time.RFC3339Nano), g.D, passesK, g.Desc),
				h.witness(pre, local, nil, nil, tb, "final metadata: "+strings.Join(final.desc, " | ")))
			return
		}
	}
	for _, sid := range local {
		if pre.shard[sid] == nil && h.everDeletedShard[sid] {
			// its group was marked deleted earlier and has been pruned since
			r.Count("svc_progress_shard_obligations", 1)
			if h.store.has(sid) {
				h.failed = true
				r.Violation("C17/service/progress/local-shard-of-pruned-group-not-removed", h.caseID,
					fmt.Sprintf("local shard %d belongs to a group that was marked deleted and has since been pruned from the metadata; it was never handed to DeleteShard and no later pass can find it", sid),
					h.witness(pre, local, nil, nil, tb, "final metadata: "+strings.Join(final.desc, " | ")))
				return
			}
		}
	}
	for _, sid := range local {
		g := pre.shard[sid]
		if g == nil || !due[g.ID] {
			continue
		}
		r.Count("svc_progress_shard_obligations", 1)
		if h.store.has(sid) {
			h.failed = true
			why := "marked deleted in the metadata"
			if !g.Deleted {
				why = "expired (End+D = " + g.End.add(g.D).time().Format(time.RFC3339Nano) + ")"
			}
			r.Violation("C17/service/progress/local-shard-not-removed", h.caseID,
				fmt.Sprintf("local shard %d belongs to group %d of %s.%s which was %s before t_before = %s; after %d completed fault-free passes it was never handed to DeleteShard: %s", sid, g.ID, g.DB, g.RP, why, tb.Format(time.RFC3339Nano), passesK, g.Desc),
				h.witness(pre, local, nil, nil, tb, "final metadata: "+strings.Join(final.desc, " | ")))
			return
		}
	}
	// untouched: local shards of live groups and unknown ids must still be held
	// (safety already judged per call; this is the same fact seen from the store)
	for _, sid := range local {
		g := pre.shard[sid]
		if g != nil && (due[g.ID] || g.D != 0 && mayExpire(g.End, g.D, at(time.Now().UTC()))) {
			continue
		}
		if h.store.has(sid) {
			r.Count("svc_live_or_unknown_local_shards_kept", 1)
		}
	}
}

func alignDown(t time.Time, d time.Duration) time.Time { return t.Truncate(d).UTC() }

func (h *svcHarness) policy(db, rp string) *meta.RetentionPolicyInfo {
	p, err := h.e.c.RetentionPolicy(db, rp)
	if err != nil || p == nil {
		harnessFail("svc: policy %s.%s lost: %v", db, rp, err)
	}
	return p
}

// boundaryDuration returns D such that End+D = now+delta for End = p.estar
// (band kinds) or such that the boundary lies half a shard duration after
// p.estar (far).
func boundaryDuration(p *polSpec, g *rand.Rand, now time.Time) time.Duration {
	switch p.kind {
	case "inf":
		return 0
	case "far":
		return now.Sub(p.estar) - p.sgd/2
	case "band-expired":
		deltas := []time.Duration{-time.Nanosecond, -time.Microsecond, -time.Millisecond, -50 * time.Millisecond, -2 * time.Second}
		return now.Sub(p.estar) + deltas[g.Intn(len(deltas))]
	default: // band-expiring: expires while the run is in progress
		deltas := []time.Duration{5 * time.Millisecond, 30 * time.Millisecond, 120 * time.Millisecond, 400 * time.Millisecond}
		return now.Sub(p.estar) + deltas[g.Intn(len(deltas))]
	}
}

func (h *svcHarness) createGroup(p *polSpec, ts time.Time) *meta.ShardGroupInfo {
	sg, err := h.e.c.CreateShardGroup(p.db, p.rp, ts)
	if err != nil {
		harnessFail("svc: CreateShardGroup(%s.%s, %s): %v", p.db, p.rp, ts, err)
	}
	if sg == nil {
		return nil
	}
	h.op("CreateShardGroup(%s.%s, %s) -> %s", p.db, p.rp, ts.Format(time.RFC3339Nano), fmtGroup(sg))
	for _, sh := range sg.Shards {
		if h.g.Intn(4) > 0 && !h.store.has(sh.ID) {
			h.store.add(sh.ID)
		}
	}
	return sg
}

// allGroupRefs lists (policy, group) of the current metadata for this run's policies.
func (h *svcHarness) allGroupRefs() (ps []*polSpec, gs []meta.ShardGroupInfo) {
	for _, p := range h.pols {
		rp := h.policy(p.db, p.rp)
		for _, sg := range rp.ShardGroups {
			ps = append(ps, p)
			gs = append(gs, sg)
		}
	}
	return
}

func (h *svcHarness) backdate(p *polSpec, id uint64) {
	d := h.e.c.Data()
	done := false
	for i := range d.Databases {
		for j := range d.Databases[i].RetentionPolicies {
			rp := &d.Databases[i].RetentionPolicies[j]
			for k := range rp.ShardGroups {
				if rp.ShardGroups[k].ID == id && !rp.ShardGroups[k].DeletedAt.IsZero() {
					rp.ShardGroups[k].DeletedAt = time.Now().UTC().Add(-15 * 24 * time.Hour)
					done = true
				}
			}
		}
	}
	if !done {
		return
	}
	if err := h.e.c.SetData(&d); err != nil {
		harnessFail("svc: SetData: %v", err)
	}
	h.op("SetData: DeletedAt of group %d backdated by 15d (prunable)", id)
	h.features["prunable"] = true
}

func (h *svcHarness) setDuration(p *polSpec, d time.Duration) {
	rpu := &meta.RetentionPolicyUpdate{}
	rpu.SetDuration(d)
	extra := ""
	if cur := h.policy(p.db, p.rp); d != 0 && d < cur.ShardGroupDuration {
		rpu.SetShardGroupDuration(time.Hour) // a duration below the shard duration is rejected
		extra = " SHARD DURATION 1h"
	}
	if err := h.e.c.UpdateRetentionPolicy(p.db, p.rp, rpu, false); err != nil {
		harnessFail("svc: UpdateRetentionPolicy(%s.%s, D=%v, sgd=%v): %v", p.db, p.rp, d, p.sgd, err)
	}
	h.op("ALTER RETENTION POLICY %s ON %s DURATION %v%s", p.rp, p.db, d, extra)
}

func (h *svcHarness) mutate() {
	g := h.g
	n := 1 + g.Intn(3)
	for i := 0; i < n; i++ {
		p := h.pols[g.Intn(len(h.pols))]
		now := time.Now().UTC()
		switch g.Intn(9) {
		case 0: // shorten / move the boundary later so that more groups expire
			if p.kind == "inf" {
				p.kind = "far"
			}
			p.estar = p.estar.Add(time.Duration(g.Intn(3)) * p.sgd)
			if lim := alignDown(now, p.sgd).Add(-2 * p.sgd); p.estar.After(lim) {
				p.estar = lim
			}
			if g.Intn(2) == 0 {
				p.kind = []string{"far", "band-expired", "band-expiring"}[g.Intn(3)]
			}
			h.setDuration(p, boundaryDuration(p, g, now))
			h.features["alter-shorter"] = true
		case 1: // lengthen
			if p.kind == "inf" {
				continue
			}
			p.estar = p.estar.Add(-time.Duration(1+g.Intn(3)) * p.sgd)
			h.setDuration(p, boundaryDuration(p, g, now))
			h.features["alter-longer"] = true
		case 2: // finite <-> infinite
			if p.kind == "inf" {
				p.kind = "far"
				h.setDuration(p, boundaryDuration(p, g, now))
				h.features["alter-inf-to-finite"] = true
			} else {
				p.kind = "inf"
				h.setDuration(p, 0)
				h.features["alter-to-inf"] = true
			}
		case 3: // delete a group by hand (any group, typically a live one)
			ps, gs := h.allGroupRefs()
			if len(gs) == 0 {
				continue
			}
			k := g.Intn(len(gs))
			if err := h.e.c.DeleteShardGroup(ps[k].db, ps[k].rp, gs[k].ID); err != nil {
				harnessFail("svc: DeleteShardGroup: %v", err)
			}
			h.op("DeleteShardGroup(%s.%s, %d) by hand", ps[k].db, ps[k].rp, gs[k].ID)
			h.noteDeleted(&gs[k])
			h.features["hand-deleted"] = true
			if g.Intn(3) == 0 {
				h.backdate(ps[k], gs[k].ID)
			}
		case 4: // a new group wholly in the past, or a fresh live one
			off := time.Duration(g.Intn(9)-6) * p.sgd
			h.createGroup(p, p.estar.Add(off).Add(-p.sgd/2))
			h.features["late-created-group"] = true
		case 5: // more local shards: shards of any group not yet held, and unknown ids
			_, gs := h.allGroupRefs()
			for _, sg := range gs {
				for _, sh := range sg.Shards {
					if g.Intn(3) == 0 && !h.store.has(sh.ID) {
						h.store.add(sh.ID)
						h.op("local shard %d (group %d) appears", sh.ID, sg.ID)
					}
				}
			}
			h.addUnknown(1 + g.Intn(2))
		case 6: // truncate at now (what the cluster does when rebalancing)
			t := now.Add(time.Duration(g.Intn(3)) * time.Minute)
			if err := h.e.c.TruncateShardGroups(t); err != nil {
				harnessFail("svc: TruncateShardGroups: %v", err)
			}
			h.op("TruncateShardGroups(%s)", t.Format(time.RFC3339Nano))
			h.features["truncated"] = true
		case 7: // alter the shard duration only
			ns := []time.Duration{time.Hour, 2 * time.Hour, 24 * time.Hour}[g.Intn(3)]
			rp := h.policy(p.db, p.rp)
			if rp.Duration != 0 && ns > rp.Duration {
				continue
			}
			rpu := &meta.RetentionPolicyUpdate{}
			rpu.SetShardGroupDuration(ns)
			if err := h.e.c.UpdateRetentionPolicy(p.db, p.rp, rpu, false); err != nil {
				harnessFail("svc: UpdateRetentionPolicy(sgd=%v D=%v): %v", ns, rp.Duration, err)
			}
			h.op("ALTER RETENTION POLICY %s ON %s SHARD DURATION %v", p.rp, p.db, ns)
			h.features["alter-sgd"] = true
		default: // make an already deleted group prunable
			ps, gs := h.allGroupRefs()
			for k := range gs {
				if gs[k].Deleted() {
					h.backdate(ps[k], gs[k].ID)
					break
				}
			}
		}
	}
}

func (h *svcHarness) noteDeleted(sg *meta.ShardGroupInfo) {
	h.everDeletedGroup[sg.ID] = true
	for _, sh := range sg.Shards {
		h.everDeletedShard[sh.ID] = true
	}
}

func (h *svcHarness) addUnknown(n int) {
	for i := 0; i < n; i++ {
		id := uint64(1)<<40 + uint64(h.g.Int63n(1<<30))
		h.store.add(id)
		h.unknownIDs++
		h.op("local shard %d unknown to the metadata", id)
	}
}

// svcRun returns false when the environment must be abandoned (watchdog).
func svcRun(e *env, caseID string, seed int64) (healthy bool) {
	g := rand.New(rand.NewSource(seed))
	r.Begin(caseID, map[string]interface{}{"seed": seed})
	r.Eval(1)
	if err := e.dropAll(); err != nil {
		harnessFail("svc: drop databases: %v", err)
	}
	rec := &recorder{}
	gate := newGate(e.c, rec)
	store := &storeDouble{rec: rec, gate: gate, local: map[uint64]bool{}}
	h := &svcHarness{e: e, caseID: caseID, seed: seed, g: g, gate: gate, store: store, rec: rec,
		everDeletedGroup: map[uint64]bool{}, everDeletedShard: map[uint64]bool{}, features: map[string]bool{}}

	// ---- metadata
	now := time.Now().UTC()
	nDB := 1 + g.Intn(2)
	var kinds []string
	for d := 0; d < nDB; d++ {
		db := fmt.Sprintf("db%d", d)
		if _, err := e.c.CreateDatabase(db); err != nil {
			harnessFail("svc: CreateDatabase: %v", err)
		}
		nRP := 1 + g.Intn(3)
		if nDB == 1 && nRP == 1 {
			nRP = 2
		}
		for k := 0; k < nRP; k++ {
			p := &polSpec{db: db, rp: fmt.Sprintf("rp%d", k)}
			p.sgd = []time.Duration{time.Hour, time.Hour, 2 * time.Hour, 24 * time.Hour, 7 * 24 * time.Hour}[g.Intn(5)]
			p.kind = []string{"inf", "far", "far", "band-expired", "band-expiring"}[g.Intn(5)]
			if d == 0 && k == 0 && p.kind == "inf" {
				p.kind = "far"
			}
			p.estar = alignDown(now, p.sgd).Add(-time.Duration(2+g.Intn(3)) * p.sgd)
			D := boundaryDuration(p, g, now)
			rn := 1 + g.Intn(2)
			if _, err := e.c.CreateRetentionPolicy(db, &meta.RetentionPolicySpec{Name: p.rp, Duration: &D, ReplicaN: &rn, ShardGroupDuration: p.sgd}, k == 0); err != nil {
				harnessFail("svc: CreateRetentionPolicy(%v, %v): %v", D, p.sgd, err)
			}
			h.op("CREATE RETENTION POLICY %s ON %s DURATION %v REPLICATION %d SHARD DURATION %v  (%s, boundary relative to group end %s)", p.rp, db, D, rn, p.sgd, p.kind, p.estar.Format(time.RFC3339))
			h.pols = append(h.pols, p)
			kinds = append(kinds, p.kind)
		}
	}
	// groups: ends at estar + k*sgd
	nGroups := 0
	for _, p := range h.pols {
		ks := []int{}
		for k := -4; k <= 2; k++ {
			if g.Intn(10) < 6 {
				ks = append(ks, k)
			}
		}
		if g.Intn(10) > 0 { // nearly always one group on each side
			ks = append(ks, 0, 1)
		}
		g.Shuffle(len(ks), func(i, j int) { ks[i], ks[j] = ks[j], ks[i] })
		for i, k := range ks {
			end := p.estar.Add(time.Duration(k) * p.sgd)
			if h.createGroup(p, end.Add(-p.sgd/2-time.Duration(g.Int63n(int64(p.sgd/4))))) != nil {
				nGroups++
			}
			// occasionally truncate in the middle of the history: affects every
			// group (of every policy) that ends after the truncation point
			if i == len(ks)/2 && g.Intn(6) == 0 {
				t := end.Add(-time.Duration(g.Int63n(int64(p.sgd))))
				if err := e.c.TruncateShardGroups(t); err != nil {
					harnessFail("svc: TruncateShardGroups: %v", err)
				}
				h.op("TruncateShardGroups(%s)", t.Format(time.RFC3339Nano))
				h.features["truncated"] = true
			}
		}
		if g.Intn(2) == 0 { // the group being written now, and the next one
			if h.createGroup(p, now) != nil {
				nGroups++
			}
			if g.Intn(2) == 0 {
				if h.createGroup(p, now.Add(p.sgd)) != nil {
					nGroups++
				}
			}
		}
	}
	// hand-deleted groups (some prunable)
	{
		ps, gs := h.allGroupRefs()
		for k := range gs {
			if g.Intn(6) == 0 {
				if err := e.c.DeleteShardGroup(ps[k].db, ps[k].rp, gs[k].ID); err != nil {
					harnessFail("svc: DeleteShardGroup: %v", err)
				}
				h.op("DeleteShardGroup(%s.%s, %d) by hand", ps[k].db, ps[k].rp, gs[k].ID)
				h.noteDeleted(&gs[k])
				h.features["hand-deleted"] = true
				if g.Intn(3) == 0 {
					h.backdate(ps[k], gs[k].ID)
				}
			}
		}
	}
	if g.Intn(4) > 0 {
		h.addUnknown(1 + g.Intn(3))
	}
	if h.unknownIDs > 0 {
		r.Count("svc_runs_with_unknown_local_ids", 1)
	}

	// ---- the real service
	h.svc = retention.NewService(retention.Config{Enabled: true, CheckInterval: toml.Duration(2 * time.Millisecond)})
	h.svc.MetaClient = gate
	h.svc.TSDBStore = store
	if err := h.svc.Open(); err != nil {
		harnessFail("svc: retention Open: %v", err)
	}
	defer func() {
		close(gate.closed)
		done := make(chan struct{})
		go func() { h.svc.Close(); close(done) }()
		select {
		case <-done:
		case <-time.After(watchdog):
			r.Inconclusive("case " + caseID + ": retention.Service.Close did not return")
			h.wedged = true
		}
		healthy = !h.wedged
	}()
	if !h.waitArrival() {
		return false
	}

	rounds := 2 + g.Intn(3)
	var faultKey []string
	for round := 0; round < rounds && !h.failed; round++ {
		if round > 0 {
			h.mutate()
		}
		kDSG := []int{0, 0, 1, 2, 3}[g.Intn(5)]
		mode := []string{"fail-before", "fail-after"}[g.Intn(2)]
		kPrune := []int{0, 0, 1, 2}[g.Intn(4)]
		gate.setFaults(kDSG, mode, kPrune)
		if kDSG+kPrune > 0 {
			h.op("round %d: next %d DeleteShardGroup calls %s, next %d PruneShardGroups calls fail", round, kDSG, mode, kPrune)
			faultKey = append(faultKey, fmt.Sprintf("%d%s%d", kDSG, mode[5:], kPrune))
		}
		for i := 0; i < 4 && gate.faultsLeft() > 0; i++ {
			if _, _, _, ok := h.pass(); !ok {
				return !h.wedged
			}
			r.Count("svc_passes_with_faults_armed", 1)
		}
		gate.setFaults(0, "", 0)
		// let a band group cross the boundary before the judged passes, sometimes
		if g.Intn(2) == 0 {
			h.waitForBand()
		}
		var pre0 *snapshot
		var tb0 time.Time
		var local0 []uint64
		for i := 0; i < passesK; i++ {
			pre, tb, local, ok := h.pass()
			if !ok {
				return !h.wedged
			}
			if i == 0 {
				pre0, tb0, local0 = pre, tb, local
			}
		}
		h.judgeProgress(pre0, tb0, local0)
		r.Count("svc_progress_rounds_judged", 1)
	}
	if h.failed {
		return !h.wedged
	}
	if h.nontrivial {
		atomic.AddInt64(&svcNontrivial, 1)
		sort.Strings(kinds)
		var fs []string
		for f := range h.features {
			fs = append(fs, f)
		}
		sort.Strings(fs)
		gc := nGroups / 4
		r.Nontrivial(fmt.Sprintf("svc|%s|%d|%v|%s|%s", strings.Join(kinds, ","), gc, h.unknownIDs > 0, strings.Join(fs, ","), strings.Join(faultKey, ",")))
		r.Count("svc_runs_nontrivial", 1)
	}
	r.Count("svc_runs", 1)
	if r.WantSample() && len(h.ops) < 30 && h.nontrivial && seed%3 == 0 {
		r.Sample(map[string]interface{}{"case": caseID, "ops": h.ops, "passes": h.passes})
	}
	return !h.wedged
}

// waitForBand positions the clock (it is not a synchronisation device): if a
// finite policy has a group that expires within the next 500ms, wait until
// that instant has passed so that the judged passes carry the obligation.
func (h *svcHarness) waitForBand() {
	s := takeSnapshot(h.e.c.Data())
	now := at(time.Now().UTC())
	var wait time.Duration
	for _, g := range s.groups {
		if g.D == 0 || g.Deleted {
			continue
		}
		b := g.End.add(g.D)
		if now.less(b) && b.less(now.add(500*time.Millisecond)) {
			if d := b.time().Sub(now.time()) + time.Millisecond; d > wait {
				wait = d
			}
		}
	}
	if wait > 0 {
		time.Sleep(wait)
		r.Count("svc_band_group_crossed_boundary_before_judged_passes", 1)
	}
}
