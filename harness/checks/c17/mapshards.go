package main

import (
	"fmt"
	"math/rand"
	"sync/atomic"
	"time"

	"github.com/influxdata/influxdb/coordinator"
	"github.com/influxdata/influxdb/models"
	"github.com/influxdata/influxdb/services/meta"
)

type mapWitness struct {
	Seed   int64    `json:"case_seed"`
	Policy string   `json:"policy"`
	T0     string   `json:"t0"`
	T1     string   `json:"t1"`
	Point  string   `json:"point_time"`
	Points []string `json:"batch_times"`
}

// mapCase: light cross-check of the write-time cut-off (C08 judges routing in
// depth): dropped => ts < t1 - D, kept => ts >= t0 - D, nothing dropped under
// an infinite policy.
func mapCase(e *env, caseID string, seed int64) {
	g := rand.New(rand.NewSource(seed))
	r.Begin(caseID, map[string]interface{}{"seed": seed})
	r.Eval(1)
	if err := e.dropAll(); err != nil {
		harnessFail("map: drop databases: %v", err)
	}
	sgd := []time.Duration{time.Hour, 24 * time.Hour}[g.Intn(2)]
	var D time.Duration
	switch g.Intn(5) {
	case 0:
		D = 0
	case 1:
		D = sgd
	case 2:
		D = 24 * time.Hour
	case 3:
		D = sgd + time.Duration(g.Int63n(int64(40*24*time.Hour)))
	default:
		D = 7 * 24 * time.Hour
	}
	rn := 1
	if _, err := e.c.CreateDatabaseWithRetentionPolicy("mdb", &meta.RetentionPolicySpec{Name: "rp", Duration: &D, ReplicaN: &rn, ShardGroupDuration: sgd}); err != nil {
		harnessFail("map: create database (D=%v sgd=%v): %v", D, sgd, err)
	}
	pw := coordinator.NewPointsWriter()
	pw.MetaClient = e.c
	now := time.Now()
	var offs []time.Duration
	if D == 0 {
		offs = []time.Duration{-250 * 365 * 24 * time.Hour, -50 * 365 * 24 * time.Hour, -24 * time.Hour, 0}
	} else {
		all := []time.Duration{-30 * 24 * time.Hour, -sgd, -time.Hour, -time.Second, -time.Millisecond, -time.Microsecond, 0, time.Millisecond, 50 * time.Millisecond, time.Second, time.Hour, D / 2, D}
		for _, o := range all {
			if g.Intn(3) > 0 {
				offs = append(offs, o)
			}
		}
		offs = append(offs, -2*time.Hour, 2*time.Hour)
	}
	g.Shuffle(len(offs), func(i, j int) { offs[i], offs[j] = offs[j], offs[i] })
	req := &coordinator.WritePointsRequest{Database: "mdb", RetentionPolicy: "rp"}
	var times []string
	tss := []time.Time{}
	for _, o := range offs {
		tss = append(tss, now.Add(-D).Add(o))
	}
	if D == 0 {
		tss = append(tss, time.Unix(0, models.MinNanoTime).UTC(), time.Unix(0, 0).UTC())
	}
	for i, ts := range tss {
		p, err := models.NewPoint("m", models.NewTags(map[string]string{"k": fmt.Sprint(i)}), models.Fields{"v": int64(i)}, ts)
		if err != nil {
			harnessFail("map: NewPoint: %v", err)
		}
		req.Points = append(req.Points, p)
		times = append(times, ts.UTC().Format(time.RFC3339Nano))
	}
	t0 := time.Now().UTC()
	m, err := pw.MapShards(req)
	t1 := time.Now().UTC()
	if err != nil {
		harnessFail("map: MapShards: %v", err)
	}
	dropped := map[string]bool{}
	for _, p := range m.Dropped {
		dropped[string(p.Key())] = true
	}
	kept := map[string]bool{}
	for _, pts := range m.Points {
		for _, p := range pts {
			kept[string(p.Key())] = true
		}
	}
	nd, nk := 0, 0
	pol := fmt.Sprintf("DURATION %v SHARD DURATION %v", D, sgd)
	for _, p := range req.Points {
		k := string(p.Key())
		ts := at(p.Time())
		w := mapWitness{Seed: seed, Policy: pol, T0: t0.Format(time.RFC3339Nano), T1: t1.Format(time.RFC3339Nano), Point: p.Time().UTC().Format(time.RFC3339Nano), Points: times}
		switch {
		case dropped[k] && kept[k] || !dropped[k] && !kept[k]:
			r.Violation("C17/write-cutoff/point-neither-or-both", caseID, "MapShards reported a point neither (or both) dropped and mapped", w)
			return
		case dropped[k]:
			nd++
			r.Count("map_points_dropped", 1)
			if D == 0 {
				r.Violation("C17/write-cutoff/dropped-under-infinite-policy", caseID, fmt.Sprintf("point at %s dropped as too old under an infinite policy", w.Point), w)
				return
			}
			if !ts.less(at(t1).add(-D)) {
				r.Violation("C17/write-cutoff/dropped-inside-retention", caseID, fmt.Sprintf("point at %s dropped although it is not older than t1-D = %s", w.Point, at(t1).add(-D).time().Format(time.RFC3339Nano)), w)
				return
			}
		default:
			nk++
			r.Count("map_points_kept", 1)
			if D != 0 && ts.less(at(t0).add(-D)) {
				r.Violation("C17/write-cutoff/kept-outside-retention", caseID, fmt.Sprintf("point at %s mapped although it is older than t0-D = %s", w.Point, at(t0).add(-D).time().Format(time.RFC3339Nano)), w)
				return
			}
		}
	}
	r.Count("map_cases", 1)
	if nd > 0 && nk > 0 || D == 0 && nk > 1 {
		atomic.AddInt64(&mapNontrivial, 1)
		r.Nontrivial(fmt.Sprintf("map|%s|%v|%d|%d", durClass(D, sgd), sgd, nd, nk))
	}
}
