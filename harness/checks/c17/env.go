package main

import (
	"errors"
	"fmt"
	"io"
	"log"
	"net"
	"os"
	"path/filepath"
	"sort"
	"sync"
	"time"

	"github.com/influxdata/influxdb/services/meta"
	"github.com/influxdata/influxdb/tcp"
)

// env is the metadata backend of one worker: a REAL single-node meta service
// (raft + HTTP on loopback) and one real meta.Client (the data node whose
// retention service is being observed). Two data nodes are registered so that
// shard groups have two shards.
type env struct {
	dir string
	svc *meta.Service
	ln  net.Listener
	c   *meta.Client
}

func startEnv(dir string) (*env, error) {
	e := &env{dir: dir}
	cfg := meta.NewConfig()
	cfg.BindAddress = "127.0.0.1:0"
	cfg.HTTPBindAddress = "127.0.0.1:0"
	cfg.Dir = filepath.Join(dir, "meta")
	cfg.SingleServer = true
	cfg.LoggingEnabled = false
	cfg.RetentionAutoCreate = false
	if err := os.MkdirAll(cfg.Dir, 0o755); err != nil {
		return nil, err
	}
	ln, err := net.Listen("tcp", cfg.BindAddress)
	if err != nil {
		return nil, err
	}
	e.ln = ln
	mux := tcp.NewMux()
	mux.Logger = log.New(io.Discard, "", 0)
	s := meta.NewService(cfg)
	s.RaftListener = mux.Listen(meta.MuxHeader)
	go mux.Serve(ln)
	if err := s.Open(); err != nil {
		return nil, fmt.Errorf("meta service open: %v", err)
	}
	e.svc = s
	ccfg := meta.NewConfig()
	ccfg.Dir = filepath.Join(dir, "client")
	ccfg.RetentionAutoCreate = false
	if err := os.MkdirAll(ccfg.Dir, 0o755); err != nil {
		return nil, err
	}
	c := meta.NewClient(ccfg)
	c.SetMetaServers([]string{s.HTTPAddr()})
	c.SetTCPAddr("n1:8088")
	if err := c.Open(); err != nil {
		return nil, fmt.Errorf("meta client open: %v", err)
	}
	e.c = c
	for i := 1; i <= 2; i++ {
		if _, err := c.CreateDataNode(fmt.Sprintf("n%d:8086", i), fmt.Sprintf("n%d:8088", i)); err != nil {
			return nil, fmt.Errorf("create data node: %v", err)
		}
	}
	return e, nil
}

func (e *env) close() {
	if e.c != nil {
		e.c.Close()
	}
	if e.svc != nil {
		e.svc.Close()
	}
	if e.ln != nil {
		e.ln.Close()
	}
}

// dropAll removes every database so that the next case starts from empty
// metadata (shard and group ids keep growing, which is fine).
func (e *env) dropAll() error {
	for _, d := range e.c.Databases() {
		if err := e.c.DropDatabase(d.Name); err != nil {
			return err
		}
	}
	return nil
}

// ------------------------------------------------------------ observation

// event is one call the retention service made on one of its two
// dependencies, stamped with the wall clock read when the call was observed.
type event struct {
	Pass     int       `json:"pass"`
	Kind     string    `json:"kind"` // dsg | ds | prune
	DB       string    `json:"db,omitempty"`
	RP       string    `json:"rp,omitempty"`
	ID       uint64    `json:"id,omitempty"`
	T1       time.Time `json:"observed_at"`
	Injected string    `json:"injected,omitempty"` // "", fail-before, fail-after
	Err      string    `json:"err,omitempty"`
}

type recorder struct {
	mu   sync.Mutex
	evs  []event
	pass int
}

func (r *recorder) add(e event) {
	r.mu.Lock()
	e.Pass = r.pass
	r.evs = append(r.evs, e)
	r.mu.Unlock()
}

func (r *recorder) take() []event {
	r.mu.Lock()
	e := r.evs
	r.evs = nil
	r.mu.Unlock()
	return e
}

var errInjected = errors.New("injected metadata error")

// gateMC is the MetaClient handed to retention.Service. It forwards to the
// real meta.Client, records every call, injects errors, and blocks each
// enforcement pass at its first call (Databases) until the harness grants a
// permit — so passes are counted by the service's own calls, never by
// sleeping: the n-th arrival at the gate means pass n-1 has completed.
type gateMC struct {
	real *meta.Client
	rec  *recorder

	arrived chan struct{} // one token per Databases() call
	permits chan struct{}
	closed  chan struct{}

	mu        sync.Mutex
	failDSG   int    // fail the next n DeleteShardGroup calls
	failMode  string // fail-before (no effect) | fail-after (applied, error reported)
	failPrune int    // fail the next n PruneShardGroups calls
}

func newGate(c *meta.Client, rec *recorder) *gateMC {
	return &gateMC{real: c, rec: rec, arrived: make(chan struct{}, 1<<16), permits: make(chan struct{}), closed: make(chan struct{})}
}

func (g *gateMC) isClosed() bool {
	select {
	case <-g.closed:
		return true
	default:
		return false
	}
}

func (g *gateMC) Databases() []meta.DatabaseInfo {
	if g.isClosed() {
		return nil
	}
	g.arrived <- struct{}{}
	select {
	case <-g.permits:
	case <-g.closed:
		return nil
	}
	g.rec.mu.Lock()
	g.rec.pass++
	g.rec.mu.Unlock()
	return g.real.Databases()
}

func (g *gateMC) DeleteShardGroup(database, policy string, id uint64) error {
	t1 := time.Now().UTC()
	g.mu.Lock()
	inj := ""
	if g.failDSG > 0 {
		g.failDSG--
		inj = g.failMode
	}
	g.mu.Unlock()
	var err error
	switch inj {
	case "fail-before":
		err = errInjected
	case "fail-after":
		if e2 := g.real.DeleteShardGroup(database, policy, id); e2 != nil {
			err = e2
		} else {
			err = errInjected
		}
	default:
		err = g.real.DeleteShardGroup(database, policy, id)
	}
	ev := event{Kind: "dsg", DB: database, RP: policy, ID: id, T1: t1, Injected: inj}
	if err != nil {
		ev.Err = err.Error()
	}
	g.rec.add(ev)
	return err
}

func (g *gateMC) PruneShardGroups() error {
	if g.isClosed() {
		return nil
	}
	t1 := time.Now().UTC()
	g.mu.Lock()
	inj := ""
	if g.failPrune > 0 {
		g.failPrune--
		inj = "fail-before"
	}
	g.mu.Unlock()
	var err error
	if inj != "" {
		err = errInjected
	} else {
		err = g.real.PruneShardGroups()
	}
	ev := event{Kind: "prune", T1: t1, Injected: inj}
	if err != nil {
		ev.Err = err.Error()
	}
	g.rec.add(ev)
	return err
}

func (g *gateMC) setFaults(dsg int, mode string, prune int) {
	g.mu.Lock()
	g.failDSG, g.failMode, g.failPrune = dsg, mode, prune
	g.mu.Unlock()
}

func (g *gateMC) faultsLeft() int {
	g.mu.Lock()
	defer g.mu.Unlock()
	return g.failDSG + g.failPrune
}

// storeDouble is the recording TSDBStore: the set of shard ids this node
// holds. DeleteShard always succeeds and removes the id.
type storeDouble struct {
	rec    *recorder
	gate   *gateMC
	mu     sync.Mutex
	local  map[uint64]bool
	listed int
}

func (s *storeDouble) ShardIDs() []uint64 {
	if s.gate.isClosed() {
		return nil
	}
	s.mu.Lock()
	defer s.mu.Unlock()
	s.listed++
	ids := make([]uint64, 0, len(s.local))
	for id := range s.local {
		ids = append(ids, id)
	}
	return ids // map order: the real store also returns map order
}

func (s *storeDouble) DeleteShard(id uint64) error {
	t1 := time.Now().UTC()
	s.mu.Lock()
	had := s.local[id]
	delete(s.local, id)
	s.mu.Unlock()
	ev := event{Kind: "ds", ID: id, T1: t1}
	if !had {
		ev.Err = "shard not held"
	}
	s.rec.add(ev)
	if !had {
		return errors.New("shard not found")
	}
	return nil
}

func (s *storeDouble) ids() []uint64 {
	s.mu.Lock()
	defer s.mu.Unlock()
	ids := make([]uint64, 0, len(s.local))
	for id := range s.local {
		ids = append(ids, id)
	}
	sort.Slice(ids, func(i, j int) bool { return ids[i] < ids[j] })
	return ids
}

func (s *storeDouble) add(id uint64) {
	s.mu.Lock()
	s.local[id] = true
	s.mu.Unlock()
}

func (s *storeDouble) has(id uint64) bool {
	s.mu.Lock()
	defer s.mu.Unlock()
	return s.local[id]
}
