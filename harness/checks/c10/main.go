// C10 — deletes remove exactly the targeted data, permanently.
//
// Delete-heavy seeded histories run against a real tsdb.Store (inmem and
// tsi1). After every step — and in particular after the steps where a
// resurrection would show: snapshot, each kind of compaction, clean restart —
// every series field is read back and compared with a model in which a
// completed delete removes exactly the selected series in the inclusive time
// range, and the shard's listings (measurements, tag keys, tag values, series
// cardinality) are compared with the model's set of series that still have
// points. Schedules are made deterministic with hooks: a delete issued while
// a cache snapshot is parked between "file written" and "file installed"; a
// delete issued while a failed snapshot is still held for retry; writes to a
// targeted series right after the delete. Crash images are taken at the hooks
// inside the delete path and reopened.
package main

import (
	"context"
	"fmt"
	"math/rand"
	"os"
	"path/filepath"
	"regexp"
	"runtime"
	"sort"
	"strings"
	"sync"
	"time"

	"github.com/influxdata/influxdb/models"
	"github.com/influxdata/influxdb/pkg/verifhook"
	"github.com/influxdata/influxdb/tsdb"
	"github.com/influxdata/influxdb/tsdb/engine/tsm1"
	"github.com/influxdata/influxql"

	"verifharness/internal/crashimg"
	"verifharness/internal/ev"
	sm "verifharness/internal/shardmodel"
)

func main() { ev.Supervise("C10", body) }

var r *ev.Run

type witness struct {
	Seed   int64    `json:"history_seed"`
	Index  string   `json:"index"`
	Ops    []string `json:"ops_so_far"`
	Detail string   `json:"detail"`
	Layout string   `json:"layout"`
}

type hist struct {
	caseID string
	seed   int64
	index  string
	dir    string
	env    *sm.Env
	tr     *sm.Tracker
	ops    []string
	g      *rand.Rand
	failed bool

	// schedule state
	snapHeld     bool // a failed snapshot is held for retry
	delInWindow  bool // some delete ran while a snapshot was parked or held
	lastDelStep  int
	layoutChange int // layout changes (snapshot/compaction/reopen) since the last delete
	srcMix       string

	// in-flight delete (for crash images)
	pendD   *sm.PendingDel
	imgSeq  int
	imaging bool

	lingerSeen map[string]bool
}

var (
	hmu   sync.Mutex
	roots = map[string]*hist{}
)

func findHist(path string) *hist {
	hmu.Lock()
	defer hmu.Unlock()
	for root, h := range roots {
		if strings.HasPrefix(path, root+"/") || path == root {
			return h
		}
	}
	return nil
}

func body() {
	r = ev.Start("C10", "exploration")
	r.Rule = "delete-heavy seeded histories (writes, range deletes with closed/open/single-instant ranges over single series, tag predicates, whole measurement, whole database, DROP MEASUREMENT, snapshots, all compaction kinds, clean restarts) on inmem and tsi1; plus scheduled interleavings (delete inside a parked snapshot window, delete while a failed snapshot is held, write right after a delete) and crash images at the del.* / tomb.committed hooks. A delete is non-trivial when its target had data in >=2 of {cache, snapshot, TSM files} or was observed through >=1 later layout change; distinct by (selection kind, range kind, source mix, later layout change kind)."
	r.Assumptions = []string{
		"one sequential client; scheduled interleavings are produced by running the second operation inside the hook handler of the first",
		"listings are compared at quiescent points only",
		"series cardinality is compared exactly (Store.SeriesCardinality merges the shards' series-id sets, it is not an estimate)",
	}
	r.Floor = 25
	n := r.Pick(200, 4000)
	if v := os.Getenv("C10_N"); v != "" {
		fmt.Sscan(v, &n)
	}
	verifhook.Set("snap.written", onSnapWritten)
	for _, h := range []string{"del.tombstoned", "del.cache", "del.wal", "tomb.committed"} {
		verifhook.Set(h, onDelHook)
	}
	rng := r.Rand("hist")
	type job struct {
		id   string
		seed int64
		idx  int
	}
	ch := make(chan job)
	root := ev.TempDir("c10")
	defer os.RemoveAll(root)
	var wg sync.WaitGroup
	for w := 0; w < runtime.NumCPU(); w++ {
		wg.Add(1)
		go func() {
			defer wg.Done()
			for j := range ch {
				index := "inmem"
				if j.idx%2 == 1 {
					index = "tsi1"
				}
				dir := filepath.Join(root, fmt.Sprintf("h%d", j.idx))
				os.MkdirAll(dir, 0o755)
				runHistory(j.id, j.seed, index, dir, j.idx)
				os.RemoveAll(dir)
			}
		}()
	}
	for i := 0; i < n; i++ {
		j := job{fmt.Sprintf("hist/%d", i), rng.Int63(), i}
		if r.Skip(j.id) {
			continue
		}
		ch <- j
	}
	close(ch)
	wg.Wait()
	// directed schedule: compactions re-enabled while a delete runs
	for i, n := 0, r.Pick(2, 8); i < n; i++ {
		index := []string{"inmem", "tsi1"}[i%2]
		reenableScenario(fmt.Sprintf("reenable/%d", i), int64(i), index, filepath.Join(root, fmt.Sprintf("re%d", i)))
	}
	r.Finish()
}

// ------------------------------------------------------------------ hooks

type snapAction struct {
	fn   func() // run while the snapshot is parked
	fail bool   // make this snapshot attempt fail
}

var (
	samu    sync.Mutex
	snapAct = map[string]*snapAction{} // shard dir -> action
)

func onSnapWritten(name string, args ...interface{}) error {
	p, _ := args[0].(string)
	samu.Lock()
	a := snapAct[p]
	delete(snapAct, p)
	samu.Unlock()
	if a == nil {
		return nil
	}
	if a.fn != nil {
		a.fn()
	}
	if a.fail {
		return fmt.Errorf("injected snapshot failure")
	}
	return nil
}

func onDelHook(name string, args ...interface{}) error {
	p, _ := args[0].(string)
	h := findHist(p)
	if h == nil || h.failed || !h.imaging || h.pendD == nil {
		return nil
	}
	h.crashImage(name)
	return nil
}

// crashImage copies the store while a delete is in flight, reopens the copy
// and checks it: targeted points may be either way, everything else must be
// exactly the model.
func (h *hist) crashImage(hook string) {
	h.imgSeq++
	img := filepath.Join(h.dir, fmt.Sprintf("img%d", h.imgSeq))
	if err := crashimg.CopyTree(h.env.Root, img); err != nil {
		fmt.Fprintf(os.Stderr, "harness: copy: %v\n", err)
		os.Exit(ev.ExitBroken)
	}
	defer os.RemoveAll(img)
	exp := h.tr.Clone()
	exp.PendingDelete = h.pendD
	env := sm.NewEnv(img, h.index)
	var err error
	res, _ := ev.Watch(300*time.Second, 20*time.Second, func() { err = env.Open() })
	if res != ev.Finished {
		r.Inconclusive(h.caseID + ": reopening a crash image did not finish")
		return
	}
	if err != nil {
		h.violation("C10/crash-image-open-failed/"+hook, "store does not open on an image taken inside a delete: "+err.Error())
		return
	}
	defer env.Close()
	reads, mm, err := exp.CheckAll(env, false)
	r.Count("reads", int64(reads))
	r.Count("crash_images_inside_delete", 1)
	r.Eval(1)
	if err != nil {
		h.violation("C10/read-error/crash@"+hook, err.Error())
		return
	}
	if mm != nil {
		sig := "C10/" + classify(mm, h)
		if !h.delInWindow {
			sig += "/crash@" + hook
		}
		h.violation(sig, fmt.Sprintf("image taken at %s inside a delete, reopened: %s", hook, mm.Error()))
	}
}

// ------------------------------------------------------------------ history

func (h *hist) violation(sig, what string) bool {
	h.failed = true
	lay := "(inside a delete: not sampled)"
	if h.pendD == nil { // FileStore.Stats takes the file-store lock: never from inside a delete hook
		lay = layout(h.env)
	}
	return r.Violation(sig, h.caseID, what, witness{h.seed, h.index, append([]string(nil), h.ops...), what, lay})
}

// classify turns a read mismatch into a signature class. A point that a
// completed delete removed and that is back is "resurrected"; when the delete
// ran while a snapshot was parked or held the signature says so (that window
// is a listed finding; other resurrections are not).
func classify(mm *sm.Mismatch, h *hist) string {
	kind := mm.Kind
	if i := strings.IndexByte(kind, '/'); i >= 0 {
		kind = kind[i+1:]
	}
	if kind == "unexpected-point" && h.tr.Ever[mm.Key] != nil && len(h.tr.Ever[mm.Key][mm.T]) > 0 {
		kind = "resurrected"
	}
	if h.delInWindow {
		if kind != "resurrected" && kind != "missing-point" {
			kind = "other-" + kind
		}
		return "delete-while-snapshot-held/" + kind
	}
	return kind
}

func layout(env *sm.Env) string {
	if env == nil || env.Store == nil {
		return "?"
	}
	eng, err := env.Engine()
	if err != nil {
		return "?"
	}
	s := fmt.Sprintf("cache=%dB files=[", eng.Cache.Size())
	for i, st := range eng.FileStore.Stats() {
		if i > 0 {
			s += " "
		}
		s += filepath.Base(st.Path)
		if st.HasTombstone {
			s += "+tomb"
		}
	}
	return s + "]"
}

func runHistory(caseID string, seed int64, index, dir string, idx int) {
	g := rand.New(rand.NewSource(seed))
	h := &hist{caseID: caseID, seed: seed, index: index, dir: dir, g: g, tr: sm.NewTracker(), lastDelStep: -1}
	h.env = sm.NewEnv(filepath.Join(dir, "live"), index)
	if err := h.env.Open(); err != nil {
		fmt.Fprintf(os.Stderr, "harness: open: %v\n", err)
		os.Exit(ev.ExitBroken)
	}
	hmu.Lock()
	roots[h.env.Root] = h
	hmu.Unlock()
	abandoned := false
	defer func() {
		hmu.Lock()
		delete(roots, h.env.Root)
		hmu.Unlock()
		if !abandoned {
			h.env.Close()
		}
	}()
	r.Eval(1)
	h.imaging = idx%4 == 0 // crash images inside deletes for a quarter of the histories

	cfg := sm.DefaultGen()
	cfg.Ops = 26 + g.Intn(14)
	cfg.MaxBatch = 14
	cfg.Conflicts = false
	cfg.WeightWrite, cfg.WeightSnap, cfg.WeightCompact, cfg.WeightDelete, cfg.WeightReopen = 8, 4, 4, 6, 1
	gen := sm.NewGenerator(g, cfg)
	// which scheduled interleavings this history contains
	scheduled := idx%3 != 0

	for step := 0; step < cfg.Ops && !h.failed; step++ {
		op := gen.Next()
		var okOp bool
		wres, dump := ev.Watch(120*time.Second, 15*time.Second, func() { okOp = h.exec(op, gen, scheduled, step) })
		if wres != ev.Finished {
			os.WriteFile(filepath.Join(r.Root, "logs", "c10.hang."+strings.ReplaceAll(caseID, "/", "_")+".txt"), []byte(strings.Join(h.ops, "\n")+"\n\n"+dump), 0o644)
			r.Inconclusive(fmt.Sprintf("%s: %s did not finish (deadlock evidence=%v); history abandoned", caseID, op, wres == ev.Deadlocked))
			abandoned = true
			return
		}
		if !okOp || h.failed {
			return
		}
		if !h.checkAll(op.String()) {
			return
		}
	}
	r.Count("histories", 1)
	if r.WantSample() {
		r.Sample(map[string]interface{}{"case": caseID, "index": index, "ops": h.ops, "final_layout": layout(h.env)})
	}
}

func (h *hist) sources() string {
	eng, err := h.env.Engine()
	if err != nil {
		return "?"
	}
	var parts []string
	if eng.Cache.Size() > 0 {
		parts = append(parts, "cache")
	}
	if h.snapHeld {
		parts = append(parts, "held-snapshot")
	}
	if n := len(eng.FileStore.Stats()); n > 0 {
		if n > 1 {
			parts = append(parts, "files>1")
		} else {
			parts = append(parts, "file")
		}
	}
	return strings.Join(parts, "+")
}

func rangeKind(op sm.Op) string {
	switch {
	case !op.HasMin && !op.HasMax:
		return "all-time"
	case op.HasMin && op.HasMax && op.Min == op.Max:
		return "instant"
	case op.HasMin && op.HasMax:
		return "closed"
	case op.HasMin:
		return "open-end"
	default:
		return "open-start"
	}
}

func selKind(s sm.Selector) string {
	k := "db"
	if s.Measurement != "" {
		k = "measurement"
	}
	if len(s.TagEq) > 0 {
		k += fmt.Sprintf("+%dtags", len(s.TagEq))
	}
	return k
}

func (h *hist) doDelete(op sm.Op, note string) bool {
	min, max := op.EffRange()
	h.pendD = &sm.PendingDel{Sel: op.Sel, Min: min, Max: max}
	mix := h.sources()
	err := h.env.Delete(op.Sel, op.Min, op.Max, op.HasMin, op.HasMax)
	h.pendD = nil
	if err != nil {
		h.violation("C10/delete-error", "delete failed: "+err.Error())
		return false
	}
	gone := h.tr.ApplyDelete(op.Sel, min, max)
	r.Count("deletes", 1)
	if len(gone) > 0 {
		r.Count("deletes_that_removed_points", 1)
		if strings.Contains(mix, "+") || note != "" {
			r.Nontrivial(fmt.Sprintf("%s|%s|%s|%s", selKind(op.Sel), rangeKind(op), mix, note))
		}
		h.srcMix = fmt.Sprintf("%s|%s|%s", selKind(op.Sel), rangeKind(op), mix)
		h.layoutChange = 0
	}
	return true
}

func (h *hist) doWrite(batch []sm.Point) bool {
	res := h.env.Write(batch)
	if res.Err != nil && !res.Partial {
		h.violation("C10/write-error", "write failed: "+res.Err.Error())
		return false
	}
	h.tr.ApplyWrite(batch)
	return true
}

func (h *hist) exec(op sm.Op, gen *sm.Generator, scheduled bool, step int) bool {
	h.ops = append(h.ops, op.String())
	switch op.Kind {
	case "write":
		return h.doWrite(op.Batch)
	case "snapshot":
		mode := 0
		if scheduled {
			mode = h.g.Intn(4) // 0 plain, 1 delete inside the parked window, 2 fail (held for retry), 3 write+delete inside window
		}
		var inner sm.Op
		var extra []sm.Point
		okInner := true
		act := &snapAction{}
		switch mode {
		case 1, 3:
			if mode == 3 {
				extra = gen.Batch()
				gen.T.ApplyWrite(extra)
			}
			inner = gen.DeleteOp()
			imin, imax := inner.EffRange()
			gen.T.ApplyDelete(inner.Sel, imin, imax)
			act.fn = func() {
				if extra != nil {
					h.ops = append(h.ops, fmt.Sprintf("  (snapshot parked) write(%d pts)", len(extra)))
					if okInner = h.doWrite(extra); !okInner {
						return
					}
				}
				h.ops = append(h.ops, "  (snapshot parked) "+inner.String())
				h.delInWindow = true
				r.Count("deletes_inside_parked_snapshot", 1)
				okInner = h.doDelete(inner, "snapshot-parked")
			}
		case 2:
			act.fail = true
		}
		ran := false
		if act.fn != nil {
			f := act.fn
			act.fn = func() { ran = true; f() }
		}
		samu.Lock()
		snapAct[h.env.ShardDir()] = act
		samu.Unlock()
		err := h.env.Snapshot()
		samu.Lock()
		reached := snapAct[h.env.ShardDir()] == nil
		delete(snapAct, h.env.ShardDir())
		samu.Unlock()
		if !okInner {
			return false
		}
		if (mode == 1 || mode == 3) && !ran {
			// the cache was empty: no window; run the planned ops plainly so the
			// generator's shadow stays in step
			if extra != nil {
				h.ops = append(h.ops, fmt.Sprintf("  (no snapshot window) write(%d pts)", len(extra)))
				if !h.doWrite(extra) {
					return false
				}
			}
			h.ops = append(h.ops, "  (no snapshot window) "+inner.String())
			if !h.doDelete(inner, "") {
				return false
			}
		}
		if err != nil {
			if mode == 2 && reached && strings.Contains(err.Error(), "injected") {
				h.ops[len(h.ops)-1] += " (injected failure; snapshot held for retry)"
				h.snapHeld = true
				r.Count("snapshot_failures_injected", 1)
				return true
			}
			h.violation("C10/snapshot-error", "WriteSnapshot failed: "+err.Error())
			return false
		}
		h.snapHeld = false
		h.layoutChange++
	case "compact":
		if _, err := h.env.Compact(op.Compact, op.PPB, op.Arg); err != nil {
			h.violation("C10/compact-error", err.Error())
			return false
		}
		h.layoutChange++
	case "delete":
		if h.snapHeld {
			h.delInWindow = true
			r.Count("deletes_while_failed_snapshot_held", 1)
		}
		note := ""
		if h.snapHeld {
			note = "snapshot-held"
		}
		if !h.doDelete(op, note) {
			return false
		}
		// a write to a targeted series right after the delete must persist
		if h.g.Intn(3) == 0 {
			b := gen.Batch()
			gen.T.ApplyWrite(b)
			h.ops = append(h.ops, fmt.Sprintf("write-after-delete(%d pts)", len(b)))
			if !h.doWrite(b) {
				return false
			}
			r.Count("writes_right_after_delete", 1)
		}
	case "drop-measurement":
		if h.snapHeld {
			h.delInWindow = true
		}
		h.pendD = &sm.PendingDel{DropMeas: op.Meas}
		err := h.env.DropMeasurement(op.Meas)
		h.pendD = nil
		if err != nil {
			h.violation("C10/drop-error", err.Error())
			return false
		}
		h.tr.ApplyDelete(sm.Selector{Measurement: op.Meas}, sm.MinTime, sm.MaxTime)
		r.Count("measurement_drops", 1)
	case "reopen":
		if err := h.env.Reopen(); err != nil {
			h.violation("C10/reopen-error", err.Error())
			return false
		}
		h.snapHeld = false
		h.layoutChange++
	}
	return true
}

// checkAll compares reads and listings with the model after a step.
func (h *hist) checkAll(after string) bool {
	reads, mm, err := h.tr.CheckAll(h.env, true)
	r.Count("reads", int64(reads))
	if err != nil {
		h.violation("C10/read-error", err.Error())
		return false
	}
	if mm != nil {
		h.violation("C10/"+classify(mm, h), fmt.Sprintf("after %s: %s", after, mm.Error()))
		return false
	}
	if h.srcMix != "" && h.layoutChange > 0 {
		r.Nontrivial(fmt.Sprintf("%s|later-layout-change|%s", h.srcMix, strings.SplitN(after, "(", 2)[0]))
	}
	if h.snapHeld {
		return true // listings are judged at quiescent points only
	}
	if what := h.checkListings(); what != "" {
		kind := strings.SplitN(what, ":", 2)[0]
		sig := "C10/listing/" + kind + "/" + h.index
		if kind == "emptied-series-listed" {
			// Which series linger, and where does the engine still know them from?
			// A series emptied piecewise by several deletes keeps its (fully
			// tombstoned) key in a TSM file index and is therefore kept in the
			// series index: that is one listed defect, reported once per series.
			// A lingering series that neither a file nor the cache knows is a
			// different defect.
			newOnes, class := h.lingering()
			if len(newOnes) == 0 {
				return true // only series already reported in this history
			}
			sig += "/" + class
			what += fmt.Sprintf(" (lingering: %v)", newOnes)
		}
		if kind == "emptied-tag-value-listed" || kind == "emptied-tag-key-listed" || kind == "emptied-measurement-listed" {
			// The listings are derived from the series the index holds: a tag
			// value / key / measurement that lingers because a piecewise-emptied
			// series lingers (the listed defect above; the cardinality question
			// that would name it comes later in the list) is that same defect.
			if by := h.explainedByLingeringSeries(what); by != "" {
				sig = "C10/listing/emptied-series-listed/" + h.index + "/key-still-in-tsm-index"
				what += " (carried by the lingering series " + by + ", whose key is still in a TSM file index)"
			}
		}
		if h.delInWindow {
			sig = "C10/delete-while-snapshot-held/listing"
		}
		if known := h.violation(sig, fmt.Sprintf("after %s: %s", after, what)); known && !h.delInWindow {
			// a listed listing defect leaves model and store in step: carry on
			h.failed = false
			return true
		}
		return false
	}
	return true
}

func (h *hist) checkListings() string {
	live := h.tr.M.LiveSeries()
	wantMeas := map[string]bool{}
	wantKeys := map[string]map[string]bool{}
	wantVals := map[string]map[string]bool{} // measurement -> "key=value"
	for id := range live {
		s := h.tr.M.SeriesOf[id]
		wantMeas[s.Name] = true
		if wantKeys[s.Name] == nil {
			wantKeys[s.Name] = map[string]bool{}
			wantVals[s.Name] = map[string]bool{}
		}
		for k, v := range s.Tags {
			wantKeys[s.Name][k] = true
			wantVals[s.Name][k+"="+v] = true
		}
	}
	ctx := context.Background()
	names, err := h.env.Store.MeasurementNames(ctx, nil, h.env.DB, "", nil)
	if err != nil {
		return "listing-error: MeasurementNames: " + err.Error()
	}
	got := map[string]bool{}
	for _, n := range names {
		got[string(n)] = true
	}
	r.Count("listing_questions", 1)
	for m := range wantMeas {
		if !got[m] {
			return fmt.Sprintf("live-measurement-missing: measurement %q has points but is not listed by MeasurementNames %v", m, keys(got))
		}
	}
	for m := range got {
		if !wantMeas[m] {
			return fmt.Sprintf("emptied-measurement-listed: measurement %q has no points left but is still listed", m)
		}
	}
	tks, err := h.env.Store.TagKeys(ctx, nil, []uint64{h.env.ShardID}, nil)
	if err != nil {
		return "listing-error: TagKeys: " + err.Error()
	}
	r.Count("listing_questions", 1)
	gotKeys := map[string]map[string]bool{}
	for _, tk := range tks {
		gotKeys[tk.Measurement] = map[string]bool{}
		for _, k := range tk.Keys {
			gotKeys[tk.Measurement][k] = true
		}
	}
	for m, ks := range wantKeys {
		for k := range ks {
			if !gotKeys[m][k] {
				return fmt.Sprintf("live-tag-key-missing: tag key %q of measurement %q belongs to a series with points but is not listed", k, m)
			}
		}
	}
	for m, ks := range gotKeys {
		for k := range ks {
			if !wantKeys[m][k] {
				return fmt.Sprintf("emptied-tag-key-listed: tag key %q of measurement %q is listed but no series with points carries it", k, m)
			}
		}
	}
	for _, key := range []string{"host", "region"} {
		cond, _ := influxql.ParseExpr(fmt.Sprintf("_tagKey = '%s'", key))
		tvs, err := h.env.Store.TagValues(ctx, nil, []uint64{h.env.ShardID}, cond)
		if err != nil {
			return "listing-error: TagValues: " + err.Error()
		}
		r.Count("listing_questions", 1)
		gotVals := map[string]map[string]bool{}
		for _, tv := range tvs {
			if gotVals[tv.Measurement] == nil {
				gotVals[tv.Measurement] = map[string]bool{}
			}
			for _, kv := range tv.Values {
				gotVals[tv.Measurement][kv.Key+"="+kv.Value] = true
			}
		}
		for m, vs := range wantVals {
			for kv := range vs {
				if strings.HasPrefix(kv, key+"=") && !gotVals[m][kv] {
					return fmt.Sprintf("live-tag-value-missing: %s of measurement %q belongs to a series with points but is not listed", kv, m)
				}
			}
		}
		for m, vs := range gotVals {
			for kv := range vs {
				if !wantVals[m][kv] {
					return fmt.Sprintf("emptied-tag-value-listed: %s of measurement %q is listed but no series with points carries it", kv, m)
				}
			}
		}
	}
	card, err := h.env.Store.SeriesCardinality(ctx, h.env.DB)
	if err != nil {
		return "listing-error: SeriesCardinality: " + err.Error()
	}
	r.Count("listing_questions", 1)
	if int(card) != len(live) {
		if int(card) < len(live) {
			return fmt.Sprintf("live-series-missing: series cardinality is %d but %d series have points", card, len(live))
		}
		return fmt.Sprintf("emptied-series-listed: series cardinality is %d but only %d series have points", card, len(live))
	}
	return ""
}

var (
	reLingerVal  = regexp.MustCompile(`emptied-tag-value-listed: (\S+)=(\S*) of measurement "([^"]*)"`)
	reLingerKey  = regexp.MustCompile(`emptied-tag-key-listed: tag key "([^"]*)" of measurement "([^"]*)"`)
	reLingerMeas = regexp.MustCompile(`emptied-measurement-listed: measurement "([^"]*)"`)
)

// explainedByLingeringSeries returns a series the index still lists although it
// has no points, whose key is still in a TSM file index, and which carries the
// lingering tag value / tag key / measurement named in what ("" if none).
func (h *hist) explainedByLingeringSeries(what string) string {
	live := h.tr.M.LiveSeries()
	sh := h.env.Shard()
	idx, err1 := sh.Index()
	sfile, err2 := sh.SeriesFile()
	eng, err3 := h.env.Engine()
	if err1 != nil || err2 != nil || err3 != nil {
		return ""
	}
	var meas, k, v string
	anyKey, anyVal := true, true
	if m := reLingerVal.FindStringSubmatch(what); m != nil {
		k, v, meas, anyKey, anyVal = m[1], m[2], m[3], false, false
	} else if m := reLingerKey.FindStringSubmatch(what); m != nil {
		k, meas, anyKey = m[1], m[2], false
	} else if m := reLingerMeas.FindStringSubmatch(what); m != nil {
		meas = m[1]
	} else {
		return ""
	}
	is := tsdb.IndexSet{Indexes: []tsdb.Index{idx}, SeriesFile: sfile}
	ks, err := is.MeasurementSeriesKeysByExpr([]byte(meas), nil)
	if err != nil {
		return ""
	}
	for _, key := range ks {
		id := string(key)
		if live[id] {
			continue
		}
		name, tags := models.ParseKeyBytes(key)
		if string(name) != meas {
			continue
		}
		if !anyKey {
			tv := tags.Get([]byte(k))
			if tv == nil || (!anyVal && string(tv) != v) {
				continue
			}
		}
		for _, f := range eng.FileStore.Files() {
			if i := f.Seek(key); i < f.KeyCount() {
				ck, _ := f.KeyAt(i)
				if sk, _ := tsm1.SeriesAndFieldFromCompositeKey(ck); string(sk) == id {
					return id
				}
			}
		}
	}
	return ""
}

// lingering lists series the index still holds although the model says they
// have no points, skipping those already reported in this history, and says
// whether a TSM file index still contains one of their keys.
func (h *hist) lingering() (fresh []string, class string) {
	live := h.tr.M.LiveSeries()
	sh := h.env.Shard()
	idx, err1 := sh.Index()
	sfile, err2 := sh.SeriesFile()
	eng, err3 := h.env.Engine()
	if err1 != nil || err2 != nil || err3 != nil {
		return []string{"?"}, "unclassified"
	}
	is := tsdb.IndexSet{Indexes: []tsdb.Index{idx}, SeriesFile: sfile}
	names, _ := h.env.Store.MeasurementNames(context.Background(), nil, h.env.DB, "", nil)
	class = "key-nowhere"
	for _, m := range names {
		ks, err := is.MeasurementSeriesKeysByExpr(m, nil)
		if err != nil {
			continue
		}
		for _, k := range ks {
			id := string(k)
			if live[id] || h.lingerSeen[id] {
				continue
			}
			if h.lingerSeen == nil {
				h.lingerSeen = map[string]bool{}
			}
			h.lingerSeen[id] = true
			fresh = append(fresh, id)
			for _, f := range eng.FileStore.Files() {
				if i := f.Seek(k); i < f.KeyCount() {
					ck, _ := f.KeyAt(i)
					if sk, _ := tsm1.SeriesAndFieldFromCompositeKey(ck); string(sk) == id {
						class = "key-still-in-tsm-index"
					}
				}
			}
		}
	}
	sort.Strings(fresh)
	return fresh, class
}

func keys(m map[string]bool) []string {
	var out []string
	for k := range m {
		out = append(out, k)
	}
	sort.Strings(out)
	return out
}
