package main

// Compactions asked to start again while a delete is running (what the store's
// shard monitor and the write path do with SetCompactionsEnabled(true)): a
// delete keeps level compactions off for its whole duration, otherwise a
// compaction that read a series before it was tombstoned replaces the files
// together with their tombstones and the deleted points are back for good.

import (
	"fmt"
	"path/filepath"
	"sync"
	"sync/atomic"
	"time"

	"github.com/influxdata/influxdb/models"
	"github.com/influxdata/influxdb/pkg/verifhook"
	"github.com/influxdata/influxdb/tsdb"
	"github.com/influxdata/influxdb/tsdb/engine/tsm1"
	"github.com/influxdata/influxql"

	sm "verifharness/internal/shardmodel"
)

// armedPlanner offers all current files as one level-1 group, once, when armed.
type armedPlanner struct {
	tsm1.CompactionPlanner
	mu      sync.Mutex
	armed   bool
	files   func() []string
	offered int32
}

func (p *armedPlanner) PlanLevel(level int) []tsm1.CompactionGroup {
	p.mu.Lock()
	defer p.mu.Unlock()
	if level != 1 || !p.armed {
		return nil
	}
	fs := p.files()
	if len(fs) < 2 {
		return nil
	}
	p.armed = false
	atomic.AddInt32(&p.offered, 1)
	return []tsm1.CompactionGroup{fs}
}
func (p *armedPlanner) Plan(time.Time) []tsm1.CompactionGroup { return nil }
func (p *armedPlanner) PlanOptimize() []tsm1.CompactionGroup   { return nil }
func (p *armedPlanner) Release([]tsm1.CompactionGroup)         {}
func (p *armedPlanner) FullyCompacted() bool                   { return false }
func (p *armedPlanner) ForceFull()                             {}

type elem struct {
	name []byte
	tags models.Tags
}

func (e elem) Name() []byte        { return e.name }
func (e elem) Tags() models.Tags   { return e.tags }
func (e elem) Deleted() bool       { return false }
func (e elem) Expr() influxql.Expr { return nil }

// gateItr yields its elements; before reporting the end it lets the harness act
// (the delete has then switched compactions off and tombstoned nothing yet).
type gateItr struct {
	elems    []tsdb.SeriesElem
	i        int
	inDelete chan struct{}
	release  chan struct{}
}

func (g *gateItr) Close() error { return nil }
func (g *gateItr) Next() (tsdb.SeriesElem, error) {
	if g.i < len(g.elems) {
		g.i++
		return g.elems[g.i-1], nil
	}
	if g.inDelete != nil {
		close(g.inDelete)
		g.inDelete = nil
		<-g.release
	}
	return nil, nil
}

func reenableScenario(caseID string, seed int64, index, dir string) {
	if r.Skip(caseID) {
		return
	}
	r.Eval(1)
	env := sm.NewEnv(dir, index)
	env.Background = true
	if err := env.Open(); err != nil {
		r.Inconclusive(caseID + ": open: " + err.Error())
		return
	}
	closed := false
	defer func() {
		if !closed {
			env.Close()
		}
	}()
	tr := sm.NewTracker()
	tr.TolerateResurrected = false
	var ops []string
	fv := func(x float64) map[string]sm.Val { return map[string]sm.Val{"f0": {Kind: 'f', F: x}} }
	sA := sm.Series{Name: "cpu", Tags: map[string]string{"host": "A"}}
	sB := sm.Series{Name: "cpu", Tags: map[string]string{"host": "B"}}
	for f := 0; f < 4; f++ {
		var batch []sm.Point
		// every file keeps points of A outside the deleted range [1,6]: the
		// delete leaves range tombstones and removes no key from a file's index
		for _, t := range []int64{int64(f + 1), int64(100 + f)} {
			batch = append(batch, sm.Point{Series: sA, Fields: fv(float64(t)), Time: t}, sm.Point{Series: sB, Fields: fv(float64(1000 + t)), Time: t})
		}
		if res := env.Write(batch); res.Err != nil {
			r.Inconclusive(caseID + ": write: " + res.Err.Error())
			return
		}
		tr.ApplyWrite(batch)
		if err := env.Snapshot(); err != nil {
			r.Inconclusive(caseID + ": snapshot: " + err.Error())
			return
		}
		ops = append(ops, fmt.Sprintf("write A,B @%d,%d; snapshot", f+1, 100+f))
	}
	eng, err := env.Engine()
	if err != nil {
		r.Inconclusive(caseID + ": " + err.Error())
		return
	}
	sh := env.Shard()
	// the planner is exchanged while the compaction loops are stopped
	sh.SetCompactionsEnabled(false)
	pl := &armedPlanner{CompactionPlanner: eng.CompactionPlan, files: func() []string { fs, _ := env.TSMFiles(); return fs }}
	eng.CompactionPlan = pl
	before, _ := env.TSMFiles()
	parked, releaseComp := make(chan struct{}), make(chan struct{})
	var parkOnce sync.Once
	shardDir := env.ShardDir()
	verifhook.Set("compact.block", func(name string, args ...interface{}) error {
		if p, ok := args[0].(string); ok && filepath.Dir(p) == shardDir {
			hit := false
			parkOnce.Do(func() { hit = true })
			if hit {
				close(parked)
				<-releaseComp
			}
		}
		return nil
	})
	defer verifhook.Set("compact.block", nil)
	sh.SetCompactionsEnabled(true)

	itr := &gateItr{elems: []tsdb.SeriesElem{elem{[]byte("cpu"), models.NewTags(map[string]string{"host": "A"})}}, inDelete: make(chan struct{}), release: make(chan struct{})}
	inDelete := itr.inDelete
	delDone := make(chan error, 1)
	go func() { delDone <- eng.DeleteSeriesRange(itr, 1, 6) }()
	select {
	case <-inDelete:
	case <-time.After(60 * time.Second):
		r.Inconclusive(caseID + ": the delete did not reach its iterator's end")
		close(itr.release)
		return
	}
	ops = append(ops, "DELETE cpu,host=A [1,6] started (compactions switched off by the delete, nothing tombstoned yet)")
	pl.mu.Lock()
	pl.armed = true
	pl.mu.Unlock()
	sh.SetCompactionsEnabled(true) // the shard monitor / write path re-enable compactions of a non-idle shard
	ops = append(ops, "SetCompactionsEnabled(true) while the delete runs; a level-1 group is on offer")
	compactionRan := false
	select {
	case <-parked:
		compactionRan = true
		ops = append(ops, "a level compaction started during the delete (held at its first block)")
		r.Count("reenable_compaction_started_during_delete", 1)
	case <-time.After(3 * time.Second):
		r.Count("reenable_no_compaction_during_delete", 1)
	}
	close(itr.release)
	select {
	case err := <-delDone:
		if err != nil {
			r.Inconclusive(caseID + ": delete: " + err.Error())
			close(releaseComp)
			return
		}
	case <-time.After(120 * time.Second):
		r.Inconclusive(caseID + ": the delete did not return")
		close(releaseComp)
		return
	}
	tr.ApplyDelete(sm.Selector{Measurement: "cpu", TagEq: map[string]string{"host": "A"}}, 1, 6)
	ops = append(ops, "delete returned")
	close(releaseComp)
	if compactionRan {
		// let the compaction install its output
		for i := 0; i < 100; i++ {
			now, _ := env.TSMFiles()
			if fmt.Sprint(now) != fmt.Sprint(before) {
				break
			}
			time.Sleep(50 * time.Millisecond)
		}
		time.Sleep(200 * time.Millisecond)
		ops = append(ops, "compaction released")
	}
	judge := func(after string) bool {
		_, mm, err := tr.CheckAll(env, true)
		if err != nil {
			r.Inconclusive(caseID + ": read: " + err.Error())
			return false
		}
		if mm != nil {
			kind := "differs"
			if len(mm.Kind) > 0 {
				kind = mm.Kind
			}
			r.Violation("C10/compactions-reenabled-during-delete/"+kind, caseID, fmt.Sprintf("%s: %s", after, mm.Error()),
				witness{Seed: seed, Index: index, Ops: ops, Detail: mm.Error(), Layout: layout(env)})
			return false
		}
		return true
	}
	if !judge("after a delete during which compactions were asked to start again") {
		return
	}
	if err := env.Reopen(); err != nil {
		r.Inconclusive(caseID + ": reopen: " + err.Error())
		return
	}
	if !judge("after a restart following that delete") {
		return
	}
	r.Nontrivial(fmt.Sprintf("reenable|%s|compaction-started=%v", index, compactionRan))
}
