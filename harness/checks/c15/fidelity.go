package main

// FIDELITY monitor: every exported request / response type of
// coordinator/rpc.go through MarshalBinary -> UnmarshalBinary, and point
// streams through query.IteratorEncoder -> pipe -> query.NewReaderIterator.
//
// Legitimate normalisations (everything else must be equal):
//   * nil and empty slices / maps are the same value (protobuf repeated fields, JSON null);
//   * errors are compared by their message (the wire carries the text);
//   * expressions (conditions, field expressions) travel as text: equality of the re-printed form and of the
//     sequence of AST node types (a literal may not change its type);
//   * regular expressions are compared by their source text;
//   * time.Time travels as int64 Unix nanoseconds (BackupShard/CopyShard Since) or RFC 3339 (ListShards): equality of
//     UnixNano(); location and monotonic reading are not carried;
//   * *time.Location travels by name: equality of String();
//   * values inside a query.Result travel as JSON: equality of the JSON rendering (numbers are generated within +-2^53);
//   * sketches are compared by Count(), encoded size and mutual absorption (merging the decoded sketch into the
//     original gives the same estimate as merging the original into itself, and vice versa);
//     their binary form depends on map iteration order;
//   * query.Tags by ID() and key/values; a point's float value by its bits (NaN payloads included);
//   * IteratorOptions.InterruptCh and .Authorizer are process-local (a channel, an interface) and not part of the message.

import (
	"bytes"
	"context"
	"errors"
	"fmt"
	"io"
	"math"
	"math/rand"
	"reflect"
	"regexp"
	"runtime/debug"
	"sort"
	"strings"
	"sync/atomic"
	"time"

	"github.com/influxdata/influxdb/coordinator"
	"github.com/influxdata/influxdb/models"
	"github.com/influxdata/influxdb/pkg/estimator"
	"github.com/influxdata/influxdb/pkg/estimator/hll"
	"github.com/influxdata/influxdb/pkg/tracing"
	"github.com/influxdata/influxdb/pkg/tracing/fields"
	"github.com/influxdata/influxdb/query"
	"github.com/influxdata/influxdb/services/meta"
	"github.com/influxdata/influxdb/storage/reads/datatypes"
	"github.com/influxdata/influxdb/tsdb"
	"github.com/influxdata/influxql"
)

// ---------------------------------------------------------------- generators

var strPool = []string{"", "a", "cpu", "my field", "héllo", "日本語", `a"b`, "it's", "x,y=z", `back\slash`, "<tag>&amp;", "emoji😀", "  lead", "UPPER", "_name", "time", "a/b", "100%", "nul-free", "ünï", "k=v w=z"}

func gStr(g *rand.Rand) string {
	if g.Intn(4) == 0 {
		n := g.Intn(12)
		b := make([]rune, n)
		for i := range b {
			b[i] = rune(32 + g.Intn(95))
			if g.Intn(10) == 0 {
				b[i] = rune(0xa1 + g.Intn(0x2000))
			}
		}
		return string(b)
	}
	return strPool[g.Intn(len(strPool))]
}

func gName(g *rand.Rand) string {
	for {
		if s := gStr(g); s != "" {
			return s
		}
	}
}

var nonUTF8 = []string{"\xff", "a\xc3", "caf\xe9", "\x80\x81ok", "ok\xf0\x9f"}

func gIDs(g *rand.Rand) []uint64 {
	switch g.Intn(5) {
	case 0:
		return nil
	case 1:
		return []uint64{0}
	case 2:
		return []uint64{math.MaxUint64, 1, 1 << 63}
	}
	n := 1 + g.Intn(5)
	a := make([]uint64, n)
	for i := range a {
		a[i] = uint64(g.Int63n(1000))
	}
	return a
}

func gErr(g *rand.Rand) error {
	switch g.Intn(4) {
	case 0:
		return nil
	case 1:
		return errors.New("")
	case 2:
		return errors.New("shard 5 not found: \"x\"\nsecond line é")
	}
	return errors.New(gStr(g))
}

func gTime(g *rand.Rand) time.Time {
	switch g.Intn(6) {
	case 0:
		return time.Unix(0, 0)
	case 1:
		return time.Unix(0, math.MaxInt64)
	case 2:
		return time.Unix(0, math.MinInt64).In(time.FixedZone("x", 3600))
	case 3:
		return time.Now() // monotonic reading, local zone
	}
	return time.Unix(0, g.Int63()-g.Int63()).UTC()
}

func gInt64(g *rand.Rand) int64 {
	switch g.Intn(6) {
	case 0:
		return 0
	case 1:
		return math.MaxInt64
	case 2:
		return math.MinInt64
	case 3:
		return -1
	}
	return g.Int63() - g.Int63()
}

func quoteStr(s string) string {
	return "'" + strings.NewReplacer(`\`, `\\`, `'`, `\'`, "\n", `\n`).Replace(s) + "'"
}

func gExprSrc(g *rand.Rand, depth int) string {
	if depth <= 0 || g.Intn(3) == 0 {
		switch g.Intn(9) {
		case 0:
			return influxql.QuoteIdent(gName(g))
		case 1:
			return quoteStr(gStr(g))
		case 2:
			return fmt.Sprint(g.Intn(2000) - 1000)
		case 3:
			return fmt.Sprintf("%g", float64(g.Intn(1000))/8+0.5)
		case 4:
			return []string{"true", "false"}[g.Intn(2)]
		case 5:
			return []string{"1h", "10m", "5s", "100ms", "7d", "3w", "250u"}[g.Intn(7)]
		case 6:
			return []string{"host", "value", "region", "_name", "_tagKey", "time"}[g.Intn(6)]
		case 7:
			return []string{"value::float", "n::integer", "host::tag", "s::string", "b::boolean", "f::field"}[g.Intn(6)]
		default:
			return "now()"
		}
	}
	switch g.Intn(8) {
	case 0:
		return "(" + gExprSrc(g, depth-1) + ")"
	case 1:
		re := []string{`/c.*/`, `/^a|b$/`, `/a\/b/`, `/[0-9]+x/`, `/(?i)cpu/`, `/é+/`}[g.Intn(6)]
		return influxql.QuoteIdent(gName(g)) + []string{" =~ ", " !~ "}[g.Intn(2)] + re
	}
	op := []string{"=", "!=", "<", "<=", ">", ">=", "AND", "OR", "+", "-", "*", "/", "%", "&", "|", "^"}[g.Intn(16)]
	return gExprSrc(g, depth-1) + " " + op + " " + gExprSrc(g, depth-1)
}

// gExpr returns a parsed expression (nil sometimes) as the query layer would hold it.
func gExpr(g *rand.Rand) influxql.Expr {
	if g.Intn(5) == 0 {
		return nil
	}
	for i := 0; i < 20; i++ {
		e, err := influxql.ParseExpr(gExprSrc(g, 3))
		if err == nil {
			return e
		}
		r.Count("fidelity_generated_expr_unparsable", 1)
	}
	return mustExpr("host = 'a'")
}

var fieldExprs = []string{`value`, `value::float`, `"my field"`, `mean(value)`, `count(distinct(s))`, `percentile("my field", 90)`, `top(value, host, 3)`,
	`derivative(mean(value), 1s)`, `value + n * 2`, `(value + n) * 2`, `max(value) - min(value)`, `moving_average(mean(value), 5)`,
	`holt_winters(first(value), 10, 4)`, `sample(value, 3)`, `non_negative_difference(n)`, `*`, `host::tag`, `-value`, `elapsed(value, 1m)`, `integral(value, 10s)`}

func gFieldExpr(g *rand.Rand) influxql.Expr {
	if g.Intn(8) == 0 {
		return nil
	}
	return mustExpr(fieldExprs[g.Intn(len(fieldExprs))])
}

func gMeasurement(g *rand.Rand) influxql.Measurement {
	m := influxql.Measurement{Database: gStr(g), RetentionPolicy: gStr(g), IsTarget: g.Intn(2) == 0}
	switch g.Intn(3) {
	case 0:
		m.Name = gStr(g)
	case 1:
		m.Regex = &influxql.RegexLiteral{Val: mustRegex([]string{`c.*`, `^a|b$`, `a/b`, `(?i)cpu`, ``, `é+`, `[0-9]{2,}`}[g.Intn(7)])}
	case 2:
		m.Name = gStr(g)
		m.SystemIterator = []string{"_series", "_fieldKeys", "_tagKeys", "_measurements", gStr(g)}[g.Intn(5)]
	}
	return m
}

func gOpt(g *rand.Rand, intFill bool) query.IteratorOptions {
	o := query.IteratorOptions{
		Expr:       gFieldExpr(g),
		Interval:   query.Interval{Duration: time.Duration(gInt64(g)), Offset: time.Duration(gInt64(g))},
		Fill:       influxql.FillOption(g.Intn(5)),
		Condition:  gExpr(g),
		StartTime:  []int64{influxql.MinTime, 0, gInt64(g)}[g.Intn(3)],
		EndTime:    []int64{influxql.MaxTime, 0, gInt64(g)}[g.Intn(3)],
		Ascending:  g.Intn(2) == 0,
		Limit:      int(gInt64(g)),
		Offset:     int(gInt64(g)),
		SLimit:     int(gInt64(g)),
		SOffset:    int(gInt64(g)),
		StripName:  g.Intn(2) == 0,
		Dedupe:     g.Intn(2) == 0,
		Ordered:    g.Intn(2) == 0,
		MaxSeriesN: int(gInt64(g)),
	}
	for i, n := 0, g.Intn(4); i < n; i++ {
		o.Aux = append(o.Aux, influxql.VarRef{Val: gStr(g), Type: influxql.DataType(g.Intn(10))})
	}
	if g.Intn(6) == 0 {
		o.Aux = []influxql.VarRef{}
	}
	for i, n := 0, g.Intn(3); i < n; i++ {
		m := gMeasurement(g)
		o.Sources = append(o.Sources, &m)
	}
	for i, n := 0, g.Intn(4); i < n; i++ {
		o.Dimensions = append(o.Dimensions, gStr(g))
	}
	if g.Intn(2) == 0 {
		o.GroupBy = map[string]struct{}{}
		for i, n := 0, g.Intn(4); i < n; i++ {
			o.GroupBy[gStr(g)] = struct{}{}
		}
	}
	switch g.Intn(4) {
	case 0:
		o.Location = time.UTC
	case 1:
		if loc, err := time.LoadLocation([]string{"America/New_York", "Asia/Kolkata", "Europe/Berlin"}[g.Intn(3)]); err == nil {
			o.Location = loc
		}
	}
	if o.Fill == influxql.NumberFill {
		if intFill {
			o.FillValue = int64(g.Intn(100))
		} else {
			o.FillValue = []float64{0, 1.5, -3, math.MaxFloat64, math.SmallestNonzeroFloat64}[g.Intn(5)]
		}
	}
	return o
}

func mustRegex(s string) *regexp.Regexp { return regexp.MustCompile(s) }

var reIndex = regexp.MustCompile(`\[[^\]]*\]`)

// ---------------------------------------------------------------- comparison helpers

type diffs []string

func (d *diffs) add(field string, want, got interface{}) {
	*d = append(*d, fmt.Sprintf("%s: encoded %s, decoded %s", field, show(want), show(got)))
}

func show(v interface{}) string {
	s := fmt.Sprintf("%#v", v)
	if e, ok := v.(error); ok && e != nil {
		s = fmt.Sprintf("error(%q)", e.Error())
	}
	if len(s) > 200 {
		s = s[:200] + "..."
	}
	return s
}

func (d *diffs) eq(field string, want, got interface{}) {
	if !reflect.DeepEqual(want, got) {
		d.add(field, want, got)
	}
}

func (d *diffs) err(field string, want, got error) {
	if (want == nil) != (got == nil) || (want != nil && want.Error() != got.Error()) {
		d.add(field, want, got)
	}
}

func (d *diffs) u64s(field string, want, got []uint64) {
	if len(want) != len(got) {
		d.add(field, want, got)
		return
	}
	for i := range want {
		if want[i] != got[i] {
			d.add(field, want, got)
			return
		}
	}
}

func (d *diffs) strs(field string, want, got []string) {
	if len(want) != len(got) {
		d.add(field, want, got)
		return
	}
	for i := range want {
		if want[i] != got[i] {
			d.add(field, want, got)
			return
		}
	}
}

func exprSig(e influxql.Expr) string {
	if e == nil {
		return "<nil>"
	}
	var types []string
	influxql.WalkFunc(e, func(n influxql.Node) { types = append(types, fmt.Sprintf("%T", n)) })
	return e.String() + " :: " + strings.Join(types, ",")
}

func (d *diffs) expr(field string, want, got influxql.Expr) {
	if exprSig(want) != exprSig(got) {
		d.add(field, exprSig(want), exprSig(got))
	}
}

func (d *diffs) measurement(field string, want, got *influxql.Measurement) {
	if (want == nil) != (got == nil) {
		d.add(field, want, got)
		return
	}
	if want == nil {
		return
	}
	d.eq(field+".Database", want.Database, got.Database)
	d.eq(field+".RetentionPolicy", want.RetentionPolicy, got.RetentionPolicy)
	d.eq(field+".Name", want.Name, got.Name)
	d.eq(field+".IsTarget", want.IsTarget, got.IsTarget)
	d.eq(field+".SystemIterator", want.SystemIterator, got.SystemIterator)
	ws, gs := "<nil>", "<nil>"
	if want.Regex != nil {
		ws = want.Regex.Val.String()
	}
	if got.Regex != nil {
		gs = got.Regex.Val.String()
	}
	d.eq(field+".Regex", ws, gs)
}

func (d *diffs) opt(f string, want, got *query.IteratorOptions) {
	d.expr(f+".Expr", want.Expr, got.Expr)
	if len(want.Aux) != len(got.Aux) {
		d.add(f+".Aux", want.Aux, got.Aux)
	} else {
		for i := range want.Aux {
			d.eq(fmt.Sprintf("%s.Aux[%d]", f, i), want.Aux[i], got.Aux[i])
		}
	}
	if len(want.Sources) != len(got.Sources) {
		d.add(f+".Sources", len(want.Sources), len(got.Sources))
	} else {
		for i := range want.Sources {
			gm, _ := got.Sources[i].(*influxql.Measurement)
			d.measurement(fmt.Sprintf("%s.Sources[%d]", f, i), want.Sources[i].(*influxql.Measurement), gm)
		}
	}
	d.eq(f+".Interval", want.Interval, got.Interval)
	d.strs(f+".Dimensions", want.Dimensions, got.Dimensions)
	if len(want.GroupBy) != len(got.GroupBy) {
		d.add(f+".GroupBy", want.GroupBy, got.GroupBy)
	} else {
		for k := range want.GroupBy {
			if _, ok := got.GroupBy[k]; !ok {
				d.add(f+".GroupBy", want.GroupBy, got.GroupBy)
				break
			}
		}
	}
	wl, gl := "<nil>", "<nil>"
	if want.Location != nil {
		wl = want.Location.String()
	}
	if got.Location != nil {
		gl = got.Location.String()
	}
	d.eq(f+".Location", wl, gl)
	d.eq(f+".Fill", want.Fill, got.Fill)
	d.eq(f+".FillValue", want.FillValue, got.FillValue)
	d.expr(f+".Condition", want.Condition, got.Condition)
	d.eq(f+".StartTime", want.StartTime, got.StartTime)
	d.eq(f+".EndTime", want.EndTime, got.EndTime)
	d.eq(f+".Ascending", want.Ascending, got.Ascending)
	d.eq(f+".Limit", want.Limit, got.Limit)
	d.eq(f+".Offset", want.Offset, got.Offset)
	d.eq(f+".SLimit", want.SLimit, got.SLimit)
	d.eq(f+".SOffset", want.SOffset, got.SOffset)
	d.eq(f+".StripName", want.StripName, got.StripName)
	d.eq(f+".Dedupe", want.Dedupe, got.Dedupe)
	d.eq(f+".Ordered", want.Ordered, got.Ordered)
	d.eq(f+".MaxSeriesN", want.MaxSeriesN, got.MaxSeriesN)
}

func (d *diffs) sketch(field string, want, got estimator.Sketch) {
	if (want == nil) != (got == nil) {
		d.add(field, want != nil, got != nil)
		return
	}
	if want == nil {
		return
	}
	// The binary form of a sparse sketch depends on map iteration order, so two encodings of one sketch differ.
	// Same estimate, same size, and each absorbs the other without changing its estimate.
	wb, _ := want.MarshalBinary()
	gb, _ := got.MarshalBinary()
	wc, gc, self := want.Clone(), got.Clone(), want.Clone()
	e1, e2, e3 := wc.Merge(got), gc.Merge(want), self.Merge(want)
	if len(wb) != len(gb) || want.Count() != got.Count() || e1 != nil || e2 != nil || e3 != nil || wc.Count() != self.Count() || gc.Count() != self.Count() {
		d.add(field, fmt.Sprintf("count %d, %d bytes, merged with itself %d", want.Count(), len(wb), self.Count()), fmt.Sprintf("count %d, %d bytes (merged %d/%d)", got.Count(), len(gb), wc.Count(), gc.Count()))
	}
}

func gSketch(g *rand.Rand) estimator.Sketch {
	if g.Intn(4) == 0 {
		return nil
	}
	s := hll.NewDefaultPlus()
	n := []int{1, 10, 500, 30000}[g.Intn(4)]
	for i := 0; i < n; i++ {
		s.Add([]byte(fmt.Sprintf("k%d-%d", g.Intn(1<<30), i)))
	}
	return s
}

// ---------------------------------------------------------------- message round trips

type marshaler interface{ MarshalBinary() ([]byte, error) }
type unmarshaler interface{ UnmarshalBinary([]byte) error }

type rtCase struct {
	typ string
	run func(g *rand.Rand, class string) (in interface{}, d diffs, err error)
}

func trip(in marshaler, out unmarshaler) error {
	b, err := in.MarshalBinary()
	if err != nil {
		return fmt.Errorf("MarshalBinary: %v", err)
	}
	if err := out.UnmarshalBinary(b); err != nil {
		return fmt.Errorf("UnmarshalBinary of its own MarshalBinary output (%x): %v", b, err)
	}
	return nil
}

func classStr(g *rand.Rand, class string) string {
	if class == "non-utf8" && g.Intn(2) == 0 {
		return nonUTF8[g.Intn(len(nonUTF8))]
	}
	return gStr(g)
}

var rtCases = []rtCase{
	{"WriteShardRequest", func(g *rand.Rand, _ string) (interface{}, diffs, error) {
		var in, out coordinator.WriteShardRequest
		var d diffs
		in.SetShardID(uint64(g.Int63()))
		if g.Intn(3) > 0 {
			in.SetDatabase(gStr(g))
			in.SetRetentionPolicy(gStr(g))
		}
		var pts []models.Point
		for i, n := 0, g.Intn(5); i < n; i++ {
			fs := models.Fields{}
			for j, m := 0, 1+g.Intn(3); j < m; j++ {
				switch g.Intn(4) {
				case 0:
					fs[gName(g)] = g.NormFloat64()
				case 1:
					fs[gName(g)] = gInt64(g)
				case 2:
					fs[gName(g)] = gStr(g)
				default:
					fs[gName(g)] = g.Intn(2) == 0
				}
			}
			tags := map[string]string{}
			for j, m := 0, g.Intn(3); j < m; j++ {
				tags[gName(g)] = gName(g)
			}
			p, err := models.NewPoint(gName(g), models.NewTags(tags), fs, time.Unix(0, g.Int63n(1<<62)))
			if err != nil {
				continue
			}
			// The envelope is judged on top of the point codec (property C12): points that the point codec itself
			// does not carry (e.g. a field key ending in a backslash built through NewPoint) are left out.
			if pb, err := p.MarshalBinary(); err != nil {
				continue
			} else if q, err := models.NewPointFromBytes(pb); err != nil || q.String() != p.String() {
				r.Count("points_left_to_c12_point_codec", 1)
				continue
			}
			pts = append(pts, p)
		}
		in.AddPoints(pts)
		if err := trip(&in, &out); err != nil {
			return pts, nil, err
		}
		d.eq("ShardID", in.ShardID(), out.ShardID())
		d.eq("Database", in.Database(), out.Database())
		d.eq("RetentionPolicy", in.RetentionPolicy(), out.RetentionPolicy())
		got := out.Points()
		if len(got) != len(pts) {
			d.add("Points", len(pts), len(got))
		} else {
			for i := range pts {
				if got[i] == nil || pts[i].String() != got[i].String() || !pts[i].Time().Equal(got[i].Time()) || !bytes.Equal(pts[i].Key(), got[i].Key()) {
					d.add(fmt.Sprintf("Points[%d]", i), pts[i].String(), fmt.Sprint(got[i]))
				}
			}
		}
		return fmt.Sprint(pts), d, nil
	}},
	{"WriteShardResponse", func(g *rand.Rand, _ string) (interface{}, diffs, error) {
		var in, out coordinator.WriteShardResponse
		var d diffs
		in.SetCode(g.Intn(3) - 1)
		if g.Intn(2) == 0 {
			in.SetMessage(gStr(g))
		}
		if err := trip(&in, &out); err != nil {
			return nil, nil, err
		}
		d.eq("Code", in.Code(), out.Code())
		d.eq("Message", in.Message(), out.Message())
		return []interface{}{in.Code(), in.Message()}, d, nil
	}},
	{"ExecuteStatementRequest", func(g *rand.Rand, _ string) (interface{}, diffs, error) {
		var in, out coordinator.ExecuteStatementRequest
		var d diffs
		in.SetStatement([]string{`DROP SERIES FROM "a b" WHERE host = 'x'`, gStr(g), `DELETE FROM /c.*/ WHERE time < '2020-01-01'`}[g.Intn(3)])
		in.SetDatabase(gStr(g))
		if err := trip(&in, &out); err != nil {
			return nil, nil, err
		}
		d.eq("Statement", in.Statement(), out.Statement())
		d.eq("Database", in.Database(), out.Database())
		return in.Statement(), d, nil
	}},
	{"ExecuteStatementResponse", func(g *rand.Rand, _ string) (interface{}, diffs, error) {
		var in, out coordinator.ExecuteStatementResponse
		var d diffs
		in.SetCode(g.Intn(3))
		if g.Intn(2) == 0 {
			in.SetMessage(gStr(g))
		}
		if err := trip(&in, &out); err != nil {
			return nil, nil, err
		}
		d.eq("Code", in.Code(), out.Code())
		d.eq("Message", in.Message(), out.Message())
		return []interface{}{in.Code(), in.Message()}, d, nil
	}},
	{"TaskManagerStatementRequest", func(g *rand.Rand, _ string) (interface{}, diffs, error) {
		in := coordinator.TaskManagerStatementRequest{Statement: gStr(g)}
		var out coordinator.TaskManagerStatementRequest
		var d diffs
		if err := trip(&in, &out); err != nil {
			return in, nil, err
		}
		d.eq("Statement", in.Statement, out.Statement)
		return in, d, nil
	}},
	{"TaskManagerStatementResponse", func(g *rand.Rand, _ string) (interface{}, diffs, error) {
		in := coordinator.TaskManagerStatementResponse{Err: gErr(g)}
		in.Result.StatementID = g.Intn(5)
		in.Result.Partial = g.Intn(2) == 0
		if g.Intn(3) == 0 {
			in.Result.Err = errors.New(gName(g))
		}
		for i, n := 0, g.Intn(3); i < n; i++ {
			row := &models.Row{Name: gStr(g), Columns: []string{"qid", "query", "database", "duration", "status"}, Partial: g.Intn(2) == 0}
			if g.Intn(2) == 0 {
				row.Tags = map[string]string{gName(g): gStr(g)}
			}
			for j, m := 0, g.Intn(4); j < m; j++ {
				row.Values = append(row.Values, []interface{}{uint64(g.Int63n(1 << 53)), gStr(g), gStr(g), "1.5s", []interface{}{"running", "killed", nil, true, 1.25, int64(-7)}[g.Intn(6)]})
			}
			in.Result.Series = append(in.Result.Series, row)
		}
		for i, n := 0, g.Intn(3); i < n; i++ {
			in.Result.Messages = append(in.Result.Messages, &query.Message{Level: "warning", Text: gStr(g)})
		}
		var out coordinator.TaskManagerStatementResponse
		var d diffs
		if err := trip(&in, &out); err != nil {
			return in.Result, nil, err
		}
		wj, _ := in.Result.MarshalJSON()
		gj, _ := out.Result.MarshalJSON()
		if !bytes.Equal(wj, gj) {
			d.add("Result", string(wj), string(gj))
		}
		d.err("Err", in.Err, out.Err)
		return string(wj), d, nil
	}},
	{"MeasurementNamesRequest", func(g *rand.Rand, _ string) (interface{}, diffs, error) {
		in := coordinator.MeasurementNamesRequest{Database: gStr(g), RetentionPolicy: gStr(g), Condition: gExpr(g)}
		var out coordinator.MeasurementNamesRequest
		var d diffs
		if err := trip(&in, &out); err != nil {
			return exprSig(in.Condition), nil, err
		}
		d.eq("Database", in.Database, out.Database)
		d.eq("RetentionPolicy", in.RetentionPolicy, out.RetentionPolicy)
		d.expr("Condition", in.Condition, out.Condition)
		return exprSig(in.Condition), d, nil
	}},
	{"MeasurementNamesResponse", func(g *rand.Rand, _ string) (interface{}, diffs, error) {
		in := coordinator.MeasurementNamesResponse{Err: gErr(g)}
		for i, n := 0, g.Intn(4); i < n; i++ {
			nm := []byte(gStr(g))
			if g.Intn(5) == 0 {
				nm = []byte{0xff, 0x00, 0x80}
			}
			in.Names = append(in.Names, nm)
		}
		var out coordinator.MeasurementNamesResponse
		var d diffs
		if err := trip(&in, &out); err != nil {
			return in.Names, nil, err
		}
		if len(in.Names) != len(out.Names) {
			d.add("Names", in.Names, out.Names)
		} else {
			for i := range in.Names {
				if !bytes.Equal(in.Names[i], out.Names[i]) {
					d.add(fmt.Sprintf("Names[%d]", i), in.Names[i], out.Names[i])
				}
			}
		}
		d.err("Err", in.Err, out.Err)
		return in.Names, d, nil
	}},
	{"TagKeysRequest", func(g *rand.Rand, _ string) (interface{}, diffs, error) {
		in := coordinator.TagKeysRequest{ShardIDs: gIDs(g), Condition: gExpr(g)}
		var out coordinator.TagKeysRequest
		var d diffs
		if err := trip(&in, &out); err != nil {
			return exprSig(in.Condition), nil, err
		}
		d.u64s("ShardIDs", in.ShardIDs, out.ShardIDs)
		d.expr("Condition", in.Condition, out.Condition)
		return exprSig(in.Condition), d, nil
	}},
	{"TagKeysResponse", func(g *rand.Rand, class string) (interface{}, diffs, error) {
		in := coordinator.TagKeysResponse{Err: gErr(g)}
		for i, n := 0, g.Intn(4); i < n; i++ {
			tk := tsdb.TagKeys{Measurement: classStr(g, class)}
			for j, m := 0, g.Intn(4); j < m; j++ {
				tk.Keys = append(tk.Keys, classStr(g, class))
			}
			in.TagKeys = append(in.TagKeys, tk)
		}
		var out coordinator.TagKeysResponse
		var d diffs
		if err := trip(&in, &out); err != nil {
			return in.TagKeys, nil, err
		}
		if len(in.TagKeys) != len(out.TagKeys) {
			d.add("TagKeys", in.TagKeys, out.TagKeys)
		} else {
			for i := range in.TagKeys {
				d.eq(fmt.Sprintf("TagKeys[%d].Measurement", i), in.TagKeys[i].Measurement, out.TagKeys[i].Measurement)
				d.strs(fmt.Sprintf("TagKeys[%d].Keys", i), in.TagKeys[i].Keys, out.TagKeys[i].Keys)
			}
		}
		d.err("Err", in.Err, out.Err)
		return in.TagKeys, d, nil
	}},
	{"TagValuesRequest", func(g *rand.Rand, _ string) (interface{}, diffs, error) {
		in := coordinator.TagValuesRequest{ShardIDs: gIDs(g), Condition: gExpr(g)}
		var out coordinator.TagValuesRequest
		var d diffs
		if err := trip(&in, &out); err != nil {
			return exprSig(in.Condition), nil, err
		}
		d.u64s("ShardIDs", in.ShardIDs, out.ShardIDs)
		d.expr("Condition", in.Condition, out.Condition)
		return exprSig(in.Condition), d, nil
	}},
	{"TagValuesResponse", func(g *rand.Rand, class string) (interface{}, diffs, error) {
		in := coordinator.TagValuesResponse{Err: gErr(g)}
		for i, n := 0, g.Intn(4); i < n; i++ {
			tv := tsdb.TagValues{Measurement: classStr(g, class)}
			for j, m := 0, g.Intn(4); j < m; j++ {
				tv.Values = append(tv.Values, tsdb.KeyValue{Key: classStr(g, class), Value: classStr(g, class)})
			}
			in.TagValues = append(in.TagValues, tv)
		}
		var out coordinator.TagValuesResponse
		var d diffs
		if err := trip(&in, &out); err != nil {
			return in.TagValues, nil, err
		}
		if len(in.TagValues) != len(out.TagValues) {
			d.add("TagValues", in.TagValues, out.TagValues)
		} else {
			for i := range in.TagValues {
				d.eq(fmt.Sprintf("TagValues[%d].Measurement", i), in.TagValues[i].Measurement, out.TagValues[i].Measurement)
				if len(in.TagValues[i].Values) != len(out.TagValues[i].Values) {
					d.add(fmt.Sprintf("TagValues[%d].Values", i), in.TagValues[i].Values, out.TagValues[i].Values)
					continue
				}
				for j := range in.TagValues[i].Values {
					d.eq(fmt.Sprintf("TagValues[%d].Values[%d]", i, j), in.TagValues[i].Values[j], out.TagValues[i].Values[j])
				}
			}
		}
		d.err("Err", in.Err, out.Err)
		return in.TagValues, d, nil
	}},
	{"SeriesSketchesRequest", func(g *rand.Rand, _ string) (interface{}, diffs, error) {
		in := coordinator.SeriesSketchesRequest{Database: gStr(g)}
		var out coordinator.SeriesSketchesRequest
		var d diffs
		if err := trip(&in, &out); err != nil {
			return in, nil, err
		}
		d.eq("Database", in.Database, out.Database)
		return in, d, nil
	}},
	{"SeriesSketchesResponse", func(g *rand.Rand, _ string) (interface{}, diffs, error) {
		in := coordinator.SeriesSketchesResponse{Sketch: gSketch(g), TSSketch: gSketch(g), Err: gErr(g)}
		var out coordinator.SeriesSketchesResponse
		var d diffs
		if err := trip(&in, &out); err != nil {
			return nil, nil, err
		}
		d.sketch("Sketch", in.Sketch, out.Sketch)
		d.sketch("TSSketch", in.TSSketch, out.TSSketch)
		d.err("Err", in.Err, out.Err)
		return nil, d, nil
	}},
	{"MeasurementsSketchesRequest", func(g *rand.Rand, _ string) (interface{}, diffs, error) {
		in := coordinator.MeasurementsSketchesRequest{Database: gStr(g)}
		var out coordinator.MeasurementsSketchesRequest
		var d diffs
		if err := trip(&in, &out); err != nil {
			return in, nil, err
		}
		d.eq("Database", in.Database, out.Database)
		return in, d, nil
	}},
	{"MeasurementsSketchesResponse", func(g *rand.Rand, _ string) (interface{}, diffs, error) {
		in := coordinator.MeasurementsSketchesResponse{Sketch: gSketch(g), TSSketch: gSketch(g), Err: gErr(g)}
		var out coordinator.MeasurementsSketchesResponse
		var d diffs
		if err := trip(&in, &out); err != nil {
			return nil, nil, err
		}
		d.sketch("Sketch", in.Sketch, out.Sketch)
		d.sketch("TSSketch", in.TSSketch, out.TSSketch)
		d.err("Err", in.Err, out.Err)
		return nil, d, nil
	}},
	{"StoreReadFilterRequest", func(g *rand.Rand, _ string) (interface{}, diffs, error) {
		in := coordinator.StoreReadFilterRequest{ShardIDs: gIDs(g), Request: datatypes.ReadFilterRequest{Range: datatypes.TimestampRange{Start: gInt64(g), End: gInt64(g)}, Predicate: gPredicate(g)}}
		if g.Intn(4) > 0 {
			in.Request.ReadSource = readSource(gStr(g), gStr(g))
		}
		var out coordinator.StoreReadFilterRequest
		var d diffs
		if err := trip(&in, &out); err != nil {
			return in.Request.String(), nil, err
		}
		d.u64s("ShardIDs", in.ShardIDs, out.ShardIDs)
		wb, _ := in.Request.Marshal()
		gb, _ := out.Request.Marshal()
		if !bytes.Equal(wb, gb) || in.Request.String() != out.Request.String() {
			d.add("Request", in.Request.String(), out.Request.String())
		}
		return in.Request.String(), d, nil
	}},
	{"StoreReadFilterResponse", func(g *rand.Rand, _ string) (interface{}, diffs, error) {
		in := coordinator.StoreReadFilterResponse{Err: gErr(g)}
		var out coordinator.StoreReadFilterResponse
		var d diffs
		if err := trip(&in, &out); err != nil {
			return nil, nil, err
		}
		d.err("Err", in.Err, out.Err)
		return show(in.Err), d, nil
	}},
	{"StoreReadGroupRequest", func(g *rand.Rand, _ string) (interface{}, diffs, error) {
		in := coordinator.StoreReadGroupRequest{ShardIDs: gIDs(g), Request: datatypes.ReadGroupRequest{Range: datatypes.TimestampRange{Start: gInt64(g), End: gInt64(g)}, Predicate: gPredicate(g),
			Group: []datatypes.ReadGroupRequest_Group{datatypes.GroupNone, datatypes.GroupBy}[g.Intn(2)], Hints: datatypes.HintFlags(g.Uint32())}}
		for i, n := 0, g.Intn(3); i < n; i++ {
			in.Request.GroupKeys = append(in.Request.GroupKeys, gStr(g))
		}
		if g.Intn(2) == 0 {
			in.Request.Aggregate = &datatypes.Aggregate{Type: datatypes.Aggregate_AggregateType(g.Intn(3))}
		}
		if g.Intn(4) > 0 {
			in.Request.ReadSource = readSource(gStr(g), gStr(g))
		}
		var out coordinator.StoreReadGroupRequest
		var d diffs
		if err := trip(&in, &out); err != nil {
			return in.Request.String(), nil, err
		}
		d.u64s("ShardIDs", in.ShardIDs, out.ShardIDs)
		wb, _ := in.Request.Marshal()
		gb, _ := out.Request.Marshal()
		if !bytes.Equal(wb, gb) || in.Request.String() != out.Request.String() {
			d.add("Request", in.Request.String(), out.Request.String())
		}
		return in.Request.String(), d, nil
	}},
	{"StoreReadGroupResponse", func(g *rand.Rand, _ string) (interface{}, diffs, error) {
		in := coordinator.StoreReadGroupResponse{Err: gErr(g)}
		var out coordinator.StoreReadGroupResponse
		var d diffs
		if err := trip(&in, &out); err != nil {
			return nil, nil, err
		}
		d.err("Err", in.Err, out.Err)
		return show(in.Err), d, nil
	}},
	{"CreateIteratorRequest", func(g *rand.Rand, class string) (interface{}, diffs, error) {
		in := coordinator.CreateIteratorRequest{ShardIDs: gIDs(g), Measurement: gMeasurement(g), Opt: gOpt(g, class == "integer-fill-value"),
			SpanContext: tracing.SpanContext{TraceID: uint64(gInt64(g)), SpanID: uint64(gInt64(g))}}
		var out coordinator.CreateIteratorRequest
		var d diffs
		desc := fmt.Sprintf("measurement=%s expr=%s cond=%s fill=%v/%v", in.Measurement.String(), exprSig(in.Opt.Expr), exprSig(in.Opt.Condition), in.Opt.Fill, in.Opt.FillValue)
		if err := trip(&in, &out); err != nil {
			return desc, nil, err
		}
		d.u64s("ShardIDs", in.ShardIDs, out.ShardIDs)
		d.measurement("Measurement", &in.Measurement, &out.Measurement)
		d.opt("Opt", &in.Opt, &out.Opt)
		d.eq("SpanContext", in.SpanContext, out.SpanContext)
		return desc, d, nil
	}},
	{"CreateIteratorResponse", func(g *rand.Rand, _ string) (interface{}, diffs, error) {
		in := coordinator.CreateIteratorResponse{Err: gErr(g), Type: influxql.DataType(g.Intn(10)), Stats: query.IteratorStats{SeriesN: int(gInt64(g)), PointN: int(gInt64(g))}}
		var out coordinator.CreateIteratorResponse
		var d diffs
		if err := trip(&in, &out); err != nil {
			return in, nil, err
		}
		d.err("Err", in.Err, out.Err)
		d.eq("Type", in.Type, out.Type)
		d.eq("Stats", in.Stats, out.Stats)
		return fmt.Sprintf("%+v", in), d, nil
	}},
	{"IteratorCostRequest", func(g *rand.Rand, class string) (interface{}, diffs, error) {
		in := coordinator.IteratorCostRequest{ShardIDs: gIDs(g), Measurement: gMeasurement(g), Opt: gOpt(g, class == "integer-fill-value")}
		var out coordinator.IteratorCostRequest
		var d diffs
		desc := fmt.Sprintf("measurement=%s expr=%s cond=%s fill=%v/%v", in.Measurement.String(), exprSig(in.Opt.Expr), exprSig(in.Opt.Condition), in.Opt.Fill, in.Opt.FillValue)
		if err := trip(&in, &out); err != nil {
			return desc, nil, err
		}
		d.u64s("ShardIDs", in.ShardIDs, out.ShardIDs)
		d.measurement("Measurement", &in.Measurement, &out.Measurement)
		d.opt("Opt", &in.Opt, &out.Opt)
		return desc, d, nil
	}},
	{"IteratorCostResponse", func(g *rand.Rand, _ string) (interface{}, diffs, error) {
		in := coordinator.IteratorCostResponse{Err: gErr(g), Cost: query.IteratorCost{NumShards: gInt64(g), NumSeries: gInt64(g), CachedValues: gInt64(g), NumFiles: gInt64(g), BlocksRead: gInt64(g), BlockSize: gInt64(g)}}
		var out coordinator.IteratorCostResponse
		var d diffs
		if err := trip(&in, &out); err != nil {
			return in, nil, err
		}
		d.err("Err", in.Err, out.Err)
		d.eq("Cost", in.Cost, out.Cost)
		return fmt.Sprintf("%+v", in), d, nil
	}},
	{"FieldDimensionsRequest", func(g *rand.Rand, _ string) (interface{}, diffs, error) {
		in := coordinator.FieldDimensionsRequest{ShardIDs: gIDs(g), Measurement: gMeasurement(g)}
		var out coordinator.FieldDimensionsRequest
		var d diffs
		if err := trip(&in, &out); err != nil {
			return in.Measurement.String(), nil, err
		}
		d.u64s("ShardIDs", in.ShardIDs, out.ShardIDs)
		d.measurement("Measurement", &in.Measurement, &out.Measurement)
		return in.Measurement.String(), d, nil
	}},
	{"FieldDimensionsResponse", func(g *rand.Rand, class string) (interface{}, diffs, error) {
		in := coordinator.FieldDimensionsResponse{Err: gErr(g)}
		if g.Intn(4) > 0 {
			in.Fields = map[string]influxql.DataType{}
			for i, n := 0, g.Intn(4); i < n; i++ {
				in.Fields[classStr(g, class)] = influxql.DataType(g.Intn(10))
			}
		}
		if g.Intn(4) > 0 {
			in.Dimensions = map[string]struct{}{}
			for i, n := 0, g.Intn(4); i < n; i++ {
				in.Dimensions[gStr(g)] = struct{}{}
			}
		}
		var out coordinator.FieldDimensionsResponse
		var d diffs
		if err := trip(&in, &out); err != nil {
			return in, nil, err
		}
		if len(in.Fields) != len(out.Fields) {
			d.add("Fields", in.Fields, out.Fields)
		} else {
			for k, v := range in.Fields {
				if gv, ok := out.Fields[k]; !ok || gv != v {
					d.add("Fields["+k+"]", v, out.Fields[k])
				}
			}
		}
		if len(in.Dimensions) != len(out.Dimensions) {
			d.add("Dimensions", in.Dimensions, out.Dimensions)
		} else {
			for k := range in.Dimensions {
				if _, ok := out.Dimensions[k]; !ok {
					d.add("Dimensions["+k+"]", true, false)
				}
			}
		}
		d.err("Err", in.Err, out.Err)
		return fmt.Sprintf("%+v", in), d, nil
	}},
	{"MapTypeRequest", func(g *rand.Rand, _ string) (interface{}, diffs, error) {
		in := coordinator.MapTypeRequest{ShardIDs: gIDs(g), Measurement: gMeasurement(g), Field: gStr(g)}
		var out coordinator.MapTypeRequest
		var d diffs
		if err := trip(&in, &out); err != nil {
			return in.Measurement.String(), nil, err
		}
		d.u64s("ShardIDs", in.ShardIDs, out.ShardIDs)
		d.measurement("Measurement", &in.Measurement, &out.Measurement)
		d.eq("Field", in.Field, out.Field)
		return in.Measurement.String(), d, nil
	}},
	{"MapTypeResponse", func(g *rand.Rand, _ string) (interface{}, diffs, error) {
		in := coordinator.MapTypeResponse{Type: influxql.DataType(g.Intn(10)), Err: gErr(g)}
		var out coordinator.MapTypeResponse
		var d diffs
		if err := trip(&in, &out); err != nil {
			return in, nil, err
		}
		d.eq("Type", in.Type, out.Type)
		d.err("Err", in.Err, out.Err)
		return fmt.Sprintf("%+v", in), d, nil
	}},
	{"ExpandSourcesRequest", func(g *rand.Rand, _ string) (interface{}, diffs, error) {
		in := coordinator.ExpandSourcesRequest{ShardIDs: gIDs(g)}
		for i, n := 0, g.Intn(4); i < n; i++ {
			m := gMeasurement(g)
			in.Sources = append(in.Sources, &m)
		}
		var out coordinator.ExpandSourcesRequest
		var d diffs
		if err := trip(&in, &out); err != nil {
			return in.Sources.String(), nil, err
		}
		d.u64s("ShardIDs", in.ShardIDs, out.ShardIDs)
		cmpSources(&d, "Sources", in.Sources, out.Sources)
		return in.Sources.String(), d, nil
	}},
	{"ExpandSourcesResponse", func(g *rand.Rand, _ string) (interface{}, diffs, error) {
		in := coordinator.ExpandSourcesResponse{Err: gErr(g)}
		for i, n := 0, g.Intn(4); i < n; i++ {
			m := gMeasurement(g)
			in.Sources = append(in.Sources, &m)
		}
		var out coordinator.ExpandSourcesResponse
		var d diffs
		if err := trip(&in, &out); err != nil {
			return in.Sources.String(), nil, err
		}
		cmpSources(&d, "Sources", in.Sources, out.Sources)
		d.err("Err", in.Err, out.Err)
		return in.Sources.String(), d, nil
	}},
	{"BackupShardRequest", func(g *rand.Rand, _ string) (interface{}, diffs, error) {
		in := coordinator.BackupShardRequest{ShardID: uint64(gInt64(g)), Since: gTime(g)}
		var out coordinator.BackupShardRequest
		var d diffs
		if err := trip(&in, &out); err != nil {
			return in, nil, err
		}
		d.eq("ShardID", in.ShardID, out.ShardID)
		d.eq("Since.UnixNano", in.Since.UnixNano(), out.Since.UnixNano())
		return fmt.Sprintf("%+v", in), d, nil
	}},
	{"CopyShardRequest", func(g *rand.Rand, _ string) (interface{}, diffs, error) {
		in := coordinator.CopyShardRequest{Host: gStr(g), Database: gStr(g), Policy: gStr(g), ShardID: uint64(gInt64(g)), Since: gTime(g)}
		var out coordinator.CopyShardRequest
		var d diffs
		if err := trip(&in, &out); err != nil {
			return in, nil, err
		}
		d.eq("Host", in.Host, out.Host)
		d.eq("Database", in.Database, out.Database)
		d.eq("Policy", in.Policy, out.Policy)
		d.eq("ShardID", in.ShardID, out.ShardID)
		d.eq("Since.UnixNano", in.Since.UnixNano(), out.Since.UnixNano())
		return fmt.Sprintf("%+v", in), d, nil
	}},
	{"CopyShardResponse", func(g *rand.Rand, _ string) (interface{}, diffs, error) {
		in := coordinator.CopyShardResponse{Err: gErr(g)}
		var out coordinator.CopyShardResponse
		var d diffs
		if err := trip(&in, &out); err != nil {
			return nil, nil, err
		}
		d.err("Err", in.Err, out.Err)
		return show(in.Err), d, nil
	}},
	{"RemoveShardRequest", func(g *rand.Rand, _ string) (interface{}, diffs, error) {
		in := coordinator.RemoveShardRequest{ShardID: uint64(gInt64(g))}
		var out coordinator.RemoveShardRequest
		var d diffs
		if err := trip(&in, &out); err != nil {
			return in, nil, err
		}
		d.eq("ShardID", in.ShardID, out.ShardID)
		return in, d, nil
	}},
	{"RemoveShardResponse", func(g *rand.Rand, _ string) (interface{}, diffs, error) {
		in := coordinator.RemoveShardResponse{Err: gErr(g)}
		var out coordinator.RemoveShardResponse
		var d diffs
		if err := trip(&in, &out); err != nil {
			return nil, nil, err
		}
		d.err("Err", in.Err, out.Err)
		return show(in.Err), d, nil
	}},
	{"ListShardsResponse", func(g *rand.Rand, _ string) (interface{}, diffs, error) {
		in := coordinator.ListShardsResponse{Err: gErr(g)}
		if g.Intn(5) > 0 {
			in.Shards = map[uint64]*meta.ShardOwnerInfo{}
			for i, n := 0, g.Intn(4); i < n; i++ {
				in.Shards[uint64(gInt64(g))] = &meta.ShardOwnerInfo{ID: uint64(gInt64(g)), TCPAddr: gStr(g), State: []string{"hot", "cold", ""}[g.Intn(3)],
					LastModified: []time.Time{{}, time.Now(), time.Unix(g.Int63n(1<<32), g.Int63n(1e9)).UTC(), time.Unix(1e9, 5).In(time.FixedZone("z", -7200))}[g.Intn(4)],
					Size:         gInt64(g), Err: gStr(g)}
			}
		}
		var out coordinator.ListShardsResponse
		var d diffs
		if err := trip(&in, &out); err != nil {
			return nil, nil, err
		}
		if len(in.Shards) != len(out.Shards) {
			d.add("Shards", len(in.Shards), len(out.Shards))
		} else {
			for k, w := range in.Shards {
				o := out.Shards[k]
				if o == nil {
					d.add(fmt.Sprintf("Shards[%d]", k), w, nil)
					continue
				}
				d.eq(fmt.Sprintf("Shards[%d].ID", k), w.ID, o.ID)
				d.eq(fmt.Sprintf("Shards[%d].TCPAddr", k), w.TCPAddr, o.TCPAddr)
				d.eq(fmt.Sprintf("Shards[%d].State", k), w.State, o.State)
				d.eq(fmt.Sprintf("Shards[%d].Size", k), w.Size, o.Size)
				d.eq(fmt.Sprintf("Shards[%d].Err", k), w.Err, o.Err)
				if !w.LastModified.Equal(o.LastModified) {
					d.add(fmt.Sprintf("Shards[%d].LastModified", k), w.LastModified, o.LastModified)
				}
			}
		}
		d.err("Err", in.Err, out.Err)
		return nil, d, nil
	}},
	{"JoinClusterRequest", func(g *rand.Rand, _ string) (interface{}, diffs, error) {
		in := coordinator.JoinClusterRequest{Update: g.Intn(2) == 0}
		for i, n := 0, g.Intn(4); i < n; i++ {
			in.MetaServers = append(in.MetaServers, gStr(g))
		}
		var out coordinator.JoinClusterRequest
		var d diffs
		if err := trip(&in, &out); err != nil {
			return in, nil, err
		}
		d.strs("MetaServers", in.MetaServers, out.MetaServers)
		d.eq("Update", in.Update, out.Update)
		return in, d, nil
	}},
	{"JoinClusterResponse", func(g *rand.Rand, _ string) (interface{}, diffs, error) {
		in := coordinator.JoinClusterResponse{Err: gErr(g)}
		if g.Intn(3) > 0 {
			in.Node = &meta.NodeInfo{ID: uint64(gInt64(g)), Addr: gStr(g), TCPAddr: gStr(g)}
		}
		var out coordinator.JoinClusterResponse
		var d diffs
		if err := trip(&in, &out); err != nil {
			return in.Node, nil, err
		}
		d.eq("Node", in.Node, out.Node)
		d.err("Err", in.Err, out.Err)
		return in.Node, d, nil
	}},
	{"LeaveClusterResponse", func(g *rand.Rand, _ string) (interface{}, diffs, error) {
		in := coordinator.LeaveClusterResponse{Err: gErr(g)}
		var out coordinator.LeaveClusterResponse
		var d diffs
		if err := trip(&in, &out); err != nil {
			return nil, nil, err
		}
		d.err("Err", in.Err, out.Err)
		return show(in.Err), d, nil
	}},
	{"RemoveHintedHandoffRequest", func(g *rand.Rand, _ string) (interface{}, diffs, error) {
		in := coordinator.RemoveHintedHandoffRequest{NodeID: uint64(gInt64(g))}
		var out coordinator.RemoveHintedHandoffRequest
		var d diffs
		if err := trip(&in, &out); err != nil {
			return in, nil, err
		}
		d.eq("NodeID", in.NodeID, out.NodeID)
		return in, d, nil
	}},
	{"RemoveHintedHandoffResponse", func(g *rand.Rand, _ string) (interface{}, diffs, error) {
		in := coordinator.RemoveHintedHandoffResponse{Err: gErr(g)}
		var out coordinator.RemoveHintedHandoffResponse
		var d diffs
		if err := trip(&in, &out); err != nil {
			return nil, nil, err
		}
		d.err("Err", in.Err, out.Err)
		return show(in.Err), d, nil
	}},
}

func cmpSources(d *diffs, f string, want, got influxql.Sources) {
	if len(want) != len(got) {
		d.add(f, want.String(), got.String())
		return
	}
	for i := range want {
		gm, _ := got[i].(*influxql.Measurement)
		d.measurement(fmt.Sprintf("%s[%d]", f, i), want[i].(*influxql.Measurement), gm)
	}
}

func gPredicate(g *rand.Rand) *datatypes.Predicate {
	if g.Intn(3) == 0 {
		return nil
	}
	var node func(depth int) *datatypes.Node
	node = func(depth int) *datatypes.Node {
		if depth <= 0 || g.Intn(3) == 0 {
			switch g.Intn(7) {
			case 0:
				return &datatypes.Node{NodeType: datatypes.NodeTypeTagRef, Value: &datatypes.Node_TagRefValue{TagRefValue: gStr(g)}}
			case 1:
				return &datatypes.Node{NodeType: datatypes.NodeTypeLiteral, Value: &datatypes.Node_StringValue{StringValue: gStr(g)}}
			case 2:
				return &datatypes.Node{NodeType: datatypes.NodeTypeLiteral, Value: &datatypes.Node_IntegerValue{IntegerValue: gInt64(g)}}
			case 3:
				return &datatypes.Node{NodeType: datatypes.NodeTypeLiteral, Value: &datatypes.Node_FloatValue{FloatValue: g.NormFloat64()}}
			case 4:
				return &datatypes.Node{NodeType: datatypes.NodeTypeLiteral, Value: &datatypes.Node_BooleanValue{BooleanValue: g.Intn(2) == 0}}
			case 5:
				return &datatypes.Node{NodeType: datatypes.NodeTypeLiteral, Value: &datatypes.Node_RegexValue{RegexValue: "c.*"}}
			default:
				return &datatypes.Node{NodeType: datatypes.NodeTypeFieldRef, Value: &datatypes.Node_FieldRefValue{FieldRefValue: gStr(g)}}
			}
		}
		if g.Intn(2) == 0 {
			return &datatypes.Node{NodeType: datatypes.NodeTypeLogicalExpression, Value: &datatypes.Node_Logical_{Logical: datatypes.Node_Logical(g.Intn(2))},
				Children: []*datatypes.Node{node(depth - 1), node(depth - 1)}}
		}
		return &datatypes.Node{NodeType: datatypes.NodeTypeComparisonExpression, Value: &datatypes.Node_Comparison_{Comparison: datatypes.Node_Comparison(g.Intn(8))},
			Children: []*datatypes.Node{node(depth - 1), node(depth - 1)}}
	}
	return &datatypes.Predicate{Root: node(3)}
}

// fidelityCase runs one round trip; a panic inside the repository's codecs is a violation of its own class.
func fidelityCase(caseID string, c rtCase, seed int64, class string) {
	g := rand.New(rand.NewSource(seed))
	var in interface{}
	var d diffs
	var err error
	panicked := func() (p interface{}) {
		defer func() {
			if e := recover(); e != nil {
				p = fmt.Sprintf("%v\n%s", e, debug.Stack())
			}
		}()
		in, d, err = c.run(g, class)
		return nil
	}()
	r.Eval(1)
	suffix := ""
	if class != "plain" {
		suffix = "/" + class
	}
	switch {
	case panicked != nil:
		r.Violation("C15/fidelity/panic/"+c.typ, caseID, fmt.Sprintf("%s: Marshal/UnmarshalBinary panicked: %.300s", c.typ, panicked), map[string]interface{}{"type": c.typ, "seed": seed, "class": class, "panic": panicked})
	case err != nil:
		r.Violation("C15/fidelity/error/"+c.typ+suffix, caseID, fmt.Sprintf("%s: %v", c.typ, err), map[string]interface{}{"type": c.typ, "seed": seed, "class": class, "value": in, "error": err.Error()})
	case len(d) > 0:
		field := d[0][:strings.Index(d[0], ":")]
		field = reIndex.ReplaceAllString(field, "[]")
		sig := "C15/fidelity/" + c.typ + "/" + field + suffix
		if class == "non-utf8" {
			sig = "C15/fidelity/json-carried-string/non-utf8"
		}
		if class == "integer-fill-value" && field == "Opt.FillValue" {
			sig = "C15/fidelity/IteratorOptions.FillValue/integer"
		}
		r.Violation(sig, caseID, fmt.Sprintf("%s does not decode to what was encoded: %s", c.typ, strings.Join(d, "; ")),
			map[string]interface{}{"type": c.typ, "seed": seed, "class": class, "value": in, "differences": []string(d)})
	default:
		r.Count("messages_roundtripped", 1)
		r.Count("roundtrip:"+c.typ, 1)
		r.Nontrivial("msg|" + c.typ + "|" + class + "|" + fmt.Sprint(seed%16))
		if r.WantSample() && seed%97 == 0 {
			r.Sample(map[string]interface{}{"case": caseID, "type": c.typ, "value": fmt.Sprintf("%.300v", in)})
		}
	}
}

// ---------------------------------------------------------------- point streams

func gAux(g *rand.Rand, n int) []interface{} {
	if n == 0 {
		if g.Intn(2) == 0 {
			return nil
		}
		return []interface{}{}
	}
	a := make([]interface{}, n)
	for i := range a {
		switch g.Intn(11) {
		case 0:
			a[i] = gFloat(g)
		case 1:
			a[i] = gInt64(g)
		case 2:
			a[i] = uint64(gInt64(g))
		case 3:
			a[i] = gStr(g)
		case 4:
			a[i] = g.Intn(2) == 0
		case 5:
			a[i] = (*float64)(nil)
		case 6:
			a[i] = (*int64)(nil)
		case 7:
			a[i] = (*uint64)(nil)
		case 8:
			a[i] = (*string)(nil)
		case 9:
			a[i] = (*bool)(nil)
		default:
			a[i] = nil
		}
	}
	return a
}

func gFloat(g *rand.Rand) float64 {
	switch g.Intn(8) {
	case 0:
		return 0
	case 1:
		return math.Copysign(0, -1)
	case 2:
		return math.Inf(1 - 2*g.Intn(2))
	case 3:
		return math.NaN()
	case 4:
		return math.Float64frombits(0x7ff8000000000001 + uint64(g.Intn(1000))) // NaN with payload
	case 5:
		return math.SmallestNonzeroFloat64
	}
	return g.NormFloat64() * math.Pow(10, float64(g.Intn(40)-20))
}

func gTags(g *rand.Rand) query.Tags {
	m := map[string]string{}
	for i, n := 0, g.Intn(4); i < n; i++ {
		m[gName(g)] = gStr(g)
	}
	if len(m) == 0 && g.Intn(2) == 0 {
		return query.Tags{}
	}
	return query.NewTags(m)
}

type genPoint struct {
	Name       string
	Tags       query.Tags
	Time       int64
	Aux        []interface{}
	Aggregated uint32
	Nil        bool
	F          float64
	I          int64
	U          uint64
	S          string
	B          bool
}

func (p genPoint) String() string {
	return fmt.Sprintf("{name=%q tags=%q time=%d aux=%s aggregated=%d nil=%v f=%x i=%d u=%d s=%q b=%v}", p.Name, p.Tags.ID(), p.Time, showAux(p.Aux), p.Aggregated, p.Nil, math.Float64bits(p.F), p.I, p.U, p.S, p.B)
}

func showAux(a []interface{}) string {
	var parts []string
	for _, v := range a {
		if f, ok := v.(float64); ok {
			parts = append(parts, fmt.Sprintf("float64(%x)", math.Float64bits(f)))
		} else {
			parts = append(parts, fmt.Sprintf("%T(%v)", v, v))
		}
	}
	return "[" + strings.Join(parts, " ") + "]"
}

func auxEqual(a, b []interface{}) bool {
	if len(a) != len(b) {
		return false
	}
	for i := range a {
		fa, ok1 := a[i].(float64)
		fb, ok2 := b[i].(float64)
		if ok1 || ok2 {
			if !(ok1 && ok2) || math.Float64bits(fa) != math.Float64bits(fb) {
				return false
			}
			continue
		}
		if !reflect.DeepEqual(a[i], b[i]) {
			return false
		}
	}
	return true
}

func tagsEqual(a, b query.Tags) bool {
	if a.ID() != b.ID() {
		return false
	}
	am, bm := a.KeyValues(), b.KeyValues()
	if len(am) != len(bm) {
		return false
	}
	for k, v := range am {
		if w, ok := bm[k]; !ok || w != v {
			return false
		}
	}
	return true
}

type srcIter struct {
	typ   influxql.DataType
	pts   []genPoint
	i     int
	stats query.IteratorStats
	// pause > 0: every pauseEvery-th Next takes that long, so that the
	// encoder's stats ticker (set below pause) fires inside the streaming loop
	pause      time.Duration
	pauseEvery int
}

func (it *srcIter) Stats() query.IteratorStats { return it.stats }
func (it *srcIter) Close() error               { return nil }
func (it *srcIter) next() *genPoint {
	if it.i >= len(it.pts) {
		return nil
	}
	p := &it.pts[it.i]
	it.i++
	if it.pause > 0 && it.i%it.pauseEvery == 0 {
		time.Sleep(it.pause)
		atomic.AddInt64(&streamPauses, 1)
	}
	it.stats.PointN++
	if it.i%3 == 1 {
		it.stats.SeriesN++
	}
	return p
}

var streamPauses int64

type floatSrc struct{ *srcIter }
type integerSrc struct{ *srcIter }
type stringSrc struct{ *srcIter }
type booleanSrc struct{ *srcIter }
type unsignedSrc struct{ *srcIter }

func (s floatSrc) Next() (*query.FloatPoint, error) {
	p := s.next()
	if p == nil {
		return nil, nil
	}
	return &query.FloatPoint{Name: p.Name, Tags: p.Tags, Time: p.Time, Value: p.F, Aux: p.Aux, Aggregated: p.Aggregated, Nil: p.Nil}, nil
}
func (s integerSrc) Next() (*query.IntegerPoint, error) {
	p := s.next()
	if p == nil {
		return nil, nil
	}
	return &query.IntegerPoint{Name: p.Name, Tags: p.Tags, Time: p.Time, Value: p.I, Aux: p.Aux, Aggregated: p.Aggregated, Nil: p.Nil}, nil
}
func (s stringSrc) Next() (*query.StringPoint, error) {
	p := s.next()
	if p == nil {
		return nil, nil
	}
	return &query.StringPoint{Name: p.Name, Tags: p.Tags, Time: p.Time, Value: p.S, Aux: p.Aux, Aggregated: p.Aggregated, Nil: p.Nil}, nil
}
func (s booleanSrc) Next() (*query.BooleanPoint, error) {
	p := s.next()
	if p == nil {
		return nil, nil
	}
	return &query.BooleanPoint{Name: p.Name, Tags: p.Tags, Time: p.Time, Value: p.B, Aux: p.Aux, Aggregated: p.Aggregated, Nil: p.Nil}, nil
}
func (s unsignedSrc) Next() (*query.UnsignedPoint, error) {
	p := s.next()
	if p == nil {
		return nil, nil
	}
	return &query.UnsignedPoint{Name: p.Name, Tags: p.Tags, Time: p.Time, Value: p.U, Aux: p.Aux, Aggregated: p.Aggregated, Nil: p.Nil}, nil
}

var streamTypes = []influxql.DataType{influxql.Float, influxql.Integer, influxql.String, influxql.Boolean}

type streamWitness struct {
	Type   string   `json:"type"`
	Seed   int64    `json:"seed"`
	N      int      `json:"points"`
	Index  int      `json:"index"`
	Want   string   `json:"encoded"`
	Got    string   `json:"decoded"`
	Points []string `json:"stream,omitempty"`
}

// streamCase pushes one generated point stream (plus stats and trace frames) through the real encoder and reader.
func streamCase(caseID string, typ influxql.DataType, seed int64) {
	defer func() {
		if e := recover(); e != nil { // the reader side runs in this goroutine
			r.Violation("C15/fidelity/stream/"+typ.String()+"/reader-panic", caseID, fmt.Sprintf("%s point stream: reader panicked: %.300v", typ, e),
				map[string]interface{}{"type": typ.String(), "seed": seed, "panic": fmt.Sprintf("%v\n%s", e, debug.Stack())})
		}
	}()
	g := rand.New(rand.NewSource(seed))
	n := []int{0, 1, 2, 5, 20, 200}[g.Intn(6)]
	nAux := g.Intn(5)
	pts := make([]genPoint, n)
	for i := range pts {
		p := genPoint{Name: gStr(g), Tags: gTags(g), Time: gInt64(g), Aux: gAux(g, nAux), Nil: g.Intn(5) == 0, F: gFloat(g), I: gInt64(g), U: uint64(gInt64(g)), S: gStr(g), B: g.Intn(2) == 0}
		if g.Intn(3) == 0 {
			p.Aggregated = g.Uint32()
		}
		if g.Intn(10) == 0 { // all-zero value with every optional part empty
			p = genPoint{Tags: query.Tags{}}
		}
		pts[i] = p
	}
	src := &srcIter{typ: typ, pts: pts, stats: query.IteratorStats{SeriesN: g.Intn(100), PointN: g.Intn(1000)}}
	initial := src.stats
	// slow remote iterator: stats frames get interleaved with the points
	slow := n >= 5 && g.Intn(3) == 0
	if slow {
		src.pause, src.pauseEvery = 3*time.Millisecond, 1+g.Intn(4)
	}
	var in query.Iterator
	switch typ {
	case influxql.Float:
		in = floatSrc{src}
	case influxql.Integer:
		in = integerSrc{src}
	case influxql.String:
		in = stringSrc{src}
	case influxql.Boolean:
		in = booleanSrc{src}
	case influxql.Unsigned:
		in = unsignedSrc{src}
	}
	r.Eval(1)
	fail := func(sig string, idx int, want, got string) {
		w := streamWitness{Type: typ.String(), Seed: seed, N: n, Index: idx, Want: want, Got: got}
		if n <= 5 {
			for _, p := range pts {
				w.Points = append(w.Points, p.String())
			}
		}
		r.Violation("C15/fidelity/stream/"+typ.String()+"/"+sig, caseID, fmt.Sprintf("%s point stream of %d points: %s at index %d: encoded %s, decoded %s", typ, n, sig, idx, want, got), w)
	}

	// Remote side: a trace whose root span is a child of the caller's span.
	parentTrace, parentSpan := tracing.NewTrace("caller")
	withTrace := g.Intn(3) > 0
	remoteTrace, remoteSpan := tracing.NewTraceFromSpan("remote_iterator", parentSpan.Context())
	remoteSpan.SetLabels("shard", fmt.Sprint(seed%100), "kind", gStr(g))
	remoteSpan.MergeFields(fields.Int64("points", int64(n)), fields.String("note", gStr(g)), fields.Float64("f", 1.5), fields.Bool("ok", true), fields.Duration("d", 3*time.Second), fields.Uint64("u", 9))
	childSpan := remoteSpan.StartSpan("cursor")
	childSpan.Finish()
	remoteSpan.Finish()

	// IteratorEncoder.EncodeIterator has no case for unsigned iterators on this tree; the frames an unsigned
	// stream would consist of are then produced with the exported UnsignedPointEncoder (no stats / trace frames).
	direct := typ == influxql.Unsigned && !unsignedViaIterator
	if direct {
		withTrace = false
	}
	pr, pw := io.Pipe()
	encErr := make(chan error, 1)
	go func() {
		defer func() {
			if e := recover(); e != nil {
				encErr <- fmt.Errorf("encoder panicked: %v", e)
				pw.CloseWithError(io.ErrClosedPipe)
			}
		}()
		if direct {
			penc := query.NewUnsignedPointEncoder(pw)
			var err error
			for p := src.next(); p != nil && err == nil; p = src.next() {
				err = penc.EncodeUnsignedPoint(&query.UnsignedPoint{Name: p.Name, Tags: p.Tags, Time: p.Time, Value: p.U, Aux: p.Aux, Aggregated: p.Aggregated, Nil: p.Nil})
			}
			pw.CloseWithError(err)
			encErr <- err
			return
		}
		enc := query.NewIteratorEncoder(pw)
		if slow {
			enc.StatsInterval = time.Millisecond
		}
		err := enc.EncodeIterator(in)
		if err == nil && withTrace {
			err = enc.EncodeTrace(remoteTrace)
		}
		pw.CloseWithError(err)
		encErr <- err
	}()

	ctx := context.Background()
	if withTrace {
		ctx = tracing.NewContextWithTrace(ctx, parentTrace)
	}
	out := query.NewReaderIterator(ctx, pr, typ, initial)
	got := 0
	var bad bool
	for {
		var gp *genPoint
		var err error
		switch it := out.(type) {
		case query.FloatIterator:
			var p *query.FloatPoint
			if p, err = it.Next(); p != nil {
				gp = &genPoint{Name: p.Name, Tags: p.Tags, Time: p.Time, Aux: p.Aux, Aggregated: p.Aggregated, Nil: p.Nil, F: p.Value}
			}
		case query.IntegerIterator:
			var p *query.IntegerPoint
			if p, err = it.Next(); p != nil {
				gp = &genPoint{Name: p.Name, Tags: p.Tags, Time: p.Time, Aux: p.Aux, Aggregated: p.Aggregated, Nil: p.Nil, I: p.Value}
			}
		case query.StringIterator:
			var p *query.StringPoint
			if p, err = it.Next(); p != nil {
				gp = &genPoint{Name: p.Name, Tags: p.Tags, Time: p.Time, Aux: p.Aux, Aggregated: p.Aggregated, Nil: p.Nil, S: p.Value}
			}
		case query.BooleanIterator:
			var p *query.BooleanPoint
			if p, err = it.Next(); p != nil {
				gp = &genPoint{Name: p.Name, Tags: p.Tags, Time: p.Time, Aux: p.Aux, Aggregated: p.Aggregated, Nil: p.Nil, B: p.Value}
			}
		case query.UnsignedIterator:
			var p *query.UnsignedPoint
			if p, err = it.Next(); p != nil {
				gp = &genPoint{Name: p.Name, Tags: p.Tags, Time: p.Time, Aux: p.Aux, Aggregated: p.Aggregated, Nil: p.Nil, U: p.Value}
			}
		}
		if err != nil {
			fail("reader-error", got, "a point or end of stream", err.Error())
			bad = true
			break
		}
		if gp == nil {
			break
		}
		if got >= n {
			fail("extra-point", got, "end of stream", gp.String())
			bad = true
			break
		}
		w := pts[got]
		valueEq := true
		switch typ {
		case influxql.Float:
			valueEq = math.Float64bits(w.F) == math.Float64bits(gp.F)
		case influxql.Integer:
			valueEq = w.I == gp.I
		case influxql.String:
			valueEq = w.S == gp.S
		case influxql.Boolean:
			valueEq = w.B == gp.B
		case influxql.Unsigned:
			valueEq = w.U == gp.U
		}
		switch {
		case w.Name != gp.Name:
			fail("name", got, w.String(), gp.String())
		case !tagsEqual(w.Tags, gp.Tags):
			fail("tags", got, w.String(), gp.String())
		case w.Time != gp.Time:
			fail("time", got, w.String(), gp.String())
		case w.Nil != gp.Nil:
			fail("nil-marker", got, w.String(), gp.String())
		case w.Aggregated != gp.Aggregated:
			fail("aggregated", got, w.String(), gp.String())
		case !auxEqual(w.Aux, gp.Aux):
			fail("aux", got, w.String(), gp.String())
		case !valueEq:
			fail("value", got, w.String(), gp.String())
		default:
			got++
			continue
		}
		bad = true
		break
	}
	if bad {
		pr.CloseWithError(io.ErrClosedPipe)
		<-encErr
		return
	}
	if err := <-encErr; err != nil {
		fail("encoder-error", got, "nil", err.Error())
		return
	}
	if got != n {
		fail("missing-points", got, fmt.Sprint(n, " points"), fmt.Sprint(got, " points"))
		return
	}
	if st := out.Stats(); st != src.stats && !direct {
		fail("stats-frame", n, fmt.Sprintf("%+v", src.stats), fmt.Sprintf("%+v", st))
		return
	}
	if withTrace {
		node := parentTrace.TreeFrom(remoteSpan.Context().SpanID)
		want := remoteTrace.TreeFrom(remoteSpan.Context().SpanID)
		if node == nil || want == nil || treeSig(node) != treeSig(want) {
			fail("trace-frame", n, treeSig(want), treeSig(node))
			return
		}
		r.Count("trace_frames_checked", 1)
	}
	r.Count("point_streams_checked", 1)
	r.Count("stream_points_compared", int64(n))
	r.Nontrivial(fmt.Sprintf("stream|%s|n%d|aux%d|trace%v", typ, n, nAux, withTrace))
}

func treeSig(n *tracing.TreeNode) string {
	if n == nil {
		return "<nil>"
	}
	var fs []string
	for _, f := range n.Raw.Fields {
		fs = append(fs, f.String())
	}
	sort.Strings(fs)
	s := fmt.Sprintf("%s(trace=%d span=%d parent=%d start=%d labels=%v fields=%v)", n.Raw.Name, n.Raw.Context.TraceID, n.Raw.Context.SpanID, n.Raw.ParentSpanID, n.Raw.Start.UnixNano(), n.Raw.Labels, fs)
	for _, c := range n.Children {
		s += "[" + treeSig(c) + "]"
	}
	return s
}

// unsignedViaIterator: IteratorEncoder.EncodeIterator accepts an unsigned iterator (NewReaderIterator does).
var unsignedViaIterator bool

// unsignedProbe records whether the encoder accepts an unsigned iterator at all.
func unsignedProbe() {
	defer func() {
		if e := recover(); e != nil {
			r.Count("unsigned_iterator_rejected_by_encoder", 1)
			r.Set("unsigned_stream", fmt.Sprintf("IteratorEncoder.EncodeIterator: %v; unsigned streams are checked through UnsignedPointEncoder -> NewReaderIterator", e))
		}
	}()
	var buf bytes.Buffer
	src := &srcIter{typ: influxql.Unsigned, pts: []genPoint{{Name: "m", U: 7}}}
	if err := query.NewIteratorEncoder(&buf).EncodeIterator(unsignedSrc{src}); err == nil {
		r.Set("unsigned_stream", "supported by IteratorEncoder.EncodeIterator")
		unsignedViaIterator = true
	}
}
