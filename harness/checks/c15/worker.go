package main

// The WORKER process: a real coordinator.Service behind a real tcp.Mux on a
// loopback port, with a real tsdb.Store, a real services/storage.Store, a real
// query.TaskManager and stub meta client / server / hinted handoff. It is the
// thing hostile byte streams are thrown at; when target code panics the whole
// process dies, which is exactly the observation the parent is after.
//
// Control protocol (stdin -> stdout, one JSON object per line):
//   first line out        {"port":N}
//   "stat N"              waits until N connections have been accepted and no
//                         accepted connection is still open (bounded), then
//                         {"total_alloc":..,"active":..,"accepted":..,...}
//   "dump"                {"dump":"<all goroutine stacks>"}
// The worker exits when stdin is closed.

import (
	"bufio"
	"encoding/json"
	"errors"
	"fmt"
	"net"
	"os"
	"path/filepath"
	"runtime"
	"runtime/metrics"
	"sync"
	"sync/atomic"
	"time"

	"github.com/influxdata/influxdb/coordinator"
	"github.com/influxdata/influxdb/models"
	"github.com/influxdata/influxdb/query"
	"github.com/influxdata/influxdb/services/meta"
	"github.com/influxdata/influxdb/services/storage"
	"github.com/influxdata/influxdb/tcp"
	"github.com/influxdata/influxdb/toml"
	"github.com/influxdata/influxdb/tsdb"
	_ "github.com/influxdata/influxdb/tsdb/engine"
	_ "github.com/influxdata/influxdb/tsdb/index"
)

const (
	wDB    = "db0"
	wRP    = "rp0"
	wShard = uint64(1)
)

// ---------------------------------------------------------------- stubs

type stubServer struct{ addr string }

func (s *stubServer) Reset() error       { return nil }
func (s *stubServer) HTTPAddr() string   { return "127.0.0.1:8086" }
func (s *stubServer) HTTPScheme() string { return "http" }
func (s *stubServer) TCPAddr() string    { return s.addr }

// stubMeta answers what coordinator.Service and services/storage.Store ask of
// a meta client. DataNodeByTCPAddr alternates between "found" and "not found"
// so that both the join (waits until found) and the leave (waits until gone)
// handlers finish after at most one of their own 100 ms polls.
type stubMeta struct {
	mu      sync.Mutex
	servers []string
	flip    bool
	addr    string
}

func (m *stubMeta) NodeID() uint64 { return 1 }
func (m *stubMeta) MetaServers() []string {
	m.mu.Lock()
	defer m.mu.Unlock()
	return append([]string(nil), m.servers...)
}
func (m *stubMeta) SetMetaServers(a []string) {
	m.mu.Lock()
	m.servers = append([]string(nil), a...)
	m.mu.Unlock()
}
func (m *stubMeta) DataNode(id uint64) (*meta.NodeInfo, error) {
	if id == 1 {
		return &meta.NodeInfo{ID: 1, Addr: "127.0.0.1:8086", TCPAddr: m.addr}, nil
	}
	return nil, errors.New("node not found")
}
func (m *stubMeta) CreateDataNode(httpAddr, tcpAddr string) (*meta.NodeInfo, error) {
	return &meta.NodeInfo{ID: 1, Addr: httpAddr, TCPAddr: tcpAddr}, nil
}
func (m *stubMeta) DataNodeByTCPAddr(tcpAddr string) (*meta.NodeInfo, error) {
	m.mu.Lock()
	defer m.mu.Unlock()
	m.flip = !m.flip
	if m.flip {
		return &meta.NodeInfo{ID: 1, Addr: "127.0.0.1:8086", TCPAddr: tcpAddr}, nil
	}
	return nil, errors.New("node not found")
}
func (m *stubMeta) Status() (*meta.MetaNodeStatus, error) {
	return &meta.MetaNodeStatus{NodeType: "meta", Leader: "127.0.0.1:8089", HTTPAddr: "127.0.0.1:8091"}, nil
}
func (m *stubMeta) Save() error { return nil }

// services/storage.MetaClient
func (m *stubMeta) Database(name string) *meta.DatabaseInfo {
	if name != wDB {
		return nil
	}
	return &meta.DatabaseInfo{Name: wDB, DefaultRetentionPolicy: wRP,
		RetentionPolicies: []meta.RetentionPolicyInfo{{Name: wRP, ReplicaN: 1, ShardGroupDuration: 168 * time.Hour}}}
}
func (m *stubMeta) ShardGroupsByTimeRange(database, policy string, min, max time.Time) ([]meta.ShardGroupInfo, error) {
	if database != wDB || policy != wRP {
		return nil, nil
	}
	return []meta.ShardGroupInfo{{ID: 1, StartTime: time.Unix(0, 0), EndTime: time.Unix(0, 0).Add(168 * time.Hour),
		Shards: []meta.ShardInfo{{ID: wShard, Owners: []meta.ShardOwner{{NodeID: 1}}}}}}, nil
}

type stubHH struct{}

func (stubHH) RemoveNode(ownerID uint64) error {
	if ownerID == 0 {
		return errors.New("node not found")
	}
	return nil
}

// ---------------------------------------------------------------- counted listener

type countedListener struct {
	net.Listener
	accepted *int64
	active   *int64
}

func (l *countedListener) Accept() (net.Conn, error) {
	c, err := l.Listener.Accept()
	if err != nil {
		return nil, err
	}
	atomic.AddInt64(l.accepted, 1)
	atomic.AddInt64(l.active, 1)
	return &countedConn{Conn: c, active: l.active}, nil
}

type countedConn struct {
	net.Conn
	once   sync.Once
	active *int64
}

func (c *countedConn) Close() error {
	c.once.Do(func() { atomic.AddInt64(c.active, -1) })
	return c.Conn.Close()
}

// ---------------------------------------------------------------- worker main

type workerStat struct {
	TotalAlloc uint64           `json:"total_alloc"`
	Sys        uint64           `json:"sys"`
	Mallocs    uint64           `json:"mallocs"`
	Active     int64            `json:"active"`
	Accepted   int64            `json:"accepted"`
	Goroutines int              `json:"goroutines"`
	Stats      map[string]int64 `json:"stats"`
}

func workerFatal(format string, a ...interface{}) {
	fmt.Fprintf(os.Stderr, "C15-WORKER-SETUP-FAILED: "+format+"\n", a...)
	os.Exit(97)
}

func seedPoints(uintOn bool) []models.Point {
	var pts []models.Point
	for i := 0; i < 6; i++ {
		host := []string{"a", "b"}[i%2]
		fields := models.Fields{"value": 1.5 + float64(i), "n": int64(i) - 2, "s": fmt.Sprintf("str%d", i), "b": i%2 == 0}
		if uintOn {
			fields["u"] = uint64(i) + 7
		}
		p, err := models.NewPoint("cpu", models.NewTags(map[string]string{"host": host, "region": "x"}), fields, time.Unix(0, int64(i+1)*1000000000))
		if err != nil {
			workerFatal("seed point: %v", err)
		}
		pts = append(pts, p)
	}
	p, err := models.NewPoint("mem", models.NewTags(map[string]string{"host": "a"}), models.Fields{"free": int64(100)}, time.Unix(0, 5000000000))
	if err != nil {
		workerFatal("seed point: %v", err)
	}
	return append(pts, p)
}

func workerMain() {
	t0 := time.Now()
	timing := func(what string) {
		if os.Getenv("C15_TIMING") == "1" {
			fmt.Fprintf(os.Stderr, "timing %s %v\n", what, time.Since(t0))
		}
	}
	dir := os.Getenv("C15_DIR")
	if dir == "" {
		workerFatal("C15_DIR not set")
	}
	uintOn := os.Getenv("C15_UINT") == "1"
	if uintOn {
		models.EnableUintSupport()
	}

	// Real storage.
	store := tsdb.NewStore(filepath.Join(dir, "data"))
	opts := tsdb.NewEngineOptions()
	opts.Config.Dir = filepath.Join(dir, "data")
	opts.Config.WALDir = filepath.Join(dir, "wal")
	opts.Config.WALFsyncDelay = toml.Duration(0)
	opts.Config.MaxConcurrentCompactions = 1
	store.EngineOptions = opts
	if err := os.MkdirAll(opts.Config.Dir, 0o755); err != nil {
		workerFatal("mkdir: %v", err)
	}
	if err := store.Open(); err != nil {
		workerFatal("store open: %v", err)
	}
	timing("store-open")
	if err := store.CreateShard(wDB, wRP, wShard, true); err != nil {
		workerFatal("create shard: %v", err)
	}
	timing("shard-created")
	if err := store.WriteToShard(wShard, seedPoints(uintOn)); err != nil {
		workerFatal("seed write: %v", err)
	}

	timing("seeded")
	// Real listener + mux.
	ln, err := net.Listen("tcp", "127.0.0.1:0")
	if err != nil {
		workerFatal("listen: %v", err)
	}
	var accepted, active int64
	cl := &countedListener{Listener: ln, accepted: &accepted, active: &active}
	mux := tcp.NewMux()
	muxln := mux.Listen(coordinator.MuxHeader)
	defln := mux.DefaultListener()
	go mux.Serve(cl)

	addr := ln.Addr().String()
	mc := &stubMeta{addr: addr}
	cfg := coordinator.NewConfig()
	cfg.DialTimeout = toml.Duration(500 * time.Millisecond)
	svc := coordinator.NewService(cfg)
	svc.TSDBStore = store
	svc.MetaClient = mc
	svc.HintedHandoff = stubHH{}
	svc.TaskManager = query.NewTaskManager()
	svc.Store = storage.NewStore(store, mc)
	svc.Server = &stubServer{addr: addr}
	svc.Listener = muxln
	svc.DefaultListener = defln
	if err := svc.Open(); err != nil {
		workerFatal("service open: %v", err)
	}

	timing("service-open")
	out := bufio.NewWriter(os.Stdout)
	emit := func(v interface{}) {
		b, _ := json.Marshal(v)
		out.Write(b)
		out.WriteByte('\n')
		out.Flush()
	}
	emit(map[string]interface{}{"port": ln.Addr().(*net.TCPAddr).Port})

	samples := []metrics.Sample{{Name: "/gc/heap/allocs:bytes"}, {Name: "/memory/classes/total:bytes"}, {Name: "/gc/heap/allocs:objects"}}
	in := bufio.NewScanner(os.Stdin)
	for in.Scan() {
		cmd, arg := in.Text(), int64(0)
		if n, _ := fmt.Sscanf(cmd, "stat %d", &arg); n == 1 {
			cmd = "stat"
		}
		switch cmd {
		case "stat":
			// Quiesce: the connections the parent has made so far have all been accepted, and every accepted
			// connection has been closed by its handler.
			deadline := time.Now().Add(15 * time.Second)
			for (atomic.LoadInt64(&accepted) < arg || atomic.LoadInt64(&active) > 0) && time.Now().Before(deadline) {
				time.Sleep(200 * time.Microsecond)
			}
			// runtime/metrics "/gc/heap/allocs:bytes" is MemStats.TotalAlloc read without stopping the world
			// (the machine is shared; a stop-the-world per stream is expensive).
			metrics.Read(samples)
			st := workerStat{TotalAlloc: samples[0].Value.Uint64(), Sys: samples[1].Value.Uint64(), Mallocs: samples[2].Value.Uint64(), Active: atomic.LoadInt64(&active),
				Accepted: atomic.LoadInt64(&accepted), Goroutines: runtime.NumGoroutine(), Stats: map[string]int64{}}
			for _, s := range svc.Statistics(nil) {
				for k, v := range s.Values {
					if n, ok := v.(int64); ok {
						st.Stats[k] = n
					}
				}
			}
			emit(st)
		case "dump":
			buf := make([]byte, 16<<20)
			n := runtime.Stack(buf, true)
			emit(map[string]string{"dump": string(buf[:n])})
		case "quit":
			os.Exit(0)
		}
	}
	os.Exit(0)
}
