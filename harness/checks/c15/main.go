// C15 — the inter-node protocol is lossless and cannot be used to crash a node.
//
// Two monitors.
//
// ROBUSTNESS. The check re-executes itself as WORKER processes (worker.go):
// a real coordinator.Service behind a real tcp.Mux on a loopback port, with a
// real tsdb.Store. The parent (driver.go) logs every byte stream before it is
// sent (streams.go: every message type x declared length x payload class,
// mux header variants, cuts at every byte of a valid request, several frames
// per connection, seeded mutations and random streams) and observes: the
// worker's exit and panic text, the cumulative heap allocation (the quantity
// of runtime.MemStats.TotalAlloc, read as /gc/heap/allocs:bytes) before/after
// the connection, the reply bytes, and a liveness probe (valid WriteShard +
// valid ListShards on a fresh connection) after every stream. A dead worker is
// classified by the repository function on top of the faulting stack and a
// new worker is started.
//
// Signatures: C15/crash/<function>, C15/alloc/frame-over-max-message-size,
// C15/unresponsive/blocked-in/<functions> (same blocked handler stacks in two
// goroutine dumps; anything weaker is INCONCLUSIVE),
// C15/mux/foreign-header-reached-coordinator, C15/reply/{malformed,undecodable,
// invalid-request-accepted}/<message>[/<case>], C15/fidelity/<type>/<field>,
// C15/fidelity/error/<type>, C15/fidelity/stream/<point type>/<what>.
//
// FIDELITY (fidelity.go). Every exported request/response type of
// coordinator/rpc.go through MarshalBinary/UnmarshalBinary, and point streams
// of every type with tags, aux values of every kind, nil markers, stats and
// trace frames through query.IteratorEncoder -> pipe -> query.NewReaderIterator.
package main

import (
	"fmt"
	"os"
	"runtime"
	"strings"
	"sync"

	"github.com/influxdata/influxql"

	"verifharness/internal/ev"
)

func main() {
	if os.Getenv("C15_WORKER") == "1" {
		workerMain()
		return
	}
	ev.Supervise("C15", body)
}

var r *ev.Run

func body() {
	r = ev.Start("C15", "fault_enumeration")
	r.Rule = "robustness: byte streams enumerated over (mux header) x (message type 1..44 and unknown types) x (declared length: -2^63, -1, 0, 1, len-1, len, len+1, 32MiB, 2^31, Max, Max+1, 2^62; Max-1 in thorough) x (payload: empty, truncated valid, valid variants, valid envelope with invalid contents, mutated, random), cuts at every byte of a valid request, multi-frame connections, seeded mutations; a stream is non-trivial when the node answered it, the service's own request counters moved, the node died, or (foreign mux header) it was provably kept away from the coordinator; distinct by (kind, header, per frame type/length class/payload class). fidelity: generated message values per exported rpc.go type and generated point streams per value type; distinct by (type, value class) and (point type, length, aux width, trace)."
	r.Assumptions = []string{
		"the node under test is one coordinator.Service + tcp.Mux + tsdb.Store + services/storage.Store + query.TaskManager in a worker process; meta client, hinted handoff and the enclosing server are stubs, so handlers are exercised up to those interfaces",
		"allocation is measured as the growth of runtime.MemStats.TotalAlloc of the whole worker between two quiescent points around one connection (plus the previous liveness probe, a few KiB); bound = MaxMessageSize + 16 MiB per frame that declares >= 16 MiB",
		"strings in generated message values are valid UTF-8 except in the dedicated non-utf8 class; instants are compared by UnixNano; JSON-carried numbers are within +-2^53",
		"query.IteratorOptions.InterruptCh and .Authorizer are process-local and not part of the message",
		"a length just below MaxMessageSize (a permitted 1 GiB allocation) is declared only in the thorough tier, always with a short payload",
	}
	r.Floor = 300

	root := ev.TempDir("c15")
	defer os.RemoveAll(root)

	var wg sync.WaitGroup

	// ---- robustness
	nw := runtime.NumCPU() / 2
	if nw > 8 {
		nw = 8
	}
	if nw < 2 {
		nw = 2
	}
	if v := os.Getenv("C15_WORKERS"); v != "" {
		fmt.Sscan(v, &nw)
	}
	ch := make(chan *stream, 4*nw)
	for slot := 0; slot < nw; slot++ {
		wg.Add(1)
		go func(slot int) {
			defer wg.Done()
			d := &driver{root: root, slot: slot}
			for s := range ch {
				d.runStream(s)
			}
			d.shutdown()
		}(slot)
	}
	wg.Add(1)
	go func() {
		defer wg.Done()
		defer close(ch)
		if os.Getenv("C15_SKIP_ROBUSTNESS") == "1" {
			return
		}
		only := os.Getenv("C15_ONLY") // debugging aid: comma-separated stream kinds
		generateStreams(r.Rand("streams"), r.Thorough(), func(s *stream) {
			if r.Skip(s.ID) {
				return
			}
			if only != "" && !strings.Contains(","+only+",", ","+s.Kind+",") {
				return
			}
			ch <- s
		})
	}()

	// ---- fidelity (in this process; uses the cores the workers leave idle)
	type fjob struct {
		id    string
		c     *rtCase
		typ   influxql.DataType
		seed  int64
		class string
	}
	fch := make(chan fjob, 256)
	nf := runtime.NumCPU() / 4
	if nf < 2 {
		nf = 2
	}
	for i := 0; i < nf; i++ {
		wg.Add(1)
		go func() {
			defer wg.Done()
			for j := range fch {
				if j.c != nil {
					fidelityCase(j.id, *j.c, j.seed, j.class)
				} else {
					streamCase(j.id, j.typ, j.seed)
				}
			}
		}()
	}
	unsignedProbe()
	wg.Add(1)
	go func() {
		defer wg.Done()
		defer close(fch)
		if os.Getenv("C15_SKIP_FIDELITY") == "1" {
			return
		}
		perType := r.Pick(400, 12000)
		g := r.Rand("messages")
		for i := range rtCases {
			c := &rtCases[i]
			for k := 0; k < perType; k++ {
				seed := g.Int63()
				id := fmt.Sprintf("msg/%s/%d", c.typ, k)
				if r.Skip(id) {
					continue
				}
				fch <- fjob{id: id, c: c, seed: seed, class: "plain"}
			}
		}
		// value classes with their own signatures
		for i := range rtCases {
			c := &rtCases[i]
			var class string
			switch c.typ {
			case "TagKeysResponse", "TagValuesResponse", "FieldDimensionsResponse":
				class = "non-utf8"
			case "CreateIteratorRequest", "IteratorCostRequest":
				class = "integer-fill-value"
			default:
				continue
			}
			for k := 0; k < r.Pick(60, 600); k++ {
				seed := g.Int63()
				id := fmt.Sprintf("msg-%s/%s/%d", class, c.typ, k)
				if r.Skip(id) {
					continue
				}
				fch <- fjob{id: id, c: c, seed: seed, class: class}
			}
		}
		gs := r.Rand("point-streams")
		nStreams := r.Pick(4000, 100000)
		for k := 0; k < nStreams; k++ {
			seed := gs.Int63()
			t := k % len(streamTypes)
			id := fmt.Sprintf("points/%s/%d", streamTypes[t], k)
			if r.Skip(id) {
				continue
			}
			fch <- fjob{id: id, typ: streamTypes[t], seed: seed}
		}
		gu := r.Rand("point-streams-unsigned")
		for k := 0; k < r.Pick(300, 6000); k++ {
			seed := gu.Int63()
			id := fmt.Sprintf("points/unsigned/%d", k)
			if r.Skip(id) {
				continue
			}
			fch <- fjob{id: id, typ: influxql.Unsigned, seed: seed}
		}
	}()

	wg.Wait()
	maxDeltaMu.Lock()
	r.Set("max_alloc_delta_bytes", maxDelta)
	maxDeltaMu.Unlock()
	r.Set("workers", nw)
	os.RemoveAll(root)
	r.Finish()
}
