package main

// The PARENT side of the robustness monitor: owns worker processes, sends
// logged byte streams, measures the worker's allocation per connection, probes
// liveness after every stream, classifies worker deaths and restarts workers.

import (
	"bufio"
	"bytes"
	"encoding/binary"
	"encoding/hex"
	"encoding/json"
	"errors"
	"fmt"
	"io"
	"net"
	"os"
	"os/exec"
	"path/filepath"
	"regexp"
	"sort"
	"strings"
	"sync"
	"syscall"
	"time"

	"github.com/influxdata/influxdb/coordinator"

	"verifharness/internal/ev"
)

const (
	replyWatchdog = 40 * time.Second // a handler that neither answers nor closes after the client half-closed
	probeWatchdog = 40 * time.Second
	statWatchdog  = 60 * time.Second
	allocSlack    = 16 << 20
	replyCap      = 8 << 20
)

type worker struct {
	slot    int
	gen     int
	dir     string
	cmd     *exec.Cmd
	stdin   io.WriteCloser
	stdout  *bufio.Reader
	stderr  string // path
	port    int
	last    workerStat
	waitErr chan error
	uintOn  bool
	dials   int64 // connections made since the last stat
}

type driver struct {
	root  string
	slot  int
	gen   int
	w     *worker
	spare chan *worker // a worker being prepared in the background (restart latency)
}

func broken(format string, a ...interface{}) {
	fmt.Printf("BROKEN-CHECK C15: "+format+"\n", a...)
	os.Exit(ev.ExitBroken)
}

// launch starts a fresh worker process on a fresh store and waits until it listens.
func (d *driver) launch(gen int, uintOn bool) *worker {
	w := &worker{slot: d.slot, gen: gen, uintOn: uintOn}
	w.dir = filepath.Join(d.root, fmt.Sprintf("w%d-%d", d.slot, gen))
	if err := os.MkdirAll(w.dir, 0o755); err != nil {
		broken("mkdir: %v", err)
	}
	w.stderr = filepath.Join(d.root, fmt.Sprintf("w%d-%d.stderr", d.slot, gen))
	ef, err := os.Create(w.stderr)
	if err != nil {
		broken("create: %v", err)
	}
	cmd := exec.Command(os.Args[0])
	cmd.Env = append(os.Environ(), "C15_WORKER=1", "C15_DIR="+w.dir, "GOTRACEBACK=all", "GOMAXPROCS=4")
	if uintOn {
		cmd.Env = append(cmd.Env, "C15_UINT=1")
	}
	cmd.Stderr = ef
	w.stdin, err = cmd.StdinPipe()
	if err != nil {
		broken("pipe: %v", err)
	}
	so, err := cmd.StdoutPipe()
	if err != nil {
		broken("pipe: %v", err)
	}
	w.stdout = bufio.NewReaderSize(so, 1<<20)
	if err := cmd.Start(); err != nil {
		broken("cannot start worker: %v", err)
	}
	ef.Close()
	w.cmd = cmd
	w.waitErr = make(chan error, 1)
	go func() { w.waitErr <- cmd.Wait() }()
	var hello struct {
		Port int `json:"port"`
	}
	line, err := w.readLine(statWatchdog)
	if err != nil || json.Unmarshal(line, &hello) != nil || hello.Port == 0 {
		tail, _ := os.ReadFile(w.stderr)
		broken("worker did not come up (%v): %s", err, lastLines(string(tail), 15))
	}
	w.port = hello.Port
	st, err := w.stat()
	if err != nil {
		broken("worker did not answer the first stat: %v", err)
	}
	w.last = st
	r.Count("workers_started", 1)
	return w
}

// startWorker puts a fresh worker into service: the one prepared in the background if there is one.
func (d *driver) startWorker(uintOn bool) {
	var w *worker
	if d.spare != nil {
		w = <-d.spare
		d.spare = nil
		if w.uintOn != uintOn {
			w.reap(true)
			os.Remove(w.stderr)
			w = nil
		}
	}
	if w == nil {
		d.gen++
		w = d.launch(d.gen, uintOn)
	}
	d.w = w
	// prepare the next one now
	d.gen++
	gen := d.gen
	ch := make(chan *worker, 1)
	d.spare = ch
	go func() { ch <- d.launch(gen, false) }()
}

func (w *worker) readLine(limit time.Duration) ([]byte, error) {
	type res struct {
		b   []byte
		err error
	}
	ch := make(chan res, 1)
	go func() {
		b, err := w.stdout.ReadBytes('\n')
		ch <- res{b, err}
	}()
	select {
	case x := <-ch:
		return x.b, x.err
	case <-time.After(limit):
		return nil, errWatchdog
	}
}

var errWatchdog = errors.New("watchdog")

func (w *worker) stat() (workerStat, error) {
	var st workerStat
	if _, err := fmt.Fprintf(w.stdin, "stat %d\n", w.last.Accepted+w.dials); err != nil {
		return st, err
	}
	w.dials = 0
	line, err := w.readLine(statWatchdog)
	if err != nil {
		return st, err
	}
	if err := json.Unmarshal(line, &st); err != nil {
		return st, fmt.Errorf("bad stat line %q: %v", line, err)
	}
	return st, nil
}

func (w *worker) dump() string {
	if _, err := io.WriteString(w.stdin, "dump\n"); err != nil {
		return ""
	}
	line, err := w.readLine(statWatchdog)
	if err != nil {
		return ""
	}
	var x struct {
		Dump string `json:"dump"`
	}
	json.Unmarshal(line, &x)
	return x.Dump
}

// reap waits for the worker process to end (killing it if it does not) and removes its store.
func (w *worker) reap(kill bool) (exit string) {
	if kill {
		w.cmd.Process.Kill()
	}
	w.stdin.Close()
	select {
	case err := <-w.waitErr:
		exit = "exit status 0"
		if err != nil {
			exit = err.Error()
		}
	case <-time.After(30 * time.Second):
		w.cmd.Process.Kill()
		<-w.waitErr
		exit = "killed after watchdog"
	}
	os.RemoveAll(w.dir)
	return exit
}

func (d *driver) stop() {
	if d.w != nil {
		d.w.reap(true)
		os.Remove(d.w.stderr)
		d.w = nil
	}
}

// shutdown also disposes of the worker prepared in the background.
func (d *driver) shutdown() {
	d.stop()
	if d.spare != nil {
		w := <-d.spare
		d.spare = nil
		w.reap(true)
		os.Remove(w.stderr)
	}
}

// ---------------------------------------------------------------- crash classification

type crashInfo struct {
	Kind     string `json:"panic"`
	Func     string `json:"function"`
	Exit     string `json:"exit"`
	Trace    string `json:"trace"`
	inTarget bool
	harness  bool
}

// classifyWorkerDeath reads the worker's stderr and names the repository
// function at the top of the faulting goroutine's stack.
func classifyWorkerDeath(path, exit string) crashInfo {
	ci := crashInfo{Exit: exit}
	b, _ := os.ReadFile(path)
	lines := strings.Split(string(b), "\n")
	start := -1
	for i, l := range lines {
		if strings.HasPrefix(l, "panic: ") || strings.HasPrefix(l, "fatal error: ") || strings.HasPrefix(l, "C15-WORKER-SETUP-FAILED") {
			start = i
			break
		}
	}
	if start < 0 {
		ci.Kind = "died without a Go crash report"
		ci.Trace = lastLines(string(b), 20)
		return ci
	}
	ci.Kind = lines[start]
	if len(ci.Kind) > 200 {
		ci.Kind = ci.Kind[:200]
	}
	if strings.HasPrefix(ci.Kind, "C15-WORKER-SETUP-FAILED") {
		ci.harness = true
		return ci
	}
	end := start + 70
	if end > len(lines) {
		end = len(lines)
	}
	ci.Trace = strings.Join(lines[start:end], "\n")
	seenG := false
	for i := start; i < len(lines); i++ {
		l := lines[i]
		if strings.HasPrefix(l, "goroutine ") {
			if seenG {
				break
			}
			seenG = true
			continue
		}
		if !seenG || l == "" || strings.HasPrefix(l, "\t") || strings.HasPrefix(l, "[") {
			continue
		}
		fn := l
		if k := strings.LastIndex(fn, "("); k > 0 && strings.HasSuffix(fn, ")") {
			fn = fn[:k]
		}
		switch {
		case strings.HasPrefix(fn, "github.com/influxdata/influxdb/"):
			ci.Func, ci.inTarget = strings.TrimPrefix(fn, "github.com/influxdata/influxdb/"), true
		case strings.HasPrefix(fn, "github.com/influxdata/influxql"):
			ci.Func, ci.inTarget = "influxql"+fn[strings.LastIndex(fn, "/influxql")+len("/influxql"):], true
		case strings.HasPrefix(fn, "github.com/influxtsdb/influxql"):
			ci.Func, ci.inTarget = "influxql"+fn[strings.LastIndex(fn, "/influxql")+len("/influxql"):], true
		case strings.HasPrefix(fn, "main.") || strings.HasPrefix(fn, "verifharness"):
			ci.Func, ci.harness = fn, true
		default:
			continue // runtime, stdlib or third-party frame: keep looking for the caller in the repository
		}
		break
	}
	if ci.Func == "" {
		ci.Func = "no-repository-frame"
	}
	// closures: name the enclosing function
	ci.Func = regexp.MustCompile(`(\.func\d+)+(\.\d+)*$`).ReplaceAllString(ci.Func, "")
	return ci
}

func lastLines(s string, n int) string {
	l := strings.Split(strings.TrimRight(s, "\n"), "\n")
	if len(l) > n {
		l = l[len(l)-n:]
	}
	return strings.Join(l, "\n")
}

// ---------------------------------------------------------------- in-flight log (r.Begin)

var (
	inflightMu sync.Mutex
	inflight   = map[int]interface{}{}
)

func begin(slot int, s *stream) {
	inflightMu.Lock()
	defer inflightMu.Unlock()
	inflight[slot] = s
	snap := make(map[string]interface{}, len(inflight))
	for k, v := range inflight {
		snap[fmt.Sprint("worker", k)] = v
	}
	r.Begin(s.ID, snap)
}

// ---------------------------------------------------------------- one stream

type replyFrame struct {
	Type    int
	Payload []byte
}

// parseReply splits reply bytes into complete TLV frames; rest is what follows the last complete frame.
func parseReply(b []byte, max int) (frames []replyFrame, rest []byte) {
	for len(b) >= 9 && len(frames) < max {
		n := int64(binary.BigEndian.Uint64(b[1:9]))
		if n < 0 || n > int64(len(b)-9) {
			break
		}
		frames = append(frames, replyFrame{int(b[0]), b[9 : 9+n]})
		b = b[9+n:]
	}
	return frames, b
}

type witness struct {
	Stream      *stream     `json:"stream"`
	Reply       string      `json:"reply_hex,omitempty"`
	Crash       *crashInfo  `json:"crash,omitempty"`
	AllocDelta  uint64      `json:"alloc_delta,omitempty"`
	Stat        *workerStat `json:"stat,omitempty"`
	Note        string      `json:"note,omitempty"`
	WorkerStack string      `json:"worker_stacks,omitempty"`
}

func hexCap(b []byte, n int) string {
	if len(b) > n {
		return hex.EncodeToString(b[:n]) + fmt.Sprintf("...(%d bytes)", len(b))
	}
	return hex.EncodeToString(b)
}

// died handles a dead worker: classify, report, restart. Returns after a new worker is up.
func (d *driver) died(s *stream, phase string) {
	w := d.w
	exit := w.reap(false)
	ci := classifyWorkerDeath(w.stderr, exit)
	if ci.harness {
		broken("worker died in harness code during %s (%s): %s\n%s", s.ID, phase, ci.Kind, ci.Trace)
	}
	sig := "C15/crash/" + ci.Func
	if !ci.inTarget {
		sig = "C15/crash/unattributed"
	}
	r.Count("worker_deaths", 1)
	r.Count("death:"+ci.Func, 1)
	known := r.Violation(sig, s.ID, fmt.Sprintf("node process died (%s; %s) %s stream kind=%s %s; bytes=%s",
		ci.Kind, exit, phase, s.Kind, frameSummary(s), hexCap(s.Bytes, 96)), witness{Stream: s, Crash: &ci})
	if known {
		r.Nontrivial(s.key())
	}
	os.Remove(w.stderr)
	d.w = nil
	d.startWorker(w.uintOn)
}

func frameSummary(s *stream) string {
	var parts []string
	for _, f := range s.Frames {
		parts = append(parts, fmt.Sprintf("%s[len=%s payload=%s]", f.TypeName, f.LenClass, f.PayClass))
	}
	return strings.Join(parts, " ")
}

func (d *driver) alive() bool {
	select {
	case err := <-d.w.waitErr:
		d.w.waitErr <- err
		return false
	default:
		return true
	}
}

// runStream sends one stream and judges everything that can be observed about it.
func (d *driver) runStream(s *stream) {
	t0 := time.Now()
	defer func() { r.Count("ms_"+s.Kind, int64(time.Since(t0)/time.Millisecond)) }()
	if d.w == nil || d.w.uintOn != s.Uint {
		d.stop()
		d.startWorker(s.Uint)
	}
	w := d.w
	if s.SelfDst {
		s.Bytes = copyFromSelf(w.port)
	}
	s.Hex = hexCap(s.Bytes, 4096)
	begin(d.slot, s)
	r.Eval(1)
	r.Count("streams_sent", 1)
	r.Count("streams_"+s.Kind, 1)

	addr := fmt.Sprintf("127.0.0.1:%d", w.port)
	tio := time.Now()
	conn, err := net.DialTimeout("tcp", addr, probeWatchdog)
	if err != nil {
		if !d.alive() {
			d.died(s, "before")
			return
		}
		r.Inconclusive(fmt.Sprintf("%s: cannot connect to a live worker: %v", s.ID, err))
		d.stop()
		return
	}
	w.dials++
	var reply []byte
	timedOut := false
	wd := replyWatchdog
	if s.bigFrames > 0 {
		wd = 4 * replyWatchdog // clearing a (permitted) buffer of up to 1 GiB can take tens of seconds on a loaded machine
	}
	conn.SetWriteDeadline(time.Now().Add(wd))
	_, werr := conn.Write(s.Bytes)
	_ = werr // the node may close before reading everything: not an observation by itself
	if s.Abrupt {
		conn.Close()
	} else {
		conn.(*net.TCPConn).CloseWrite()
		conn.SetReadDeadline(time.Now().Add(wd))
		buf, rerr := io.ReadAll(io.LimitReader(conn, replyCap))
		reply = buf
		if ne, ok := rerr.(net.Error); ok && ne.Timeout() {
			timedOut = true
		}
		if len(buf) == replyCap {
			r.Count("replies_capped", 1)
		}
		conn.Close()
	}

	// Allocation delta of the node for this connection (the worker answers once the connection's handler is done).
	r.Count("us_io", int64(time.Since(tio)/time.Microsecond))

	ts := time.Now()
	st, err := w.stat()
	r.Count("us_stat", int64(time.Since(ts)/time.Microsecond))
	if err != nil {
		if err == errWatchdog && d.alive() {
			r.Inconclusive(fmt.Sprintf("%s: worker did not answer stat within %v", s.ID, statWatchdog))
			d.stop()
			return
		}
		d.died(s, "while handling")
		return
	}
	delta := st.TotalAlloc - w.last.TotalAlloc
	prev := w.last
	w.last = st
	if timedOut {
		r.Count("reply_watchdog_hit", 1)
		r.Inconclusive(fmt.Sprintf("%s: node neither answered nor closed within %v after the client half-closed (%s)", s.ID, wd, frameSummary(s)))
	}
	if st.Active > 0 {
		r.Count("handlers_still_running_at_stat", 1)
	}
	big := uint64(s.bigFrames)
	if big == 0 {
		big = 1
	}
	bound := big * (uint64(maxMsg) + allocSlack)
	r.Count("alloc_measured", 1)
	if delta >= 16<<20 {
		r.Count("alloc_delta_over_16MiB", 1)
	}
	maxDeltaMu.Lock()
	if delta > maxDelta {
		maxDelta = delta
	}
	maxDeltaMu.Unlock()
	if delta > bound {
		r.Violation("C15/alloc/frame-over-max-message-size", s.ID,
			fmt.Sprintf("node allocated %d bytes while handling one connection (bound %d = MaxMessageSize + 16 MiB per large frame): %s; bytes=%s",
				delta, bound, frameSummary(s), hexCap(s.Bytes, 96)), witness{Stream: s, AllocDelta: delta, Stat: &st})
	}

	// Which requests were dispatched (the service's own counters) / answered.
	dispatched := false
	moved := ""
	for k, v := range st.Stats {
		if v > prev.Stats[k] {
			dispatched = true
			moved += fmt.Sprintf(" %s+%d", k, v-prev.Stats[k])
			r.Count("stat:"+k, v-prev.Stats[k])
		}
	}
	s.moved = moved

	// Liveness probe on a fresh connection.
	tp := time.Now()
	if ok, why := d.probe(); !ok {
		if !d.alive() || why == "refused" {
			d.died(s, "after (found by the liveness probe)")
			return
		}
		d.wedged(s, why)
		return
	}

	r.Count("us_probe", int64(time.Since(tp)/time.Microsecond))
	d.judgeReply(s, reply, dispatched)
}

var (
	maxDeltaMu sync.Mutex
	maxDelta   uint64
)

// probe: a valid small WriteShardRequest and a valid ListShards on a fresh connection must get well-formed replies.
func (d *driver) probe() (bool, string) {
	conn, err := net.DialTimeout("tcp", fmt.Sprintf("127.0.0.1:%d", d.w.port), probeWatchdog)
	if err != nil {
		if errors.Is(err, syscall.ECONNREFUSED) {
			return false, "refused"
		}
		return false, "dial: " + err.Error()
	}
	d.w.dials++
	defer conn.Close()
	conn.SetDeadline(time.Now().Add(probeWatchdog))
	pl := validPayload(tWriteShard, 9)
	msg := appendFrame([]byte{coordinator.MuxHeader}, tWriteShard, int64(len(pl)), pl)
	msg = append(msg, tListShards)
	if _, err := conn.Write(msg); err != nil {
		return false, "write: " + err.Error()
	}
	typ, buf, err := coordinator.ReadTLV(conn)
	if err != nil {
		return false, "no reply to the write probe: " + err.Error()
	}
	var wr coordinator.WriteShardResponse
	if typ != tWriteShard+1 || wr.UnmarshalBinary(buf) != nil {
		return false, fmt.Sprintf("malformed reply to the write probe: type %d %x", typ, buf)
	}
	if wr.Code() != 0 {
		r.Count("probe_write_answered_with_error", 1)
		if r.WantSample() && r.Counter("probe_write_answered_with_error") <= 2 {
			r.Sample(map[string]interface{}{"probe_write_error": wr.Message()})
		}
	}
	typ, buf, err = coordinator.ReadTLV(conn)
	if err != nil {
		return false, "no reply to the ListShards probe: " + err.Error()
	}
	var lr coordinator.ListShardsResponse
	if typ != tListShards+1 || lr.UnmarshalBinary(buf) != nil {
		return false, fmt.Sprintf("malformed reply to the ListShards probe: type %d %x", typ, buf)
	}
	r.Count("probes_ok", 1)
	// The probe's own requests are not part of the next stream's counter movement.
	if d.w.last.Stats != nil {
		m := make(map[string]int64, len(d.w.last.Stats))
		for k, v := range d.w.last.Stats {
			m[k] = v
		}
		d.w.last.Stats = m
		d.w.last.Stats["writeShardReq"]++
		d.w.last.Stats["writeShardPointsReq"]++
		d.w.last.Stats["listShardsReq"]++
		if wr.Code() != 0 {
			d.w.last.Stats["writeShardFail"]++
		}
	}
	return true, ""
}

var reHex = regexp.MustCompile(`\(0x[0-9a-f?, x{}.]*\)|\+0x[0-9a-f]+|, \d+ minutes`)

// handlerStacks extracts, normalised, the goroutines of a dump that run a connection handler (not its companion
// goroutine that waits for the service to close) and are not waiting for input; tops are the repository functions
// they are blocked in.
func handlerStacks(dump string) (stacks []string, tops []string) {
	seen := map[string]bool{}
	for _, g := range strings.Split(dump, "\n\n") {
		head := g
		if i := strings.IndexByte(g, '\n'); i > 0 {
			head = g[:i]
		}
		if strings.Contains(head, "[IO wait") || strings.Contains(head, "[running") || strings.Contains(head, "[runnable") || strings.Contains(head, "[syscall") {
			continue
		}
		body := reHex.ReplaceAllString(g[len(head):], "")
		isHandler, top := false, ""
		for _, l := range strings.Split(body, "\n") {
			if strings.HasPrefix(l, "\t") || l == "" {
				continue
			}
			l = strings.TrimSpace(l)
			if top == "" && strings.HasPrefix(l, "github.com/influxdata/influxdb/") {
				top = strings.TrimPrefix(l, "github.com/influxdata/influxdb/")
			}
			if l == "github.com/influxdata/influxdb/coordinator.(*Service).handleConn" {
				isHandler = true
			}
		}
		if !isHandler {
			continue
		}
		stacks = append(stacks, body)
		if !seen[top] {
			seen[top] = true
			tops = append(tops, top)
		}
	}
	sort.Strings(stacks)
	sort.Strings(tops)
	return stacks, tops
}

// wedged: the process lives but the probe got no well-formed answer. Two goroutine dumps apart showing the same
// handlers blocked on something other than their sockets are evidence of a wedge; anything else is inconclusive.
func (d *driver) wedged(s *stream, why string) {
	d1 := d.w.dump()
	time.Sleep(2 * time.Second)
	if !d.alive() { // it was dying while the probe ran
		d.died(s, "after (found by the liveness probe)")
		return
	}
	d2 := d.w.dump()
	h1, _ := handlerStacks(d1)
	h2, tops := handlerStacks(d2)
	if ok, _ := d.probe(); ok {
		r.Inconclusive(fmt.Sprintf("%s: liveness probe failed once (%s) and succeeded on retry", s.ID, why))
		return
	}
	if len(h1) > 0 && strings.Join(h1, "\n") == strings.Join(h2, "\n") {
		r.Count("wedged_nodes", 1)
		known := r.Violation("C15/unresponsive/blocked-in/"+strings.Join(tops, "+"), s.ID,
			fmt.Sprintf("node stopped answering well-formed requests (%s) after stream kind=%s %s; the same handler goroutines are blocked in %s in two dumps 2s apart; bytes=%s",
				why, s.Kind, frameSummary(s), strings.Join(tops, ", "), hexCap(s.Bytes, 96)), witness{Stream: s, Note: why, WorkerStack: strings.Join(h2, "\n\n")})
		if known {
			r.Nontrivial(s.key())
		}
	} else {
		r.Inconclusive(fmt.Sprintf("%s: liveness probe failed (%s) but the node process is alive and not provably blocked", s.ID, why))
	}
	d.stop()
}

// ---------------------------------------------------------------- reply oracle

func respErr(t int, payload []byte) (isErr bool, perr error) {
	switch t {
	case tWriteShard + 1:
		var x coordinator.WriteShardResponse
		perr = x.UnmarshalBinary(payload)
		return x.Code() != 0, perr
	case tExecuteStatement + 1:
		var x coordinator.ExecuteStatementResponse
		perr = x.UnmarshalBinary(payload)
		return x.Code() != 0, perr
	case tTaskManagerStatement + 1:
		var x coordinator.TaskManagerStatementResponse
		perr = x.UnmarshalBinary(payload)
		return x.Err != nil || x.Result.Err != nil, perr
	case tMeasurementNames + 1:
		var x coordinator.MeasurementNamesResponse
		perr = x.UnmarshalBinary(payload)
		return x.Err != nil, perr
	case tTagKeys + 1:
		var x coordinator.TagKeysResponse
		perr = x.UnmarshalBinary(payload)
		return x.Err != nil, perr
	case tTagValues + 1:
		var x coordinator.TagValuesResponse
		perr = x.UnmarshalBinary(payload)
		return x.Err != nil, perr
	case tSeriesSketches + 1:
		var x coordinator.SeriesSketchesResponse
		perr = x.UnmarshalBinary(payload)
		return x.Err != nil, perr
	case tMeasurementsSketches + 1:
		var x coordinator.MeasurementsSketchesResponse
		perr = x.UnmarshalBinary(payload)
		return x.Err != nil, perr
	case tStoreReadFilter + 1:
		var x coordinator.StoreReadFilterResponse
		perr = x.UnmarshalBinary(payload)
		return x.Err != nil, perr
	case tStoreReadGroup + 1:
		var x coordinator.StoreReadGroupResponse
		perr = x.UnmarshalBinary(payload)
		return x.Err != nil, perr
	case tCreateIterator + 1:
		var x coordinator.CreateIteratorResponse
		perr = x.UnmarshalBinary(payload)
		return x.Err != nil, perr
	case tIteratorCost + 1:
		var x coordinator.IteratorCostResponse
		perr = x.UnmarshalBinary(payload)
		return x.Err != nil, perr
	case tFieldDimensions + 1:
		var x coordinator.FieldDimensionsResponse
		perr = x.UnmarshalBinary(payload)
		return x.Err != nil, perr
	case tMapType + 1:
		var x coordinator.MapTypeResponse
		perr = x.UnmarshalBinary(payload)
		return x.Err != nil, perr
	case tExpandSources + 1:
		var x coordinator.ExpandSourcesResponse
		perr = x.UnmarshalBinary(payload)
		return x.Err != nil, perr
	case tCopyShard + 1:
		var x coordinator.CopyShardResponse
		perr = x.UnmarshalBinary(payload)
		return x.Err != nil, perr
	case tRemoveShard + 1:
		var x coordinator.RemoveShardResponse
		perr = x.UnmarshalBinary(payload)
		return x.Err != nil, perr
	case tListShards + 1:
		var x coordinator.ListShardsResponse
		perr = x.UnmarshalBinary(payload)
		return x.Err != nil, perr
	case tJoinCluster + 1:
		var x coordinator.JoinClusterResponse
		perr = x.UnmarshalBinary(payload)
		return x.Err != nil, perr
	case tLeaveCluster + 1:
		var x coordinator.LeaveClusterResponse
		perr = x.UnmarshalBinary(payload)
		return x.Err != nil, perr
	case tRemoveHintedHandoff + 1:
		var x coordinator.RemoveHintedHandoffResponse
		perr = x.UnmarshalBinary(payload)
		return x.Err != nil, perr
	}
	return false, fmt.Errorf("type %d is not a response type", t)
}

func firstByte(s *stream) int {
	if len(s.Bytes) == 0 {
		return -1
	}
	return int(s.Bytes[0])
}

func (d *driver) judgeReply(s *stream, reply []byte, dispatched bool) {
	hdr := int(coordinator.MuxHeader)
	if len(reply) > 0 {
		r.Count("streams_answered", 1)
	}
	// Anything that did not carry the coordinator's mux header must not have been handled by the coordinator.
	foreign := s.Header != hdr
	if s.Kind == "mux-http" {
		foreign = true
	}
	if s.Kind == "cut" && s.CutAt == 0 {
		foreign = false // nothing sent at all
	}
	if foreign {
		r.Count("foreign_header_streams", 1)
		if bytes.HasPrefix(reply, []byte("HTTP/")) {
			r.Count("foreign_header_answered_by_http", 1)
		}
		if dispatched || (len(reply) > 0 && !bytes.HasPrefix(reply, []byte("HTTP/"))) {
			r.Violation("C15/mux/foreign-header-reached-coordinator", s.ID,
				fmt.Sprintf("a connection whose first byte is %d (not the coordinator's mux header %d) was handled by the coordinator service: reply=%s counters-moved=[%s]; bytes=%s",
					firstByte(s), hdr, hexCap(reply, 32), s.moved, hexCap(s.Bytes, 64)), witness{Stream: s, Reply: hexCap(reply, 256)})
			return
		}
		r.Nontrivial(s.key())
		return
	}
	if dispatched || len(reply) > 0 {
		r.Nontrivial(s.key())
	}
	if s.Abrupt || s.strictType == 0 {
		return
	}
	t := s.strictType
	if t == tBackupShard { // raw tar stream or nothing
		return
	}
	if len(reply) == 0 {
		r.Count("closed_without_reply", 1)
		return // closing the connection is an allowed answer
	}
	frames, rest := parseReply(reply, 1)
	streaming := t == tStoreReadFilter || t == tStoreReadGroup || t == tCreateIterator
	if len(frames) == 0 && len(reply) < 9+64 && int(reply[0]) == t+1 {
		// The node started a response frame and closed before completing it: for the peer that is a closed
		// connection (its frame reader fails), which the property allows.
		r.Count("closed_mid_reply_frame", 1)
		return
	}
	if len(frames) == 0 || frames[0].Type != t+1 || (!streaming && len(rest) != 0) {
		// a mutated payload can legitimately be consumed as several requests only if its length field was honest: it was.
		r.Violation("C15/reply/malformed/"+typeName(t), s.ID,
			fmt.Sprintf("reply to one %s request is not one %sResponse frame: %s", typeName(t), typeName(t), hexCap(reply, 64)),
			witness{Stream: s, Reply: hexCap(reply, 1024)})
		return
	}
	isErr, perr := respErr(frames[0].Type, frames[0].Payload)
	if perr != nil {
		r.Violation("C15/reply/undecodable/"+typeName(t), s.ID,
			fmt.Sprintf("%sResponse payload does not decode: %v: %s", typeName(t), perr, hexCap(frames[0].Payload, 64)),
			witness{Stream: s, Reply: hexCap(reply, 1024)})
		return
	}
	r.Count("replies_decoded", 1)
	if isErr {
		r.Count("replies_with_error", 1)
	}
	if s.mustErr {
		r.Count("invalid_contents_judged", 1)
		if !isErr {
			r.Violation("C15/reply/invalid-request-accepted/"+typeName(t)+"/"+s.caseName, s.ID,
				fmt.Sprintf("%s request with invalid contents (%s) was answered with success instead of an error or a closed connection", typeName(t), s.caseName),
				witness{Stream: s, Reply: hexCap(reply, 1024)})
		}
	}
}
