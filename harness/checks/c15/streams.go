package main

// Hostile byte streams for the cluster listener: a hand-rolled protobuf
// writer (the generated message types live in Go-internal packages), a valid
// payload and a set of "valid envelope, invalid contents" payloads for every
// request type, and the enumeration / seeded generators of whole streams.

import (
	"encoding/binary"
	"fmt"
	"math"
	"math/rand"
	"time"

	"github.com/gogo/protobuf/types"
	"github.com/influxdata/influxdb/coordinator"
	"github.com/influxdata/influxdb/models"
	"github.com/influxdata/influxdb/query"
	"github.com/influxdata/influxdb/services/storage"
	"github.com/influxdata/influxdb/storage/reads/datatypes"
	"github.com/influxdata/influxql"
)

// Message type numbers of coordinator/service.go (unexported there; the wire
// values are part of the protocol). Requests are odd, the response to request
// T is T+1.
const (
	tWriteShard           = 1
	tExecuteStatement     = 3
	tTaskManagerStatement = 5
	tMeasurementNames     = 7
	tTagKeys              = 9
	tTagValues            = 11
	tSeriesSketches       = 13
	tMeasurementsSketches = 15
	tStoreReadFilter      = 17
	tStoreReadGroup       = 19
	tCreateIterator       = 21
	tIteratorCost         = 23
	tFieldDimensions      = 25
	tMapType              = 27
	tExpandSources        = 29
	tBackupShard          = 31
	tCopyShard            = 33
	tRemoveShard          = 35
	tListShards           = 37
	tJoinCluster          = 39
	tLeaveCluster         = 41
	tRemoveHintedHandoff  = 43
	tLast                 = 44 // removeHintedHandoffResponseMessage
)

var reqNames = map[int]string{
	1: "WriteShard", 3: "ExecuteStatement", 5: "TaskManagerStatement", 7: "MeasurementNames", 9: "TagKeys", 11: "TagValues",
	13: "SeriesSketches", 15: "MeasurementsSketches", 17: "StoreReadFilter", 19: "StoreReadGroup", 21: "CreateIterator",
	23: "IteratorCost", 25: "FieldDimensions", 27: "MapType", 29: "ExpandSources", 31: "BackupShard", 33: "CopyShard",
	35: "RemoveShard", 37: "ListShards", 39: "JoinCluster", 41: "LeaveCluster", 43: "RemoveHintedHandoff",
}

var requestTypes = []int{1, 3, 5, 7, 9, 11, 13, 15, 17, 19, 21, 23, 25, 27, 29, 31, 33, 35, 37, 39, 41, 43}

// After these requests the handler returns and the connection is closed.
var closesAfter = map[int]bool{17: true, 19: true, 21: true, 29: true, 31: true, 33: true, 35: true, 37: true, 39: true, 41: true, 43: true}

// These requests carry no length-value at all.
var noPayload = map[int]bool{37: true, 41: true}

func typeName(t int) string {
	if n, ok := reqNames[t]; ok {
		return n
	}
	if t >= 2 && t <= tLast && t%2 == 0 {
		return reqNames[t-1] + "Response"
	}
	return fmt.Sprintf("unknown%d", t)
}

// ---------------------------------------------------------------- protobuf writer

type pb []byte

func (b *pb) uvarint(v uint64) {
	for v >= 0x80 {
		*b = append(*b, byte(v)|0x80)
		v >>= 7
	}
	*b = append(*b, byte(v))
}
func (b *pb) Varint(field int, v uint64) *pb { b.uvarint(uint64(field)<<3 | 0); b.uvarint(v); return b }
func (b *pb) Bool(field int, v bool) *pb {
	if v {
		return b.Varint(field, 1)
	}
	return b.Varint(field, 0)
}
func (b *pb) Bytes(field int, p []byte) *pb {
	b.uvarint(uint64(field)<<3 | 2)
	b.uvarint(uint64(len(p)))
	*b = append(*b, p...)
	return b
}
func (b *pb) String(field int, s string) *pb { return b.Bytes(field, []byte(s)) }
func (b *pb) Double(field int, f float64) *pb {
	b.uvarint(uint64(field)<<3 | 1)
	var x [8]byte
	binary.LittleEndian.PutUint64(x[:], math.Float64bits(f))
	*b = append(*b, x[:]...)
	return b
}

// overlong varint: never a valid protobuf message.
var badProto = []byte{0xff, 0xff, 0xff, 0xff, 0xff, 0xff, 0xff, 0xff, 0xff, 0xff, 0xff, 0x01}

// pbMeasurement / pbOpt build query/internal messages by hand so that contents
// the exported Go types cannot hold (bad regex, unparsable expression) can be
// put on the wire.
func pbMeasurement(db, rp, name, regex, sysItr string, hasRegex bool) []byte {
	var b pb
	b.String(1, db).String(2, rp).String(3, name)
	if hasRegex {
		b.String(4, regex)
	}
	b.Bool(5, false).String(6, sysItr)
	return b
}

type optSpec struct {
	expr, cond, location          *string
	aux                           []string
	auxTypes                      []int
	dims, groupBy                 []string
	start, end                    int64
	interval, offset              int64
	limit, off, slimit, soff, max int64
	fill                          int
	asc, ordered, dedupe, strip   bool
}

func sp(s string) *string { return &s }

func pbOpt(o optSpec) []byte {
	var b pb
	if o.expr != nil {
		b.String(1, *o.expr)
	}
	for i, a := range o.aux {
		b.String(2, a)
		var v pb
		v.String(1, a)
		t := 0
		if i < len(o.auxTypes) {
			t = o.auxTypes[i]
		}
		v.Varint(2, uint64(t))
		b.Bytes(17, v)
	}
	var iv pb
	iv.Varint(1, uint64(o.interval)).Varint(2, uint64(o.offset))
	b.Bytes(4, iv)
	for _, d := range o.dims {
		b.String(5, d)
	}
	for _, d := range o.groupBy {
		b.String(19, d)
	}
	b.Varint(6, uint64(o.fill))
	if o.cond != nil {
		b.String(8, *o.cond)
	}
	b.Varint(9, uint64(o.start)).Varint(10, uint64(o.end))
	if o.location != nil {
		b.String(21, *o.location)
	}
	b.Bool(11, o.asc).Varint(12, uint64(o.limit)).Varint(13, uint64(o.off)).Varint(14, uint64(o.slimit)).Varint(15, uint64(o.soff))
	b.Bool(22, o.strip).Bool(16, o.dedupe).Varint(18, uint64(o.max)).Bool(20, o.ordered)
	return b
}

func shardIDs(b *pb, ids ...uint64) *pb {
	for _, id := range ids {
		b.Varint(1, id)
	}
	return b
}

func pbIteratorReq(ids []uint64, measurement, opt, span []byte) []byte {
	var b pb
	shardIDs(&b, ids...)
	b.Bytes(2, measurement).Bytes(3, opt)
	if span != nil {
		b.Bytes(4, span)
	}
	return b
}

// rawPoint is the binary point layout of models.(*point).MarshalBinary.
func rawPoint(key, fields string, ts int64) []byte {
	tb, _ := time.Unix(0, ts).UTC().MarshalBinary()
	b := make([]byte, 0, 8+len(key)+len(fields)+len(tb))
	var l [4]byte
	binary.BigEndian.PutUint32(l[:], uint32(len(key)))
	b = append(b, l[:]...)
	b = append(b, key...)
	binary.BigEndian.PutUint32(l[:], uint32(len(fields)))
	b = append(b, l[:]...)
	b = append(b, fields...)
	return append(b, tb...)
}

func pbWriteShard(shard uint64, db, rp string, points ...[]byte) []byte {
	var b pb
	b.Varint(1, shard)
	for _, p := range points {
		b.Bytes(2, p)
	}
	if db != "" {
		b.String(3, db)
	}
	if rp != "" {
		b.String(4, rp)
	}
	return b
}

func mustBin(v interface{ MarshalBinary() ([]byte, error) }) []byte {
	b, err := v.MarshalBinary()
	if err != nil {
		panic("harness: cannot marshal a request it built itself: " + err.Error())
	}
	return b
}

func mustExpr(s string) influxql.Expr {
	e, err := influxql.ParseExpr(s)
	if err != nil {
		panic("harness: bad expression " + s + ": " + err.Error())
	}
	return e
}

func readSource(db, rp string) *types.Any {
	a, err := types.MarshalAny(&storage.ReadSource{Database: db, RetentionPolicy: rp})
	if err != nil {
		panic("harness: " + err.Error())
	}
	return a
}

func validOpt() query.IteratorOptions {
	return query.IteratorOptions{
		Expr:       &influxql.VarRef{Val: "value", Type: influxql.Float},
		Aux:        []influxql.VarRef{{Val: "n", Type: influxql.Integer}, {Val: "s", Type: influxql.String}, {Val: "b", Type: influxql.Boolean}, {Val: "host", Type: influxql.Tag}},
		Dimensions: []string{"host"},
		GroupBy:    map[string]struct{}{"host": {}},
		StartTime:  influxql.MinTime,
		EndTime:    influxql.MaxTime,
		Ascending:  true,
		Ordered:    true,
	}
}

func cpuMeasurement() influxql.Measurement {
	return influxql.Measurement{Database: wDB, RetentionPolicy: wRP, Name: "cpu"}
}

// validPayload returns a well-formed request payload of the given type, built
// with the repository's own request types. variant selects among a few
// different well-formed requests.
func validPayload(t int, variant int) []byte {
	switch t {
	case tWriteShard:
		var req coordinator.WriteShardRequest
		req.SetShardID(wShard)
		req.SetDatabase(wDB)
		req.SetRetentionPolicy(wRP)
		p, _ := models.NewPoint("probe", models.NewTags(map[string]string{"host": "p"}), models.Fields{"v": float64(variant)}, time.Unix(0, 1000+int64(variant)))
		req.AddPoints([]models.Point{p})
		return mustBin(&req)
	case tExecuteStatement:
		var req coordinator.ExecuteStatementRequest
		req.SetStatement([]string{`DROP SERIES FROM "nosuch"`, `DELETE FROM "nosuch" WHERE time < 0`, `DROP MEASUREMENT "nosuch"`, `DROP SHARD 4242`}[variant%4])
		req.SetDatabase(wDB)
		return mustBin(&req)
	case tTaskManagerStatement:
		return mustBin(&coordinator.TaskManagerStatementRequest{Statement: []string{"SHOW QUERIES", "KILL QUERY 4242"}[variant%2]})
	case tMeasurementNames:
		r := &coordinator.MeasurementNamesRequest{Database: wDB, RetentionPolicy: wRP}
		if variant%2 == 1 {
			r.Condition = mustExpr(`_name = 'cpu'`)
		}
		return mustBin(r)
	case tTagKeys:
		r := &coordinator.TagKeysRequest{ShardIDs: []uint64{wShard}}
		if variant%2 == 1 {
			r.Condition = mustExpr(`_name = 'cpu' AND host = 'a'`)
		}
		return mustBin(r)
	case tTagValues:
		return mustBin(&coordinator.TagValuesRequest{ShardIDs: []uint64{wShard}, Condition: mustExpr(`_tagKey = 'host'`)})
	case tSeriesSketches:
		return mustBin(&coordinator.SeriesSketchesRequest{Database: wDB})
	case tMeasurementsSketches:
		return mustBin(&coordinator.MeasurementsSketchesRequest{Database: wDB})
	case tStoreReadFilter:
		return mustBin(&coordinator.StoreReadFilterRequest{ShardIDs: []uint64{wShard}, Request: datatypes.ReadFilterRequest{
			ReadSource: readSource(wDB, wRP), Range: datatypes.TimestampRange{Start: 0, End: math.MaxInt64}}})
	case tStoreReadGroup:
		return mustBin(&coordinator.StoreReadGroupRequest{ShardIDs: []uint64{wShard}, Request: datatypes.ReadGroupRequest{
			ReadSource: readSource(wDB, wRP), Range: datatypes.TimestampRange{Start: 0, End: math.MaxInt64},
			Group: datatypes.GroupBy, GroupKeys: []string{"host"}}})
	case tCreateIterator:
		opt := validOpt()
		switch variant % 4 {
		case 1:
			opt.Expr = &influxql.VarRef{Val: "n", Type: influxql.Integer}
		case 2:
			opt.Expr = &influxql.VarRef{Val: "s", Type: influxql.String}
		case 3:
			opt.Expr = &influxql.VarRef{Val: "b", Type: influxql.Boolean}
		}
		return mustBin(&coordinator.CreateIteratorRequest{ShardIDs: []uint64{wShard}, Measurement: cpuMeasurement(), Opt: opt})
	case tIteratorCost:
		return mustBin(&coordinator.IteratorCostRequest{ShardIDs: []uint64{wShard}, Measurement: cpuMeasurement(), Opt: validOpt()})
	case tFieldDimensions:
		return mustBin(&coordinator.FieldDimensionsRequest{ShardIDs: []uint64{wShard}, Measurement: cpuMeasurement()})
	case tMapType:
		return mustBin(&coordinator.MapTypeRequest{ShardIDs: []uint64{wShard}, Measurement: cpuMeasurement(), Field: []string{"value", "host", "nosuch"}[variant%3]})
	case tExpandSources:
		return pbExpandSources([]uint64{wShard}, pbMeasurement(wDB, wRP, "", "c.*", "", true))
	case tBackupShard:
		return mustBin(&coordinator.BackupShardRequest{ShardID: wShard, Since: time.Unix(0, 0)})
	case tCopyShard:
		return mustBin(&coordinator.CopyShardRequest{Host: "127.0.0.1:1", Database: wDB, Policy: wRP, ShardID: wShard, Since: time.Unix(0, 0)})
	case tRemoveShard:
		return mustBin(&coordinator.RemoveShardRequest{ShardID: []uint64{4242, wShard}[variant%2]})
	case tJoinCluster:
		return mustBin(&coordinator.JoinClusterRequest{MetaServers: []string{"127.0.0.1:8091"}, Update: variant%2 == 1})
	case tRemoveHintedHandoff:
		return mustBin(&coordinator.RemoveHintedHandoffRequest{NodeID: 2})
	case tListShards, tLeaveCluster:
		return nil
	}
	// Response / unknown type numbers: any plausible message body.
	return validPayload(tWriteShard, variant)
}

func pbExpandSources(ids []uint64, items ...[]byte) []byte {
	var ms pb
	for _, it := range items {
		ms.Bytes(1, it)
	}
	var b pb
	shardIDs(&b, ids...)
	b.Bytes(2, ms)
	return b
}

// invalidCase is a valid protobuf envelope of the request type whose contents
// are invalid. mustErr: the contents are unparsable beyond doubt, so a reply
// that reports success is itself a violation (the property allows an error
// reply or a closed connection only).
type invalidCase struct {
	name    string
	payload []byte
	mustErr bool
}

func invalidCases(t int) []invalidCase {
	okM := pbMeasurement(wDB, wRP, "cpu", "", "", false)
	okO := mustBin(func() *query.IteratorOptions { o := validOpt(); return &o }())
	ids := []uint64{wShard}
	switch t {
	case tWriteShard:
		good := rawPoint("cpu,host=a", "value=1", 7000)
		return []invalidCase{
			{"point-garbage", pbWriteShard(wShard, wDB, wRP, []byte("\x00\x01garbage")), true},
			{"point-empty", pbWriteShard(wShard, wDB, wRP, []byte{}), true},
			{"point-short-key", pbWriteShard(wShard, wDB, wRP, []byte{0, 0, 0, 200, 'c', 'p', 'u'}), true},
			{"point-bad-field-number", pbWriteShard(wShard, wDB, wRP, rawPoint("cpu,host=a", "value=1.2.3", 7000)), true},
			{"point-bad-time", pbWriteShard(wShard, wDB, wRP, append(rawPoint("cpu", "value=1", 7000)[:4+3+4+7], 9, 9, 9)), true},
			{"point-good-then-garbage", pbWriteShard(wShard, wDB, wRP, good, []byte("zz")), true},
			{"point-garbage-then-good", pbWriteShard(wShard, wDB, wRP, []byte("zz"), good), true},
			{"point-good-garbage-good", pbWriteShard(wShard, wDB, wRP, good, []byte("\x00\x01garbage"), rawPoint("cpu,host=b", "value=2", 7001)), true},
			{"point-empty-then-good", pbWriteShard(wShard, wDB, wRP, []byte{}, good), true},
			{"point-no-fields", pbWriteShard(wShard, wDB, wRP, rawPoint("cpu,host=a", "", 7000)), false},
			{"point-lone-quote-string", pbWriteShard(wShard, wDB, wRP, rawPoint("cpu,host=a", `s="`, 7000)), false},
			{"point-empty-key", pbWriteShard(wShard, wDB, wRP, rawPoint("", "value=1", 7000)), false},
			{"point-type-conflict", pbWriteShard(wShard, wDB, wRP, rawPoint("cpu,host=a", `value="str"`, 7000)), false},
			{"shard-zero-no-db", pbWriteShard(0, "", "", good), false},
			{"shard-unknown-no-db", pbWriteShard(4242, "", "", good), false},
			{"shard-unknown-with-db", pbWriteShard(4243, wDB, wRP, good), false},
			{"no-points", pbWriteShard(wShard, wDB, wRP), false},
			{"missing-shard-id", func() []byte { var b pb; b.Bytes(2, good); return b }(), false},
		}
	case tExecuteStatement:
		mk := func(stmt, db string) []byte { var b pb; b.String(1, stmt).String(2, db); return b }
		return []invalidCase{
			{"stmt-unparsable", mk("SELEC garbage FROM", wDB), true},
			{"stmt-empty", mk("", wDB), true},
			{"stmt-truncated", mk("DROP SERIES FROM", wDB), true},
			{"stmt-not-allowed", mk("SELECT * FROM cpu", wDB), true},
			{"stmt-bad-regex", mk("DROP SERIES FROM /[/", wDB), true},
			{"stmt-drop-unknown-db", mk(`DROP DATABASE "nosuch"`, ""), false},
			{"stmt-delete-no-db", mk(`DROP SERIES FROM cpu WHERE host = 'zz'`, ""), false},
			{"stmt-drop-rp-unknown", mk(`DROP RETENTION POLICY "nosuch" ON "db0"`, wDB), false},
			{"stmt-drop-shard-zero", mk(`DROP SHARD 0`, wDB), false},
			{"stmt-delete-field-cond", mk(`DELETE FROM cpu WHERE value > 1`, wDB), false},
		}
	case tTaskManagerStatement:
		mk := func(stmt string) []byte { var b pb; b.String(1, stmt); return b }
		return []invalidCase{
			{"stmt-unparsable", mk("SHOW QUERIE"), true},
			{"stmt-empty", mk(""), true},
			{"stmt-not-task", mk("SELECT * FROM cpu"), true},
			{"kill-unknown", mk("KILL QUERY 0"), true},
			{"kill-on-host", mk(`KILL QUERY 3 ON "127.0.0.1:8088"`), false},
		}
	case tMeasurementNames:
		mk := func(db, rp, cond string) []byte { var b pb; b.String(1, db).String(2, rp).String(3, cond); return b }
		return []invalidCase{
			{"cond-unparsable", mk(wDB, wRP, "a = "), true},
			{"cond-parens", mk(wDB, wRP, "((("), true},
			{"cond-bad-regex", mk(wDB, wRP, "_name =~ /[/"), true},
			{"db-unknown", mk("nosuch", "", ""), false},
			{"db-empty", mk("", "", "_name = 'x'"), false},
			{"cond-odd-types", mk(wDB, wRP, "1 + 'a' = true"), false},
			{"cond-call", mk(wDB, wRP, "count(x) > 1"), false},
		}
	case tTagKeys, tTagValues:
		mk := func(cond string, ids ...uint64) []byte { var b pb; shardIDs(&b, ids...); b.String(2, cond); return b }
		return []invalidCase{
			{"cond-unparsable", mk("host = ", wShard), true},
			{"cond-bad-regex", mk("host =~ /(/", wShard), true},
			{"shard-zero", mk("_tagKey = 'host'", 0), false},
			{"shard-unknown", mk("_tagKey = 'host'", 4242, 1<<63), false},
			{"no-shards", mk("_tagKey = 'host'"), false},
			{"no-cond", mk("", wShard), false},
			{"cond-odd", mk("_tagKey = 1 OR 'a' + 2", wShard), false},
			{"cond-field", mk("value > 1", wShard), false},
			{"cond-time", mk("time > now() - 1h AND _tagKey =~ /h.*/", wShard), false},
		}
	case tSeriesSketches, tMeasurementsSketches:
		mk := func(db string) []byte { var b pb; b.String(1, db); return b }
		return []invalidCase{{"db-unknown", mk("nosuch"), false}, {"db-empty", mk(""), false}, {"db-path", mk("../../etc"), false}}
	case tStoreReadFilter, tStoreReadGroup:
		mk := func(req []byte, ids ...uint64) []byte { var b pb; shardIDs(&b, ids...); b.Bytes(2, req); return b }
		rf := func(f func(*datatypes.ReadFilterRequest)) []byte {
			r := datatypes.ReadFilterRequest{ReadSource: readSource(wDB, wRP), Range: datatypes.TimestampRange{Start: 0, End: math.MaxInt64}}
			f(&r)
			b, err := r.Marshal()
			if err != nil {
				panic("harness: " + err.Error())
			}
			return b
		}
		cmp := func(children ...*datatypes.Node) *datatypes.Predicate {
			return &datatypes.Predicate{Root: &datatypes.Node{NodeType: datatypes.NodeTypeComparisonExpression,
				Value: &datatypes.Node_Comparison_{Comparison: datatypes.ComparisonEqual}, Children: children}}
		}
		tagRef := &datatypes.Node{NodeType: datatypes.NodeTypeTagRef, Value: &datatypes.Node_TagRefValue{TagRefValue: "host"}}
		strLit := &datatypes.Node{NodeType: datatypes.NodeTypeLiteral, Value: &datatypes.Node_StringValue{StringValue: "a"}}
		return []invalidCase{
			{"request-garbage", mk(badProto, wShard), true},
			{"request-empty", mk(nil, wShard), true},
			{"no-read-source", mk(rf(func(r *datatypes.ReadFilterRequest) { r.ReadSource = nil }), wShard), true},
			{"read-source-wrong-type", mk(rf(func(r *datatypes.ReadFilterRequest) {
				r.ReadSource = &types.Any{TypeUrl: "type.googleapis.com/nosuch.Type", Value: []byte{1, 2, 3}}
			}), wShard), true},
			{"read-source-bad-value", mk(rf(func(r *datatypes.ReadFilterRequest) { r.ReadSource.Value = badProto }), wShard), true},
			{"db-unknown", mk(rf(func(r *datatypes.ReadFilterRequest) { r.ReadSource = readSource("nosuch", "") }), wShard), true},
			{"range-inverted", mk(rf(func(r *datatypes.ReadFilterRequest) {
				r.Range = datatypes.TimestampRange{Start: math.MaxInt64, End: math.MinInt64}
			}), wShard), false},
			{"shard-zero", mk(rf(func(r *datatypes.ReadFilterRequest) {}), 0), false},
			{"shard-unknown", mk(rf(func(r *datatypes.ReadFilterRequest) {}), 4242), false},
			{"no-shards", mk(rf(func(r *datatypes.ReadFilterRequest) {})), false},
			{"predicate-ok", mk(rf(func(r *datatypes.ReadFilterRequest) { r.Predicate = cmp(tagRef, strLit) }), wShard), false},
			{"predicate-no-children", mk(rf(func(r *datatypes.ReadFilterRequest) { r.Predicate = cmp() }), wShard), false},
			{"predicate-one-child", mk(rf(func(r *datatypes.ReadFilterRequest) { r.Predicate = cmp(tagRef) }), wShard), false},
			{"predicate-nil-value", mk(rf(func(r *datatypes.ReadFilterRequest) {
				r.Predicate = &datatypes.Predicate{Root: &datatypes.Node{NodeType: datatypes.NodeTypeLiteral}}
			}), wShard), false},
			{"predicate-bad-regex", mk(rf(func(r *datatypes.ReadFilterRequest) {
				p := cmp(tagRef, &datatypes.Node{NodeType: datatypes.NodeTypeLiteral, Value: &datatypes.Node_RegexValue{RegexValue: "["}})
				p.Root.Value = &datatypes.Node_Comparison_{Comparison: datatypes.ComparisonRegex}
				r.Predicate = p
			}), wShard), false},
			{"predicate-logical-empty", mk(rf(func(r *datatypes.ReadFilterRequest) {
				r.Predicate = &datatypes.Predicate{Root: &datatypes.Node{NodeType: datatypes.NodeTypeLogicalExpression, Value: &datatypes.Node_Logical_{Logical: datatypes.LogicalAnd}}}
			}), wShard), false},
			{"predicate-unknown-node-type", mk(rf(func(r *datatypes.ReadFilterRequest) {
				r.Predicate = &datatypes.Predicate{Root: &datatypes.Node{NodeType: 99}}
			}), wShard), false},
			// fields 4.. exist in ReadGroupRequest only (unknown fields for ReadFilter)
			{"group-all", mk(append(rf(func(r *datatypes.ReadFilterRequest) {}), 0x28, 1), wShard), false},
			{"group-except", mk(append(rf(func(r *datatypes.ReadFilterRequest) {}), 0x22, 4, 'h', 'o', 's', 't', 0x28, 3), wShard), false},
			{"group-unknown", mk(append(rf(func(r *datatypes.ReadFilterRequest) {}), 0x28, 13), wShard), false},
			{"group-by-no-keys", mk(append(rf(func(r *datatypes.ReadFilterRequest) {}), 0x28, 2), wShard), false},
			{"group-none-with-keys", mk(append(rf(func(r *datatypes.ReadFilterRequest) {}), 0x22, 4, 'h', 'o', 's', 't', 0x28, 0), wShard), false},
			{"aggregate-sum", mk(append(rf(func(r *datatypes.ReadFilterRequest) {}), 0x22, 4, 'h', 'o', 's', 't', 0x28, 2, 0x32, 2, 0x08, 1), wShard), false},
			{"aggregate-unknown", mk(append(rf(func(r *datatypes.ReadFilterRequest) {}), 0x22, 4, 'h', 'o', 's', 't', 0x28, 2, 0x32, 2, 0x08, 77), wShard), false},
			{"hints-all", mk(append(rf(func(r *datatypes.ReadFilterRequest) {}), 0x22, 4, 'h', 'o', 's', 't', 0x28, 2, 0x3d, 0xff, 0xff, 0xff, 0xff), wShard), false},
		}
	case tCreateIterator, tIteratorCost:
		o := func(f func(*optSpec)) []byte {
			s := optSpec{expr: sp("value"), start: influxql.MinTime, end: influxql.MaxTime, asc: true, ordered: true}
			f(&s)
			return pbOpt(s)
		}
		cs := []invalidCase{
			{"measurement-garbage", pbIteratorReq(ids, badProto, okO, nil), true},
			{"measurement-bad-regex", pbIteratorReq(ids, pbMeasurement(wDB, wRP, "", "[", "", true), okO, nil), true},
			{"opt-garbage", pbIteratorReq(ids, okM, badProto, nil), true},
			{"opt-expr-unparsable", pbIteratorReq(ids, okM, o(func(s *optSpec) { s.expr = sp("mean(") }), nil), true},
			{"opt-expr-empty", pbIteratorReq(ids, okM, o(func(s *optSpec) { s.expr = sp("") }), nil), true},
			{"opt-cond-unparsable", pbIteratorReq(ids, okM, o(func(s *optSpec) { s.cond = sp("host = ") }), nil), true},
			{"opt-cond-bad-regex", pbIteratorReq(ids, okM, o(func(s *optSpec) { s.cond = sp("host =~ /[/") }), nil), true},
			{"opt-location-unknown", pbIteratorReq(ids, okM, o(func(s *optSpec) { s.location = sp("Nowhere/Land") }), nil), true},
			{"span-garbage", pbIteratorReq(ids, okM, okO, badProto), true},
			{"opt-missing", func() []byte { var b pb; shardIDs(&b, ids...); b.Bytes(2, okM); return b }(), false},
			{"measurement-missing", func() []byte { var b pb; shardIDs(&b, ids...); b.Bytes(3, okO); return b }(), false},
			{"opt-no-expr", pbIteratorReq(ids, okM, o(func(s *optSpec) { s.expr = nil; s.aux = []string{"value", "host"}; s.auxTypes = []int{1, 7} }), nil), false},
			{"opt-call-no-args", pbIteratorReq(ids, okM, o(func(s *optSpec) { s.expr = sp("count()") }), nil), false},
			{"opt-call-unknown", pbIteratorReq(ids, okM, o(func(s *optSpec) { s.expr = sp("frobnicate(value)") }), nil), false},
			{"opt-call-literal-arg", pbIteratorReq(ids, okM, o(func(s *optSpec) { s.expr = sp("mean(1)") }), nil), false},
			{"opt-call-two-args", pbIteratorReq(ids, okM, o(func(s *optSpec) { s.expr = sp("percentile(value)") }), nil), false},
			{"opt-call-nested", pbIteratorReq(ids, okM, o(func(s *optSpec) { s.expr = sp("mean(max(value))") }), nil), false},
			{"opt-call-top-bad", pbIteratorReq(ids, okM, o(func(s *optSpec) { s.expr = sp("top(value)") }), nil), false},
			{"opt-call-distinct", pbIteratorReq(ids, okM, o(func(s *optSpec) { s.expr = sp("count(distinct(value))") }), nil), false},
			{"opt-call-mean-interval", pbIteratorReq(ids, okM, o(func(s *optSpec) { s.expr = sp("mean(value)"); s.interval = 1e9; s.dims = []string{"host"} }), nil), false},
			{"opt-call-string-field", pbIteratorReq(ids, okM, o(func(s *optSpec) { s.expr = sp("mean(s)") }), nil), false},
			{"opt-binary-expr", pbIteratorReq(ids, okM, o(func(s *optSpec) { s.expr = sp("value + n") }), nil), false},
			{"opt-literal-expr", pbIteratorReq(ids, okM, o(func(s *optSpec) { s.expr = sp("1") }), nil), false},
			{"opt-wildcard", pbIteratorReq(ids, okM, o(func(s *optSpec) { s.expr = sp("*") }), nil), false},
			{"opt-regex-expr", pbIteratorReq(ids, okM, o(func(s *optSpec) { s.expr = sp("/val.*/") }), nil), false},
			{"opt-typed-ref-mismatch", pbIteratorReq(ids, okM, o(func(s *optSpec) { s.expr = sp("value::integer") }), nil), false},
			{"opt-tag-ref", pbIteratorReq(ids, okM, o(func(s *optSpec) { s.expr = sp("host::tag") }), nil), false},
			{"opt-interval-negative", pbIteratorReq(ids, okM, o(func(s *optSpec) { s.expr = sp("mean(value)"); s.interval = -1e9; s.offset = math.MinInt64 }), nil), false},
			{"opt-limits-negative", pbIteratorReq(ids, okM, o(func(s *optSpec) { s.limit, s.off, s.slimit, s.soff, s.max = -1, -5, math.MinInt64, -1, -1 }), nil), false},
			{"opt-time-inverted", pbIteratorReq(ids, okM, o(func(s *optSpec) { s.start, s.end = math.MaxInt64, math.MinInt64 }), nil), false},
			{"opt-fill-unknown", pbIteratorReq(ids, okM, o(func(s *optSpec) { s.fill = 99 }), nil), false},
			{"opt-cond-odd", pbIteratorReq(ids, okM, o(func(s *optSpec) { s.cond = sp("value > 'a' AND host = 1 OR time") }), nil), false},
			{"opt-cond-call", pbIteratorReq(ids, okM, o(func(s *optSpec) { s.cond = sp("now() > value") }), nil), false},
			{"opt-aux-unknown-type", pbIteratorReq(ids, okM, o(func(s *optSpec) { s.aux = []string{"value", "nosuch", ""}; s.auxTypes = []int{99, -1, 0} }), nil), false},
			{"opt-descending-dedupe", pbIteratorReq(ids, okM, o(func(s *optSpec) { s.asc = false; s.dedupe = true; s.strip = true }), nil), false},
			{"sys-iterator", pbIteratorReq(ids, pbMeasurement(wDB, wRP, "cpu", "", "_series", false), okO, nil), false},
			{"sys-iterator-fieldkeys", pbIteratorReq(ids, pbMeasurement(wDB, wRP, "cpu", "", "_fieldKeys", false), o(func(s *optSpec) { s.expr = nil }), nil), false},
			{"sys-iterator-unknown", pbIteratorReq(ids, pbMeasurement(wDB, wRP, "cpu", "", "_bogus", false), okO, nil), false},
			{"measurement-regex", pbIteratorReq(ids, pbMeasurement(wDB, wRP, "", ".*", "", true), okO, nil), false},
			{"measurement-regex-none", pbIteratorReq(ids, pbMeasurement(wDB, wRP, "", "^zzz$", "", true), okO, nil), false},
			{"measurement-unknown", pbIteratorReq(ids, pbMeasurement(wDB, wRP, "nosuch", "", "", false), okO, nil), false},
			{"shard-zero", pbIteratorReq([]uint64{0}, okM, okO, nil), false},
			{"shard-unknown", pbIteratorReq([]uint64{4242, math.MaxUint64}, okM, okO, nil), false},
			{"no-shards", pbIteratorReq(nil, okM, okO, nil), false},
			{"span-context", pbIteratorReq(ids, okM, okO, func() []byte { var b pb; b.Varint(1, 77).Varint(2, 78); return b }()), false},
		}
		if t == tIteratorCost {
			for i := range cs { // IteratorCostRequest has no SpanContext field
				if cs[i].name == "span-garbage" {
					cs[i].mustErr = false
				}
			}
		}
		return cs
	case tFieldDimensions, tMapType:
		mk := func(m []byte, field string, ids ...uint64) []byte {
			var b pb
			shardIDs(&b, ids...)
			b.Bytes(2, m)
			if t == tMapType {
				b.String(3, field)
			}
			return b
		}
		return []invalidCase{
			{"measurement-garbage", mk(badProto, "value", wShard), true},
			{"measurement-bad-regex", mk(pbMeasurement(wDB, wRP, "", "(", "", true), "value", wShard), true},
			{"measurement-regex", mk(pbMeasurement(wDB, wRP, "", "c|m", "", true), "value", wShard), false},
			{"measurement-unknown", mk(pbMeasurement("x", "y", "nosuch", "", "", false), "value", wShard), false},
			{"measurement-empty", mk(nil, "", wShard), false},
			{"sys-series", mk(pbMeasurement(wDB, wRP, "cpu", "", "_series", false), "key", wShard), false},
			{"sys-fieldkeys", mk(pbMeasurement(wDB, wRP, "cpu", "", "_fieldKeys", false), "fieldKey", wShard), false},
			{"sys-unknown", mk(pbMeasurement(wDB, wRP, "cpu", "", "_bogus", false), "x", wShard), false},
			{"shard-zero", mk(okM, "value", 0), false},
			{"shard-unknown", mk(okM, "value", 4242), false},
			{"no-shards", mk(okM, "value"), false},
		}
	case tExpandSources:
		return []invalidCase{
			{"sources-garbage", func() []byte { var b pb; shardIDs(&b, wShard); b.Bytes(2, badProto); return b }(), true},
			{"source-bad-regex", pbExpandSources(ids, pbMeasurement(wDB, wRP, "", "[a-", "", true)), true},
			{"source-item-garbage", pbExpandSources(ids, badProto), true},
			{"no-sources", pbExpandSources(ids), false},
			{"source-plain", pbExpandSources(ids, okM), false},
			{"source-empty-item", pbExpandSources(ids, nil), false},
			{"shard-zero", pbExpandSources([]uint64{0}, okM), false},
			{"shard-unknown", pbExpandSources([]uint64{4242}, pbMeasurement(wDB, wRP, "", ".*", "", true)), false},
		}
	case tBackupShard:
		mk := func(id uint64, since int64) []byte { var b pb; b.Varint(1, id).Varint(2, uint64(since)); return b }
		return []invalidCase{{"shard-zero", mk(0, 0), false}, {"shard-unknown", mk(4242, 0), false},
			{"since-future", mk(wShard, math.MaxInt64), false}, {"since-min", mk(wShard, math.MinInt64), false}}
	case tCopyShard:
		mk := func(host, db, rp string, id uint64) []byte {
			var b pb
			b.String(1, host).String(2, db).String(3, rp).Varint(4, id).Varint(5, 0)
			return b
		}
		return []invalidCase{
			{"host-empty", mk("", wDB, wRP, wShard), true},
			{"host-garbage", mk("not a host", wDB, wRP, wShard), true},
			{"host-refused", mk("127.0.0.1:1", "", "", 0), true},
			{"host-bad-port", mk("127.0.0.1:99999", wDB, wRP, wShard), true},
		}
	case tRemoveShard:
		mk := func(id uint64) []byte { var b pb; b.Varint(1, id); return b }
		return []invalidCase{{"shard-zero", mk(0), false}, {"shard-max", mk(math.MaxUint64), false}, {"shard-missing-field", nil, false}}
	case tJoinCluster:
		mk := func(update bool, servers ...string) []byte {
			var b pb
			for _, s := range servers {
				b.String(1, s)
			}
			b.Bool(2, update)
			return b
		}
		return []invalidCase{{"no-meta-servers", mk(false), true}, {"update", mk(true, "127.0.0.1:8091"), false},
			{"other-cluster", mk(false, "10.9.9.9:8091"), false}, {"empty-server", mk(false, ""), false}}
	case tRemoveHintedHandoff:
		mk := func(id uint64) []byte { var b pb; b.Varint(1, id); return b }
		return []invalidCase{{"node-zero", mk(0), true}, {"node-max", mk(math.MaxUint64), false}}
	}
	return nil
}

// ---------------------------------------------------------------- frames and streams

const maxMsg = int64(coordinator.MaxMessageSize)

type frame struct {
	Type     int    `json:"type"`
	TypeName string `json:"type_name"`
	Declared int64  `json:"declared_length"`
	LenClass string `json:"length_class"`
	PayClass string `json:"payload_class"`
	PayLen   int    `json:"payload_bytes"`
	NoLV     bool   `json:"no_length_value,omitempty"`
}

type stream struct {
	ID      string  `json:"case"`
	Kind    string  `json:"kind"`
	Header  int     `json:"mux_header"` // -1: none
	Frames  []frame `json:"frames"`
	Bytes   []byte  `json:"-"`
	Hex     string  `json:"hex"`
	CutAt   int     `json:"cut_at,omitempty"`
	Abrupt  bool    `json:"abrupt_close,omitempty"`
	SelfDst bool    `json:"copy_from_self,omitempty"`
	Uint    bool    `json:"needs_uint_worker,omitempty"`

	// reply oracle (single well-delimited request only)
	strictType int    // request type whose reply is judged; 0 = none
	mustErr    bool   // the reply may not report success
	caseName   string // invalid-contents case name
	bigFrames  int    // frames that declare >= 16 MiB
	moved      string // service counters that moved while the stream was handled
}

func (s *stream) key() string {
	k := fmt.Sprintf("%s|h%d", s.Kind, s.Header)
	for _, f := range s.Frames {
		k += fmt.Sprintf("|%d/%s/%s", f.Type, f.LenClass, f.PayClass)
	}
	return k
}

// lengths enumerated for a payload of n bytes. "exact" is the honest frame.
type lenSpec struct {
	class string
	val   func(n int) int64
	only  string // "" | "thorough"
}

var lenSpecs = []lenSpec{
	{"exact", func(n int) int64 { return int64(n) }, ""},
	{"min-int64", func(n int) int64 { return math.MinInt64 }, ""},
	{"minus-1", func(n int) int64 { return -1 }, ""},
	{"zero", func(n int) int64 { return 0 }, ""},
	{"one", func(n int) int64 { return 1 }, ""},
	{"len-1", func(n int) int64 { return int64(n) - 1 }, ""},
	{"len+1", func(n int) int64 { return int64(n) + 1 }, ""},
	{"32MiB", func(n int) int64 { return 32 << 20 }, ""},
	{"2^31", func(n int) int64 { return 1 << 31 }, ""},
	{"max", func(n int) int64 { return maxMsg }, ""},
	{"max+1", func(n int) int64 { return maxMsg + 1 }, ""},
	{"2^62", func(n int) int64 { return 1 << 62 }, ""},
	{"max-1", func(n int) int64 { return maxMsg - 1 }, "thorough"},
}

func appendFrame(dst []byte, typ int, declared int64, payload []byte) []byte {
	dst = append(dst, byte(typ))
	if noPayload[typ] {
		return dst
	}
	var l [8]byte
	binary.BigEndian.PutUint64(l[:], uint64(declared))
	dst = append(dst, l[:]...)
	return append(dst, payload...)
}

func (s *stream) add(typ int, declared int64, lenClass, payClass string, payload []byte) {
	s.Bytes = appendFrame(s.Bytes, typ, declared, payload)
	s.Frames = append(s.Frames, frame{Type: typ, TypeName: typeName(typ), Declared: declared, LenClass: lenClass, PayClass: payClass, PayLen: len(payload), NoLV: noPayload[typ]})
	if declared >= 16<<20 && !noPayload[typ] {
		s.bigFrames++
	}
}

func newStream(kind string, header int) *stream {
	s := &stream{Kind: kind, Header: header}
	if header >= 0 {
		s.Bytes = append(s.Bytes, byte(header))
	}
	return s
}

func randBytes(g *rand.Rand, n int) []byte {
	b := make([]byte, n)
	for i := range b {
		b[i] = byte(g.Intn(256))
	}
	return b
}

// mutate applies a few byte-level edits to a valid payload.
func mutate(g *rand.Rand, p []byte) []byte {
	b := append([]byte(nil), p...)
	if len(b) == 0 {
		return randBytes(g, 1+g.Intn(8))
	}
	for k := 1 + g.Intn(3); k > 0; k-- {
		i := g.Intn(len(b))
		switch g.Intn(6) {
		case 0:
			b[i] ^= 1 << uint(g.Intn(8))
		case 1:
			b[i] = byte(g.Intn(256))
		case 2:
			b[i] = []byte{0, 0xff, 0x7f, 0x80, 1}[g.Intn(5)]
		case 3: // delete
			b = append(b[:i], b[i+1:]...)
			if len(b) == 0 {
				return b
			}
		case 4: // duplicate a run
			j := i + g.Intn(len(b)-i)
			b = append(b[:j], append(append([]byte(nil), b[i:j]...), b[j:]...)...)
		case 5: // grow a length-ish byte
			b[i] += byte(1 + g.Intn(40))
		}
	}
	return b
}

// payloadsFor returns the payload classes for one request type: name -> bytes.
type payload struct {
	class   string
	bytes   []byte
	strict  bool
	mustErr bool
	name    string
}

func payloadsFor(t int, g *rand.Rand, reps int) []payload {
	v := validPayload(t, 0)
	out := []payload{{class: "empty"}, {class: "valid", bytes: v, strict: true}}
	for k := 1; k < 4; k++ {
		if vv := validPayload(t, k); string(vv) != string(v) {
			out = append(out, payload{class: fmt.Sprintf("valid%d", k), bytes: vv, strict: true})
		}
	}
	for i := 0; i < reps; i++ {
		if len(v) > 1 {
			out = append(out, payload{class: "truncated", bytes: v[:1+g.Intn(len(v)-1)], strict: true})
		}
		out = append(out, payload{class: "random", bytes: randBytes(g, 1+g.Intn(48)), strict: true})
		out = append(out, payload{class: "mutated", bytes: mutate(g, v), strict: true})
	}
	for _, c := range invalidCases(t) {
		out = append(out, payload{class: "invalid:" + c.name, bytes: c.payload, strict: true, mustErr: c.mustErr, name: c.name})
	}
	return out
}

// generateStreams emits every stream of the run, in a deterministic order.
func generateStreams(g *rand.Rand, thorough bool, emit func(*stream)) {
	reps := 1
	if thorough {
		reps = 8
	}
	n := 0
	out := func(s *stream) {
		s.ID = fmt.Sprintf("%s/%d", s.Kind, n)
		n++
		emit(s)
	}
	hdr := int(coordinator.MuxHeader)

	// (A) every request type x payload class x declared length, one frame.
	for _, t := range requestTypes {
		for _, p := range payloadsFor(t, g, reps) {
			for _, ls := range lenSpecs {
				if ls.only == "thorough" && (!thorough || p.class != "valid" || (t != tWriteShard && t != tTagKeys && t != tCreateIterator)) {
					continue // a permitted 1 GiB allocation: the frame reader is shared, three message types are enough
				}
				// Invalid-contents payloads are about the contents: honest length and one byte short of it.
				if len(p.class) > 8 && p.class[:8] == "invalid:" && ls.class != "exact" && ls.class != "len+1" {
					continue
				}
				// A negative length never gets as far as the payload: two payload classes are enough.
				if (ls.class == "minus-1" || ls.class == "min-int64") && p.class != "empty" && p.class != "valid" {
					continue
				}
				if ls.class == "min-int64" && p.class == "empty" && !thorough {
					continue
				}
				if ls.class == "32MiB" && p.class != "valid" && p.class != "empty" {
					continue
				}
				if noPayload[t] && ls.class != "exact" {
					continue
				}
				d := ls.val(len(p.bytes))
				if (ls.class == "len-1" || ls.class == "one") && (d < 0 || d == int64(len(p.bytes))) {
					continue
				}
				s := newStream("enum", hdr)
				s.add(t, d, ls.class, p.class, p.bytes)
				if ls.class == "exact" && p.strict {
					s.strictType, s.mustErr, s.caseName = t, p.mustErr, p.name
				}
				out(s)
			}
		}
	}

	// (B) response-type numbers and unknown types: the dispatcher must skip them.
	others := []int{0, 2, 4, 22, 38, 44, 45, 46, 100, 127, 128, 200, 255}
	if thorough {
		others = others[:0]
		for t := 0; t < 256; t++ {
			if _, isReq := reqNames[t]; !isReq {
				others = append(others, t)
			}
		}
	}
	for _, t := range others {
		for _, pc := range []string{"empty", "valid", "random"} {
			var pl []byte
			switch pc {
			case "valid":
				pl = validPayload(tWriteShard, 0)
			case "random":
				pl = randBytes(g, 1+g.Intn(32))
			}
			for _, ls := range lenSpecs {
				switch ls.class {
				case "exact", "minus-1", "2^62", "len+1":
				default:
					continue
				}
				s := newStream("other-type", hdr)
				s.add(t, ls.val(len(pl)), ls.class, pc, pl)
				out(s)
			}
		}
	}

	// (C) mux header variants: anything but the coordinator's header must not reach the coordinator.
	for _, h := range []int{-1, 0, 1, 3, 4, 5, 'G', 'P', 0x16, 0x7f, 0x80, 0xff} {
		for _, t := range []int{tWriteShard, tListShards, tCreateIterator, tExecuteStatement} {
			for _, lc := range []string{"exact", "minus-1"} {
				if noPayload[t] && lc != "exact" {
					continue
				}
				pl := validPayload(t, 0)
				d := int64(len(pl))
				if lc == "minus-1" {
					d = -1
				}
				s := newStream("mux-header", h)
				s.add(t, d, lc, "valid", pl)
				out(s)
			}
		}
	}
	for _, req := range []string{"GET /status HTTP/1.1\r\nHost: x\r\n\r\n", "GET / HTTP/1.0\r\n\r\n", "POST /status HTTP/1.1\r\nHost: x\r\nContent-Length: 5\r\n\r\nab", "GET /status HTTP/1.1\r\n", "G"} {
		s := newStream("mux-http", -1)
		s.Bytes = []byte(req)
		s.Frames = []frame{{TypeName: "http", PayClass: fmt.Sprintf("http-%d", len(req)), PayLen: len(req)}}
		out(s)
	}

	// (D) abrupt close at every byte position of a valid request (and of a two-frame stream).
	for _, t := range requestTypes {
		full := newStream("cut", hdr)
		pl := validPayload(t, 0)
		full.add(t, int64(len(pl)), "exact", "valid", pl)
		if !closesAfter[t] {
			pl2 := validPayload(tWriteShard, 1)
			full.add(tWriteShard, int64(len(pl2)), "exact", "valid", pl2)
		}
		for c := 0; c <= len(full.Bytes); c++ {
			s := newStream("cut", -1)
			s.Header = hdr
			s.Bytes = append([]byte(nil), full.Bytes[:c]...)
			s.Frames = []frame{{Type: t, TypeName: typeName(t), Declared: int64(len(pl)), LenClass: "exact", PayClass: cutClass(c, len(pl), noPayload[t]), PayLen: len(pl)}}
			s.CutAt = c
			s.Abrupt = c%2 == 1 // alternate full close (RST when replies are unread) and half-close
			out(s)
		}
	}

	// (E) several frames per connection.
	nMulti := 400
	if thorough {
		nMulti = 8000
	}
	keepOpen := []int{1, 3, 5, 7, 9, 11, 13, 15, 23, 25, 27}
	for i := 0; i < nMulti; i++ {
		s := newStream("multi", hdr)
		k := 2 + g.Intn(5)
		for j := 0; j < k; j++ {
			t := keepOpen[g.Intn(len(keepOpen))]
			last := j == k-1
			if last && g.Intn(3) == 0 {
				t = requestTypes[g.Intn(len(requestTypes))]
			}
			if !last && g.Intn(12) == 0 {
				t = []int{0, 2, 44, 45, 200, 255}[g.Intn(6)]
			}
			var pl []byte
			pc := ""
			switch x := g.Intn(10); {
			case x < 4:
				pl, pc = validPayload(t, g.Intn(4)), "valid"
			case x < 6:
				pl, pc = mutate(g, validPayload(t, g.Intn(4))), "mutated"
			case x < 7:
				pl, pc = randBytes(g, g.Intn(40)), "random"
			case x < 8:
				pl, pc = nil, "empty"
			default:
				if cs := invalidCases(t); len(cs) > 0 {
					c := cs[g.Intn(len(cs))]
					pl, pc = c.payload, "invalid:"+c.name
				} else {
					pl, pc = validPayload(t, 0), "valid"
				}
			}
			d, lc := int64(len(pl)), "exact"
			if last {
				switch g.Intn(16) {
				case 0:
					d, lc = -1-int64(g.Intn(3)), "negative"
				case 1:
					d, lc = math.MinInt64+int64(g.Intn(2)), "min-int64"
				case 2, 3:
					d, lc = int64(len(pl))+1+int64(g.Intn(5)), "len+k"
				case 4, 5:
					d, lc = maxMsg+int64(g.Intn(2)), "around-max"
					if thorough && g.Intn(10) == 0 {
						d = maxMsg - 1 // a permitted 1 GiB allocation
					}
				}
			} else if g.Intn(10) == 0 && len(pl) > 0 {
				d, lc = int64(g.Intn(len(pl))), "short"
			}
			s.add(t, d, lc, pc, pl)
		}
		out(s)
	}

	// (F) seeded mutations of valid single requests, honest length: gets past framing into the decoders and handlers.
	nMut := 1500
	if thorough {
		nMut = 50000
	}
	for i := 0; i < nMut; i++ {
		t := requestTypes[g.Intn(len(requestTypes))]
		if noPayload[t] {
			t = tCreateIterator
		}
		var base []byte
		if cs := invalidCases(t); len(cs) > 0 && g.Intn(3) == 0 {
			base = cs[g.Intn(len(cs))].payload
		} else {
			base = validPayload(t, g.Intn(4))
		}
		pl := mutate(g, base)
		if g.Intn(4) == 0 {
			pl = mutate(g, pl)
		}
		s := newStream("mutated", hdr)
		s.add(t, int64(len(pl)), "exact", "mutated", pl)
		s.strictType = t
		out(s)
	}

	// (G) raw random streams after the header.
	nRand := 200
	if thorough {
		nRand = 8000
	}
	for i := 0; i < nRand; i++ {
		s := newStream("random", hdr)
		b := randBytes(g, 1+g.Intn(64))
		if g.Intn(2) == 0 { // start with a real request type so the length reader is reached
			b[0] = byte(requestTypes[g.Intn(len(requestTypes))])
		}
		if len(b) > 9 && g.Intn(8) > 0 { // mostly keep the declared length small and positive: the bytes behind it get looked at
			copy(b[1:8], make([]byte, 7))
		}
		for i := 10; i < len(b); i++ { // ... and do not start too many further frames with a sign bit in their length
			if _, isReq := reqNames[int(b[i-1])]; isReq && g.Intn(4) > 0 {
				b[i] &= 0x7f
			}
		}
		s.Bytes = append(s.Bytes, b...)
		s.Frames = []frame{{Type: int(b[0]), TypeName: typeName(int(b[0])), PayClass: "random-stream", LenClass: "random", PayLen: len(b)}}
		out(s)
	}

	// (H') a node built with unsigned-integer support (build tag uint64 == models.EnableUintSupport) that holds an
	// unsigned field: a remote iterator over it.
	{
		opt := validOpt()
		opt.Expr = &influxql.VarRef{Val: "u", Type: influxql.Unsigned}
		opt.Aux = nil
		pl := mustBin(&coordinator.CreateIteratorRequest{ShardIDs: []uint64{wShard}, Measurement: cpuMeasurement(), Opt: opt})
		s := newStream("uint", hdr)
		s.Uint = true
		s.add(tCreateIterator, int64(len(pl)), "exact", "valid-unsigned-field", pl)
		s.strictType = tCreateIterator
		out(s)
	}

	// (H) special cases.
	if thorough { // a shard copied from the node itself: the node talks to its own listener (needs the long watchdogs).
		s := newStream("special", hdr)
		s.SelfDst = true
		s.add(tCopyShard, 0, "exact", "copy-from-self", nil) // bytes are rebuilt with the worker's port at send time
		s.strictType = tCopyShard
		out(s)
	}
}

func cutClass(c, payLen int, noLV bool) string {
	switch {
	case c == 0:
		return "cut-before-header"
	case c == 1:
		return "cut-after-header"
	case noLV:
		return "cut-after-type"
	case c == 2:
		return "cut-after-type"
	case c < 10:
		return "cut-in-length"
	case c == 10:
		return "cut-after-length"
	case c < 10+payLen:
		return "cut-in-payload"
	case c == 10+payLen:
		return "cut-after-frame"
	default:
		return "cut-in-second-frame"
	}
}

// copyFromSelf builds the CopyShard request that names the worker's own listener as source.
func copyFromSelf(port int) []byte {
	pl := mustBin(&coordinator.CopyShardRequest{Host: fmt.Sprintf("127.0.0.1:%d", port), Database: wDB, Policy: wRP, ShardID: wShard, Since: time.Unix(0, 0)})
	return appendFrame([]byte{coordinator.MuxHeader}, tCopyShard, int64(len(pl)), pl)
}
